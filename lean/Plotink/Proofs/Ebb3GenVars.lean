import Plotink.Proofs.Ebb3GenMethods
import Plotink.Gen.EBB3_var_write
import Plotink.Gen.EBB3_var_read

/-! # Bridges: `var_write`, `var_read` (and the generic pieces for callers of `command` / `query` with a tail) -/

namespace Plotink
namespace Ebb3Gen
open PyObj Gen
set_option linter.unusedSimpArgs false
set_option linter.unusedVariables false

/-- the model's `(commandP … (some t)).run` with its value dropped is `cmd_` -/
theorem cmdRun_bind {α : Type} (t : List Char) (k : Ebb3.M Ebb3.Script α) (aw : Ebb3.World Ebb3.Script) :
    ((Ebb3.commandP Ebb3.srcParams Ebb3.scriptDev (some t)).run >>= fun _ => k) aw
      = (Ebb3.cmd_ Ebb3.srcParams Ebb3.scriptDev t >>= fun _ => k) aw := by
  unfold Ebb3.cmd_
  rw [Ebb3.bind_apply, Ebb3.bind_apply, Ebb3.bind_apply]
  rcases (Ebb3.commandP Ebb3.srcParams Ebb3.scriptDev (some t)).run aw with ⟨r, aw'⟩
  cases r <;> rfl

/-- `if self.err is not None: return X` -/
theorem errGuard_stmt {σ : Type} (X : Val) (fuel : Nat) (env : σ) (w : World EBB3_Obj) (ho : ObjOk w.obj) :
    ifte (fun (fuel : Nat) (env : σ) => app1 op_is_not_none (getattr (fun o : EBB3_Obj => o.err)))
      (return_ (fun fuel env => ok X)) pass fuel env w
      = if isNone w.obj.err then .norm env w else .ret X w := by
  simp only [ifte, app1, PyObj.bind, getattr_err w ho, ofP, op_is_not_none, ok, truthy_bool, return_, pass]
  cases isNone w.obj.err <;> rfl

/-- **`var_write`** -/
theorem var_write_bridge (fuel : Nat) (hf : 26 ≤ fuel) (v i : Int) (w : World EBB3_Obj) (hg : Good w) :
    Sim (EBB3_var_write fuel (.int v) (.int i) w)
      (Ebb3.run Ebb3.srcParams Ebb3.scriptDev (.var_write v i) (absWorld w)) := by
  unfold EBB3_var_write EBB3_var_write_main EBB3_var_write_if1 EBB3_var_write_if2
  rw [block_cons2, run_guard2 _ _ _ _ _ hg.obj]
  show Sim _ (Ebb3.guardM (.bool false) _ (absWorld w))
  unfold Ebb3.guardM
  show Sim _ (if (absSt w.obj).blocked = true then _ else _)
  by_cases hb : (absSt w.obj).blocked = true
  · simp only [hb, ↓reduceIte]
    exact ⟨rfl, rfl, hg⟩
  · simp only [hb, Bool.false_eq_true, ↓reduceIte]
    rw [block_cons2, block_cons2, block_one]
    have hasc : PyIO.isAscii ("SL,".toList ++ Ebb3.showInt v ++ [','] ++ Ebb3.showInt i) = true := by
      simp only [isAscii_append, isAscii_showInt, Bool.and_true]; decide
    have hs := command_stmt fuel hf ("SL,".toList ++ Ebb3.showInt v ++ [','] ++ Ebb3.showInt i) hasc
      (⟨.int v, .int i⟩ : EBB3_var_write_Env) w hg
      (fun fuel env => fstr [ok (.str ['S', 'L', ',']), ok env.value, ok (.str [',']), ok env.index]) (by fstr_eval)
    show Sim _ (((Ebb3.commandP Ebb3.srcParams Ebb3.scriptDev _).run >>= fun _ => Ebb3.errIsNone) (absWorld w))
    rw [cmdRun_bind, Ebb3.bind_apply]
    generalize Ebb3.cmd_ Ebb3.srcParams Ebb3.scriptDev _ (absWorld w) = r at hs ⊢
    obtain ⟨res, aw'⟩ := r
    cases res with
    | error ex =>
      obtain ⟨w', e1, e2, hg'⟩ := hs
      unfold PyObj.run
      rw [seq_exc e1]
      exact ⟨rfl, e2, hg'⟩
    | ok u =>
      obtain ⟨w', e1, e2, hg'⟩ := hs
      rw [run_seq_norm e1]
      simp only
      rw [← e2, errIsNone_sim w' hg'.obj]
      unfold PyObj.run seq
      rw [errGuard_stmt _ _ _ _ hg'.obj]
      cases hn : isNone w'.obj.err
      · simp only [Bool.false_eq_true, ↓reduceIte]
        exact ⟨rfl, rfl, hg'⟩
      · simp only [↓reduceIte, return_, ok_apply]
        exact ⟨rfl, rfl, hg'⟩

theorem run_query_eq (q : List Char) :
    Ebb3.run Ebb3.srcParams Ebb3.scriptDev (.query (some q)) =
      (Ebb3.queryP Ebb3.srcParams Ebb3.scriptDev (some q)).run := rfl

/-- how `x = self.query(text)` ends, against the model's `(queryP … (some text)).run` -/
def AssignSim {σ : Type} (fl : Flow EBB3_Obj σ) (env : σ) (set : σ → Val → σ) :
    Except Ebb3.PyExc Ebb3.Val × Ebb3.World Ebb3.Script → Prop
  | (.ok v, aw') => ∃ w', fl = .norm (set env (encVal v)) w' ∧ absWorld w' = aw' ∧ Good w'
  | (.error ex, aw') => ∃ w', fl = .exc (excOfEbb3 ex) env w' ∧ absWorld w' = aw' ∧ Good w'

theorem query_assign {σ : Type} (fuel : Nat) (hf : 26 ≤ fuel) (q : List Char) (hasc : PyIO.isAscii q = true) (env : σ)
    (set : σ → Val → σ) (w : World EBB3_Obj) (hg : Good w) (e : Expr EBB3_Obj σ) (he : e fuel env = ok (.str q)) :
    AssignSim (assign set (fun fuel env => mcall1 (EBB3_query fuel) (e fuel env)) fuel env w) env set
      ((Ebb3.queryP Ebb3.srcParams Ebb3.scriptDev (some q)).run (absWorld w)) := by
  have hb := query_bridge_ascii fuel hf (some q) (fun s hs => by injection hs with hs; rw [← hs]; exact hasc) w hg
  rw [run_query_eq] at hb
  simp only [assign, he, mcall1_ok_apply]
  simp only [encReq] at hb
  generalize EBB3_query fuel (.str q) w = out at hb ⊢
  generalize (Ebb3.queryP Ebb3.srcParams Ebb3.scriptDev (some q)).run (absWorld w) = r at hb ⊢
  obtain ⟨res, aw'⟩ := r
  cases out with
  | fuelOut => cases res <;> exact hb.elim
  | val v w' =>
    cases res with
    | error ex => exact hb.elim
    | ok v' =>
      obtain ⟨h1, h2, h3⟩ := hb
      exact ⟨w', by simp only [ofOut_val, h1], h2, h3⟩
  | exc c w' =>
    cases res with
    | ok v' => exact hb.elim
    | error ex =>
      obtain ⟨h1, h2, h3⟩ := hb
      exact ⟨w', by simp only [ofOut_exc, h1], h2, h3⟩

theorem isSome_err (w : World EBB3_Obj) (ho : ObjOk w.obj) : (absWorld w).st.err.isSome = !isNone w.obj.err := by
  have he := ho.err
  simp only [absWorld, absSt]
  cases herr : w.obj.err <;> rw [herr] at he <;> simp_all [IsOptStr, isNone, absOpt]

/-- `int(value)` on what `query` returned -/
theorem b_int_sim (v : Ebb3.Val) (aw : Ebb3.World Ebb3.Script) :
    (∃ z, b_int (encVal v) = .ok (.int z) ∧ Ebb3.intOfVal v aw = (.ok (.int z), aw)) ∨
    (∃ e, b_int (encVal v) = .error (excOfEbb3 e) ∧ Ebb3.intOfVal v aw = (.error e, aw)) := by
  cases v with
  | none => right; exact ⟨.typeError, rfl, rfl⟩
  | bool b => left; exact ⟨_, rfl, rfl⟩
  | int z => left; exact ⟨_, rfl, rfl⟩
  | pair a b => right; exact ⟨.typeError, rfl, rfl⟩
  | str s =>
    cases h : Ebb3.pyInt 10 s with
    | some z => left; exact ⟨z, by simp [b_int, encVal, h], by simp [Ebb3.intOfVal, h]⟩
    | none => right; exact ⟨.valueError, by simp [b_int, encVal, h, excOfEbb3], by simp [Ebb3.intOfVal, h]⟩

theorem encVal_ne_unbound (v : Ebb3.Val) : encVal v ≠ .unbound := by
  cases v <;> simp [encVal]

/-- **`var_read`** -/
theorem var_read_bridge (fuel : Nat) (hf : 26 ≤ fuel) (i : Int) (w : World EBB3_Obj) (hg : Good w) :
    Sim (EBB3_var_read fuel (.int i) w)
      (Ebb3.run Ebb3.srcParams Ebb3.scriptDev (.var_read i) (absWorld w)) := by
  unfold EBB3_var_read EBB3_var_read_main EBB3_var_read_if1 EBB3_var_read_if2
  rw [block_cons2, run_guard2 _ _ _ _ _ hg.obj]
  show Sim _ (Ebb3.guardM .none _ (absWorld w))
  unfold Ebb3.guardM
  show Sim _ (if (absSt w.obj).blocked = true then _ else _)
  by_cases hb : (absSt w.obj).blocked = true
  · simp only [hb, ↓reduceIte]
    exact ⟨rfl, rfl, hg⟩
  · simp only [hb, Bool.false_eq_true, ↓reduceIte]
    rw [block_cons2, block_cons2, block_one]
    have hasc : PyIO.isAscii ("QL,".toList ++ Ebb3.showInt i) = true := isAscii_lit_int _ _ (by decide)
    have hs := query_assign fuel hf ("QL,".toList ++ Ebb3.showInt i) hasc
      (⟨.int i, .unbound⟩ : EBB3_var_read_Env) (fun env v => { env with value := v }) w hg
      (fun fuel env => fstr [ok (.str ['Q', 'L', ',']), ok env.index]) (by fstr_eval)
    show Sim _ (((Ebb3.queryP Ebb3.srcParams Ebb3.scriptDev _).run >>= fun v => Ebb3.M.getSt >>= fun st =>
      if st.err.isSome = true then pure Ebb3.Val.none else Ebb3.intOfVal v) (absWorld w))
    rw [Ebb3.bind_apply]
    generalize (Ebb3.queryP Ebb3.srcParams Ebb3.scriptDev _).run (absWorld w) = r at hs ⊢
    obtain ⟨res, aw'⟩ := r
    cases res with
    | error ex =>
      obtain ⟨w', e1, e2, hg'⟩ := hs
      unfold PyObj.run
      rw [seq_exc e1]
      exact ⟨rfl, e2, hg'⟩
    | ok v =>
      obtain ⟨w', e1, e2, hg'⟩ := hs
      rw [run_seq_norm e1]
      simp only
      rw [← e2, Ebb3.bind_apply, Ebb3.getSt_apply]
      simp only [isSome_err w' hg'.obj]
      unfold PyObj.run seq
      rw [errGuard_stmt _ _ _ _ hg'.obj]
      cases hn : isNone w'.obj.err
      · simp only [Bool.false_eq_true, ↓reduceIte, Bool.not_false, return_, ok_apply]
        exact ⟨rfl, rfl, hg'⟩
      · simp only [↓reduceIte, Bool.not_true, Bool.false_eq_true, return_, load_of_bound (encVal_ne_unbound v), app1_ok]
        rcases b_int_sim v (absWorld w') with ⟨z, h1, h2⟩ | ⟨e, h1, h2⟩
        · rw [h1, h2]
          exact ⟨rfl, rfl, hg'⟩
        · rw [h1, h2]
          exact ⟨rfl, rfl, hg'⟩

end Ebb3Gen
end Plotink
