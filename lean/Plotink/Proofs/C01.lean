import Plotink.Gen.move_dist_lt
import Plotink.Gen.moveDistLM
import Plotink.Gen.moveDistLMA
import Plotink.Model.Firmware
import Plotink.Proofs.PyLemmas
import Plotink.Proofs.Contract
import Mathlib.Tactic.Linarith
import Mathlib.Tactic.Ring
import Mathlib.Tactic.NormNum
import Mathlib.Tactic.Positivity
import Mathlib.Tactic.Push
import Mathlib.Tactic.SplitIfs
import Mathlib.Data.Rat.Floor
import Mathlib.Algebra.Order.Floor.Ring

/-! # Lemmas for C01 (timed-move prediction = firmware recurrence)

* algebra of the recurrence `Fw.lt` (closed forms of rate and total);
* the clear rule: the code's two-level test decides the sequence predicate `Fw.firstMotionBackward`,
  for any look-ahead `fuel ≥ 2`;
* the numeric bridge: under `ContractExact R` and the magnitude envelope, every one of the rounding
  sites of the *generated* `Gen.move_dist_lt` is applied to an integer or half-integer below `2^103`
  (resp. `2^53`) and therefore drops out.
-/

namespace Plotink
open Py Py.Val

/-! ## the recurrence -/

theorem lt_closed (accel r0 a0 : Int) (T : Nat) :
    (Fw.lt accel T (r0, a0)).1 = r0 + T * accel ∧
    2 * (Fw.lt accel T (r0, a0)).2 = 2 * a0 + 2 * T * r0 + accel * T * (T + 1) := by
  induction T with
  | zero => simp [Fw.lt]
  | succ k ih =>
    obtain ⟨h1, h2⟩ := ih
    simp only [Fw.lt]
    constructor
    · rw [h1]; push_cast; ring
    · push_cast
      have : 2 * ((Fw.lt accel k (r0, a0)).2 + ((Fw.lt accel k (r0, a0)).1 + accel))
          = 2 * (Fw.lt accel k (r0, a0)).2 + 2 * ((Fw.lt accel k (r0, a0)).1 + accel) := by ring
      rw [this, h2, h1]; ring

/-- per-tick rate is an arithmetic progression -/
theorem ltRate_closed (rate accel : Int) (k : Nat) :
    Fw.ltRate rate accel k = rate - Fw.tdiv accel 2 + k * accel := by
  unfold Fw.ltRate
  exact (lt_closed accel _ 0 k).1

/-- the rate component of the recurrence does not depend on the start accumulator -/
theorem lt_rate_indep (accel r0 a0 b0 : Int) (T : Nat) :
    (Fw.lt accel T (r0, a0)).1 = (Fw.lt accel T (r0, b0)).1 := by
  rw [(lt_closed accel r0 a0 T).1, (lt_closed accel r0 b0 T).1]

/-- twice the total, in closed form -/
theorem ltTotal_closed (rate accel : Int) (T : Nat) (a0 : Int) :
    2 * Fw.ltTotal rate accel T a0 =
      2 * a0 + 2 * T * (rate - Fw.tdiv accel 2) + accel * T * (T + 1) := by
  unfold Fw.ltTotal
  exact (lt_closed accel _ a0 T).2

/-- the total is the start accumulator plus the sum of the per-tick rates (unfolding of one tick) -/
theorem ltTotal_succ (rate accel : Int) (T : Nat) (a0 : Int) :
    Fw.ltTotal rate accel (T + 1) a0 = Fw.ltTotal rate accel T a0 + Fw.ltRate rate accel (T + 1) := by
  unfold Fw.ltTotal Fw.ltRate
  simp only [Fw.lt]
  rw [lt_rate_indep accel _ a0 0 T]

theorem tdiv2_bound (a : Int) : |Fw.tdiv a 2| ≤ |a| := by
  unfold Fw.tdiv
  split <;> (rw [abs_le]; constructor <;> (cases abs_cases a <;> omega))

/-! ## the clear rule -/

/-- the clear value exactly as the code computes it (two-level test on the tick-1 rate, then `accel`) -/
def codeClear (rate accel : Int) : Int :=
  let r1 := rate - Fw.tdiv accel 2 + accel
  if r1 < 0 then 2147483647 else if r1 = 0 then (if accel < 0 then 2147483647 else 0) else 0

theorem codeClear_range (rate accel : Int) :
    0 ≤ codeClear rate accel ∧ codeClear rate accel < 2 ^ 31 := by
  unfold codeClear; simp only; split_ifs <;> norm_num

/-- "first non-zero motion is backward", stated on the sequence with no bound on the look-ahead -/
def BackwardFirst (rates : Nat → Int) : Prop :=
  ∃ k, 1 ≤ k ∧ rates k < 0 ∧ ∀ j, 1 ≤ j → j < k → rates j = 0

/-- the bounded search finds exactly a witness within its window -/
theorem firstMotionBackward_iff (rates : Nat → Int) (k fuel : Nat) :
    Fw.firstMotionBackward rates k fuel = true ↔
      ∃ m, k ≤ m ∧ m < k + fuel ∧ rates m < 0 ∧ ∀ j, k ≤ j → j < m → rates j = 0 := by
  induction fuel generalizing k with
  | zero =>
    simp only [Fw.firstMotionBackward, Bool.false_eq_true, false_iff]
    rintro ⟨m, h1, h2, _⟩; omega
  | succ f ih =>
    simp only [Fw.firstMotionBackward]
    by_cases hn : rates k < 0
    · simp only [hn, if_true, true_iff]
      exact ⟨k, le_refl _, by omega, hn, fun j h1 h2 => by omega⟩
    · by_cases hp : rates k > 0
      · simp only [hn, hp, if_false, if_true, Bool.false_eq_true, false_iff]
        rintro ⟨m, h1, _, h3, h4⟩
        rcases Nat.eq_or_lt_of_le h1 with rfl | hlt
        · exact hn h3
        · have := h4 k (le_refl _) hlt; omega
      · have hz : rates k = 0 := by omega
        simp only [hn, hp, if_false]
        rw [ih (k + 1)]
        constructor
        · rintro ⟨m, h1, h2, h3, h4⟩
          refine ⟨m, by omega, by omega, h3, fun j hj1 hj2 => ?_⟩
          rcases Nat.eq_or_lt_of_le hj1 with rfl | hlt
          · exact hz
          · exact h4 j hlt hj2
        · rintro ⟨m, h1, h2, h3, h4⟩
          rcases Nat.eq_or_lt_of_le h1 with rfl | hlt
          · exact absurd h3 hn
          · exact ⟨m, hlt, by omega, h3, fun j hj1 hj2 => h4 j (by omega) hj2⟩

/-- for an LT move the first non-zero rate, if negative, occurs at tick 1 or 2 -/
theorem lt_backward_witness_le_two (rate accel : Int) (m : Nat) (_hm1 : 1 ≤ m)
    (hneg : Fw.ltRate rate accel m < 0) (hz : ∀ j, 1 ≤ j → j < m → Fw.ltRate rate accel j = 0) :
    m ≤ 2 := by
  by_contra hgt
  have h1 := hz 1 (le_refl _) (by omega)
  have h2 := hz 2 (by omega) (by omega)
  rw [ltRate_closed] at h1 h2 hneg
  push_cast at h1 h2
  have ha : accel = 0 := by linarith
  rw [ha] at hneg h1
  simp at hneg h1
  omega

/-- any look-ahead of at least two ticks gives the same answer as two ticks -/
theorem firstMotionBackward_fuel (rate accel : Int) (fuel : Nat) (hf : 2 ≤ fuel) :
    Fw.firstMotionBackward (Fw.ltRate rate accel) 1 fuel = Fw.firstMotionBackward (Fw.ltRate rate accel) 1 2 := by
  rw [Bool.eq_iff_iff, firstMotionBackward_iff, firstMotionBackward_iff]
  constructor
  · rintro ⟨m, h1, _, h3, h4⟩
    have := lt_backward_witness_le_two rate accel m h1 h3 h4
    exact ⟨m, h1, by omega, h3, h4⟩
  · rintro ⟨m, h1, h2, h3, h4⟩
    exact ⟨m, h1, by omega, h3, h4⟩

/-- the two-tick search decides the unbounded sequence predicate -/
theorem firstMotionBackward_two_iff (rate accel : Int) :
    Fw.firstMotionBackward (Fw.ltRate rate accel) 1 2 = true ↔ BackwardFirst (Fw.ltRate rate accel) := by
  rw [firstMotionBackward_iff]
  constructor
  · rintro ⟨m, h1, _, h3, h4⟩; exact ⟨m, h1, h3, h4⟩
  · rintro ⟨m, h1, h3, h4⟩
    exact ⟨m, h1, by have := lt_backward_witness_le_two rate accel m h1 h3 h4; omega, h3, h4⟩

/-- the code's two-level test computes the Spec's clear value -/
theorem codeClear_eq_ltClear (rate accel : Int) : codeClear rate accel = Fw.ltClear rate accel := by
  unfold codeClear Fw.ltClear
  simp only [Fw.firstMotionBackward, Fw.two31]
  have e1 : Fw.ltRate rate accel 1 = rate - Fw.tdiv accel 2 + accel := by
    rw [ltRate_closed]; push_cast; ring
  have e2 : Fw.ltRate rate accel (1 + 1) = rate - Fw.tdiv accel 2 + 2 * accel := by
    rw [ltRate_closed]; push_cast; ring
  simp only [e1, e2]
  generalize rate - Fw.tdiv accel 2 = r
  by_cases h1 : r + accel < 0
  · simp [h1]
  · by_cases h2 : r + accel = 0
    · have h4 : r + 2 * accel = accel := by omega
      simp only [h2, h4, if_false, if_true, lt_self_iff_false, gt_iff_lt]
      by_cases h5 : accel < 0
      · simp [h5]
      · simp [h5]
    · have h3 : r + accel > 0 := by omega
      simp [h1, h2, h3]

/-! ## `int()` of exact values -/

theorem intOfRat_int (n : Int) : Py.intOfRat (n : Rat) = n := by
  unfold Py.intOfRat
  split
  · simp [Rat.floor_intCast]
  · have : (-(n : Rat)) = ((-n : Int) : Rat) := by push_cast; ring
    rw [this, Rat.floor_intCast]; ring

theorem intOfRat_half (a : Int) : Py.intOfRat ((a : Rat) / 2) = Fw.tdiv a 2 := by
  unfold Py.intOfRat Fw.tdiv
  split <;> rename_i h
  · have ha : 0 ≤ a := by
      by_contra hn; push Not at hn
      have : (a : Rat) / 2 < 0 := by
        have : (a : Rat) < 0 := by exact_mod_cast hn
        linarith
      linarith
    simp only [ha, if_true]
    have := Rat.floor_intCast_div_natCast a 2
    have e : ((a : Rat) / 2).floor = ⌊((a : Rat) / ((2 : Nat) : Rat))⌋ := by norm_num; rfl
    rw [e, this]; norm_num
  · have ha : ¬ (0 ≤ a) := by
      intro hn; apply h
      have : (0 : Rat) ≤ a := by exact_mod_cast hn
      positivity
    simp only [ha, if_false]
    have := Rat.floor_intCast_div_natCast (-a) 2
    have e : (-((a : Rat) / 2)).floor = ⌊(((-a : Int) : Rat) / ((2 : Nat) : Rat))⌋ := by
      have : -((a : Rat) / 2) = ((-a : Int) : Rat) / ((2 : Nat) : Rat) := by push_cast; ring
      rw [this]; rfl
    rw [e, this]; norm_num

/-! ## evaluation of the dynamic dispatch where a side condition is needed -/

theorem div_int_int (R : Rounding) (p) (a b : Int) (hb : (b : Rat) ≠ 0) :
    Py.truediv R p (.int a) (.int b) = .flt (R.f64 ((a : Rat) / (b : Rat))) := by
  simp [Py.truediv, Py.num, hb, Py.join, Py.kind]
theorem div_mpf_int (R : Rounding) (p) (a : Rat) (b : Int) (hb : (b : Rat) ≠ 0) :
    Py.truediv R p (.mpf a) (.int b) = .mpf (R.mp p (a / (b : Rat))) := by
  simp [Py.truediv, Py.num, hb, Py.join, Py.kind, Py.pack]
theorem div_mpf_mpf (R : Rounding) (p) (a b : Rat) (hb : b ≠ 0) :
    Py.truediv R p (.mpf a) (.mpf b) = .mpf (R.mp p (a / b)) := by
  simp [Py.truediv, Py.num, hb, Py.join, Py.kind, Py.pack]
theorem eq_int_int (a b : Int) : Py.eq (.int a) (.int b) = decide (a = b) := by
  simp [Py.eq, Py.num]
theorem lt_int_int (a b : Int) : Py.lt (.int a) (.int b) = decide (a < b) := by
  simp [Py.lt, Py.num]

theorem dpsToPrec_30 : Py.dpsToPrec 30 = 103 := by decide

/-! ## the numeric bridge -/

section
variable {R : Rounding} (hR : ContractExact R)
include hR

theorem mp_int (n : Int) (h : |n| < 2 ^ 103) : R.mp 103 (n : Rat) = n :=
  hR.mp_exact 103 _ (rep_int 103 n h)

theorem mp_half (n : Int) (h : |n| < 2 ^ 103) : R.mp 103 ((n : Rat) / 2) = (n : Rat) / 2 :=
  hR.mp_exact 103 _ (rep_half 103 n h)

/-- `accel / 2` as one binary64 quotient is exact below `2^53` -/
theorem half_exact (accel : Int) (ha : |accel| ≤ 2 ^ 32) :
    R.f64 ((accel : Rat) / 2) = (accel : Rat) / 2 := by
  apply hR.f64_exact; apply rep_half
  calc |accel| ≤ 2 ^ 32 := ha
    _ < 2 ^ 53 := by norm_num
end

theorem abs_mul_le {a b : Int} {x y : Int} (hx : |x| ≤ a) (hy : |y| ≤ b) : |x * y| ≤ a * b := by
  rw [abs_mul]
  exact mul_le_mul hx hy (abs_nonneg _) (le_trans (abs_nonneg _) hx)

/-- `time == 0` returns `(0, 0)` whatever the other arguments are (outside the property, T ≥ 1) -/
theorem move_dist_lt_zero (R : Rounding) (ambient : Nat) (rate accel : Int) (acc : Val) :
    Gen.move_dist_lt R ambient (.int rate) (.int accel) (.int 0) acc = .tup [.int 0, .int 0] := by
  unfold Gen.move_dist_lt
  simp only [int_int, eq_int_int, decide_true, ↓reduceIte]

/-- the `"clear"` case is the explicit-accumulator case started from the code's clear value -/
theorem move_dist_lt_clear {R : Rounding} (hR : ContractExact R) (ambient : Nat) (rate accel T : Int)
    (ha : |accel| ≤ 2 ^ 32) :
    Gen.move_dist_lt R ambient (.int rate) (.int accel) (.int T) (.str "clear") =
      Gen.move_dist_lt R ambient (.int rate) (.int accel) (.int T) (.int (codeClear rate accel)) := by
  have h2 : ((2 : Int) : Rat) ≠ 0 := by norm_num
  have hs : Py.eq (.str "clear") (.str "clear") = true := by decide
  unfold Gen.move_dist_lt codeClear
  simp only [int_int, eq_int_str, hs, Bool.false_eq_true, ↓reduceIte, div_int_int _ _ _ _ h2, int_flt,
    Int.cast_ofNat, half_exact hR accel ha, intOfRat_half, sub_int_int, add_int_int, lt_int_int, eq_int_int]
  by_cases h1 : rate - Fw.tdiv accel 2 + accel < 0
  · simp only [h1, decide_true, ↓reduceIte]
  · by_cases h3 : rate - Fw.tdiv accel 2 + accel = 0
    · by_cases h5 : accel < 0
      · simp only [h3, h5, decide_true, decide_false, lt_self_iff_false, Bool.false_eq_true, ↓reduceIte]
      · simp only [h3, h5, decide_true, decide_false, lt_self_iff_false, Bool.false_eq_true, ↓reduceIte]
    · simp only [h1, h3, decide_false, Bool.false_eq_true, ↓reduceIte]

/-- explicit start accumulator: the generated code returns `(tot / 2^31, tot % 2^31)` for the firmware total -/
theorem move_dist_lt_core {R : Rounding} (hR : ContractExact R) (ambient : Nat) (rate accel T a0 : Int)
    (hT1 : 1 ≤ T) (hT : T ≤ 2 ^ 32) (hr : |rate| ≤ 2 ^ 32) (ha : |accel| ≤ 2 ^ 32)
    (ha0r : 0 ≤ a0 ∧ a0 < 2 ^ 31) :
    Gen.move_dist_lt R ambient (.int rate) (.int accel) (.int T) (.int a0) =
      .tup [.int (Fw.ltTotal rate accel T.toNat a0 / 2147483648),
            .int (Fw.ltTotal rate accel T.toNat a0 % 2147483648)] := by
  have hT0 : T ≠ 0 := by omega
  have h2 : ((2 : Int) : Rat) ≠ 0 := by norm_num
  have h31 : (2147483648 : Rat) ≠ 0 := by norm_num
  have hf := half_exact hR accel ha
  set h := Fw.tdiv accel 2 with hh
  have hhb : |h| ≤ 2 ^ 32 := le_trans (tdiv2_bound accel) ha
  have hTa : |T| ≤ 2 ^ 32 := by rw [abs_le]; constructor <;> omega
  have e12 : R.mp 103 (2147483648 : Rat) = 2147483648 := by
    have : (2147483648 : Rat) = ((2147483648 : Int) : Rat) := by norm_num
    rw [this]; exact mp_int hR _ (by norm_num)
  unfold Gen.move_dist_lt
  -- evaluate the dynamic typing; what remains is a nest of `R.mp 103 (…)` around rational expressions
  simp only [int_int, eq_int_int, hT0, decide_false, eq_int_str, dpsToPrec_30, Bool.false_eq_true, ↓reduceIte,
    div_int_int _ _ _ _ h2, int_flt, mpf_int, div_mpf_int _ _ _ _ h2, add_int_mpf, sub_mpf_int, mul_mpf_int,
    add_mpf_mpf, Int.cast_ofNat, e12, div_mpf_mpf _ _ _ _ h31, floor_mpf, mpf_mpf, mul_int_mpf, sub_mpf_mpf,
    int_mpf, hf, intOfRat_half, ← hh]
  -- rounding sites, inside out
  have e1 : R.mp 103 (accel : Rat) = accel := mp_int hR accel (lt_of_le_of_lt ha (by norm_num))
  have e2 : R.mp 103 ((accel : Rat) / 2) = (accel : Rat) / 2 := mp_half hR accel (lt_of_le_of_lt ha (by norm_num))
  have b3 : |2 * rate + accel| < 2 ^ 103 := by
    have := abs_add_le (2 * rate) accel
    have : |2 * rate| ≤ 2 ^ 33 := by rw [abs_mul]; norm_num; linarith
    linarith [ha]
  have e3 : R.mp 103 ((rate : Rat) + (accel : Rat) / 2) = (rate : Rat) + (accel : Rat) / 2 := by
    have : (rate : Rat) + (accel : Rat) / 2 = ((2 * rate + accel : Int) : Rat) / 2 := by push_cast; ring
    rw [this]; exact mp_half hR _ b3
  set k : Int := 2 * rate + accel - 2 * h with hk
  have bk : |k| ≤ 2 ^ 35 := by
    have h1 : |2 * rate| ≤ 2 ^ 33 := by rw [abs_mul]; norm_num; linarith
    have h2 : |2 * h| ≤ 2 ^ 33 := by rw [abs_mul]; norm_num; linarith
    have := abs_sub (2 * rate + accel) (2 * h)
    have := abs_add_le (2 * rate) accel
    rw [hk]; linarith
  have e4 : R.mp 103 ((rate : Rat) + (accel : Rat) / 2 - (h : Rat)) = (k : Rat) / 2 := by
    have : (rate : Rat) + (accel : Rat) / 2 - (h : Rat) = (k : Rat) / 2 := by rw [hk]; push_cast; ring
    rw [this]; exact mp_half hR _ (lt_of_le_of_lt bk (by norm_num))
  have e5 : R.mp 103 (a0 : Rat) = a0 :=
    mp_int hR a0 (by rw [abs_lt]; constructor <;> linarith [ha0r.1, ha0r.2])
  have bkT : |k * T| ≤ 2 ^ 35 * 2 ^ 32 := abs_mul_le bk hTa
  have e6 : R.mp 103 ((k : Rat) / 2 * (T : Rat)) = ((k * T : Int) : Rat) / 2 := by
    have : (k : Rat) / 2 * (T : Rat) = ((k * T : Int) : Rat) / 2 := by push_cast; ring
    rw [this]; exact mp_half hR _ (lt_of_le_of_lt bkT (by norm_num))
  have b7 : |2 * a0 + k * T| ≤ 2 ^ 32 + 2 ^ 35 * 2 ^ 32 := by
    have := abs_add_le (2 * a0) (k * T)
    have : |2 * a0| ≤ 2 ^ 32 := by rw [abs_le]; constructor <;> linarith [ha0r.1, ha0r.2]
    linarith
  have e7 : R.mp 103 ((a0 : Rat) + ((k * T : Int) : Rat) / 2) = ((2 * a0 + k * T : Int) : Rat) / 2 := by
    have : (a0 : Rat) + ((k * T : Int) : Rat) / 2 = ((2 * a0 + k * T : Int) : Rat) / 2 := by push_cast; ring
    rw [this]; exact mp_half hR _ (lt_of_le_of_lt b7 (by norm_num))
  have baT : |accel * T| ≤ 2 ^ 32 * 2 ^ 32 := abs_mul_le ha hTa
  have e8 : R.mp 103 ((accel : Rat) * (T : Rat)) = ((accel * T : Int) : Rat) := by
    have : (accel : Rat) * (T : Rat) = ((accel * T : Int) : Rat) := by push_cast; ring
    rw [this]; exact mp_int hR _ (lt_of_le_of_lt baT (by norm_num))
  have baTT : |accel * T * T| ≤ 2 ^ 32 * 2 ^ 32 * 2 ^ 32 := abs_mul_le baT hTa
  have e9 : R.mp 103 (((accel * T : Int) : Rat) * (T : Rat)) = ((accel * T * T : Int) : Rat) := by
    have : ((accel * T : Int) : Rat) * (T : Rat) = ((accel * T * T : Int) : Rat) := by push_cast; ring
    rw [this]; exact mp_int hR _ (lt_of_le_of_lt baTT (by norm_num))
  have e10 : R.mp 103 (((accel * T * T : Int) : Rat) / 2) = ((accel * T * T : Int) : Rat) / 2 :=
    mp_half hR _ (lt_of_le_of_lt baTT (by norm_num))
  set N : Int := 2 * a0 + k * T + accel * T * T with hN
  have bN : |N| ≤ 2 ^ 32 + 2 ^ 35 * 2 ^ 32 + 2 ^ 32 * 2 ^ 32 * 2 ^ 32 := by
    have := abs_add_le (2 * a0 + k * T) (accel * T * T)
    rw [hN]; linarith
  have e11 : R.mp 103 (((2 * a0 + k * T : Int) : Rat) / 2 + ((accel * T * T : Int) : Rat) / 2) = (N : Rat) / 2 := by
    have : ((2 * a0 + k * T : Int) : Rat) / 2 + ((accel * T * T : Int) : Rat) / 2 = (N : Rat) / 2 := by
      rw [hN]; push_cast; ring
    rw [this]; exact mp_half hR _ (lt_of_le_of_lt bN (by norm_num))
  simp only [e1, e2, e3, e4, e5, e6, e7, e8, e9, e10, e11]
  -- N is even: N = 2 * tot
  have hc2 := ltTotal_closed rate accel T.toNat a0
  have hTn : ((T.toNat : Nat) : Int) = T := Int.toNat_of_nonneg (by omega)
  rw [hTn, ← hh] at hc2
  set tot := Fw.ltTotal rate accel T.toNat a0 with htot
  have hNt : N = 2 * tot := by rw [hc2, hN, hk]; ring
  have hN2 : (N : Rat) / 2 = (tot : Rat) := by rw [hNt]; push_cast; ring
  rw [hN2]
  have btot : |tot| < 2 ^ 103 := by
    have : |N| = 2 * |tot| := by rw [hNt, abs_mul]; norm_num
    have h0 := abs_nonneg tot
    have : |tot| ≤ |N| := by linarith
    exact lt_of_le_of_lt (le_trans this bN) (by norm_num)
  have e13 : R.mp 103 ((tot : Rat) / 2147483648) = (tot : Rat) / 2147483648 := by
    apply hR.mp_exact
    have : (tot : Rat) / 2147483648 = (tot : Rat) / 2 ^ 31 := by norm_num
    rw [this]; exact rep_div_pow2 103 tot 31 btot
  have e14 : ((tot : Rat) / 2147483648).floor = tot / 2147483648 := by
    have := Rat.floor_intCast_div_natCast tot 2147483648
    have e : ((tot : Rat) / 2147483648).floor = ⌊((tot : Rat) / ((2147483648 : Nat) : Rat))⌋ := by norm_num; rfl
    rw [e, this]; norm_num
  set pos : Int := tot / 2147483648 with hpos
  have bpos : |pos| < 2 ^ 103 := by
    have : |pos| ≤ |tot| := by
      rw [hpos, abs_le]; constructor <;> (cases abs_cases tot <;> omega)
    exact lt_of_le_of_lt this btot
  have e15 : R.mp 103 (pos : Rat) = pos := mp_int hR _ bpos
  have bp2 : |2147483648 * pos| < 2 ^ 103 := by
    have h1 : |2147483648 * pos| ≤ |tot| + 2147483648 := by
      rw [hpos, abs_le]; constructor <;> (cases abs_cases tot <;> omega)
    have : |tot| ≤ 2 ^ 32 + 2 ^ 35 * 2 ^ 32 + 2 ^ 32 * 2 ^ 32 * 2 ^ 32 := by
      have : |N| = 2 * |tot| := by rw [hNt, abs_mul]; norm_num
      have h0 := abs_nonneg tot
      linarith
    have h2 : |2147483648 * pos| ≤ 2 ^ 32 + 2 ^ 35 * 2 ^ 32 + 2 ^ 32 * 2 ^ 32 * 2 ^ 32 + 2147483648 := by linarith
    exact lt_of_le_of_lt h2 (by norm_num)
  have e16 : R.mp 103 ((2147483648 : Rat) * (pos : Rat)) = ((2147483648 * pos : Int) : Rat) := by
    have : (2147483648 : Rat) * (pos : Rat) = ((2147483648 * pos : Int) : Rat) := by push_cast; ring
    rw [this]; exact mp_int hR _ bp2
  have hrem : tot - 2147483648 * pos = tot % 2147483648 := by rw [hpos]; omega
  have e17 : R.mp 103 ((tot : Rat) - ((2147483648 * pos : Int) : Rat)) = ((tot % 2147483648 : Int) : Rat) := by
    have : (tot : Rat) - ((2147483648 * pos : Int) : Rat) = ((tot % 2147483648 : Int) : Rat) := by
      rw [← hrem]; push_cast; ring
    rw [this]; exact mp_int hR _ (by rw [abs_lt]; constructor <;> omega)
  simp only [e13, e14, e15, e16, e17, intOfRat_int]

end Plotink
