import Plotink.Proofs.Ebb3GenUtil
import Plotink.Gen.EBB3_query

/-! # Bridge: regenerated `EBB3.query` = `Ebb3.run … (.query req)`  (same plan as `command_bridge`) -/

namespace Plotink
namespace Ebb3Gen
open PyObj Gen
set_option linter.unusedSimpArgs false
set_option linter.unusedVariables false

theorem msg_qryTimeout (c : List Char) : Ebb3.Msg.qryTimeout c = ['E', 'B', 'B', ' ', 'S', 'e', 'r', 'i', 'a', 'l', ' ', 'T', 'i', 'm', 'e', 'o', 'u', 't', ' ', 'a', 'f', 't', 'e', 'r', ' ', 'q', 'u', 'e', 'r', 'y', ':', ' '] ++ c := by
  unfold Ebb3.Msg.qryTimeout; rw [lit_qryTimeoutA]
theorem msg_qryUsb (c : List Char) : Ebb3.Msg.qryUsb c = ['U', 'S', 'B', ' ', 'c', 'o', 'm', 'm', 'u', 'n', 'i', 'c', 'a', 't', 'i', 'o', 'n', ' ', 'e', 'r', 'r', 'o', 'r', ' ', 'a', 'f', 't', 'e', 'r', ' ', 'q', 'u', 'e', 'r', 'y', ':', ' '] ++ c := by
  unfold Ebb3.Msg.qryUsb; rw [lit_qryUsbA]
theorem msg_qryUnexpected (c r : List Char) : Ebb3.Msg.qryUnexpected c r = ['\n', 'U', 'n', 'e', 'x', 'p', 'e', 'c', 't', 'e', 'd', ' ', 'r', 'e', 's', 'p', 'o', 'n', 's', 'e', ' ', 'f', 'r', 'o', 'm', ' ', 'E', 'B', 'B', '.', ' ', ' ', ' ', ' ', 'Q', 'u', 'e', 'r', 'y', ':', ' '] ++ c ++ ['\n', ' ', ' ', ' ', ' ', 'R', 'e', 's', 'p', 'o', 'n', 's', 'e', ':', ' '] ++ r := by
  unfold Ebb3.Msg.qryUnexpected; rw [lit_qryUnexpectedA, lit_respB]

theorem qry_lens : Lens (σ := EBB3_query_Env) (·.response) (·.n_retry_count)
    (fun env v => { env with response := v }) (fun env v => { env with n_retry_count := v }) :=
  ⟨fun _ _ => rfl, fun _ _ => rfl, fun _ _ => rfl, fun _ _ => rfl, fun _ _ _ => rfl, fun _ _ _ => rfl,
   fun _ _ _ => rfl, fun _ => rfl⟩

theorem qry_test1_eq : EBB3_query_test1 = retryTest (σ := EBB3_query_Env) (·.response) (·.n_retry_count) 25 := rfl
theorem qry_body1_eq : EBB3_query_body1 = retryBody (σ := EBB3_query_Env) (·.n_retry_count)
    (fun env v => { env with response := v }) (fun env v => { env with n_retry_count := v }) := rfl

theorem srcRetryQry : Ebb3.srcParams.retryQry = 25 := rfl
theorem srcIgnoreQry : Ebb3.srcParams.ignoreQry = [['r', 'b'], ['r'], ['b', 'l']] := by decide

/-- name selection = `Ebb3.cmdName` -/
theorem qry_if2 (fuel : Nat) (env : EBB3_query_Env) (c : List Char) (hc : env.qry = .str c) (w : World EBB3_Obj) :
    EBB3_query_if2 fuel env w =
      (match Ebb3.cmdName c with
       | .ok name => .norm { env with qry_name := .str name } w
       | .error e => .exc (excOfEbb3 e) env w) := by
  unfold EBB3_query_if2 EBB3_query_if3
  match c, hc with
  | [], hc =>
    simp only [ifte, assign, hc, load_str, ok_apply, app1_ok, app2_ok, op_len, op_eq, ofP_ok, pyEq, truthy_bool,
      List.length_nil, op_getitem, intOf, normIdx, Ebb3.cmdName]
    rfl
  | [x], hc =>
    simp only [ifte, assign, hc, load_str, ok_apply, app1_ok, app2_ok, op_len, op_eq, ofP_ok, pyEq, truthy_bool,
      List.length_cons, List.length_nil, op_getitem, intOf, normIdx, Ebb3.cmdName]
    rfl
  | x :: y :: rest, hc =>
    have hlen : ((((x :: y :: rest).length : Nat) : Int) == 1) = false := by
      rw [beq_eq_false_iff_ne]; simp only [List.length_cons]; omega
    have h1 : op_getitem (.str (x :: y :: rest)) (.int 1) = .ok (.str [y]) := by
      simp only [op_getitem, intOf, normIdx, List.length_cons]
      have : (1 : Int).toNat < rest.length + 1 + 1 := by simp
      simp [this]
    have h0 : op_getitem (.str (x :: y :: rest)) (.int 0) = .ok (.str [x]) := by
      simp only [op_getitem, intOf, normIdx, List.length_cons]
      simp
    have hs : op_slice (.str (x :: y :: rest)) (.int 0) (.int 2) = .ok (.str [x, y]) := by
      simp only [op_slice, sliceBound, intOf, sliceList, List.length_cons]
      have : min (2 : Int).toNat (rest.length + 1 + 1) = 2 := by simp
      simp
    simp only [ifte, assign, hc, load_str, ok_apply, app1_ok, app2_ok, app3_ok, op_len, op_eq, ofP_ok, pyEq, hlen,
      truthy_bool, Bool.false_eq_true, ↓reduceIte, h1, h0, hs, Ebb3.cmdName]
    by_cases hy : y = ','
    · subst hy
      simp
    · have : ([y] == [',']) = false := by simp [hy]
      simp [this, hy]

/-- how the `try` block of `query` ends, against the model's `exchange` -/
def QTrySim (c name : List Char) (fl : Flow EBB3_Obj EBB3_query_Env) :
    Except Ebb3.PyExc (Option Ebb3.Str) × Ebb3.World Ebb3.Script → Prop
  | (.ok (some resp), aw1) => ∃ (m : Int) (w' : World EBB3_Obj),
      fl = .norm ⟨.str c, .str name, .str resp, .int m, .unbound, .unbound⟩ w' ∧
      absWorld w' = aw1 ∧ Good w' ∧ w'.obj.port = .port
  | (.ok Option.none, aw1) => ∃ (cl : PyIO.ExcClass) (nrc : Val) (w' : World EBB3_Obj), IoClass cl ∧
      fl = .exc cl ⟨.str c, .str name, .str [], nrc, .unbound, .unbound⟩ w' ∧
      absWorld w' = aw1 ∧ Good w' ∧ w'.obj.port = .port
  | (.error _, _) => False

theorem qry_try1 (fuel : Nat) (hf : 26 ≤ fuel) (c name : List Char) (hc : PyIO.isAscii c = true)
    (w : World EBB3_Obj) (hp : w.obj.port = .port) (hg : Good w) :
    QTrySim c name (EBB3_query_try1 fuel ⟨.str c, .str name, .str [], .unbound, .unbound, .unbound⟩ w)
      (Ebb3.exchange Ebb3.scriptDev Ebb3.srcParams.retryQry c (absWorld w)) := by
  unfold EBB3_query_try1 Ebb3.exchange
  simp only [block_cons2, block_one, srcRetryQry]
  have hasc : PyIO.isAscii (c ++ ['\r']) = true := by
    unfold PyIO.isAscii at hc ⊢
    simp only [List.all_append, hc, Bool.true_and, List.all_cons, List.all_nil, Bool.and_true]
    decide
  have hga : getattr (fun o : EBB3_Obj => o.port) w = (.ok .port, w) := by
    rw [getattr_apply (by simp [hp])]; simp only [hp]
  have hwr : ∀ r, meth_write .port (.bytes (c ++ ['\r'])) w = r →
      (fun (fuel : Nat) (env : EBB3_query_Env) => eff2 meth_write (getattr (·.port))
        (app2 meth_encode (app2 op_add (load env.qry) (ok (.str ['\r']))) (ok (.str ['a', 's', 'c', 'i', 'i']))))
        fuel ⟨.str c, .str name, .str [], .unbound, .unbound, .unbound⟩ w = r := by
    intro r hr
    subst hr
    simp only [load_str, app2_ok, op_add, ofP_ok, meth_encode, hasc, ↓reduceIte, eff2, PyObj.bind, hga, ok_apply]
  rcases write_sim (c ++ ['\r']) w hp hg with ⟨w1, e1, e2, ho1, hg1⟩ | ⟨cl, w1, hcl, e1, e2, ho1, hg1⟩
  · rw [seq_norm (expr_of (hwr _ e1)), Ebb3.bind_ok e2]
    simp only [↓reduceIte]
    have hp1 : w1.obj.port = .port := by rw [ho1, hp]
    have hrest : Ebb3.readLoop Ebb3.scriptDev (25 + 1) (absWorld w1)
        = (Ebb3.portRead Ebb3.scriptDev >>= fun r => match r with
            | Option.none => pure Option.none
            | some l => if (Ebb3.strip l).isEmpty then Ebb3.readLoop Ebb3.scriptDev 25 else pure (some (Ebb3.strip l)))
          (absWorld w1) := rfl
    rw [hrest]
    rcases read_sim w1 hp1 hg1 with ⟨cl, w2, hcl, e3, e4, ho2, hg2, _⟩ | ⟨l, w2, e3, e4, ho2, hg2, _⟩
    · rw [seq_exc (assign_exc (e := fun (fuel : Nat) (env : EBB3_query_Env) => app1 meth_strip (app2 meth_decode (eff1 meth_readline (getattr (fun o : EBB3_Obj => o.port))) (ok (.str ['a', 's', 'c', 'i', 'i'])))) e3), Ebb3.bind_ok e4]
      exact ⟨cl, _, w2, hcl, rfl, rfl, hg2, by rw [ho2, hp1]⟩
    · rw [seq_norm (assign_of (e := fun (fuel : Nat) (env : EBB3_query_Env) => app1 meth_strip (app2 meth_decode (eff1 meth_readline (getattr (fun o : EBB3_Obj => o.port))) (ok (.str ['a', 's', 'c', 'i', 'i'])))) e3), Ebb3.bind_ok e4]
      rw [seq_norm (assign_of (set := fun (env : EBB3_query_Env) v => { env with n_retry_count := v })
        (e := fun _ _ => ok (.int 0)) (v := .int 0) (w' := w2) rfl)]
      have hp2 : w2.obj.port = .port := by rw [ho2, hp1]
      have hloop : LoopSim (σ := EBB3_query_Env) (fun env v => { env with response := v })
          (fun env v => { env with n_retry_count := v }) ⟨.str c, .str name, .str (Ebb3.strip l), .int 0, .unbound, .unbound⟩ w2
          (EBB3_query_loop1 fuel ⟨.str c, .str name, .str (Ebb3.strip l), .int 0, .unbound, .unbound⟩ w2)
          (restLoop 25 (Ebb3.strip l) (absWorld w2)) :=
        retryLoop_sim _ _ _ _ qry_lens 25 fuel 25 (Nat.le_refl _) fuel (by omega)
          ⟨.str c, .str name, .str (Ebb3.strip l), .int 0, .unbound, .unbound⟩ (Ebb3.strip l) rfl rfl w2 hp2 hg2
      show QTrySim c name (EBB3_query_loop1 fuel ⟨.str c, .str name, .str (Ebb3.strip l), .int 0, .unbound, .unbound⟩ w2)
        (restLoop 25 (Ebb3.strip l) (absWorld w2))
      generalize restLoop 25 (Ebb3.strip l) (absWorld w2) = r at hloop ⊢
      generalize EBB3_query_loop1 fuel ⟨.str c, .str name, .str (Ebb3.strip l), .int 0, .unbound, .unbound⟩ w2 = fl at hloop ⊢
      obtain ⟨res, aw3⟩ := r
      cases res with
      | error e => exact hloop
      | ok o =>
        cases o with
        | none =>
          obtain ⟨m, cl, w3, hcl, e5, e6, ho3, hg3, _⟩ := hloop
          exact ⟨cl, _, w3, hcl, e5, e6, hg3, by rw [ho3, hp2]⟩
        | some resp =>
          obtain ⟨m, w3, e5, e6, ho3, hg3, _⟩ := hloop
          exact ⟨m, w3, e5, e6, hg3, by rw [ho3, hp2]⟩
  · rw [seq_exc (expr_exc (hwr _ e1)), Ebb3.bind_ok e2]
    exact ⟨cl, _, w1, hcl, rfl, rfl, hg1, by rw [ho1, hp]⟩

theorem qry_dispatch (fuel : Nat) (env : EBB3_query_Env) (cl : PyIO.ExcClass) (w : World EBB3_Obj) :
    dispatch EBB3_query_handlers1 cl fuel env w =
      if PyIO.catches handlerClasses cl = true then EBB3_query_if4 fuel env w else .exc cl env w := by
  unfold EBB3_query_handlers1
  simp only [dispatch, Handler.matches, runHandler]
  rfl

/-- the `except` clause of `query` -/
theorem qry_if4 (fuel : Nat) (c name : List Char) (resp nrc em hl : Val) (w : World EBB3_Obj) (hg : Good w) :
    (Ebb3.srcParams.ignoreQry.contains (Ebb3.lower name) = true →
      EBB3_query_if4 fuel ⟨.str c, .str name, resp, nrc, em, hl⟩ w = .norm ⟨.str c, .str name, resp, nrc, em, hl⟩ w) ∧
    (Ebb3.srcParams.ignoreQry.contains (Ebb3.lower name) = false →
      ∃ w', EBB3_query_if4 fuel ⟨.str c, .str name, resp, nrc, em, hl⟩ w = .ret .none w' ∧
        Ebb3.recordError (Ebb3.Msg.qryUsb c) (absWorld w) = (.ok (), absWorld w') ∧ Good w') := by
  unfold EBB3_query_if4
  have htest : (app2 op_not_in (app1 meth_lower (load (.str name)))
      (mkList [ok (.str ['r', 'b']), ok (.str ['r']), ok (.str ['b', 'l'])]) : Eff EBB3_Obj)
      = ok (.bool (!(Ebb3.srcParams.ignoreQry.contains (Ebb3.lower name)))) := by
    simp only [load_str, app1_ok, meth_lower, ofP_ok, mkList, evalList_cons_ok, evalList_nil, app2_ok, op_not_in, op_in,
      List.any_cons, List.any_nil, pyEq, Bool.or_false, truthy_bool, srcIgnoreQry, List.contains_cons, List.contains_nil]
  simp only [ifte, htest, ok_apply, truthy_bool]
  constructor
  · intro hs
    simp only [hs, Bool.not_true, Bool.false_eq_true, ↓reduceIte, pass]
  · intro hs
    simp only [hs, Bool.not_false, ↓reduceIte, block_cons2, block_one]
    rw [seq_norm (env' := ⟨.str c, .str name, resp, nrc, .str (Ebb3.Msg.qryUsb c), hl⟩) (w' := w) (by
      simp only [assign, load_str, fstr, evalList_cons_ok, evalList_nil, flatten_strs2, msg_qryUsb, ok_apply])]
    obtain ⟨w', e1, e2, hg', hp', hport'⟩ := record_error_stmt fuel (Ebb3.Msg.qryUsb c)
      (⟨.str c, .str name, resp, nrc, .str (Ebb3.Msg.qryUsb c), hl⟩ : EBB3_query_Env)
      w hg (fun fuel env => load env.error_msg) rfl
    rw [seq_norm e1]
    exact ⟨w', by simp only [return_, ok_apply], e2, hg'⟩

/-- the validation of the reply: `if ('Err:' in response) or (not response.startswith(qry_name)): …; return None` -/
theorem qry_if5 (fuel : Nat) (c name resp : List Char) (nrc em hl : Val) (w : World EBB3_Obj) (hg : Good w) :
    ((Ebb3.hasErr resp || !(Ebb3.startsWith name resp)) = false →
      EBB3_query_if5 fuel ⟨.str c, .str name, .str resp, nrc, em, hl⟩ w = .norm ⟨.str c, .str name, .str resp, nrc, em, hl⟩ w) ∧
    ((Ebb3.hasErr resp || !(Ebb3.startsWith name resp)) = true →
      ∃ w', EBB3_query_if5 fuel ⟨.str c, .str name, .str resp, nrc, em, hl⟩ w = .ret .none w' ∧
        (if resp.isEmpty then Ebb3.recordError (Ebb3.Msg.qryTimeout c) else Ebb3.recordError (Ebb3.Msg.qryUnexpected c resp))
          (absWorld w) = (.ok (), absWorld w') ∧ Good w') := by
  unfold EBB3_query_if5
  have hin : op_in (.str ['E', 'r', 'r', ':']) (.str resp) = .ok (.bool (Ebb3.hasErr resp)) := by
    simp [op_in, Ebb3.hasErr]
  have htest : (or_ (app2 op_in (ok (.str ['E', 'r', 'r', ':'])) (load (.str resp)))
      (not_ (app2 meth_startswith (load (.str resp)) (load (.str name)))) : Eff EBB3_Obj)
      = ok (.bool (Ebb3.hasErr resp || !(Ebb3.startsWith name resp))) := by
    simp only [load_str, app2_ok, hin, ofP_ok, or_ok, truthy_bool, meth_startswith, not_ok]
    cases Ebb3.hasErr resp <;> simp
  simp only [ifte, htest, ok_apply, truthy_bool]
  constructor
  · intro hs
    simp only [hs, Bool.false_eq_true, ↓reduceIte, pass]
  · intro hs
    simp only [hs, ↓reduceIte, block_cons2, block_one]
    rw [seq_norm (env' := ⟨.str c, .str name, .str resp, nrc,
        .str (if resp.isEmpty then Ebb3.Msg.qryTimeout c else Ebb3.Msg.qryUnexpected c resp), hl⟩) (w' := w) (by
      unfold EBB3_query_if6
      simp only [ifte, assign, load_str, ok_apply, truthy_str, fstr, evalList_cons_ok, evalList_nil, app2_ok_left, bind_ok,
        op_add, ofP_ok]
      cases resp with
      | nil =>
        simp only [List.isEmpty_nil, Bool.not_true, Bool.false_eq_true, ↓reduceIte, flatten_strs2, msg_qryTimeout]
      | cons a t =>
        simp only [List.isEmpty_cons, Bool.not_false, ↓reduceIte, Bool.false_eq_true, flatten_strs4, msg_qryUnexpected,
          List.cons_append, List.nil_append, List.append_assoc])]
    obtain ⟨w', e1, e2, hg', hp', hport'⟩ := record_error_stmt fuel
      (if resp.isEmpty then Ebb3.Msg.qryTimeout c else Ebb3.Msg.qryUnexpected c resp)
      (⟨.str c, .str name, .str resp, nrc,
        .str (if resp.isEmpty then Ebb3.Msg.qryTimeout c else Ebb3.Msg.qryUnexpected c resp), hl⟩ : EBB3_query_Env)
      w hg (fun fuel env => load env.error_msg) rfl
    rw [seq_norm e1]
    refine ⟨w', by simp only [return_, ok_apply], ?_, hg'⟩
    by_cases he : resp.isEmpty = true
    · simp only [he, ↓reduceIte] at e2 ⊢
      exact e2
    · simp only [he, Bool.false_eq_true, ↓reduceIte] at e2 ⊢
      exact e2

theorem slice_from (resp : List Char) (h : Nat) :
    op_slice (.str resp) (.int h) .none = .ok (.str (resp.drop h)) := by
  simp only [op_slice, sliceBound, intOf]
  have h0 : (0 : Int) ≤ (h : Int) := by omega
  simp only [h0, ↓reduceIte, Int.toNat_natCast, sliceList]
  congr 2
  by_cases hl : h ≤ resp.length
  · rw [Nat.min_eq_left hl, List.take_length]
  · have : resp.length ≤ h := by omega
    rw [Nat.min_eq_right this, List.take_length, List.drop_eq_nil_of_le (by omega), List.drop_eq_nil_of_le this]

/-- the tail of `query`: strip the name and one separating comma off the reply -/
theorem qry_tail (fuel : Nat) (c name resp : List Char) (nrc em hl : Val) (w : World EBB3_Obj) :
    PyObj.run (block [
      (assign (fun (env : EBB3_query_Env) v => { env with header_len := v }) (fun fuel env => app1 op_len (load env.qry_name))),
      EBB3_query_if7,
      (return_ (fun fuel env => app3 op_slice (load env.response) (load env.header_len) (ok .none)))])
      fuel ⟨.str c, .str name, .str resp, nrc, em, hl⟩ w = .val (.str (Ebb3.stripHeader name resp)) w := by
  rw [block_cons2, block_cons2, block_one]
  rw [run_seq_assign_ok (v := .int name.length) (by simp only [load_str, app1_ok, op_len, ofP_ok])]
  unfold EBB3_query_if7 EBB3_query_if8 Ebb3.stripHeader
  have hgt : op_gt (.int resp.length) (.int name.length) = .ok (.bool (decide (name.length < resp.length))) := by
    simp only [op_gt, ltVal, intOf, ofOptBool]
    congr 2
    simp
  by_cases hlt : name.length < resp.length
  · -- there is a character after the name
    have hdrop : ∃ x rest, resp.drop name.length = x :: rest := by
      cases hd : resp.drop name.length with
      | nil => rw [List.drop_eq_nil_iff] at hd; omega
      | cons x rest => exact ⟨x, rest, rfl⟩
    obtain ⟨x, rest, hd⟩ := hdrop
    have hget : resp[name.length]? = some x := by
      have := List.getElem?_drop (xs := resp) (i := name.length) (j := 0)
      rw [hd] at this
      simpa using this.symm
    have hrest : resp.drop (name.length + 1) = rest := by
      have := List.tail_drop (l := resp) (i := name.length)
      rw [hd] at this
      simpa using this.symm
    have hgi : op_getitem (.str resp) (.int name.length) = .ok (.str [x]) := by
      simp only [op_getitem, intOf, normIdx]
      have h0 : (0 : Int) ≤ (name.length : Int) := by omega
      simp only [h0, ↓reduceIte, Int.toNat_natCast, hlt, hget]
    rw [hd]
    by_cases hx : x = ','
    · subst hx
      rw [run_seq_norm (env' := ⟨.str c, .str name, .str resp, nrc, em, .int (name.length + 1)⟩) (w' := w) (by
        simp only [ifte, load_str, load_int, app1_ok, app2_ok, op_len, ofP_ok, hgt, ok_apply, truthy_bool, hlt, decide_true,
          ↓reduceIte, hgi, op_eq, pyEq, assign, op_add, intOf]
        rfl)]
      simp only [PyObj.run, return_, load_str, load_int, app3_ok, ofP_ok, ok_apply]
      have : ((name.length : Int) + 1) = ((name.length + 1 : Nat) : Int) := by omega
      rw [this, slice_from, hrest]
      simp [ofP_ok, ok_apply]
    · have hne : ([x] == [',']) = false := by simp [hx]
      rw [run_seq_norm (env' := ⟨.str c, .str name, .str resp, nrc, em, .int name.length⟩) (w' := w) (by
        simp only [ifte, load_str, load_int, app1_ok, app2_ok, op_len, ofP_ok, hgt, ok_apply, truthy_bool, hlt, decide_true,
          ↓reduceIte, hgi, op_eq, pyEq, hne, Bool.false_eq_true, pass])]
      simp only [PyObj.run, return_, load_str, load_int, app3_ok, ofP_ok, ok_apply, slice_from, hd, hx, ↓reduceIte]
  · have hd : resp.drop name.length = [] := List.drop_eq_nil_of_le (by omega)
    rw [run_seq_norm (env' := ⟨.str c, .str name, .str resp, nrc, em, .int name.length⟩) (w' := w) (by
      simp only [ifte, load_str, load_int, app1_ok, app2_ok, op_len, ofP_ok, hgt, ok_apply, truthy_bool, hlt, decide_false,
        Bool.false_eq_true, ↓reduceIte, pass])]
    simp only [PyObj.run, return_, load_str, load_int, app3_ok, ofP_ok, ok_apply, slice_from, hd]

theorem cmdName_ne_nil {c name : List Char} (h : Ebb3.cmdName c = .ok name) : name ≠ [] := by
  cases c with
  | nil => cases h
  | cons x t =>
    cases t with
    | nil => injection h with h; rw [← h]; simp
    | cons y r =>
      simp only [Ebb3.cmdName] at h
      split at h <;> (injection h with h; rw [← h]; simp)

/-- the model's `queryJudge` against "`if5`; tail" of the regenerated code -/
theorem qry_judge (fuel : Nat) (c name resp : List Char) (nrc em hl : Val) (w : World EBB3_Obj) (hg : Good w) :
    Sim (PyObj.run (block [
        EBB3_query_if5,
        (assign (fun (env : EBB3_query_Env) v => { env with header_len := v }) (fun fuel env => app1 op_len (load env.qry_name))),
        EBB3_query_if7,
        (return_ (fun fuel env => app3 op_slice (load env.response) (load env.header_len) (ok .none)))])
        fuel ⟨.str c, .str name, .str resp, nrc, em, hl⟩ w)
      (Ebb3.queryJudge c name resp (absWorld w)) := by
  rw [block_cons2]
  obtain ⟨h1, h2⟩ := qry_if5 fuel c name resp nrc em hl w hg
  unfold Ebb3.queryJudge
  by_cases hs : (Ebb3.hasErr resp || !(Ebb3.startsWith name resp)) = true
  · obtain ⟨w', e1, e2, hg'⟩ := h2 hs
    simp only [hs, ↓reduceIte]
    have : PyObj.run (seq EBB3_query_if5 (block [
        (assign (fun (env : EBB3_query_Env) v => { env with header_len := v }) (fun fuel env => app1 op_len (load env.qry_name))),
        EBB3_query_if7,
        (return_ (fun fuel env => app3 op_slice (load env.response) (load env.header_len) (ok .none)))]))
        fuel ⟨.str c, .str name, .str resp, nrc, em, hl⟩ w = .val .none w' := by
      unfold PyObj.run
      rw [seq_ret e1]
    rw [this, Ebb3.bind_ok e2]
    exact ⟨rfl, rfl, hg'⟩
  · have hs' : (Ebb3.hasErr resp || !(Ebb3.startsWith name resp)) = false := by simpa using hs
    rw [run_seq_norm (h1 hs'), qry_tail]
    simp only [hs', Bool.false_eq_true, ↓reduceIte]
    exact ⟨rfl, rfl, hg⟩

/-- **Bridge for `query`.** -/
theorem query_bridge (fuel : Nat) (hf : 26 ≤ fuel) (req : Option Ebb3.Str)
    (hasc : ∀ s, req = some s → PyIO.isAscii (Ebb3.strip s) = true) (w : World EBB3_Obj) (hg : Good w) :
    Sim (EBB3_query fuel (encReq req) w)
      (Ebb3.run Ebb3.srcParams Ebb3.scriptDev (.query req) (absWorld w)) := by
  have ho := hg.obj
  unfold EBB3_query EBB3_query_main Ebb3.run
  show Sim (PyObj.run _ fuel _ w) (Ebb3.guardM .none (Ebb3.queryBody Ebb3.srcParams Ebb3.scriptDev req) (absWorld w))
  rw [block_cons2]
  unfold Ebb3.guardM
  show Sim _ (if (absSt w.obj).blocked = true then _ else _)
  by_cases hb : (absSt w.obj).blocked = true
  · have : ∀ rest, PyObj.run (seq EBB3_query_if1 rest) fuel
        ⟨encReq req, .unbound, .unbound, .unbound, .unbound, .unbound⟩ w = .val .none w := by
      intro rest
      unfold PyObj.run
      rw [seq_ret (v := .none) (w' := w) (by
        unfold EBB3_query_if1
        simp only [ifte, guard3_eval w ho, hb, ↓reduceIte, truthy_bool, return_, ok_apply])]
    rw [this]
    simp only [hb, ↓reduceIte]
    exact ⟨rfl, rfl, hg⟩
  · have hb' : (absSt w.obj).blocked = false := by simpa using hb
    have hp : w.obj.port = .port := not_blocked_port _ ho hb'
    simp only [hb', Bool.false_eq_true, ↓reduceIte]
    cases req with
    | none =>
      have : ∀ rest, PyObj.run (seq EBB3_query_if1 rest) fuel
          ⟨encReq Option.none, .unbound, .unbound, .unbound, .unbound, .unbound⟩ w = .val .none w := by
        intro rest
        unfold PyObj.run
        rw [seq_ret (v := .none) (w' := w) (by
          unfold EBB3_query_if1
          simp only [ifte, guard3_eval w ho, hb', Bool.false_eq_true, ↓reduceIte, encReq, load_none, app1_ok, op_is_none, isNone,
            ofP_ok, ok_apply, truthy_bool, return_])]
      rw [this]
      exact ⟨rfl, rfl, hg⟩
    | some s =>
      have hc := hasc s rfl
      rw [run_seq_norm (env' := ⟨.str s, .unbound, .unbound, .unbound, .unbound, .unbound⟩) (w' := w) (by
        unfold EBB3_query_if1
        simp only [ifte, guard3_eval w ho, hb', Bool.false_eq_true, ↓reduceIte, encReq, load_str, app1_ok, op_is_none, isNone,
          ofP_ok, ok_apply, truthy_bool, pass])]
      rw [block_cons2, run_seq_assign_ok (v := .str (Ebb3.strip s)) (by simp only [load_str, app1_ok, meth_strip, ofP_ok])]
      show Sim _ (Ebb3.queryCore Ebb3.srcParams Ebb3.scriptDev (Ebb3.strip s) (absWorld w))
      unfold Ebb3.queryCore
      rw [block_cons2]
      have hif2 := qry_if2 fuel ⟨.str (Ebb3.strip s), .unbound, .unbound, .unbound, .unbound, .unbound⟩ (Ebb3.strip s) rfl w
      cases hname : Ebb3.cmdName (Ebb3.strip s) with
      | error e =>
        rw [hname] at hif2
        simp only at hif2 ⊢
        have : ∀ rest, PyObj.run (seq EBB3_query_if2 rest) fuel
            ⟨.str (Ebb3.strip s), .unbound, .unbound, .unbound, .unbound, .unbound⟩ w = .exc (excOfEbb3 e) w := by
          intro rest
          unfold PyObj.run
          rw [seq_exc hif2]
        rw [this]
        exact ⟨rfl, rfl, hg⟩
      | ok name =>
        rw [hname] at hif2
        simp only at hif2 ⊢
        have hne := cmdName_ne_nil hname
        rw [run_seq_norm hif2, block_cons2,
          run_seq_assign_ok (v := .str []) (by rfl), block_cons2]
        have htry := qry_try1 fuel hf (Ebb3.strip s) name hc w hp hg
        rw [Ebb3.bind_apply]
        generalize Ebb3.exchange Ebb3.scriptDev Ebb3.srcParams.retryQry (Ebb3.strip s) (absWorld w) = r at htry ⊢
        obtain ⟨res, aw1⟩ := r
        cases res with
        | error e => exact htry.elim
        | ok o =>
          simp only
          cases o with
          | some resp =>
            obtain ⟨m, w1, e1, ea, hg1, hp1⟩ := htry
            have e1' : tryExcept EBB3_query_try1 EBB3_query_handlers1 fuel
                ⟨.str (Ebb3.strip s), .str name, .str [], .unbound, .unbound, .unbound⟩ w
                = .norm ⟨.str (Ebb3.strip s), .str name, .str resp, .int m, .unbound, .unbound⟩ w1 := by
              simp only [tryExcept, e1]
            rw [run_seq_norm e1', ← ea]
            exact qry_judge fuel (Ebb3.strip s) name resp _ _ _ w1 hg1
          | none =>
            obtain ⟨cl, nrc, w1, hcl, e1, ea, hg1, hp1⟩ := htry
            obtain ⟨h4a, h4b⟩ := qry_if4 fuel (Ebb3.strip s) name (.str []) nrc .unbound .unbound w1 hg1
            by_cases hi : Ebb3.srcParams.ignoreQry.contains (Ebb3.lower name) = true
            · have e1' : tryExcept EBB3_query_try1 EBB3_query_handlers1 fuel
                  ⟨.str (Ebb3.strip s), .str name, .str [], .unbound, .unbound, .unbound⟩ w
                  = .norm ⟨.str (Ebb3.strip s), .str name, .str [], nrc, .unbound, .unbound⟩ w1 := by
                simp only [tryExcept, e1, qry_dispatch, show PyIO.catches handlerClasses cl = true from hcl, ↓reduceIte, h4a hi]
              rw [run_seq_norm e1', ← ea]
              simp only [hi, ↓reduceIte]
              exact qry_judge fuel (Ebb3.strip s) name [] _ _ _ w1 hg1
            · have hi' : Ebb3.srcParams.ignoreQry.contains (Ebb3.lower name) = false := by simpa using hi
              obtain ⟨w2, e2, e3, hg2⟩ := h4b hi'
              have e1' : ∀ rest, PyObj.run (seq (tryExcept EBB3_query_try1 EBB3_query_handlers1) rest) fuel
                  ⟨.str (Ebb3.strip s), .str name, .str [], .unbound, .unbound, .unbound⟩ w = .val .none w2 := by
                intro rest
                unfold PyObj.run
                rw [seq_ret (v := .none) (w' := w2) (by
                  simp only [tryExcept, e1, qry_dispatch, show PyIO.catches handlerClasses cl = true from hcl, ↓reduceIte, e2])]
              rw [e1']
              simp only [hi', Bool.false_eq_true, ↓reduceIte]
              rw [← ea, Ebb3.bind_ok e3]
              exact ⟨rfl, rfl, hg2⟩

theorem query_bridge_ascii (fuel : Nat) (hf : 26 ≤ fuel) (req : Option Ebb3.Str)
    (hasc : ∀ s, req = some s → PyIO.isAscii s = true) (w : World EBB3_Obj) (hg : Good w) :
    Sim (EBB3_query fuel (encReq req) w)
      (Ebb3.run Ebb3.srcParams Ebb3.scriptDev (.query req) (absWorld w)) :=
  query_bridge fuel hf req (fun s hs => isAscii_strip s (hasc s hs)) w hg

end Ebb3Gen
end Plotink
