import Plotink.Model.C15
/-! # C15 — lemmas on the version order and the render/parse round trip (core Lean only) -/
namespace Plotink.C15

/-! ## `vle` is a total preorder; antisymmetric up to trailing zeros; `versionGe` (packaging's key
comparison) computes it -/

theorem vle_nil_left (b : List Nat) : vle [] b = true := by
  cases b <;> rfl

theorem vle_refl (a : List Nat) : vle a a = true := by
  induction a with
  | nil => rfl
  | cons x xs ih => simp [vle, ih]

theorem vle_nil_right (a : List Nat) : vle a [] = a.all (· == 0) := by
  induction a with
  | nil => rfl
  | cons x xs ih => simp [vle, ih]

theorem vle_total (a b : List Nat) : vle a b = true ∨ vle b a = true := by
  induction a generalizing b with
  | nil => left; exact vle_nil_left b
  | cons x xs ih =>
    cases b with
    | nil => right; rfl
    | cons y ys =>
      simp only [vle, Bool.or_eq_true, Bool.and_eq_true, decide_eq_true_eq, beq_iff_eq]
      rcases Nat.lt_trichotomy x y with h | h | h
      · left; left; exact h
      · subst h
        rcases ih ys with h' | h'
        · left; right; exact ⟨rfl, h'⟩
        · right; right; exact ⟨rfl, h'⟩
      · right; left; exact h

theorem vle_zero_of_vle_nil {a : List Nat} (h : vle a [] = true) (c : List Nat) : vle a c = true := by
  induction a generalizing c with
  | nil => exact vle_nil_left c
  | cons x xs ih =>
    simp only [vle, Bool.and_eq_true, beq_iff_eq] at h
    cases c with
    | nil => simp [vle, h.1, h.2]
    | cons z zs =>
      simp only [vle, Bool.or_eq_true, Bool.and_eq_true, decide_eq_true_eq, beq_iff_eq]
      rcases Nat.eq_zero_or_pos z with hz | hz
      · right; exact ⟨by omega, ih h.2 zs⟩
      · left; omega

theorem vle_trans {a b c : List Nat} (h1 : vle a b = true) (h2 : vle b c = true) : vle a c = true := by
  induction a generalizing b c with
  | nil => exact vle_nil_left c
  | cons x xs ih =>
    cases b with
    | nil => exact vle_zero_of_vle_nil h1 c
    | cons y ys =>
      cases c with
      | nil =>
        simp only [vle, Bool.or_eq_true, Bool.and_eq_true, decide_eq_true_eq, beq_iff_eq] at h1 h2 ⊢
        rcases h1 with h1 | ⟨h1, h1'⟩
        · omega
        · exact ⟨by omega, ih h1' h2.2⟩
      | cons z zs =>
        simp only [vle, Bool.or_eq_true, Bool.and_eq_true, decide_eq_true_eq, beq_iff_eq] at h1 h2 ⊢
        rcases h1 with h1 | ⟨h1, h1'⟩
        · rcases h2 with h2 | ⟨h2, _⟩
          · left; omega
          · left; omega
        · rcases h2 with h2 | ⟨h2, h2'⟩
          · left; omega
          · right; exact ⟨by omega, ih h1' h2'⟩

theorem getD_zero_of_vle_nil {a : List Nat} (h : vle a [] = true) : ∀ i, a.getD i 0 = 0 := by
  induction a with
  | nil => intro i; simp
  | cons x xs ih =>
    simp only [vle, Bool.and_eq_true, beq_iff_eq] at h
    intro i
    cases i with
    | zero => simpa using h.1
    | succ i => simpa using ih h.2 i

/-- antisymmetry up to trailing zeros -/
theorem vle_antisymm {a b : List Nat} (h1 : vle a b = true) (h2 : vle b a = true) :
    ∀ i, a.getD i 0 = b.getD i 0 := by
  induction a generalizing b with
  | nil =>
    intro i
    rw [getD_zero_of_vle_nil h2 i]; simp
  | cons x xs ih =>
    cases b with
    | nil =>
      intro i
      rw [getD_zero_of_vle_nil h1 i]; simp
    | cons y ys =>
      simp only [vle, Bool.or_eq_true, Bool.and_eq_true, decide_eq_true_eq, beq_iff_eq] at h1 h2
      have hxy : x = y := by
        rcases h1 with h1 | ⟨h1, _⟩ <;> rcases h2 with h2 | ⟨h2, _⟩ <;> omega
      subst hxy
      have h1' : vle xs ys = true := by rcases h1 with h1 | ⟨_, h1⟩; omega; exact h1
      have h2' : vle ys xs = true := by rcases h2 with h2 | ⟨_, h2⟩; omega; exact h2
      intro i
      cases i with
      | zero => rfl
      | succ i => simpa using ih h1' h2' i

theorem vle_triple (a b c x y z : Nat) :
    vle [a, b, c] [x, y, z] = true ↔ a < x ∨ (a = x ∧ (b < y ∨ (b = y ∧ c ≤ z))) := by
  simp only [vle, Bool.or_eq_true, Bool.and_eq_true, decide_eq_true_eq, beq_iff_eq, Bool.and_true]
  omega

/-- `versionKey l = []` exactly when every component is zero -/
theorem versionKey_eq_nil (a : List Nat) : versionKey a = [] ↔ vle a [] = true := by
  induction a with
  | nil => simp [versionKey, vle]
  | cons x xs ih =>
    simp only [versionKey, vle, Bool.and_eq_true, beq_iff_eq]
    split
    · rename_i h
      have := ih.mp h
      by_cases hx : x = 0 <;> simp [hx, this]
    · rename_i h
      have : ¬ vle xs [] = true := fun h' => h (ih.mpr h')
      simp [this]

theorem versionKey_cons (x : Nat) (xs : List Nat) :
    versionKey (x :: xs) = if x = 0 ∧ versionKey xs = [] then [] else x :: versionKey xs := by
  simp only [versionKey]
  split
  · rename_i h; simp [h]
  · rename_i h; simp [show ¬ versionKey xs = [] from h]

theorem tupleLe_key (a b : List Nat) : tupleLe (versionKey a) (versionKey b) = vle a b := by
  induction a generalizing b with
  | nil => simp [versionKey, tupleLe, vle_nil_left]
  | cons x xs ih =>
    rw [versionKey_cons]
    by_cases hz : x = 0 ∧ versionKey xs = []
    · rw [if_pos hz]
      have h0 : vle (x :: xs) [] = true := by
        simp [vle, hz.1, (versionKey_eq_nil xs).mp hz.2]
      simp [tupleLe, vle_zero_of_vle_nil h0 b]
    · rw [if_neg hz]
      cases b with
      | nil =>
        have : ¬ vle (x :: xs) [] = true := by
          intro h
          simp only [vle, Bool.and_eq_true, beq_iff_eq] at h
          exact hz ⟨h.1, (versionKey_eq_nil xs).mpr h.2⟩
        simp [versionKey, tupleLe, this]
      | cons y ys =>
        rw [versionKey_cons]
        by_cases hy : y = 0 ∧ versionKey ys = []
        · rw [if_pos hy]
          have hys : vle ys [] = true := (versionKey_eq_nil ys).mp hy.2
          simp only [tupleLe, vle, hy.1]
          -- x :: key xs ≤ [] is false; rhs: x < 0 || (x == 0 && vle xs ys)
          by_cases hx : x = 0
          · have hxs : ¬ versionKey xs = [] := fun h => hz ⟨hx, h⟩
            have : ¬ vle xs ys = true := by
              intro h
              exact hxs ((versionKey_eq_nil xs).mpr (vle_trans h hys))
            simp [hx, this]
          · simp [hx]
        · rw [if_neg hy]
          simp [tupleLe, vle, ih]

theorem versionGe_eq_vle (a b : List Nat) : versionGe a b = vle b a := tupleLe_key b a


/-- `a` is newer than `b` exactly when, at the first position where they differ (missing = 0), `a` is larger -/
theorem vle_false_iff (a b : List Nat) :
    vle a b = false ↔ ∃ i, (∀ j, j < i → a.getD j 0 = b.getD j 0) ∧ b.getD i 0 < a.getD i 0 := by
  induction a generalizing b with
  | nil =>
    simp [vle_nil_left]
  | cons x xs ih =>
    cases b with
    | nil =>
      have ih' := ih []
      simp only [vle, Bool.and_eq_false_iff, beq_eq_false_iff_ne, List.getD_nil] at ih' ⊢
      constructor
      · rintro (h | h)
        · exact ⟨0, by simp, by simp; omega⟩
        · obtain ⟨i, hi, hlt⟩ := ih'.mp h
          by_cases hx : x = 0
          · refine ⟨i + 1, ?_, by simpa using hlt⟩
            intro j hj
            cases j with
            | zero => simp [hx]
            | succ j => simpa using hi j (by omega)
          · exact ⟨0, by simp, by simp; omega⟩
      · rintro ⟨i, hi, hlt⟩
        cases i with
        | zero => left; simp at hlt; omega
        | succ i =>
          right
          apply ih'.mpr
          refine ⟨i, ?_, by simpa using hlt⟩
          intro j hj
          simpa using hi (j + 1) (by omega)
    | cons y ys =>
      have ih' := ih ys
      simp only [vle, Bool.or_eq_false_iff, decide_eq_false_iff_not, Bool.and_eq_false_iff,
        beq_eq_false_iff_ne]
      constructor
      · rintro ⟨h1, h2⟩
        rcases h2 with h2 | h2
        · exact ⟨0, by simp, by simp; omega⟩
        · by_cases hxy : x = y
          · obtain ⟨i, hi, hlt⟩ := ih'.mp h2
            refine ⟨i + 1, ?_, by simpa using hlt⟩
            intro j hj
            cases j with
            | zero => simp [hxy]
            | succ j => simpa using hi j (by omega)
          · exact ⟨0, by simp, by simp; omega⟩
      · rintro ⟨i, hi, hlt⟩
        cases i with
        | zero => simp at hlt; exact ⟨by omega, Or.inl (by omega)⟩
        | succ i =>
          have h0 := hi 0 (by omega)
          simp at h0
          refine ⟨by omega, Or.inr ?_⟩
          apply ih'.mpr
          refine ⟨i, ?_, by simpa using hlt⟩
          intro j hj
          simpa using hi (j + 1) (by omega)


/-! ## decimal rendering and parsing -/

theorem isDigit_not_ws {c : Char} (h : c.isDigit = true) : isWs c = false := by
  simp only [Char.isDigit, Bool.and_eq_true, decide_eq_true_eq] at h
  obtain ⟨h1, h2⟩ := h
  have h1' : 48 ≤ c.toNat := by
    rw [ge_iff_le, UInt32.le_iff_toNat_le] at h1
    exact h1
  simp only [isWs, Bool.or_eq_false_iff, beq_eq_false_iff_ne, Bool.and_eq_false_iff, decide_eq_false_iff_not]
  omega

theorem isDigit_ne_dot {c : Char} (h : c.isDigit = true) : c ≠ '.' := by
  rintro rfl; exact absurd h (by decide)

theorem isDigit_ne_v {c : Char} (h : c.isDigit = true) : ¬ (c = 'v' ∨ c = 'V') := by
  rintro (rfl | rfl) <;> exact absurd h (by decide)

theorem strip_of_no_ws {s : Str} (h : ∀ c ∈ s, isWs c = false) : strip s = s := by
  have l1 : ∀ t : Str, (∀ c ∈ t, isWs c = false) → t.dropWhile isWs = t := by
    intro t ht
    cases t with
    | nil => rfl
    | cons c r => simp [List.dropWhile, ht c (by simp)]
  unfold strip rstrip lstrip
  rw [l1 s h, l1 s.reverse (by intro c hc; exact h c (by simpa using hc))]
  simp

def digits (n : Nat) : Str := (Nat.repr n).toList

theorem digits_eq (n : Nat) : digits n = Nat.toDigits 10 n := by simp [digits]

theorem digits_ne_nil (n : Nat) : digits n ≠ [] := by
  rw [digits_eq]; exact Nat.toDigits_ne_nil

theorem digits_isDigit (n : Nat) : ∀ c ∈ digits n, c.isDigit = true := by
  intro c hc
  rw [digits_eq] at hc
  exact Nat.isDigit_of_mem_toDigits (by decide) (by decide) hc

theorem parseNat_digits (n : Nat) : parseNat (digits n) = some n := by
  unfold parseNat
  have h1 : (digits n).isEmpty = false := by
    cases h : digits n with
    | nil => exact absurd h (digits_ne_nil n)
    | cons _ _ => rfl
  have h2 : (digits n).all Char.isDigit = true := List.all_eq_true.mpr (digits_isDigit n)
  simp only [h1, h2, Bool.not_false, Bool.and_self, ↓reduceIte]
  rw [digits_eq, Nat.ofDigitChars_ten_toDigits]

theorem splitOn_no_sep {sep : Char} {d : Str} (h : ∀ c ∈ d, c ≠ sep) : splitOn sep d = [d] := by
  induction d with
  | nil => rfl
  | cons c r ih =>
    have hc : c ≠ sep := h c (by simp)
    simp only [splitOn, hc, ↓reduceIte, ih (fun x hx => h x (by simp [hx]))]

theorem splitOn_append {sep : Char} {d : Str} (rest : Str) (h : ∀ c ∈ d, c ≠ sep) :
    splitOn sep (d ++ sep :: rest) = d :: splitOn sep rest := by
  induction d with
  | nil => simp [splitOn]
  | cons c r ih =>
    have hc : c ≠ sep := h c (by simp)
    simp only [List.cons_append, splitOn, hc, ↓reduceIte, ih (fun x hx => h x (by simp [hx]))]

theorem render_cons_cons (a b : Nat) (r : List Nat) :
    render (a :: b :: r) = digits a ++ '.' :: render (b :: r) := rfl

theorem splitOn_render (l : List Nat) (hl : l ≠ []) : splitOn '.' (render l) = l.map digits := by
  induction l with
  | nil => exact absurd rfl hl
  | cons a r ih =>
    cases r with
    | nil =>
      show splitOn '.' (digits a) = [digits a]
      exact splitOn_no_sep (fun c hc => isDigit_ne_dot (digits_isDigit a c hc))
    | cons b r =>
      rw [render_cons_cons, splitOn_append _ (fun c hc => isDigit_ne_dot (digits_isDigit a c hc)),
        ih (by simp)]
      rfl

theorem mapM_parseNat_digits (l : List Nat) : (l.map digits).mapM parseNat = some l := by
  induction l with
  | nil => rfl
  | cons a r ih => simp [List.mapM_cons, parseNat_digits, ih]

theorem render_chars (l : List Nat) : ∀ c ∈ render l, c.isDigit = true ∨ c = '.' := by
  induction l with
  | nil => intro c hc; simp [render] at hc
  | cons a r ih =>
    cases r with
    | nil => intro c hc; left; exact digits_isDigit a c hc
    | cons b r =>
      intro c hc
      rw [render_cons_cons] at hc
      simp only [List.mem_append, List.mem_cons] at hc
      rcases hc with hc | hc | hc
      · left; exact digits_isDigit a c hc
      · right; exact hc
      · exact ih c hc

theorem render_head (l : List Nat) (hl : l ≠ []) : ∃ c t, render l = c :: t ∧ c.isDigit = true := by
  cases l with
  | nil => exact absurd rfl hl
  | cons a r =>
    have hd : ∃ c t, digits a = c :: t := by
      cases h : digits a with
      | nil => exact absurd h (digits_ne_nil a)
      | cons c t => exact ⟨c, t, rfl⟩
    obtain ⟨c, t, hct⟩ := hd
    have hc : c.isDigit = true := digits_isDigit a c (by simp [hct])
    cases r with
    | nil => exact ⟨c, t, hct, hc⟩
    | cons b r => exact ⟨c, t ++ '.' :: render (b :: r), by rw [render_cons_cons, hct]; rfl, hc⟩

/-- render / parse round trip for every non-empty release (all naturals, any number of digits) -/
theorem parseVersion_render (l : List Nat) (hl : l ≠ []) : parseVersion (render l) = some l := by
  unfold parseVersion
  have hs : strip (render l) = render l := by
    apply strip_of_no_ws
    intro c hc
    rcases render_chars l c hc with h | h
    · exact isDigit_not_ws h
    · subst h; decide
  obtain ⟨c, t, hct, hc⟩ := render_head l hl
  have hv : dropV (render l) = render l := by
    rw [hct]; simp only [dropV, isDigit_ne_v hc, ↓reduceIte]
  rw [hs, hv]
  unfold parseRelease
  rw [splitOn_render l hl, mapM_parseNat_digits]

end Plotink.C15
