import Plotink.Proofs.C16Link
import Plotink.Proofs.C16Strip
/-! C16 helper lemmas, part 3: the methods against the board. -/
namespace Plotink.C16
theorem noEdge_cmd2 (a b c : Char) (x y : Nat) (ha : isPySpace a = false) :
    NoEdge (a :: b :: c :: (showNat x ++ ',' :: showNat y)) := by
  have := noEdge_cons_append ha (b :: c :: showNat x) ',' (by decide) (noEdge_showNat y)
  simpa using this

theorem noEdge_cmd1 (a b c : Char) (x : Nat) (ha : isPySpace a = false) (hc : isPySpace c = false) :
    NoEdge (a :: b :: c :: showNat x) := by
  have := noEdge_cons_append ha [b] c hc (noEdge_showNat x)
  simpa using this

theorem strip_SL : strip (cSL ++ ['\n']) = cSL := by decide
theorem strip_ST : strip (cST ++ ['\n']) = cST := by decide
theorem strip_EM : strip (cEM ++ ['\n']) = cEM := by decide
theorem strip_CU : strip (cCU ++ ['\n']) = cCU := by decide

theorem var_write_nat {w : World} (hc : w.py.connected = true) (he : w.py.err = false) {v i : Nat}
    (hv : v ≤ 255) (hi : i ≤ 31) (hl : i < w.board.vars.length) :
    var_write w v i = .ok (.bool true,
      ⟨w.py, { w.board with vars := w.board.vars.set i v }, (cSL ++ ',' :: (showNat v ++ ',' :: showNat i)) :: w.sent⟩) := by
  unfold var_write
  have hcmd : command w (cSL ++ ',' :: (showNat v ++ ',' :: showNat i)) = .ok (true,
      ⟨w.py, { w.board with vars := w.board.vars.set i v }, (cSL ++ ',' :: (showNat v ++ ',' :: showNat i)) :: w.sent⟩) := by
    apply command_ack (name := cSL) hc he
    · exact strip_of_noEdge (noEdge_cmd2 'S' 'L' ',' v i (by decide))
    · simp [cmdName, cSL]
    · rw [parseReq_SL]
      have h1 : (v : Int) ≤ 255 := by omega
      have h2 : (i : Int) ≤ 31 := by omega
      simp [boardStep, h1, h2, hl]
    · exact strip_SL
    · decide
  simp [hc, he, showInt_ofNat, hcmd, bind, Except.bind]


theorem colon_not_mem_showNat (n : Nat) : ':' ∉ showNat n := by
  intro h
  have := isDigit_of_mem_showNat h
  revert this; decide

theorem pyInt_showNat (x : Nat) : pyInt (showNat x) = .ok (x : Int) := by
  unfold pyInt
  rw [strip_of_noEdge (noEdge_showNat x), parseInt?_showNat]

theorem strip_data {name payload : Str} (h : NoEdge (name ++ ',' :: payload)) :
    strip (name ++ ',' :: (payload ++ ['\n'])) = name ++ ',' :: payload := by
  have : name ++ ',' :: (payload ++ ['\n']) = (name ++ ',' :: payload) ++ ['\n'] := by simp
  rw [this, strip_line h (by simp)]

theorem var_read_nat {w : World} (hc : w.py.connected = true) (he : w.py.err = false) {i x : Nat}
    (hi : i ≤ 31) (hx : w.board.vars[i]? = some x) :
    var_read w i = .ok (.int x, ⟨w.py, w.board, (cQL ++ ',' :: showNat i) :: w.sent⟩) := by
  unfold var_read
  have hq : query w (cQL ++ ',' :: showNat i) = .ok (some (showNat x),
      ⟨w.py, w.board, (cQL ++ ',' :: showNat i) :: w.sent⟩) := by
    apply query_data (name := cQL) hc he
    · exact strip_of_noEdge (noEdge_cmd1 'Q' 'L' ',' i (by decide) (by decide))
    · simp [cmdName, cQL]
    · rw [parseReq_QL]
      have h2 : (i : Int) ≤ 31 := by omega
      simp [boardStep, h2, hx]
    · exact strip_data (noEdge_cmd1 'Q' 'L' ',' x (by decide) (by decide))
    · apply no_err_of_no_colon
      have := colon_not_mem_showNat x
      simp [cQL, this]
  simp [hc, he, showInt_ofNat, hq, bind, Except.bind, pyInt_showNat]


theorem var_write_int {w : World} (hc : w.py.connected = true) (he : w.py.err = false) {v i : Int}
    (hv : 0 ≤ v ∧ v ≤ 255) (hi : 0 ≤ i ∧ i ≤ 31) (hl : i.toNat < w.board.vars.length) :
    var_write w v i = .ok (.bool true,
      ⟨w.py, { w.board with vars := w.board.vars.set i.toNat v.toNat },
        (cSL ++ ',' :: (showInt v ++ ',' :: showInt i)) :: w.sent⟩) := by
  obtain ⟨vn, rfl⟩ := Int.eq_ofNat_of_zero_le hv.1
  obtain ⟨n, rfl⟩ := Int.eq_ofNat_of_zero_le hi.1
  rw [var_write_nat hc he (by omega) (by omega) (by simpa using hl)]
  simp [showInt_ofNat]

theorem var_read_int {w : World} (hc : w.py.connected = true) (he : w.py.err = false) {i : Int} {x : Nat}
    (hi : 0 ≤ i ∧ i ≤ 31) (hx : w.board.vars[i.toNat]? = some x) :
    var_read w i = .ok (.int x, ⟨w.py, w.board, (cQL ++ ',' :: showInt i) :: w.sent⟩) := by
  obtain ⟨n, rfl⟩ := Int.eq_ofNat_of_zero_le hi.1
  rw [var_read_nat hc he (by omega) (by simpa using hx)]
  simp [showInt_ofNat]

theorem toBytes4_eq {v : Int} (hv : -2147483648 ≤ v ∧ v < 2147483648) :
    toBytes4 v = .ok [(Spec.beByte v 0 : Int), (Spec.beByte v 1 : Int), (Spec.beByte v 2 : Int), (Spec.beByte v 3 : Int)] := by
  unfold toBytes4 Spec.beByte
  rw [if_pos hv]
  simp only [Except.ok.injEq, List.cons.injEq, and_true]
  refine ⟨?_, ?_, ?_, ?_⟩ <;> (split <;> simp <;> omega)

theorem beByte_le (v : Int) (k : Nat) : Spec.beByte v k ≤ 255 := by
  unfold Spec.beByte
  have : 0 < (256 : Int) ^ (3 - k) := Int.pow_pos (by decide)
  omega


theorem var_write_int32_ok {w : World} (hc : w.py.connected = true) (he : w.py.err = false)
    (hlen : w.board.vars.length = 32) {v i : Int}
    (hv : -2147483648 ≤ v ∧ v < 2147483648) (hi : 0 ≤ i ∧ i ≤ 28) :
    ∃ sent, var_write_int32 w v i = .ok (.bool true,
      ⟨w.py, { w.board with vars := Spec.setBytes w.board.vars i.toNat v }, sent⟩) := by
  obtain ⟨n, rfl⟩ := Int.eq_ofNat_of_zero_le hi.1
  have hn : n ≤ 28 := by omega
  unfold var_write_int32
  simp only [hc, he, toBytes4_eq hv, writeLoop, bind, Except.bind, Bool.not_true, Bool.or_self,
    Bool.false_eq_true, if_false]
  have b0 := beByte_le v 0
  have b1 := beByte_le v 1
  have b2 := beByte_le v 2
  have b3 := beByte_le v 3
  rw [var_write_int hc he (by omega) (by omega) (by simp; omega)]
  simp only []
  rw [var_write_int (by exact hc) (by exact he) (by omega) (by omega) (by simp; omega)]
  simp only []
  rw [var_write_int (by exact hc) (by exact he) (by omega) (by omega) (by simp; omega)]
  simp only []
  rw [var_write_int (by exact hc) (by exact he) (by omega) (by omega) (by simp; omega)]
  simp only [he, Bool.false_eq_true, if_false]
  have e1 : ((n : Int) + 1).toNat = n + 1 := by omega
  have e2 : ((n : Int) + 1 + 1).toNat = n + 2 := by omega
  have e3 : ((n : Int) + 1 + 1 + 1).toNat = n + 3 := by omega
  apply Exists.intro
  unfold Spec.setBytes
  simp only [Int.toNat_natCast, e1, e2, e3]
  rfl


theorem decode_aux (a b c d : Int) :
    (if a * 16777216 + b * 65536 + c * 256 + d ≥ 2147483648 then a * 16777216 + b * 65536 + c * 256 + d - 4294967296
      else a * 16777216 + b * 65536 + c * 256 + d)
    = (if a * 16777216 + b * 65536 + c * 256 + d < 2147483648 then a * 16777216 + b * 65536 + c * 256 + d
      else a * 16777216 + b * 65536 + c * 256 + d - 4294967296) := by
  split <;> split <;> omega

theorem fromBytes4_nat {a b c d : Nat} (ha : a ≤ 255) (hb : b ≤ 255) (hc : c ≤ 255) (hd : d ≤ 255) :
    fromBytes4 [.int a, .int b, .int c, .int d] = .ok (Spec.decode32 a b c d) := by
  have hr : (0 ≤ (a : Int) ∧ (a : Int) ≤ 255 ∧ 0 ≤ (b : Int) ∧ (b : Int) ≤ 255 ∧ 0 ≤ (c : Int) ∧ (c : Int) ≤ 255 ∧
      0 ≤ (d : Int) ∧ (d : Int) ≤ 255) := by omega
  show (if (0 ≤ (a : Int) ∧ (a : Int) ≤ 255 ∧ 0 ≤ (b : Int) ∧ (b : Int) ≤ 255 ∧ 0 ≤ (c : Int) ∧ (c : Int) ≤ 255 ∧
      0 ≤ (d : Int) ∧ (d : Int) ≤ 255) then _ else _) = _
  rw [if_pos hr]
  unfold Spec.decode32
  exact congrArg _ (decode_aux a b c d)

theorem var_read_int32_ok {w : World} (hc : w.py.connected = true) (he : w.py.err = false) {i : Int}
    (hi : 0 ≤ i ∧ i ≤ 28) {a b c d : Nat}
    (h0 : w.board.vars[i.toNat]? = some a) (h1 : w.board.vars[i.toNat + 1]? = some b)
    (h2 : w.board.vars[i.toNat + 2]? = some c) (h3 : w.board.vars[i.toNat + 3]? = some d)
    (ha : a ≤ 255) (hb : b ≤ 255) (hcc : c ≤ 255) (hd : d ≤ 255) :
    ∃ sent, var_read_int32 w i = .ok (.int (Spec.decode32 a b c d), ⟨w.py, w.board, sent⟩) := by
  obtain ⟨n, rfl⟩ := Int.eq_ofNat_of_zero_le hi.1
  simp only [Int.toNat_natCast] at h0 h1 h2 h3
  unfold var_read_int32
  simp only [hc, he, readLoop, bind, Except.bind, Bool.not_true, Bool.or_self, Bool.false_eq_true, if_false]
  rw [var_read_int hc he (x := a) (by omega) (by simpa using h0)]
  simp only []
  rw [var_read_int (by exact hc) (by exact he) (x := b) (by omega)
    (by have : ((n : Int) + 1).toNat = n + 1 := by omega
        rw [this]; exact h1)]
  simp only []
  rw [var_read_int (by exact hc) (by exact he) (x := c) (by omega)
    (by have : ((n : Int) + 2).toNat = n + 2 := by omega
        rw [this]; exact h2)]
  simp only []
  rw [var_read_int (by exact hc) (by exact he) (x := d) (by omega)
    (by have : ((n : Int) + 3).toNat = n + 3 := by omega
        rw [this]; exact h3)]
  simp only [he, Bool.false_eq_true, if_false, fromBytes4_nat ha hb hcc hd]
  exact ⟨_, rfl⟩


/-- the board after an accepted `EM,a,c` -/
def emBoard (b : Board) (a c : Int) : Board :=
  { b with mode := if a = 0 then b.mode else a.toNat, m1 := decide (a ≠ 0), m2 := decide (c ≠ 0) }

theorem command_EM {w : World} (hc : w.py.connected = true) (he : w.py.err = false) {a c : Int}
    (ha : 0 ≤ a ∧ a ≤ 5) (hcc : 0 ≤ c ∧ c ≤ 5) :
    command w (cmdEM a c) = .ok (true, ⟨w.py, emBoard w.board a c, cmdEM a c :: w.sent⟩) := by
  obtain ⟨an, rfl⟩ := Int.eq_ofNat_of_zero_le ha.1
  obtain ⟨cn, rfl⟩ := Int.eq_ofNat_of_zero_le hcc.1
  have hform : cmdEM an cn = cEM ++ ',' :: (showNat an ++ ',' :: showNat cn) := by
    simp [cmdEM, showInt_ofNat]
  rw [hform]
  apply command_ack (name := cEM) hc he
  · exact strip_of_noEdge (noEdge_cmd2 'E' 'M' ',' an cn (by decide))
  · simp [cmdName, cEM]
  · rw [parseReq_EM]
    simp [boardStep, ha.2, hcc.2, em2Ok, emBoard]
  · exact strip_EM
  · decide

theorem command_CU50 {w : World} (hc : w.py.connected = true) (he : w.py.err = false) :
    command w cmdCU50 = .ok (true, ⟨w.py, { w.board with autoEnable := false }, cmdCU50 :: w.sent⟩) := by
  apply command_ack (name := cCU) hc he
  · decide
  · rfl
  · rw [parseReq_CU50]; simp [boardStep]
  · exact strip_CU
  · decide

theorem resMap_qe {mode : Nat} (hm : 1 ≤ mode ∧ mode ≤ 5) (m : Bool) :
    resMap (((if m = true then qeCode mode else 0 : Nat)) : Int) = .ok (if m = true then (mode : Int) else 0) := by
  have : mode = 1 ∨ mode = 2 ∨ mode = 3 ∨ mode = 4 ∨ mode = 5 := by omega
  cases m <;> rcases this with h | h | h | h | h <;> subst h <;> rfl

theorem mqe_ok {w : World} (hc : w.py.connected = true) (he : w.py.err = false)
    (hm : 1 ≤ w.board.mode ∧ w.board.mode ≤ 5) :
    motors_query_enabled w = .ok (some ((if w.board.m1 = true then (w.board.mode : Int) else 0),
      (if w.board.m2 = true then (w.board.mode : Int) else 0)), ⟨w.py, w.board, cQE :: w.sent⟩) := by
  unfold motors_query_enabled
  have hq : query w cQE = .ok (some (showNat (if w.board.m1 = true then qeCode w.board.mode else 0) ++ ',' ::
      showNat (if w.board.m2 = true then qeCode w.board.mode else 0)), ⟨w.py, w.board, cQE :: w.sent⟩) := by
    apply query_data (name := cQE) hc he
    · decide
    · rfl
    · rw [parseReq_QE]; simp [boardStep]
    · exact strip_data (noEdge_cmd2 'Q' 'E' ',' _ _ (by decide))
    · apply no_err_of_no_colon
      simp [cQE, colon_not_mem_showNat]
  simp only [hc, he, hq, bind, Except.bind, Bool.not_true, Bool.or_self, Bool.false_eq_true, if_false]
  rw [splitOn_append_sep _ (comma_not_mem_showNat _), splitOn_noSep (comma_not_mem_showNat _)]
  simp [index, pyInt_showNat, resMap_qe hm]



theorem clamp05_eq (r : Int) : clamp05 r = Spec.clamp r := by
  unfold clamp05 Spec.clamp
  split
  · omega
  · split <;> omega

theorem clamp_range (r : Int) : 0 ≤ Spec.clamp r ∧ Spec.clamp r ≤ 5 := by
  unfold Spec.clamp
  split
  · omega
  · split <;> omega

/-- the board required after `motors_enable r1 r2` -/
def meBoard (b : Board) (c1 c2 : Int) : Board :=
  { b with m1 := decide (c1 ≠ 0), m2 := decide (c2 ≠ 0),
           mode := if c1 ≠ 0 then c1.toNat else if c2 ≠ 0 then c2.toNat else b.mode,
           autoEnable := if c1 ≠ c2 ∧ (c1 = 0 ∨ c2 = 0) then false else b.autoEnable }

theorem ex_sent {v : Val} {py : Py} {b b' : Board} {s : List Str} (h : b = b') :
    ∃ sent, (Except.ok (v, (⟨py, b, s⟩ : World)) : Except Exc (Val × World)) = .ok (v, ⟨py, b', sent⟩) :=
  ⟨s, by rw [h]⟩

theorem motors_enable_clamped {w : World} (hc : w.py.connected = true) (he : w.py.err = false)
    (hm : 1 ≤ w.board.mode ∧ w.board.mode ≤ 5) (r1 r2 : Int) :
    ∃ sent, motors_enable w r1 r2 = .ok (.none, ⟨w.py, meBoard w.board (Spec.clamp r1) (Spec.clamp r2), sent⟩) := by
  unfold motors_enable
  rw [clamp05_eq, clamp05_eq]
  have h1 := clamp_range r1
  have h2 := clamp_range r2
  generalize Spec.clamp r1 = c1 at h1 ⊢
  generalize Spec.clamp r2 = c2 at h2 ⊢
  simp only [hc, he, Bool.not_true, Bool.or_self, Bool.false_eq_true, if_false]
  by_cases z1 : c1 = 0
  · by_cases z2 : c2 = 0
    · subst z1 z2
      simp only [bind, Except.bind, pure, Except.pure, ne_eq, not_true_eq_false, false_and, and_false, if_false]
      rw [command_EM hc he (by omega) (by omega)]
      apply ex_sent
      simp [emBoard, meBoard]
    · subst z1
      have hne : (0 : Int) ≠ c2 := fun h => z2 h.symm
      simp only [bind, Except.bind, pure, Except.pure, ne_eq, hne, not_false_eq_true, Int.zero_mul, and_self,
        if_true, z2]
      rw [command_CU50 hc he]
      simp only []
      rw [mqe_ok (by exact hc) (by exact he) (by exact hm)]
      simp only []
      by_cases hold : oldRes (if w.board.m1 = true then (w.board.mode : Int) else 0)
          (if w.board.m2 = true then (w.board.mode : Int) else 0) = c2
      · simp only [hold, not_true_eq_false, if_false]
        rw [command_EM (by exact hc) (by exact he) (by omega) h2]
        apply ex_sent
        simp only [emBoard, meBoard, ne_eq, z2, hne, not_false_eq_true, not_true_eq_false, if_true, if_false,
          true_or, and_self, decide_true, decide_false]
        have : w.board.mode = c2.toNat := by
          unfold oldRes at hold
          cases hm1 : w.board.m1 <;> cases hm2 : w.board.m2 <;> simp [hm1, hm2] at hold <;> omega
        simp [this]
      · simp only [hold, not_false_eq_true, if_true]
        rw [command_EM (by exact hc) (by exact he) h2 h2]
        simp only []
        rw [command_EM (by exact hc) (by exact he) (by omega) h2]
        apply ex_sent
        simp [emBoard, meBoard, z2, hne]
  · by_cases z2 : c2 = 0
    · subst z2
      simp only [bind, Except.bind, pure, Except.pure, ne_eq, z1, not_false_eq_true, Int.mul_zero, and_self,
        if_true, false_and, if_false]
      rw [command_CU50 hc he]
      simp only []
      rw [command_EM (by exact hc) (by exact he) h1 (by omega)]
      apply ex_sent
      simp [emBoard, meBoard, z1]
    · have hmul : ¬ (c1 * c2 = 0) := by
        intro h; rcases Int.mul_eq_zero.mp h with h | h <;> contradiction
      simp only [bind, Except.bind, pure, Except.pure, ne_eq, z1, hmul, and_false, false_and, if_false]
      rw [command_EM hc he h1 h2]
      apply ex_sent
      simp [emBoard, meBoard, z1, z2]



theorem isspace_of_noEdge {s : Str} (h : NoEdge s) : isspace s = false := by
  cases s with
  | nil => rfl
  | cons c cs =>
    have := h.1 c rfl
    simp [isspace, this]

theorem noEdge_prefixed (a b c : Char) {n : Str} (ha : isPySpace a = false) (hc : isPySpace c = false)
    (hn : NoEdge n) : NoEdge (a :: b :: c :: n) := by
  have := noEdge_cons_append ha [b] c hc hn
  simpa using this

theorem write_nickname_ok {w : World} (hc : w.py.connected = true) (he : w.py.err = false) {s : Str}
    (hlen : (strip s).length ≤ 16) :
    write_nickname w s = .ok (.bool true,
      ⟨{ w.py with name := some (strip s) }, { w.board with name := strip s }, (cST ++ ',' :: strip s) :: w.sent⟩) := by
  unfold write_nickname
  have hcmd : command w (cST ++ ',' :: strip s) = .ok (true,
      ⟨w.py, { w.board with name := strip s }, (cST ++ ',' :: strip s) :: w.sent⟩) := by
    apply command_ack (name := cST) hc he
    · exact strip_of_noEdge (noEdge_prefixed 'S' 'T' ',' (by decide) (by decide) (noEdge_strip s))
    · simp [cmdName, cST]
    · rw [parseReq_ST]; simp [boardStep, hlen]
    · exact strip_ST
    · decide
  simp [hc, he, hcmd, bind, Except.bind]

theorem query_nickname_ok {w : World} (hc : w.py.connected = true) (he : w.py.err = false)
    (hn : NoEdge w.board.name) (herr : isInfix sErr w.board.name = false) :
    query_nickname w = .ok (.none,
      ⟨{ w.py with name := some w.board.name }, w.board, cQT :: w.sent⟩) := by
  unfold query_nickname
  have hq : query w cQT = .ok (some w.board.name, ⟨w.py, w.board, cQT :: w.sent⟩) := by
    apply query_data (name := cQT) hc he
    · decide
    · rfl
    · rw [parseReq_QT]; simp [boardStep]
    · exact strip_data (noEdge_prefixed 'Q' 'T' ',' (by decide) (by decide) hn)
    · have herr' : isInfix ['E', 'r', 'r', ':'] w.board.name = false := herr
      simp [isInfix, startsWith, sErr, cQT, herr']
  simp [hc, he, hq, bind, Except.bind, isspace_of_noEdge hn, strip_of_noEdge hn]



theorem rstrip_last (s : Str) : ∀ c, (rstrip s).getLast? = some c → isPySpace c = false := by
  intro c hc
  apply lstrip_head s.reverse
  unfold rstrip at hc
  rw [List.getLast?_reverse] at hc
  exact hc

theorem noEdge_prefixed_last (a b c : Char) {n : Str} (ha : isPySpace a = false) (hc : isPySpace c = false)
    (hn : ∀ x, n.getLast? = some x → isPySpace x = false) : NoEdge (a :: b :: c :: n) := by
  constructor
  · intro x hx; simp at hx; subst hx; exact ha
  · intro x hx
    cases n with
    | nil => simp at hx; subst hx; exact hc
    | cons e es =>
      apply hn
      have : a :: b :: c :: e :: es = [a, b, c] ++ (e :: es) := by simp
      rw [this, getLast?_of_append_ne_nil (by simp)] at hx
      exact hx

theorem startsWith_append {s p : Str} (z : Str) (h : startsWith s p = true) : startsWith (s ++ z) p = true := by
  induction p generalizing s with
  | nil => cases s <;> cases z <;> rfl
  | cons q qs ih =>
    cases s with
    | nil => simp [startsWith] at h
    | cons d ds =>
      simp only [startsWith, Bool.and_eq_true] at h
      simp only [List.cons_append, startsWith, Bool.and_eq_true]
      exact ⟨h.1, ih h.2⟩

theorem isInfix_nil (s : Str) : isInfix [] s = true := by
  cases s with
  | nil => rfl
  | cons c cs => simp [isInfix, startsWith]

theorem isInfix_append {p s : Str} (z : Str) (h : isInfix p s = true) : isInfix p (s ++ z) = true := by
  induction s with
  | nil =>
    simp only [isInfix, List.isEmpty_iff] at h
    subst h; exact isInfix_nil _
  | cons c cs ih =>
    simp only [isInfix, Bool.or_eq_true] at h
    simp only [List.cons_append, isInfix, Bool.or_eq_true]
    rcases h with h | h
    · left
      have := startsWith_append z h
      simpa using this
    · right; exact ih h

theorem isspace_of_last {s : Str} (h : ∀ c, s.getLast? = some c → isPySpace c = false) : isspace s = false := by
  cases hs : s with
  | nil => rfl
  | cons c cs =>
    have hne : s ≠ [] := by rw [hs]; simp
    have hx := h (s.getLast hne) (List.getLast?_eq_some_getLast hne)
    have hmem : s.getLast hne ∈ s := List.getLast_mem hne
    rw [← hs]
    unfold isspace
    have : s.all isPySpace = false := by
      rw [List.all_eq_false]
      exact ⟨_, hmem, by simp [hx]⟩
    simp [this]

theorem query_nickname_gen {w : World} (hc : w.py.connected = true) (he : w.py.err = false)
    (herr : isInfix sErr w.board.name = false) :
    query_nickname w = .ok (.none,
      ⟨{ w.py with name := some (strip w.board.name) }, w.board, cQT :: w.sent⟩) := by
  unfold query_nickname
  obtain ⟨z, hz, e⟩ := rstrip_decomp w.board.name
  have hne := noEdge_prefixed_last 'Q' 'T' ',' (by decide) (by decide) (rstrip_last w.board.name)
  have hq : query w cQT = .ok (some (rstrip w.board.name), ⟨w.py, w.board, cQT :: w.sent⟩) := by
    have hsw : startsWith (cQT ++ ',' :: rstrip w.board.name) cQT = true := startsWith_self_append _ _
    have hresp : strip (cQT ++ ',' :: (w.board.name ++ ['\n'])) = cQT ++ ',' :: rstrip w.board.name := by
      have hz' : AllSp (z ++ ['\n']) := allSp_append hz (fun c hc => by simp at hc; subst hc; decide)
      have := strip_unique (a := []) (m := cQT ++ ',' :: rstrip w.board.name) (z := z ++ ['\n'])
        (fun _ h => by simp at h) hz' hne
      rw [← this]
      congr 1
      rw (occs := [1]) [e]
      simp [cQT]
    have herr' : isInfix sErr (cQT ++ ',' :: rstrip w.board.name) = false := by
      have h0 : isInfix sErr (rstrip w.board.name) = false := by
        cases h : isInfix sErr (rstrip w.board.name) with
        | false => rfl
        | true =>
          have := isInfix_append z h
          rw [← e, herr] at this
          exact absurd this (by simp)
      have h0' : isInfix ['E', 'r', 'r', ':'] (rstrip w.board.name) = false := h0
      simp [isInfix, startsWith, sErr, cQT, h0']
    unfold query
    have hcn : cmdName cQT = .ok cQT := rfl
    have hst : strip cQT = cQT := by decide
    simp [hc, he, hst, hcn, exchange_eq, parseReq_QT, boardStep, renderReply, hresp, herr', hsw, bind, Except.bind]
  simp [hc, he, hq, bind, Except.bind, isspace_of_last (rstrip_last w.board.name), strip_rstrip]


end Plotink.C16
