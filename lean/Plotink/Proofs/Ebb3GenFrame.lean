import Plotink.PyObj

/-! # A frame property of regenerated code

Whatever a regenerated method does, it leaves the external inputs (`World.ext`) alone and it only *consumes* the
scripts of the port: every read / write outcome still pending afterwards was pending before.  The property is
closed under every combinator the translator emits, so it is proved for a method by walking its generated term
(`fr_auto`). -/

namespace Plotink
namespace Ebb3Gen
open PyObj
set_option linter.unusedVariables false

section
variable {ω σ : Type}

/-- `w'` is reachable from `w` by generated code: same `ext`, pending outcomes only dropped -/
def Fr (w w' : World ω) : Prop :=
  w'.ext = w.ext ∧ (∀ r, r ∈ w'.port.reads → r ∈ w.port.reads) ∧ (∀ x, x ∈ w'.port.writes → x ∈ w.port.writes)

theorem Fr.refl (w : World ω) : Fr w w := ⟨rfl, fun _ h => h, fun _ h => h⟩
theorem Fr.trans {a b c : World ω} (h1 : Fr a b) (h2 : Fr b c) : Fr a c :=
  ⟨h2.1.trans h1.1, fun r h => h1.2.1 r (h2.2.1 r h), fun r h => h1.2.2 r (h2.2.2 r h)⟩
theorem Fr.setObj {a b : World ω} (h : Fr a b) (o : ω) : Fr a { b with obj := o } := h

def FrE (e : Eff ω) : Prop := ∀ w, Fr w (e w).2

def FrF (w : World ω) : Flow ω σ → Prop
  | .norm _ w' => Fr w w'
  | .ret _ w' => Fr w w'
  | .exc _ _ w' => Fr w w'
  | .brk _ w' => Fr w w'
  | .cont _ w' => Fr w w'
  | .fuelOut => True

def FrS (s : Stmt ω σ) : Prop := ∀ fuel env w, FrF w (s fuel env w)

def FrO (w : World ω) : Out ω → Prop
  | .val _ w' => Fr w w'
  | .exc _ w' => Fr w w'
  | .fuelOut => True

/-- a generated method (after its arguments) -/
def FrM (f : World ω → Out ω) : Prop := ∀ w, FrO w (f w)

theorem FrF.mono {a b : World ω} (h : Fr a b) {fl : Flow ω σ} (hf : FrF b fl) : FrF a fl := by
  cases fl <;> first | exact h.trans hf | trivial

/-! ## expressions -/

theorem FrE.ok (v : Val) : FrE (ok v : Eff ω) := fun w => Fr.refl w
theorem FrE.raise (c : PyIO.ExcClass) : FrE (raise c : Eff ω) := fun w => Fr.refl w
theorem FrE.ofP (p : P) : FrE (ofP p : Eff ω) := by cases p <;> exact fun w => Fr.refl w

theorem FrE.bind {m : Eff ω} {f : Val → Eff ω} (hm : FrE m) (hf : ∀ v, FrE (f v)) : FrE (PyObj.bind m f) := by
  intro w
  have h1 := hm w
  unfold PyObj.bind
  cases hr : m w with
  | mk r w1 =>
    rw [hr] at h1
    cases r with
    | ok v => exact h1.trans (hf v w1)
    | exc c => exact h1
    | fuelOut => exact h1

theorem FrE.app1 (f : Val → P) {a : Eff ω} (ha : FrE a) : FrE (app1 f a) :=
  FrE.bind ha fun _ => FrE.ofP _
theorem FrE.app2 (f : Val → Val → P) {a b : Eff ω} (ha : FrE a) (hb : FrE b) : FrE (app2 f a b) :=
  FrE.bind ha fun _ => FrE.bind hb fun _ => FrE.ofP _
theorem FrE.app3 (f : Val → Val → Val → P) {a b c : Eff ω} (ha : FrE a) (hb : FrE b) (hc : FrE c) :
    FrE (app3 f a b c) :=
  FrE.bind ha fun _ => FrE.bind hb fun _ => FrE.bind hc fun _ => FrE.ofP _
theorem FrE.eff1 {f : Val → Eff ω} {a : Eff ω} (hf : ∀ v, FrE (f v)) (ha : FrE a) : FrE (eff1 f a) :=
  FrE.bind ha hf
theorem FrE.eff2 {f : Val → Val → Eff ω} {a b : Eff ω} (hf : ∀ v u, FrE (f v u)) (ha : FrE a) (hb : FrE b) :
    FrE (eff2 f a b) :=
  FrE.bind ha fun v => FrE.bind hb fun u => hf v u
theorem FrE.load (v : Val) : FrE (load v : Eff ω) := by
  cases v <;> first | exact FrE.raise _ | exact FrE.ok _
theorem FrE.getattr (get : ω → Val) : FrE (getattr get) := by
  intro w
  unfold PyObj.getattr
  split <;> exact Fr.refl w
theorem FrE.and_ {a b : Eff ω} (ha : FrE a) (hb : FrE b) : FrE (and_ a b) :=
  FrE.bind ha fun x => by split <;> first | exact hb | exact FrE.ok _
theorem FrE.or_ {a b : Eff ω} (ha : FrE a) (hb : FrE b) : FrE (or_ a b) :=
  FrE.bind ha fun x => by split <;> first | exact hb | exact FrE.ok _
theorem FrE.not_ {a : Eff ω} (ha : FrE a) : FrE (not_ a) := FrE.bind ha fun _ => FrE.ok _

/-- every element of a literal list of operands -/
def FrEs : List (Eff ω) → Prop
  | [] => True
  | a :: r => FrE a ∧ FrEs r

theorem FrE.evalList : ∀ (l : List (Eff ω)) (k : List Val → Eff ω), FrEs l → (∀ xs, FrE (k xs)) → FrE (evalList l k)
  | [], k, _, hk => hk []
  | a :: r, k, hl, hk => FrE.bind hl.1 fun x => FrE.evalList r _ hl.2 fun xs => hk _

theorem FrE.mkList {l : List (Eff ω)} (h : FrEs l) : FrE (mkList l) := FrE.evalList l _ h fun _ => FrE.ok _
theorem FrE.mkTuple {l : List (Eff ω)} (h : FrEs l) : FrE (mkTuple l) := FrE.evalList l _ h fun _ => FrE.ok _
theorem FrE.mkDict (keys : List Val) {l : List (Eff ω)} (h : FrEs l) : FrE (mkDict keys l) :=
  FrE.evalList l _ h fun _ => FrE.ok _
theorem FrE.fstr {l : List (Eff ω)} (h : FrEs l) : FrE (fstr l) := FrE.evalList l _ h fun _ => FrE.ok _
theorem FrE.dropCall {l : List (Eff ω)} (h : FrEs l) : FrE (dropCall l) := FrE.evalList l _ h fun _ => FrE.ok _

theorem mem_of_mem_tail {α : Type} {a x : α} {l : List α} (h : x ∈ l) : x ∈ a :: l := List.mem_cons_of_mem _ h

theorem FrE.meth_readline (v : Val) : FrE (meth_readline v : Eff ω) := by
  intro w
  cases v <;> try exact Fr.refl w
  unfold PyObj.meth_readline
  simp only
  split
  · exact ⟨rfl, fun _ h => h, fun _ h => h⟩
  · next h => exact ⟨rfl, fun r hr => by rw [h]; exact mem_of_mem_tail hr, fun _ h => h⟩
  · next h => exact ⟨rfl, fun r hr => by rw [h]; exact mem_of_mem_tail hr, fun _ h => h⟩
  · next h => exact ⟨rfl, fun r hr => by rw [h]; exact mem_of_mem_tail hr, fun _ h => h⟩

theorem FrE.meth_write (a b : Val) : FrE (meth_write a b : Eff ω) := by
  intro w
  cases a <;> try exact Fr.refl w
  cases b <;> try exact Fr.refl w
  unfold PyObj.meth_write
  simp only
  split
  · exact ⟨rfl, fun _ h => h, fun _ h => h⟩
  · next h => exact ⟨rfl, fun _ h => h, fun r hr => by rw [h]; exact mem_of_mem_tail hr⟩
  · next h => exact ⟨rfl, fun _ h => h, fun r hr => by rw [h]; exact mem_of_mem_tail hr⟩

theorem FrE.meth_close (v : Val) : FrE (meth_close v : Eff ω) := by
  intro w; cases v <;> exact Fr.refl w
theorem FrE.meth_reset_input_buffer (v : Val) : FrE (meth_reset_input_buffer v : Eff ω) := by
  intro w; cases v <;> exact Fr.refl w
theorem FrE.ext_comports : FrE (ext_comports : Eff ω) := by
  intro w; unfold PyObj.ext_comports; split <;> exact Fr.refl w
theorem FrE.ext_find_named (v : Val) : FrE (ext_find_named v : Eff ω) := fun w => Fr.refl w
theorem FrE.ext_serial_open (v : Val) : FrE (ext_serial_open v : Eff ω) := by
  intro w; unfold PyObj.ext_serial_open; split <;> exact Fr.refl w

theorem FrE.ofOut {f : World ω → Out ω} (hf : FrM f) : FrE (fun w => ofOut (f w) (.fuelOut, w)) := by
  intro w
  have h := hf w
  show Fr w (PyObj.ofOut (f w) (.fuelOut, w)).2
  cases hr : f w with
  | val v w' => rw [hr] at h; exact h
  | exc c w' => rw [hr] at h; exact h
  | fuelOut => exact Fr.refl w

theorem FrE.mcall0 {f : World ω → Out ω} (hf : FrM f) : FrE (mcall0 f) := FrE.ofOut hf
theorem FrE.mcall1 {f : Val → World ω → Out ω} {a : Eff ω} (hf : ∀ x, FrM (f x)) (ha : FrE a) : FrE (mcall1 f a) :=
  FrE.bind ha fun x => FrE.ofOut (hf x)
theorem FrE.mcall2 {f : Val → Val → World ω → Out ω} {a b : Eff ω} (hf : ∀ x y, FrM (f x y)) (ha : FrE a)
    (hb : FrE b) : FrE (mcall2 f a b) :=
  FrE.bind ha fun x => FrE.bind hb fun y => FrE.ofOut (hf x y)
theorem FrE.mcall3 {f : Val → Val → Val → World ω → Out ω} {a b c : Eff ω} (hf : ∀ x y z, FrM (f x y z))
    (ha : FrE a) (hb : FrE b) (hc : FrE c) : FrE (mcall3 f a b c) :=
  FrE.bind ha fun x => FrE.bind hb fun y => FrE.bind hc fun z => FrE.ofOut (hf x y z)

/-! ## statements -/

theorem FrS.pass : FrS (pass : Stmt ω σ) := fun _ _ w => Fr.refl w
theorem FrS.break_ : FrS (break_ : Stmt ω σ) := fun _ _ w => Fr.refl w
theorem FrS.continue_ : FrS (continue_ : Stmt ω σ) := fun _ _ w => Fr.refl w

theorem FrS.seq {a b : Stmt ω σ} (ha : FrS a) (hb : FrS b) : FrS (seq a b) := by
  intro fuel env w
  have h1 := ha fuel env w
  unfold PyObj.seq
  cases hr : a fuel env w <;> rw [hr] at h1 <;> try exact h1
  exact FrF.mono h1 (hb fuel _ _)

def FrSs : List (Stmt ω σ) → Prop
  | [] => True
  | a :: r => FrS a ∧ FrSs r

theorem FrS.block : ∀ (l : List (Stmt ω σ)), FrSs l → FrS (block l)
  | [], _ => FrS.pass
  | [a], h => h.1
  | a :: b :: r, h => FrS.seq h.1 (FrS.block (b :: r) h.2)

theorem FrS.assign (set : σ → Val → σ) {e : Expr ω σ} (he : ∀ fuel env, FrE (e fuel env)) : FrS (assign set e) := by
  intro fuel env w
  have h := he fuel env w
  unfold PyObj.assign
  cases hr : e fuel env w with
  | mk r w1 => rw [hr] at h; cases r <;> first | exact h | trivial

theorem FrS.setattr (set : ω → Val → ω) {e : Expr ω σ} (he : ∀ fuel env, FrE (e fuel env)) : FrS (setattr set e) := by
  intro fuel env w
  have h := he fuel env w
  unfold PyObj.setattr
  cases hr : e fuel env w with
  | mk r w1 => rw [hr] at h; cases r <;> first | exact h | trivial

theorem FrS.expr {e : Expr ω σ} (he : ∀ fuel env, FrE (e fuel env)) : FrS (expr e) := by
  intro fuel env w
  have h := he fuel env w
  unfold PyObj.expr
  cases hr : e fuel env w with
  | mk r w1 => rw [hr] at h; cases r <;> first | exact h | trivial

theorem FrS.return_ {e : Expr ω σ} (he : ∀ fuel env, FrE (e fuel env)) : FrS (return_ e) := by
  intro fuel env w
  have h := he fuel env w
  unfold PyObj.return_
  cases hr : e fuel env w with
  | mk r w1 => rw [hr] at h; cases r <;> first | exact h | trivial

theorem FrS.ifte {c : Expr ω σ} {a b : Stmt ω σ} (hc : ∀ fuel env, FrE (c fuel env)) (ha : FrS a) (hb : FrS b) :
    FrS (ifte c a b) := by
  intro fuel env w
  have h := hc fuel env w
  unfold PyObj.ifte
  cases hr : c fuel env w with
  | mk r w1 =>
    rw [hr] at h
    cases r with
    | ok v =>
      show FrF w (if truthy v = true then _ else _)
      split
      · exact FrF.mono h (ha fuel env w1)
      · exact FrF.mono h (hb fuel env w1)
    | exc c => exact h
    | fuelOut => trivial

theorem FrS.whileLoop {c : Expr ω σ} {body : Stmt ω σ} (hc : ∀ fuel env, FrE (c fuel env)) (hb : FrS body)
    (fuel : Nat) : ∀ n env w, FrF w (whileLoop c body fuel n env w)
  | 0, _, _ => trivial
  | n + 1, env, w => by
    have h := hc fuel env w
    unfold PyObj.whileLoop
    cases hr : c fuel env w with
    | mk r w1 =>
      rw [hr] at h
      cases r with
      | exc c => exact h
      | fuelOut => trivial
      | ok v =>
        show FrF w (if truthy v = true then _ else _)
        split
        · have h2 := hb fuel env w1
          cases hb2 : body fuel env w1 <;> rw [hb2] at h2 <;> simp only
          · exact FrF.mono (h.trans h2) (FrS.whileLoop hc hb fuel n _ _)
          · exact h.trans h2
          · exact h.trans h2
          · exact h.trans h2
          · exact FrF.mono (h.trans h2) (FrS.whileLoop hc hb fuel n _ _)
          · trivial
        · exact h

theorem FrS.while_ {c : Expr ω σ} {body : Stmt ω σ} (hc : ∀ fuel env, FrE (c fuel env)) (hb : FrS body) :
    FrS (while_ c body) := fun fuel env w => FrS.whileLoop hc hb fuel fuel env w

theorem FrS.forLoop (set : σ → Val → σ) {body : Stmt ω σ} (hb : FrS body) (fuel : Nat) :
    ∀ xs env w, FrF w (forLoop set body fuel xs env w)
  | [], _, w => Fr.refl w
  | x :: xs, env, w => by
    unfold PyObj.forLoop
    have h2 := hb fuel (set env x) w
    cases hb2 : body fuel (set env x) w <;> rw [hb2] at h2 <;> simp only
    · exact FrF.mono h2 (FrS.forLoop set hb fuel xs _ _)
    · exact h2
    · exact h2
    · exact h2
    · exact FrF.mono h2 (FrS.forLoop set hb fuel xs _ _)
    · trivial

theorem FrS.forIn (set : σ → Val → σ) {e : Expr ω σ} {body : Stmt ω σ} (he : ∀ fuel env, FrE (e fuel env))
    (hb : FrS body) : FrS (forIn set e body) := by
  intro fuel env w
  have h := he fuel env w
  unfold PyObj.forIn
  cases hr : e fuel env w with
  | mk r w1 =>
    rw [hr] at h
    cases r with
    | exc c => exact h
    | fuelOut => trivial
    | ok v =>
      simp only
      split
      · exact FrF.mono h (FrS.forLoop set hb fuel _ _ _)
      · exact h

theorem FrS.runHandler {h : Handler ω σ} (hb : FrS h.body) (e : PyIO.ExcClass) : FrS (runHandler h e) := by
  intro fuel env w
  unfold PyObj.runHandler
  split
  · exact hb fuel env w
  · next set hs =>
    have h2 := hb fuel (set env (.exc e)) w
    cases hb2 : h.body fuel (set env (.exc e)) w <;> rw [hb2] at h2 <;> exact h2

def FrHs : List (Handler ω σ) → Prop
  | [] => True
  | h :: r => FrS h.body ∧ FrHs r

theorem FrS.dispatch : ∀ (hs : List (Handler ω σ)), FrHs hs → ∀ e, FrS (dispatch hs e)
  | [], _, e => fun _ _ w => Fr.refl w
  | h :: r, hh, e => by
    intro fuel env w
    unfold PyObj.dispatch
    split
    · exact FrS.runHandler hh.1 e fuel env w
    · exact FrS.dispatch r hh.2 e fuel env w

theorem FrS.tryExcept {body : Stmt ω σ} {hs : List (Handler ω σ)} (hb : FrS body) (hh : FrHs hs) :
    FrS (tryExcept body hs) := by
  intro fuel env w
  have h := hb fuel env w
  unfold PyObj.tryExcept
  cases hr : body fuel env w <;> rw [hr] at h <;> try exact h
  exact FrF.mono h (FrS.dispatch hs hh _ fuel _ _)

theorem FrM.run {body : Stmt ω σ} (hb : FrS body) (fuel : Nat) (env : σ) : FrM (run body fuel env) := by
  intro w
  have h := hb fuel env w
  unfold PyObj.run
  cases hr : body fuel env w <;> rw [hr] at h <;> exact h

theorem FrEs.nil : FrEs ([] : List (Eff ω)) := True.intro
theorem FrEs.cons {a : Eff ω} {r : List (Eff ω)} (ha : FrE a) (hr : FrEs r) : FrEs (a :: r) := ⟨ha, hr⟩
theorem FrSs.nil : FrSs ([] : List (Stmt ω σ)) := True.intro
theorem FrSs.cons {a : Stmt ω σ} {r : List (Stmt ω σ)} (ha : FrS a) (hr : FrSs r) : FrSs (a :: r) := ⟨ha, hr⟩
theorem FrHs.nil : FrHs ([] : List (Handler ω σ)) := True.intro
theorem FrHs.cons {c : Option (List PyIO.ExcClass)} {bd : Option (σ → Val → σ)} {b : Stmt ω σ}
    {r : List (Handler ω σ)} (hb : FrS b) (hr : FrHs r) :
    FrHs ({ classes := c, bind := bd, body := b } :: r) := ⟨hb, hr⟩

end

/-- walk a generated term; `hs` = the frame lemmas of the generated definitions it mentions -/
syntax "fr_auto" "[" term,* "]" : tactic
macro_rules
  | `(tactic| fr_auto [$ts,*]) => `(tactic| repeat (with_reducible first
      | exact FrE.ok _ | exact FrE.raise _ | exact FrE.load _ | exact FrE.getattr _
      | exact FrE.meth_readline _ | exact FrE.meth_write _ _ | exact FrE.meth_close _
      | exact FrE.meth_reset_input_buffer _ | exact FrE.ext_comports | exact FrE.ext_find_named _
      | exact FrE.ext_serial_open _
      | exact FrS.pass | exact FrS.break_ | exact FrS.continue_
      | exact FrEs.nil | exact FrSs.nil | exact FrHs.nil
      | apply FrEs.cons | apply FrSs.cons | apply FrHs.cons
      | apply FrE.app1 | apply FrE.app2 | apply FrE.app3 | apply FrE.eff1 | apply FrE.eff2
      | apply FrE.and_ | apply FrE.or_ | apply FrE.not_
      | apply FrE.mkList | apply FrE.mkTuple | apply FrE.mkDict | apply FrE.fstr | apply FrE.dropCall
      | apply FrE.mcall0 | apply FrE.mcall1 | apply FrE.mcall2 | apply FrE.mcall3
      | apply FrS.seq | apply FrS.block | apply FrS.assign | apply FrS.setattr | apply FrS.expr | apply FrS.return_
      | apply FrS.ifte | apply FrS.while_ | apply FrS.forIn | apply FrS.tryExcept
      | intro _
      $[| apply $ts]*))

end Ebb3Gen
end Plotink
