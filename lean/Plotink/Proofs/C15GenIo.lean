import Plotink.Proofs.C15GenPrims
import Plotink.Props.C07
/-! # C15 (regenerated code) — the two hand models of `ebb_serial.query` agree

`C07.query` (to which the regenerated `ebb_serial.query` is bridged by `C07_gen_bridge`) and `C15.lquery` (on which the
C15 gate models run) return the same text and leave related scripts, on ASCII scripts; and whatever a call leaves of a
script is part of it (so the hypotheses on the script persist from call to call). -/
namespace Plotink.C15Gen
open PyObj
set_option linter.unusedSimpArgs false
set_option linter.unusedVariables false

def absRd : PyIO.Rd → C15.Rd
  | .line b => .line b
  | .empty => .empty
  | .raise _ => .raise
def absWr : PyIO.Wr → C15.Wr
  | .ok => .ok
  | .raise _ => .raise

/-- the `C15` script behind a runtime port: same outcome lists (exception classes forgotten); the two write logs
follow different conventions (`PyIO` records an attempted write that raises, `C15.Io` does not) and are not related -/
def Rel (p : PyIO.Port) (io : C15.Io) : Prop :=
  io.reads = p.reads.map absRd ∧ io.writes = p.writes.map absWr

/-- the canonical `C15` script of a port (fresh log) -/
def absIo (p : PyIO.Port) : C15.Io := ⟨[], p.reads.map absRd, p.writes.map absWr, []⟩

theorem rel_absIo (p : PyIO.Port) : Rel p (absIo p) := ⟨rfl, rfl⟩

theorem readline_rel {p : PyIO.Port} {io : C15.Io} (h : Rel p io) :
    (C07.readline p).1 = io.read.1 ∧ Rel (C07.readline p).2 io.read.2 := by
  obtain ⟨hr, hw⟩ := h
  unfold C07.readline C15.Io.read
  rw [hr]
  cases hp : p.reads with
  | nil => exact ⟨rfl, by simp [Rel, hp, hr, hw]⟩
  | cons r rs =>
    cases r <;> simp [Rel, absRd, hw]

theorem write_rel {p : PyIO.Port} {io : C15.Io} (b : List Char) (h : Rel p io) :
    (C07.write b p).1 = !(io.write b).1 ∧ Rel (C07.write b p).2 (io.write b).2 := by
  obtain ⟨hr, hw⟩ := h
  unfold C07.write C15.Io.write
  rw [hw]
  cases hp : p.writes with
  | nil => exact ⟨rfl, by simp [Rel, hp, hr, hw]⟩
  | cons r rs =>
    cases r <;> simp [Rel, absWr, hr]


theorem retry_rel (n : Nat) (s : List Char) (p : PyIO.Port) (io : C15.Io)
    (ha : C07.allAscii p.reads = true) (h : Rel p io) :
    ∃ fl s' p' b io', C07.retryResp true n (.str s) p = (fl, .str s', p') ∧
      C15.retryL true n (.str s) io = (.str s', b, io') ∧
      ((fl = .done ∧ b = false) ∨ (fl = .io ∧ b = true)) ∧ Rel p' io' ∧ C07.allAscii p'.reads = true := by
  induction n generalizing s p io with
  | zero => exact ⟨.done, s, p, false, io, rfl, rfl, Or.inl ⟨rfl, rfl⟩, h, ha⟩
  | succ n ih =>
    unfold C07.retryResp C15.retryL
    by_cases hs : s = []
    · subst hs
      simp only [C07.Val.len, List.length_nil, ne_eq, not_true_eq_false, ↓reduceIte, C15.Resp.text,
        List.isEmpty_nil, Bool.not_true, Bool.false_eq_true]
      obtain ⟨h1, h2⟩ := readline_rel h
      obtain ⟨a1, a2⟩ := C07.readline_ascii p ha
      rcases hrd : C07.readline p with ⟨ob, p1⟩
      rcases hio : io.read with ⟨ol, io1⟩
      rw [hrd, hio] at h1 h2; rw [hrd] at a1 a2
      simp only at h1 h2 a1 a2
      subst h1
      cases ob with
      | none => exact ⟨.io, [], p1, true, io1, rfl, rfl, Or.inr ⟨rfl, rfl⟩, h2, a1⟩
      | some b =>
        have hb := a2 b rfl
        simp only [C07.decode, hb, ↓reduceIte]
        exact ih b p1 io1 a1 h2
    · have : s.length ≠ 0 := by cases s <;> simp_all
      have h2 : (!s.isEmpty) = true := by cases s <;> simp_all
      simp only [C07.Val.len, ne_eq, this, not_false_eq_true, ↓reduceIte, C15.Resp.text, h2]
      exact ⟨.done, s, p, false, io, rfl, rfl, Or.inl ⟨rfl, rfl⟩, h, ha⟩

theorem unused_rel (n : Nat) (u : List Char) (p : PyIO.Port) (io : C15.Io) (h : Rel p io) :
    (C07.retryUnused n u p).1 = !(C15.retryL true n (.str u) io).2.1 ∧
      Rel (C07.retryUnused n u p).2 (C15.retryL true n (.str u) io).2.2 := by
  induction n generalizing u p io with
  | zero => exact ⟨rfl, h⟩
  | succ n ih =>
    unfold C07.retryUnused C15.retryL
    by_cases hs : u = []
    · subst hs
      simp only [List.length_nil, ne_eq, not_true_eq_false, ↓reduceIte, C15.Resp.text,
        List.isEmpty_nil, Bool.not_true, Bool.false_eq_true]
      obtain ⟨h1, h2⟩ := readline_rel h
      rcases hrd : C07.readline p with ⟨ob, p1⟩
      rcases hio : io.read with ⟨ol, io1⟩
      rw [hrd, hio] at h1 h2
      simp only at h1 h2
      subst h1
      cases ob with
      | none => exact ⟨rfl, h2⟩
      | some b => exact ih b p1 io1 h2
    · have : u.length ≠ 0 := by cases u <;> simp_all
      have h2 : (!u.isEmpty) = true := by cases u <;> simp_all
      simp only [ne_eq, this, not_false_eq_true, ↓reduceIte, C15.Resp.text, h2]
      exact ⟨rfl, h⟩


/-- the parameters of the `C15` legacy model that the regenerated `ebb_serial.query` / `command` realise (they are
the constants `C07_gen_bridge` was proved against) -/
structure GenParams (P : C15.Params) : Prop where
  retry : P.retryL = C07.std.retry
  decode : P.decodeRetry = true

/-- the two models name the query the same way as far as the no-OK list is concerned -/
def SameName (P : C15.Params) (c : List Char) : Prop :=
  P.noOk.contains (C15.lower (C15.strip ((C15.splitOn ',' c).headD []))) = C07.std.noOK.contains (C07.reqName c)

theorem trail_rel (P : C15.Params) (hP : GenParams P) (c : List Char) (hn : SameName P c) (v : C07.Val)
    (p : PyIO.Port) (io : C15.Io) (ha : C07.allAscii p.reads = true) (h : Rel p io) :
    ∃ fl p', C07.queryTrail C07.std c v p = (fl, v, p') ∧ (fl = .done ∨ fl = .io) ∧
      Rel p' (C15.lqueryExtra P io c) := by
  unfold C07.queryTrail C15.lqueryExtra
  rw [hn]
  by_cases hc : C07.std.noOK.contains (C07.reqName c) = true
  · simp only [hc, ↓reduceIte]; exact ⟨.done, p, rfl, Or.inl rfl, h⟩
  · simp only [hc, Bool.false_eq_true, ↓reduceIte]
    obtain ⟨h1, h2⟩ := readline_rel h
    rcases hrd : C07.readline p with ⟨ob, p1⟩
    rcases hio : io.read with ⟨ol, io1⟩
    rw [hrd, hio] at h1 h2
    simp only at h1 h2
    subst h1
    cases ob with
    | none => exact ⟨.io, p1, rfl, Or.inr rfl, h2⟩
    | some u =>
      simp only
      obtain ⟨g1, g2⟩ := unused_rel C07.std.retry u p1 io1 h2
      rw [hP.retry]
      rcases hu : C07.retryUnused C07.std.retry u p1 with ⟨b, p5⟩
      rw [hu] at g1 g2
      cases b
      · exact ⟨.io, p5, rfl, Or.inr rfl, g2⟩
      · exact ⟨.done, p5, rfl, Or.inl rfl, g2⟩

/-- **model to model**: on ASCII scripts `C07.query` (the model the regenerated `ebb_serial.query` is bridged to)
and `C15.lquery` return the same text and leave related scripts -/
theorem lquery_rel (P : C15.Params) (hP : GenParams P) (c : List Char) (hc : PyIO.isAscii c = true)
    (hn : SameName P c) (p : PyIO.Port) (io : C15.Io) (ha : C07.allAscii p.reads = true) (h : Rel p io) :
    ∃ s, (C07.query C07.std c p).1 = .ok (.str s) ∧ (C15.lquery P io c).2 = .ok s ∧
      Rel (C07.query C07.std c p).2 (C15.lquery P io c).1 := by
  unfold C07.query C07.queryBody C15.lquery C15.lqueryTry
  simp only [C07.encode, hc, ↓reduceIte]
  obtain ⟨w1, w2⟩ := write_rel c h
  have wa : C07.allAscii (C07.write c p).2.reads = true := by rw [(C07.write_reads c p).1]; exact ha
  rcases hw : C07.write c p with ⟨ok, p1⟩
  rcases hio : io.write c with ⟨rz, io1⟩
  rw [hw, hio] at w1 w2; rw [hw] at wa
  simp only at w1 w2 wa
  cases rz
  · simp only [Bool.not_false] at w1
    subst w1
    simp only
    obtain ⟨r1, r2⟩ := readline_rel w2
    obtain ⟨a1, a2⟩ := C07.readline_ascii p1 wa
    rcases hrd : C07.readline p1 with ⟨ob, p2⟩
    rcases hio2 : io1.read with ⟨ol, io2⟩
    rw [hrd, hio2] at r1 r2; rw [hrd] at a1 a2
    simp only at r1 r2 a1 a2
    subst r1
    cases ob with
    | none => exact ⟨[], rfl, rfl, r2⟩
    | some l =>
      have hl := a2 l rfl
      simp only [C07.decode, hl, ↓reduceIte]
      obtain ⟨fl, s', p3, b, io3, e1, e2, hfb, r3, a3⟩ := retry_rel C07.std.retry l p2 io2 a1 r2
      have hdec : C07.std.decodeRetry = true := rfl
      rw [hP.decode, hP.retry, hdec, e1, e2]
      rcases hfb with ⟨rfl, rfl⟩ | ⟨rfl, rfl⟩
      · simp only
        obtain ⟨fl, p', e, hf, r4⟩ := trail_rel P hP c hn (.str s') p3 io3 a3 r3
        rw [e]
        rcases hf with rfl | rfl <;> exact ⟨s', rfl, rfl, r4⟩
      · exact ⟨s', rfl, rfl, r3⟩
  · simp only [Bool.not_true] at w1
    subst w1
    exact ⟨[], rfl, rfl, w2⟩


/-! ### what a call leaves of the script is part of the script (so `IoScript` persists) -/

def Sub (p' p : PyIO.Port) : Prop := (∀ r ∈ p'.reads, r ∈ p.reads) ∧ (∀ x ∈ p'.writes, x ∈ p.writes)

theorem Sub.refl (p : PyIO.Port) : Sub p p := ⟨fun _ h => h, fun _ h => h⟩
theorem Sub.trans {a b c : PyIO.Port} (h1 : Sub a b) (h2 : Sub b c) : Sub a c :=
  ⟨fun r h => h2.1 r (h1.1 r h), fun r h => h2.2 r (h1.2 r h)⟩

theorem Sub.ioScript {p' p : PyIO.Port} (h : Sub p' p) (hio : C07Gen.IoScript p) : C07Gen.IoScript p' :=
  ⟨fun c hc => hio.1 c (h.1 _ hc), fun c hc => hio.2 c (h.2 _ hc)⟩

theorem readline_sub (p : PyIO.Port) : Sub (C07.readline p).2 p := by
  unfold C07.readline
  split <;> rename_i h <;> refine ⟨?_, fun _ hx => hx⟩ <;> intro r hr <;> simp only at hr
  · exact hr
  all_goals (rw [h]; exact List.mem_cons_of_mem _ hr)

theorem write_sub (b : List Char) (p : PyIO.Port) : Sub (C07.write b p).2 p := by
  unfold C07.write
  split <;> rename_i h <;> refine ⟨fun _ hx => hx, ?_⟩ <;> intro r hr <;> simp only at hr
  · exact hr
  all_goals (rw [h]; exact List.mem_cons_of_mem _ hr)

theorem retryResp_sub (dec : Bool) (n : Nat) (v : C07.Val) (p : PyIO.Port) : Sub (C07.retryResp dec n v p).2.2 p := by
  induction n generalizing v p with
  | zero => exact Sub.refl p
  | succ n ih =>
    unfold C07.retryResp
    split
    · exact Sub.refl p
    · have hs := readline_sub p
      rcases hE_hs : C07.readline p with ⟨ob, p1⟩
      rw [hE_hs] at hs; simp only at hs
      cases ob with
      | none => exact hs
      | some b =>
        simp only
        cases dec
        · exact (ih _ p1).trans hs
        · simp only [↓reduceIte]
          cases C07.decode b with
          | none => exact hs
          | some s => exact (ih _ p1).trans hs

theorem retryUnused_sub (n : Nat) (u : List Char) (p : PyIO.Port) : Sub (C07.retryUnused n u p).2 p := by
  induction n generalizing u p with
  | zero => exact Sub.refl p
  | succ n ih =>
    unfold C07.retryUnused
    split
    · exact Sub.refl p
    · have hs := readline_sub p
      rcases hE_hs : C07.readline p with ⟨ob, p1⟩
      rw [hE_hs] at hs; simp only at hs
      cases ob with
      | none => exact hs
      | some b => exact (ih b p1).trans hs

theorem query_sub (P : C07.Params) (c : List Char) (p : PyIO.Port) : Sub (C07.query P c p).2 p := by
  have key : Sub (C07.queryBody P c p).2.2 p := by
    unfold C07.queryBody
    cases C07.encode c with
    | none => exact Sub.refl p
    | some req =>
      simp only
      have hw := write_sub req p
      rcases hE_hw : C07.write req p with ⟨ok, p1⟩
      rw [hE_hw] at hw; simp only at hw
      cases ok
      · exact hw
      · simp only
        have hr := (readline_sub p1).trans hw
        rcases hE_hr : C07.readline p1 with ⟨ob, p2⟩
        rw [hE_hr] at hr; simp only at hr
        cases ob with
        | none => exact hr
        | some l =>
          simp only
          cases C07.decode l with
          | none => exact hr
          | some s =>
            simp only
            have h3 := (retryResp_sub P.decodeRetry P.retry (.str s) p2).trans hr
            rcases hE_h3 : C07.retryResp P.decodeRetry P.retry (.str s) p2 with ⟨fl, v, p3⟩
            rw [hE_h3] at h3; simp only at h3
            cases fl with
            | done =>
              simp only
              unfold C07.queryTrail
              split
              · exact h3
              · have h4 := (readline_sub p3).trans h3
                rcases hE_h4 : C07.readline p3 with ⟨ou, p4⟩
                rw [hE_h4] at h4; simp only at h4
                cases ou with
                | none => exact h4
                | some u =>
                  simp only
                  have h5 := (retryUnused_sub P.retry u p4).trans h4
                  rcases hE_h5 : C07.retryUnused P.retry u p4 with ⟨b5, p5⟩
                  rw [hE_h5] at h5; simp only at h5
                  cases b5 <;> exact h5
            | io => exact h3
            | py e => exact h3
  unfold C07.query
  rcases hq : C07.queryBody P c p with ⟨fl, v, p'⟩
  rw [hq] at key; simp only at key
  cases fl with
  | py e => exact key
  | done => simp only; cases C07.errIn v <;> exact key
  | io => simp only; cases C07.errIn v <;> exact key

theorem command_sub (P : C07.Params) (c : List Char) (p : PyIO.Port) : Sub (C07.command P c p).2 p := by
  have key : Sub (C07.commandBody P c p).2 p := by
    unfold C07.commandBody
    cases C07.encode c with
    | none => exact Sub.refl p
    | some req =>
      simp only
      have hw := write_sub req p
      rcases hE_hw : C07.write req p with ⟨ok, p1⟩
      rw [hE_hw] at hw; simp only at hw
      cases ok
      · exact hw
      · simp only
        have hr := (readline_sub p1).trans hw
        rcases hE_hr : C07.readline p1 with ⟨ob, p2⟩
        rw [hE_hr] at hr; simp only at hr
        cases ob with
        | none => exact hr
        | some l =>
          simp only
          cases C07.decode l with
          | none => exact hr
          | some s =>
            simp only
            exact (retryResp_sub true P.retry (.str s) p2).trans hr
  unfold C07.command
  rcases hq : C07.commandBody P c p with ⟨fl, p'⟩
  rw [hq] at key; simp only at key
  cases fl <;> exact key

end Plotink.C15Gen
