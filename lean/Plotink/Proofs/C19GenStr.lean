import Plotink.Proofs.LegacyGen
import Plotink.Proofs.C19

/-! # C19 bridges, part 0: agreement of the string primitives of the runtime (`Model/Ebb3.lean`, `PyObj.lean`) with
those of `Model/C19.lean`, and slice evaluation. -/
namespace Plotink
namespace C19Gen
open PyObj

theorem toNat_ofNat_valid (n : Nat) (h : n.isValidChar) : (Char.ofNat n).toNat = n := by
  rw [Char.ofNat, dif_pos h]; rfl

theorem toLower_eq (c : Char) : c.toLower = C19.lowerC c := by
  unfold Char.toLower C19.lowerC
  by_cases h : c.val ≥ 'A'.val ∧ c.val ≤ 'Z'.val
  · have h1 : 65 ≤ c.toNat := by have := UInt32.le_iff_toNat_le.mp h.1; simpa using this
    have h2 : c.toNat ≤ 90 := by have := UInt32.le_iff_toNat_le.mp h.2; simpa using this
    rw [dif_pos h, if_pos ⟨h1, h2⟩]
    apply Char.toNat_inj.mp
    rw [toNat_ofNat_valid _ (by left; omega), Char.toNat_mk, UInt32.toNat_add]
    have : ('a'.val - 'A'.val).toNat = 32 := by decide
    rw [this, Char.toNat_val]
    omega
  · have : ¬ (65 ≤ c.toNat ∧ c.toNat ≤ 90) := by
      intro ⟨a, b⟩
      apply h
      constructor
      · apply UInt32.le_iff_toNat_le.mpr; rw [Char.toNat_val]; exact a
      · apply UInt32.le_iff_toNat_le.mpr; rw [Char.toNat_val]; exact b
    rw [dif_neg h, if_neg this]

/-- `str.lower()` of the runtime is the model's `lower` -/
theorem lower_agree (s : List Char) : Ebb3.lower s = C19.lower s := by
  unfold Ebb3.lower C19.lower
  exact List.map_congr_left (fun c _ => toLower_eq c)

/-- `p in s` of the runtime is the model's `isInfixB` -/
theorem hasSub_agree (p s : List Char) : Ebb3.hasSub p s = C19.isInfixB p s := by
  induction s with
  | nil => cases p <;> rfl
  | cons c cs ih => simp only [Ebb3.hasSub, C19.isInfixB, ih]

theorem meth_lower_str (s : List Char) : meth_lower (.str s) = .ok (.str (C19.lower s)) := by
  simp only [meth_lower, lower_agree]

theorem op_in_str (p s : List Char) : op_in (.str p) (.str s) = .ok (.bool (C19.isInfixB p s)) := by
  simp only [op_in, hasSub_agree]

theorem startswith_str (s p : List Char) : meth_startswith (.str s) (.str p) = .ok (.bool (p.isPrefixOf s)) := rfl

/-- `s[11:]` -/
theorem slice_from (s : List Char) (n : Nat) : op_slice (.str s) (.int n) .none = .ok (.str (s.drop n)) := by
  simp only [op_slice, sliceBound, intOf, sliceList]
  have h0 : (0 : Int) ≤ (n : Int) := Int.natCast_nonneg n
  simp only [h0, ↓reduceIte, Int.toNat_natCast]
  congr 2
  rw [List.take_length]
  by_cases h : n ≤ s.length
  · rw [Nat.min_eq_left h]
  · have h' : s.length ≤ n := by omega
    rw [Nat.min_eq_right h', List.drop_length, List.drop_eq_nil_of_le h']

/-- `s[i:j]` where `j` is the result of a `find` (`-1` when absent): the model's `sliceTo` -/
theorem slice_find (s : List Char) (i : Nat) (j : Option Nat) :
    op_slice (.str s) (.int i) (.int (match j with | some k => (k : Int) | Option.none => -1)) =
      .ok (.str (C19.sliceTo s i j)) := by
  have h0 : (0 : Int) ≤ (i : Int) := Int.natCast_nonneg i
  cases j with
  | some k =>
    have hk : (0 : Int) ≤ (k : Int) := Int.natCast_nonneg k
    simp only [op_slice, sliceBound, intOf, sliceList, h0, hk, ↓reduceIte, Int.toNat_natCast, C19.sliceTo]
    congr 2
    by_cases hks : k ≤ s.length
    · rw [Nat.min_eq_left hks]
      by_cases his : i ≤ s.length
      · rw [Nat.min_eq_left his]
      · have : s.length ≤ i := by omega
        rw [Nat.min_eq_right this]
        rw [List.drop_eq_nil_of_le (by rw [List.length_take]; omega), List.drop_eq_nil_of_le (by rw [List.length_take]; omega)]
    · have hks' : s.length ≤ k := by omega
      rw [Nat.min_eq_right hks', List.take_length, List.take_of_length_le hks']
      by_cases his : i ≤ s.length
      · rw [Nat.min_eq_left his]
      · have : s.length ≤ i := by omega
        rw [Nat.min_eq_right this, List.drop_length, List.drop_eq_nil_of_le this]
  | none =>
    have hneg : ¬ ((0 : Int) ≤ -1) := by decide
    simp only [op_slice, sliceBound, intOf, sliceList, h0, hneg, ↓reduceIte, Int.toNat_natCast, C19.sliceTo]
    congr 2
    have h1 : (- (-1 : Int)).toNat = 1 := by decide
    rw [h1]
    have e : s.length - min 1 s.length = s.length - 1 := by
      by_cases hl : 1 ≤ s.length
      · rw [Nat.min_eq_left hl]
      · have : s.length = 0 := by omega
        rw [this]; rfl
    rw [e]
    by_cases his : i ≤ s.length
    · rw [Nat.min_eq_left his]
    · have : s.length ≤ i := by omega
      rw [Nat.min_eq_right this]
      rw [List.drop_eq_nil_of_le (by rw [List.length_take]; omega), List.drop_eq_nil_of_le (by rw [List.length_take]; omega)]

end C19Gen
end Plotink
