import Plotink.Proofs.C03BridgeStage
import Plotink.Proofs.C03Top
import Plotink.Proofs.Contract
import Plotink.Proofs.C01
import Plotink.Proofs.C03BridgeNum
/-! # C03 numeric bridge: the generated `calculate_lm` computes the exact integer model

The stage lemmas evaluate each block of the staged composition `G.staged` (`Proofs/C03BridgeStage.lean`) under
the rounding contract; `bridge_pos` assembles them. The step that ties `G.staged` to the regenerated text
(`Gen.calculate_lm … = G.staged …`, by `rfl`) is made inside `Props/C03.lean:C03_bridge`, so that a change of
the source is attributed to that theorem. -/
namespace Plotink
namespace C03
open Py Py.Val Fw

/-! ## comparison lemmas on tagged values -/

theorem gt_int_int (a b : Int) : Py.gt (.int a) (.int b) = decide (b < a) := by simp [Py.gt, Py.num]
theorem ge_int_int (a b : Int) : Py.ge (.int a) (.int b) = decide (b ≤ a) := by simp [Py.ge, Py.num]
theorem le_int_int (a b : Int) : Py.le (.int a) (.int b) = decide (a ≤ b) := by simp [Py.le, Py.num]
theorem ne_int_int (a b : Int) : Py.ne (.int a) (.int b) = decide (a ≠ b) := by
  simp [Py.ne, Py.eq, Py.num]

/-! ## stages 1–5: the exact prefix -/

section
variable {R : Rounding} (hR : ContractExact R)
include hR

theorem st_rateEff (rate accel : Int) (hr : |rate| ≤ 2 ^ 32) (ha : |accel| ≤ 2 ^ 32) :
    G.rateEff R 103 (.int rate) (.int accel) = .mpf ((kk rate accel : Int) / 2 : Rat) := by
  have h2 : ((2 : Int) : Rat) ≠ 0 := by norm_num
  unfold G.rateEff
  simp only [mpf_int, div_mpf_int _ _ _ _ h2, div_int_int _ _ _ _ h2, int_flt, add_int_mpf, sub_mpf_int,
    Int.cast_ofNat, half_exact hR accel ha, intOfRat_half]
  have e1 : R.mp 103 (accel : Rat) = accel := mp_int hR accel (lt_of_le_of_lt ha (by norm_num))
  have e2 : R.mp 103 ((accel : Rat) / 2) = (accel : Rat) / 2 := mp_half hR accel (lt_of_le_of_lt ha (by norm_num))
  have b3 : |2 * rate + accel| < 2 ^ 103 := by
    have := abs_add_le (2 * rate) accel
    have : |2 * rate| ≤ 2 ^ 33 := by rw [abs_mul]; norm_num; linarith
    linarith [ha]
  have e3 : R.mp 103 ((rate : Rat) + (accel : Rat) / 2) = (rate : Rat) + (accel : Rat) / 2 := by
    have : (rate : Rat) + (accel : Rat) / 2 = ((2 * rate + accel : Int) : Rat) / 2 := by push_cast; ring
    rw [this]; exact mp_half hR _ b3
  have hhb : |tdiv accel 2| ≤ 2 ^ 32 := le_trans (tdiv2_bound accel) ha
  have bk : |kk rate accel| ≤ 2 ^ 35 := by
    unfold kk
    have h1 : |2 * rate| ≤ 2 ^ 33 := by rw [abs_mul]; norm_num; linarith
    have h2 : |2 * tdiv accel 2| ≤ 2 ^ 33 := by rw [abs_mul]; norm_num; linarith
    have := abs_sub (2 * rate + accel) (2 * tdiv accel 2)
    have := abs_add_le (2 * rate) accel
    linarith
  have e4 : R.mp 103 ((rate : Rat) + (accel : Rat) / 2 - (tdiv accel 2 : Rat)) = ((kk rate accel : Int) : Rat) / 2 := by
    have : (rate : Rat) + (accel : Rat) / 2 - (tdiv accel 2 : Rat) = ((kk rate accel : Int) : Rat) / 2 := by
      unfold kk; push_cast; ring
    rw [this]; exact mp_half hR _ (lt_of_le_of_lt bk (by norm_num))
  simp only [e1, e2, e3, e4]

theorem st_tempRate (rate accel : Int) (ha : |accel| ≤ 2 ^ 32) :
    G.tempRate R 103 (.int rate) (.int accel) = .int (r1 rate accel) := by
  have h2 : ((2 : Int) : Rat) ≠ 0 := by norm_num
  unfold G.tempRate r1
  simp only [div_int_int _ _ _ _ h2, int_flt, Int.cast_ofNat, half_exact hR accel ha, intOfRat_half,
    sub_int_int, add_int_int]
end

theorem st_irn (rate accel : Int) :
    G.irn (.int (r1 rate accel)) (.int accel) = .bool_ (decide (isNeg rate accel)) := by
  unfold G.irn isNeg
  simp only [_root_.Plotink.lt_int_int, _root_.Plotink.eq_int_int]
  by_cases h1 : r1 rate accel < 0
  · simp [h1]
  · by_cases h2 : r1 rate accel = 0
    · by_cases h3 : accel < 0
      · simp [h2, h3]
      · simp [h2, h3]
    · simp [h1, h2]

/-- the accumulator argument as a Python value -/
def accArg : Option Int → Py.Val
  | some a => .int a
  | none => .str "clear"

theorem st_accum (rate accel : Int) (acc : Option Int) :
    G.accum (accArg acc) (.bool_ (decide (isNeg rate accel))) = .int (startAcc rate accel acc) := by
  unfold G.accum
  cases acc with
  | some a => simp [accArg, startAcc, eq_int_str, int_int]
  | none =>
    have hs : Py.eq (.str "clear") (.str "clear") = true := by decide
    simp only [accArg, startAcc, hs, if_true, Py.truthy]
    by_cases h : isNeg rate accel
    · simp [h, two31]
    · simp [h]

theorem st_accumAdj (R : Rounding) (rate accel a0 : Int) :
    G.accumAdj R 103 (.int a0) (.bool_ (decide (isNeg rate accel))) = .int (adjOf rate accel a0) := by
  unfold G.accumAdj adjOf
  simp only [Py.truthy]
  by_cases h : isNeg rate accel
  · simp [h, sub_int_int, two31]
  · simp [h]

/-! ## magnitude bounds on the model's intermediate quantities -/

theorem kk_bound (rate accel : Int) (hr : |rate| ≤ 2 ^ 32) (ha : |accel| ≤ 2 ^ 32) : |kk rate accel| ≤ 2 ^ 35 := by
  have hhb : |tdiv accel 2| ≤ 2 ^ 32 := le_trans (tdiv2_bound accel) ha
  unfold kk
  rw [abs_le] at *
  constructor <;> omega

theorem tRev_bound (rate accel : Int) (hr : |rate| ≤ 2 ^ 32) : -1 ≤ tRev rate accel ∧ tRev rate accel ≤ 2 ^ 33 := by
  rw [abs_le] at hr
  unfold tRev
  split_ifs with h1 h2
  · have h2a : (0 : Int) < 2 * accel := by omega
    refine ⟨le_trans (by norm_num) (Int.ediv_nonneg (by omega) (by omega)), ?_⟩
    apply Int.ediv_le_of_le_mul h2a
    nlinarith
  · have h2a : (0 : Int) < -(2 * accel) := by omega
    refine ⟨le_trans (by norm_num) (Int.ediv_nonneg (by omega) (by omega)), ?_⟩
    apply Int.ediv_le_of_le_mul h2a
    nlinarith
  · omega

theorem adjOf_bound (rate accel a0 : Int) (h0 : 0 ≤ a0) (h1 : a0 < 2 ^ 31) : |adjOf rate accel a0| < 2 ^ 31 := by
  unfold adjOf two31
  rw [abs_lt]
  split_ifs <;> constructor <;> omega

theorem floor_div_nat (x : Int) (y : Nat) : (((x : Rat) / (y : Rat))).floor = x / (y : Int) := by
  have := Rat.floor_intCast_div_natCast x y
  exact this

/-! ## stage 7: steps made by the reversal tick (exact at 103 bits) -/

theorem st_sRevPair {R : Rounding} (hR : ContractExact R) (rate accel a0 : Int) (hr : |rate| ≤ 2 ^ 32)
    (ha : |accel| ≤ 2 ^ 32) (h0 : 0 ≤ a0) (h1 : a0 < 2 ^ 31) :
    (G.sRevPair R 103 (.mpf ((kk rate accel : Int) / 2 : Rat)) (.int accel) (.int (tRev rate accel))
        (.int (adjOf rate accel a0))).2 = .int (sRev rate accel a0) := by
  unfold G.sRevPair sRev
  simp only [gt_int_int]
  by_cases hτ : 0 < tRev rate accel
  · simp only [hτ, decide_true, if_true]
    have h31 : ((2147483648 : Int) : Rat) ≠ 0 := by norm_num
    simp only [mul_mpf_int, add_mpf_mpf, add_mpf_int, div_mpf_int _ _ _ _ h31, Py.mp_fabs, floor_mpf, int_mpf]
    set τ := tRev rate accel with hτd
    set K := kk rate accel with hK
    set adj := adjOf rate accel a0 with hadj
    obtain ⟨tb1, tb2⟩ := tRev_bound rate accel hr
    have bτ : |τ| ≤ 2 ^ 33 := by rw [abs_le]; constructor <;> omega
    have bK := kk_bound rate accel hr ha
    have badj := adjOf_bound rate accel a0 h0 h1
    have e0 : R.mp 103 ((1 : Rat) / 2) = 1 / 2 := by
      have := mp_half hR 1 (by norm_num); simpa using this
    have bKτ : |K * τ| ≤ 2 ^ 35 * 2 ^ 33 := abs_mul_le bK bτ
    have e1 : R.mp 103 (((K : Int) : Rat) / 2 * (τ : Rat)) = ((K * τ : Int) : Rat) / 2 := by
      have : ((K : Int) : Rat) / 2 * (τ : Rat) = ((K * τ : Int) : Rat) / 2 := by push_cast; ring
      rw [this]; exact mp_half hR _ (lt_of_le_of_lt bKτ (by norm_num))
    have e2 : R.mp 103 ((1 : Rat) / 2 * (accel : Rat)) = (accel : Rat) / 2 := by
      have : (1 : Rat) / 2 * (accel : Rat) = (accel : Rat) / 2 := by ring
      rw [this]; exact mp_half hR _ (lt_of_le_of_lt ha (by norm_num))
    have baτ : |accel * τ| ≤ 2 ^ 32 * 2 ^ 33 := abs_mul_le ha bτ
    have e3 : R.mp 103 ((accel : Rat) / 2 * (τ : Rat)) = ((accel * τ : Int) : Rat) / 2 := by
      have : (accel : Rat) / 2 * (τ : Rat) = ((accel * τ : Int) : Rat) / 2 := by push_cast; ring
      rw [this]; exact mp_half hR _ (lt_of_le_of_lt baτ (by norm_num))
    have baττ : |accel * τ * τ| ≤ 2 ^ 32 * 2 ^ 33 * 2 ^ 33 := abs_mul_le baτ bτ
    have e4 : R.mp 103 (((accel * τ : Int) : Rat) / 2 * (τ : Rat)) = ((accel * τ * τ : Int) : Rat) / 2 := by
      have : ((accel * τ : Int) : Rat) / 2 * (τ : Rat) = ((accel * τ * τ : Int) : Rat) / 2 := by push_cast; ring
      rw [this]; exact mp_half hR _ (lt_of_le_of_lt baττ (by norm_num))
    have b5 : |K * τ + accel * τ * τ| ≤ 2 ^ 35 * 2 ^ 33 + 2 ^ 32 * 2 ^ 33 * 2 ^ 33 :=
      le_trans (abs_add_le _ _) (add_le_add bKτ baττ)
    have e5 : R.mp 103 (((K * τ : Int) : Rat) / 2 + ((accel * τ * τ : Int) : Rat) / 2)
        = ((K * τ + accel * τ * τ : Int) : Rat) / 2 := by
      have : ((K * τ : Int) : Rat) / 2 + ((accel * τ * τ : Int) : Rat) / 2
          = ((K * τ + accel * τ * τ : Int) : Rat) / 2 := by push_cast; ring
      rw [this]; exact mp_half hR _ (lt_of_le_of_lt b5 (by norm_num))
    set S2 : Int := K * τ + accel * τ * τ + 2 * adj with hS2
    have b6 : |S2| ≤ 2 ^ 35 * 2 ^ 33 + 2 ^ 32 * 2 ^ 33 * 2 ^ 33 + 2 ^ 32 := by
      have : |2 * adj| ≤ 2 ^ 32 := by rw [abs_mul]; norm_num; linarith
      exact le_trans (abs_add_le _ _) (add_le_add b5 this)
    have e6 : R.mp 103 (((K * τ + accel * τ * τ : Int) : Rat) / 2 + (adj : Rat)) = ((S2 : Int) : Rat) / 2 := by
      have : ((K * τ + accel * τ * τ : Int) : Rat) / 2 + (adj : Rat) = ((S2 : Int) : Rat) / 2 := by
        rw [hS2]; push_cast; ring
      rw [this]; exact mp_half hR _ (lt_of_le_of_lt b6 (by norm_num))
    have e7 : R.mp 103 (((S2 : Int) : Rat) / 2 / ((2147483648 : Int) : Rat)) = (S2 : Rat) / 2 ^ 32 := by
      have : ((S2 : Int) : Rat) / 2 / ((2147483648 : Int) : Rat) = (S2 : Rat) / 2 ^ 32 := by
        push_cast; rw [div_div]; norm_num
      rw [this]; exact hR.mp_exact 103 _ (rep_div_pow2 103 S2 32 (lt_of_le_of_lt b6 (by norm_num)))
    simp only [e0, e1, e2, e3, e4, e5, e6, e7]
    have hsr : sRev2 rate accel a0 = S2 := by
      unfold sRev2; simp only [← hτd, ← hK, ← hadj, hS2]
    rw [hsr]
    -- |S2 / 2^32| floored is natAbs S2 / 2^32
    have habs : (if (S2 : Rat) / 2 ^ 32 < 0 then -((S2 : Rat) / 2 ^ 32) else (S2 : Rat) / 2 ^ 32)
        = ((S2.natAbs : Int) : Rat) / ((4294967296 : Nat) : Rat) := by
      have hc : ((S2.natAbs : Int) : Rat) = |(S2 : Rat)| := by
        rw [Int.natCast_natAbs]; push_cast; rfl
      rw [hc]
      split_ifs with hlt
      · have : (S2 : Rat) < 0 := by
          by_contra hge; push Not at hge
          have : (0 : Rat) ≤ (S2 : Rat) / 2 ^ 32 := by positivity
          linarith
        rw [abs_of_neg this]; norm_num; ring
      · have : (0 : Rat) ≤ (S2 : Rat) := by
          by_contra hneg; push Not at hneg
          apply hlt
          have : (S2 : Rat) / 2 ^ 32 < 0 := div_neg_of_neg_of_pos hneg (by positivity)
          exact this
        rw [abs_of_nonneg this]; norm_num
    rw [habs, floor_div_nat, intOfRat_int]
    unfold two31; norm_num
  · simp only [hτ, decide_false, if_false, Bool.false_eq_true]

/-! ## stage 8: branch selection (integers only) -/

theorem st_branch (R : Rounding) (n rate accel a0 : Int) :
    ∃ z : Py.Val × Py.Val,
      G.branch R 103 (.int n) (.int accel) (.int (r1 rate accel)) (.bool_ (decide (isNeg rate accel)))
        (.int (tRev rate accel)) (.int (sRev rate accel a0))
      = (.int (tRevEff n rate accel a0), .int (posFinal n rate accel a0), .int (posAdj n rate accel a0), z) := by
  generalize hg : G.branch R 103 (.int n) (.int accel) (.int (r1 rate accel)) (.bool_ (decide (isNeg rate accel)))
        (.int (tRev rate accel)) (.int (sRev rate accel a0)) = g
  obtain ⟨A, B, C, z⟩ := g
  refine ⟨z, ?_⟩
  unfold G.branch at hg
  simp only [_root_.Plotink.lt_int_int, _root_.Plotink.eq_int_int, ge_int_int, gt_int_int, Py.truthy,
    sub_int_int, add_int_int, mul_int_int, Py.neg] at hg
  by_cases hnr : noRev n rate accel a0
  · have hc : (decide (tRev rate accel < 1) || decide (tRev rate accel = 1) && decide (r1 rate accel = 0) ||
        decide (n ≤ sRev rate accel a0)) = true := by
      unfold noRev at hnr
      simp only [Bool.or_eq_true, Bool.and_eq_true, decide_eq_true_eq]
      tauto
    rw [if_pos hc] at hg
    simp only [Prod.mk.injEq] at hg
    obtain ⟨rfl, rfl, rfl, _⟩ := hg
    simp only [tRevEff, posFinal, posAdj, hnr, if_true]
    by_cases hneg : isNeg rate accel <;> simp [hneg]
  · have hc : ¬ ((decide (tRev rate accel < 1) || decide (tRev rate accel = 1) && decide (r1 rate accel = 0) ||
        decide (n ≤ sRev rate accel a0)) = true) := by
      unfold noRev at hnr
      simp only [Bool.or_eq_true, Bool.and_eq_true, decide_eq_true_eq]
      tauto
    rw [if_neg hc] at hg
    simp only [tRevEff, posFinal, posAdj, hnr, if_false]
    by_cases hs : sRev rate accel a0 = 0
    · by_cases ha : 0 < accel
      · simp only [hs, ha, decide_true, if_true, Prod.mk.injEq] at hg
        obtain ⟨rfl, rfl, rfl, _⟩ := hg
        simp [hs, ha]
      · simp only [hs, ha, decide_true, decide_false, if_true, if_false, Bool.false_eq_true, Prod.mk.injEq] at hg
        obtain ⟨rfl, rfl, rfl, _⟩ := hg
        simp [hs, ha]
    · by_cases ha : 0 < accel
      · simp only [hs, ha, decide_true, decide_false, if_true, if_false, Bool.false_eq_true, Prod.mk.injEq] at hg
        obtain ⟨rfl, rfl, rfl, _⟩ := hg
        simp [hs, ha]; ring
      · simp only [hs, ha, decide_true, decide_false, if_true, if_false, Bool.false_eq_true, Prod.mk.injEq] at hg
        obtain ⟨rfl, rfl, rfl, _⟩ := hg
        simp [hs, ha]; ring

/-! ## stage 9: the duration -/

/-- values that carry an integer: `int z` or `mpf z` -/
def IsIntVal (v : Py.Val) (z : Int) : Prop := v = .int z ∨ v = .mpf (z : Rat)

theorem IsIntVal.num {v : Py.Val} {z : Int} (h : IsIntVal v z) : Py.num v = (z : Rat) := by
  rcases h with rfl | rfl <;> rfl

theorem IsIntVal.gt0 {v : Py.Val} {z : Int} (h : IsIntVal v z) : Py.gt v (.int 0) = decide (0 < z) := by
  have e : Py.num (.int 0) = ((0 : Int) : Rat) := rfl
  rw [Py.gt, h.num, e]; simp

theorem IsIntVal.lt {v w : Py.Val} {z y : Int} (h : IsIntVal v z) (h' : IsIntVal w y) :
    Py.lt v w = decide (z < y) := by
  rw [Py.lt, h.num, h'.num]; simp

theorem IsIntVal.le_int {v : Py.Val} {z : Int} (h : IsIntVal v z) (t : Int) :
    Py.le v (.int t) = decide (z ≤ t) := by
  have e : Py.num (.int t) = (t : Rat) := rfl
  rw [Py.le, h.num, e]; simp

theorem IsIntVal.ceil {v : Py.Val} {z : Int} (h : IsIntVal v z) : Py.int_ (Py.mp_ceil v) = .int z := by
  rcases h with rfl | rfl
  · simp [Py.mp_ceil, Py.int_, intOfRat_int]
  · simp [Py.mp_ceil, Py.int_, ceilRat_int, intOfRat_int]

section
variable {R : Rounding} (hR : ContractBasic R)
include hR

theorem st_timeLin (rate adj pf : Int) (hr0 : rate ≠ 0) (hr : |rate| ≤ 2 ^ 32) (hadj : |adj| < 2 ^ 31)
    (hpf : |pf| ≤ 2 ^ 31) :
    IsIntVal (Py.mp_ceil (G.timeLin R 103 (.int rate) (.int adj) (.int pf))) (linTime rate (two31 * pf - adj)) := by
  have hE := hR.toContractExact
  have e1 : R.mp 103 (adj : Rat) = adj := mp_int hE adj (lt_trans hadj (by norm_num))
  have e2 : R.mp 103 (rate : Rat) = rate := mp_int hE rate (lt_of_le_of_lt hr (by norm_num))
  have hrq : (rate : Rat) ≠ 0 := by exact_mod_cast hr0
  have bx : |two31 * pf - adj| ≤ 2 ^ 64 := by
    unfold two31
    rw [abs_lt] at hadj
    rw [abs_le] at *
    constructor <;> omega
  have e3 : R.mp 103 (((2147483648 * pf : Int) : Rat) - (adj : Rat)) = ((two31 * pf - adj : Int) : Rat) := by
    have : ((2147483648 * pf : Int) : Rat) - (adj : Rat) = ((two31 * pf - adj : Int) : Rat) := by
      unfold two31; push_cast; ring
    rw [this]; exact mp_int hE _ (lt_of_le_of_lt bx (by norm_num))
  unfold G.timeLin
  simp only [mul_int_int, mpf_int, sub_int_mpf, e1, e2, e3, div_mpf_mpf _ _ _ _ hrq, ceil_mpf]
  right
  congr 2
  unfold linTime
  rcases lt_or_gt_of_ne hr0 with h | h
  · rw [if_neg (by omega)]
    have : ((two31 * pf - adj : Int) : Rat) / (rate : Rat) = ((-(two31 * pf - adj) : Int) : Rat) / ((-rate : Int) : Rat) := by
      push_cast; rw [neg_div_neg_eq]
    rw [this]
    rw [abs_le] at hr
    exact divCeilLin hR _ _ (by omega) (by omega) (by rwa [abs_neg])
  · rw [if_pos h]
    rw [abs_le] at hr
    exact divCeilLin hR _ _ h (by omega) bx

theorem st_cFactor0 (adj pa : Int) (hadj : |adj| < 2 ^ 31) (hpa : |pa| ≤ 2 ^ 31 + 1) :
    G.cFactor0 R 103 (.int adj) (.int pa) = .mpf ((adj - pa * two31 : Int) : Rat) := by
  have hE := hR.toContractExact
  have e1 : R.mp 103 (pa : Rat) = pa := mp_int hE pa (lt_of_le_of_lt hpa (by norm_num))
  have b2 : |pa * 2147483648| ≤ (2 ^ 31 + 1) * 2147483648 := abs_mul_le hpa (by norm_num)
  have e2 : R.mp 103 ((pa : Rat) * ((2147483648 : Int) : Rat)) = ((pa * 2147483648 : Int) : Rat) := by
    have : (pa : Rat) * ((2147483648 : Int) : Rat) = ((pa * 2147483648 : Int) : Rat) := by push_cast; ring
    rw [this]; exact mp_int hE _ (lt_of_le_of_lt b2 (by norm_num))
  have b3 : |adj - pa * two31| < 2 ^ 103 := by
    unfold two31
    have := abs_sub adj (pa * 2147483648)
    have : (2 : Int) ^ 31 + (2 ^ 31 + 1) * 2147483648 < 2 ^ 103 := by norm_num
    linarith
  have e3 : R.mp 103 ((adj : Rat) - ((pa * 2147483648 : Int) : Rat)) = ((adj - pa * two31 : Int) : Rat) := by
    have : (adj : Rat) - ((pa * 2147483648 : Int) : Rat) = ((adj - pa * two31 : Int) : Rat) := by
      unfold two31; push_cast; ring
    rw [this]; exact mp_int hE _ b3
  unfold G.cFactor0
  simp only [mpf_int, mul_mpf_int, sub_int_mpf, e1, e2, e3]

/-- `c_factor` of the model, from `c0 = accum_adj − pos_f_adj·2^31` -/
def cOf (a τe c0 : Int) : Int := if 0 < τe then (if 0 < a then c0 - 1 else c0 + 1) else c0

theorem st_cFactor (a τe c0 : Int) (hc0 : |c0| ≤ 2 ^ 63) :
    G.cFactor R 103 (.int a) (.int τe) (.mpf (c0 : Rat)) = .mpf ((cOf a τe c0 : Int) : Rat) := by
  have hE := hR.toContractExact
  unfold G.cFactor cOf
  simp only [gt_int_int]
  rw [abs_le] at hc0
  by_cases h1 : 0 < τe
  · by_cases h2 : 0 < a
    · simp only [h1, h2, decide_true, if_true, add_mpf_int]
      have : (c0 : Rat) + ((-1 : Int) : Rat) = ((c0 - 1 : Int) : Rat) := by push_cast; ring
      rw [this, mp_int hE _ (by rw [abs_lt]; constructor <;> omega)]
    · simp only [h1, h2, decide_true, decide_false, if_true, if_false, Bool.false_eq_true, add_mpf_int]
      have : (c0 : Rat) + ((1 : Int) : Rat) = ((c0 + 1 : Int) : Rat) := by push_cast; ring
      rw [this, mp_int hE _ (by rw [abs_lt]; constructor <;> omega)]
  · simp only [h1, decide_false, if_false, Bool.false_eq_true]

theorem st_disc (a K c : Int) (ha : |a| ≤ 2 ^ 32) (hK : |K| ≤ 2 ^ 35) (hc : |c| ≤ 2 ^ 63 + 1) :
    G.disc R 103 (.mpf ((K : Rat) / 2)) (.mpf (a : Rat)) (.mpf (c : Rat))
      = .mpf (((K * K - 8 * a * c : Int) : Rat) / 4) := by
  have hE := hR.toContractExact
  have bKK : |K * K| ≤ 2 ^ 35 * 2 ^ 35 := abs_mul_le hK hK
  have e1 : R.mp 103 ((K : Rat) / 2 * ((K : Rat) / 2)) = ((K * K : Int) : Rat) / 4 := by
    have : (K : Rat) / 2 * ((K : Rat) / 2) = ((K * K : Int) : Rat) / 2 ^ 2 := by push_cast; ring
    rw [this, hE.mp_exact 103 _ (rep_div_pow2 103 _ 2 (lt_of_le_of_lt bKK (by norm_num)))]; norm_num
  have b2 : |2 * a| ≤ 2 ^ 33 := by rw [abs_mul]; norm_num; linarith
  have e2 : R.mp 103 (((2 : Int) : Rat) * (a : Rat)) = ((2 * a : Int) : Rat) := by
    have : ((2 : Int) : Rat) * (a : Rat) = ((2 * a : Int) : Rat) := by push_cast; ring
    rw [this]; exact mp_int hE _ (lt_of_le_of_lt b2 (by norm_num))
  have b3 : |2 * a * c| ≤ 2 ^ 33 * (2 ^ 63 + 1) := abs_mul_le b2 hc
  have e3 : R.mp 103 (((2 * a : Int) : Rat) * (c : Rat)) = ((2 * a * c : Int) : Rat) := by
    have : ((2 * a : Int) : Rat) * (c : Rat) = ((2 * a * c : Int) : Rat) := by push_cast; ring
    rw [this]; exact mp_int hE _ (lt_of_le_of_lt b3 (by norm_num))
  have b4 : |K * K - 8 * a * c| < 2 ^ 103 := by
    have h8 : 8 * a * c = 4 * (2 * a * c) := by ring
    have : |8 * a * c| ≤ 4 * (2 ^ 33 * (2 ^ 63 + 1)) := by
      rw [h8]; exact abs_mul_le (by norm_num : |(4 : Int)| ≤ 4) b3
    have := abs_sub (K * K) (8 * a * c)
    have : (2 : Int) ^ 35 * 2 ^ 35 + 4 * (2 ^ 33 * (2 ^ 63 + 1)) < 2 ^ 103 := by norm_num
    linarith
  have e4 : R.mp 103 (((K * K : Int) : Rat) / 4 - ((2 * a * c : Int) : Rat)) = ((K * K - 8 * a * c : Int) : Rat) / 4 := by
    have : ((K * K : Int) : Rat) / 4 - ((2 * a * c : Int) : Rat) = ((K * K - 8 * a * c : Int) : Rat) / 2 ^ 2 := by
      push_cast; ring
    rw [this, hE.mp_exact 103 _ (rep_div_pow2 103 _ 2 b4)]; norm_num
  unfold G.disc
  simp only [mul_mpf_mpf, mul_int_mpf, sub_mpf_mpf, e1, e2, e3, e4]

end

/-- the two ceiled roots of the model (before discarding) -/
def pr0Of (a K D4 : Int) : Int :=
  if 0 < a then cdiv (csqrt D4 - K) (2 * a) else cdiv (K - fsqrt D4) (-(2 * a))
def nr0Of (a K D4 : Int) : Int :=
  if 0 < a then cdiv (-fsqrt D4 - K) (2 * a) else cdiv (csqrt D4 + K) (-(2 * a))

theorem st_roots {R : Rounding} (hR : ContractBasic R) (hS : ContractSqrt R) (a K c τe : Int) (s n p : Py.Val)
    (ha0 : a ≠ 0) (ha : |a| ≤ 2 ^ 32) (hK : |K| ≤ 2 ^ 35)
    (hD0 : 0 ≤ K * K - 8 * a * c) (hDb : K * K - 8 * a * c < 2 ^ 100) :
    IsIntVal (G.rootsTriple R 103 (.mpf ((K : Rat) / 2)) (.mpf (a : Rat)) (.int τe)
        (.mpf (((K * K - 8 * a * c : Int) : Rat) / 4)) s n p).2.1
      (if 0 < τe ∧ nr0Of a K (K * K - 8 * a * c) ≤ τe then -1 else nr0Of a K (K * K - 8 * a * c)) ∧
    IsIntVal (G.rootsTriple R 103 (.mpf ((K : Rat) / 2)) (.mpf (a : Rat)) (.int τe)
        (.mpf (((K * K - 8 * a * c : Int) : Rat) / 4)) s n p).2.2
      (if 0 < τe ∧ pr0Of a K (K * K - 8 * a * c) ≤ τe then -1 else pr0Of a K (K * K - 8 * a * c)) := by
  have haq : (a : Rat) ≠ 0 := by exact_mod_cast ha0
  have hge : Py.ge (.mpf (((K * K - 8 * a * c : Int) : Rat) / 4)) (.int 0) = true := by
    have : (0 : Rat) ≤ ((K * K - 8 * a * c : Int) : Rat) / 4 := by
      have : (0 : Rat) ≤ ((K * K - 8 * a * c : Int) : Rat) := by exact_mod_cast hD0
      positivity
    simp only [Py.ge, Py.num, Int.cast_zero, ge_iff_le, decide_eq_true_eq]; exact this
  have hne : Py.ne (.mpf (a : Rat)) (.int 0) = true := by
    simp [Py.ne, Py.eq, Py.num, haq]
  have hsq : Py.mp_sqrt R 103 (.mpf (((K * K - 8 * a * c : Int) : Rat) / 4))
      = .mpf (R.mpSqrt 103 (((K * K - 8 * a * c : Int) : Rat) / 4)) := by
    have : ¬ (((K * K - 8 * a * c : Int) : Rat) / 4 < 0) := by
      have : (0 : Rat) ≤ ((K * K - 8 * a * c : Int) : Rat) := by exact_mod_cast hD0
      intro h; linarith
    simp only [Py.mp_sqrt, Py.kind, Py.num, this, if_false]
  have hcond : (Py.ge (.mpf (((K * K - 8 * a * c : Int) : Rat) / 4)) (.int 0) && Py.ne (.mpf (a : Rat)) (.int 0)) = true := by
    rw [hge, hne]; rfl
  unfold G.rootsTriple
  rw [if_pos hcond]
  simp only [hsq, Py.neg, sub_mpf_mpf, add_mpf_mpf, div_mpf_mpf _ _ _ _ haq, ceil_mpf, gt_int_int]
  rw [abs_le] at ha
  have hnr : Py.ceilRat (R.mp 103 (R.mp 103 (-((K : Rat) / 2) - R.mpSqrt 103 (((K * K - 8 * a * c : Int) : Rat) / 4)) / (a : Rat)))
      = nr0Of a K (K * K - 8 * a * c) := by
    unfold nr0Of
    rcases lt_or_gt_of_ne ha0 with h | h
    · rw [if_neg (by omega)]; exact negRoot_neg hR hS a K c (by omega) (by omega) hK hD0 hDb
    · rw [if_pos h]; exact negRoot_pos hR hS a K c (by omega) (by omega) hK hD0 hDb
  have hpr : Py.ceilRat (R.mp 103 (R.mp 103 (-((K : Rat) / 2) + R.mpSqrt 103 (((K * K - 8 * a * c : Int) : Rat) / 4)) / (a : Rat)))
      = pr0Of a K (K * K - 8 * a * c) := by
    unfold pr0Of
    rcases lt_or_gt_of_ne ha0 with h | h
    · rw [if_neg (by omega)]; exact posRoot_neg hR hS a K c (by omega) (by omega) hK hD0 hDb
    · rw [if_pos h]; exact posRoot_pos hR hS a K c (by omega) (by omega) hK hD0 hDb
  rw [hnr, hpr]
  have l1 : ∀ z t : Int, Py.le (.mpf (z : Rat)) (.int t) = decide (z ≤ t) := fun z t =>
    IsIntVal.le_int (Or.inr rfl) t
  simp only [l1]
  constructor
  · by_cases h : 0 < τe ∧ nr0Of a K (K * K - 8 * a * c) ≤ τe
    · rw [if_pos h]
      have : (decide (0 < τe) && decide (nr0Of a K (K * K - 8 * a * c) ≤ τe)) = true := by
        simp [h.1, h.2]
      rw [if_pos this]; exact Or.inl rfl
    · rw [if_neg h]
      have : ¬ ((decide (0 < τe) && decide (nr0Of a K (K * K - 8 * a * c) ≤ τe)) = true) := by
        simpa using h
      rw [if_neg this]; exact Or.inr rfl
  · by_cases h : 0 < τe ∧ pr0Of a K (K * K - 8 * a * c) ≤ τe
    · rw [if_pos h]
      have : (decide (0 < τe) && decide (pr0Of a K (K * K - 8 * a * c) ≤ τe)) = true := by
        simp [h.1, h.2]
      rw [if_pos this]; exact Or.inl rfl
    · rw [if_neg h]
      have : ¬ ((decide (0 < τe) && decide (pr0Of a K (K * K - 8 * a * c) ≤ τe)) = true) := by
        simpa using h
      rw [if_neg this]; exact Or.inr rfl

theorem st_pickTime (nrV prV : Py.Val) (nr pr : Int) (h1 : IsIntVal nrV nr) (h2 : IsIntVal prV pr) :
    IsIntVal (G.pickTime nrV prV (.int 0)) (pick nr pr) := by
  unfold G.pickTime pick
  simp only [h1.gt0, h2.gt0, h2.lt h1]
  by_cases a : 0 < pr <;> by_cases b : 0 < nr <;> by_cases c : pr < nr <;>
    simp [a, b, c, h1, h2] <;> first | exact h1 | exact h2 | exact Or.inl rfl

theorem IsIntVal.int_ {v : Py.Val} {z : Int} (h : IsIntVal v z) : Py.int_ v = .int z := by
  rcases h with rfl | rfl
  · rfl
  · simp [Py.int_, intOfRat_int]

theorem quadTime_eq (a K c τe : Int) :
    quadTime a K c τe = if K * K - 8 * a * c < 0 then 0 else
      pick (if 0 < τe ∧ nr0Of a K (K * K - 8 * a * c) ≤ τe then -1 else nr0Of a K (K * K - 8 * a * c))
        (if 0 < τe ∧ pr0Of a K (K * K - 8 * a * c) ≤ τe then -1 else pr0Of a K (K * K - 8 * a * c)) := rfl

theorem st_timeTuple {R : Rounding} (hR : ContractBasic R) (hS : ContractSqrt R) (rate a K adj τe pf pa : Int)
    (hnz : a = 0 → rate ≠ 0) (hr : |rate| ≤ 2 ^ 32) (ha : |a| ≤ 2 ^ 32) (hK : |K| ≤ 2 ^ 35)
    (hadj : |adj| < 2 ^ 31) (hpf : |pf| ≤ 2 ^ 31) (hpa : |pa| ≤ 2 ^ 31 + 1) :
    Py.int_ (Py.mp_ceil (G.timeTuple R 103 (.int rate) (.int a) (.mpf ((K : Rat) / 2)) (.int adj) (.int τe)
        (.int pf) (.int pa)).1)
      = .int (if a = 0 then linTime rate (two31 * pf - adj)
              else quadTime a K (cOf a τe (adj - pa * two31)) τe) := by
  have hE := hR.toContractExact
  unfold G.timeTuple
  simp only [_root_.Plotink.eq_int_int]
  by_cases ha0 : a = 0
  · simp only [ha0, decide_true, if_true]
    exact (st_timeLin hR rate adj pf (hnz ha0) hr hadj hpf).int_
  · simp only [ha0, decide_false, if_false, Bool.false_eq_true]
    have bc0 : |adj - pa * two31| ≤ 2 ^ 63 := by
      unfold two31
      rw [abs_lt] at hadj
      rw [abs_le] at hpa ⊢
      constructor <;> omega
    have bc : |cOf a τe (adj - pa * two31)| ≤ 2 ^ 63 + 1 := by
      unfold cOf
      rw [abs_le] at bc0 ⊢
      split_ifs <;> constructor <;> omega
    have ea : R.mp 103 (a : Rat) = a := mp_int hE a (lt_of_le_of_lt ha (by norm_num))
    simp only [mpf_int, ea, st_cFactor0 hR adj pa hadj hpa, st_cFactor hR a τe _ bc0,
      st_disc hR a K _ ha hK bc]
    set c := cOf a τe (adj - pa * two31) with hc
    -- magnitude of the scaled discriminant
    have bD : K * K - 8 * a * c < 2 ^ 100 := by
      have b1 : |K * K| ≤ 2 ^ 35 * 2 ^ 35 := abs_mul_le hK hK
      have b2 : |8 * a| ≤ 8 * 2 ^ 32 := abs_mul_le (by norm_num : |(8 : Int)| ≤ 8) ha
      have b3 : |8 * a * c| ≤ 8 * 2 ^ 32 * (2 ^ 63 + 1) := abs_mul_le b2 bc
      have := abs_sub (K * K) (8 * a * c)
      have := le_abs_self (K * K - 8 * a * c)
      have : (2 : Int) ^ 35 * 2 ^ 35 + 8 * 2 ^ 32 * (2 ^ 63 + 1) < 2 ^ 100 := by norm_num
      linarith
    rw [quadTime_eq]
    by_cases hD : K * K - 8 * a * c < 0
    · rw [if_pos hD]
      have hge : ¬ ((Py.ge (.mpf (((K * K - 8 * a * c : Int) : Rat) / 4)) (.int 0) && Py.ne (.mpf (a : Rat)) (.int 0)) = true) := by
        have : ¬ ((0 : Rat) ≤ ((K * K - 8 * a * c : Int) : Rat) / 4) := by
          have : ((K * K - 8 * a * c : Int) : Rat) < 0 := by exact_mod_cast hD
          intro h; linarith
        simp only [Py.ge, Py.num, Int.cast_zero, ge_iff_le, Bool.and_eq_true, decide_eq_true_eq, not_and]
        intro h; exact absurd h this
      unfold G.rootsTriple
      rw [if_neg hge]
      exact (st_pickTime _ _ (-1) (-1) (Or.inl rfl) (Or.inl rfl)).ceil
    · rw [if_neg hD]
      obtain ⟨r1, r2⟩ := st_roots hR hS a K c τe .err (.int (-1)) (.int (-1)) ha0 ha hK (by omega) bD
      generalize G.rootsTriple R 103 (.mpf ((K : Rat) / 2)) (.mpf (a : Rat)) (.int τe)
        (.mpf (((K * K - 8 * a * c : Int) : Rat) / 4)) .err (.int (-1)) (.int (-1)) = rt at r1 r2 ⊢
      obtain ⟨x, nrV, prV⟩ := rt
      exact (st_pickTime nrV prV _ _ r1 r2).ceil

/-! ## stage 6: the reversal tick (binary64) -/

theorem st_tRevPair {R : Rounding} (hR : ContractBasic R) (rate accel : Int) (hr : |rate| ≤ 2 ^ 32)
    (ha : |accel| ≤ 2 ^ 32) :
    (G.tRevPair R 103 (.int rate) (.int accel)).2 = .int (tRev rate accel) := by
  rw [abs_le] at hr ha
  unfold G.tRevPair tRev
  simp only [ne_int_int, gt_int_int]
  by_cases h1 : 0 < accel ∧ rate < 0
  · have hc : (decide (accel ≠ 0) && decide (rate ≠ 0) && (decide (0 < accel) != decide (0 < rate))) = true := by
      have a1 : accel ≠ 0 := by omega
      have a2 : rate ≠ 0 := by omega
      have a3 : ¬ (0 < rate) := by omega
      simp [a1, a2, a3, h1.1]
    have haq : (accel : Rat) ≠ 0 := by
      have : accel ≠ 0 := by omega
      exact_mod_cast this
    rw [if_pos hc, if_pos h1]
    simp only [div_int_int _ _ _ _ haq, sub_flt_flt, Py.math_floor]
    have e : (rate : Rat) / (accel : Rat) = -((-rate : Int) : Rat) / (accel : Rat) := by push_cast; ring
    rw [e, trev_num hR (-rate) accel (by omega) (by omega) (by omega) (by omega)]
    congr 2; ring
  · rw [if_neg h1]
    by_cases h2 : accel < 0 ∧ 0 < rate
    · have hc : (decide (accel ≠ 0) && decide (rate ≠ 0) && (decide (0 < accel) != decide (0 < rate))) = true := by
        have a1 : accel ≠ 0 := by omega
        have a2 : rate ≠ 0 := by omega
        have a3 : ¬ (0 < accel) := by omega
        simp [a1, a2, a3, h2.2]
      have haq : (accel : Rat) ≠ 0 := by
        have : accel ≠ 0 := by omega
        exact_mod_cast this
      rw [if_pos hc, if_pos h2]
      simp only [div_int_int _ _ _ _ haq, sub_flt_flt, Py.math_floor]
      have e : (rate : Rat) / (accel : Rat) = -((rate : Int) : Rat) / ((-accel : Int) : Rat) := by
        push_cast; rw [neg_div_neg_eq]
      rw [e, trev_num hR rate (-accel) (by omega) (by omega) (by omega) (by omega)]
      congr 2 <;> ring
    · have hc : ¬ ((decide (accel ≠ 0) && decide (rate ≠ 0) && (decide (0 < accel) != decide (0 < rate))) = true) := by
        simp only [Bool.and_eq_true, decide_eq_true_eq, bne_iff_ne, ne_eq, decide_eq_decide, not_and, not_not]
        intro a1
        constructor <;> intro h <;> omega
      rw [if_neg hc, if_neg h2]

/-! ## stage 10: the final accumulator -/

theorem st_final {R : Rounding} (hR : ContractExact R) (rate accel a0 pf t : Int) (tfs : Py.Val)
    (ht : Py.int_ (Py.mp_ceil tfs) = .int t)
    (hr : |rate| ≤ 2 ^ 32) (ha : |accel| ≤ 2 ^ 32) (h0 : 0 ≤ a0) (h1 : a0 < 2 ^ 31) (hpf : |pf| ≤ 2 ^ 31)
    (htb : |t| ≤ 2 ^ 64) (hatt : |accel * t * t| ≤ 2 ^ 102) :
    G.final R 103 (.int rate) (.int accel) (.mpf ((kk rate accel : Int) / 2 : Rat)) (.int a0) (.int pf) tfs
      = .tup [.int t, .int pf, .int (accFinal rate accel a0 pf t)] := by
  have h2 : ((2 : Int) : Rat) ≠ 0 := by norm_num
  set K := kk rate accel with hK
  have bK := kk_bound rate accel hr ha
  obtain ⟨m, hm⟩ := kt_even rate accel t
  rw [← hK] at hm
  have e0 : R.mp 103 (a0 : Rat) = a0 := mp_int hR a0 (by rw [abs_lt]; constructor <;> linarith)
  have bKt : |K * t| ≤ 2 ^ 35 * 2 ^ 64 := abs_mul_le bK htb
  have e1 : R.mp 103 (((K : Int) : Rat) / 2 * (t : Rat)) = ((K * t : Int) : Rat) / 2 := by
    have : ((K : Int) : Rat) / 2 * (t : Rat) = ((K * t : Int) : Rat) / 2 := by push_cast; ring
    rw [this]; exact mp_half hR _ (lt_of_le_of_lt bKt (by norm_num))
  have b2 : |2 * a0 + K * t| ≤ 2 ^ 32 + 2 ^ 35 * 2 ^ 64 := by
    have : |2 * a0| ≤ 2 ^ 32 := by rw [abs_le]; constructor <;> linarith
    exact le_trans (abs_add_le _ _) (add_le_add this bKt)
  have e2 : R.mp 103 ((a0 : Rat) + ((K * t : Int) : Rat) / 2) = ((2 * a0 + K * t : Int) : Rat) / 2 := by
    have : (a0 : Rat) + ((K * t : Int) : Rat) / 2 = ((2 * a0 + K * t : Int) : Rat) / 2 := by push_cast; ring
    rw [this]; exact mp_half hR _ (lt_of_le_of_lt b2 (by norm_num))
  have e3 : R.mp 103 (accel : Rat) = accel := mp_int hR accel (lt_of_le_of_lt ha (by norm_num))
  have bat : |accel * t| ≤ 2 ^ 32 * 2 ^ 64 := abs_mul_le ha htb
  have e4 : R.mp 103 ((accel : Rat) * (t : Rat)) = ((accel * t : Int) : Rat) := by
    have : (accel : Rat) * (t : Rat) = ((accel * t : Int) : Rat) := by push_cast; ring
    rw [this]; exact mp_int hR _ (lt_of_le_of_lt bat (by norm_num))
  have e5 : R.mp 103 (((accel * t : Int) : Rat) * (t : Rat)) = ((accel * t * t : Int) : Rat) := by
    have : ((accel * t : Int) : Rat) * (t : Rat) = ((accel * t * t : Int) : Rat) := by push_cast; ring
    rw [this]; exact mp_int hR _ (lt_of_le_of_lt hatt (by norm_num))
  have e6 : R.mp 103 (((accel * t * t : Int) : Rat) / ((2 : Int) : Rat)) = ((accel * t * t : Int) : Rat) / 2 := by
    have : ((accel * t * t : Int) : Rat) / ((2 : Int) : Rat) = ((accel * t * t : Int) : Rat) / 2 := by norm_num
    rw [this]; exact mp_half hR _ (lt_of_le_of_lt hatt (by norm_num))
  have b7 : |2 * a0 + K * t + accel * t * t| ≤ 2 ^ 32 + 2 ^ 35 * 2 ^ 64 + 2 ^ 102 :=
    le_trans (abs_add_le _ _) (add_le_add b2 hatt)
  have e7 : R.mp 103 (((2 * a0 + K * t : Int) : Rat) / 2 + ((accel * t * t : Int) : Rat) / 2)
      = ((2 * a0 + K * t + accel * t * t : Int) : Rat) / 2 := by
    have : ((2 * a0 + K * t : Int) : Rat) / 2 + ((accel * t * t : Int) : Rat) / 2
        = ((2 * a0 + K * t + accel * t * t : Int) : Rat) / 2 := by push_cast; ring
    rw [this]; exact mp_half hR _ (lt_of_le_of_lt b7 (by norm_num))
  have e8 : R.mp 103 (pf : Rat) = pf := mp_int hR pf (lt_of_le_of_lt hpf (by norm_num))
  have b9 : |2147483648 * pf| ≤ 2147483648 * 2 ^ 31 := abs_mul_le (by norm_num) hpf
  have e9 : R.mp 103 (((2147483648 : Int) : Rat) * (pf : Rat)) = ((2147483648 * pf : Int) : Rat) := by
    have : ((2147483648 : Int) : Rat) * (pf : Rat) = ((2147483648 * pf : Int) : Rat) := by push_cast; ring
    rw [this]; exact mp_int hR _ (lt_of_le_of_lt b9 (by norm_num))
  have hacc : accFinal rate accel a0 pf t = a0 + m - two31 * pf := by
    unfold accFinal
    rw [← hK, hm, Int.mul_ediv_cancel_left _ (by decide : (2 : Int) ≠ 0)]
  have b10 : |a0 + m - two31 * pf| < 2 ^ 103 := by
    unfold two31
    have hm2 : 2 * m = K * t + accel * t * t := hm.symm
    have := abs_add_le (K * t) (accel * t * t)
    rw [abs_le] at hpf
    rw [abs_lt]
    have : |K * t + accel * t * t| ≤ 2 ^ 35 * 2 ^ 64 + 2 ^ 102 := by linarith
    rw [abs_le] at this
    constructor <;> omega
  have e10 : R.mp 103 (((2 * a0 + K * t + accel * t * t : Int) : Rat) / 2 - ((2147483648 * pf : Int) : Rat))
      = ((accFinal rate accel a0 pf t : Int) : Rat) := by
    have : ((2 * a0 + K * t + accel * t * t : Int) : Rat) / 2 - ((2147483648 * pf : Int) : Rat)
        = ((a0 + m - two31 * pf : Int) : Rat) := by
      have : 2 * a0 + K * t + accel * t * t = 2 * (a0 + m) := by linarith
      rw [this]; unfold two31; push_cast; ring
    rw [this, hacc]; exact mp_int hR _ b10
  unfold G.final
  simp only [ht, mpf_int, mul_mpf_int, add_mpf_mpf, div_mpf_int _ _ _ _ h2, sub_mpf_mpf, mul_int_mpf,
    e0, e1, e2, e3, e4, e5, e6, e7, e8, e9, e10, int_mpf, intOfRat_int]

/-! ## bounds on the model's position and duration (for the exactness of the last stage) -/

theorem sRev_nonneg (rate accel a0 : Int) : 0 ≤ sRev rate accel a0 := by
  unfold sRev two31
  split_ifs
  · exact Int.ediv_nonneg (Int.natCast_nonneg _) (by norm_num)
  · exact le_refl _

theorem posFinal_bound (n rate accel a0 : Int) (hn : 1 ≤ n) (hnb : n ≤ 2 ^ 31) :
    |posFinal n rate accel a0| ≤ 2 ^ 31 ∧ |posAdj n rate accel a0| ≤ 2 ^ 31 + 1 := by
  have hs := sRev_nonneg rate accel a0
  unfold posAdj posFinal
  by_cases hnr : noRev n rate accel a0
  · simp only [hnr, if_true]
    split_ifs <;> (constructor <;> (rw [abs_le]; constructor <;> omega))
  · have hlt : sRev rate accel a0 < n := by
      unfold noRev at hnr; omega
    simp only [hnr, if_false]
    split_ifs <;> (constructor <;> (rw [abs_le]; constructor <;> omega))

theorem cdiv_abs_le (x y : Int) (hy : 0 < y) : |cdiv x y| ≤ |x| + 1 := by
  have u := (cdiv_le_iff x y (cdiv x y) hy).mp (le_refl _)
  have l := (lt_cdiv_iff x y (cdiv x y - 1) hy).mp (by omega)
  rw [abs_le]
  rcases abs_cases x with ⟨e, _⟩ | ⟨e, _⟩ <;> rw [e] <;> constructor <;> nlinarith

theorem linTime_bound (rate x : Int) (hr : rate ≠ 0) : |linTime rate x| ≤ |x| + 1 := by
  unfold linTime
  split_ifs with h
  · exact cdiv_abs_le x rate h
  · have := cdiv_abs_le (-x) (-rate) (by omega); rwa [abs_neg] at this

theorem pick_cases (nr pr : Int) : pick nr pr = 0 ∨ (pick nr pr = nr ∧ 0 < nr) ∨ (pick nr pr = pr ∧ 0 < pr) := by
  unfold pick; split_ifs <;> simp_all

/-- both ceiled roots of the model are bounded -/
theorem roots_bounds (a K c : Int) (ha0 : a ≠ 0) (ha : |a| ≤ 2 ^ 32) (hK : |K| ≤ 2 ^ 35)
    (hD0 : 0 ≤ K * K - 8 * a * c) (hDb : K * K - 8 * a * c < 2 ^ 100) :
    (|nr0Of a K (K * K - 8 * a * c)| ≤ 2 ^ 50 ∧ |a * (nr0Of a K (K * K - 8 * a * c) - 1)| ≤ 2 ^ 50) ∧
    (|pr0Of a K (K * K - 8 * a * c)| ≤ 2 ^ 50 ∧ |a * (pr0Of a K (K * K - 8 * a * c) - 1)| ≤ 2 ^ 50) := by
  rw [abs_le] at ha
  unfold nr0Of pr0Of
  rcases lt_or_gt_of_ne ha0 with h | h
  · rw [if_neg (by omega), if_neg (by omega)]
    have eD : (-K) * (-K) - 8 * (-a) * (-c) = K * K - 8 * a * c := by ring
    have hK' : |(-K)| ≤ 2 ^ 35 := by rwa [abs_neg]
    have b := big_bounds (-a) (-K) (-c) (by omega) (by omega) hK' (by rw [eD]; exact hD0) (by rw [eD]; exact hDb)
    have s := small_bounds (-a) (-K) (-c) (by omega) (by omega) hK' (by rw [eD]; exact hD0) (by rw [eD]; exact hDb)
    rw [eD] at b s
    have e1 : cdiv (csqrt (K * K - 8 * a * c) - -K) (2 * -a) = cdiv (csqrt (K * K - 8 * a * c) + K) (-(2 * a)) := by
      congr 1 <;> ring
    have e2 : cdiv (-fsqrt (K * K - 8 * a * c) - -K) (2 * -a) = cdiv (K - fsqrt (K * K - 8 * a * c)) (-(2 * a)) := by
      congr 1 <;> ring
    rw [e1] at b; rw [e2] at s
    refine ⟨⟨b.1, ?_⟩, ⟨s.1, ?_⟩⟩
    · have := b.2; rw [neg_mul, abs_neg] at this; exact this
    · have := s.2; rw [neg_mul, abs_neg] at this; exact this
  · rw [if_pos h, if_pos h]
    exact ⟨small_bounds a K c (by omega) (by omega) hK hD0 hDb, big_bounds a K c (by omega) (by omega) hK hD0 hDb⟩

theorem quadTime_bound (a K c τe : Int) (ha0 : a ≠ 0) (ha : |a| ≤ 2 ^ 32) (hK : |K| ≤ 2 ^ 35)
    (hDb : K * K - 8 * a * c < 2 ^ 100) :
    |quadTime a K c τe| ≤ 2 ^ 64 ∧ |a * quadTime a K c τe * quadTime a K c τe| ≤ 2 ^ 102 := by
  rw [quadTime_eq]
  by_cases hD : K * K - 8 * a * c < 0
  · rw [if_pos hD]; norm_num
  · rw [if_neg hD]
    obtain ⟨⟨n1, n2⟩, ⟨p1, p2⟩⟩ := roots_bounds a K c ha0 ha hK (by omega) hDb
    have key : ∀ m : Int, |m| ≤ 2 ^ 50 → |a * (m - 1)| ≤ 2 ^ 50 → |m| ≤ 2 ^ 64 ∧ |a * m * m| ≤ 2 ^ 102 := by
      intro m h1 h2
      refine ⟨le_trans h1 (by norm_num), ?_⟩
      have e : a * m * m = a * (m - 1) * m + (a * (m - 1) + a) := by ring
      rw [e]
      have b1 : |a * (m - 1) * m| ≤ 2 ^ 50 * 2 ^ 50 := abs_mul_le h2 h1
      have b2 := abs_add_le (a * (m - 1)) a
      have b3 := abs_add_le (a * (m - 1) * m) (a * (m - 1) + a)
      have : (2 : Int) ^ 50 * 2 ^ 50 + (2 ^ 50 + 2 ^ 32) ≤ 2 ^ 102 := by norm_num
      linarith
    rcases pick_cases (if 0 < τe ∧ nr0Of a K (K * K - 8 * a * c) ≤ τe then -1 else nr0Of a K (K * K - 8 * a * c))
        (if 0 < τe ∧ pr0Of a K (K * K - 8 * a * c) ≤ τe then -1 else pr0Of a K (K * K - 8 * a * c)) with h | ⟨h, hp⟩ | ⟨h, hp⟩
    · rw [h]; norm_num
    · rw [h]
      split_ifs at hp ⊢ with hc
      · omega
      · exact key _ n1 n2
    · rw [h]
      split_ifs at hp ⊢ with hc
      · omega
      · exact key _ p1 p2

theorem timeFinal_eq (n rate accel a0 : Int) :
    timeFinal n rate accel a0 = if accel = 0 then linTime rate (two31 * posFinal n rate accel a0 - adjOf rate accel a0)
      else quadTime accel (kk rate accel)
        (cOf accel (tRevEff n rate accel a0) (adjOf rate accel a0 - posAdj n rate accel a0 * two31))
        (tRevEff n rate accel a0) := rfl

/-! ## assembly -/

/-- a result triple as the Python tuple the generated code returns -/
def tupOf (x : Int × Int × Int) : Py.Val := .tup [.int x.1, .int x.2.1, .int x.2.2]

/-- the magnitude envelope on which the bridge holds: 32-bit-sized rate and acceleration, a budget of at most
`2^31` steps, a given accumulator in `[0, 2^31)`. (No reachability or per-tick rate hypothesis is needed: the
generated code and the exact model agree on the whole envelope.) -/
structure BridgeDom (steps rate accel : Int) (acc : Option Int) : Prop where
  steps_le : |steps| ≤ 2 ^ 31
  rate_le : |rate| ≤ 2 ^ 32
  accel_le : |accel| ≤ 2 ^ 32
  acc_range : ∀ a, acc = some a → 0 ≤ a ∧ a < 2 ^ 31

theorem startAcc_range (rate accel : Int) (acc : Option Int) (h : ∀ a, acc = some a → 0 ≤ a ∧ a < 2 ^ 31) :
    0 ≤ startAcc rate accel acc ∧ startAcc rate accel acc < 2 ^ 31 := by
  cases acc with
  | some a => exact h a rfl
  | none => unfold startAcc two31; split_ifs <;> norm_num

/-- positive budget, not both of rate and acceleration zero -/
theorem bridge_pos {R : Rounding} (hR : Contract R) (n rate accel : Int) (acc : Option Int)
    (hn : 1 ≤ n) (hnb : n ≤ 2 ^ 31) (hnz : ¬ (accel = 0 ∧ rate = 0)) (hr : |rate| ≤ 2 ^ 32)
    (ha : |accel| ≤ 2 ^ 32) (hacc : ∀ a, acc = some a → 0 ≤ a ∧ a < 2 ^ 31) :
    G.staged R (.int n) (.int rate) (.int accel) (accArg acc) = tupOf (lmPos n rate accel acc) := by
  have hB : ContractBasic R := hR.toContractBasic
  have hE : ContractExact R := hB.toContractExact
  have hS : ContractSqrt R := hR.toContractSqrt
  obtain ⟨h0, h1⟩ := startAcc_range rate accel acc hacc
  set a0 := startAcc rate accel acc with ha0
  obtain ⟨bpf, bpa⟩ := posFinal_bound n rate accel a0 hn hnb
  have badj := adjOf_bound rate accel a0 h0 h1
  have bK := kk_bound rate accel hr ha
  unfold G.staged
  simp only [dpsToPrec_30, st_rateEff hE rate accel hr ha, st_tempRate hE rate accel ha, st_irn, st_accum,
    st_accumAdj]
  rw [← ha0]
  -- t_rev
  have h6 := st_tRevPair hB rate accel hr ha
  generalize G.tRevPair R 103 (.int rate) (.int accel) = tp at h6 ⊢
  obtain ⟨ts, tr⟩ := tp
  simp only at h6
  subst h6
  simp only []
  -- s_rev
  have h7 := st_sRevPair hE rate accel a0 hr ha h0 h1
  generalize G.sRevPair R 103 (.mpf ((kk rate accel : Int) / 2 : Rat)) (.int accel) (.int (tRev rate accel))
    (.int (adjOf rate accel a0)) = sp at h7 ⊢
  obtain ⟨ss, sr⟩ := sp
  simp only at h7
  subst h7
  simp only []
  -- branch
  obtain ⟨⟨z1, z2⟩, h8⟩ := st_branch R n rate accel a0
  rw [h8]
  simp only []
  -- duration
  have h9 := st_timeTuple hB hS rate accel (kk rate accel) (adjOf rate accel a0) (tRevEff n rate accel a0)
    (posFinal n rate accel a0) (posAdj n rate accel a0) (fun h hr0 => hnz ⟨h, hr0⟩) hr ha bK badj bpf bpa
  rw [← timeFinal_eq] at h9
  have e2 : ((kk rate accel : Int) : Rat) / 2 = ((kk rate accel : Int) / 2 : Rat) := rfl
  generalize G.timeTuple R 103 (.int rate) (.int accel) (.mpf ((kk rate accel : Rat) / 2)) (.int (adjOf rate accel a0))
    (.int (tRevEff n rate accel a0)) (.int (posFinal n rate accel a0)) (.int (posAdj n rate accel a0)) = tt at h9 ⊢
  obtain ⟨tfs, t2, t3, t4, t5, t6, t7, t8⟩ := tt
  simp only at h9
  simp only []
  -- bounds on the duration
  have htb : |timeFinal n rate accel a0| ≤ 2 ^ 64 ∧
      |accel * timeFinal n rate accel a0 * timeFinal n rate accel a0| ≤ 2 ^ 102 := by
    rw [timeFinal_eq]
    by_cases hz : accel = 0
    · rw [if_pos hz, hz]
      have hr0 : rate ≠ 0 := fun h => hnz ⟨hz, h⟩
      have := linTime_bound rate (two31 * posFinal n rate accel a0 - adjOf rate accel a0) hr0
      have bx : |two31 * posFinal n rate accel a0 - adjOf rate accel a0| ≤ 2 ^ 63 := by
        unfold two31
        rw [abs_lt] at badj
        rw [abs_le] at bpf ⊢
        constructor <;> omega
      rw [hz] at this bx
      constructor
      · linarith
      · simp
    · rw [if_neg hz]
      apply quadTime_bound accel _ _ _ hz ha bK
      have bc0 : |adjOf rate accel a0 - posAdj n rate accel a0 * two31| ≤ 2 ^ 63 := by
        unfold two31
        rw [abs_lt] at badj
        rw [abs_le] at bpa ⊢
        constructor <;> omega
      have bc : |cOf accel (tRevEff n rate accel a0) (adjOf rate accel a0 - posAdj n rate accel a0 * two31)| ≤ 2 ^ 63 + 1 := by
        unfold cOf
        rw [abs_le] at bc0 ⊢
        split_ifs <;> constructor <;> omega
      have b1 : |kk rate accel * kk rate accel| ≤ 2 ^ 35 * 2 ^ 35 := abs_mul_le bK bK
      have b2 : |8 * accel| ≤ 8 * 2 ^ 32 := abs_mul_le (by norm_num : |(8 : Int)| ≤ 8) ha
      have b3 := abs_mul_le b2 bc
      have := abs_sub (kk rate accel * kk rate accel)
        (8 * accel * cOf accel (tRevEff n rate accel a0) (adjOf rate accel a0 - posAdj n rate accel a0 * two31))
      have := le_abs_self (kk rate accel * kk rate accel -
        8 * accel * cOf accel (tRevEff n rate accel a0) (adjOf rate accel a0 - posAdj n rate accel a0 * two31))
      have : (2 : Int) ^ 35 * 2 ^ 35 + 8 * 2 ^ 32 * (2 ^ 63 + 1) < 2 ^ 100 := by norm_num
      linarith
  rw [st_final hE rate accel a0 (posFinal n rate accel a0) (timeFinal n rate accel a0) tfs h9 hr ha h0 h1 bpf
    htb.1 htb.2]
  rfl

end C03
end Plotink
