import Plotink.Proofs.Ebb3GenMore

/-! # Bridges: `var_write_int32`, `var_read_int32` (the `for` loops over four slots) -/

namespace Plotink
namespace Ebb3Gen
open PyObj Gen
set_option linter.unusedSimpArgs false
set_option linter.unusedVariables false

theorem toBytes4_range {v a b c d : Int} (h : Ebb3.toBytes4 v = .ok (a, b, c, d)) :
    (0 ≤ a ∧ a < 256) ∧ (0 ≤ b ∧ b < 256) ∧ (0 ≤ c ∧ c < 256) ∧ (0 ≤ d ∧ d < 256) := by
  unfold Ebb3.toBytes4 at h
  split at h
  · rename_i hr
    injection h with h
    injection h with h1 h
    injection h with h2 h
    injection h with h3 h4
    subst h1 h2 h3 h4
    omega
  · cases h

theorem char_ofNat_toNat (n : Nat) (h : n < 256) : (Char.ofNat n).toNat = n := by
  have hv : n.isValidChar := Or.inl (by omega)
  simp [Char.ofNat, hv, Char.ofNatAux, Char.toNat]

theorem byteVal (a : Int) (h : 0 ≤ a ∧ a < 256) : Val.int ((Char.ofNat a.toNat).toNat : Int) = Val.int a := by
  rw [char_ofNat_toNat _ (by omega)]
  congr 1
  omega

/-- `self.var_write(b, i)` as a statement of a caller -/
theorem var_write_stmt {σ : Type} (fuel : Nat) (hf : 26 ≤ fuel) (b i : Int) (env : σ) (w : World EBB3_Obj) (hg : Good w)
    (e1 e2 : Expr EBB3_Obj σ) (he1 : e1 fuel env = ok (.int b)) (he2 : e2 fuel env = ok (.int i)) :
    StmtSim (expr (fun fuel env => mcall2 (EBB3_var_write fuel) (e1 fuel env) (e2 fuel env)) fuel env w) env
      (((Ebb3.varWriteP Ebb3.srcParams Ebb3.scriptDev b i).run >>= fun _ => (pure () : Ebb3.M Ebb3.Script Unit)) (absWorld w)) := by
  have hb := var_write_bridge fuel hf b i w hg
  have hrun : Ebb3.run Ebb3.srcParams Ebb3.scriptDev (.var_write b i) = (Ebb3.varWriteP Ebb3.srcParams Ebb3.scriptDev b i).run := rfl
  rw [hrun] at hb
  simp only [expr, he1, he2, mcall2_ok_apply]
  generalize EBB3_var_write fuel (.int b) (.int i) w = out at hb ⊢
  rw [Ebb3.bind_apply]
  generalize (Ebb3.varWriteP Ebb3.srcParams Ebb3.scriptDev b i).run (absWorld w) = r at hb ⊢
  obtain ⟨res, aw'⟩ := r
  cases out with
  | fuelOut => cases res <;> exact hb.elim
  | val v w' =>
    cases res with
    | error ex => exact hb.elim
    | ok v' => exact ⟨w', rfl, hb.2.1, hb.2.2⟩
  | exc c w' =>
    cases res with
    | ok v' => exact hb.elim
    | error ex =>
      obtain ⟨h1, h2, h3⟩ := hb
      exact ⟨w', by simp only [ofOut_exc, h1], h2, h3⟩

/-- the model's writer of a list of bytes to consecutive slots -/
def writeBytes : List Int → Int → Ebb3.M Ebb3.Script Unit
  | [], _ => pure ()
  | b :: r, i => (Ebb3.varWriteP Ebb3.srcParams Ebb3.scriptDev b i).run >>= fun _ => writeBytes r (i + 1)

/-- the `for byte in bytes_sequence` loop of `var_write_int32` against `writeBytes` -/
theorem vwi_loop (fuel : Nat) (hf : 26 ≤ fuel) (val bs : Val) : ∀ (l : List Int) (i : Int) (bt : Val) (w : World EBB3_Obj), Good w →
    (match writeBytes l i (absWorld w) with
     | (.ok _, aw') => ∃ env' w', forLoop (fun (env : EBB3_var_write_int32_Env) v => { env with byte := v }) EBB3_var_write_int32_fbody1 fuel
          (l.map Val.int) ⟨val, .int i, bs, bt⟩ w = .norm env' w' ∧ absWorld w' = aw' ∧ Good w'
     | (.error ex, aw') => ∃ env' w', forLoop (fun (env : EBB3_var_write_int32_Env) v => { env with byte := v }) EBB3_var_write_int32_fbody1 fuel
          (l.map Val.int) ⟨val, .int i, bs, bt⟩ w = .exc (excOfEbb3 ex) env' w' ∧ absWorld w' = aw' ∧ Good w')
  | [], i, bt, w, hg => ⟨_, w, rfl, rfl, hg⟩
  | b :: r, i, bt, w, hg => by
    have hs := var_write_stmt fuel hf b i (⟨val, .int i, bs, .int b⟩ : EBB3_var_write_int32_Env) w hg
      (fun fuel env => load env.byte) (fun fuel env => load env.start_index) rfl rfl
    show match ((Ebb3.varWriteP Ebb3.srcParams Ebb3.scriptDev b i).run >>= fun _ => writeBytes r (i + 1)) (absWorld w) with
      | (.ok _, aw') => _ | (.error ex, aw') => _
    simp only [List.map_cons, forLoop]
    unfold EBB3_var_write_int32_fbody1
    rw [block_cons2, block_one]
    rw [Ebb3.bind_apply] at hs ⊢
    generalize (Ebb3.varWriteP Ebb3.srcParams Ebb3.scriptDev b i).run (absWorld w) = rr at hs ⊢
    obtain ⟨res, aw1⟩ := rr
    cases res with
    | error ex =>
      obtain ⟨w1, e1, e2, hg1⟩ := hs
      rw [seq_exc e1]
      exact ⟨_, w1, rfl, e2, hg1⟩
    | ok u =>
      obtain ⟨w1, e1, e2, hg1⟩ := hs
      rw [seq_norm e1]
      have hadd : assign (fun (env : EBB3_var_write_int32_Env) v => { env with start_index := v })
          (fun fuel env => app2 op_add (load env.start_index) (ok (.int 1))) fuel ⟨val, .int i, bs, .int b⟩ w1
          = .norm ⟨val, .int (i + 1), bs, .int b⟩ w1 := by
        simp only [assign, load_int, app2_ok, op_add, intOf, ofP_ok, ok_apply]
      rw [hadd]
      simp only
      have ih := vwi_loop fuel hf val bs r (i + 1) (.int b) w1 hg1
      rw [e2] at ih
      exact ih

theorem M_bind_assoc {σ α β γ : Type} (x : Ebb3.M σ α) (f : α → Ebb3.M σ β) (g : β → Ebb3.M σ γ) (w : Ebb3.World σ) :
    ((x >>= f) >>= g) w = (x >>= fun a => f a >>= g) w := by
  rw [Ebb3.bind_apply, Ebb3.bind_apply, Ebb3.bind_apply]
  rcases x w with ⟨r, w'⟩
  cases r <;> rfl

/-- **`var_write_int32`** -/
theorem var_write_int32_bridge (fuel : Nat) (hf : 26 ≤ fuel) (v i : Int) (w : World EBB3_Obj) (hg : Good w) :
    Sim (EBB3_var_write_int32 fuel (.int v) (.int i) w)
      (Ebb3.run Ebb3.srcParams Ebb3.scriptDev (.var_write_int32 v i) (absWorld w)) := by
  unfold EBB3_var_write_int32 EBB3_var_write_int32_main EBB3_var_write_int32_if1
  rw [block_cons2]
  refine guarded_sim (.bool false) _ fuel _ w hg _ (fun hb => ?_)
  rw [block_cons2]
  cases htb : Ebb3.toBytes4 v with
  | error e =>
    have he : e = .overflowError := by
      unfold Ebb3.toBytes4 at htb
      split at htb
      · cases htb
      · injection htb with h; exact h.symm
    subst he
    have : ∀ rest, PyObj.run (seq (assign (fun (env : EBB3_var_write_int32_Env) v => { env with bytes_sequence := v })
        (fun fuel env => app1 meth_to_bytes4_big_signed (ok env.value))) rest) fuel ⟨.int v, .int i, .unbound, .unbound⟩ w
        = .exc .overflowError w := by
      intro rest
      simp only [PyObj.run, seq, assign, app1_ok, meth_to_bytes4_big_signed, intOf, htb, ofP_error, raise_apply]
    rw [this]
    show Sim _ ((match Ebb3.toBytes4 v with
          | .error e => (Ebb3.M.raise e : Ebb3.M Ebb3.Script Ebb3.Val)
          | .ok (b3, b2, b1, b0) => _) (absWorld w))
    simp only [htb]
    exact ⟨rfl, rfl, hg⟩
  | ok q =>
    obtain ⟨b3, b2, b1, b0⟩ := q
    obtain ⟨h3, h2, h1, h0⟩ := toBytes4_range htb
    rw [run_seq_assign_ok (v := .bytes [Char.ofNat b3.toNat, Char.ofNat b2.toNat, Char.ofNat b1.toNat, Char.ofNat b0.toNat]) (by
      simp only [app1_ok, meth_to_bytes4_big_signed, intOf, htb, ofP_ok])]
    rw [block_cons2, block_cons2, block_one]
    -- the model: four `var_write`s, then `errIsNone`
    have hmodel : ∀ aw, (match Ebb3.toBytes4 v with
          | .error e => (Ebb3.M.raise e : Ebb3.M Ebb3.Script Ebb3.Val)
          | .ok (b3, b2, b1, b0) => do
            let _ ← (Ebb3.varWriteP Ebb3.srcParams Ebb3.scriptDev b3 i).run
            let _ ← (Ebb3.varWriteP Ebb3.srcParams Ebb3.scriptDev b2 (i + 1)).run
            let _ ← (Ebb3.varWriteP Ebb3.srcParams Ebb3.scriptDev b1 (i + 2)).run
            let _ ← (Ebb3.varWriteP Ebb3.srcParams Ebb3.scriptDev b0 (i + 3)).run
            Ebb3.errIsNone) aw = (writeBytes [b3, b2, b1, b0] i >>= fun _ => Ebb3.errIsNone) aw := by
      intro aw
      rw [htb]
      simp only [writeBytes]
      have e2 : i + 1 + 1 = i + 2 := by omega
      have e3 : i + 2 + 1 = i + 3 := by omega
      rw [e2, e3]
      rw [M_bind_assoc]
      rw [Ebb3.bind_apply, Ebb3.bind_apply]
      rcases (Ebb3.varWriteP Ebb3.srcParams Ebb3.scriptDev b3 i).run aw with ⟨r1, a1⟩
      cases r1 with
      | error e => rfl
      | ok u1 =>
        simp only
        rw [M_bind_assoc, Ebb3.bind_apply, Ebb3.bind_apply]
        rcases (Ebb3.varWriteP Ebb3.srcParams Ebb3.scriptDev b2 (i + 1)).run a1 with ⟨r2, a2⟩
        cases r2 with
        | error e => rfl
        | ok u2 =>
          simp only
          rw [M_bind_assoc, Ebb3.bind_apply, Ebb3.bind_apply]
          rcases (Ebb3.varWriteP Ebb3.srcParams Ebb3.scriptDev b1 (i + 2)).run a2 with ⟨r3, a3⟩
          cases r3 with
          | error e => rfl
          | ok u3 =>
            simp only
            rw [M_bind_assoc, Ebb3.bind_apply, Ebb3.bind_apply]
            rcases (Ebb3.varWriteP Ebb3.srcParams Ebb3.scriptDev b0 (i + 3)).run a3 with ⟨r4, a4⟩
            cases r4 <;> rfl
    show Sim _ ((match Ebb3.toBytes4 v with
          | .error e => (Ebb3.M.raise e : Ebb3.M Ebb3.Script Ebb3.Val)
          | .ok (b3, b2, b1, b0) => _) (absWorld w))
    rw [hmodel]
    -- the loop
    have hl := vwi_loop fuel hf (.int v) (.bytes [Char.ofNat b3.toNat, Char.ofNat b2.toNat, Char.ofNat b1.toNat, Char.ofNat b0.toNat])
      [b3, b2, b1, b0] i .unbound w hg
    have hfor : EBB3_var_write_int32_for1 fuel
        ⟨.int v, .int i, .bytes [Char.ofNat b3.toNat, Char.ofNat b2.toNat, Char.ofNat b1.toNat, Char.ofNat b0.toNat], .unbound⟩ w
        = forLoop (fun (env : EBB3_var_write_int32_Env) v => { env with byte := v }) EBB3_var_write_int32_fbody1 fuel
          ([b3, b2, b1, b0].map Val.int)
          ⟨.int v, .int i, .bytes [Char.ofNat b3.toNat, Char.ofNat b2.toNat, Char.ofNat b1.toNat, Char.ofNat b0.toNat], .unbound⟩ w := by
      unfold EBB3_var_write_int32_for1
      simp only [PyObj.forIn, show (load (Val.bytes [Char.ofNat b3.toNat, Char.ofNat b2.toNat, Char.ofNat b1.toNat, Char.ofNat b0.toNat]) : Eff EBB3_Obj)
        = ok _ from rfl, ok_apply, items, List.map_cons, List.map_nil, byteVal b3 h3, byteVal b2 h2, byteVal b1 h1, byteVal b0 h0]
    rw [Ebb3.bind_apply]
    generalize writeBytes [b3, b2, b1, b0] i (absWorld w) = r at hl ⊢
    obtain ⟨res, aw'⟩ := r
    cases res with
    | error ex =>
      obtain ⟨env', w', e1, e2, hg'⟩ := hl
      unfold PyObj.run
      rw [seq_exc (hfor.trans e1)]
      exact ⟨rfl, e2, hg'⟩
    | ok u =>
      obtain ⟨env', w', e1, e2, hg'⟩ := hl
      rw [run_seq_norm (hfor.trans e1)]
      simp only
      rw [← e2, errIsNone_sim w' hg'.obj]
      unfold EBB3_var_write_int32_if2 PyObj.run seq
      rw [errGuard_stmt _ _ _ _ hg'.obj]
      cases hn : isNone w'.obj.err
      · simp only [Bool.false_eq_true, ↓reduceIte]
        exact ⟨rfl, rfl, hg'⟩
      · simp only [↓reduceIte, return_, ok_apply]
        exact ⟨rfl, rfl, hg'⟩

/-- `x = self.var_read(idx)` as a statement of a caller -/
theorem var_read_assign {σ : Type} (fuel : Nat) (hf : 26 ≤ fuel) (idx : Int) (env : σ) (set : σ → Val → σ)
    (w : World EBB3_Obj) (hg : Good w) (e : Expr EBB3_Obj σ) (he : e fuel env = ok (.int idx)) :
    AssignSim (assign set (fun fuel env => mcall1 (EBB3_var_read fuel) (e fuel env)) fuel env w) env set
      ((Ebb3.varReadP Ebb3.srcParams Ebb3.scriptDev idx).run (absWorld w)) := by
  have hb := var_read_bridge fuel hf idx w hg
  have hrun : Ebb3.run Ebb3.srcParams Ebb3.scriptDev (.var_read idx) = (Ebb3.varReadP Ebb3.srcParams Ebb3.scriptDev idx).run := rfl
  rw [hrun] at hb
  simp only [assign, he, mcall1_ok_apply]
  generalize EBB3_var_read fuel (.int idx) w = out at hb ⊢
  generalize (Ebb3.varReadP Ebb3.srcParams Ebb3.scriptDev idx).run (absWorld w) = r at hb ⊢
  obtain ⟨res, aw'⟩ := r
  cases out with
  | fuelOut => cases res <;> exact hb.elim
  | val v w' =>
    cases res with
    | error ex => exact hb.elim
    | ok v' =>
      obtain ⟨h1, h2, h3⟩ := hb
      exact ⟨w', by simp only [ofOut_val, h1], h2, h3⟩
  | exc c w' =>
    cases res with
    | ok v' => exact hb.elim
    | error ex =>
      obtain ⟨h1, h2, h3⟩ := hb
      exact ⟨w', by simp only [ofOut_exc, h1], h2, h3⟩

/-- the model's reader of consecutive slots -/
def readVals (start : Int) : List Int → Ebb3.M Ebb3.Script (List Ebb3.Val)
  | [] => pure []
  | k :: r => (Ebb3.varReadP Ebb3.srcParams Ebb3.scriptDev (start + k)).run >>= fun v =>
      readVals start r >>= fun vs => pure (v :: vs)

/-- the `for byte_offset in range(0, 4)` loop of `var_read_int32` against `readVals` -/
theorem vri_loop (fuel : Nat) (hf : 26 ≤ fuel) (start : Int) : ∀ (ks : List Int) (acc : List Val) (bo vl : Val)
    (w : World EBB3_Obj), Good w →
    (match readVals start ks (absWorld w) with
     | (.ok vs, aw') => ∃ bo' vl' w', forLoop (fun (env : EBB3_var_read_int32_Env) v => { env with byte_offset := v })
          EBB3_var_read_int32_fbody1 fuel (ks.map Val.int) ⟨.int start, .list acc, bo, vl⟩ w
          = .norm ⟨.int start, .list (acc ++ vs.map encVal), bo', vl'⟩ w' ∧ absWorld w' = aw' ∧ Good w'
     | (.error ex, aw') => ∃ env' w', forLoop (fun (env : EBB3_var_read_int32_Env) v => { env with byte_offset := v })
          EBB3_var_read_int32_fbody1 fuel (ks.map Val.int) ⟨.int start, .list acc, bo, vl⟩ w
          = .exc (excOfEbb3 ex) env' w' ∧ absWorld w' = aw' ∧ Good w')
  | [], acc, bo, vl, w, hg => ⟨bo, vl, w, by simp [forLoop], rfl, hg⟩
  | k :: r, acc, bo, vl, w, hg => by
    have hs := var_read_assign fuel hf (start + k) (⟨.int start, .list acc, .int k, vl⟩ : EBB3_var_read_int32_Env)
      (fun env v => { env with value := v }) w hg
      (fun fuel env => app2 op_add (ok env.start_index) (load env.byte_offset)) (by
        simp only [load_int, app2_ok, op_add, intOf, ofP_ok])
    show match ((Ebb3.varReadP Ebb3.srcParams Ebb3.scriptDev (start + k)).run >>= fun v =>
        readVals start r >>= fun vs => pure (v :: vs)) (absWorld w) with
      | (.ok vs, aw') => _ | (.error ex, aw') => _
    simp only [List.map_cons, forLoop]
    unfold EBB3_var_read_int32_fbody1
    rw [block_cons2, block_cons2, block_one]
    rw [Ebb3.bind_apply]
    generalize (Ebb3.varReadP Ebb3.srcParams Ebb3.scriptDev (start + k)).run (absWorld w) = rr at hs ⊢
    obtain ⟨res, aw1⟩ := rr
    cases res with
    | error ex =>
      obtain ⟨w1, e1, e2, hg1⟩ := hs
      rw [seq_exc e1]
      exact ⟨_, w1, rfl, e2, hg1⟩
    | ok v =>
      obtain ⟨w1, e1, e2, hg1⟩ := hs
      rw [seq_norm e1]
      rw [seq_norm (env' := ⟨.int start, .list acc, .int (k + 1), encVal v⟩) (w' := w1) (by
        simp only [assign, load_int, app2_ok, op_add, intOf, ofP_ok, ok_apply])]
      have happ : assign (fun (env : EBB3_var_read_int32_Env) v => { env with bytes_sequence := v })
          (fun fuel env => app2 meth_append (load env.bytes_sequence) (load env.value)) fuel
          ⟨.int start, .list acc, .int (k + 1), encVal v⟩ w1
          = .norm ⟨.int start, .list (acc ++ [encVal v]), .int (k + 1), encVal v⟩ w1 := by
        simp only [assign, show (load (Val.list acc) : Eff EBB3_Obj) = ok (Val.list acc) from rfl,
          load_of_bound (encVal_ne_unbound v), app2_ok, meth_append, ofP_ok, ok_apply]
      rw [happ]
      simp only
      have ih := vri_loop fuel hf start r (acc ++ [encVal v]) (.int (k + 1)) (encVal v) w1 hg1
      rw [e2] at ih
      rw [Ebb3.bind_apply]
      generalize readVals start r aw1 = r2 at ih ⊢
      obtain ⟨res2, aw2⟩ := r2
      cases res2 with
      | error ex => exact ih
      | ok vs =>
        obtain ⟨bo', vl', w', e3, e4, hg'⟩ := ih
        refine ⟨bo', vl', w', e3.trans ?_, e4, hg'⟩
        simp [List.append_assoc]

theorem fromBytes4_enc (a b c d : Ebb3.Val) :
    Ebb3.fromBytes4 (toEbb3Val (encVal a)) (toEbb3Val (encVal b)) (toEbb3Val (encVal c)) (toEbb3Val (encVal d))
      = Ebb3.fromBytes4 a b c d := by
  cases a <;> cases b <;> cases c <;> cases d <;> rfl

theorem M_bind_assoc' {σ α β γ : Type} (x : Ebb3.M σ α) (f : α → Ebb3.M σ β) (g : β → Ebb3.M σ γ) :
    ((x >>= f) >>= g) = (x >>= fun a => f a >>= g) := funext (M_bind_assoc x f g)

theorem M_pure_bind {σ α β : Type} (a : α) (f : α → Ebb3.M σ β) : ((pure a : Ebb3.M σ α) >>= f) = f a := rfl

theorem readVals_length (start : Int) : ∀ (ks : List Int) (aw aw' : Ebb3.World Ebb3.Script) (vs : List Ebb3.Val),
    readVals start ks aw = (.ok vs, aw') → vs.length = ks.length
  | [], aw, aw', vs, h => by
    injection h with h1 _; injection h1 with h1; rw [← h1]; rfl
  | k :: r, aw, aw', vs, h => by
    obtain ⟨v, a1, -, h⟩ := Ebb3.bind_inv h
    obtain ⟨vs', a2, h2, h⟩ := Ebb3.bind_inv h
    injection h with h1 _; injection h1 with h1
    rw [← h1, List.length_cons, List.length_cons, readVals_length start r a1 a2 vs' h2]

/-- **`var_read_int32`** -/
theorem var_read_int32_bridge (fuel : Nat) (hf : 26 ≤ fuel) (i : Int) (w : World EBB3_Obj) (hg : Good w) :
    Sim (EBB3_var_read_int32 fuel (.int i) w)
      (Ebb3.run Ebb3.srcParams Ebb3.scriptDev (.var_read_int32 i) (absWorld w)) := by
  unfold EBB3_var_read_int32 EBB3_var_read_int32_main EBB3_var_read_int32_if1
  rw [block_cons2]
  refine guarded_sim (.bool false) _ fuel _ w hg _ (fun hb => ?_)
  rw [block_cons2, run_seq_assign_ok (v := .list []) (by simp only [mkList, evalList_nil]), block_cons2, block_cons2, block_one]
  -- the model: four `var_read`s
  have hmodel : ∀ aw, (do
        let a ← (Ebb3.varReadP Ebb3.srcParams Ebb3.scriptDev i).run
        let b ← (Ebb3.varReadP Ebb3.srcParams Ebb3.scriptDev (i + 1)).run
        let c ← (Ebb3.varReadP Ebb3.srcParams Ebb3.scriptDev (i + 2)).run
        let d ← (Ebb3.varReadP Ebb3.srcParams Ebb3.scriptDev (i + 3)).run
        let st ← Ebb3.M.getSt
        if st.err.isSome = true then pure Ebb3.Val.none
        else match Ebb3.fromBytes4 a b c d with
          | .ok z => pure (Ebb3.Val.int z)
          | .error e => Ebb3.M.raise e : Ebb3.M Ebb3.Script Ebb3.Val) aw
      = (readVals i [0, 1, 2, 3] >>= fun vs => Ebb3.M.getSt >>= fun st =>
          if st.err.isSome = true then pure Ebb3.Val.none
          else match vs with
            | [a, b, c, d] => (match Ebb3.fromBytes4 a b c d with
              | .ok z => pure (Ebb3.Val.int z)
              | .error e => Ebb3.M.raise e)
            | _ => pure Ebb3.Val.none) aw := by
    intro aw
    simp only [readVals, Int.add_zero, M_bind_assoc', M_pure_bind]
  show Sim _ ((do
        let a ← (Ebb3.varReadP Ebb3.srcParams Ebb3.scriptDev i).run
        let b ← (Ebb3.varReadP Ebb3.srcParams Ebb3.scriptDev (i + 1)).run
        let c ← (Ebb3.varReadP Ebb3.srcParams Ebb3.scriptDev (i + 2)).run
        let d ← (Ebb3.varReadP Ebb3.srcParams Ebb3.scriptDev (i + 3)).run
        let st ← Ebb3.M.getSt
        if st.err.isSome = true then pure Ebb3.Val.none
        else match Ebb3.fromBytes4 a b c d with
          | .ok z => pure (Ebb3.Val.int z)
          | .error e => Ebb3.M.raise e : Ebb3.M Ebb3.Script Ebb3.Val) (absWorld w))
  rw [hmodel]
  have hl := vri_loop fuel hf i [0, 1, 2, 3] [] .unbound .unbound w hg
  have hfor : EBB3_var_read_int32_for1 fuel ⟨.int i, .list [], .unbound, .unbound⟩ w
      = forLoop (fun (env : EBB3_var_read_int32_Env) v => { env with byte_offset := v }) EBB3_var_read_int32_fbody1 fuel
        ([0, 1, 2, 3].map Val.int) ⟨.int i, .list [], .unbound, .unbound⟩ w := by
    unfold EBB3_var_read_int32_for1
    simp only [PyObj.forIn, app2_ok, b_range2, intOf, ofP_ok, ok_apply, items]
    rfl
  rw [Ebb3.bind_apply]
  generalize hrv : readVals i [0, 1, 2, 3] (absWorld w) = r at hl ⊢
  obtain ⟨res, aw'⟩ := r
  cases res with
  | error ex =>
    obtain ⟨env', w', e1, e2, hg'⟩ := hl
    unfold PyObj.run
    rw [seq_exc (hfor.trans e1)]
    exact ⟨rfl, e2, hg'⟩
  | ok vs =>
    obtain ⟨bo', vl', w', e1, e2, hg'⟩ := hl
    rw [run_seq_norm (hfor.trans e1)]
    simp only
    rw [← e2, Ebb3.bind_apply, Ebb3.getSt_apply]
    simp only [isSome_err w' hg'.obj]
    unfold EBB3_var_read_int32_if2 PyObj.run seq
    rw [errGuard_stmt _ _ _ _ hg'.obj]
    cases hn : isNone w'.obj.err
    · simp only [Bool.false_eq_true, ↓reduceIte, Bool.not_false, return_, ok_apply]
      exact ⟨rfl, rfl, hg'⟩
    · have hlen := readVals_length i [0, 1, 2, 3] _ _ vs hrv
      match vs, hlen with
      | [a, b, c, d], _ =>
        simp only [↓reduceIte, Bool.not_true, Bool.false_eq_true, return_, List.nil_append, List.map_cons, List.map_nil,
          show ∀ l : List Val, (load (Val.list l) : Eff EBB3_Obj) = ok (Val.list l) from fun l => rfl, app1_ok,
          b_from_bytes_big_signed, items, fromBytes4_enc]
        cases hf4 : Ebb3.fromBytes4 a b c d with
        | ok z =>
          simp only [ofP_ok, ok_apply]
          exact ⟨rfl, rfl, hg'⟩
        | error e =>
          simp only [ofP_error, raise_apply]
          exact ⟨rfl, rfl, hg'⟩

end Ebb3Gen
end Plotink
