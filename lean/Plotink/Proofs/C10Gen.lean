import Plotink.Gen.subdivideCubicPath
import Plotink.Proofs.PyLemmas
import Plotink.Proofs.PyEnc
import Plotink.Proofs.C09Gen
import Plotink.Proofs.C10Term

/-! # C10 — bridge: the source-regenerated `subdivideCubicPath` (+ `bezmisc.beziersplitatt`, `tpoint`) = the hand model

`Gen.subdivideCubicPath` (two nested `while True` loops on fuel: `…_body2/_loop2` inner, `…_body1/_loop1` outer) is
regenerated from `plotink/plot_utils.py`; `Gen.beziersplitatt` and `Gen.tpoint` from the *installed*
`ink_extensions/bezmisc.py`; `Gen.points_in_tolerance` is bridged in `Proofs/C09Gen.lean`.  Exact arithmetic,
all-`float` encoding (`encPt`, `encNode` = `[hin, p, hout]`, `encNodes`).

* `tpoint_bridge`, `split_bridge` (`rfl`), `pit_cubic` (the flatness test);
* `index_nodes`, `setItem_nodes`, `setItem_hout/hin`, `insert_nodes` — `s_p[k]`, `s_p[k] = …`, the nested stores
  `s_p[i-1][2] = …`, `s_p[i][0] = …` and the insertion `s_p[i:1] = [x]` on an encoded node list;
* `inner_loop` (induction on the model's fuel): the inner loop either returns or breaks at the first non-flat piece;
  `split_store`: the three updates are the model's `splitStep`; `outer_loop` (strong induction); `subdivide_bridge`.
The model spends one unit of fuel per flatness test; the generated code one per pass of each loop, the inner loop
restarting from the outer loop's remaining fuel: any fuel above the model's suffices. -/

namespace Plotink
namespace C10
open Py Py.Val C09
set_option linter.unusedSimpArgs false
set_option linter.unusedVariables false

def encPt (p : Pt) : Val := .tup [.flt p.1, .flt p.2]
def encNode (n : Node) : Val := .tup [encPt n.hin, encPt n.p, encPt n.hout]
def encNodes (l : List Node) : Val := .tup (l.map encNode)
def encCubic (c : Cubic) : Val := .tup [encPt c.p0, encPt c.p1, encPt c.p2, encPt c.p3]

theorem add_ex (p : Nat) (a b : Rat) : Py.add Rounding.exact p (.flt a) (.flt b) = .flt (a + b) := rfl
theorem sub_ex (p : Nat) (a b : Rat) : Py.sub Rounding.exact p (.flt a) (.flt b) = .flt (a - b) := rfl
theorem mul_ex (p : Nat) (a b : Rat) : Py.mul Rounding.exact p (.flt a) (.flt b) = .flt (a * b) := rfl

/-- `bezmisc.tpoint`, regenerated, exact arithmetic -/
theorem tpoint_bridge (amb : Nat) (a b : Pt) (t : Rat) :
    Gen.tpoint Rounding.exact amb (encPt a) (encPt b) (.flt t) = encPt (tpoint a b t) := rfl

/-- `bezmisc.beziersplitatt`, regenerated, exact arithmetic -/
theorem split_bridge (amb : Nat) (c : Cubic) (t : Rat) :
    Gen.beziersplitatt Rounding.exact amb (encCubic c) (.flt t) =
      .tup [encCubic (splitAt c t).1, encCubic (splitAt c t).2] := rfl


/-! ### list operations on an encoded node list -/

theorem len_nodes (sp : List Node) : Py.len_ (encNodes sp) = .int (sp.length : Int) := by
  simp [encNodes, Py.len_]

theorem ge_nat (a b : Nat) : Py.ge (.int (a : Int)) (.int (b : Int)) = decide (a ≥ b) := by
  simp [Py.ge, Py.num]

theorem sub_one (p : Nat) (i : Nat) (hi : 1 ≤ i) :
    Py.sub Rounding.exact p (.int (i : Int)) (.int 1) = .int ((i - 1 : Nat) : Int) := by
  show Val.int ((i : Int) - 1) = _
  congr 1; omega

theorem add_one (p : Nat) (i : Nat) : Py.add Rounding.exact p (.int (i : Int)) (.int 1) = .int ((i + 1 : Nat) : Int) := rfl

theorem index_nodes (sp : List Node) (k : Nat) (a : Node) (h : sp[k]? = some a) :
    Py.index (encNodes sp) (.int (k : Int)) = encNode a := by
  have hk : k < sp.length := by
    by_contra hc; rw [List.getElem?_eq_none (by omega)] at h; cases h
  have hneg : ¬ ((k : Int) < 0) := by omega
  simp only [encNodes, Py.index, Py.kind, Py.toInt, List.length_map, hneg, if_false]
  rw [if_pos ⟨by omega, by exact_mod_cast hk⟩, Int.toNat_natCast]
  simp [List.getD, h]

theorem setItem_nodes (sp : List Node) (k : Nat) (a : Node) (hk : k < sp.length) :
    Py.setItem (encNodes sp) (.int (k : Int)) (encNode a) = encNodes (sp.set k a) := by
  have hneg : ¬ ((k : Int) < 0) := by omega
  simp only [encNodes, Py.setItem, Py.indexPos, Py.kind, Py.toInt, List.length_map, hneg, if_false]
  rw [if_pos ⟨by omega, by exact_mod_cast hk⟩, Int.toNat_natCast]
  simp only [List.map_set]
  congr 1
  rw [List.set_eq_take_append_cons_drop, if_pos (by simpa using hk)]

theorem setItem_hout (a : Node) (q : Pt) :
    Py.setItem (encNode a) (.int 2) (encPt q) = encNode { a with hout := q } := rfl
theorem setItem_hin (a : Node) (q : Pt) :
    Py.setItem (encNode a) (.int 0) (encPt q) = encNode { a with hin := q } := rfl

theorem insert_nodes (sp : List Node) (i : Nat) (x : Node) (h1 : 1 ≤ i) (hi : i < sp.length) :
    Py.setSlice (encNodes sp) (.int (i : Int)) (.int 1) (.tup [encNode x])
      = encNodes (sp.take i ++ x :: sp.drop i) := by
  have hneg : ¬ ((i : Int) < 0) := by omega
  have hneg1 : ¬ ((1 : Int) < 0) := by decide
  simp only [encNodes, Py.setSlice, Py.sliceBound, List.length_map, hneg, hneg1, if_false]
  have e1 : min (i : Int).toNat sp.length = i := by simp; omega
  have e2 : min (1 : Int).toNat sp.length = 1 := by simp; omega
  rw [e1, e2, show max i 1 = i by omega]
  simp [List.map_take, List.map_drop]


/-! ### the flatness test and one pass of the inner loop -/

theorem pit_cubic (amb : Nat) (c : Cubic) (flat : Rat) :
    Gen.points_in_tolerance Rounding.exact amb (encCubic c) (.flt flat) = encOptBool (isFlat c flat) := by
  have hp : EncPts IsFlt (encCubic c) [c.p0, c.p1, c.p2, c.p3] :=
    ⟨_, rfl, List.Forall₂.cons ⟨_, _, rfl, rfl, rfl⟩ (List.Forall₂.cons ⟨_, _, rfl, rfl, rfl⟩
      (List.Forall₂.cons ⟨_, _, rfl, rfl, rfl⟩ (List.Forall₂.cons ⟨_, _, rfl, rfl, rfl⟩ List.Forall₂.nil)))⟩
  exact points_in_tolerance_bridge enc_isFlt amb _ flat _ _ hp rfl

abbrev K2 := Val → Val → Val → Val → Val → Val → Loop (Val × Val × Val × Val × Val × Val)

section inner
variable (amb : Nat) (sp : List Node) (flat : Rat) (k : K2) (j0 j1 j2 j3 j4 : Val) (i : Nat)

theorem body2_ret (h : i ≥ sp.length) :
    Gen.subdivideCubicPath_body2 Rounding.exact amb (encNodes sp) (.flt flat) k j0 j1 j2 j3 j4 (.int (i : Int))
      = .ret (.tup [.none_, encNodes sp]) := by
  unfold Gen.subdivideCubicPath_body2
  simp only [len_nodes, ge_nat, h, decide_true, if_true]

theorem body2_piece (h1 : 1 ≤ i) (hi : ¬ i ≥ sp.length) (a b : Node) (ha : sp[i - 1]? = some a) (hb : sp[i]? = some b) :
    Gen.subdivideCubicPath_body2 Rounding.exact amb (encNodes sp) (.flt flat) k j0 j1 j2 j3 j4 (.int (i : Int)) =
      if (!(Py.truthy (encOptBool (isFlat (pieceOf a b) flat)))) = true then
        .done (encPt a.p, encPt a.hout, encPt b.hin, encPt b.p, encCubic (pieceOf a b), .int (i : Int))
      else k (encPt a.p) (encPt a.hout) (encPt b.hin) (encPt b.p) (encCubic (pieceOf a b)) (.int ((i + 1 : Nat) : Int)) := by
  unfold Gen.subdivideCubicPath_body2
  simp only [len_nodes, ge_nat, hi, decide_false, Bool.false_eq_true, if_false, sub_one amb i h1,
    index_nodes sp (i - 1) a ha, index_nodes sp i b hb, add_one]
  have e : (Val.tup [Py.getItem (encNode a) 1, Py.getItem (encNode a) 2, Py.getItem (encNode b) 0, Py.getItem (encNode b) 1])
      = encCubic (pieceOf a b) := rfl
  simp only [e, pit_cubic]
  rfl

end inner


/-- the node list after one split at piece `i` (the model's step) -/
def splitStep (sp : List Node) (i : Nat) (a b : Node) : List Node :=
  let c := pieceOf a b
  let one := (splitAt c half).1
  let two := (splitAt c half).2
  let sp1 := sp.set (i - 1) { a with hout := one.p1 }
  let sp2 := sp1.set i { b with hin := two.p2 }
  sp2.take i ++ ⟨one.p2, one.p3, two.p1⟩ :: sp2.drop i

theorem subdivide_succ (flat : Rat) (n : Nat) (sp : List Node) (i : Nat) :
    subdivide flat (n + 1) sp i =
      if i ≥ sp.length then some sp else
      match sp[i - 1]?, sp[i]? with
      | some a, some b =>
        match isFlat (pieceOf a b) flat with
        | none => none
        | some true => subdivide flat n sp (i + 1)
        | some false => subdivide flat n (splitStep sp i a b) i
      | _, _ => none := rfl

/-- what the inner `while True` loop of the generated code does, in terms of the model: either the function returns
(no further split), or the loop is left by `break` at the first piece that is not flat -/
theorem inner_loop (amb : Nat) (flat : Rat) : ∀ (n f : Nat) (sp : List Node) (i : Nat) (r : List Node)
    (j0 j1 j2 j3 j4 : Val), n ≤ f → 1 ≤ i → subdivide flat n sp i = some r →
    Gen.subdivideCubicPath_loop2 Rounding.exact amb (encNodes sp) (.flt flat) f j0 j1 j2 j3 j4 (.int (i : Int))
        = .ret (.tup [.none_, encNodes r]) ∨
    ∃ (i' n' : Nat) (a b : Node), 1 ≤ i' ∧ i' < sp.length ∧ n' < n ∧ sp[i' - 1]? = some a ∧ sp[i']? = some b ∧
      subdivide flat n' (splitStep sp i' a b) i' = some r ∧
      Gen.subdivideCubicPath_loop2 Rounding.exact amb (encNodes sp) (.flt flat) f j0 j1 j2 j3 j4 (.int (i : Int))
        = .done (encPt a.p, encPt a.hout, encPt b.hin, encPt b.p, encCubic (pieceOf a b), .int (i' : Int)) := by
  intro n
  induction n with
  | zero => intro f sp i r j0 j1 j2 j3 j4 _ _ h; cases h
  | succ n ih =>
    intro f sp i r j0 j1 j2 j3 j4 hf h1 h
    obtain ⟨f', rfl⟩ : ∃ f', f = f' + 1 := ⟨f - 1, by omega⟩
    rw [Gen.subdivideCubicPath_loop2]
    rw [subdivide_succ] at h
    by_cases hi : i ≥ sp.length
    · rw [if_pos hi] at h
      cases h
      exact Or.inl (body2_ret amb sp flat _ j0 j1 j2 j3 j4 i hi)
    rw [if_neg hi] at h
    have hlt : i < sp.length := by omega
    obtain ⟨a, ha⟩ : ∃ a, sp[i - 1]? = some a := ⟨sp[i - 1], by rw [List.getElem?_eq_getElem (by omega)]⟩
    obtain ⟨b, hb⟩ : ∃ b, sp[i]? = some b := ⟨sp[i], by rw [List.getElem?_eq_getElem hlt]⟩
    rw [ha, hb] at h
    simp only at h
    rw [body2_piece amb sp flat _ j0 j1 j2 j3 j4 i h1 hi a b ha hb]
    cases hfl : isFlat (pieceOf a b) flat with
    | none => rw [hfl] at h; cases h
    | some fl =>
      rw [hfl] at h
      cases fl with
      | true =>
        simp only at h
        simp only [encOptBool, Py.truthy, Bool.not_true, Bool.false_eq_true, if_false]
        rcases ih f' sp (i + 1) r _ _ _ _ _ (by omega) (by omega) h with hr | ⟨i', n', a', b', q1, q2, q3, q4, q5, q6, q7⟩
        · exact Or.inl hr
        · exact Or.inr ⟨i', n', a', b', q1, q2, by omega, q4, q5, q6, q7⟩
      | false =>
        simp only at h
        simp only [encOptBool, Py.truthy, Bool.not_false, if_true]
        exact Or.inr ⟨i, n, a, b, h1, hlt, by omega, ha, hb, h, rfl⟩


abbrev K1 := Val → Val → Val → Val → Val → Val → Val → Val → Val → Val →
  Loop (Val × Val × Val × Val × Val × Val × Val × Val × Val × Val)

/-- the split part of the outer loop body: the two handle stores and the insertion are the model's `splitStep` -/
theorem split_store (amb : Nat) (sp : List Node) (i : Nat) (a b : Node) (h1 : 1 ≤ i) (hi : i < sp.length)
    (ha : sp[i - 1]? = some a) (hb : sp[i]? = some b) :
    let c := pieceOf a b
    let one := encCubic (splitAt c half).1
    let two := encCubic (splitAt c half).2
    let s1 := Py.setItem (encNodes sp) (Py.sub Rounding.exact amb (.int (i : Int)) (.int 1))
      (Py.setItem (Py.index (encNodes sp) (Py.sub Rounding.exact amb (.int (i : Int)) (.int 1))) (.int 2) (Py.getItem one 1))
    let s2 := Py.setItem s1 (.int (i : Int)) (Py.setItem (Py.index s1 (.int (i : Int))) (.int 0) (Py.getItem two 2))
    Py.setSlice s2 (.int (i : Int)) (.int 1) (.tup [.tup [Py.getItem one 2, Py.getItem one 3, Py.getItem two 1]])
      = encNodes (splitStep sp i a b) := by
  intro c one two s1 s2
  have e1 : s1 = encNodes (sp.set (i - 1) { a with hout := (splitAt c half).1.p1 }) := by
    show Py.setItem (encNodes sp) _ _ = _
    rw [sub_one amb i h1, index_nodes sp (i - 1) a ha]
    show Py.setItem (encNodes sp) _ (Py.setItem (encNode a) (.int 2) (encPt (splitAt c half).1.p1)) = _
    rw [setItem_hout, setItem_nodes _ _ _ (by omega)]
  have hb' : (sp.set (i - 1) { a with hout := (splitAt c half).1.p1 })[i]? = some b := by
    rw [List.getElem?_set_ne (by omega)]; exact hb
  have e2 : s2 = encNodes ((sp.set (i - 1) { a with hout := (splitAt c half).1.p1 }).set i { b with hin := (splitAt c half).2.p2 }) := by
    show Py.setItem s1 _ (Py.setItem (Py.index s1 _) _ _) = _
    rw [e1, index_nodes _ i b hb']
    show Py.setItem _ _ (Py.setItem (encNode b) (.int 0) (encPt (splitAt c half).2.p2)) = _
    rw [setItem_hin, setItem_nodes _ _ _ (by simpa using hi)]
  rw [e2]
  show Py.setSlice _ _ _ (.tup [encNode ⟨(splitAt c half).1.p2, (splitAt c half).1.p3, (splitAt c half).2.p1⟩]) = _
  rw [insert_nodes _ i _ h1 (by simpa using hi)]
  rfl

theorem half_lit : Val.flt ((1 : Rat) / 2) = Val.flt half := rfl

/-- the outer loop of the generated code, for every fuel above the model's -/
theorem outer_loop (amb : Nat) (flat : Rat) : ∀ (n F : Nat) (sp : List Node) (i : Nat) (r : List Node)
    (j0 j1 j2 j3 j4 j6 j7 j9 : Val), n ≤ F → 1 ≤ i → subdivide flat n sp i = some r →
    Gen.subdivideCubicPath_loop1 Rounding.exact amb (.flt flat) (F + 1) j0 j1 j2 j3 j4 (.int (i : Int)) j6 j7 (encNodes sp) j9
      = .ret (.tup [.none_, encNodes r]) := by
  intro n
  induction n using Nat.strong_induction_on with
  | _ n ih =>
    intro F sp i r j0 j1 j2 j3 j4 j6 j7 j9 hF h1 h
    rw [Gen.subdivideCubicPath_loop1]
    unfold Gen.subdivideCubicPath_body1
    rcases inner_loop amb flat n F sp i r j0 j1 j2 j3 j4 hF h1 h with hr | ⟨i', n', a, b, q1, q2, q3, q4, q5, q6, q7⟩
    · rw [hr]
    · rw [q7]
      simp only [half_lit, split_bridge, Py.unpackN_tup2, Py.getItem_cons_zero, Py.getItem_cons_succ]
      have hs := split_store amb sp i' a b q1 q2 q4 q5
      simp only at hs
      rw [hs]
      obtain ⟨F', rfl⟩ : ∃ F', F = F' + 1 := ⟨F - 1, by omega⟩
      exact ih n' q3 F' _ i' r _ _ _ _ _ _ _ _ (by omega) q1 q6

/-- **bridge**: whenever the hand model returns `r` with fuel `n`, the regenerated `subdivideCubicPath` (exact
arithmetic, default start index 1) returns `(None, r)` — the node list after the in-place rewrite — for every
fuel above `n` -/
theorem subdivide_bridge (amb : Nat) (n fuel : Nat) (sp r : List Node) (flat : Rat) (hf : n < fuel)
    (h : subdivideCubicPath n sp flat = some r) :
    Gen.subdivideCubicPath Rounding.exact amb fuel (encNodes sp) (.flt flat) (.int 1)
      = .val (.tup [.none_, encNodes r]) := by
  obtain ⟨F, rfl⟩ : ∃ F, fuel = F + 1 := ⟨fuel - 1, by omega⟩
  unfold Gen.subdivideCubicPath
  simp only
  rw [show (Val.int 1) = Val.int ((1 : Nat) : Int) from rfl,
    outer_loop amb flat n F sp 1 r _ _ _ _ _ _ _ _ (by omega) (le_refl _) h]

end C10
end Plotink
