import Plotink.PyIO
/-! Evaluation lemmas for the combinators of `Plotink/PyIO.lean` (core Lean only): how expressions and statements
reduce once their sub-expressions are values.  All by `rfl` (the combinators are plain functions), stated as
equalities of functions so that `simp only` can evaluate a generated expression without a state argument. -/
namespace Plotink
namespace PyIO

theorem bind_ok (v : Val) (f : Val → Eff) : bind (ok v) f = f v := rfl
theorem bind_raise (c : ExcClass) (f : Val → Eff) : bind (raise c) f = raise c := rfl
theorem call1_ok (f : Val → Eff) (v : Val) : call1 f (ok v) = f v := rfl
theorem call2_ok (f : Val → Val → Eff) (a b : Val) : call2 f (ok a) (ok b) = f a b := rfl
theorem call2_ok_left (f : Val → Val → Eff) (a : Val) (b : Eff) : call2 f (ok a) b = bind b (fun y => f a y) := rfl
theorem call1_raise (f : Val → Eff) (c : ExcClass) : call1 f (raise c) = raise c := rfl
theorem and_ok (v : Val) (b : Eff) : and_ (ok v) b = if truthy v then b else ok v := rfl
theorem or_ok (v : Val) (b : Eff) : or_ (ok v) b = if truthy v then ok v else b := rfl
theorem not_ok (v : Val) : not_ (ok v) = ok (.bool (!truthy v)) := rfl

theorem load_of_bound {v : Val} (h : v ≠ .unbound) : load v = ok v := by
  cases v <;> first | rfl | exact absurd rfl h

theorem load_str (s : List Char) : load (.str s) = ok (.str s) := rfl
theorem load_bytes (s : List Char) : load (.bytes s) = ok (.bytes s) := rfl
theorem load_int (n : Int) : load (.int n) = ok (.int n) := rfl
theorem load_exc (c : ExcClass) : load (.exc c) = ok (.exc c) := rfl
theorem load_unbound : load .unbound = raise .unboundLocalError := rfl

theorem mkList_nil : mkList [] = ok (.list []) := rfl
theorem mkList_cons_ok (v : Val) (r : List Eff) (l : List Val) (h : mkList r = ok (.list l)) :
    mkList (ok v :: r) = ok (.list (v :: l)) := by
  show bind (ok v) _ = _
  rw [bind_ok, h]; rfl

theorem logCall_nil : logCall [] = ok .none := rfl
theorem logCall_cons_ok (v : Val) (r : List Eff) : logCall (ok v :: r) = logCall r := rfl

section
variable {σ : Type}

theorem block_cons2 (a b : Stmt σ) (r : List (Stmt σ)) : block (a :: b :: r) = seq a (block (b :: r)) := rfl
theorem block_one (a : Stmt σ) : block [a] = a := rfl

theorem seq_norm {a b : Stmt σ} {fuel : Nat} {env env' : σ} {st st' : Port} (h : a fuel env st = .norm env' st') :
    seq a b fuel env st = b fuel env' st' := by
  simp only [seq, h]
theorem seq_exc {a b : Stmt σ} {fuel : Nat} {env env' : σ} {st st' : Port} {c : ExcClass}
    (h : a fuel env st = .exc c env' st') : seq a b fuel env st = .exc c env' st' := by
  simp only [seq, h]
theorem seq_ret {a b : Stmt σ} {fuel : Nat} {env : σ} {st st' : Port} {v : Val}
    (h : a fuel env st = .ret v st') : seq a b fuel env st = .ret v st' := by
  simp only [seq, h]

theorem assign_ok {set : σ → Val → σ} {e : σ → Eff} {env : σ} {v : Val} (h : e env = ok v) (fuel : Nat) (st : Port) :
    assign set e fuel env st = .norm (set env v) st := by
  simp only [assign, h, ok]
theorem expr_ok {e : σ → Eff} {env : σ} {v : Val} (h : e env = ok v) (fuel : Nat) (st : Port) :
    expr e fuel env st = .norm env st := by
  simp only [expr, h, ok]
theorem return_ok {e : σ → Eff} {env : σ} {v : Val} (h : e env = ok v) (fuel : Nat) (st : Port) :
    return_ e fuel env st = .ret v st := by
  simp only [return_, h, ok]
theorem ifte_ok {c : σ → Eff} {a b : Stmt σ} {env : σ} {v : Val} (h : c env = ok v) (fuel : Nat) (st : Port) :
    ifte c a b fuel env st = if truthy v then a fuel env st else b fuel env st := by
  simp only [ifte, h, ok]
theorem pass_eq (fuel : Nat) (env : σ) (st : Port) : (pass : Stmt σ) fuel env st = .norm env st := rfl

end

/-! the exception hierarchy, decided -/
theorem isSub_refl (c : ExcClass) : c.isSub c = true := by cases c <;> rfl

end PyIO
end Plotink
