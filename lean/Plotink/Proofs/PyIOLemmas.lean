import Plotink.PyIO
import Plotink.PyObj
/-! Evaluation lemmas for the combinators of `Plotink/PyIO.lean` (core Lean only): how expressions and statements
reduce once their sub-expressions are values.  All by `rfl` (the combinators are plain functions), stated as
equalities of functions so that `simp only` can evaluate a generated expression without a state argument. -/
namespace Plotink
namespace PyIO

theorem bind_ok (v : Val) (f : Val → Eff) : bind (ok v) f = f v := rfl
theorem bind_raise (c : ExcClass) (f : Val → Eff) : bind (raise c) f = raise c := rfl
theorem call1_ok (f : Val → Eff) (v : Val) : call1 f (ok v) = f v := rfl
theorem call2_ok (f : Val → Val → Eff) (a b : Val) : call2 f (ok a) (ok b) = f a b := rfl
theorem call2_ok_left (f : Val → Val → Eff) (a : Val) (b : Eff) : call2 f (ok a) b = bind b (fun y => f a y) := rfl
theorem call1_raise (f : Val → Eff) (c : ExcClass) : call1 f (raise c) = raise c := rfl
theorem and_ok (v : Val) (b : Eff) : and_ (ok v) b = if truthy v then b else ok v := rfl
theorem or_ok (v : Val) (b : Eff) : or_ (ok v) b = if truthy v then ok v else b := rfl
theorem not_ok (v : Val) : not_ (ok v) = ok (.bool (!truthy v)) := rfl

theorem load_of_bound {v : Val} (h : v ≠ .unbound) : load v = ok v := by
  cases v <;> first | rfl | exact absurd rfl h

theorem load_str (s : List Char) : load (.str s) = ok (.str s) := rfl
theorem load_bytes (s : List Char) : load (.bytes s) = ok (.bytes s) := rfl
theorem load_int (n : Int) : load (.int n) = ok (.int n) := rfl
theorem load_exc (c : ExcClass) : load (.exc c) = ok (.exc c) := rfl
theorem load_unbound : load .unbound = raise .unboundLocalError := rfl

theorem mkList_nil : mkList [] = ok (.list []) := rfl
theorem mkList_cons_ok (v : Val) (r : List Eff) (l : List Val) (h : mkList r = ok (.list l)) :
    mkList (ok v :: r) = ok (.list (v :: l)) := by
  show bind (ok v) _ = _
  rw [bind_ok, h]; rfl

theorem logCall_nil : logCall [] = ok .none := rfl
theorem logCall_cons_ok (v : Val) (r : List Eff) : logCall (ok v :: r) = logCall r := rfl

section
variable {σ : Type}

theorem block_cons2 (a b : Stmt σ) (r : List (Stmt σ)) : block (a :: b :: r) = seq a (block (b :: r)) := rfl
theorem block_one (a : Stmt σ) : block [a] = a := rfl

theorem seq_norm {a b : Stmt σ} {fuel : Nat} {env env' : σ} {st st' : Port} (h : a fuel env st = .norm env' st') :
    seq a b fuel env st = b fuel env' st' := by
  simp only [seq, h]
theorem seq_exc {a b : Stmt σ} {fuel : Nat} {env env' : σ} {st st' : Port} {c : ExcClass}
    (h : a fuel env st = .exc c env' st') : seq a b fuel env st = .exc c env' st' := by
  simp only [seq, h]
theorem seq_ret {a b : Stmt σ} {fuel : Nat} {env : σ} {st st' : Port} {v : Val}
    (h : a fuel env st = .ret v st') : seq a b fuel env st = .ret v st' := by
  simp only [seq, h]

theorem assign_ok {set : σ → Val → σ} {e : σ → Eff} {env : σ} {v : Val} (h : e env = ok v) (fuel : Nat) (st : Port) :
    assign set e fuel env st = .norm (set env v) st := by
  simp only [assign, h, ok]
theorem expr_ok {e : σ → Eff} {env : σ} {v : Val} (h : e env = ok v) (fuel : Nat) (st : Port) :
    expr e fuel env st = .norm env st := by
  simp only [expr, h, ok]
theorem return_ok {e : σ → Eff} {env : σ} {v : Val} (h : e env = ok v) (fuel : Nat) (st : Port) :
    return_ e fuel env st = .ret v st := by
  simp only [return_, h, ok]
theorem ifte_ok {c : σ → Eff} {a b : Stmt σ} {env : σ} {v : Val} (h : c env = ok v) (fuel : Nat) (st : Port) :
    ifte c a b fuel env st = if truthy v then a fuel env st else b fuel env st := by
  simp only [ifte, h, ok]
theorem pass_eq (fuel : Nat) (env : σ) (st : Port) : (pass : Stmt σ) fuel env st = .norm env st := rfl

end

/-! the exception hierarchy, decided -/
theorem isSub_refl (c : ExcClass) : c.isSub c = true := by cases c <;> rfl

end PyIO
end Plotink

/-! # the object layer (`Plotink/PyObj.lean`)

Same style: equalities of functions, all by `rfl`, so that `simp only [...]` evaluates a generated expression on values
without a world argument; plus application-level lemmas for the pieces that read the world (`getattr`, method calls)
and for statements. -/
namespace Plotink
namespace PyObj

section
variable {ω σ : Type}

theorem bind_ok (v : Val) (f : Val → Eff ω) : bind (ok v) f = f v := rfl
theorem bind_raise (c : PyIO.ExcClass) (f : Val → Eff ω) : bind (raise c : Eff ω) f = raise c := rfl
theorem ofP_ok (v : Val) : (ofP (.ok v) : Eff ω) = ok v := rfl
theorem ofP_error (c : PyIO.ExcClass) : (ofP (.error c) : Eff ω) = raise c := rfl
theorem app1_ok (f : Val → P) (v : Val) : (app1 f (ok v) : Eff ω) = ofP (f v) := rfl
theorem app2_ok (f : Val → Val → P) (a b : Val) : (app2 f (ok a) (ok b) : Eff ω) = ofP (f a b) := rfl
theorem app3_ok (f : Val → Val → Val → P) (a b c : Val) : (app3 f (ok a) (ok b) (ok c) : Eff ω) = ofP (f a b c) := rfl
theorem app2_ok_left (f : Val → Val → P) (a : Val) (b : Eff ω) : app2 f (ok a) b = bind b (fun y => ofP (f a y)) := rfl
theorem app1_raise (f : Val → P) (c : PyIO.ExcClass) : (app1 f (raise c) : Eff ω) = raise c := rfl
theorem eff1_ok (f : Val → Eff ω) (v : Val) : eff1 f (ok v) = f v := rfl
theorem eff2_ok (f : Val → Val → Eff ω) (a b : Val) : eff2 f (ok a) (ok b) = f a b := rfl
theorem and_ok (v : Val) (b : Eff ω) : and_ (ok v) b = if truthy v then b else ok v := rfl
theorem or_ok (v : Val) (b : Eff ω) : or_ (ok v) b = if truthy v then ok v else b := rfl
theorem not_ok (v : Val) : (not_ (ok v) : Eff ω) = ok (.bool (!truthy v)) := rfl

theorem load_of_bound {v : Val} (h : v ≠ .unbound) : (load v : Eff ω) = ok v := by
  cases v <;> first | rfl | exact absurd rfl h
theorem load_str (s : Str) : (load (.str s) : Eff ω) = ok (.str s) := rfl
theorem load_int (n : Int) : (load (.int n) : Eff ω) = ok (.int n) := rfl
theorem load_none : (load .none : Eff ω) = ok .none := rfl
theorem load_bool (b : Bool) : (load (.bool b) : Eff ω) = ok (.bool b) := rfl
theorem load_unbound : (load .unbound : Eff ω) = raise .unboundLocalError := rfl

theorem evalList_nil (k : List Val → Eff ω) : evalList [] k = k [] := rfl
theorem evalList_cons_ok (v : Val) (r : List (Eff ω)) (k : List Val → Eff ω) :
    evalList (ok v :: r) k = evalList r (fun xs => k (v :: xs)) := rfl

/-- `self.attr` when the attribute holds a value: the world is not touched -/
theorem getattr_apply {get : ω → Val} {w : World ω} (h : get w.obj ≠ .unbound) :
    getattr get w = (.ok (get w.obj), w) := by
  unfold getattr
  cases hg : get w.obj <;> first | rfl | exact absurd hg h

theorem bind_apply_ok {m : Eff ω} {f : Val → Eff ω} {w w' : World ω} {v : Val} (h : m w = (.ok v, w')) :
    bind m f w = f v w' := by
  simp only [bind, h]
theorem bind_apply_exc {m : Eff ω} {f : Val → Eff ω} {w w' : World ω} {c : PyIO.ExcClass} (h : m w = (.exc c, w')) :
    bind m f w = (.exc c, w') := by
  simp only [bind, h]

theorem ok_apply (v : Val) (w : World ω) : (ok v : Eff ω) w = (.ok v, w) := rfl
theorem raise_apply (c : PyIO.ExcClass) (w : World ω) : (raise c : Eff ω) w = (.exc c, w) := rfl

/-- a call of another generated method -/
theorem mcall0_apply (f : World ω → Out ω) (w : World ω) : mcall0 f w = ofOut (f w) (.fuelOut, w) := rfl
theorem mcall1_ok_apply (f : Val → World ω → Out ω) (a : Val) (w : World ω) :
    mcall1 f (ok a) w = ofOut (f a w) (.fuelOut, w) := rfl
theorem mcall2_ok_apply (f : Val → Val → World ω → Out ω) (a b : Val) (w : World ω) :
    mcall2 f (ok a) (ok b) w = ofOut (f a b w) (.fuelOut, w) := rfl
theorem ofOut_val (v : Val) (w : World ω) (r : Res × World ω) : ofOut (.val v w) r = (.ok v, w) := rfl
theorem ofOut_exc (c : PyIO.ExcClass) (w : World ω) (r : Res × World ω) : ofOut (.exc c w) r = (.exc c, w) := rfl

theorem block_cons2 (a b : Stmt ω σ) (r : List (Stmt ω σ)) : block (a :: b :: r) = seq a (block (b :: r)) := rfl
theorem block_one (a : Stmt ω σ) : block [a] = a := rfl

theorem seq_norm {a b : Stmt ω σ} {fuel : Nat} {env env' : σ} {w w' : World ω} (h : a fuel env w = .norm env' w') :
    seq a b fuel env w = b fuel env' w' := by
  simp only [seq, h]
theorem seq_exc {a b : Stmt ω σ} {fuel : Nat} {env env' : σ} {w w' : World ω} {c : PyIO.ExcClass}
    (h : a fuel env w = .exc c env' w') : seq a b fuel env w = .exc c env' w' := by
  simp only [seq, h]
theorem seq_ret {a b : Stmt ω σ} {fuel : Nat} {env : σ} {w w' : World ω} {v : Val}
    (h : a fuel env w = .ret v w') : seq a b fuel env w = .ret v w' := by
  simp only [seq, h]

theorem assign_of {set : σ → Val → σ} {e : Expr ω σ} {fuel : Nat} {env : σ} {w w' : World ω} {v : Val}
    (h : e fuel env w = (.ok v, w')) : assign set e fuel env w = .norm (set env v) w' := by
  simp only [assign, h]
theorem assign_exc {set : σ → Val → σ} {e : Expr ω σ} {fuel : Nat} {env : σ} {w w' : World ω} {c : PyIO.ExcClass}
    (h : e fuel env w = (.exc c, w')) : assign set e fuel env w = .exc c env w' := by
  simp only [assign, h]
theorem setattr_of {set : ω → Val → ω} {e : Expr ω σ} {fuel : Nat} {env : σ} {w w' : World ω} {v : Val}
    (h : e fuel env w = (.ok v, w')) : setattr set e fuel env w = .norm env { w' with obj := set w'.obj v } := by
  simp only [setattr, h]
theorem expr_of {e : Expr ω σ} {fuel : Nat} {env : σ} {w w' : World ω} {v : Val}
    (h : e fuel env w = (.ok v, w')) : expr e fuel env w = .norm env w' := by
  simp only [expr, h]
theorem expr_exc {e : Expr ω σ} {fuel : Nat} {env : σ} {w w' : World ω} {c : PyIO.ExcClass}
    (h : e fuel env w = (.exc c, w')) : expr e fuel env w = .exc c env w' := by
  simp only [expr, h]
theorem return_of {e : Expr ω σ} {fuel : Nat} {env : σ} {w w' : World ω} {v : Val}
    (h : e fuel env w = (.ok v, w')) : return_ e fuel env w = .ret v w' := by
  simp only [return_, h]
theorem ifte_of {c : Expr ω σ} {a b : Stmt ω σ} {fuel : Nat} {env : σ} {w w' : World ω} {v : Val}
    (h : c fuel env w = (.ok v, w')) :
    ifte c a b fuel env w = if truthy v then a fuel env w' else b fuel env w' := by
  simp only [ifte, h]
theorem pass_eq (fuel : Nat) (env : σ) (w : World ω) : (pass : Stmt ω σ) fuel env w = .norm env w := rfl

theorem truthy_str (s : Str) : truthy (.str s) = !s.isEmpty := rfl
theorem truthy_bool (b : Bool) : truthy (.bool b) = b := rfl

end

end PyObj
end Plotink
