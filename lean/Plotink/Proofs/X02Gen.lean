import Plotink.Gen.ebb_serial_testPort
import Plotink.Gen.ebb_serial_openPort
import Plotink.Gen.ebb_serial_open_named_port
import Plotink.Proofs.PyIOLemmas
import Plotink.Proofs.LegacyGen
import Plotink.Proofs.C19Gen2
/-! # X02 (supplementary) — opening a port in the legacy layer: `ebb_serial.testPort`, `openPort`, `open_named_port`

The three functions are regenerated from plotink/ebb_serial.py by the I/O translator on every run.  `testPortSpec` is a
statement-level specification (two `v` probes over the read/write script); `testPort_eq` proves the regenerated code equal
to it for every script and every port name, by case analysis over the first two scripted writes and reads. -/
set_option linter.unusedSimpArgs false
set_option linter.unusedVariables false
namespace Plotink
namespace X02
open PyObj Gen LegacyGen C19Gen

def vProbe : List Char := ['v', '\r']

/-- one identification probe: write `v\r`, then read one line -/
def probe (w : World NoObj) : Res × World NoObj :=
  match meth_write .port (.bytes vProbe) w with
  | (.ok _, w1) => meth_readline .port w1
  | r => r

/-- `str_version and str_version.startswith(b"EBB")` -/
def isEBB : Val → Bool
  | .bytes b => !b.isEmpty && Ebb3.startsWith ['E', 'B', 'B'] b
  | _ => false

/-- `except serial.SerialException`: the subclasses are swallowed (→ `None`), everything else escapes -/
def fin (c : PyIO.ExcClass) (w : World NoObj) : Out NoObj :=
  if PyIO.catches [.serialException] c then .val .none w else .exc c w

/-- statement-level specification of `ebb_serial.testPort(port_name)` for `port_name` a `str` or `None` -/
def testPortSpec (name : Val) (w : World NoObj) : Out NoObj :=
  match name with
  | .none => .val .none w
  | _ =>
    if !w.ext.openOk then .val .none w else
    match probe w with
    | (.exc c, w1) => fin c w1
    | (.fuelOut, _) => .fuelOut
    | (.ok v1, w1) =>
      if isEBB v1 then .val .port w1 else
      match probe w1 with
      | (.exc c, w2) => fin c w2
      | (.fuelOut, _) => .fuelOut
      | (.ok v2, w2) => if isEBB v2 then .val .port w2 else .val .none w2

@[simp] theorem isEBB_nil : isEBB (.bytes []) = false := rfl

theorem handler_eq (fuel : Nat) (n : List Char) (sp sv : Val) (c : PyIO.ExcClass) (w : World NoObj) :
    dispatch ebb_serial_testPort_handlers1 c fuel ⟨.str n, sp, sv, .unbound⟩ w
      = if PyIO.catches [.serialException] c then .norm ⟨.str n, sp, sv, .unbound⟩ w
        else .exc c ⟨.str n, sp, sv, .unbound⟩ w := by
  simp [dispatch, ebb_serial_testPort_handlers1, Handler.matches, runHandler, block, seq, expr, dropCall, evalList,
    format_, renderFmt, ok, load, PyObj.bind]
  split <;> simp [*]

theorem if2_eq (fuel : Nat) (n sv : List Char) (w : World NoObj) :
    ebb_serial_testPort_if2 fuel ⟨.str n, .port, .bytes sv, .unbound⟩ w
      = if isEBB (.bytes sv) then .ret .port w else .norm ⟨.str n, .port, .bytes sv, .unbound⟩ w := by
  unfold ebb_serial_testPort_if2
  cases sv with
  | nil => simp [ifte, and_, load, ok, PyObj.bind, truthy, isEBB, return_, pass]
  | cons c cs =>
    cases h : Ebb3.startsWith ['E', 'B', 'B'] (c :: cs) <;>
      simp [ifte, and_, load, ok, PyObj.bind, truthy, isEBB, return_, app2, meth_encode, meth_startswith, ofP,
        PyIO.isAscii, h, pass]

theorem if3_eq (fuel : Nat) (n sv : List Char) (w : World NoObj) :
    ebb_serial_testPort_if3 fuel ⟨.str n, .port, .bytes sv, .unbound⟩ w
      = if isEBB (.bytes sv) then .ret .port w else .norm ⟨.str n, .port, .bytes sv, .unbound⟩ w := by
  unfold ebb_serial_testPort_if3
  cases sv with
  | nil => simp [ifte, and_, load, ok, PyObj.bind, truthy, isEBB, return_, pass]
  | cons c cs =>
    cases h : Ebb3.startsWith ['E', 'B', 'B'] (c :: cs) <;>
      simp [ifte, and_, load, ok, PyObj.bind, truthy, isEBB, return_, app2, meth_encode, meth_startswith, ofP,
        PyIO.isAscii, h, pass]

set_option maxHeartbeats 4000000 in
theorem testPort_eq (fuel : Nat) (n : List Char) (w : World NoObj) :
    ebb_serial_testPort fuel (.str n) w = testPortSpec (.str n) w := by
  obtain ⟨obj, ⟨reads, writes, log, nread⟩, ⟨comports, findNamed, openOk⟩⟩ := w
  unfold ebb_serial_testPort run ebb_serial_testPort_main ebb_serial_testPort_if1 testPortSpec
  cases openOk
  · simp [block, seq, ifte, app1, PyObj.bind, ok, op_is_not_none, ofP, truthy, tryExcept, ebb_serial_testPort_try1, assign,
      eff1, ext_serial_open, handler_eq, return_, PyIO.catches, isNone, PyIO.isSub_refl]
  · rcases writes with _ | ⟨_ | c1, _ | ⟨_ | c2, writes⟩⟩ <;>
    rcases reads with _ | ⟨b1 | _ | d1, _ | ⟨b2 | _ | d2, reads⟩⟩
    all_goals (try (cases h1 : isEBB (.bytes b1)))
    all_goals (try (cases h2 : isEBB (.bytes b2)))
    all_goals (try (cases k1 : PyIO.catches [PyIO.ExcClass.serialException] c1))
    all_goals (try (cases k2 : PyIO.catches [PyIO.ExcClass.serialException] c2))
    all_goals (try (cases k3 : PyIO.catches [PyIO.ExcClass.serialException] d1))
    all_goals (try (cases k4 : PyIO.catches [PyIO.ExcClass.serialException] d2))
    all_goals
      simp [block, seq, ifte, app1, app2, PyObj.bind, ok, op_is_not_none, ofP, truthy, tryExcept, ebb_serial_testPort_try1,
        assign, eff1, eff2, ext_serial_open, handler_eq, return_, isNone, expr, load, meth_reset_input_buffer,
        meth_write, meth_readline, meth_encode, PyIO.isAscii, probe, vProbe, fin, if2_eq, if3_eq, pass, meth_close, isEBB_nil, *]

theorem testPort_none (fuel : Nat) (w : World NoObj) : ebb_serial_testPort fuel .none w = testPortSpec .none w := rfl

/-- `testPort` on what a discovery function returned (`str` or `None`) -/
theorem testPort_opt (fuel : Nat) (o : Option (List Char)) (w : World NoObj) :
    ebb_serial_testPort fuel (encOptStr o) w = testPortSpec (encOptStr o) w := by
  cases o with
  | none => exact testPort_none fuel w
  | some n => exact testPort_eq fuel n w

/-- the specification answers with the opened port, with `None`, or lets an exception escape — nothing else -/
theorem spec_forms (name : Val) (w : World NoObj) :
    (∃ w', testPortSpec name w = .val .port w') ∨ (∃ w', testPortSpec name w = .val .none w') ∨
      (∃ c w', testPortSpec name w = .exc c w' ∧ PyIO.catches [.serialException] c = false) := by
  have hfin : ∀ c (w' : World NoObj), (∃ w'', fin c w' = .val .none w'') ∨
      (∃ c' w'', fin c w' = .exc c' w'' ∧ PyIO.catches [.serialException] c' = false) := by
    intro c w'
    unfold fin
    cases h : PyIO.catches [.serialException] c
    · exact Or.inr ⟨c, w', by simp, h⟩
    · exact Or.inl ⟨w', by simp⟩
  have hprobe : ∀ w0 : World NoObj, (probe w0).1 ≠ .fuelOut := by
    intro w0
    obtain ⟨obj, ⟨reads, writes, log, nread⟩, ext⟩ := w0
    rcases writes with _ | ⟨_ | c1, writes⟩ <;> rcases reads with _ | ⟨b1 | _ | d1, reads⟩ <;>
      simp [probe, meth_write, meth_readline]
  unfold testPortSpec
  split
  · exact Or.inr (Or.inl ⟨w, rfl⟩)
  · split
    · exact Or.inr (Or.inl ⟨w, rfl⟩)
    · split
      · rename_i c w1 _
        rcases hfin c w1 with h | h
        · exact Or.inr (Or.inl h)
        · exact Or.inr (Or.inr h)
      · rename_i w1 h
        exact absurd (by rw [h]) (hprobe w)
      · rename_i v1 w1 _
        split
        · exact Or.inl ⟨w1, rfl⟩
        · split
          · rename_i c w2 _
            rcases hfin c w2 with h | h
            · exact Or.inr (Or.inl h)
            · exact Or.inr (Or.inr h)
          · rename_i w2 h
            exact absurd (by rw [h]) (hprobe w1)
          · rename_i v2 w2 _
            split
            · exact Or.inl ⟨w2, rfl⟩
            · exact Or.inr (Or.inl ⟨w2, rfl⟩)

/-- `openPort()` = `testPort(findPort())`: the `if serial_port:` test passes exactly the opened port through -/
theorem openPort_eq (fuel : Nat) (ports : List C19.Port) (w : World NoObj)
    (hc : w.ext.comports = .ok (.list (ports.map encPort))) :
    ebb_serial_openPort fuel w = testPortSpec (encOptStr (C19.Legacy.findFirst ports)) w := by
  unfold ebb_serial_openPort ebb_serial_openPort_main ebb_serial_openPort_if1
  have hf := findPort_bridge fuel ports w hc
  have ht := testPort_opt fuel (C19.Legacy.findFirst ports) w
  generalize C19.Legacy.findFirst ports = o at hf ht ⊢
  rcases spec_forms (encOptStr o) w with ⟨w', h⟩ | ⟨w', h⟩ | ⟨c, w', h, _⟩ <;>
    (rw [h] at ht ⊢
     cases o <;>
     simp [encOptStr] at hf ht ⊢ <;>
     simp [PyObj.run, block, seq, assign, mcall0, mcall1, hf, ofOut, PyObj.bind, load, ok, ht, ifte, truthy, return_, pass])

/-- `open_named_port(name)` = `testPort(find_named_ebb(name))` -/
theorem open_named_port_eq (fuel : Nat) (key : Option C19.Str) (ports : List C19.Port) (w : World NoObj)
    (hc : w.ext.comports = .ok (.list (ports.map encPort))) :
    ebb_serial_open_named_port fuel (encOptStr key) w
      = testPortSpec (encOptStr (C19.Legacy.findNamed key ports)) w := by
  unfold ebb_serial_open_named_port ebb_serial_open_named_port_main ebb_serial_open_named_port_if1
  have hf := find_named_ebb_bridge fuel key ports w hc
  have ht := testPort_opt fuel (C19.Legacy.findNamed key ports) w
  generalize C19.Legacy.findNamed key ports = o at hf ht ⊢
  rcases spec_forms (encOptStr o) w with ⟨w', h⟩ | ⟨w', h⟩ | ⟨c, w', h, _⟩ <;>
    (rw [h] at ht ⊢
     cases o <;>
     simp [encOptStr] at hf ht ⊢ <;>
     simp [PyObj.run, block, seq, assign, mcall0, mcall1, hf, ofOut, PyObj.bind, load, ok, ht, ifte, truthy, return_, pass])

end X02
end Plotink

namespace Plotink
namespace X02
open PyObj Gen LegacyGen C19Gen

/-- a probe appends exactly one `v\r` to the write log, whatever its outcome, and leaves `ext` alone -/
theorem probe_log (w : World NoObj) :
    (probe w).2.port.log = w.port.log ++ [vProbe] ∧ (probe w).2.ext = w.ext := by
  obtain ⟨obj, ⟨reads, writes, log, nread⟩, ext⟩ := w
  rcases writes with _ | ⟨_ | c1, writes⟩ <;> rcases reads with _ | ⟨b1 | _ | d1, reads⟩ <;>
    simp [probe, meth_write, meth_readline]

/-- world reached by an `Out` -/
def outWorld : Out NoObj → Option (World NoObj)
  | .val _ w => some w
  | .exc _ w => some w
  | .fuelOut => Option.none

theorem fin_world (c : PyIO.ExcClass) (w : World NoObj) : outWorld (fin c w) = some w := by
  unfold fin; split <;> rfl

/-- whatever happens, `testPort` has written nothing but at most two `v\r` probes -/
theorem spec_log (name : Val) (w : World NoObj) :
    ∃ w' k, outWorld (testPortSpec name w) = some w' ∧ k ≤ 2 ∧ w'.port.log = w.port.log ++ List.replicate k vProbe := by
  have hprobe : ∀ w0 : World NoObj, (probe w0).1 ≠ .fuelOut := by
    intro w0
    obtain ⟨obj, ⟨reads, writes, log, nread⟩, ext⟩ := w0
    rcases writes with _ | ⟨_ | c1, writes⟩ <;> rcases reads with _ | ⟨b1 | _ | d1, reads⟩ <;>
      simp [probe, meth_write, meth_readline]
  unfold testPortSpec
  split
  · exact ⟨w, 0, rfl, by omega, by simp⟩
  · split
    · exact ⟨w, 0, rfl, by omega, by simp⟩
    · have l1 := (probe_log w).1
      split
      · rename_i c w1 h
        rw [h] at l1
        exact ⟨w1, 1, fin_world c w1, by omega, by simpa using l1⟩
      · rename_i w1 h
        exact absurd (by rw [h]) (hprobe w)
      · rename_i v1 w1 h
        rw [h] at l1
        split
        · exact ⟨w1, 1, rfl, by omega, by simpa using l1⟩
        · have l2 := (probe_log w1).1
          split
          · rename_i c w2 h2
            rw [h2] at l2
            exact ⟨w2, 2, fin_world c w2, by omega, by simp at l1 l2; simp [l2, l1, List.replicate]⟩
          · rename_i w2 h2
            exact absurd (by rw [h2]) (hprobe w1)
          · rename_i v2 w2 h2
            rw [h2] at l2
            split
            · exact ⟨w2, 2, rfl, by omega, by simp at l1 l2; simp [l2, l1, List.replicate]⟩
            · exact ⟨w2, 2, rfl, by omega, by simp at l1 l2; simp [l2, l1, List.replicate]⟩

/-- the port is returned only after a probe was answered with a line beginning `EBB` -/
theorem spec_port (name : Val) (w w' : World NoObj) (h : testPortSpec name w = .val .port w') :
    w.ext.openOk = true ∧
    ((∃ v1, probe w = (.ok v1, w') ∧ isEBB v1 = true) ∨
     (∃ v1 w1 v2, probe w = (.ok v1, w1) ∧ isEBB v1 = false ∧ probe w1 = (.ok v2, w') ∧ isEBB v2 = true)) := by
  unfold testPortSpec at h
  split at h
  · cases h
  · split at h
    · cases h
    · rename_i hop
      have hop' : w.ext.openOk = true := by simpa using hop
      refine ⟨hop', ?_⟩
      split at h
      · rename_i c w1 _
        unfold fin at h; split at h <;> cases h
      · cases h
      · rename_i v1 w1 hp1
        split at h
        · rename_i he
          cases h
          exact Or.inl ⟨v1, hp1, he⟩
        · rename_i he
          split at h
          · rename_i c w2 _
            unfold fin at h; split at h <;> cases h
          · cases h
          · rename_i v2 w2 hp2
            split at h
            · rename_i he2
              cases h
              exact Or.inr ⟨v1, w1, v2, hp1, by simpa using he, hp2, he2⟩
            · cases h

end X02
end Plotink
