import Plotink.Model.C03
import Mathlib.Tactic.Linarith
import Mathlib.Tactic.Ring
import Mathlib.Tactic.NormNum
import Mathlib.Tactic.Positivity
/-! # C03 — layer 3: ceiling division, integer square roots, and the ceiled roots of the quadratic -/
namespace Plotink
namespace C03

theorem cdiv_le_iff (x y n : Int) (hy : 0 < y) : cdiv x y ≤ n ↔ x ≤ y * n := by
  unfold cdiv
  constructor
  · intro h
    have h1 : -n ≤ (-x) / y := by omega
    have h2 := (Int.le_ediv_iff_mul_le hy).mp h1
    nlinarith
  · intro h
    have h2 : (-n) * y ≤ -x := by nlinarith
    have h1 := (Int.le_ediv_iff_mul_le hy).mpr h2
    omega

theorem lt_cdiv_iff (x y n : Int) (hy : 0 < y) : n < cdiv x y ↔ y * n < x := by
  have := cdiv_le_iff x y n hy
  constructor
  · intro h; by_contra hc; exact absurd (this.mpr (not_lt.mp hc)) (not_le.mpr h)
  · intro h; by_contra hc; exact absurd (this.mp (not_lt.mp hc)) (not_le.mpr h)

private theorem fsqrt_bounds (d : Int) (hd : 0 ≤ d) :
    0 ≤ fsqrt d ∧ fsqrt d * fsqrt d ≤ d ∧ d < (fsqrt d + 1) * (fsqrt d + 1) := by
  unfold fsqrt
  have hc : ((d.toNat : Nat) : Int) = d := Int.toNat_of_nonneg hd
  have h1 : (Nat.sqrt d.toNat : Int) * (Nat.sqrt d.toNat : Int) ≤ (d.toNat : Int) := by
    exact_mod_cast Nat.sqrt_le d.toNat
  have h2 : ((d.toNat : Nat) : Int) < ((Nat.sqrt d.toNat : Int) + 1) * ((Nat.sqrt d.toNat : Int) + 1) := by
    exact_mod_cast Nat.lt_succ_sqrt d.toNat
  rw [hc] at h1 h2
  exact ⟨Int.natCast_nonneg _, h1, h2⟩

/-- `m ≤ ⌊√d⌋ ↔ m ≤ 0 ∨ m² ≤ d` -/
theorem fsqrt_spec (d : Int) (hd : 0 ≤ d) (m : Int) : m ≤ fsqrt d ↔ (m ≤ 0 ∨ m * m ≤ d) := by
  obtain ⟨h0, h1, h2⟩ := fsqrt_bounds d hd
  constructor
  · intro h
    by_cases hm : m ≤ 0
    · left; exact hm
    · right; nlinarith
  · rintro (h | h)
    · linarith
    · by_contra hc
      have : fsqrt d + 1 ≤ m := by omega
      nlinarith

/-- `⌈√d⌉ ≤ m ↔ 0 ≤ m ∧ d ≤ m²` -/
theorem csqrt_spec (d : Int) (hd : 0 ≤ d) (m : Int) : csqrt d ≤ m ↔ (0 ≤ m ∧ d ≤ m * m) := by
  obtain ⟨h0, h1, h2⟩ := fsqrt_bounds d hd
  unfold csqrt
  split
  · rename_i he
    constructor
    · intro h; exact ⟨by linarith, by nlinarith⟩
    · rintro ⟨hm, hd'⟩
      by_contra hc
      have : m + 1 ≤ fsqrt d := by omega
      nlinarith
  · rename_i hne
    have hlt : fsqrt d * fsqrt d < d := lt_of_le_of_ne h1 hne
    constructor
    · intro h; exact ⟨by linarith, by nlinarith⟩
    · rintro ⟨hm, hd'⟩
      by_contra hc
      have : m ≤ fsqrt d := by omega
      nlinarith

/-- the scaled discriminant against the quadratic `q(t) = a·t² + k·t + 2c` -/
theorem disc_identity (a k c t : Int) :
    (2 * a * t + k) * (2 * a * t + k) - (k * k - 8 * a * c) = 4 * a * (a * t * t + k * t + 2 * c) := by ring

/-- larger root, `a > 0`: `⌈(⌈√D⌉ − k)/(2a)⌉ ≤ t` iff `t` is at/after the vertex and `q(t) ≥ 0` -/
theorem big_root_spec (a k c : Int) (ha : 0 < a) (hD : 0 ≤ k * k - 8 * a * c) (t : Int) :
    cdiv (csqrt (k * k - 8 * a * c) - k) (2 * a) ≤ t ↔
      (0 ≤ 2 * a * t + k ∧ 0 ≤ a * t * t + k * t + 2 * c) := by
  rw [cdiv_le_iff _ _ _ (by linarith : (0 : Int) < 2 * a)]
  have := csqrt_spec (k * k - 8 * a * c) hD (2 * a * t + k)
  have e : csqrt (k * k - 8 * a * c) - k ≤ 2 * a * t ↔ csqrt (k * k - 8 * a * c) ≤ 2 * a * t + k := by
    constructor <;> intro h <;> linarith
  rw [e, this]
  have id := disc_identity a k c t
  constructor
  · rintro ⟨h1, h2⟩
    refine ⟨h1, ?_⟩
    have : 0 ≤ 4 * a * (a * t * t + k * t + 2 * c) := by linarith
    by_contra hc
    have hneg : a * t * t + k * t + 2 * c < 0 := by omega
    nlinarith
  · rintro ⟨h1, h2⟩
    refine ⟨h1, ?_⟩
    have : 0 ≤ 4 * a * (a * t * t + k * t + 2 * c) := by positivity
    linarith

/-- smaller root, `a > 0`: `⌈(−⌊√D⌋ − k)/(2a)⌉ ≤ t` iff `t` is at/after the vertex or `q(t) ≤ 0` -/
theorem small_root_spec (a k c : Int) (ha : 0 < a) (hD : 0 ≤ k * k - 8 * a * c) (t : Int) :
    cdiv (-fsqrt (k * k - 8 * a * c) - k) (2 * a) ≤ t ↔
      (0 ≤ 2 * a * t + k ∨ a * t * t + k * t + 2 * c ≤ 0) := by
  rw [cdiv_le_iff _ _ _ (by linarith : (0 : Int) < 2 * a)]
  have := fsqrt_spec (k * k - 8 * a * c) hD (-(2 * a * t + k))
  have e : -fsqrt (k * k - 8 * a * c) - k ≤ 2 * a * t ↔ -(2 * a * t + k) ≤ fsqrt (k * k - 8 * a * c) := by
    constructor <;> intro h <;> linarith
  rw [e, this]
  have id := disc_identity a k c t
  constructor
  · rintro (h | h)
    · left; linarith
    · right
      have : 4 * a * (a * t * t + k * t + 2 * c) ≤ 0 := by nlinarith
      by_contra hc
      have hpos : 0 < a * t * t + k * t + 2 * c := by omega
      nlinarith
  · rintro (h | h)
    · left; linarith
    · right
      have : 4 * a * (a * t * t + k * t + 2 * c) ≤ 0 := by nlinarith
      nlinarith

/-- the ceiled smaller root never exceeds the ceiled larger root -/
theorem small_le_big (a k c : Int) (ha : 0 < a) (hD : 0 ≤ k * k - 8 * a * c) :
    cdiv (-fsqrt (k * k - 8 * a * c) - k) (2 * a) ≤ cdiv (csqrt (k * k - 8 * a * c) - k) (2 * a) := by
  rw [small_root_spec a k c ha hD]
  left
  exact ((big_root_spec a k c ha hD _).mp (le_refl _)).1

end C03
end Plotink
