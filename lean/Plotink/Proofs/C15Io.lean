import Plotink.Proofs.C15Version
/-! # C15 — the identification handshake as a function of the device script (core Lean only) -/
namespace Plotink.C15

theorem getD_drop_one {α} (l : List α) (i : Nat) (d : α) : (l.drop 1).getD i d = l.getD (i + 1) d := by
  cases l <;> simp

theorem getD_tail {α} (l : List α) (i : Nat) (d : α) : l.tail.getD i d = l.getD (i + 1) d := by
  cases l <;> simp

theorem open_eq (io : Io) : io.open = (openAt io 0, { io with opens := io.opens.drop 1 }) := by
  unfold Io.open openAt
  cases h : io.opens <;> simp
  cases io; simp_all

theorem write_eq (io : Io) (b : Str) :
    io.write b = (decide (wrAt io 0 = .raise),
      { io with writes := io.writes.drop 1,
                written := if wrAt io 0 = .raise then io.written else io.written ++ [b] }) := by
  unfold Io.write wrAt
  cases h : io.writes with
  | nil => simp
  | cons w r => cases w <;> simp

theorem read_eq (io : Io) :
    io.read = (if rdAt io 0 = .raise then none else some (rdAt io 0).raw,
      { io with reads := io.reads.drop 1 }) := by
  unfold Io.read rdAt
  cases h : io.reads with
  | nil => cases io; simp_all [Rd.raw]
  | cons w r => cases w <;> simp [Rd.raw]


theorem isEbb_eq (s : Str) : isEbb s = isInfix ebbTag s := by
  cases s with
  | nil => decide
  | cons c t => simp [isEbb]

theorem isEbb_text (r : Rd) : isEbb r.text = r.ebb := by
  rw [isEbb_eq]; rfl


def hsIo (io : Io) (nw nr k : Nat) : Io :=
  { opens := io.opens.drop 1, reads := io.reads.drop nr, writes := io.writes.drop nw,
    written := io.written ++ List.replicate k vProbe }

/-- the handshake as a function of the five outcomes it can observe -/
def hsSpec (o : Bool) (w0 : Wr) (r0 : Rd) (w1 : Wr) (r1 : Rd) (io : Io) : Hs :=
  if o = false then ⟨false, true, false, [], hsIo io 0 0 0⟩
  else if w0 = .raise then ⟨false, true, true, [], hsIo io 1 0 0⟩
  else if r0 = .raise then ⟨false, true, true, [], hsIo io 1 1 1⟩
  else if r0.ebb = true then ⟨true, false, true, r0.text, hsIo io 1 1 1⟩
  else if w1 = .raise then ⟨false, true, true, r0.text, hsIo io 2 1 1⟩
  else if r1 = .raise then ⟨false, true, true, r0.text, hsIo io 2 2 2⟩
  else ⟨r1.ebb, false, true, r1.text, hsIo io 2 2 2⟩

theorem isEbb_raw (r : Rd) : isEbb (strip r.raw) = r.ebb := isEbb_text r

theorem handshake_eq (io : Io) :
    handshake io = hsSpec (openAt io 0) (wrAt io 0) (rdAt io 0) (wrAt io 1) (rdAt io 1) io := by
  unfold handshake hsSpec
  rw [open_eq]
  cases ho : openAt io 0
  · simp [hsIo]
  · simp only [write_eq, read_eq, wrAt, rdAt]
    by_cases hw0 : io.writes.getD 0 Wr.ok = Wr.raise
    · simp [-List.getD_eq_getElem?_getD, hw0, hsIo]
    · by_cases hr0 : io.reads.getD 0 Rd.empty = Rd.raise
      · simp [-List.getD_eq_getElem?_getD, hw0, hr0, hsIo]
      · by_cases he0 : (io.reads.getD 0 Rd.empty).ebb = true
        · simp [-List.getD_eq_getElem?_getD, hw0, hr0, he0, hsIo, isEbb_raw, Rd.text]
        · by_cases hw1 : io.writes.getD 1 Wr.ok = Wr.raise
          · simp [-List.getD_eq_getElem?_getD, getD_tail, hw0, hr0, he0, hw1, hsIo, isEbb_raw, Rd.text]
          · by_cases hr1 : io.reads.getD 1 Rd.empty = Rd.raise
            · simp [-List.getD_eq_getElem?_getD, getD_tail, hw0, hr0, he0, hw1, hr1, hsIo, isEbb_raw, Rd.text]
            · simp [-List.getD_eq_getElem?_getD, getD_tail, hw0, hr0, he0, hw1, hr1, hsIo, isEbb_raw, Rd.text]


theorem wr_ne_raise {w : Wr} : ¬ w = .raise ↔ w = .ok := by cases w <;> simp

@[simp] theorem raise_ebb : Rd.raise.ebb = false := by decide
@[simp] theorem empty_ebb : Rd.empty.ebb = false := by decide

theorem hs_verified_iff (io : Io) : (handshake io).verified = true ↔ ∃ s, Identifies io s := by
  rw [handshake_eq]
  unfold hsSpec Identifies
  repeat' split
  all_goals simp_all [wr_ne_raise]

theorem hs_sv (io : Io) (s : Str) (h : Identifies io s) : (handshake io).sv = s := by
  rw [handshake_eq]
  unfold hsSpec
  unfold Identifies at h
  repeat' split
  all_goals simp_all

theorem hs_flags (io : Io) (h : (handshake io).verified = true) :
    (handshake io).raised = false ∧ (handshake io).opened = true := by
  rw [handshake_eq] at h ⊢
  unfold hsSpec at h ⊢
  repeat' split
  all_goals simp_all

theorem hs_opened (io : Io) : (handshake io).opened = openAt io 0 := by
  rw [handshake_eq]
  unfold hsSpec
  repeat' split
  all_goals simp_all

theorem hs_written (io : Io) : ∃ k, k ≤ 2 ∧ (handshake io).io.written = io.written ++ List.replicate k vProbe ∧
    ((handshake io).verified = true → 1 ≤ k) ∧ (openAt io 0 = false → k = 0) := by
  rw [handshake_eq]
  unfold hsSpec
  repeat' split
  all_goals first
    | exact ⟨0, by omega, rfl, by simp_all, by simp_all⟩
    | exact ⟨1, by omega, rfl, by simp_all, by simp_all⟩
    | exact ⟨2, by omega, rfl, by simp_all, by simp_all⟩

end Plotink.C15
