import Plotink.Proofs.C16Spec
import Plotink.Model.Ebb3
import Plotink.PyObj
/-! C16 ↔ regenerated code, part 1: the string / number primitives of the `PyObj` runtime (those of `Model/Ebb3.lean`)
agree with the primitives of `Model/C16.lean` (in general, or on the decimal renderings that travel on the wire). -/
set_option linter.unusedSimpArgs false
namespace Plotink.C16

theorem ebb3_isSpace_eq (c : Char) : Ebb3.isSpace c = isPySpace c := by
  unfold Ebb3.isSpace isPySpace
  rw [Bool.eq_iff_iff]
  simp
  omega

theorem ebb3_lstrip_eq (s : Str) : Ebb3.lstrip s = lstrip s := by
  unfold Ebb3.lstrip
  induction s with
  | nil => rfl
  | cons c cs ih =>
    simp only [List.dropWhile, lstrip, ebb3_isSpace_eq]
    cases h : isPySpace c
    · simp
    · simpa using ih

theorem ebb3_rstrip_allSp {z : Str} (hz : AllSp z) : Ebb3.rstrip z = [] := by
  induction z with
  | nil => rfl
  | cons c cs ih =>
    have h1 := ih (fun d hd => hz d (List.mem_cons_of_mem _ hd))
    have h2 : Ebb3.isSpace c = true := by rw [ebb3_isSpace_eq]; exact hz c List.mem_cons_self
    simp [Ebb3.rstrip, h1, h2]

/-- `Ebb3.rstrip` removes a blank tail after a non-empty core whose last character is not blank -/
theorem ebb3_rstrip_core {m z : Str} (hz : AllSp z) (hne : m ≠ [])
    (hl : ∀ c, m.getLast? = some c → isPySpace c = false) : Ebb3.rstrip (m ++ z) = m := by
  induction m with
  | nil => exact absurd rfl hne
  | cons c cs ih =>
    cases cs with
    | nil =>
      have hc : Ebb3.isSpace c = false := by rw [ebb3_isSpace_eq]; exact hl c rfl
      simp [Ebb3.rstrip, ebb3_rstrip_allSp hz, hc]
    | cons d ds =>
      have h := ih (by simp) (fun x hx => hl x (by simpa using hx))
      show Ebb3.rstrip (c :: (d :: ds ++ z)) = _
      simp only [Ebb3.rstrip]
      rw [h]

theorem ebb3_strip_eq (s : Str) : Ebb3.strip s = strip s := by
  obtain ⟨a, z, ha, hz, e⟩ := strip_decomp s
  have hn := noEdge_strip s
  unfold Ebb3.strip
  rw [ebb3_lstrip_eq]
  cases hm : strip s with
  | nil =>
    rw [hm] at e
    have hall : AllSp s := by rw [e]; simpa using allSp_append ha hz
    have : lstrip s = [] := by
      have := lstrip_allSp hall []
      simpa [lstrip] using this
    rw [this]; rfl
  | cons c cs =>
    have hc : isPySpace c = false := hn.1 c (by rw [hm]; rfl)
    have hl : lstrip s = (c :: cs) ++ z := by
      rw (occs := [1]) [e, List.append_assoc, lstrip_allSp ha, hm]
      simp [lstrip, hc]
    rw [hl]
    exact ebb3_rstrip_core hz (by simp) (by rw [← hm]; exact hn.2)

theorem isPrefixOf_eq (p s : Str) : p.isPrefixOf s = startsWith s p := by
  induction p generalizing s with
  | nil => cases s <;> rfl
  | cons q qs ih =>
    cases s with
    | nil => rfl
    | cons d ds =>
      simp only [List.isPrefixOf, startsWith, ih]
      cases h : (q == d) <;> cases h' : (d == q) <;> simp_all

theorem ebb3_startsWith_eq (p s : Str) : Ebb3.startsWith p s = startsWith s p := isPrefixOf_eq p s

theorem ebb3_hasSub_eq (p s : Str) : Ebb3.hasSub p s = isInfix p s := by
  induction s with
  | nil => rfl
  | cons c cs ih => simp only [Ebb3.hasSub, isInfix, isPrefixOf_eq, ih]

theorem ebb3_splitOn_eq (sep : Char) (s : Str) : Ebb3.splitOn sep s = splitOn sep s := by
  induction s with
  | nil => rfl
  | cons c cs ih =>
    simp only [Ebb3.splitOn, splitOn, ih]
    split
    · rfl
    · cases splitOn sep cs <;> rfl

theorem ebb3_isSpaceStr_eq (s : Str) : Ebb3.isSpaceStr s = isspace s := by
  unfold Ebb3.isSpaceStr isspace
  congr 1
  induction s with
  | nil => rfl
  | cons c cs ih => simp only [List.all_cons, ih, ebb3_isSpace_eq]

/-- f-string rendering of a natural number -/
theorem ebb3_showInt_nat (n : Nat) : Ebb3.showInt (n : Int) = showNat n := by
  unfold Ebb3.showInt showNat
  show (Nat.repr n).toList = _
  exact Nat.toList_repr

/-! ### `int()` on a decimal rendering -/

theorem digitVal_of_isDigit {c : Char} (h : c.isDigit = true) : Ebb3.digitVal 10 c = some (c.toNat - 48) := by
  unfold Char.isDigit at h
  simp only [Bool.and_eq_true, decide_eq_true_eq, ge_iff_le] at h
  obtain ⟨h1, h2⟩ := h
  rw [UInt32.le_iff_toNat_le] at h1 h2
  have h1 : 48 ≤ c.toNat := h1
  have h2 : c.toNat ≤ 57 := h2
  unfold Ebb3.digitVal
  simp only [h1, h2, and_self, if_true]
  have : c.toNat - 48 < 10 := by omega
  simp [this]

theorem parseDigits_digits (l : Str) (hl : ∀ c ∈ l, c.isDigit = true) (acc : Nat) (st : Ebb3.DigSt)
    (hne : l ≠ [] ∨ st = .digit) :
    Ebb3.parseDigits 10 l acc st = parseNatAux acc l := by
  induction l generalizing acc st with
  | nil =>
    rcases hne with h | h
    · exact absurd rfl h
    · subst h; rfl
  | cons c cs ih =>
    have hc := hl c List.mem_cons_self
    have hne95 : ¬ c.toNat = 95 := by
      unfold Char.isDigit at hc
      simp only [Bool.and_eq_true, decide_eq_true_eq, ge_iff_le] at hc
      have h2 := hc.2
      rw [UInt32.le_iff_toNat_le] at h2
      have h2 : c.toNat ≤ 57 := h2
      omega
    simp only [Ebb3.parseDigits, hne95, if_false, digitVal_of_isDigit hc, parseNatAux, hc, if_true]
    exact ih (fun d hd => hl d (List.mem_cons_of_mem _ hd)) _ _ (Or.inr rfl)

theorem ebb3_pyInt_showNat (x : Nat) : Ebb3.pyInt 10 (showNat x) = some (x : Int) := by
  have hd : ∀ c ∈ showNat x, c.isDigit = true := fun c hc => isDigit_of_mem_showNat hc
  have hne := showNat_ne_nil x
  have hnsC : ∀ c ∈ showNat x, Ebb3.isSpaceC c = false := by
    intro c hc
    have := not_space_of_isDigit (hd c hc)
    unfold isPySpace at this
    unfold Ebb3.isSpaceC
    simp only [Bool.or_eq_false_iff, Bool.and_eq_false_iff, decide_eq_false_iff_not, beq_eq_false_iff_ne] at this ⊢
    omega
  -- dropWhile and rstripC do nothing on digits
  have hdrop : (showNat x).dropWhile Ebb3.isSpaceC = showNat x := by
    cases h : showNat x with
    | nil => rfl
    | cons c cs => simp [List.dropWhile, hnsC c (by rw [h]; exact List.mem_cons_self)]
  have hr : ∀ l : Str, (∀ c ∈ l, Ebb3.isSpaceC c = false) → Ebb3.rstripC l = l := by
    intro l hl
    induction l with
    | nil => rfl
    | cons c cs ih =>
      have := ih (fun d hd => hl d (List.mem_cons_of_mem _ hd))
      simp only [Ebb3.rstripC, this]
      cases cs with
      | nil => simp [hl c List.mem_cons_self]
      | cons d ds => rfl
  unfold Ebb3.pyInt
  rw [hdrop, hr _ hnsC]
  cases h : showNat x with
  | nil => exact absurd h hne
  | cons c cs =>
    have hc := hd c (by rw [h]; exact List.mem_cons_self)
    have h45 : ¬ c.toNat = 45 := by
      intro e
      have : c = '-' := by
        apply Char.ext; apply UInt32.toNat_inj.mp; exact e
      exact ne_minus_of_isDigit hc this
    have h43 : ¬ c.toNat = 43 := by
      unfold Char.isDigit at hc
      simp only [Bool.and_eq_true, decide_eq_true_eq, ge_iff_le] at hc
      have h1 := hc.1
      rw [UInt32.le_iff_toNat_le] at h1
      have h1 : 48 ≤ c.toNat := h1
      omega
    simp only [h45, h43, if_false]
    have hten : ¬ ((10 : Nat) = 16 ∧ Ebb3.has0x (c :: cs) = true) := by omega
    simp only [hten, if_false]
    rw [parseDigits_digits (c :: cs) (by rw [← h]; exact hd) 0 .start (Or.inl (by simp)), ← h, parseNatAux_showNat]
    rfl

end Plotink.C16
