import Plotink.Gen.EBBMotionWrap_motors_enable
import Plotink.Proofs.PyIOLemmas
/-! # C16 — `motors_enable` sees its requests only through `int()` (regenerated code) -/
namespace Plotink
namespace C16Conv
open PyObj Gen
set_option linter.unusedSimpArgs false

theorem bmax0 (r : Int) : b_max2 (.int r) (.int 0) = .ok (.int (max r 0)) := by
  simp only [b_max2, ltVal, intOf]
  by_cases h : r < 0
  · simp [h, Int.max_eq_right (Int.le_of_lt h)]
  · simp [h, Int.max_eq_left (Int.not_lt.mp h)]
theorem bmin5 (x : Int) : b_min2 (.int x) (.int 5) = .ok (.int (min x 5)) := by
  simp only [b_min2, ltVal, intOf]
  by_cases h : 5 < x
  · simp [h, Int.min_eq_right (Int.le_of_lt h)]
  · simp [h, Int.min_eq_left (Int.not_lt.mp h)]

theorem load_of_int_ok {v : Val} {r : Int} (h : b_int v = .ok (.int r)) : (load v : Eff EBB3_Obj) = ok v := by
  apply load_of_bound
  intro e; subst e; simp [b_int] at h

/-- `motors_enable` sees a request only through `int(r)`: any pair of requests that `int()` converts (bools, numeral
strings, ints) behaves exactly like the pair of integers they stand for -/
theorem motors_enable_conv (fuel : Nat) (v1 v2 : Val) (r1 r2 : Int)
    (h1 : b_int v1 = .ok (.int r1)) (h2 : b_int v2 = .ok (.int r2)) (w : World EBB3_Obj) :
    EBBMotionWrap_motors_enable fuel v1 v2 w = EBBMotionWrap_motors_enable fuel (.int r1) (.int r2) w := by
  have l1 := load_of_int_ok h1
  have l2 := load_of_int_ok h2
  unfold EBBMotionWrap_motors_enable EBBMotionWrap_motors_enable_main
  simp only [block_cons2, PyObj.run, seq, EBBMotionWrap_motors_enable_if1, ifte, return_, pass]
  generalize ((or_ (app1 op_is_none (getattr (·.port))) (app1 op_is_not_none (getattr (·.err)))) : Eff EBB3_Obj) w = res
  obtain ⟨res, w'⟩ := res
  cases res with
  | fuelOut => rfl
  | exc c => rfl
  | ok v =>
    cases hv : truthy v
    · have bi : ∀ r : Int, b_int (.int r) = .ok (.int r) := fun _ => rfl
      simp only [hv, Bool.false_eq_true, ↓reduceIte, assign, l1, l2, load_int, app1_ok, app2_ok, h1, h2, bi, ofP_ok, bmax0, bmin5,
        ok_apply]
    · simp only [hv, ↓reduceIte, ok]
end C16Conv
end Plotink
