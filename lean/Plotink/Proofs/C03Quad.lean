import Plotink.Proofs.C03Roots
import Mathlib.Tactic.SplitIfs
/-! # C03 — the model's root selection (`quadTime`) returns the least admissible tick -/
namespace Plotink
namespace C03

/-- `q(t) = a·t² + k·t + 2c` -/
def qq (a k c t : Int) : Int := a * t * t + k * t + 2 * c

theorem pick_comm (x y : Int) : pick x y = pick y x := by
  unfold pick; split_ifs <;> omega

/-- upward case (`a > 0`): the answer is the ceiled larger root; `s` is a tick (the reversal tick, or 0)
at which the level is not yet reached -/
theorem quadTime_up (a K c τe s T : Int) (ha : 0 < a) (hs : 0 ≤ s)
    (hτ : τe = s ∨ (τe ≤ 0 ∧ s = 0)) (hqs : qq a K c s < 0) (hT : s < T)
    (hv : 0 ≤ 2 * a * T + K) (hqT : 0 ≤ qq a K c T)
    (hmin : ∀ t, s < t → 0 ≤ qq a K c t → T ≤ t) : quadTime a K c τe = T := by
  unfold qq at *
  have hD : 0 ≤ K * K - 8 * a * c := by
    have id := disc_identity a K c s
    nlinarith [mul_self_nonneg (2 * a * s + K)]
  have hbig := big_root_spec a K c ha hD
  have hsmall := small_root_spec a K c ha hD
  have h1 : cdiv (csqrt (K * K - 8 * a * c) - K) (2 * a) ≤ T := (hbig T).mpr ⟨hv, hqT⟩
  have h2 : s < cdiv (csqrt (K * K - 8 * a * c) - K) (2 * a) := by
    by_contra hc
    have := ((hbig s).mp (not_lt.mp hc)).2
    omega
  have h3 : T ≤ cdiv (csqrt (K * K - 8 * a * c) - K) (2 * a) :=
    hmin _ h2 ((hbig _).mp (le_refl _)).2
  have hpr : cdiv (csqrt (K * K - 8 * a * c) - K) (2 * a) = T := le_antisymm h1 h3
  have hnr : cdiv (-fsqrt (K * K - 8 * a * c) - K) (2 * a) ≤ s := (hsmall s).mpr (Or.inr (le_of_lt hqs))
  unfold quadTime
  simp only [ha, if_true, hpr, not_lt.mpr hD, if_false]
  unfold pick
  rcases hτ with h | ⟨h, h'⟩
  · subst h; split_ifs <;> omega
  · subst h'; split_ifs <;> omega

/-- downward case on an upward parabola (`a > 0`): the budget is reached before the turning point; the
answer is the ceiled smaller root -/
theorem quadTime_down (a K c τe T : Int) (ha : 0 < a) (hτ : τe ≤ 0)
    (hq0 : 0 < qq a K c 0) (hK : K < 0) (hT : 1 ≤ T) (hqT : qq a K c T ≤ 0)
    (hmin : ∀ t, 1 ≤ t → t ≤ T → (qq a K c t ≤ 0 ∨ 0 ≤ 2 * a * t + K) → T ≤ t) :
    quadTime a K c τe = T := by
  unfold qq at *
  have hD : 0 ≤ K * K - 8 * a * c := by
    have id := disc_identity a K c T
    nlinarith [mul_self_nonneg (2 * a * T + K)]
  have hbig := big_root_spec a K c ha hD
  have hsmall := small_root_spec a K c ha hD
  have h1 : cdiv (-fsqrt (K * K - 8 * a * c) - K) (2 * a) ≤ T := (hsmall T).mpr (Or.inr hqT)
  have h2 : 1 ≤ cdiv (-fsqrt (K * K - 8 * a * c) - K) (2 * a) := by
    by_contra hc
    have h := (hsmall 0).mp (by omega)
    simp only [mul_zero, zero_add] at h
    omega
  have h3 : T ≤ cdiv (-fsqrt (K * K - 8 * a * c) - K) (2 * a) := by
    apply hmin _ h2 h1
    rcases (hsmall _).mp (le_refl _) with h | h
    · right; exact h
    · left; exact h
  have hnr : cdiv (-fsqrt (K * K - 8 * a * c) - K) (2 * a) = T := le_antisymm h1 h3
  have hle := small_le_big a K c ha hD
  unfold quadTime
  simp only [ha, if_true, hnr, not_lt.mpr hD, if_false] at hle ⊢
  unfold pick
  split_ifs <;> omega

/-- the root selection is symmetric under negating the quadratic (the two roots swap roles) -/
theorem quadTime_neg (a K c τe : Int) (ha : a ≠ 0) : quadTime (-a) (-K) (-c) τe = quadTime a K c τe := by
  unfold quadTime
  have e : -K * -K - 8 * -a * -c = K * K - 8 * a * c := by ring
  simp only [e]
  by_cases hD : K * K - 8 * a * c < 0
  · simp [hD]
  · simp only [hD, if_false]
    rcases lt_or_gt_of_ne ha with h | h
    · have h1 : ¬ (0 < a) := by omega
      have h2 : 0 < -a := by omega
      simp only [h1, h2, if_true, if_false]
      have e1 : cdiv (csqrt (K * K - 8 * a * c) - -K) (2 * -a) = cdiv (csqrt (K * K - 8 * a * c) + K) (-(2 * a)) := by
        congr 1 <;> ring
      have e2 : cdiv (-fsqrt (K * K - 8 * a * c) - -K) (2 * -a) = cdiv (K - fsqrt (K * K - 8 * a * c)) (-(2 * a)) := by
        congr 1 <;> ring
      rw [e1, e2, pick_comm]
    · have h1 : ¬ (0 < -a) := by omega
      simp only [h1, h, if_true, if_false]
      have e1 : cdiv (-K - fsqrt (K * K - 8 * a * c)) (-(2 * -a)) = cdiv (-fsqrt (K * K - 8 * a * c) - K) (2 * a) := by
        congr 1 <;> ring
      have e2 : cdiv (csqrt (K * K - 8 * a * c) + -K) (-(2 * -a)) = cdiv (csqrt (K * K - 8 * a * c) - K) (2 * a) := by
        congr 1 <;> ring
      rw [e1, e2, pick_comm]

end C03
end Plotink
