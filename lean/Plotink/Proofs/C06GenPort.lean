import Plotink.Props.C07
/-! # C06 over the regenerated code, part 0: the device script only gets shorter

`ebb_serial.command` / `ebb_serial.query` (hand model `Model/C07.lean`, bridged to the regenerated functions by
`C07_gen_bridge`) consume a prefix of the scripted reads and writes.  Hence the domain
`Dom p` = "every scripted fault is a serial I/O exception and every scripted line is ASCII" is preserved by a call,
which is what a helper that transmits several requests needs. -/
namespace Plotink
namespace C06Gen
open C07

/-- the script of `p'` is what is left of the script of `p` -/
def Shrinks (p' p : Port) : Prop := p'.reads <:+ p.reads ∧ p'.writes <:+ p.writes

theorem Shrinks.refl (p : Port) : Shrinks p p := ⟨List.suffix_refl _, List.suffix_refl _⟩
theorem Shrinks.trans {a b c : Port} (h1 : Shrinks a b) (h2 : Shrinks b c) : Shrinks a c :=
  ⟨h1.1.trans h2.1, h1.2.trans h2.2⟩

theorem readline_shrinks (p : Port) : Shrinks (readline p).2 p := by
  unfold readline
  rcases hp : p.reads with _ | ⟨r, rs⟩
  · simp only [Shrinks, hp]; exact ⟨List.suffix_refl _, List.suffix_refl _⟩
  · cases r <;> simp only [Shrinks, hp] <;> exact ⟨List.suffix_cons _ _, List.suffix_refl _⟩

theorem write_shrinks (b : Bytes) (p : Port) : Shrinks (write b p).2 p := by
  unfold write
  rcases hp : p.writes with _ | ⟨r, rs⟩
  · simp only [Shrinks, hp]; exact ⟨List.suffix_refl _, List.suffix_refl _⟩
  · cases r <;> simp only [Shrinks, hp] <;> exact ⟨List.suffix_refl _, List.suffix_cons _ _⟩

theorem retryResp_shrinks (dec : Bool) : ∀ (n : Nat) (v : Val) (p : Port), Shrinks (retryResp dec n v p).2.2 p := by
  intro n
  induction n with
  | zero => intro v p; exact Shrinks.refl p
  | succ k ih =>
    intro v p
    unfold retryResp
    split
    · exact Shrinks.refl p
    · have hr := readline_shrinks p
      rcases hq : readline p with ⟨o, p'⟩
      rw [hq] at hr
      cases o with
      | none => exact hr
      | some b =>
        simp only
        cases dec with
        | false => exact (ih _ _).trans hr
        | true =>
          simp only [↓reduceIte]
          cases decode b with
          | none => exact hr
          | some s => exact (ih _ _).trans hr

theorem retryUnused_shrinks : ∀ (n : Nat) (u : Bytes) (p : Port), Shrinks (retryUnused n u p).2 p := by
  intro n
  induction n with
  | zero => intro u p; exact Shrinks.refl p
  | succ k ih =>
    intro u p
    unfold retryUnused
    split
    · exact Shrinks.refl p
    · have hr := readline_shrinks p
      rcases hq : readline p with ⟨o, p'⟩
      rw [hq] at hr
      cases o with
      | none => exact hr
      | some b => exact (ih _ _).trans hr

theorem queryTrail_shrinks (P : Params) (c : Str) (v : Val) (p : Port) : Shrinks (queryTrail P c v p).2.2 p := by
  unfold queryTrail
  split
  · exact Shrinks.refl p
  · have hr := readline_shrinks p
    rcases hq : readline p with ⟨o, p'⟩
    rw [hq] at hr
    cases o with
    | none => exact hr
    | some u =>
      simp only
      have h2 := retryUnused_shrinks P.retry u p'
      rcases hu : retryUnused P.retry u p' with ⟨b, p5⟩
      rw [hu] at h2
      cases b <;> exact h2.trans hr

theorem queryBody_shrinks (P : Params) (c : Str) (p : Port) : Shrinks (queryBody P c p).2.2 p := by
  unfold queryBody
  cases encode c with
  | none => exact Shrinks.refl p
  | some req =>
    simp only
    have hw := write_shrinks req p
    rcases hq : write req p with ⟨ok, p1⟩
    rw [hq] at hw
    cases ok with
    | false => exact hw
    | true =>
      simp only
      have hr := readline_shrinks p1
      rcases hq2 : readline p1 with ⟨o, p2⟩
      rw [hq2] at hr
      cases o with
      | none => exact hr.trans hw
      | some l =>
        simp only
        cases decode l with
        | none => exact hr.trans hw
        | some s =>
          simp only
          have h3 := retryResp_shrinks P.decodeRetry P.retry (.str s) p2
          rcases hq3 : retryResp P.decodeRetry P.retry (.str s) p2 with ⟨f, v, p3⟩
          rw [hq3] at h3
          cases f with
          | done => exact (queryTrail_shrinks P c v p3).trans (h3.trans (hr.trans hw))
          | io => exact h3.trans (hr.trans hw)
          | py e => exact h3.trans (hr.trans hw)

theorem query_shrinks (P : Params) (c : Str) (p : Port) : Shrinks (query P c p).2 p := by
  unfold query
  have h := queryBody_shrinks P c p
  rcases hq : queryBody P c p with ⟨f, v, p'⟩
  rw [hq] at h
  cases f with
  | py e => exact h
  | done => simp only; cases errIn v <;> exact h
  | io => simp only; cases errIn v <;> exact h

theorem commandBody_shrinks (P : Params) (c : Str) (p : Port) : Shrinks (commandBody P c p).2 p := by
  unfold commandBody
  cases encode c with
  | none => exact Shrinks.refl p
  | some req =>
    simp only
    have hw := write_shrinks req p
    rcases hq : write req p with ⟨ok, p1⟩
    rw [hq] at hw
    cases ok with
    | false => exact hw
    | true =>
      simp only
      have hr := readline_shrinks p1
      rcases hq2 : readline p1 with ⟨o, p2⟩
      rw [hq2] at hr
      cases o with
      | none => exact hr.trans hw
      | some l =>
        simp only
        cases decode l with
        | none => exact hr.trans hw
        | some s =>
          simp only
          have h3 := retryResp_shrinks true P.retry (.str s) p2
          rcases hq3 : retryResp true P.retry (.str s) p2 with ⟨f, v, p3⟩
          rw [hq3] at h3
          exact h3.trans (hr.trans hw)

theorem command_shrinks (P : Params) (c : Str) (p : Port) : Shrinks (command P c p).2 p := by
  unfold command
  have h := commandBody_shrinks P c p
  rcases hq : commandBody P c p with ⟨f, p'⟩
  rw [hq] at h
  cases f <;> exact h

/-- the domain of the bridges: every scripted fault is a serial I/O exception, every scripted line is ASCII -/
def Dom (p : Port) : Prop := C07Gen.IoScript p ∧ allAscii p.reads = true

theorem Dom.shrinks {p' p : Port} (h : Shrinks p' p) (hd : Dom p) : Dom p' := by
  obtain ⟨⟨hr, hw⟩, ha⟩ := hd
  refine ⟨⟨fun c hc => hr c (h.1.subset hc), fun c hc => hw c (h.2.subset hc)⟩, ?_⟩
  unfold allAscii at *
  rw [List.all_eq_true] at *
  exact fun x hx => ha x (h.1.subset hx)

end C06Gen
end Plotink
