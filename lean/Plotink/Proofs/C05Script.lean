import Plotink.Proofs.C05Methods
set_option linter.unusedSimpArgs false
set_option linter.unusedVariables false
/-!
Instance 1 of the generic theorem: scripts whose read outcomes are taken from the fault alphabet
of the statement (correct replies, empty reads, error lines, wrong-name lines, raised exceptions).
Core Lean only.
-/
namespace Plotink
namespace Ebb3
open M Spec

/-- A line of the alphabet: whenever it would be accepted as the reply to one of the decoded
queries (begins with that name, no `Err:`), it is a *correct* reply: `name,payload` with a
well-formed payload.  Blank lines, error lines, and lines that begin with no decoded name
(wrong-name lines, replies to other requests) all qualify. -/
def AdmLine (s : Str) : Prop :=
  ∀ name ∈ parsedNames, startsWith name (strip s) = true → hasErr (strip s) = false →
    ∃ payload, strip s = name ++ ',' :: payload ∧ GoodPayload name payload

def AdmEv : ReadEv → Prop
  | .line s => AdmLine s
  | .raise => True

/-- every read outcome of the script is in the alphabet -/
def AdmScript (w : World Script) : Prop := ∀ ev ∈ w.dev.reads, AdmEv ev

theorem adm_drop {w : World Script} (h : AdmScript w) (k : Nat) (st : St) (ws : List WriteEv) (out : List Str)
    (nr : Nat) : AdmScript ⟨st, ⟨w.dev.reads.drop k, ws⟩, out, nr⟩ :=
  fun ev hev => h ev (List.mem_of_mem_drop hev)

/-- the reply seen by a request is one of the script's lines -/
theorem firstReply_text_mem {n : Nat} {reads : List ReadEv} {t : Str} (h : firstReply n reads = .text t) :
    ∃ s, ReadEv.line s ∈ reads ∧ t = strip s := by
  rcases window_cases n reads with ⟨j, ev, -, hget, -, -, -, hf⟩ | ⟨-, -, hf⟩
  · rw [hf] at h
    cases ev with
    | raise => cases h
    | line s =>
      simp only [replyOfEv] at h
      injection h with h
      exact ⟨s, List.mem_of_getElem? hget, h.symm⟩
  · rw [hf] at h; cases h

theorem append_isEmpty_false {pre : Str} (rest : Str) (h : pre ≠ []) : (pre ++ rest).isEmpty = false := by
  cases pre with
  | nil => exact absurd rfl h
  | cons c cs => rfl

theorem errTruthy_some {st : St} {m : Str} (h : st.err = some m) (hm : m.isEmpty = false) :
    errTruthy st = true := by
  simp [errTruthy, h, hm]

theorem queryError_nonempty {P : Params} {q name : Str} {wo : WriteEv} {reads : List ReadEv} {m : Str}
    (h : queryError P q name wo reads = some m) : m.isEmpty = false := by
  unfold queryError at h
  have h1 : (Msg.qryTimeout q).isEmpty = false := append_isEmpty_false _ (by decide)
  have h2 : (Msg.qryUsb q).isEmpty = false := append_isEmpty_false _ (by decide)
  have h3 : ∀ t, (Msg.qryUnexpected q t).isEmpty = false := fun t => by
    unfold Msg.qryUnexpected
    rw [List.append_assoc, List.append_assoc]
    exact append_isEmpty_false _ (by decide)
  cases wo with
  | raise =>
    simp only at h
    split at h <;> (injection h with h; subst h; assumption)
  | ok =>
    simp only at h
    split at h
    · split at h <;> (injection h with h; subst h; assumption)
    · injection h with h; subst h; assumption
    · split at h
      · injection h with h; subst h; exact h3 _
      · cases h


theorem qgUsbFail_apply {σ : Type} (w : World σ) :
    (qgUsbFail : M σ Val) w = (.ok .none, { w with st := recordErrorSt Msg.qgUsb w.st }) := rfl

/-- the judgement of a `QG` reply always returns and touches only `err` -/
theorem qgJudge_total {σ : Type} (resp : Str) (w : World σ) :
    ∃ v st', qgJudge resp w = (.ok v, { w with st := st' }) := by
  unfold qgJudge
  split
  · split
    · exact ⟨.none, recordErrorSt Msg.qgTimeout w.st, rfl⟩
    · exact ⟨.none, recordErrorSt (Msg.qgUnexpected resp) w.st, rfl⟩
  · split
    · exact ⟨.none, recordErrorSt (Msg.qgErr resp) w.st, rfl⟩
    · cases h3 : pyInt 16 (List.drop 3 resp) with
      | some z => exact ⟨.int z, w.st, rfl⟩
      | none => exact ⟨.none, w.st, rfl⟩

/-- `query_statusbyte` on a script always returns; the reads left are a suffix -/
theorem qg_script (w : World Script) :
    ∃ v w' k, queryStatusByteBody scriptDev w = (.ok v, w') ∧ w'.dev.reads = w.dev.reads.drop k := by
  obtain ⟨st, ⟨reads, ws⟩, out, nr⟩ := w
  unfold queryStatusByteBody
  rw [bind_ok (portWrite_script st reads ws out nr _)]
  cases hw : firstWrite ⟨reads, ws⟩ with
  | raise => exact ⟨.none, _, 0, qgUsbFail_apply _, rfl⟩
  | ok =>
    simp only [beq_self_eq_true, if_true]
    cases reads with
    | nil =>
      rw [bind_ok (portRead_script_nil st _ _ _)]
      obtain ⟨v, st', h⟩ := qgJudge_total (strip []) (⟨st, ⟨[], ws.tail⟩, out ++ ["QG\r".toList], nr + 1⟩ : World Script)
      exact ⟨v, _, 0, h, rfl⟩
    | cons r rs =>
      cases r with
      | raise =>
        rw [bind_ok (portRead_script_raise st rs _ _ _)]
        exact ⟨.none, _, 1, qgUsbFail_apply _, rfl⟩
      | line s =>
        rw [bind_ok (portRead_script_line st s rs _ _ _)]
        obtain ⟨v, st', h⟩ := qgJudge_total (strip s) (⟨st, ⟨rs, ws.tail⟩, out ++ ["QG\r".toList], nr + 1⟩ : World Script)
        exact ⟨v, _, 1, h, rfl⟩

theorem scriptSound (P : Params) : Sound P scriptDev AdmScript where
  congr := fun w f _ h => h
  cmd := by
    intro text w hnb hI hb
    obtain ⟨st, ⟨reads, ws⟩, out, nr⟩ := w
    have hb' := blocked_false_iff.mp hb
    obtain ⟨name, hn, hne⟩ := cmdName_ok_of_ne hnb
    have h := commandCore_script P (strip text) name hn hne st hb'.2 reads ws out nr
    refine ⟨(commandCore P scriptDev (strip text) ⟨st, ⟨reads, ws⟩, out, nr⟩).2, ?_, ?_, ?_⟩
    · rw [h]
    · rw [h]; exact adm_drop hI _ _ _ _ _
    · rw [h]
  qry := by
    intro q name w hn hI hb
    obtain ⟨st, ⟨reads, ws⟩, out, nr⟩ := w
    have hb' := blocked_false_iff.mp hb
    have hne : name ≠ [] := by
      intro h0
      subst h0
      cases hq : strip q with
      | nil => simp [hq, cmdName] at hn
      | cons c cs =>
        cases cs with
        | nil => simp [hq, cmdName] at hn
        | cons d ds =>
          rw [hq] at hn
          simp only [cmdName] at hn
          split at hn <;> simp at hn
    have h := queryCore_script P (strip q) name hn hne st hb'.2 reads ws out nr
    refine ⟨_, _, h, adm_drop hI _ _ _ _ _, ?_, ?_⟩
    · rfl
    cases he : queryError P (strip q) name (firstWrite ⟨reads, ws⟩) reads with
    | some m =>
      left
      refine ⟨?_, errTruthy_some rfl (queryError_nonempty he)⟩
      simp [queryValue, he]
    | none =>
      right
      -- the reply is accepted: a line of the script
      have hacc : firstWrite ⟨reads, ws⟩ = .ok ∧
          accepted name (firstReply (P.retryQry + 1) reads) = true := by
        simp only [queryError] at he
        cases hw : firstWrite ⟨reads, ws⟩ with
        | raise => rw [hw] at he; simp only at he; split at he <;> cases he
        | ok =>
          rw [hw] at he
          refine ⟨rfl, ?_⟩
          cases hr : firstReply (P.retryQry + 1) reads with
          | ioError => rw [hr] at he; simp only at he; split at he <;> cases he
          | timeout => rw [hr] at he; cases he
          | text t =>
            rw [hr] at he
            simp only at he
            split at he
            · cases he
            · rename_i hcond
              simp only [Bool.or_eq_true, Bool.not_eq_true', not_or, Bool.not_eq_true,
                Bool.not_eq_false] at hcond
              simp [accepted, hcond.1, hcond.2]
      cases hr : firstReply (P.retryQry + 1) reads with
      | ioError => simp [hr, accepted] at hacc
      | timeout => simp [hr, accepted] at hacc
      | text t =>
        simp only [hr, accepted, Bool.and_eq_true, Bool.not_eq_true'] at hacc
        refine ⟨stripHeader name t, by simp [queryValue, he, hr], ?_, rfl⟩
        obtain ⟨s, hmem, hts⟩ := firstReply_text_mem hr
        by_cases hp : name ∈ parsedNames
        · have hadm : AdmLine s := hI _ hmem
          obtain ⟨payload, hpay, hgood⟩ := hadm name hp (by rw [← hts]; exact hacc.2.1) (by rw [← hts]; exact hacc.2.2)
          rw [hts, hpay, stripHeader_append]
          simpa [dropComma] using hgood
        · exact goodPayload_of_not_parsed hp _
  qg := by
    intro w hI hb
    obtain ⟨v, w', k, h, hk⟩ := qg_script w
    exact ⟨v, w', h, fun ev hev => hI ev (by rw [hk] at hev; exact List.mem_of_mem_drop hev)⟩
  raw := by
    intro text w hI hb
    obtain ⟨st, ⟨reads, ws⟩, out, nr⟩ := w
    unfold rawCloseBody
    rw [bind_ok (portWrite_script st reads ws out nr _)]
    cases hw : firstWrite ⟨reads, ws⟩ with
    | raise => exact ⟨_, _, rfl, fun ev hev => hI ev hev⟩
    | ok =>
      simp only [beq_self_eq_true, if_true]
      exact ⟨_, _, rfl, fun ev hev => hI ev hev⟩

end Ebb3
end Plotink
