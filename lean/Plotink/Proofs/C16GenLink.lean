import Plotink.Proofs.C16GenPrims
import Plotink.Proofs.PyIOLemmas
import Plotink.Gen.EBB3_command
import Plotink.Gen.EBB3_query
/-! C16 ↔ regenerated code, part 2: the regenerated `EBB3.command` / `EBB3.query` evaluated on one exchange of a
conforming conversation (the write succeeds, the next `readline` returns a non-empty reply line): the acknowledged
command and the answered query.  Direct symbolic evaluation of `Gen.EBB3_command` / `Gen.EBB3_query` (no model in
between); the hypotheses are stated with the `Model/C16.lean` string primitives. -/
set_option linter.unusedSimpArgs false
set_option linter.constructorNameAsVariable false
namespace Plotink.C16
open PyObj Gen

/-- the object is connected and has no recorded error -/
def ReadyObj (o : EBB3_Obj) : Prop := o.port = PyObj.Val.port ∧ o.err = PyObj.Val.none

theorem isAscii_showNat (n : Nat) : PyIO.isAscii (showNat n) = true := by
  unfold PyIO.isAscii
  rw [List.all_eq_true]
  intro c hc
  have h := isDigit_of_mem_showNat hc
  unfold Char.isDigit at h
  simp only [Bool.and_eq_true, decide_eq_true_eq, ge_iff_le] at h
  have h2 := h.2
  rw [UInt32.le_iff_toNat_le] at h2
  have h2 : c.toNat ≤ 57 := h2
  simp; omega

theorem isAscii_append {a b : Str} (ha : PyIO.isAscii a = true) (hb : PyIO.isAscii b = true) :
    PyIO.isAscii (a ++ b) = true := by
  unfold PyIO.isAscii at *
  rw [List.all_append, ha, hb]; rfl

theorem isAscii_cons {c : Char} {a : Str} (hc : c.toNat < 128) (ha : PyIO.isAscii a = true) :
    PyIO.isAscii (c :: a) = true := by
  unfold PyIO.isAscii at *
  simp [hc, ha]

/-- `EBB3.command(cmd)` on an acknowledged two-letter command: one write, one read, `True`, nothing else changes -/
theorem gen_command_ack (fuel : Nat) (obj : EBB3_Obj) (ext : Ext) (rest : List PyIO.Rd) (log : List (List Char)) (n : Nat)
    (c0 c1 : Char) (tl reply resp : List Char) (hobj : ReadyObj obj)
    (hc1 : c1 ≠ ',') (hs : strip (c0 :: c1 :: tl) = c0 :: c1 :: tl)
    (hasc : PyIO.isAscii (c0 :: c1 :: tl) = true)
    (hra : PyIO.isAscii reply = true) (hresp : strip reply = resp) (hne : resp ≠ [])
    (hsw : startsWith resp [c0, c1] = true) (herr : isInfix sErr resp = false) :
    EBB3_command (fuel + 1) (.str (c0 :: c1 :: tl)) ⟨obj, ⟨.line reply :: rest, [], log, n⟩, ext⟩ =
      .val (.bool true) ⟨obj, ⟨rest, [], log ++ [c0 :: c1 :: (tl ++ ['\r'])], n + 1⟩, ext⟩ := by
  obtain ⟨ho, he⟩ := hobj
  rw [← ebb3_strip_eq] at hs hresp
  rw [← ebb3_startsWith_eq] at hsw
  rw [← ebb3_hasSub_eq] at herr
  have herr : Ebb3.hasSub ['E', 'r', 'r', ':'] resp = false := herr
  obtain ⟨pn, port, ver, verp, name, err, caller⟩ := obj
  simp only at ho he
  subst ho he
  simp [EBB3_command, EBB3_command_main, PyObj.run, block, seq, EBB3_command_if1, ifte, or_, PyObj.bind, app1, getattr, ofP, op_is_none, op_is_not_none, isNone, ok, truthy, load, pass, assign, meth_strip, hs]
  have hlen : ¬ ((tl.length : Int) + 1 + 1 = 1) := by omega
  simp [hlen, EBB3_command_if2, EBB3_command_if3, ifte, app2, app1, app3, PyObj.bind, load, ok, ofP, op_len, op_eq, pyEq, truthy, op_getitem, intOf, normIdx, assign, hc1, op_slice, sliceBound, sliceList]
  have hasc' : PyIO.isAscii (c0 :: c1 :: (tl ++ ['\r'])) = true := by
    simp [PyIO.isAscii] at hasc ⊢
    exact hasc
  simp [tryExcept, EBB3_command_try1, block, seq, expr, eff2, eff1, PyObj.bind, getattr, app2, app1, load, ok, ofP, op_add, meth_encode, hasc', meth_write, assign, meth_readline, meth_decode, hra, meth_strip, hresp]
  have hl0 : ¬ ((resp.length : Int) = 0) := by
    cases resp with
    | nil => exact absurd rfl hne
    | cons a b => simp; omega
  have hl0b : ((resp.length : Int) == 0) = false := by simpa using hl0
  simp [EBB3_command_loop1, while_, whileLoop, EBB3_command_test1, and_, PyObj.bind, app2, app1, load, ok, ofP, op_len, op_eq, pyEq, truthy, hl0, hl0b,
    EBB3_command_if4, ifte, not_, meth_startswith, hsw, pass, EBB3_command_if7, op_in, herr, return_, getattr, op_is_none, isNone, b_bool]

/-- `EBB3.query(qry)` on an answered two-letter query `XX[,args]` whose reply is `XX,<payload>`: one write, one read,
the payload is returned, nothing else changes -/
theorem gen_query_data (fuel : Nat) (obj : EBB3_Obj) (ext : Ext) (rest : List PyIO.Rd) (log : List (List Char)) (n : Nat)
    (c0 c1 : Char) (tl reply payload : List Char) (hobj : ReadyObj obj)
    (hc1 : c1 ≠ ',') (hs : strip (c0 :: c1 :: tl) = c0 :: c1 :: tl)
    (hasc : PyIO.isAscii (c0 :: c1 :: tl) = true)
    (hra : PyIO.isAscii reply = true) (hresp : strip reply = c0 :: c1 :: ',' :: payload)
    (herr : isInfix sErr (c0 :: c1 :: ',' :: payload) = false) :
    EBB3_query (fuel + 1) (.str (c0 :: c1 :: tl)) ⟨obj, ⟨.line reply :: rest, [], log, n⟩, ext⟩ =
      .val (.str payload) ⟨obj, ⟨rest, [], log ++ [c0 :: c1 :: (tl ++ ['\r'])], n + 1⟩, ext⟩ := by
  obtain ⟨ho, he⟩ := hobj
  rw [← ebb3_strip_eq] at hs hresp
  rw [← ebb3_hasSub_eq] at herr
  have herr : Ebb3.hasSub ['E', 'r', 'r', ':'] (c0 :: c1 :: ',' :: payload) = false := herr
  obtain ⟨pn, port, ver, verp, name, err, caller⟩ := obj
  simp only at ho he
  subst ho he
  have hlen : ¬ ((tl.length : Int) + 1 + 1 = 1) := by omega
  have hasc' : PyIO.isAscii (c0 :: c1 :: (tl ++ ['\r'])) = true := by
    simp [PyIO.isAscii] at hasc ⊢
    exact hasc
  simp [EBB3_query, EBB3_query_main, PyObj.run, block, seq, EBB3_query_if1, ifte, or_, PyObj.bind, app1, getattr, ofP, op_is_none, op_is_not_none, isNone, ok, truthy, load, pass, assign, meth_strip, hs]
  simp [hlen, EBB3_query_if2, EBB3_query_if3, ifte, app2, app1, app3, PyObj.bind, load, ok, ofP, op_len, op_eq, pyEq, truthy, op_getitem, intOf, normIdx, assign, hc1, op_slice, sliceBound, sliceList]
  simp [tryExcept, EBB3_query_try1, block, seq, expr, eff2, eff1, PyObj.bind, getattr, app2, app1, load, ok, ofP, op_add, meth_encode, hasc', meth_write, assign, meth_readline, meth_decode, hra, meth_strip, hresp]
  have hl0b : ((payload.length : Int) + 1 + 1 + 1 == 0) = false := by
    simp; omega
  have hl2 : (2 : Int) < (payload.length : Int) + 1 + 1 + 1 := by omega
  have hsw : Ebb3.startsWith [c0, c1] (c0 :: c1 :: ',' :: payload) = true := by
    simp [Ebb3.startsWith]
  simp [EBB3_query_loop1, while_, whileLoop, EBB3_query_test1, and_, PyObj.bind, app2, app1, load, ok, ofP, op_len, op_eq, pyEq, truthy, hl0b,
    EBB3_query_if5, ifte, or_, not_, op_in, herr, meth_startswith, hsw, pass, assign,
    EBB3_query_if7, EBB3_query_if8, op_gt, ofOptBool, ltVal, intOf, hl2, op_getitem, normIdx, op_add, return_, app3, op_slice, sliceBound, sliceList]

end Plotink.C16
