import Plotink.Model.C13
import Mathlib.Tactic.Linarith
import Mathlib.Tactic.Ring
import Mathlib.Tactic.FieldSimp
import Mathlib.Algebra.Order.Ring.Rat
import Mathlib.Algebra.Order.Field.Basic

/-! C13: a point within one cell width of the query lies in the query's cell or one of its eight
neighbours (exact arithmetic). -/
namespace Plotink
namespace C13

theorem floor_le_floor_add_one {a b : Rat} (h : a ≤ b + 1) : a.floor ≤ b.floor + 1 := by
  have hb : b < ((b.floor + 1 : Int) : Rat) := Rat.floor_lt_iff.mp (by omega)
  have : a.floor < b.floor + 2 := by
    apply Rat.floor_lt_iff.mpr
    push_cast at hb ⊢
    linarith
  omega

theorem binClamp_close {bins : Nat} {lo size x x' : Rat} (hs : 0 < size) (h : x - x' ≤ size) :
    binClamp bins lo size x ≤ binClamp bins lo size x' + 1 := by
  have hab : (x - lo) / size ≤ (x' - lo) / size + 1 := by
    rw [← sub_nonneg]
    have e : (x' - lo) / size + 1 - (x - lo) / size = (size - (x - x')) / size := by
      field_simp; ring
    rw [e]
    apply div_nonneg <;> linarith
  have := floor_le_floor_add_one hab
  unfold binClamp binHi
  omega

theorem sq_bound {dx dy w : Rat} (hw : 0 ≤ w) (h : dx * dx + dy * dy ≤ w * w) : dx ≤ w ∧ -dx ≤ w := by
  constructor
  · by_contra hc
    have hc' : w < dx := not_le.mp hc
    nlinarith [mul_self_nonneg dy, mul_pos (lt_of_le_of_lt hw hc') (lt_of_le_of_lt hw hc')]
  · by_contra hc
    have hc' : w < -dx := not_le.mp hc
    nlinarith [mul_self_nonneg dy, mul_pos (lt_of_le_of_lt hw hc') (lt_of_le_of_lt hw hc')]

theorem near_of_close {G : Geo} (hbx : 0 < G.bx) (hby : 0 < G.by_) {q p : Pt}
    (h : sqDist q p ≤ min G.bx G.by_ * min G.bx G.by_) : Near (cellOf G q) (cellOf G p) := by
  have hw : 0 ≤ min G.bx G.by_ := le_min (le_of_lt hbx) (le_of_lt hby)
  have hwx : min G.bx G.by_ ≤ G.bx := min_le_left _ _
  have hwy : min G.bx G.by_ ≤ G.by_ := min_le_right _ _
  unfold sqDist at h
  simp only [] at h
  have hx := sq_bound hw h
  have hy := sq_bound (dx := q.2 - p.2) (dy := q.1 - p.1) hw (by linarith)
  unfold Near cellOf
  refine ⟨?_, ?_, ?_, ?_⟩
  · exact binClamp_close hbx (by linarith [hx.1])
  · exact binClamp_close hbx (by linarith [hx.2])
  · exact binClamp_close hby (by linarith [hy.1])
  · exact binClamp_close hby (by linarith [hy.2])

end C13
end Plotink
