import Plotink.Gen.getLength
import Plotink.Gen.getLengthInches
import Plotink.Proofs.C12Gen

/-! # C12 — the source-regenerated document-attribute readers `getLength` / `getLengthInches`

Regenerated from `plotink/plot_utils.py` on every run.  The opaque lookup `altself.document.getroot().get(name)` is not
translated: the translator replaces it by the parameter `attr_name` of the generated function — the attribute text
(`.str s`) or `None` for an absent attribute (recorded as `abstracted` in `Gen/report.json`).

Exact arithmetic, float literals as the doubles the source denotes (as in `Proofs/C12Gen.lean`).  Both functions write
the unit table the way `userUnitToUnits` does (`25.4`, `2.54`, `40.0 * 2.54`), so their factor is `genBackFactor`:

* `len_tables` — `getLength` is value × `genBackFactor u`; `inch_tables` — `getLengthInches` is value × `genBackFactor u` / 96
  (hence pixels = 96 × inches *exactly*, `gen_attr_px_inch`);
* `len_percent`, `inch_percent` — `%` of the supplied default (every number, 0 included) / `None`;
* `len_absent`, `inch_absent` — absent attribute or empty text; `len_reject`, `inch_reject` — text the parser rejects;
* `len_eq_uu` — `getLength` and `unitsToUserUnits` agree on every unit but `Q`; for `Q` up to relative `2^-52`
  (`len_uu_Q`: `40.0 * 2.54` and `101.6` are two different doubles). -/

namespace Plotink
namespace C12
open Py Py.Val PyFloat
set_option linter.unusedSimpArgs false

theorem parse_nonempty (s : String) (v : Num) (u : List Char) (hp : parseLength (some s.toList) = some (v, u)) :
    Py.truthy (.str s) = true := by
  have hne : s ≠ "" := by
    rintro rfl
    have : parseLength (some ("" : String).toList) = none := by decide +kernel
    rw [this] at hp
    cases hp
  simp [Py.truthy, hne]

theorem mul_lit (p : Nat) (a b : Rat) : Py.mul Rounding.exact p (.flt a) (.flt b) = .flt (a * b) := rfl

/-- `getLength`, regenerated, exact arithmetic: value × factor, whatever the default -/
theorem len_tables (amb : Nat) (s : String) (dv : Val) (v g : Rat) (u : List Char)
    (hp : parseLength (some s.toList) = some (.fin v, u)) (hg : genBackFactor u = some g) :
    Gen.getLength Rounding.exact amb (.str s) dv = .flt (v * g) := by
  have hpar := (parse_bridge Rounding.exact amb s).2 v u hp
  have hid : Rounding.exact.f64 v = v := rfl
  rw [hid] at hpar
  have htr := parse_nonempty s _ u hp
  unfold Gen.getLength
  simp only [htr, if_true, hpar, Py.unpackN_tup2, Py.getItem_cons_zero, Py.getItem_cons_succ, Py.isNone, float_flt, mul_exact]
  have n1 : ((3574732204225331 : Rat) / 140737488355328) ≠ 0 := by norm_num
  have n2 : ((2859785763380265 : Rat) / 1125899906842624) ≠ 0 := by norm_num
  have n4 : (6 : Rat) ≠ 0 := by norm_num
  have n5 : (72 : Rat) ≠ 0 := by norm_num
  have n7 : (40 : Rat) ≠ 0 := by norm_num
  rcases genBackFactor_cases u g hg with h | h | h | h | h | h | h | h | h <;> obtain ⟨rfl, rfl⟩ := h <;>
    (try simp only [lit25_4, lit2_54]) <;>
    generalize ((3574732204225331 : Rat) / 140737488355328) = c1 at n1 ⊢ <;>
    generalize ((2859785763380265 : Rat) / 1125899906842624) = c2 at n2 ⊢ <;>
    generalize (6 : Rat) = c4 at n4 ⊢ <;>
    generalize (72 : Rat) = c5 at n5 ⊢ <;>
    generalize (40 : Rat) = c7 at n7 ⊢ <;>
    simp only [eq_ofL_str, lit_empty, lit_px, lit_in, lit_mm, lit_cm, lit_pt, lit_pc, lit_Q, lit_q, lit_pct] <;>
    simp only [List.cons.injEq, Char.reduceEq, reduceCtorEq, and_true, and_false, false_and, and_self, decide_true, decide_false, Bool.or_false, Bool.false_or, Bool.or_true, Bool.true_or, Bool.or_self, Bool.false_eq_true, if_true, if_false]
  · rw [mul_one]
  · rw [mul_one]
  · rw [div_exact _ _ _ n1]; exact congrArg Val.flt (by ring)
  · rw [div_exact _ _ _ n2]; exact congrArg Val.flt (by ring)
  · rw [div_exact _ _ _ (mul_ne_zero n7 n2)]; exact congrArg Val.flt (by ring)
  · rw [div_exact _ _ _ (mul_ne_zero n7 n2)]; exact congrArg Val.flt (by ring)
  · rw [div_exact _ _ _ n4]; exact congrArg Val.flt (by ring)
  · rw [div_exact _ _ _ n5]; exact congrArg Val.flt (by ring)

/-- `getLengthInches`, regenerated, exact arithmetic: value × factor / 96 -/
theorem inch_tables (amb : Nat) (s : String) (v g : Rat) (u : List Char)
    (hp : parseLength (some s.toList) = some (.fin v, u)) (hg : genBackFactor u = some g) :
    Gen.getLengthInches Rounding.exact amb (.str s) = .flt (v * g / 96) := by
  have hpar := (parse_bridge Rounding.exact amb s).2 v u hp
  have hid : Rounding.exact.f64 v = v := rfl
  rw [hid] at hpar
  have htr := parse_nonempty s _ u hp
  unfold Gen.getLengthInches
  simp only [htr, if_true, hpar, Py.unpackN_tup2, Py.getItem_cons_zero, Py.getItem_cons_succ, Py.isNone, float_flt, mul_exact]
  have n1 : ((3574732204225331 : Rat) / 140737488355328) ≠ 0 := by norm_num
  have n2 : ((2859785763380265 : Rat) / 1125899906842624) ≠ 0 := by norm_num
  have n4 : (6 : Rat) ≠ 0 := by norm_num
  have n5 : (72 : Rat) ≠ 0 := by norm_num
  have n6 : (96 : Rat) ≠ 0 := by norm_num
  have n7 : (40 : Rat) ≠ 0 := by norm_num
  rcases genBackFactor_cases u g hg with h | h | h | h | h | h | h | h | h <;> obtain ⟨rfl, rfl⟩ := h <;>
    (try simp only [lit25_4, lit2_54]) <;>
    generalize ((3574732204225331 : Rat) / 140737488355328) = c1 at n1 ⊢ <;>
    generalize ((2859785763380265 : Rat) / 1125899906842624) = c2 at n2 ⊢ <;>
    generalize (6 : Rat) = c4 at n4 ⊢ <;>
    generalize (72 : Rat) = c5 at n5 ⊢ <;>
    generalize (96 : Rat) = c6 at n6 ⊢ <;>
    generalize (40 : Rat) = c7 at n7 ⊢ <;>
    simp only [eq_ofL_str, lit_empty, lit_px, lit_in, lit_mm, lit_cm, lit_pt, lit_pc, lit_Q, lit_q, lit_pct] <;>
    simp only [List.cons.injEq, Char.reduceEq, reduceCtorEq, and_true, and_false, false_and, and_self, decide_true, decide_false, Bool.or_false, Bool.false_or, Bool.or_true, Bool.true_or, Bool.or_self, Bool.false_eq_true, if_true, if_false]
  · rw [div_exact _ _ _ n6, mul_one]
  · rw [div_exact _ _ _ n6, mul_one]
  · exact congrArg Val.flt (by field_simp)
  · rw [div_exact _ _ _ n1]; exact congrArg Val.flt (by field_simp)
  · rw [div_exact _ _ _ n2]; exact congrArg Val.flt (by field_simp)
  · rw [div_exact _ _ _ (mul_ne_zero n7 n2)]; exact congrArg Val.flt (by field_simp)
  · rw [div_exact _ _ _ (mul_ne_zero n7 n2)]; exact congrArg Val.flt (by field_simp)
  · rw [div_exact _ _ _ n4]; exact congrArg Val.flt (by field_simp)
  · rw [div_exact _ _ _ n5]; exact congrArg Val.flt (by field_simp)

/-- the parser only ever yields the eight canonical units, each of which has a factor or is `%` -/
theorem unit_factor_or_pct (s : Option (List Char)) (v : Num) (u : List Char) (hp : parseLength s = some (v, u)) :
    u = ['%'] ∨ ∃ g, genBackFactor u = some g := by
  have hu := parseLength_unit_mem s v u hp
  simp only [List.mem_cons, List.not_mem_nil, or_false] at hu
  rcases hu with rfl | rfl | rfl | rfl | rfl | rfl | rfl | rfl
  · exact Or.inr ⟨1, by decide +kernel⟩
  · exact Or.inr ⟨96, by decide +kernel⟩
  · exact Or.inr ⟨96 / lit25_4, by decide +kernel⟩
  · exact Or.inr ⟨96 / lit2_54, by decide +kernel⟩
  · exact Or.inr ⟨96 / 72, by decide +kernel⟩
  · exact Or.inr ⟨96 / 6, by decide +kernel⟩
  · exact Or.inr ⟨96 / (40 * lit2_54), by decide +kernel⟩
  · exact Or.inl rfl

/-- pixels = 96 × inches, exactly, on every unit both readers accept and for every default -/
theorem gen_attr_px_inch (amb : Nat) (s : String) (dv : Val) (v : Rat) (u : List Char)
    (hp : parseLength (some s.toList) = some (.fin v, u)) (hu : u ≠ ['%']) :
    ∃ px inch, Gen.getLength Rounding.exact amb (.str s) dv = .flt px ∧
      Gen.getLengthInches Rounding.exact amb (.str s) = .flt inch ∧ px = 96 * inch := by
  rcases unit_factor_or_pct _ _ u hp with h | ⟨g, hg⟩
  · exact absurd h hu
  · exact ⟨v * g, v * g / 96, len_tables amb s dv v g u hp hg, inch_tables amb s v g u hp hg, by ring⟩

/-- percentages: `getLength` takes them of the default — every number, `0` included -/
theorem len_percent (amb : Nat) (s : String) (v : Rat) (hp : parseLength (some s.toList) = some (.fin v, ['%']))
    (rv : Val) (r : Rat) (hr : IsNum rv r) :
    Gen.getLength Rounding.exact amb (.str s) rv = .flt (r * v / 100) := by
  have hpar := (parse_bridge Rounding.exact amb s).2 v _ hp
  have hid : Rounding.exact.f64 v = v := rfl
  rw [hid] at hpar
  have htr := parse_nonempty s _ _ hp
  have n100 : (100 : Rat) ≠ 0 := by norm_num
  unfold Gen.getLength
  simp only [htr, if_true, hpar, Py.unpackN_tup2, Py.getItem_cons_zero, Py.getItem_cons_succ, float_flt]
  generalize (100 : Rat) = c at n100 ⊢
  rcases hr with rfl | ⟨z, rfl, rfl⟩ <;>
    simp only [Py.isNone, float_flt, float_int_exact, mul_exact, eq_ofL_str, lit_empty, lit_px, lit_in, lit_mm, lit_cm, lit_pt, lit_pc, lit_Q, lit_q, lit_pct] <;>
    simp only [List.cons.injEq, Char.reduceEq, reduceCtorEq, and_true, and_false, false_and, and_self, decide_true, decide_false, Bool.or_false, Bool.false_or, Bool.or_true, Bool.true_or, Bool.or_self, Bool.false_eq_true, if_true, if_false, Bool.not_false] <;>
    exact div_exact _ _ _ n100

/-- percentages: `getLengthInches` has no reference to take them of — `None` (every rounding mode) -/
theorem inch_percent (R : Rounding) (amb : Nat) (s : String) (v : Rat)
    (hp : parseLength (some s.toList) = some (.fin v, ['%'])) :
    Gen.getLengthInches R amb (.str s) = .none_ := by
  have hpar := (parse_bridge R amb s).2 v _ hp
  have htr := parse_nonempty s _ _ hp
  unfold Gen.getLengthInches
  simp only [htr, if_true, hpar, Py.unpackN_tup2, Py.getItem_cons_zero, Py.getItem_cons_succ, Py.isNone]
  simp only [eq_ofL_str, lit_empty, lit_px, lit_in, lit_mm, lit_cm, lit_pt, lit_pc, lit_Q, lit_q, lit_pct]
  simp only [List.cons.injEq, Char.reduceEq, reduceCtorEq, and_true, and_false, false_and, and_self, decide_true, decide_false, Bool.or_false, Bool.false_or, Bool.or_true, Bool.true_or, Bool.or_self, Bool.false_eq_true, if_true, if_false]

/-- absent attribute (`None`) or empty text: `getLength` returns `float(default)`, `getLengthInches` `None` -/
theorem len_absent (R : Rounding) (amb : Nat) (dv : Val) :
    Gen.getLength R amb .none_ dv = Py.float_ R dv ∧ Gen.getLength R amb (.str "") dv = Py.float_ R dv := ⟨rfl, rfl⟩
theorem inch_absent (R : Rounding) (amb : Nat) :
    Gen.getLengthInches R amb .none_ = .none_ ∧ Gen.getLengthInches R amb (.str "") = .none_ := ⟨rfl, rfl⟩

/-- text the parser rejects: `None` from both, whatever the default (every rounding mode) -/
theorem len_reject (R : Rounding) (amb : Nat) (s : String) (dv : Val) (hs : s ≠ "")
    (h : parseLength (some s.toList) = none) : Gen.getLength R amb (.str s) dv = .none_ := by
  have hpar := (parse_bridge R amb s).1 h
  have htr : Py.truthy (.str s) = true := by simp [Py.truthy, hs]
  unfold Gen.getLength
  simp only [htr, if_true, hpar, Py.unpackN_tup2, Py.getItem_cons_zero, Py.isNone]
theorem inch_reject (R : Rounding) (amb : Nat) (s : String)
    (h : parseLength (some s.toList) = none) : Gen.getLengthInches R amb (.str s) = .none_ := by
  have hpar := (parse_bridge R amb s).1 h
  unfold Gen.getLengthInches
  by_cases htr : Py.truthy (.str s) = true
  · simp only [htr, if_true, hpar, Py.unpackN_tup2, Py.getItem_cons_zero, Py.isNone]
  · simp only [htr, if_false, Bool.false_eq_true]

/-- `getLength` and `unitsToUserUnits` return the same value on the same text and reference, for every unit but `Q` -/
theorem len_eq_uu (amb : Nat) (s : String) (v : Rat) (u : List Char)
    (hp : parseLength (some s.toList) = some (.fin v, u)) (hQ : u ≠ ['Q']) (rv : Val) (r : Rat) (hr : IsNum rv r) :
    Gen.getLength Rounding.exact amb (.str s) rv = Gen.unitsToUserUnits Rounding.exact amb (.str s) rv := by
  have hu := parseLength_unit_mem (some s.toList) _ u hp
  simp only [List.mem_cons, List.not_mem_nil, or_false] at hu
  have same : ∀ f : Rat, genFactor u = some f → genBackFactor u = some f →
      Gen.getLength Rounding.exact amb (.str s) rv = Gen.unitsToUserUnits Rounding.exact amb (.str s) rv := by
    intro f h1 h2
    rw [len_tables amb s rv v f u hp h2, uu_tables amb s rv v f u hp h1]
  rcases hu with rfl | rfl | rfl | rfl | rfl | rfl | rfl | rfl
  · exact same 1 (by decide +kernel) (by decide +kernel)
  · exact same 96 (by decide +kernel) (by decide +kernel)
  · exact same (96 / lit25_4) (by decide +kernel) (by decide +kernel)
  · exact same (96 / lit2_54) (by decide +kernel) (by decide +kernel)
  · exact same (96 / 72) (by decide +kernel) (by decide +kernel)
  · exact same (96 / 6) (by decide +kernel) (by decide +kernel)
  · exact absurd rfl hQ
  · rw [len_percent amb s v hp rv r hr, (uu_percent amb s v hp).2 rv r hr]
    exact congrArg Val.flt (by ring)

/-- for `Q` the two differ by the representation of the factor (`40.0 * 2.54` here, `101.6` there): relative `2^-52` -/
theorem len_uu_Q (amb : Nat) (s : String) (v : Rat) (hp : parseLength (some s.toList) = some (.fin v, ['Q'])) (rv : Val) :
    ∃ a b, Gen.getLength Rounding.exact amb (.str s) rv = .flt a ∧
      Gen.unitsToUserUnits Rounding.exact amb (.str s) rv = .flt b ∧ |a - b| ≤ |b| / 2 ^ 52 := by
  refine ⟨v * (96 / (40 * lit2_54)), v * (96 / lit101_6),
    len_tables amb s rv v _ _ hp (by decide +kernel), uu_tables amb s rv v _ _ hp (by decide +kernel), ?_⟩
  have e : v * (96 / (40 * lit2_54)) - v * (96 / lit101_6) = v * (96 / lit101_6) * (lit101_6 / (40 * lit2_54) - 1) := by
    unfold lit101_6 lit2_54; field_simp
  rw [e, abs_mul]
  have hb : |lit101_6 / (40 * lit2_54) - 1| ≤ 1 / 2 ^ 52 := by
    rw [abs_le]; unfold lit101_6 lit2_54; constructor <;> norm_num
  calc |v * (96 / lit101_6)| * |lit101_6 / (40 * lit2_54) - 1| ≤ |v * (96 / lit101_6)| * (1 / 2 ^ 52) :=
        mul_le_mul_of_nonneg_left hb (abs_nonneg _)
    _ = |v * (96 / lit101_6)| / 2 ^ 52 := by ring

end C12
end Plotink
