import Plotink.Proofs.C03Basic
import Plotink.Proofs.C03Quad
/-! # C03 — layer 4: the model returns the first tick (branches with `accel > 0`, and `accel = 0 < rate`) -/
namespace Plotink
namespace C03
open Fw

/-- per-tick rate with an integer index -/
def rz (rate accel k : Int) : Int := rate - tdiv accel 2 + k * accel

theorem ltRate_rz (rate accel : Int) (k : Nat) : ltRate rate accel k = rz rate accel k := ltRate_eq ..

theorem rz_pair (rate accel t : Int) :
    rz rate accel t + rz rate accel (t + 1) = kk rate accel + 2 * accel * t := by
  unfold rz kk; ring

theorem r1_eq (rate accel : Int) : r1 rate accel = rz rate accel 1 := by unfold r1 rz; ring

theorem rz_mono (rate accel : Int) (ha : 0 ≤ accel) {s t : Int} (h : s ≤ t) :
    rz rate accel s ≤ rz rate accel t := by
  unfold rz; nlinarith

/-- `q` with `c = a0 − L` is twice the distance of the total from the level `L` -/
theorem qq_tot (rate accel a0 L : Int) (t : Nat) :
    qq accel (kk rate accel) (a0 - L) t = 2 * (ltTotal rate accel t a0 - L) := by
  have := ltTotal_two rate accel a0 t
  unfold qq; linarith

theorem two31_pos : (0 : Int) < two31 := by decide

theorem le_pos_iff (rate accel a0 m : Int) (t : Nat) :
    m ≤ ltPos rate accel a0 t ↔ m * two31 ≤ ltTotal rate accel t a0 := by
  unfold ltPos; exact Int.le_ediv_iff_mul_le two31_pos

theorem pos_le_iff (rate accel a0 m : Int) (t : Nat) :
    ltPos rate accel a0 t ≤ m ↔ ltTotal rate accel t a0 < (m + 1) * two31 := by
  unfold ltPos
  rw [← Int.lt_add_one_iff, Int.ediv_lt_iff_lt_mul two31_pos]

theorem pos0 (rate accel a0 : Int) (h0 : 0 ≤ a0) (h1 : a0 < two31) : ltPos rate accel a0 0 = 0 := by
  rw [ltPos_zero]; unfold two31 at *; omega

/-- within the rate range exactly `n` steps have been made at the first tick -/
theorem taken_exact (rate accel a0 n : Int) (T : Nat) (hF : IsFirst rate accel a0 n T)
    (hR : ∀ k : Nat, 1 ≤ k → k ≤ T →
      -(two31 - 1) ≤ ltRate rate accel k ∧ ltRate rate accel k ≤ two31 - 1) :
    ltTaken rate accel a0 T = n := by
  obtain ⟨h1, h2, h3⟩ := hF
  obtain ⟨t, rfl⟩ : ∃ t, T = t + 1 := ⟨T - 1, by omega⟩
  have := ltTaken_succ_le_one rate accel a0 t (hR (t + 1) (by omega) (le_refl _))
  have := h3 t (by omega)
  omega

/-- the accumulator reported by the model is the total reduced mod 2^31, once the position is right -/
theorem accFinal_eq (rate accel a0 : Int) (T : Nat) (h0 : 0 ≤ a0) (h1 : a0 < two31) :
    accFinal rate accel a0 (ltPos rate accel a0 T - ltPos rate accel a0 0) T
      = ltTotal rate accel T a0 % two31 := by
  have h2 := ltTotal_two rate accel a0 T
  unfold accFinal
  rw [pos0 rate accel a0 h0 h1]
  have e : (kk rate accel * (T : Int) + accel * T * T) = 2 * (ltTotal rate accel T a0 - a0) := by linarith
  rw [e, Int.mul_ediv_cancel_left _ (by decide : (2 : Int) ≠ 0)]
  unfold ltPos
  rw [Int.emod_def]; ring

/-- hypotheses shared by all branches: positive budget, accumulator in range, `T` is the first tick, rates
in range up to `T` -/
structure Ctx (rate accel a0 n : Int) (T : Nat) : Prop where
  hn : 1 ≤ n
  h0 : 0 ≤ a0
  h1 : a0 < two31
  hF : IsFirst rate accel a0 n T
  hR : ∀ k : Nat, 1 ≤ k → k ≤ T → -(two31 - 1) ≤ ltRate rate accel k ∧ ltRate rate accel k ≤ two31 - 1

/-- the target triple of the Spec -/
def target (rate accel a0 : Int) (T : Nat) : Int × Int × Int :=
  ((T : Int), ltPos rate accel a0 T - ltPos rate accel a0 0, ltTotal rate accel T a0 % two31)

/-- assembling the result once time and position are known -/
theorem lmPosA_of (rate accel a0 n : Int) (T : Nat) (h0 : 0 ≤ a0) (h1 : a0 < two31)
    (ht : timeFinal n rate accel a0 = T)
    (hp : posFinal n rate accel a0 = ltPos rate accel a0 T - ltPos rate accel a0 0) :
    lmPosA n rate accel a0 = target rate accel a0 T := by
  unfold lmPosA target
  simp only [ht, hp, accFinal_eq rate accel a0 T h0 h1]

/-- a tick at which the budget is reached is not before the first tick -/
theorem first_le (rate accel a0 n : Int) (T : Nat) (hF : IsFirst rate accel a0 n T) (t : Int)
    (ht : 0 ≤ t) (h : n ≤ ltTaken rate accel a0 t.toNat) : (T : Int) ≤ t := by
  by_contra hc
  have := hF.2.2 t.toNat (by omega)
  omega

/-- **Branch: acceleration positive, no reversal at all** (every rate from tick 1 on is non-negative) -/
theorem lmPosA_up_norev (rate accel a0 n : Int) (T : Nat) (ha : 0 < accel) (C : Ctx rate accel a0 n T)
    (hup : ∀ k : Nat, 1 ≤ k → 0 ≤ ltRate rate accel k)
    (hnr : tRev rate accel < 1 ∨ (tRev rate accel = 1 ∧ r1 rate accel = 0)) :
    lmPosA n rate accel a0 = target rate accel a0 T := by
  obtain ⟨hn, h0, h1, hF, hR⟩ := C
  have hr1 : 0 ≤ r1 rate accel := by
    have := hup 1 (le_refl _)
    rw [ltRate_rz] at this; rw [r1_eq]; exact_mod_cast this
  have hneg : ¬ isNeg rate accel := by unfold isNeg; omega
  have hnoRev : noRev n rate accel a0 := by unfold noRev; tauto
  have hpf : posFinal n rate accel a0 = n := by simp [posFinal, hnoRev, hneg]
  have htk : ∀ t : Nat, ltTaken rate accel a0 t = ltPos rate accel a0 t := by
    intro t
    have := ltTaken_up rate accel a0 0 t (Nat.zero_le _) (fun k hk _ => hup k hk)
    rw [this, ltTaken_zero, pos0 rate accel a0 h0 h1]; ring
  have hreach : ∀ t : Nat, n ≤ ltTaken rate accel a0 t ↔ 0 ≤ qq accel (kk rate accel) (a0 - n * two31) t := by
    intro t
    rw [htk, le_pos_iff, qq_tot]; omega
  apply lmPosA_of _ _ _ _ _ h0 h1
  · have hc : cFactor n rate accel a0 = a0 - n * two31 := by
      simp [cFactor, tRevEff, posAdj, adjOf, hnoRev, hneg, hpf]
    have hte : tRevEff n rate accel a0 = -1 := by simp [tRevEff, hnoRev]
    unfold timeFinal
    rw [if_neg (by omega), hc, hte]
    apply quadTime_up accel _ _ (-1) 0 T ha (le_refl _) (Or.inr ⟨by omega, rfl⟩)
    · unfold qq; unfold two31 at *; nlinarith
    · have := hF.1; omega
    · have := rz_pair rate accel T
      have a := hup T hF.1
      have b := hup (T + 1) (by omega)
      rw [ltRate_rz] at a b
      push_cast at b
      linarith
    · exact (hreach T).mp hF.2.1
    · intro t ht hq
      apply first_le rate accel a0 n T hF t (by omega)
      rw [hreach, Int.toNat_of_nonneg (by omega)]; exact hq
  · rw [hpf, ← htk, pos0 rate accel a0 h0 h1]
    have := taken_exact rate accel a0 n T hF hR
    omega

theorem tdiv_pos (accel : Int) (ha : 0 < accel) : 2 * tdiv accel 2 ≤ accel ∧ accel ≤ 2 * tdiv accel 2 + 1 := by
  unfold tdiv; rw [if_pos (le_of_lt ha)]; omega

/-- the reversal tick: last tick whose rate is still non-positive (acceleration positive, rate negative) -/
theorem tRev_facts (rate accel : Int) (ha : 0 < accel) (hr : rate < 0) :
    0 ≤ tRev rate accel ∧ rz rate accel (tRev rate accel) ≤ 0 ∧ 0 < rz rate accel (tRev rate accel + 1) := by
  unfold tRev
  rw [if_pos ⟨ha, hr⟩]
  have h2a : (0 : Int) < 2 * accel := by omega
  have e1 := Int.ediv_mul_le (accel - 2 * rate) (ne_of_gt h2a)
  have e2 := Int.lt_ediv_add_one_mul_self (accel - 2 * rate) h2a
  have e0 : 0 ≤ (accel - 2 * rate) / (2 * accel) := Int.ediv_nonneg (by omega) (by omega)
  obtain ⟨t1, t2⟩ := tdiv_pos accel ha
  refine ⟨e0, ?_, ?_⟩
  · unfold rz
    generalize (accel - 2 * rate) / (2 * accel) = τ at *
    have : τ * (2 * accel) = 2 * (τ * accel) := by ring
    rw [this] at e1
    generalize τ * accel = m at *
    omega
  · unfold rz
    generalize (accel - 2 * rate) / (2 * accel) = τ at *
    have : (τ + 1) * (2 * accel) = 2 * ((τ + 1) * accel) := by ring
    rw [this] at e2
    generalize (τ + 1) * accel = m at *
    omega

/-- facts shared by the two reversal branches with positive acceleration -/
structure RevUp (rate accel a0 : Int) (τn : Nat) : Prop where
  hτ : (τn : Int) = tRev rate accel
  hτ1 : 1 ≤ τn
  hdown : ∀ k : Nat, k ≤ τn → ltRate rate accel k ≤ 0
  hupS : ∀ k : Nat, τn < k → 0 < ltRate rate accel k
  hr1 : r1 rate accel < 0
  hneg : isNeg rate accel
  htk : ∀ t : Nat, t ≤ τn → ltTaken rate accel a0 t = -ltPos rate accel a0 t
  hsrev : sRev rate accel a0 = ltTaken rate accel a0 τn
  htk2 : ∀ t : Nat, τn ≤ t →
    ltTaken rate accel a0 t = ltPos rate accel a0 t + 2 * sRev rate accel a0

theorem revUp_intro (rate accel a0 : Int) (ha : 0 < accel) (hr : rate < 0) (h0 : 0 ≤ a0) (h1 : a0 < two31)
    (hτ1 : 1 ≤ tRev rate accel) (hne : ¬ (tRev rate accel = 1 ∧ r1 rate accel = 0)) :
    ∃ τn : Nat, RevUp rate accel a0 τn := by
  obtain ⟨f0, f1, f2⟩ := tRev_facts rate accel ha hr
  obtain ⟨τn, hτn⟩ := Int.eq_ofNat_of_zero_le f0
  refine ⟨τn, ?_⟩
  have hdown : ∀ k : Nat, k ≤ τn → ltRate rate accel k ≤ 0 := by
    intro k hk
    rw [ltRate_rz]
    exact le_trans (rz_mono rate accel (le_of_lt ha) (by rw [hτn]; exact_mod_cast hk)) f1
  have hupS : ∀ k : Nat, τn < k → 0 < ltRate rate accel k := by
    intro k hk
    rw [ltRate_rz]
    refine lt_of_lt_of_le f2 (rz_mono rate accel (le_of_lt ha) ?_)
    rw [hτn]; exact_mod_cast hk
  have hτ1' : 1 ≤ τn := by omega
  have hr1 : r1 rate accel < 0 := by
    have a1 := hdown 1 hτ1'
    rw [ltRate_rz] at a1
    rw [r1_eq]
    rcases lt_or_eq_of_le a1 with h | h
    · exact_mod_cast h
    · exfalso
      apply hne
      have h' : rz rate accel 1 = 0 := by exact_mod_cast h
      refine ⟨?_, by rw [r1_eq]; exact h'⟩
      by_contra hc
      have a2 := hdown 2 (by omega)
      rw [ltRate_rz] at a2
      unfold rz at a2 h'
      push_cast at a2
      omega
  have hneg : isNeg rate accel := Or.inl hr1
  have htk : ∀ t : Nat, t ≤ τn → ltTaken rate accel a0 t = -ltPos rate accel a0 t := by
    intro t ht
    have := ltTaken_down rate accel a0 0 t (Nat.zero_le _) (fun k _ hk => hdown k (by omega))
    rw [this, ltTaken_zero, pos0 rate accel a0 h0 h1]; ring
  have hsrev : sRev rate accel a0 = ltTaken rate accel a0 τn := by
    rw [htk τn (le_refl _)]
    have hge := ltTaken_nonneg rate accel a0 τn
    rw [htk τn (le_refl _)] at hge
    have h2 := ltTotal_two rate accel a0 τn
    unfold sRev sRev2
    rw [if_pos (by omega)]
    simp only [adjOf, hneg, if_true]
    rw [hτn]
    unfold ltPos at hge ⊢
    generalize ltTotal rate accel τn a0 = x at *
    have e : kk rate accel * (τn : Int) + accel * τn * τn + 2 * (a0 - (two31 - 1)) = 2 * (x - (two31 - 1)) := by
      linarith
    rw [e]
    unfold two31 at *
    omega
  refine ⟨hτn.symm, hτ1', hdown, hupS, hr1, hneg, htk, hsrev, ?_⟩
  intro t ht
  have := ltTaken_up rate accel a0 τn t ht (fun k hk _ => le_of_lt (hupS k hk))
  rw [this, hsrev, htk τn (le_refl _)]; ring

/-- **Branch: acceleration positive, start backward, the budget is used up by the reversal tick** -/
theorem lmPosA_up_before (rate accel a0 n : Int) (T τn : Nat) (ha : 0 < accel) (C : Ctx rate accel a0 n T)
    (V : RevUp rate accel a0 τn) (hb : n ≤ sRev rate accel a0) :
    lmPosA n rate accel a0 = target rate accel a0 T := by
  obtain ⟨hn, h0, h1, hF, hR⟩ := C
  obtain ⟨hτ, hτ1, hdown, hupS, hr1, hneg, htk, hsrev, htk2⟩ := V
  have hnoRev : noRev n rate accel a0 := by unfold noRev; tauto
  have hpf : posFinal n rate accel a0 = -n := by simp [posFinal, hnoRev, hneg]
  have hTτ : T ≤ τn := by
    have := first_le rate accel a0 n T hF τn (by omega) (by rw [Int.toNat_natCast, ← hsrev]; exact hb)
    exact_mod_cast this
  have hreach : ∀ t : Nat, t ≤ τn →
      (n ≤ ltTaken rate accel a0 t ↔ qq accel (kk rate accel) (a0 - (two31 - 1 - n * two31)) t ≤ 0) := by
    intro t ht
    rw [htk t ht, qq_tot]
    have := pos_le_iff rate accel a0 (-n) t
    constructor
    · intro h; have := this.mp (by omega); linarith
    · intro h; have := this.mpr (by linarith); omega
  apply lmPosA_of _ _ _ _ _ h0 h1
  · have hc : cFactor n rate accel a0 = a0 - (two31 - 1 - n * two31) := by
      simp [cFactor, tRevEff, posAdj, adjOf, hnoRev, hneg, hpf]; ring
    have hte : tRevEff n rate accel a0 = -1 := by simp [tRevEff, hnoRev]
    unfold timeFinal
    rw [if_neg (by omega), hc, hte]
    have hK : kk rate accel < 0 := by
      have := rz_pair rate accel 0
      rw [r1_eq] at hr1
      have e : rz rate accel 0 = rz rate accel 1 - accel := by unfold rz; ring
      simp only [zero_add, mul_zero, add_zero] at this
      omega
    apply quadTime_down accel _ _ (-1) T ha (by omega)
    · unfold qq; unfold two31 at *; nlinarith
    · exact hK
    · exact_mod_cast hF.1
    · exact (hreach T hTτ).mp hF.2.1
    · intro t ht1 htT hdis
      rcases hdis with hq | hv
      · apply first_le rate accel a0 n T hF t (by omega)
        rw [hreach _ (by omega), Int.toNat_of_nonneg (by omega)]; exact hq
      · by_contra hc
        have hlt : t < τn := by omega
        have a := hdown t.toNat (by omega)
        have b := hdown (t.toNat + 1) (by omega)
        rw [ltRate_rz] at a b
        push_cast at b
        rw [Int.toNat_of_nonneg (by omega)] at a b
        have := rz_pair rate accel t
        have e : rz rate accel (t + 1) = rz rate accel t + accel := by unfold rz; ring
        omega
  · rw [hpf, pos0 rate accel a0 h0 h1]
    have := taken_exact rate accel a0 n T hF hR
    rw [htk T hTτ] at this
    omega

/-- **Branches: acceleration positive, start backward, reversal inside the move** (no step or some steps
made before the reversal; the remaining steps are made forward after it) -/
theorem lmPosA_up_after (rate accel a0 n : Int) (T τn : Nat) (ha : 0 < accel) (C : Ctx rate accel a0 n T)
    (V : RevUp rate accel a0 τn) (hne : ¬ (tRev rate accel = 1 ∧ r1 rate accel = 0))
    (hb : sRev rate accel a0 < n) :
    lmPosA n rate accel a0 = target rate accel a0 T := by
  obtain ⟨hn, h0, h1, hF, hR⟩ := C
  obtain ⟨hτ, hτ1, hdown, hupS, hr1, hneg, htk, hsrev, htk2⟩ := V
  have hnoRev : ¬ noRev n rate accel a0 := by
    unfold noRev; rw [← hτ]; push_cast
    rintro (h | h | h)
    · omega
    · apply hne; rw [← hτ]; exact h
    · omega
  have hpf : posFinal n rate accel a0 = n - 2 * sRev rate accel a0 := by
    unfold posFinal
    rw [if_neg hnoRev]
    split_ifs with hs
    · rw [hs]; ring
    · ring
  have hτT : τn < T := by
    by_contra hc
    have := ltTaken_mono rate accel a0 (not_lt.mp hc)
    have := hF.2.1
    omega
  have hreach : ∀ t : Nat, τn ≤ t →
      (n ≤ ltTaken rate accel a0 t ↔
        0 ≤ qq accel (kk rate accel) (a0 - (n - 2 * sRev rate accel a0) * two31) t) := by
    intro t ht
    rw [htk2 t ht, qq_tot]
    have := le_pos_iff rate accel a0 (n - 2 * sRev rate accel a0) t
    constructor
    · intro h; have := this.mp (by omega); linarith
    · intro h; have := this.mpr (by linarith); omega
  apply lmPosA_of _ _ _ _ _ h0 h1
  · have hte : tRevEff n rate accel a0 = τn := by simp [tRevEff, hnoRev, hτ]
    have hc : cFactor n rate accel a0 = a0 - (n - 2 * sRev rate accel a0) * two31 := by
      unfold cFactor
      rw [hte]
      simp only [posAdj, adjOf, hnoRev, hneg, hpf, ha, if_true, if_false]
      rw [if_pos (by omega)]
      ring
    unfold timeFinal
    rw [if_neg (by omega), hc, hte]
    apply quadTime_up accel _ _ τn τn T ha (by omega) (Or.inl rfl)
    · have := (hreach τn (le_refl _)).not.mp (by rw [← hsrev]; omega)
      omega
    · exact_mod_cast hτT
    · have := rz_pair rate accel T
      have a := hupS T hτT
      have b := hupS (T + 1) (by omega)
      rw [ltRate_rz] at a b
      push_cast at b
      linarith
    · exact (hreach T (le_of_lt hτT)).mp hF.2.1
    · intro t ht hq
      have ht' : (τn : Int) < t := ht
      apply first_le rate accel a0 n T hF t (by omega)
      rw [hreach _ (by omega), Int.toNat_of_nonneg (by omega)]; exact hq
  · rw [hpf, pos0 rate accel a0 h0 h1]
    have := taken_exact rate accel a0 n T hF hR
    rw [htk2 T (le_of_lt hτT)] at this
    omega

/-- **Branch: constant positive rate** -/
theorem lmPosA_const (rate a0 n : Int) (T : Nat) (hr : 0 < rate) (C : Ctx rate 0 a0 n T) :
    lmPosA n rate 0 a0 = target rate 0 a0 T := by
  obtain ⟨hn, h0, h1, hF, hR⟩ := C
  have hrate : ∀ k : Nat, ltRate rate 0 k = rate := by
    intro k; rw [ltRate_eq]; simp [tdiv]
  have hr1 : r1 rate 0 = rate := by simp [r1, tdiv]
  have hneg : ¬ isNeg rate 0 := by unfold isNeg; omega
  have hnoRev : noRev n rate 0 a0 := by unfold noRev tRev; simp
  have hpf : posFinal n rate 0 a0 = n := by simp [posFinal, hnoRev, hneg]
  have htk : ∀ t : Nat, ltTaken rate 0 a0 t = ltPos rate 0 a0 t := by
    intro t
    have := ltTaken_up rate 0 a0 0 t (Nat.zero_le _) (fun k _ _ => by rw [hrate]; omega)
    rw [this, ltTaken_zero, pos0 rate 0 a0 h0 h1]; ring
  have htot : ∀ t : Nat, ltTotal rate 0 t a0 = a0 + rate * t := by
    intro t
    have := ltTotal_two rate 0 a0 t
    simp [kk, tdiv] at this
    linarith
  have hreach : ∀ t : Nat, n ≤ ltTaken rate 0 a0 t ↔ two31 * n - a0 ≤ rate * t := by
    intro t
    rw [htk, le_pos_iff, htot]
    constructor <;> intro h <;> linarith
  apply lmPosA_of _ _ _ _ _ h0 h1
  · unfold timeFinal linTime
    rw [if_pos rfl, if_pos hr, hpf]
    simp only [adjOf, hneg, if_false]
    apply le_antisymm
    · rw [cdiv_le_iff _ _ _ hr]; exact (hreach T).mp hF.2.1
    · have hpos : 0 ≤ cdiv (two31 * n - a0) rate := by
        by_contra hc
        have := (cdiv_le_iff (two31 * n - a0) rate (-1) hr).mp (by omega)
        unfold two31 at *
        nlinarith
      apply first_le rate 0 a0 n T hF _ hpos
      rw [hreach, Int.toNat_of_nonneg hpos]
      exact (cdiv_le_iff _ _ _ hr).mp (le_refl _)
  · rw [hpf, ← htk, pos0 rate 0 a0 h0 h1]
    have := taken_exact rate 0 a0 n T hF hR
    omega

/-- every branch with positive acceleration -/
theorem lmPosA_up (rate accel a0 n : Int) (T : Nat) (ha : 0 < accel) (C : Ctx rate accel a0 n T) :
    lmPosA n rate accel a0 = target rate accel a0 T := by
  obtain ⟨t1, t2⟩ := tdiv_pos accel ha
  rcases le_or_gt 0 rate with hr | hr
  · -- rate and acceleration of the same sign (or rate zero): no reversal
    apply lmPosA_up_norev rate accel a0 n T ha C
    · intro k hk
      rw [ltRate_rz]
      refine le_trans ?_ (rz_mono rate accel (le_of_lt ha) (by exact_mod_cast hk : (1 : Int) ≤ k))
      unfold rz; omega
    · left; unfold tRev
      rw [if_neg (by omega), if_neg (by omega)]; omega
  · obtain ⟨f0, f1, f2⟩ := tRev_facts rate accel ha hr
    by_cases hτ0 : tRev rate accel < 1
    · have e : tRev rate accel = 0 := by omega
      rw [e] at f2
      apply lmPosA_up_norev rate accel a0 n T ha C
      · intro k hk
        rw [ltRate_rz]
        refine le_trans (le_of_lt f2) (rz_mono rate accel (le_of_lt ha) ?_)
        simp only [zero_add]; exact_mod_cast hk
      · left; exact hτ0
    · by_cases h1z : tRev rate accel = 1 ∧ r1 rate accel = 0
      · apply lmPosA_up_norev rate accel a0 n T ha C
        · intro k hk
          rw [ltRate_rz]
          have := h1z.2
          rw [r1_eq] at this
          rw [← this]
          exact rz_mono rate accel (le_of_lt ha) (by exact_mod_cast hk)
        · right; exact h1z
      · obtain ⟨τn, V⟩ := revUp_intro rate accel a0 ha hr C.h0 C.h1 (by omega) h1z
        by_cases hb : n ≤ sRev rate accel a0
        · exact lmPosA_up_before rate accel a0 n T τn ha C V hb
        · exact lmPosA_up_after rate accel a0 n T τn ha C V h1z (by omega)

end C03
end Plotink
