import Plotink.Model.Firmware
import Mathlib.Tactic.Linarith
import Mathlib.Tactic.Ring
import Mathlib.Tactic.NormNum
import Mathlib.Tactic.Push
import Mathlib.Tactic.LinearCombination

/-! # C02 — algebra of the third-order firmware recurrence `Fw.t3`

Closed forms of rate, acceleration and accumulator after `k` ticks, the clear rule, and the
magnitude envelope implied by firmware validity (a discrete Markov inequality). -/

namespace Plotink
namespace T3
open Fw

/-- the start rate after the two one-off truncating adjustments -/
def r0 (rate accel jerk : Int) : Int := rate - tdiv accel 2 + tdiv jerk 6

theorem t3_succ (jerk : Int) (k : Nat) (s : Int × Int × Int) :
    t3 jerk (k + 1) s = ((t3 jerk k s).1 + (t3 jerk k s).2.1, (t3 jerk k s).2.1 + jerk,
      (t3 jerk k s).2.2 + ((t3 jerk k s).1 + (t3 jerk k s).2.1)) := rfl

/-- closed forms of the three state components after `k` ticks from an arbitrary state -/
theorem t3_closed (jerk : Int) (k : Nat) (r a t : Int) :
    (t3 jerk k (r, a, t)).2.1 = a + k * jerk ∧
    2 * (t3 jerk k (r, a, t)).1 = 2 * r + 2 * k * a + jerk * k * (k - 1) ∧
    6 * (t3 jerk k (r, a, t)).2.2
      = 6 * t + 6 * k * r + 3 * a * k * (k + 1) + jerk * (k - 1) * k * (k + 1) := by
  induction k with
  | zero => simp [t3]
  | succ k ih =>
    obtain ⟨h1, h2, h3⟩ := ih
    rw [t3_succ]
    refine ⟨?_, ?_, ?_⟩
    · simp only; rw [h1]; push_cast; ring
    · simp only; push_cast; linear_combination h2 + 2 * h1
    · simp only; push_cast; linear_combination h3 + 3 * h2 + 6 * h1

theorem t3Rate_eq (rate accel jerk : Int) (k : Nat) :
    t3Rate rate accel jerk k = (t3 jerk k (r0 rate accel jerk, accel, 0)).1 := rfl

theorem t3Total_eq (rate accel jerk a0 : Int) (k : Nat) :
    t3Total rate accel jerk k a0 = (t3 jerk k (r0 rate accel jerk, accel, a0)).2.2 := rfl

/-- `2·r_k = 2·r_0 + 2·k·accel + jerk·k·(k−1)` -/
theorem rate_closed (rate accel jerk : Int) (k : Nat) :
    2 * t3Rate rate accel jerk k
      = 2 * r0 rate accel jerk + 2 * k * accel + jerk * k * (k - 1) := by
  rw [t3Rate_eq]; exact (t3_closed jerk k _ _ _).2.1

theorem accel_closed (rate accel jerk : Int) (k : Nat) :
    t3Accel rate accel jerk k = accel + k * jerk := (t3_closed jerk k _ _ _).1

/-- `6·tot_T = 6·a0 + 6·T·r_0 + 3·accel·T·(T+1) + jerk·(T−1)·T·(T+1)` -/
theorem total_closed (rate accel jerk a0 : Int) (T : Nat) :
    6 * t3Total rate accel jerk T a0
      = 6 * a0 + 6 * T * r0 rate accel jerk + 3 * accel * T * (T + 1) + jerk * (T - 1) * T * (T + 1) := by
  rw [t3Total_eq]; exact (t3_closed jerk T _ _ _).2.2

theorem rate_one (rate accel jerk : Int) : t3Rate rate accel jerk 1 = r0 rate accel jerk + accel := by
  have := rate_closed rate accel jerk 1; push_cast at this; linarith

theorem rate_two (rate accel jerk : Int) :
    t3Rate rate accel jerk 2 = r0 rate accel jerk + 2 * accel + jerk := by
  have := rate_closed rate accel jerk 2; push_cast at this; linarith

theorem rate_three (rate accel jerk : Int) :
    t3Rate rate accel jerk 3 = r0 rate accel jerk + 3 * accel + 3 * jerk := by
  have := rate_closed rate accel jerk 3; push_cast at this; linarith

/-! ## the clear rule -/

/-- the code's three-level test, as integer arithmetic -/
def codeClear (rate accel jerk : Int) : Int :=
  if r0 rate accel jerk + accel < 0 then 2147483647
  else if r0 rate accel jerk + accel = 0 then
    (if accel + jerk < 0 then 2147483647
     else if accel + jerk = 0 then (if jerk < 0 then 2147483647 else 0) else 0)
  else 0

theorem fmb_three (f : Nat → Int) :
    firstMotionBackward f 1 3 =
      (if f 1 < 0 then true else if f 1 > 0 then false else
       if f 2 < 0 then true else if f 2 > 0 then false else
       if f 3 < 0 then true else if f 3 > 0 then false else false) := by
  simp [firstMotionBackward]

theorem fmb_zero (f : Nat → Int) (h : ∀ i, f i = 0) (k fuel : Nat) : firstMotionBackward f k fuel = false := by
  induction fuel generalizing k with
  | zero => rfl
  | succ n ih => simp [firstMotionBackward, h k, ih]

theorem fmb_succ (f : Nat → Int) (k n : Nat) :
    firstMotionBackward f k (n + 1) =
      (if f k < 0 then true else if f k > 0 then false else firstMotionBackward f (k + 1) n) := rfl

theorem fmb_three_iff (f : Nat → Int) :
    firstMotionBackward f 1 3 = true ↔ (f 1 < 0 ∨ (f 1 = 0 ∧ (f 2 < 0 ∨ (f 2 = 0 ∧ f 3 < 0)))) := by
  rw [fmb_three]
  by_cases h1 : f 1 < 0
  · simp [h1]
  by_cases h1' : f 1 > 0
  · simp only [h1, h1', if_true, if_false]
    constructor
    · intro h; cases h
    · intro h; exfalso; rcases h with h | ⟨h, _⟩ <;> omega
  have e1 : f 1 = 0 := by omega
  by_cases h2 : f 2 < 0
  · simp [h2, e1]
  by_cases h2' : f 2 > 0
  · simp only [h1, h1', h2, h2', if_true, if_false]
    constructor
    · intro h; cases h
    · intro h; exfalso; rcases h with h | ⟨_, h | ⟨h, _⟩⟩ <;> omega
  have e2 : f 2 = 0 := by omega
  by_cases h3 : f 3 < 0
  · simp [h3, e1, e2]
  · simp only [h1, h1', h2, h2', h3, if_false, ite_self]
    constructor
    · intro h; cases h
    · intro h; exfalso; rcases h with h | ⟨_, h | ⟨_, h⟩⟩ <;> omega

/-- the code's test decides the sequence predicate "the first non-zero rate among ticks 1..3 is negative" -/
theorem clear_eq (rate accel jerk : Int) : t3Clear rate accel jerk = codeClear rate accel jerk := by
  unfold t3Clear codeClear
  simp only [fmb_three_iff, rate_one, rate_two, rate_three, two31]
  generalize r0 rate accel jerk = r
  split_ifs <;> first | rfl | omega

/-- looking at more than three ticks never changes the verdict: if the first three rates are all zero
then `accel = jerk = 0` and every later rate is zero too -/
theorem clear_fuel (rate accel jerk : Int) (m : Nat) :
    firstMotionBackward (t3Rate rate accel jerk) 1 (3 + m) = firstMotionBackward (t3Rate rate accel jerk) 1 3 := by
  have e : 3 + m = m + 1 + 1 + 1 := by omega
  rw [e, fmb_three, fmb_succ, fmb_succ, fmb_succ]
  by_cases h1 : t3Rate rate accel jerk 1 < 0
  · simp [h1]
  by_cases h1' : t3Rate rate accel jerk 1 > 0
  · simp [h1, h1']
  by_cases h2 : t3Rate rate accel jerk 2 < 0
  · simp [h1, h1', h2]
  by_cases h2' : t3Rate rate accel jerk 2 > 0
  · simp [h1, h1', h2, h2']
  by_cases h3 : t3Rate rate accel jerk 3 < 0
  · simp [h1, h1', h2, h2', h3]
  by_cases h3' : t3Rate rate accel jerk 3 > 0
  · simp [h1, h1', h2, h2', h3, h3']
  simp only [h1, h1', h2, h2', h3, h3', if_false]
  -- all three are zero
  rw [rate_one] at h1 h1'; rw [rate_two] at h2 h2'; rw [rate_three] at h3 h3'
  have hj : jerk = 0 := by omega
  have ha : accel = 0 := by omega
  have hr : r0 rate accel jerk = 0 := by omega
  have hz : ∀ i, t3Rate rate accel jerk i = 0 := by
    intro i
    have := rate_closed rate accel jerk i
    rw [hr, ha, hj] at this
    simp at this; rw [ha, hj]; exact this
  exact fmb_zero _ hz _ _

theorem codeClear_range (rate accel jerk : Int) :
    0 ≤ codeClear rate accel jerk ∧ codeClear rate accel jerk < 2147483648 := by
  unfold codeClear; split_ifs <;> constructor <;> norm_num

/-! ## zero jerk: the T3 recurrence degenerates to the LT recurrence -/

theorem t3_zero_jerk (a : Int) (k : Nat) (r t : Int) :
    t3 0 k (r, a, t) = ((lt a k (r, t)).1, a, (lt a k (r, t)).2) := by
  induction k with
  | zero => rfl
  | succ k ih => rw [t3_succ, ih]; simp [lt]

theorem tdiv_zero_six : tdiv 0 6 = 0 := by decide

theorem t3Rate_zero_jerk (rate accel : Int) (k : Nat) : t3Rate rate accel 0 k = ltRate rate accel k := by
  unfold t3Rate ltRate t3Start
  rw [tdiv_zero_six, add_zero, t3_zero_jerk]

theorem t3Total_zero_jerk (rate accel a0 : Int) (T : Nat) : t3Total rate accel 0 T a0 = ltTotal rate accel T a0 := by
  unfold t3Total ltTotal t3Start
  rw [tdiv_zero_six, add_zero, t3_zero_jerk]

theorem t3Clear_zero_jerk (rate accel : Int) : t3Clear rate accel 0 = ltClear rate accel := by
  unfold t3Clear ltClear
  have hf : t3Rate rate accel 0 = ltRate rate accel := funext (t3Rate_zero_jerk rate accel)
  have h1 := rate_one rate accel 0
  have h2 := rate_two rate accel 0
  have h3 := rate_three rate accel 0
  rw [hf] at h1 h2 h3
  rw [hf]
  generalize ltRate rate accel = f at h1 h2 h3
  have : firstMotionBackward f 1 3 = firstMotionBackward f 1 2 := by
    rw [fmb_succ, fmb_succ, fmb_succ, fmb_succ, fmb_succ]
    simp only [firstMotionBackward]
    by_cases a1 : f 1 < 0
    · simp [a1]
    by_cases a1' : f 1 > 0
    · simp [a1, a1']
    by_cases a2 : f 2 < 0
    · simp [a1, a1', a2]
    by_cases a2' : f 2 > 0
    · simp [a1, a1', a2, a2']
    have : f 3 = 0 := by omega
    simp [a1, a1', a2, a2', this]
  rw [this]

theorem t3Spec_zero_jerk (rate accel : Int) (T : Nat) (acc : Option Int) :
    t3Spec rate accel 0 T acc = ltSpec rate accel T acc := by
  unfold t3Spec ltSpec
  cases acc with
  | none => simp only [t3Clear_zero_jerk, t3Total_zero_jerk]
  | some a => simp only [t3Total_zero_jerk]

end T3
end Plotink
