import Plotink.Proofs.C05Methods
set_option linter.unusedSimpArgs false
set_option linter.unusedVariables false
/-!
Instance 2 of the generic theorem: conforming devices.  A conforming device answers every request
it receives — after a number of empty reads not exceeding the retry limits — with exactly one line
that begins with the request's name, carries no `Err:` and, for the decoded queries, a well-formed
payload; and it sends nothing else.  Core Lean only.
-/
namespace Plotink
namespace Ebb3
open M

/-- state of a responsive device: lines produced and not yet read; number of requests received -/
structure ConfSt where
  queue : List ReadEv
  count : Nat

/-- the device that answers the `k`-th text handed to `write` (CR included) with
`(reply k text).1` empty reads followed by the line `(reply k text).2` -/
def confDev (reply : Nat → Str → Nat × Str) : Device ConfSt where
  write s t := (.ok, ⟨s.queue ++ List.replicate (reply s.count t).1 (ReadEv.line []) ++
    [ReadEv.line (reply s.count t).2], s.count + 1⟩)
  read s := match s.queue with
    | [] => (.line [], s)
    | e :: q => (e, ⟨q, s.count⟩)
  reset s := ⟨[], s.count⟩

/-- conformance with respect to the retry limits `P`: for every trimmed request `req` (name
`name`), whatever its position `k` in the history -/
def Conforming (P : Params) (reply : Nat → Str → Nat × Str) : Prop :=
  ∀ (k : Nat) (req name : Str), strip req = req → cmdName req = .ok name →
    (reply k (req ++ ['\r'])).1 ≤ P.retryCmd ∧ (reply k (req ++ ['\r'])).1 ≤ P.retryQry ∧
    (req = "QG".toList → (reply k (req ++ ['\r'])).1 = 0) ∧
    startsWith name (strip (reply k (req ++ ['\r'])).2) = true ∧
    hasErr (strip (reply k (req ++ ['\r'])).2) = false ∧
    (∀ n ∈ parsedNames, name = n →
      ∃ payload, strip (reply k (req ++ ['\r'])).2 = name ++ ',' :: payload ∧ GoodPayload name payload)

/-- between calls: no error recorded and, while connected, nothing unread -/
def ConfInv (w : World ConfSt) : Prop :=
  w.st.err = Option.none ∧ (w.st.port = true → w.dev.queue = [])

/-! ### strip is idempotent -/

theorem rstrip_idem : ∀ s : Str, rstrip (rstrip s) = rstrip s
  | [] => rfl
  | c :: cs => by
    have ih := rstrip_idem cs
    rw [rstrip]
    split
    · rename_i heq
      by_cases hc : isSpace c = true
      · simp [hc, rstrip]
      · simp only [hc]
        simp [rstrip, hc]
    · rename_i r hne
      rw [rstrip]
      rw [ih]
      split
      · rename_i heq; exact absurd heq hne
      · rfl

theorem strip_idem (s : Str) : strip (strip s) = strip s := by
  unfold strip lstrip
  have hd := List.head?_dropWhile_not isSpace s
  cases hu : List.dropWhile isSpace s with
  | nil => rfl
  | cons c cs =>
    rw [hu] at hd
    simp only [List.head?_cons] at hd
    have hc : isSpace c = false := by simpa using hd
    rw [rstrip_cons_nonspace cs hc, List.dropWhile_cons]
    simp only [hc, Bool.false_eq_true, if_false]
    rw [rstrip_cons_nonspace _ hc, rstrip_idem]

/-! ### the exchange with a conforming device -/

variable (reply : Nat → Str → Nat × Str)

theorem readLoop_conf : ∀ (d n : Nat), d < n → ∀ (l : Str), (strip l).isEmpty = false →
    ∀ (st : St) (k : Nat) (out : List Str) (nr : Nat),
    readLoop (confDev reply) n ⟨st, ⟨List.replicate d (ReadEv.line []) ++ [ReadEv.line l], k⟩, out, nr⟩ =
      (.ok (some (strip l)), ⟨st, ⟨[], k⟩, out, nr + d + 1⟩)
  | 0, n + 1, _, l, hl, st, k, out, nr => by
    have hr : portRead (confDev reply) ⟨st, ⟨[ReadEv.line l], k⟩, out, nr⟩ =
        (.ok (some l), ⟨st, ⟨[], k⟩, out, nr + 1⟩) := rfl
    simp only [List.replicate, List.nil_append]
    rw [readLoop, bind_ok hr]
    simp [hl]
  | d + 1, n + 1, hd, l, hl, st, k, out, nr => by
    have hr : portRead (confDev reply)
        ⟨st, ⟨List.replicate (d + 1) (ReadEv.line []) ++ [ReadEv.line l], k⟩, out, nr⟩ =
        (.ok (some []), ⟨st, ⟨List.replicate d (ReadEv.line []) ++ [ReadEv.line l], k⟩, out, nr + 1⟩) := rfl
    rw [readLoop, bind_ok hr]
    have he : (strip ([] : Str)).isEmpty = true := by decide
    simp only [he, if_true]
    rw [readLoop_conf d n (by omega) l hl st k out (nr + 1)]
    have : nr + 1 + d + 1 = nr + (d + 1) + 1 := by omega
    rw [this]

theorem startsWith_nonempty {name t : Str} (hne : name ≠ []) (h : startsWith name t = true) :
    t.isEmpty = false := by
  cases t with
  | nil => rw [startsWith_nil_right hne] at h; cases h
  | cons c cs => rfl

/-- a write to, then the read loop on, a conforming device whose queue is empty -/
theorem exchange_conf (retry : Nat) (req : Str) (st : St) (k : Nat) (out : List Str) (nr : Nat)
    (name : Str) (hne : name ≠ [])
    (hd : (reply k (req ++ ['\r'])).1 ≤ retry)
    (hp : startsWith name (strip (reply k (req ++ ['\r'])).2) = true) :
    exchange (confDev reply) retry req ⟨st, ⟨[], k⟩, out, nr⟩ =
      (.ok (some (strip (reply k (req ++ ['\r'])).2)),
       ⟨st, ⟨[], k + 1⟩, out ++ [req ++ ['\r']], nr + (reply k (req ++ ['\r'])).1 + 1⟩) := by
  have hw : portWrite (confDev reply) (req ++ ['\r']) ⟨st, ⟨[], k⟩, out, nr⟩ =
      (.ok true, ⟨st, ⟨List.replicate (reply k (req ++ ['\r'])).1 (ReadEv.line []) ++
        [ReadEv.line (reply k (req ++ ['\r'])).2], k + 1⟩, out ++ [req ++ ['\r']], nr⟩) := by
    simp [portWrite, confDev]
  unfold exchange
  rw [bind_ok hw]
  simp only [if_true]
  exact readLoop_conf reply _ (retry + 1) (by omega) _ (startsWith_nonempty hne hp) st (k + 1) _ nr

theorem cmdName_ne {req name : Str} (h : cmdName req = .ok name) : name ≠ [] := by
  cases req with
  | nil => cases h
  | cons c cs =>
    cases cs with
    | nil => injection h with h; rw [← h]; simp
    | cons d ds =>
      simp only [cmdName] at h
      split at h <;> (injection h with h; rw [← h]; simp)

theorem qgJudge_accept {σ : Type} (resp : Str) (hp : startsWith "QG".toList resp = true)
    (he : hasErr resp = false) (w : World σ) : ∃ v, qgJudge resp w = (.ok v, w) := by
  unfold qgJudge
  rw [hp, he]
  cases h3 : pyInt 16 (List.drop 3 resp) with
  | none => exact ⟨.none, by simp⟩
  | some z => exact ⟨.int z, by simp⟩

theorem confSound (P : Params) (hc : Conforming P reply) : Sound P (confDev reply) ConfInv where
  congr := fun w f hf h => ⟨by rw [(hf w.st).1]; exact h.1, fun hp => h.2 (by rw [← (hf w.st).2]; exact hp)⟩
  cmd := by
    intro text w hnb hI hb
    obtain ⟨st, ⟨queue, k⟩, out, nr⟩ := w
    have hb' := blocked_false_iff.mp hb
    have hq : queue = [] := hI.2 hb'.1
    subst hq
    obtain ⟨name, hn, hne⟩ := cmdName_ok_of_ne hnb
    obtain ⟨hd, -, -, hp, he, -⟩ := hc k (strip text) name (strip_idem text) hn
    have hx := exchange_conf reply P.retryCmd (strip text) st k out nr name hne hd hp
    obtain ⟨p, e, v, vp, n, c, pn⟩ := st
    have herr : e = Option.none := hb'.2
    subst herr
    refine ⟨⟨⟨p, Option.none, v, vp, n, c, pn⟩, ⟨[], k + 1⟩, out ++ [strip text ++ ['\r']],
      nr + (reply k (strip text ++ ['\r'])).1 + 1⟩, ?_, ⟨rfl, fun _ => rfl⟩, rfl⟩
    unfold commandCore
    simp only [hn]
    rw [bind_ok hx]
    simp [commandJudge, hp, he, bind_apply, errIsNone]
  qry := by
    intro q name w hn hI hb
    obtain ⟨st, ⟨queue, k⟩, out, nr⟩ := w
    have hb' := blocked_false_iff.mp hb
    have hq : queue = [] := hI.2 hb'.1
    subst hq
    have hne := cmdName_ne hn
    obtain ⟨-, hd, -, hp, he, hgood⟩ := hc k (strip q) name (strip_idem q) hn
    have hx := exchange_conf reply P.retryQry (strip q) st k out nr name hne hd hp
    refine ⟨.str (stripHeader name (strip (reply k (strip q ++ ['\r'])).2)),
      ⟨st, ⟨[], k + 1⟩, out ++ [strip q ++ ['\r']], nr + (reply k (strip q ++ ['\r'])).1 + 1⟩,
      ?_, ⟨hb'.2, fun _ => rfl⟩, rfl, Or.inr ⟨_, rfl, ?_, hb'.2⟩⟩
    · unfold queryCore
      simp only [hn]
      rw [bind_ok hx]
      simp [queryJudge, hp, he]
    · by_cases hpn : name ∈ parsedNames
      · obtain ⟨payload, hpay, hg⟩ := hgood name hpn rfl
        rw [hpay, stripHeader_append]
        simpa [dropComma] using hg
      · exact goodPayload_of_not_parsed hpn _
  qg := by
    intro w hI hb
    obtain ⟨st, ⟨queue, k⟩, out, nr⟩ := w
    have hb' := blocked_false_iff.mp hb
    have hq : queue = [] := hI.2 hb'.1
    subst hq
    have hn : cmdName "QG".toList = .ok "QG".toList := by rfl
    obtain ⟨-, -, hd0, hp, he, -⟩ := hc k "QG".toList "QG".toList (by rfl) hn
    have hd := hd0 rfl
    have e : "QG\r".toList = "QG".toList ++ ['\r'] := by rfl
    have hw : portWrite (confDev reply) ("QG".toList ++ ['\r']) ⟨st, ⟨[], k⟩, out, nr⟩ =
        (.ok true, ⟨st, ⟨[ReadEv.line (reply k ("QG".toList ++ ['\r'])).2], k + 1⟩,
          out ++ ["QG".toList ++ ['\r']], nr⟩) := by
      unfold portWrite confDev
      simp only [hd]
      rfl
    have hr : portRead (confDev reply)
        ⟨st, ⟨[ReadEv.line (reply k ("QG".toList ++ ['\r'])).2], k + 1⟩, out ++ ["QG".toList ++ ['\r']], nr⟩ =
        (.ok (some (reply k ("QG".toList ++ ['\r'])).2),
          ⟨st, ⟨[], k + 1⟩, out ++ ["QG".toList ++ ['\r']], nr + 1⟩) := rfl
    unfold queryStatusByteBody
    rw [e, bind_ok hw]
    simp only [if_true]
    rw [bind_ok hr]
    simp only
    obtain ⟨v, hv⟩ := qgJudge_accept _ hp he
      (⟨st, ⟨[], k + 1⟩, out ++ ["QG".toList ++ ['\r']], nr + 1⟩ : World ConfSt)
    exact ⟨v, _, hv, hb'.2, fun _ => rfl⟩
  raw := by
    intro text w hI hb
    obtain ⟨st, ⟨queue, k⟩, out, nr⟩ := w
    have hb' := blocked_false_iff.mp hb
    refine ⟨.bool true, ⟨{ st with port := false }, (confDev reply).write ⟨queue, k⟩ text |>.2, out ++ [text], nr⟩, ?_, ?_⟩
    · simp [rawCloseBody, portWrite, confDev, bind_apply, disconnectM]
    · exact ⟨hb'.2, fun h => by cases h⟩

/-! ### a concrete conforming device (non-vacuity) -/

/-- answers at once with `name,1` (`PI`, `QL`) or `name,1,1` (every other request) -/
def demoReply (_k : Nat) (t : Str) : Nat × Str :=
  match cmdName t.dropLast with
  | .ok name =>
    (0, name ++ (if name = "PI".toList ∨ name = "QL".toList then [','] else ",1,".toList) ++ ['1'])
  | .error _ => (0, [])

theorem rstrip_id_of_last : ∀ (xs : Str) (h : xs ≠ []), isSpace (xs.getLast h) = false → rstrip xs = xs
  | [x], _, hl => by simp at hl; simp [rstrip, hl]
  | x :: y :: ys, _, hl => by
    have ih := rstrip_id_of_last (y :: ys) (by simp) (by simpa using hl)
    rw [rstrip, ih]

theorem strip_id_of_ends (s : Str) (h : s ≠ []) (hh : isSpace (s.head h) = false)
    (hl : isSpace (s.getLast h) = false) : strip s = s := by
  cases s with
  | nil => exact absurd rfl h
  | cons c xs =>
    simp only [List.head_cons] at hh
    rw [strip_cons_nonspace xs hh]
    cases xs with
    | nil => rfl
    | cons y ys => rw [rstrip_id_of_last (y :: ys) (by simp) (by simpa using hl)]

theorem head_of_trimmed {req : Str} (ht : strip req = req) (hne : req ≠ []) :
    ∃ c cs, req = c :: cs ∧ isSpace c = false := by
  unfold strip lstrip at ht
  have hd := List.head?_dropWhile_not isSpace req
  cases hu : List.dropWhile isSpace req with
  | nil => rw [hu] at ht; exact absurd ht.symm hne
  | cons c cs =>
    rw [hu] at hd ht
    simp only [List.head?_cons] at hd
    have hc : isSpace c = false := by simpa using hd
    rw [rstrip_cons_nonspace cs hc] at ht
    exact ⟨c, rstrip cs, ht.symm, hc⟩

theorem demo_conforming (P : Params) : Conforming P demoReply := by
  intro k req name ht hn
  have hdl : (req ++ ['\r']).dropLast = req := by simp
  have hne : req ≠ [] := by intro h; subst h; cases hn
  obtain ⟨c, cs, hreq, hc⟩ := head_of_trimmed ht hne
  -- the name is `[c]` or `[c, d]`
  have hname : name = [c] ∨ ∃ d, name = [c, d] := by
    subst hreq
    cases cs with
    | nil => left; injection hn with h; exact h.symm
    | cons d ds =>
      simp only [cmdName] at hn
      split at hn
      · left; injection hn with h; exact h.symm
      · right; injection hn with h; exact ⟨d, h.symm⟩
  simp only [demoReply, hdl, hn]
  have hstrip : ∀ mid : Str, strip (name ++ mid ++ ['1']) = name ++ mid ++ ['1'] := by
    intro mid
    have hne' : name ++ mid ++ ['1'] ≠ [] := by simp
    apply strip_id_of_ends _ hne'
    · rcases hname with h | ⟨d, h⟩ <;> subst h <;> simpa using hc
    · simp; decide
  refine ⟨Nat.zero_le _, Nat.zero_le _, by simp, ?_, ?_, ?_⟩
  · rw [hstrip, List.append_assoc]
    exact List.isPrefixOf_iff_prefix.mpr (List.prefix_append _ _)
  · rw [hstrip]
    split <;> (rcases hname with h | ⟨d, h⟩ <;> subst h <;> simp [hasErr, hasSub, List.isPrefixOf])
  · intro n hn' hnn
    subst hnn
    simp only [parsedNames, List.mem_cons, List.not_mem_nil, or_false] at hn'
    rcases hn' with h | h | h | h | h <;> subst h
    · refine ⟨"1,1".toList, by rw [hstrip, if_neg (by decide)]; rfl, ?_⟩
      refine ⟨fun _ => ⟨"1".toList, "1".toList, 1, 1, rfl, rfl, rfl, trivial⟩, fun h => absurd h (by decide),
        fun h => absurd h (by decide), fun h => absurd h (by decide), fun h => absurd h (by decide)⟩
    · refine ⟨"1,1".toList, by rw [hstrip, if_neg (by decide)]; rfl, ?_⟩
      refine ⟨fun h => absurd h (by decide), fun _ => ⟨"1".toList, "1".toList, 1, 1, rfl, rfl, rfl, trivial⟩,
        fun h => absurd h (by decide), fun h => absurd h (by decide), fun h => absurd h (by decide)⟩
    · refine ⟨"1,1".toList, by rw [hstrip, if_neg (by decide)]; rfl, ?_⟩
      refine ⟨fun h => absurd h (by decide), fun h => absurd h (by decide),
        fun _ => ⟨"1".toList, "1".toList, 1, 1, rfl, rfl, rfl, by decide⟩,
        fun h => absurd h (by decide), fun h => absurd h (by decide)⟩
    · refine ⟨"1".toList, by rw [hstrip, if_pos (by decide)]; rfl, ?_⟩
      refine ⟨fun h => absurd h (by decide), fun h => absurd h (by decide), fun h => absurd h (by decide),
        fun _ => ⟨1, rfl⟩, fun h => absurd h (by decide)⟩
    · refine ⟨"1".toList, by rw [hstrip, if_pos (by decide)]; rfl, ?_⟩
      refine ⟨fun h => absurd h (by decide), fun h => absurd h (by decide), fun h => absurd h (by decide),
        fun h => absurd h (by decide), fun _ => ⟨1, rfl, by decide, by decide⟩⟩

end Ebb3
end Plotink
