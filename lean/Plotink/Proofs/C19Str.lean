import Plotink.Model.C19
import Mathlib.Data.List.Infix

/-! String lemmas for C19 (self-contained; namespace `Plotink.C19`). -/
namespace Plotink
namespace C19

theorem isInfixB_iff (n h : Str) : isInfixB n h = true ↔ n <:+: h := by
  induction h with
  | nil => simp [isInfixB, List.isPrefixOf_iff_prefix]
  | cons c t ih =>
    rw [isInfixB, Bool.or_eq_true, ih, List.isPrefixOf_iff_prefix, List.infix_cons_iff]

theorem isInfixB_false_iff (n h : Str) : isInfixB n h = false ↔ ¬ n <:+: h := by
  rw [← isInfixB_iff]; simp

/-- `find` returns the position of an occurrence -/
theorem findIdx_some (n h : Str) (i : Nat) (hf : findIdx n h = some i) :
    ∃ a c, h = a ++ n ++ c ∧ a.length = i := by
  induction h generalizing i with
  | nil =>
    simp only [findIdx] at hf
    split at hf
    · rename_i hp
      have : n = [] := by simpa [List.isPrefixOf_iff_prefix] using hp
      subst this
      cases hf
      exact ⟨[], [], rfl, rfl⟩
    · cases hf
  | cons c t ih =>
    simp only [findIdx] at hf
    split at hf
    · rename_i hp
      cases hf
      obtain ⟨r, hr⟩ := List.isPrefixOf_iff_prefix.mp hp
      exact ⟨[], r, by simp [hr], rfl⟩
    · cases hfi : findIdx n t with
      | none => simp [hfi] at hf
      | some j =>
        simp only [hfi, Option.map_some, Option.some.injEq] at hf
        obtain ⟨a, r, hh, hl⟩ := ih j hfi
        exact ⟨c :: a, r, by simp [hh], by simp [hl, hf]⟩

/-- `n in h` implies `h.find(n) != -1` -/
theorem findIdx_isSome (n h : Str) (hi : isInfixB n h = true) : ∃ i, findIdx n h = some i := by
  induction h with
  | nil =>
    simp only [isInfixB] at hi
    exact ⟨0, by simp [findIdx, hi]⟩
  | cons c t ih =>
    simp only [isInfixB, Bool.or_eq_true] at hi
    by_cases hp : n.isPrefixOf (c :: t) = true
    · exact ⟨0, by simp [findIdx, hp]⟩
    · rcases hi with hi | hi
      · exact absurd hi hp
      · obtain ⟨j, hj⟩ := ih hi
        exact ⟨j + 1, by simp [findIdx, hp, hj]⟩

theorem sliceTo_prefix (h : Str) (i : Nat) (j : Option Nat) : sliceTo h i j <+: h.drop i := by
  cases j with
  | none => simp only [sliceTo]; rw [List.drop_take]; exact List.take_prefix _ _
  | some j => simp only [sliceTo]; rw [List.drop_take]; exact List.take_prefix _ _

theorem lower_append (a b : Str) : lower (a ++ b) = lower a ++ lower b := by simp [lower]
theorem lower_drop (a : Str) (n : Nat) : lower (a.drop n) = (lower a).drop n := by simp [lower, List.map_drop]
theorem lower_cons (c : Char) (a : Str) : lower (c :: a) = lowerC c :: lower a := rfl
theorem lower_length (a : Str) : (lower a).length = a.length := by simp [lower]

theorem lower_infix {n h : Str} (hi : n <:+: h) : lower n <:+: lower h := by
  obtain ⟨a, c, rfl⟩ := hi
  exact ⟨lower a, lower c, by simp [lower_append]⟩

theorem lower_prefix {n h : Str} (hp : n <+: h) : lower n <+: lower h := by
  obtain ⟨c, rfl⟩ := hp
  exact ⟨lower c, by simp [lower_append]⟩

/-- the `SER=… LOCAT` slice sits right after an occurrence of `SER=` -/
theorem serSlice_spec (h : Str) (hs : isInfixB serK h = true) :
    ∃ a c, h = a ++ serK ++ serSlice h ++ c := by
  obtain ⟨i, hi⟩ := findIdx_isSome serK h hs
  obtain ⟨a, r, hh, hl⟩ := findIdx_some serK h i hi
  have hdrop : h.drop (i + 4) = r := by
    rw [hh, ← hl]
    have : (a ++ serK ++ r) = (a ++ serK) ++ r := rfl
    rw [this, List.drop_append_of_le_length (by simp [serK])]
    simp [serK]
  have hp : serSlice h <+: r := by
    have := sliceTo_prefix h (i + 4) (findFrom locatK h (i + 4))
    rw [hdrop] at this
    simpa [serSlice, hi] using this
  obtain ⟨c, hc⟩ := hp
  refine ⟨a, c, ?_⟩
  calc h = a ++ serK ++ r := hh
    _ = a ++ serK ++ (serSlice h ++ c) := by rw [hc]
    _ = a ++ serK ++ serSlice h ++ c := by simp [List.append_assoc]

/-- the `SNR=…` tail sits right after an occurrence of `SNR=` and runs to the end -/
theorem snrTail_spec (h : Str) (i : Nat) (hi : findIdx snrK h = some i) :
    ∃ a, h = a ++ snrK ++ h.drop (i + 4) := by
  obtain ⟨a, r, hh, hl⟩ := findIdx_some snrK h i hi
  refine ⟨a, ?_⟩
  have : h.drop (i + 4) = r := by
    rw [hh, ← hl]
    have : (a ++ snrK ++ r) = (a ++ snrK) ++ r := rfl
    rw [this, List.drop_append_of_le_length (by simp [snrK])]
    simp [snrK]
  rw [this]; exact hh

end C19
end Plotink
