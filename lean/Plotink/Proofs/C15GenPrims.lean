import Plotink.Proofs.LegacyGen
import Plotink.Proofs.C15Legacy
/-! # C15 (regenerated code) — agreement of the runtime's string / version primitives (`Model/Ebb3.lean`) with those of
`Model/C15.lean`: `splitOn`, `in`, `isspace`, `parse` (on texts without a leading `v`; every text the runtime parses is
one) -/
namespace Plotink.C15Gen
open PyObj

theorem splitOn_agree (sep : Char) (s : List Char) : Ebb3.splitOn sep s = C15.splitOn sep s := by
  induction s with
  | nil => rfl
  | cons c t ih =>
    simp only [Ebb3.splitOn, C15.splitOn, ih]
    split
    · rfl
    · cases C15.splitOn sep t <;> rfl

theorem hasSub_agree (p s : List Char) : Ebb3.hasSub p s = C15.isInfix p s := by
  induction s with
  | nil => rfl
  | cons c t ih => simp only [Ebb3.hasSub, C15.isInfix, ih]

theorem isSpaceStr_agree (s : List Char) : Ebb3.isSpaceStr s = C15.isSpace s := rfl

/-- the digit fold of `Ebb3.parseNat?` -/
def digFold (acc : Option Nat) (c : Char) : Option Nat :=
  match acc with
  | some a => if 48 ≤ c.toNat ∧ c.toNat ≤ 57 then some (a * 10 + (c.toNat - 48)) else Option.none
  | Option.none => Option.none

theorem isDigit_iff (c : Char) : c.isDigit = true ↔ 48 ≤ c.toNat ∧ c.toNat ≤ 57 := by
  simp only [Char.isDigit, Bool.and_eq_true, decide_eq_true_eq, ge_iff_le, UInt32.le_iff_toNat_le]
  rfl

theorem foldl_none (s : List Char) : s.foldl digFold Option.none = Option.none := by
  induction s with
  | nil => rfl
  | cons c t ih => simpa [List.foldl, digFold] using ih

theorem foldl_digits (s : List Char) (a : Nat) :
    s.foldl digFold (some a) = if s.all Char.isDigit then some (Nat.ofDigitChars 10 s a) else Option.none := by
  induction s generalizing a with
  | nil => simp [Nat.ofDigitChars]
  | cons c t ih =>
    simp only [List.foldl, digFold, List.all_cons]
    by_cases hc : c.isDigit = true
    · have := (isDigit_iff c).mp hc
      simp only [this, and_self, ↓reduceIte, ih, hc, Bool.true_and, Nat.ofDigitChars_cons]
      have e : a * 10 + (c.toNat - 48) = 10 * a + (c.toNat - '0'.toNat) := by
        have : '0'.toNat = 48 := rfl
        rw [this]; omega
      rw [e]
    · have h' : ¬ (48 ≤ c.toNat ∧ c.toNat ≤ 57) := fun h => hc ((isDigit_iff c).mpr h)
      simp only [h', ↓reduceIte, foldl_none]
      simp [hc]

theorem parseNat_agree (s : List Char) : Ebb3.parseNat? s = C15.parseNat s := by
  unfold Ebb3.parseNat? C15.parseNat
  cases s with
  | nil => rfl
  | cons c t =>
    have := foldl_digits (c :: t) 0
    unfold digFold at this
    simp only [List.isEmpty_cons, Bool.false_eq_true, ↓reduceIte, Bool.not_false, Bool.true_and]
    exact this

theorem parseRelease_eq (s : List Char) :
    Ebb3.parseRelease s = (Ebb3.splitOn '.' (Ebb3.strip s)).mapM C15.parseNat := by
  unfold Ebb3.parseRelease
  generalize Ebb3.splitOn '.' (Ebb3.strip s) = l
  induction l with
  | nil => rfl
  | cons x r ih =>
    simp only [List.map_cons, List.foldr_cons, ih, List.mapM_cons, parseNat_agree]
    cases C15.parseNat x with
    | none => rfl
    | some a => cases List.mapM C15.parseNat r <;> rfl

/-- the text has no leading `v` after stripping (the runtime's `parse` does not accept one) -/
def NoV (t : List Char) : Prop := C15.dropV (C15.strip t) = C15.strip t

theorem parseRelease_agree (t : List Char) (h : NoV t) : Ebb3.parseRelease t = C15.parseVersion t := by
  rw [parseRelease_eq]
  unfold C15.parseVersion C15.parseRelease
  rw [h, LegacyGen.strip_agree, splitOn_agree]


theorem parseNat_nil : C15.parseNat [] = Option.none := rfl

theorem parseNat_head_digit {c : Char} {h : List Char} {n : Nat} (hp : C15.parseNat (c :: h) = some n) :
    c.isDigit = true := by
  unfold C15.parseNat at hp
  by_cases hd : c.isDigit = true
  · exact hd
  · simp [hd] at hp

/-- whatever the runtime's `parse` accepts has no leading `v` -/
theorem noV_of_parseRelease {t : List Char} {v : List Nat} (h : Ebb3.parseRelease t = some v) : NoV t := by
  rw [parseRelease_eq, LegacyGen.strip_agree, splitOn_agree] at h
  unfold NoV
  cases hs : C15.strip t with
  | nil => rfl
  | cons c r =>
    rw [hs] at h
    by_cases hc : c = '.'
    · subst hc
      simp [C15.splitOn, List.mapM_cons, parseNat_nil] at h
    · have : ∃ hd tl, C15.splitOn '.' (c :: r) = (c :: hd) :: tl := by
        simp only [C15.splitOn, hc, ↓reduceIte]
        cases C15.splitOn '.' r with
        | nil => exact ⟨[], [], rfl⟩
        | cons a b => exact ⟨a, b, rfl⟩
      obtain ⟨hd, tl, he⟩ := this
      rw [he, List.mapM_cons] at h
      cases hp : C15.parseNat (c :: hd) with
      | none => simp [hp] at h
      | some n =>
        have hd' := parseNat_head_digit hp
        simp only [C15.dropV, C15.isDigit_ne_v hd', ↓reduceIte]

theorem parseRelease_some {t : List Char} {v : List Nat} (h : Ebb3.parseRelease t = some v) :
    C15.parseVersion t = some v := by
  rw [← parseRelease_agree t (noV_of_parseRelease h)]; exact h

end Plotink.C15Gen
