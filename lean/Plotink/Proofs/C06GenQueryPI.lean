import Plotink.Proofs.C06GenQuery
import Plotink.Proofs.C06GenTop
import Plotink.Gen.ebb_motion_query_enable_motors
/-! # C06 over the regenerated code: legacy `query_enable_motors`

The helper sends five `PI` queries; after each it takes `result.split("PI,")[1]`, so a reply without the marker `PI,`
raises `IndexError` (caught by the bare `except`) and the remaining queries are not sent.  Under the hypothesis that each
of the five replies — as `ebb_serial.query` returns them on this script (`C07.query`) — contains the marker, exactly the
five documented queries are written. -/
namespace Plotink
namespace C06Gen
open PyObj Gen
set_option linter.unusedSimpArgs false
set_option linter.unusedVariables false

/-- the reply contains the marker: `s.split("PI,")[1]` exists -/
def HasPI (s : List Char) : Prop :=
  ∃ x, op_getitem (.list ((splitSubGo ['P', 'I', ','] s [] 0).map Val.str)) (.int 1) = .ok (.str x)

/-- the replies to the queries `ts`, one after the other on the script of `p`, all contain the marker -/
def PIChain : List (List Char) → PyIO.Port → Prop
  | [], _ => True
  | t :: ts, p => (∃ s, (C07.query C07.std t p).1 = .ok (.str s) ∧ HasPI s) ∧ PIChain ts (C07.query C07.std t p).2

/-- the five query texts -/
def piTexts : List (List Char) :=
  [['P', 'I', ',', 'E', ',', '0', '\r'], ['P', 'I', ',', 'C', ',', '1', '\r'], ['P', 'I', ',', 'E', ',', '2', '\r'],
   ['P', 'I', ',', 'E', ',', '1', '\r'], ['P', 'I', ',', 'A', ',', '6', '\r']]

/-- a query whose reply (per the model) is known -/
theorem ioQuery_model (fuel : Nat) (hf : 101 ≤ fuel) (t : List Char) (ht : PyIO.isAscii t = true) (vb : Val) (w : World NoObj)
    (hd : Dom w.port) (s : List Char) (hs : (C07.query C07.std t w.port).1 = .ok (.str s)) :
    (ioCall3 (ebb_serial_query fuel) (ok .port) (ok (.str t)) (ok vb) : Eff NoObj) w =
        (.ok (.str s), { w with port := (C07.query C07.std t w.port).2 }) ∧
      (C07.query C07.std t w.port).2.log = w.port.log ++ [t] ∧ Dom (C07.query C07.std t w.port).2 := by
  have hb := (C07_gen_bridge fuel hf t (toIO vb) w.port hd.1).1
  refine ⟨?_, C07.query_log C07.std t w.port ht, hd.shrinks (query_shrinks C07.std t w.port)⟩
  simp only [ioCall3, bind_ok, toIO_port, toIO_str, hb]
  rcases hq : C07.query C07.std t w.port with ⟨r, p'⟩
  rw [hq] at hs
  simp only at hs
  subst hs
  rfl

/-- `x = result.split("PI,")[1].strip() == c` on a reply with the marker -/
theorem parse_eval (s c : List Char) (h : HasPI s) :
    ∃ b, (app2 op_eq (app1 meth_strip (app2 op_getitem (app1 (meth_split_str ['P', 'I', ',']) (ok (.str s))) (ok (.int 1))))
      (ok (.str c)) : Eff NoObj) = ok (.bool b) := by
  obtain ⟨x, hx⟩ := h
  refine ⟨pyEq (.str (Ebb3.strip x)) (.str c), ?_⟩
  simp only [app1_ok, meth_split_str, ofP_ok, app2_ok, hx, meth_strip, op_eq]

theorem lit_PIE : "PI,E".toList = ['P', 'I', ',', 'E'] := by decide
theorem lit_PIC : "PI,C".toList = ['P', 'I', ',', 'C'] := by decide
theorem lit_PIA : "PI,A".toList = ['P', 'I', ',', 'A'] := by decide
theorem showInt_2 : Ebb3.showInt 2 = ['2'] := by decide
theorem showInt_6 : Ebb3.showInt 6 = ['6'] := by decide

/-- `query_enable_motors`: `PI,E,0`, `PI,C,1`, `PI,E,2`, `PI,E,1`, `PI,A,6` — when every reply carries the marker `PI,` -/
theorem query_enable_motors_bridge (fuel : Nat) (hf : 101 ≤ fuel) (present fwOk : Bool) (vb : Val) (w : World NoObj)
    (hd : Dom w.port) (hpi : present = true → PIChain piTexts w.port) :
    Wrote (ebb_motion_query_enable_motors fuel (encPort present) vb w) w (C06.legacyEmit present fwOk .queryMotorsPI) := by
  unfold ebb_motion_query_enable_motors ebb_motion_query_enable_motors_main ebb_motion_query_enable_motors_if1
  have hnone2 : ∀ (σ : Type), PureX (fun (fuel : Nat) (env : σ) => (mkTuple [ok .none, ok .none] : Eff NoObj)) := by
    intro σ fuel env
    refine pureE_mkTuple _ ?_
    intro e he
    simp only [List.mem_cons, List.mem_nil_iff, or_false] at he
    rcases he with rfl | rfl <;> exact pureE_ok _
  cases present with
  | false =>
    refine ⟨w, ?_, by simp [C06.legacyEmit, C06.legacyEmitWith]⟩
    rw [outWorld_run]
    simp only [block_cons2, block_one, encPort, Bool.false_eq_true, ↓reduceIte]
    refine flowWorld_seq (pureS_return (hnone2 _)) fuel _ w w ?_
    rw [guard_none (fun env : ebb_motion_query_enable_motors_Env => env.port_name) _ _ fuel _ w rfl]
    rfl
  | true =>
    obtain ⟨⟨s1, q1, m1⟩, ⟨s2, q2, m2⟩, ⟨s3, q3, m3⟩, ⟨s4, q4, m4⟩, ⟨s5, q5, m5⟩, _⟩ := hpi rfl
    -- the five worlds
    obtain ⟨e1, l1, d1⟩ := ioQuery_model fuel hf _ (by decide) vb w hd s1 q1
    generalize hp1 : (C07.query C07.std ['P', 'I', ',', 'E', ',', '0', '\r'] w.port).2 = p1 at *
    obtain ⟨e2, l2, d2⟩ := ioQuery_model fuel hf _ (by decide) vb { w with port := p1 } d1 s2 q2
    generalize hp2 : (C07.query C07.std ['P', 'I', ',', 'C', ',', '1', '\r'] p1).2 = p2 at *
    obtain ⟨e3, l3, d3⟩ := ioQuery_model fuel hf _ (by decide) (.bool true) { w with port := p2 } d2 s3 q3
    generalize hp3 : (C07.query C07.std ['P', 'I', ',', 'E', ',', '2', '\r'] p2).2 = p3 at *
    obtain ⟨e4, l4, d4⟩ := ioQuery_model fuel hf _ (by decide) (.bool true) { w with port := p3 } d3 s4 q4
    generalize hp4 : (C07.query C07.std ['P', 'I', ',', 'E', ',', '1', '\r'] p3).2 = p4 at *
    obtain ⟨e5, l5, d5⟩ := ioQuery_model fuel hf _ (by decide) (.bool true) { w with port := p4 } d4 s5 q5
    generalize hp5 : (C07.query C07.std ['P', 'I', ',', 'A', ',', '6', '\r'] p4).2 = p5 at *
    obtain ⟨b1, t1⟩ := parse_eval s1 ['0'] m1
    obtain ⟨b2, t2⟩ := parse_eval s2 ['0'] m2
    obtain ⟨b3, t3⟩ := parse_eval s3 ['1'] m3
    obtain ⟨b4, t4⟩ := parse_eval s4 ['1'] m4
    obtain ⟨b5, t5⟩ := parse_eval s5 ['1'] m5
    refine ⟨{ w with port := p5 }, ?_, ?_⟩
    · rw [outWorld_run]
      simp only [block_cons2, block_one, encPort, ↓reduceIte]
      refine flowWorld_seq (pureS_return (hnone2 _)) fuel _ w _ ?_
      rw [guard_port (fun env : ebb_motion_query_enable_motors_Env => env.port_name) _ _ fuel _ w rfl]
      refine flowWorld_try ?_ fuel _ w _ ?_
      · intro h hh
        simp only [ebb_motion_query_enable_motors_handlers1, List.mem_singleton] at hh
        subst hh
        exact pureS_return (hnone2 _)
      · unfold ebb_motion_query_enable_motors_try1
        simp only [block_cons2, block_one]
        rw [seq_norm (assign_of (v := .str s1) (w' := { w with port := p1 }) e1)]
        rw [seq_norm (assign_of (v := .bool b1) (w' := { w with port := p1 }) (by simp only [load_str, t1, ok_apply]))]
        rw [seq_norm (assign_of (v := .str s2) (w' := { w with port := p2 }) e2)]
        rw [seq_norm (assign_of (v := .bool b2) (w' := { w with port := p2 }) (by simp only [load_str, t2, ok_apply]))]
        rw [seq_norm (assign_of (v := .str s3) (w' := { w with port := p3 }) e3)]
        rw [seq_norm (assign_of (v := .bool b3) (w' := { w with port := p3 }) (by simp only [load_str, t3, ok_apply]))]
        rw [seq_norm (assign_of (v := .str s4) (w' := { w with port := p4 }) e4)]
        rw [seq_norm (assign_of (v := .bool b4) (w' := { w with port := p4 }) (by simp only [load_str, t4, ok_apply]))]
        rw [seq_norm (assign_of (v := .str s5) (w' := { w with port := p5 }) e5)]
        rw [seq_norm (assign_of (v := .bool b5) (w' := { w with port := p5 }) (by simp only [load_str, t5, ok_apply]))]
        -- the decision table and the return are pure
        have hif5 : PureS ebb_motion_query_enable_motors_if5 :=
          pureS_ifte (fun _ _ => pureE_load _) (pureS_assign _ fun _ _ => pureE_ok _) (pureS_assign _ fun _ _ => pureE_ok _)
        have hif4 : PureS ebb_motion_query_enable_motors_if4 :=
          pureS_ifte (fun _ _ => pureE_load _) (pureS_assign _ fun _ _ => pureE_ok _) hif5
        have hif3 : PureS ebb_motion_query_enable_motors_if3 :=
          pureS_ifte (fun _ _ => pureE_and (pureE_load _) (pureE_load _)) (pureS_assign _ fun _ _ => pureE_ok _) hif4
        have hif2 : PureS ebb_motion_query_enable_motors_if2 :=
          pureS_ifte (fun _ _ => pureE_and (pureE_load _) (pureE_and (pureE_load _) (pureE_load _)))
            (pureS_assign _ fun _ _ => pureE_ok _) hif3
        have hif6 : PureS ebb_motion_query_enable_motors_if6 :=
          pureS_ifte (fun _ _ => pureE_not (pureE_load _)) (pureS_assign _ fun _ _ => pureE_ok _) pureS_pass
        have hif7 : PureS ebb_motion_query_enable_motors_if7 :=
          pureS_ifte (fun _ _ => pureE_not (pureE_load _)) (pureS_assign _ fun _ _ => pureE_ok _) pureS_pass
        refine pureS_seq hif2 (pureS_seq (pureS_assign _ fun _ _ => pureE_load _) (pureS_seq hif6 (pureS_seq hif7
          (pureS_return fun _ _ => pureE_mkTuple _ ?_)))) fuel _ _
        intro e he
        simp only [List.mem_cons, List.mem_nil_iff, or_false] at he
        rcases he with rfl | rfl <;> exact pureE_load _
    · show p5.log = _
      rw [l5, l4, l3, l2, l1]
      simp [C06.legacyEmit, C06.legacyEmitWith, wire_toList, argChars, lit_PIE, lit_PIC, lit_PIA, showInt_0, showInt_1, showInt_2,
        showInt_6]

/-- the regenerated legacy helper serving `r`: all 24 requests the layer serves -/
def legacyGenFull (fuel : Nat) (present : Bool) (vb : Val) (w : World NoObj) (r : C06.Req) : Option (Out NoObj) :=
  match legacyGen fuel present vb w r with
  | some o => some o
  | Option.none =>
    match r with
    | .queryMotorsPI => some (ebb_motion_query_enable_motors fuel (encPort present) vb w)
    | _ => Option.none

/-- the hypothesis on the replies that `query_enable_motors` needs (nothing for the other helpers) -/
def RepliesFor (r : C06.Req) (p : PyIO.Port) : Prop :=
  match r with
  | .queryMotorsPI => PIChain piTexts p
  | _ => True

theorem legacyGenFull_emit (fuel : Nat) (present : Bool) (vb : Val) (w : World NoObj) (r : C06.Req) (o : Out NoObj)
    (hf : FuelFor fuel r) (hd : Dom w.port) (hrep : present = true → RepliesFor r w.port)
    (ho : legacyGenFull fuel present vb w r = some o) :
    ∃ fwOk, Wrote o w (C06.legacyEmit present fwOk r) := by
  unfold legacyGenFull at ho
  cases h : legacyGen fuel present vb w r with
  | some o' =>
    rw [h] at ho
    simp only [Option.some.injEq] at ho
    subst ho
    exact legacyGen_emit fuel present vb w r o' hf hd h
  | none =>
    rw [h] at ho
    cases r <;> simp only [reduceCtorEq] at ho
    case queryMotorsPI =>
      cases ho
      exact ⟨true, query_enable_motors_bridge fuel hf present true vb w hd hrep⟩

theorem legacyGenFull_isSome (fuel : Nat) (present : Bool) (vb : Val) (w : World NoObj) (r : C06.Req) :
    (legacyGenFull fuel present vb w r).isSome ↔ C06.legacySupports r := by
  cases r <;> simp [legacyGenFull, legacyGen, C06.legacySupports] <;> split <;> simp_all

end C06Gen
end Plotink
