import Plotink.Gen.clip_code
import Plotink.Gen.clip_segment
import Plotink.Proofs.PyLemmas
import Plotink.Proofs.PyEnc
import Plotink.Proofs.C08

/-! # C08 — bridge: the source-regenerated `clip_code` / `clip_segment` = the hand model

`Gen.clip_code`, `Gen.clip_segment_body1` (one pass of the `while True` loop), `Gen.clip_segment_loop1` (the loop on
fuel) and `Gen.clip_segment` are regenerated from `plotink/plot_utils.py` on every run. This file proves, for
`Rounding.exact`:

* `clip_code_bridge` — `Gen.clip_code` is `C08.clipCode` of the numeric values (any rounding, any tags);
* `body_accept` / `body_reject` / `body_step` — one pass of the generated loop does what one unfolding of
  `C08.clipLoop` does (`clipLoop_succ`), case by case on the same comparisons;
* `loop_bridge` (induction on the fuel) and `clip_segment_bridge` (fuel ≥ 5).

Numbers are related to rationals by a predicate `K : Val → Rat → Prop` closed under exact `+ - * /` (`Enc K`);
two instances: `IsFlt` (every number a `float` holding that rational) and `IsNum` (`int` or `float`, any mixture —
under `Rounding.exact` the quotient of two ints is the exact rational, as a `float`). -/

namespace Plotink
namespace C08
open Py Py.Val
set_option linter.unusedSimpArgs false
set_option linter.unusedSectionVars false

theorem bitor_nat (a b : Nat) : Py.bitor (.int (a : Int)) (.int (b : Int)) = .int ((a ||| b : Nat) : Int) := rfl
theorem bitand_nat (a b : Nat) : Py.bitand (.int (a : Int)) (.int (b : Int)) = .int ((a &&& b : Nat) : Int) := rfl

/-- the generated `clip_code` is the model's `clipCode` of the numeric values, whatever the tags -/
theorem clip_code_bridge (R : Rounding) (amb : Nat) (x y x0 x1 y0 y1 : Val) :
    Gen.clip_code R amb x y x0 x1 y0 y1 = .int (clipCode (num x) (num y) ⟨num x0, num y0, num x1, num y1⟩ : Nat) := by
  unfold Gen.clip_code clipCode
  simp only [Py.lt, Py.gt]
  by_cases a : num x < num x0 <;> by_cases b : num x > num x1 <;> by_cases c : num y < num y0 <;>
    by_cases d : num y > num y1 <;> simp only [a, b, c, d, decide_true, decide_false, if_true, if_false, Bool.false_eq_true] <;> rfl



/-! ### evaluation of the integer tests of the loop on outcodes -/
theorem eq_nat_zero (n : Nat) : Py.eq (.int (n : Int)) (.int 0) = decide (n = 0) := by
  simp [Py.eq, Py.num]
theorem ne_nat_zero (n : Nat) : Py.ne (.int (n : Int)) (.int 0) = !decide (n = 0) := by
  simp [Py.ne, Py.eq, Py.num]
theorem eq_nat_nat (m n : Nat) : Py.eq (.int (m : Int)) (.int (n : Int)) = decide (m = n) := by
  simp [Py.eq, Py.num]
theorem truthy_int_nat (n : Nat) : Py.truthy (.int (n : Int)) = !decide (n = 0) := by
  by_cases h : n = 0 <;> simp [Py.truthy, h]
theorem bitand_nat_1 (m : Nat) : Py.bitand (.int (m : Int)) (.int 1) = .int ((m &&& 1 : Nat) : Int) := rfl
theorem bitand_nat_2 (m : Nat) : Py.bitand (.int (m : Int)) (.int 2) = .int ((m &&& 2 : Nat) : Int) := rfl
theorem bitand_nat_4 (m : Nat) : Py.bitand (.int (m : Int)) (.int 4) = .int ((m &&& 4 : Nat) : Int) := rfl
theorem bitand_nat_8 (m : Nat) : Py.bitand (.int (m : Int)) (.int 8) = .int ((m &&& 8 : Nat) : Int) := rfl
theorem gt_nat_3 (n : Nat) : Py.gt (.int (n : Int)) (.int 3) = decide (n > 3) := by
  simp [Py.gt, Py.num]
theorem add_nat_1 (R : Rounding) (p : Nat) (n : Nat) : Py.add R p (.int (n : Int)) (.int 1) = .int ((n + 1 : Nat) : Int) := rfl

/-- the four ways `newPoint` succeeds -/
theorem newPoint_cases (r : Rect) (s : Seg) (n : Nat) (p : Pt) (hp : newPoint n s r = .ok p) :
    (n &&& 1 ≠ 0 ∧ s.b.x - s.a.x ≠ 0 ∧
        p = ⟨r.xmin, (s.b.y - s.a.y) / (s.b.x - s.a.x) * (r.xmin - s.a.x) + s.a.y⟩) ∨
    (n &&& 1 = 0 ∧ n &&& 2 ≠ 0 ∧ s.b.x - s.a.x ≠ 0 ∧
        p = ⟨r.xmax, (s.b.y - s.a.y) / (s.b.x - s.a.x) * (r.xmax - s.a.x) + s.a.y⟩) ∨
    (n &&& 1 = 0 ∧ n &&& 2 = 0 ∧ n &&& 4 ≠ 0 ∧ s.b.y - s.a.y ≠ 0 ∧
        p = ⟨(s.b.x - s.a.x) / (s.b.y - s.a.y) * (r.ymin - s.a.y) + s.a.x, r.ymin⟩) ∨
    (n &&& 1 = 0 ∧ n &&& 2 = 0 ∧ n &&& 4 = 0 ∧ n &&& 8 ≠ 0 ∧ s.b.y - s.a.y ≠ 0 ∧
        p = ⟨(s.b.x - s.a.x) / (s.b.y - s.a.y) * (r.ymax - s.a.y) + s.a.x, r.ymax⟩) := by
  unfold newPoint at hp
  dsimp only at hp
  by_cases b1 : n &&& 1 = 0
  · rw [if_neg (not_not.mpr b1)] at hp
    by_cases b2 : n &&& 2 = 0
    · rw [if_neg (not_not.mpr b2)] at hp
      by_cases b4 : n &&& 4 = 0
      · rw [if_neg (not_not.mpr b4)] at hp
        by_cases b8 : n &&& 8 = 0
        · rw [if_neg (not_not.mpr b8)] at hp; cases hp
        · rw [if_pos b8] at hp
          by_cases hz : s.b.y - s.a.y = 0
          · rw [if_pos hz] at hp; cases hp
          · rw [if_neg hz] at hp; cases hp
            exact Or.inr (Or.inr (Or.inr ⟨b1, b2, b4, b8, hz, rfl⟩))
      · rw [if_pos b4] at hp
        by_cases hz : s.b.y - s.a.y = 0
        · rw [if_pos hz] at hp; cases hp
        · rw [if_neg hz] at hp; cases hp
          exact Or.inr (Or.inr (Or.inl ⟨b1, b2, b4, hz, rfl⟩))
    · rw [if_pos b2] at hp
      by_cases hz : s.b.x - s.a.x = 0
      · rw [if_pos hz] at hp; cases hp
      · rw [if_neg hz] at hp; cases hp
        exact Or.inr (Or.inl ⟨b1, b2, hz, rfl⟩)
  · rw [if_pos b1] at hp
    by_cases hz : s.b.x - s.a.x = 0
    · rw [if_pos hz] at hp; cases hp
    · rw [if_neg hz] at hp; cases hp
      exact Or.inl ⟨b1, hz, rfl⟩

theorem ite_code (n1 n2 : Nat) :
    (if (!decide (n1 = 0)) = true then Val.int (n1 : Int) else Val.int (n2 : Int))
      = Val.int ((if n1 ≠ 0 then n1 else n2 : Nat) : Int) := by
  by_cases h : n1 = 0 <;> simp [h]

section body
variable {K : Val → Rat → Prop} (hK : Enc K) (amb : Nat) (r : Rect) (s : Seg)
  (a b c' d : Val) (ha : K a r.xmin) (hb : K b r.ymin) (hc : K c' r.xmax) (hd : K d r.ymax)
  (kont : Val → Val → Val → Val → Val → Val → Val → Val → Val → Val → Val → Val →
    Loop (Val × Val × Val × Val × Val × Val × Val × Val × Val × Val × Val × Val))
  (j1 j2 j3 xn sl yn x1 y1 x2 y2 seg : Val)
  (hx1 : K x1 s.a.x) (hy1 : K y1 s.a.y) (hx2 : K x2 s.b.x) (hy2 : K y2 s.b.y) (it : Nat)

include hK ha hb hc hd hx1 hy1 hx2 hy2

theorem body_codes :
    Gen.clip_code Rounding.exact amb x1 y1 a c' b d = .int (code r s.a : Nat) ∧
    Gen.clip_code Rounding.exact amb x2 y2 a c' b d = .int (code r s.b : Nat) := by
  rw [clip_code_bridge, clip_code_bridge, hK.num_eq ha, hK.num_eq hb, hK.num_eq hc, hK.num_eq hd,
    hK.num_eq hx1, hK.num_eq hy1, hK.num_eq hx2, hK.num_eq hy2]
  exact ⟨rfl, rfl⟩

theorem body_accept (h : code r s.a = 0 ∧ code r s.b = 0) :
    Gen.clip_segment_body1 Rounding.exact amb a b c' d kont j1 j2 j3 xn sl yn x1 y1 x2 y2 seg (.int (it : Int))
      = .ret (.tup [.bool_ true, seg]) := by
  obtain ⟨e1, e2⟩ := body_codes hK amb r s a b c' d ha hb hc hd x1 y1 x2 y2 hx1 hy1 hx2 hy2
  unfold Gen.clip_segment_body1
  simp only [e1, e2, h.1, h.2, eq_nat_zero, decide_true, Bool.and_self, if_true]

theorem body_reject (h0 : ¬ (code r s.a = 0 ∧ code r s.b = 0)) (h : code r s.a &&& code r s.b ≠ 0) :
    Gen.clip_segment_body1 Rounding.exact amb a b c' d kont j1 j2 j3 xn sl yn x1 y1 x2 y2 seg (.int (it : Int))
      = .ret (.tup [.bool_ false, seg]) := by
  obtain ⟨e1, e2⟩ := body_codes hK amb r s a b c' d ha hb hc hd x1 y1 x2 y2 hx1 hy1 hx2 hy2
  unfold Gen.clip_segment_body1
  have h0' : (decide (code r s.a = 0) && decide (code r s.b = 0)) = false := by
    by_cases h1 : code r s.a = 0 <;> by_cases h2 : code r s.b = 0 <;> simp [h1, h2]
    exact h0 ⟨h1, h2⟩
  simp only [e1, e2, eq_nat_zero, h0', bitand_nat, truthy_int_nat, h, decide_false, Bool.not_false, if_true,
    Bool.false_eq_true, if_false]


theorem body_step (h0 : ¬ (code r s.a = 0 ∧ code r s.b = 0)) (hrej : ¬ (code r s.a &&& code r s.b ≠ 0))
    (hit : ¬ it > 3) (p : Pt)
    (hp : newPoint (if code r s.a ≠ 0 then code r s.a else code r s.b) s r = .ok p) :
    ∃ n1 n2 n3 xn' sl' yn' x1' y1' x2' y2',
      Gen.clip_segment_body1 Rounding.exact amb a b c' d kont j1 j2 j3 xn sl yn x1 y1 x2 y2 seg (.int (it : Int))
        = kont n1 n2 n3 xn' sl' yn' x1' y1' x2' y2' (.tup [.tup [x1', y1'], .tup [x2', y2']]) (.int ((it + 1 : Nat) : Int)) ∧
      K x1' (if (if code r s.a ≠ 0 then code r s.a else code r s.b) = code r s.a then (⟨p, s.b⟩ : Seg) else ⟨s.a, p⟩).a.x ∧
      K y1' (if (if code r s.a ≠ 0 then code r s.a else code r s.b) = code r s.a then (⟨p, s.b⟩ : Seg) else ⟨s.a, p⟩).a.y ∧
      K x2' (if (if code r s.a ≠ 0 then code r s.a else code r s.b) = code r s.a then (⟨p, s.b⟩ : Seg) else ⟨s.a, p⟩).b.x ∧
      K y2' (if (if code r s.a ≠ 0 then code r s.a else code r s.b) = code r s.a then (⟨p, s.b⟩ : Seg) else ⟨s.a, p⟩).b.y := by
  obtain ⟨e1, e2⟩ := body_codes hK amb r s a b c' d ha hb hc hd x1 y1 x2 y2 hx1 hy1 hx2 hy2
  have h0' : (decide (code r s.a = 0) && decide (code r s.b = 0)) = false := by
    by_cases h1 : code r s.a = 0 <;> by_cases h2 : code r s.b = 0 <;> simp [h1, h2]
    exact h0 ⟨h1, h2⟩
  have hrej' : code r s.a &&& code r s.b = 0 := by
    by_contra h; exact hrej h
  have hdx := hK.sub amb hx2 hx1
  have hdy := hK.sub amb hy2 hy1
  unfold Gen.clip_segment_body1
  simp only [e1, e2, eq_nat_zero, h0', bitand_nat, truthy_int_nat, hrej', gt_nat_3, hit, decide_true, decide_false,
    Bool.not_true, Bool.false_eq_true, if_false, ne_nat_zero, ite_code, eq_nat_nat, add_nat_1,
    bitand_nat_1, bitand_nat_2, bitand_nat_4, bitand_nat_8]
  generalize (if code r s.a ≠ 0 then code r s.a else code r s.b) = n at hp ⊢
  rcases newPoint_cases r s n p hp with ⟨b1, hz, rfl⟩ | ⟨b1, b2, hz, rfl⟩ | ⟨b1, b2, b4, hz, rfl⟩ | ⟨b1, b2, b4, b8, hz, rfl⟩
  · by_cases hsel : n = code r s.a
    · subst hsel
      simp only [b1, decide_true, decide_false, Bool.not_true, Bool.not_false, Bool.false_eq_true, if_true, if_false]
      refine ⟨_, _, _, _, _, _, _, _, _, _, rfl, ?_, ?_, ?_, ?_⟩ <;>
        first
          | assumption
          | exact hK.add _ (hK.mul _ (hK.div _ hdy hdx hz) (hK.sub _ ha hx1)) hy1
    · simp only [b1, hsel, decide_true, decide_false, Bool.not_true, Bool.not_false, Bool.false_eq_true, if_true, if_false]
      refine ⟨_, _, _, _, _, _, _, _, _, _, rfl, ?_, ?_, ?_, ?_⟩ <;>
        first
          | assumption
          | exact hK.add _ (hK.mul _ (hK.div _ hdy hdx hz) (hK.sub _ ha hx1)) hy1
  · by_cases hsel : n = code r s.a
    · subst hsel
      simp only [b1, b2, decide_true, decide_false, Bool.not_true, Bool.not_false, Bool.false_eq_true, if_true, if_false]
      refine ⟨_, _, _, _, _, _, _, _, _, _, rfl, ?_, ?_, ?_, ?_⟩ <;>
        first
          | assumption
          | exact hK.add _ (hK.mul _ (hK.div _ hdy hdx hz) (hK.sub _ hc hx1)) hy1
    · simp only [b1, b2, hsel, decide_true, decide_false, Bool.not_true, Bool.not_false, Bool.false_eq_true, if_true, if_false]
      refine ⟨_, _, _, _, _, _, _, _, _, _, rfl, ?_, ?_, ?_, ?_⟩ <;>
        first
          | assumption
          | exact hK.add _ (hK.mul _ (hK.div _ hdy hdx hz) (hK.sub _ hc hx1)) hy1
  · by_cases hsel : n = code r s.a
    · subst hsel
      simp only [b1, b2, b4, decide_true, decide_false, Bool.not_true, Bool.not_false, Bool.false_eq_true, if_true, if_false]
      refine ⟨_, _, _, _, _, _, _, _, _, _, rfl, ?_, ?_, ?_, ?_⟩ <;>
        first
          | assumption
          | exact hK.add _ (hK.mul _ (hK.div _ hdx hdy hz) (hK.sub _ hb hy1)) hx1
    · simp only [b1, b2, b4, hsel, decide_true, decide_false, Bool.not_true, Bool.not_false, Bool.false_eq_true, if_true, if_false]
      refine ⟨_, _, _, _, _, _, _, _, _, _, rfl, ?_, ?_, ?_, ?_⟩ <;>
        first
          | assumption
          | exact hK.add _ (hK.mul _ (hK.div _ hdx hdy hz) (hK.sub _ hb hy1)) hx1
  · by_cases hsel : n = code r s.a
    · subst hsel
      simp only [b1, b2, b4, b8, decide_true, decide_false, Bool.not_true, Bool.not_false, Bool.false_eq_true, if_true, if_false]
      refine ⟨_, _, _, _, _, _, _, _, _, _, rfl, ?_, ?_, ?_, ?_⟩ <;>
        first
          | assumption
          | exact hK.add _ (hK.mul _ (hK.div _ hdx hdy hz) (hK.sub _ hd hy1)) hx1
    · simp only [b1, b2, b4, b8, hsel, decide_true, decide_false, Bool.not_true, Bool.not_false, Bool.false_eq_true, if_true, if_false]
      refine ⟨_, _, _, _, _, _, _, _, _, _, rfl, ?_, ?_, ?_, ?_⟩ <;>
        first
          | assumption
          | exact hK.add _ (hK.mul _ (hK.div _ hdx hdy hz) (hK.sub _ hd hy1)) hx1

end body

/-! ### the loop -/

theorem clipLoop_mono (r : Rect) : ∀ (fuel it : Nat) (s : Seg) (x : Bool × Seg),
    clipLoop r fuel it s = .ok (some x) → clipLoop r (fuel + 1) it s = .ok (some x) := by
  intro fuel
  induction fuel with
  | zero => intro it s x h; cases h
  | succ fuel ih =>
    intro it s x h
    rw [clipLoop_succ] at h ⊢
    by_cases h1 : code r s.a = 0 ∧ code r s.b = 0
    · rw [if_pos h1] at h ⊢; exact h
    rw [if_neg h1] at h ⊢
    by_cases h2 : code r s.a &&& code r s.b ≠ 0
    · rw [if_pos h2] at h ⊢; exact h
    rw [if_neg h2] at h ⊢
    by_cases h3 : it > 3
    · rw [if_pos h3] at h; cases h
    rw [if_neg h3] at h ⊢
    cases hnp : newPoint (if code r s.a ≠ 0 then code r s.a else code r s.b) s r with
    | error e => rw [hnp] at h; cases h
    | ok p => rw [hnp] at h; exact ih _ _ _ h

theorem clipLoop_mono' (r : Rect) (fuel k it : Nat) (s : Seg) (x : Bool × Seg)
    (h : clipLoop r fuel it s = .ok (some x)) : clipLoop r (fuel + k) it s = .ok (some x) := by
  induction k with
  | zero => exact h
  | succ k ih => exact clipLoop_mono r _ _ _ _ ih

/-- `v` is a Python segment/rectangle `[[a, b], [c, d]]` whose four numbers encode the given rationals -/
def Enc4 (K : Val → Rat → Prop) (v : Val) (q1 q2 q3 q4 : Rat) : Prop :=
  ∃ a b c d, v = .tup [.tup [a, b], .tup [c, d]] ∧ K a q1 ∧ K b q2 ∧ K c q3 ∧ K d q4
def EncSeg (K : Val → Rat → Prop) (v : Val) (s : Seg) : Prop := Enc4 K v s.a.x s.a.y s.b.x s.b.y
def EncRect (K : Val → Rat → Prop) (v : Val) (r : Rect) : Prop := Enc4 K v r.xmin r.ymin r.xmax r.ymax

theorem loop_bridge {K : Val → Rat → Prop} (hK : Enc K) (amb : Nat) (r : Rect)
    (a b c' d : Val) (ha : K a r.xmin) (hb : K b r.ymin) (hc : K c' r.xmax) (hd : K d r.ymax) :
    ∀ (fuel it : Nat) (s : Seg) (acc : Bool) (s' : Seg) (j1 j2 j3 xn sl yn x1 y1 x2 y2 : Val),
      K x1 s.a.x → K y1 s.a.y → K x2 s.b.x → K y2 s.b.y →
      clipLoop r fuel it s = .ok (some (acc, s')) →
      ∃ vs', EncSeg K vs' s' ∧
        Gen.clip_segment_loop1 Rounding.exact amb a b c' d fuel j1 j2 j3 xn sl yn x1 y1 x2 y2
          (.tup [.tup [x1, y1], .tup [x2, y2]]) (.int (it : Int)) = .ret (.tup [.bool_ acc, vs']) := by
  intro fuel
  induction fuel with
  | zero => intro it s acc s' j1 j2 j3 xn sl yn x1 y1 x2 y2 _ _ _ _ h; cases h
  | succ fuel ih =>
    intro it s acc s' j1 j2 j3 xn sl yn x1 y1 x2 y2 hx1 hy1 hx2 hy2 h
    rw [Gen.clip_segment_loop1]
    rw [clipLoop_succ] at h
    by_cases hacc : code r s.a = 0 ∧ code r s.b = 0
    · rw [if_pos hacc] at h
      cases h
      exact ⟨_, ⟨x1, y1, x2, y2, rfl, hx1, hy1, hx2, hy2⟩,
        body_accept hK amb r s a b c' d ha hb hc hd _ j1 j2 j3 xn sl yn x1 y1 x2 y2 _ hx1 hy1 hx2 hy2 it hacc⟩
    rw [if_neg hacc] at h
    by_cases hrej : code r s.a &&& code r s.b ≠ 0
    · rw [if_pos hrej] at h
      cases h
      exact ⟨_, ⟨x1, y1, x2, y2, rfl, hx1, hy1, hx2, hy2⟩,
        body_reject hK amb r s a b c' d ha hb hc hd _ j1 j2 j3 xn sl yn x1 y1 x2 y2 _ hx1 hy1 hx2 hy2 it hacc hrej⟩
    rw [if_neg hrej] at h
    by_cases hit : it > 3
    · rw [if_pos hit] at h; cases h
    rw [if_neg hit] at h
    cases hnp : newPoint (if code r s.a ≠ 0 then code r s.a else code r s.b) s r with
    | error e => rw [hnp] at h; cases h
    | ok p =>
      rw [hnp] at h
      obtain ⟨n1, n2, n3, xn', sl', yn', x1', y1', x2', y2', hstep, k1, k2, k3, k4⟩ :=
        body_step hK amb r s a b c' d ha hb hc hd
          (Gen.clip_segment_loop1 Rounding.exact amb a b c' d fuel) j1 j2 j3 xn sl yn x1 y1 x2 y2
          (.tup [.tup [x1, y1], .tup [x2, y2]]) hx1 hy1 hx2 hy2 it hacc hrej hit p hnp
      rw [hstep]
      exact ih (it + 1) _ acc s' n1 n2 n3 xn' sl' yn' x1' y1' x2' y2' k1 k2 k3 k4 h

/-- **bridge**: the regenerated `clip_segment`, in exact arithmetic and with fuel ≥ 5, returns what the
hand model `C08.clipSegment` returns, for every encoding of the rationals that exact arithmetic preserves -/
theorem clip_segment_bridge {K : Val → Rat → Prop} (hK : Enc K) (amb fuel : Nat) (hf : 5 ≤ fuel)
    (r : Rect) (s : Seg) (vs vr : Val) (hs : EncSeg K vs s) (hr : EncRect K vr r) :
    ∃ acc s' vs', clipSegment r s = .ok (some (acc, s')) ∧ EncSeg K vs' s' ∧
      Gen.clip_segment Rounding.exact amb fuel vs vr = .val (.tup [.bool_ acc, vs']) := by
  obtain ⟨acc, s', hm, _⟩ := clip_spec r s
  obtain ⟨x1, y1, x2, y2, rfl, hx1, hy1, hx2, hy2⟩ := hs
  obtain ⟨a, b, c', d, rfl, ha, hb, hc, hd⟩ := hr
  have hm' : clipLoop r fuel 0 s = .ok (some (acc, s')) := by
    have := clipLoop_mono' r 5 (fuel - 5) 0 s (acc, s') hm
    rwa [show 5 + (fuel - 5) = fuel by omega] at this
  obtain ⟨vs', hvs', hloop⟩ := loop_bridge hK amb r a b c' d ha hb hc hd fuel 0 s acc s'
    .err .err .err .err .err .err x1 y1 x2 y2 hx1 hy1 hx2 hy2 hm'
  refine ⟨acc, s', vs', hm, hvs', ?_⟩
  unfold Gen.clip_segment
  simp only [Py.getItem_cons_zero, Py.getItem_cons_succ]
  rw [show (Val.int 0) = Val.int ((0 : Nat) : Int) from rfl, hloop]



/-! ### the all-`float` encoding, as functions -/

def encPt (p : Pt) : Val := .tup [.flt p.x, .flt p.y]
/-- `[[x_1, y_1], [x_2, y_2]]`, every coordinate a `float` holding exactly that rational -/
def encSeg (s : Seg) : Val := .tup [encPt s.a, encPt s.b]
/-- `[[x_min, y_min], [x_max, y_max]]` -/
def encRect (r : Rect) : Val := .tup [.tup [.flt r.xmin, .flt r.ymin], .tup [.flt r.xmax, .flt r.ymax]]
/-- the Python result `(accept, segment)` of a model result. Only the first arm is ever produced by
`clipSegment` (`clip_spec`/`C08_total`: no exception, no failsafe return); the other is a placeholder. -/
def encResult : Except PyExc (Option (Bool × Seg)) → Py.Out
  | .ok (some (acc, s)) => .val (.tup [.bool_ acc, encSeg s])
  | _ => .val .err

theorem encSeg_isFlt (s : Seg) : EncSeg IsFlt (encSeg s) s := ⟨_, _, _, _, rfl, rfl, rfl, rfl, rfl⟩
theorem encRect_isFlt (r : Rect) : EncRect IsFlt (encRect r) r := ⟨_, _, _, _, rfl, rfl, rfl, rfl, rfl⟩
theorem encSeg_of_isFlt {v : Val} {s : Seg} (h : EncSeg IsFlt v s) : v = encSeg s := by
  obtain ⟨a, b, c, d, rfl, rfl, rfl, rfl, rfl⟩ := h; rfl

theorem Enc4.mono {K K' : Val → Rat → Prop} (hKK : ∀ v q, K v q → K' v q) {v : Val} {q1 q2 q3 q4 : Rat}
    (h : Enc4 K v q1 q2 q3 q4) : Enc4 K' v q1 q2 q3 q4 := by
  obtain ⟨a, b, c, d, e, h1, h2, h3, h4⟩ := h
  exact ⟨a, b, c, d, e, hKK _ _ h1, hKK _ _ h2, hKK _ _ h3, hKK _ _ h4⟩

/-- the bridge as an equation, for the all-`float` encoding -/
theorem clip_segment_bridge_flt (amb fuel : Nat) (hf : 5 ≤ fuel) (r : Rect) (s : Seg) :
    Gen.clip_segment Rounding.exact amb fuel (encSeg s) (encRect r) = encResult (clipSegment r s) := by
  obtain ⟨acc, s', vs', hm, hvs', hg⟩ :=
    clip_segment_bridge enc_isFlt amb fuel hf r s _ _ (encSeg_isFlt s) (encRect_isFlt r)
  rw [hg, hm, encSeg_of_isFlt hvs']
  rfl

end C08
end Plotink
