import Plotink.Gen.ebb_serial_query
import Plotink.Gen.ebb_serial_command
import Plotink.Proofs.PyIOLemmas
import Plotink.Proofs.C07

/-! # C07 — bridge: the source-regenerated `ebb_serial.query` / `ebb_serial.command` = the hand model

`Gen.ebb_serial_query`, `Gen.ebb_serial_command` (and their pieces `…_test<k>`, `…_body<k>`, `…_loop<k>`, `…_try<k>`,
`…_main`) are regenerated from `plotink/ebb_serial.py` on every run by `translator/pyio2lean.py`, as terms over the
combinators of `Plotink/PyIO.lean` with real exception semantics.  This file proves that on every script whose
`raise` outcomes are of classes the handlers name (`IoScript`), with fuel ≥ 101, they compute exactly what the hand
model `C07.command` / `C07.query` computes with the parameters `genP` (retry 100, the no-OK list, decode in the
retry loop) — same return value and type, same escaping exception, same final port (script left, write log,
read count).  The parameters are therefore read off the regenerated code by the proof itself: a source with
another bound or list no longer satisfies `*_bridge` and the build fails.

Structure: `retryLoop_sim` (generic in the record of locals: any "retry on empty" loop of the shape
`while len(x) == 0 and n < K: x = port.readline()[.decode('ascii')]; n += 1` simulates `C07.retryResp`), then one
lemma per generated piece. -/

namespace Plotink
namespace C07Gen
set_option linter.unusedSimpArgs false
set_option linter.unusedVariables false

/-! ## encodings -/

def encVal : C07.Val → PyIO.Val
  | .str s => .str s
  | .bytes b => .bytes b
  | .none => .none

def encExc : C07.PyExc → PyIO.ExcClass
  | .typeError => .typeError
  | .unicodeDecodeError => .unicodeDecodeError
  | .unicodeEncodeError => .unicodeEncodeError

def encOut : Except C07.PyExc C07.Val × PyIO.Port → PyIO.Out
  | (.ok v, p) => .val (encVal v) p
  | (.error e, p) => .exc (encExc e) p

/-- the classes named by the handlers of `query` and `command` -/
def handlerClasses : List PyIO.ExcClass := [.serialException, .osError, .runtimeError, .osError]

/-- a serial I/O exception class: one the handlers catch (`SerialException` and subclasses, `OSError`, `RuntimeError`) -/
def IoClass (c : PyIO.ExcClass) : Prop := PyIO.catches handlerClasses c = true

def IoReads (rs : List PyIO.Rd) : Prop := ∀ c, PyIO.Rd.raise c ∈ rs → IoClass c
def IoWrites (ws : List PyIO.Wr) : Prop := ∀ c, PyIO.Wr.raise c ∈ ws → IoClass c
/-- every scripted fault is a serial I/O exception -/
def IoScript (p : PyIO.Port) : Prop := IoReads p.reads ∧ IoWrites p.writes

theorem IoReads.tail {r : PyIO.Rd} {rs : List PyIO.Rd} (h : IoReads (r :: rs)) : IoReads rs :=
  fun c hc => h c (List.mem_cons_of_mem _ hc)
theorem IoReads.head {c : PyIO.ExcClass} {rs : List PyIO.Rd} (h : IoReads (.raise c :: rs)) : IoClass c :=
  h c List.mem_cons_self
theorem IoReads.nil : IoReads [] := fun c hc => by cases hc
theorem IoWrites.tail {r : PyIO.Wr} {rs : List PyIO.Wr} (h : IoWrites (r :: rs)) : IoWrites rs :=
  fun c hc => h c (List.mem_cons_of_mem _ hc)
theorem IoWrites.head {c : PyIO.ExcClass} {rs : List PyIO.Wr} (h : IoWrites (.raise c :: rs)) : IoClass c :=
  h c List.mem_cons_self

/-- exceptions the model lets escape are not caught by the handlers -/
theorem not_io_encExc (e : C07.PyExc) : PyIO.catches handlerClasses (encExc e) = false := by
  cases e <;> rfl

/-! ## the retry loop, generically in the record of locals -/

def ascii : PyIO.Val := .str ['a', 's', 'c', 'i', 'i']

/-- `port.readline().decode('ascii')` resp. `port.readline()` -/
def readE : Bool → PyIO.Val → PyIO.Eff
  | true, p => PyIO.call2 PyIO.meth_decode (PyIO.call1 PyIO.meth_readline (PyIO.ok p)) (PyIO.ok ascii)
  | false, p => PyIO.call1 PyIO.meth_readline (PyIO.ok p)

section Retry
variable {σ : Type} (getR getN getP : σ → PyIO.Val) (setR setN : σ → PyIO.Val → σ)

/-- `len(x) == 0 and n < K` -/
def retryTest (K : Int) : σ → PyIO.Eff :=
  fun env => PyIO.and_ (PyIO.call2 PyIO.op_eq (PyIO.call1 PyIO.op_len (PyIO.load (getR env))) (PyIO.ok (.int 0)))
    (PyIO.call2 PyIO.op_lt (PyIO.load (getN env)) (PyIO.ok (.int K)))

/-- `x = port.readline()[.decode('ascii')]; n += 1` -/
def retryBody (dec : Bool) : PyIO.Stmt σ :=
  PyIO.block [
    PyIO.assign setR (fun env => readE dec (getP env)),
    PyIO.assign setN (fun env => PyIO.call2 PyIO.op_add (PyIO.load (getN env)) (PyIO.ok (.int 1)))]

/-- the record behaves like a record in the three fields the loop touches -/
structure Lens : Prop where
  getR_setR : ∀ e v, getR (setR e v) = v
  getR_setN : ∀ e v, getR (setN e v) = getR e
  getN_setN : ∀ e v, getN (setN e v) = v
  getN_setR : ∀ e v, getN (setR e v) = getN e
  getP_setR : ∀ e v, getP (setR e v) = getP e
  getP_setN : ∀ e v, getP (setN e v) = getP e
  setR_setN : ∀ e n r, setR (setN e n) r = setN (setR e r) n
  setR_setR : ∀ e a b, setR (setR e a) b = setR e b
  setN_setN : ∀ e a b, setN (setN e a) b = setN e b
  eta : ∀ e, setN (setR e (getR e)) (getN e) = e

theorem encVal_ne_unbound (v : C07.Val) : encVal v ≠ .unbound := by cases v <;> intro h <;> cases h

theorem retryTest_eval (K a : Int) (env : σ) (v : C07.Val) (hv : v ≠ .none)
    (hR : getR env = encVal v) (hN : getN env = .int a) :
    retryTest getR getN K env = PyIO.ok (.bool (decide (v.len = 0) && decide (a < K))) := by
  unfold retryTest
  rw [hR, hN]
  cases v with
  | none => exact absurd rfl hv
  | str s =>
    simp only [encVal, PyIO.load_str, PyIO.load_int, PyIO.call1_ok, PyIO.call2_ok, PyIO.op_len, PyIO.op_eq, PyIO.op_lt,
      PyIO.intOf, PyIO.pyEq, PyIO.and_ok, PyIO.truthy, C07.Val.len]
    by_cases h : s.length = 0
    · simp [h]
    · have : ((s.length : Int) == 0) = false := by rw [beq_eq_false_iff_ne]; omega
      simp [h, this]
  | bytes s =>
    simp only [encVal, PyIO.load_bytes, PyIO.load_int, PyIO.call1_ok, PyIO.call2_ok, PyIO.op_len, PyIO.op_eq, PyIO.op_lt,
      PyIO.intOf, PyIO.pyEq, PyIO.and_ok, PyIO.truthy, C07.Val.len]
    by_cases h : s.length = 0
    · simp [h]
    · have : ((s.length : Int) == 0) = false := by rw [beq_eq_false_iff_ne]; omega
      simp [h, this]

/-- one read by the generated code, against one read by the model -/
theorem readE_sim (dec : Bool) (p : PyIO.Port) (hio : IoReads p.reads) :
    (∃ c p', IoClass c ∧ readE dec .port p = (.error c, p') ∧ C07.readline p = (Option.none, p') ∧ IoReads p'.reads) ∨
    (∃ b p', C07.readline p = (some b, p') ∧ IoReads p'.reads ∧
      (match dec with
       | false => readE dec .port p = (.ok (.bytes b), p')
       | true => (match C07.decode b with
          | some s => readE dec .port p = (.ok (.str s), p')
          | Option.none => readE dec .port p = (.error .unicodeDecodeError, p')))) := by
  obtain ⟨reads, writes, log, nread⟩ := p
  simp only at hio
  cases reads with
  | nil =>
    right
    refine ⟨[], ⟨[], writes, log, nread + 1⟩, rfl, hio, ?_⟩
    cases dec <;> rfl
  | cons r rs =>
    cases r with
    | empty =>
      right
      refine ⟨[], ⟨rs, writes, log, nread + 1⟩, rfl, hio.tail, ?_⟩
      cases dec <;> rfl
    | raise c =>
      left
      refine ⟨c, ⟨rs, writes, log, nread + 1⟩, hio.head, ?_, rfl, hio.tail⟩
      cases dec <;> rfl
    | line b =>
      right
      refine ⟨b, ⟨rs, writes, log, nread + 1⟩, rfl, hio.tail, ?_⟩
      cases dec with
      | false => rfl
      | true =>
        simp only [C07.decode]
        by_cases ha : PyIO.isAscii b = true
        · simp only [ha, ↓reduceIte]
          show PyIO.meth_decode (.bytes b) ascii _ = _
          simp only [PyIO.meth_decode, ascii, ha, ↓reduceIte, PyIO.ok]
        · simp only [ha, ↓reduceIte]
          show PyIO.meth_decode (.bytes b) ascii _ = _
          simp only [PyIO.meth_decode, ascii, ha, ↓reduceIte, PyIO.raise]
          rfl

/-- how the generated retry loop ends, against `C07.retryResp` -/
def LoopSim (env : σ) (fl : PyIO.Flow σ) : C07.Flow × C07.Val × PyIO.Port → Prop
  | (.done, v', p') => ∃ m : Int, fl = .norm (setN (setR env (encVal v')) (.int m)) p' ∧ v' ≠ .none ∧ IoReads p'.reads
  | (.io, v', p') => ∃ (m : Int) (c : PyIO.ExcClass), IoClass c ∧ fl = .exc c (setN (setR env (encVal v')) (.int m)) p' ∧
      v' ≠ .none ∧ IoReads p'.reads
  | (.py e, v', p') => ∃ m : Int, fl = .exc (encExc e) (setN (setR env (encVal v')) (.int m)) p' ∧ v' ≠ .none ∧
      IoReads p'.reads

theorem retryLoop_sim (L : Lens getR getN getP setR setN) (K : Nat) (dec : Bool) (fuel : Nat) :
    ∀ (k : Nat), k ≤ K → ∀ (n : Nat), k + 1 ≤ n → ∀ (env : σ) (v : C07.Val), v ≠ .none →
      getP env = .port → getR env = encVal v → getN env = .int ((K : Int) - k) →
      ∀ (p : PyIO.Port), IoReads p.reads →
      LoopSim setR setN env
        (PyIO.whileLoop (retryTest getR getN K) (retryBody getN getP setR setN dec) fuel n env p)
        (C07.retryResp dec k v p) := by
  intro k
  induction k with
  | zero =>
    intro _ n hn env v hv hP hR hN p hio
    obtain ⟨n', rfl⟩ : ∃ n', n = n' + 1 := ⟨n - 1, by omega⟩
    have ht := retryTest_eval getR getN K ((K : Int) - (0 : Nat)) env v hv hR hN
    have hfalse : (decide (v.len = 0) && decide ((K : Int) - (0 : Nat) < K)) = false := by simp
    rw [hfalse] at ht
    unfold PyIO.whileLoop
    simp only [ht, PyIO.ok, PyIO.truthy, Bool.false_eq_true, ↓reduceIte, C07.retryResp, LoopSim]
    refine ⟨(K : Int) - (0 : Nat), ?_, hv, hio⟩
    rw [← hR, ← hN, L.eta]
  | succ k ih =>
    intro hk n hn env v hv hP hR hN p hio
    obtain ⟨n', rfl⟩ : ∃ n', n = n' + 1 := ⟨n - 1, by omega⟩
    have ht := retryTest_eval getR getN K ((K : Int) - ((k + 1 : Nat) : Int)) env v hv hR hN
    have hlt : decide ((K : Int) - ((k + 1 : Nat) : Int) < K) = true := by
      simp only [decide_eq_true_eq]; omega
    rw [hlt, Bool.and_true] at ht
    unfold PyIO.whileLoop
    unfold C07.retryResp
    by_cases hlen : v.len = 0
    · -- the loop goes round: one read
      simp only [ht, hlen, decide_true, PyIO.ok, PyIO.truthy, ↓reduceIte, ne_eq, not_true_eq_false]
      have hbody : ∀ (x : PyIO.Val) (p' : PyIO.Port), readE dec (getP env) p = (.ok x, p') →
          retryBody getN getP setR setN dec fuel env p
            = .norm (setN (setR env x) (.int ((K : Int) - (k : Nat)))) p' := by
        intro x p' hx
        unfold retryBody
        rw [PyIO.block_cons2, PyIO.block_one]
        have h1 : PyIO.assign setR (fun env => readE dec (getP env)) fuel env p = .norm (setR env x) p' := by
          simp only [PyIO.assign, hx]
        rw [PyIO.seq_norm h1]
        have h2 : (fun env => PyIO.call2 PyIO.op_add (PyIO.load (getN env)) (PyIO.ok (.int 1))) (setR env x)
            = PyIO.ok (.int ((K : Int) - (k : Nat))) := by
          simp only [L.getN_setR, hN, PyIO.load_int, PyIO.call2_ok, PyIO.op_add, PyIO.intOf]
          congr 2
          omega
        exact PyIO.assign_ok (set := setN)
          (e := fun env => PyIO.call2 PyIO.op_add (PyIO.load (getN env)) (PyIO.ok (.int 1))) (env := setR env x) h2 fuel p'
      have hexc : ∀ (c : PyIO.ExcClass) (p' : PyIO.Port), readE dec (getP env) p = (.error c, p') →
          retryBody getN getP setR setN dec fuel env p = .exc c env p' := by
        intro c p' hx
        unfold retryBody
        rw [PyIO.block_cons2, PyIO.block_one]
        have h1 : PyIO.assign setR (fun env => readE dec (getP env)) fuel env p = .exc c env p' := by
          simp only [PyIO.assign, hx]
        rw [PyIO.seq_exc h1]
      rw [hP] at hbody hexc
      have henv : env = setN (setR env (encVal v)) (.int ((K : Int) - ((k + 1 : Nat) : Int))) := by
        rw [← hR, ← hN, L.eta]
      rcases readE_sim dec p hio with ⟨c, p', hc, e1, e2, hio'⟩ | ⟨b, p', e2, hio', e1⟩
      · rw [hexc c p' e1, e2]
        simp only [LoopSim]
        exact ⟨_, c, hc, by rw [← henv], hv, hio'⟩
      · rw [e2]
        cases dec with
        | false =>
          simp only at e1
          rw [hbody _ p' e1]
          simp only [Bool.false_eq_true, ↓reduceIte]
          have := ih (by omega) n' (by omega) (setN (setR env (.bytes b)) (.int ((K : Int) - (k : Nat)))) (.bytes b)
            (by intro h; cases h) (by rw [L.getP_setN, L.getP_setR, hP]) (by rw [L.getR_setN, L.getR_setR]; rfl)
            (by rw [L.getN_setN]) p' hio'
          generalize C07.retryResp false k (.bytes b) p' = r at this ⊢
          obtain ⟨f, v', p''⟩ := r
          cases f <;> simp only [LoopSim, L.setR_setN, L.setR_setR, L.setN_setN] at this ⊢ <;> exact this
        | true =>
          simp only [↓reduceIte]
          cases hd : C07.decode b with
          | none =>
            rw [hd] at e1
            simp only at e1
            rw [hexc _ p' e1]
            simp only [LoopSim, encExc]
            exact ⟨_, by rw [← henv], hv, hio'⟩
          | some s =>
            rw [hd] at e1
            simp only at e1
            rw [hbody _ p' e1]
            have := ih (by omega) n' (by omega) (setN (setR env (.str s)) (.int ((K : Int) - (k : Nat)))) (.str s)
              (by intro h; cases h) (by rw [L.getP_setN, L.getP_setR, hP]) (by rw [L.getR_setN, L.getR_setR]; rfl)
              (by rw [L.getN_setN]) p' hio'
            show LoopSim setR setN env _ (C07.retryResp true k (.str s) p')
            generalize C07.retryResp true k (.str s) p' = r at this ⊢
            obtain ⟨f, v', p''⟩ := r
            cases f <;> simp only [LoopSim, L.setR_setN, L.setR_setR, L.setN_setN] at this ⊢ <;> exact this
    · -- a non-empty value ends the loop
      have hne : ¬ (v.len = 0) := hlen
      simp only [ht, hlen, decide_false, PyIO.ok, PyIO.truthy, Bool.false_eq_true, ↓reduceIte, ne_eq, not_false_eq_true,
        LoopSim]
      refine ⟨(K : Int) - ((k + 1 : Nat) : Int), ?_, hv, hio⟩
      rw [← hR, ← hN, L.eta]

end Retry

/-! ## evaluation of straight-line generated code -/

theorem truthy_str (s : List Char) : PyIO.truthy (.str s) = !s.isEmpty := rfl
theorem truthy_bool (b : Bool) : PyIO.truthy (.bool b) = b := rfl

/-- unfold the statement / expression combinators on values (extra simp lemmas: the known fields of the record) -/
macro "pyio_eval" "[" ts:Lean.Parser.Tactic.simpLemma,* "]" : tactic => `(tactic|
  simp only [PyIO.ifte, PyIO.assign, PyIO.expr, PyIO.return_, PyIO.pass, PyIO.seq, PyIO.block, PyIO.load_str, PyIO.load_bytes,
    PyIO.load_int, PyIO.load_exc, PyIO.call1_ok, PyIO.call2_ok, PyIO.call2_ok_left, PyIO.bind_ok, PyIO.and_ok, PyIO.not_ok,
    PyIO.meth_strip, PyIO.meth_lower, PyIO.meth_format1, PyIO.meth_join, PyIO.meth_startswith, PyIO.mkList, PyIO.logCall,
    PyIO.strsOf, PyIO.op_not_in, PyIO.op_in, PyIO.op_is_not_none, PyIO.isNone, PyIO.ok, truthy_str, truthy_bool, ite_self,
    Option.map_some, Bool.not_eq_true', List.any_cons, List.any_nil, Bool.not_false, Bool.not_true, ↓reduceIte, $ts,*])

/-- one write by the generated code, against one write by the model -/
theorem write_sim (c : List Char) (p : PyIO.Port) (hio : IoWrites p.writes) :
    ∃ p1, p1.reads = p.reads ∧ IoWrites p1.writes ∧
      ((C07.write c p = (true, p1) ∧ PyIO.meth_write .port (.bytes c) p = (.ok (.int c.length), p1)) ∨
       (∃ cl, IoClass cl ∧ C07.write c p = (false, p1) ∧ PyIO.meth_write .port (.bytes c) p = (.error cl, p1))) := by
  obtain ⟨reads, writes, log, nread⟩ := p
  simp only at hio
  cases writes with
  | nil => exact ⟨⟨reads, [], log ++ [c], nread⟩, rfl, hio, Or.inl ⟨rfl, rfl⟩⟩
  | cons w ws =>
    cases w with
    | ok => exact ⟨⟨reads, ws, log ++ [c], nread⟩, rfl, hio.tail, Or.inl ⟨rfl, rfl⟩⟩
    | raise cl => exact ⟨⟨reads, ws, log ++ [c], nread⟩, rfl, hio.tail, Or.inr ⟨cl, hio.head, rfl, rfl⟩⟩

/-- the decoding retry loop only ever leaves a `str` in `response` -/
theorem retryResp_true_str (n : Nat) (s : List Char) (p : PyIO.Port) :
    ∃ s', (C07.retryResp true n (.str s) p).2.1 = .str s' := by
  induction n generalizing s p with
  | zero => exact ⟨s, rfl⟩
  | succ n ih =>
    unfold C07.retryResp
    split
    · exact ⟨s, rfl⟩
    · rcases C07.readline p with ⟨ol, p'⟩
      cases ol with
      | none => exact ⟨s, rfl⟩
      | some b =>
        simp only [↓reduceIte]
        cases C07.decode b with
        | none => exact ⟨s, rfl⟩
        | some s2 => exact ih s2 p'

/-! ## `command` -/

section Command
open Gen

theorem cmd_lens : Lens (σ := ebb_serial_command_Env) (·.response) (·.n_retry_count) (·.port_name)
    (fun env v => { env with response := v }) (fun env v => { env with n_retry_count := v }) :=
  ⟨fun _ _ => rfl, fun _ _ => rfl, fun _ _ => rfl, fun _ _ => rfl, fun _ _ => rfl, fun _ _ => rfl,
   fun _ _ _ => rfl, fun _ _ _ => rfl, fun _ _ _ => rfl, fun _ => rfl⟩

theorem cmd_test1_eq : ebb_serial_command_test1 = retryTest (σ := ebb_serial_command_Env) (·.response) (·.n_retry_count) 100 := rfl
theorem cmd_body1_eq : ebb_serial_command_body1 = retryBody (σ := ebb_serial_command_Env) (·.n_retry_count) (·.port_name)
    (fun env v => { env with response := v }) (fun env v => { env with n_retry_count := v }) true := rfl

theorem cmd_if3 (fuel : Nat) (env : ebb_serial_command_Env) (s c : List Char) (hr : env.response = .str s)
    (hc : env.cmd = .str c) (p : PyIO.Port) :
    ∃ em, ebb_serial_command_if3 fuel env p = .norm { env with error_msg := em } p ∧ em ≠ .unbound := by
  unfold ebb_serial_command_if3
  pyio_eval [hr, hc]
  split <;> exact ⟨_, rfl, by intro h; cases h⟩

theorem cmd_if4 (fuel : Nat) (env : ebb_serial_command_Env) (em : PyIO.Val) (he : env.error_msg = em) (hb : em ≠ .unbound)
    (p : PyIO.Port) : ebb_serial_command_if4 fuel env p = .norm env p := by
  unfold ebb_serial_command_if4
  pyio_eval [he, PyIO.load_of_bound hb]

theorem cmd_if2 (fuel : Nat) (env : ebb_serial_command_Env) (s c : List Char) (hr : env.response = .str s)
    (hc : env.cmd = .str c) (p : PyIO.Port) :
    ∃ em, ebb_serial_command_if2 fuel env p = .norm { env with error_msg := em } p := by
  unfold ebb_serial_command_if2
  pyio_eval [hr]
  by_cases h : PyIO.isPrefixOf ['O', 'K'] (PyIO.strip s) = true
  · simp only [h, ↓reduceIte]
    exact ⟨env.error_msg, by rw [← hr]⟩
  · simp only [h, Bool.false_eq_true, ↓reduceIte]
    obtain ⟨em, h3, hb⟩ := cmd_if3 fuel env s c hr hc p
    rw [h3]
    simp only []
    exact ⟨em, by rw [cmd_if4 fuel _ em rfl hb p, ← hr]⟩

theorem cmd_if5 (fuel : Nat) (env : ebb_serial_command_Env) (c : List Char) (cl : PyIO.ExcClass) (hc : env.cmd = .str c)
    (he : env.err = .exc cl) (p : PyIO.Port) : ebb_serial_command_if5 fuel env p = .norm env p := by
  unfold ebb_serial_command_if5 ebb_serial_command_if6
  pyio_eval [hc, he]

/-- the `except` clause: serial I/O exceptions are logged and swallowed, everything else propagates -/
theorem cmd_dispatch (fuel : Nat) (env : ebb_serial_command_Env) (c : List Char) (cl : PyIO.ExcClass)
    (hc : env.cmd = .str c) (p : PyIO.Port) :
    PyIO.dispatch ebb_serial_command_handlers1 cl fuel env p =
      if PyIO.catches handlerClasses cl = true then .norm { env with err := .unbound } p else .exc cl env p := by
  unfold ebb_serial_command_handlers1
  simp only [PyIO.dispatch, PyIO.Handler.matches, PyIO.runHandler]
  show (if PyIO.catches handlerClasses cl = true then _ else _) = _
  split
  · have h5 := cmd_if5 fuel { env with err := .exc cl } c cl hc rfl p
    rw [h5]
  · rfl

def cmdEnv0 (c : List Char) (vb : PyIO.Val) : ebb_serial_command_Env :=
  { port_name := .port, cmd := .str c, verbose := vb, response := .unbound, n_retry_count := .unbound,
    error_msg := .unbound, err := .unbound }

/-- the locals after the first read and `n_retry_count = 0` -/
def cmdEnv2 (c : List Char) (vb : PyIO.Val) (s : List Char) : ebb_serial_command_Env :=
  { port_name := .port, cmd := .str c, verbose := vb, response := .str s, n_retry_count := .int 0,
    error_msg := .unbound, err := .unbound }

/-- how the generated `try` body ends, against the model's `commandBody` -/
def CmdTrySim (c : List Char) (fl : PyIO.Flow ebb_serial_command_Env) : C07.Flow × PyIO.Port → Prop
  | (.done, p') => ∃ env', fl = .norm env' p' ∧ env'.cmd = .str c
  | (.io, p') => ∃ env' cl, IoClass cl ∧ fl = .exc cl env' p' ∧ env'.cmd = .str c
  | (.py e, p') => ∃ env', fl = .exc (encExc e) env' p' ∧ env'.cmd = .str c

theorem cmd_try1 (fuel : Nat) (hf : 101 ≤ fuel) (c : List Char) (vb : PyIO.Val) (p : PyIO.Port) (hio : IoScript p) :
    CmdTrySim c (ebb_serial_command_try1 fuel (cmdEnv0 c vb) p) (C07.commandBody C07.std c p) := by
  unfold ebb_serial_command_try1 C07.commandBody
  simp only [PyIO.block_cons2, PyIO.block_one]
  by_cases hc : PyIO.isAscii c = true
  · -- the request is written
    obtain ⟨p1, hr1, hw1, hwr⟩ := write_sim c p hio.2
    have hio1 : IoReads p1.reads := by rw [hr1]; exact hio.1
    have hexpr : ∀ r, PyIO.meth_write .port (.bytes c) p = r →
        PyIO.expr (fun env : ebb_serial_command_Env => PyIO.call2 PyIO.meth_write (PyIO.ok env.port_name)
          (PyIO.call2 PyIO.meth_encode (PyIO.ok env.cmd) (PyIO.ok (.str ['a', 's', 'c', 'i', 'i'])))) fuel (cmdEnv0 c vb) p
        = (match r with
           | (.ok _, st') => .norm (cmdEnv0 c vb) st'
           | (.error e, st') => .exc e (cmdEnv0 c vb) st') := by
      intro r hr
      subst hr
      simp only [PyIO.expr, cmdEnv0, PyIO.call2_ok, PyIO.meth_encode, hc, ↓reduceIte]
      rfl
    simp only [C07.encode, hc, ↓reduceIte]
    rcases hwr with ⟨e1, e2⟩ | ⟨cl, hcl, e1, e2⟩
    · rw [PyIO.seq_norm (by rw [hexpr _ e2]), e1]
      simp only
      -- the first read
      have hassign : ∀ r, readE true .port p1 = r →
          PyIO.assign (fun (env : ebb_serial_command_Env) v => { env with response := v })
            (fun env => PyIO.call2 PyIO.meth_decode (PyIO.call1 PyIO.meth_readline (PyIO.ok env.port_name))
              (PyIO.ok (.str ['a', 's', 'c', 'i', 'i']))) fuel (cmdEnv0 c vb) p1
          = (match r with
             | (.ok v, st') => .norm { cmdEnv0 c vb with response := v } st'
             | (.error e, st') => .exc e (cmdEnv0 c vb) st') := by
        intro r hr
        simp only [PyIO.assign]
        show (match readE true .port p1 with | (.ok v, st') => _ | (.error e, st') => _) = _
        rw [hr]
      rcases readE_sim true p1 hio1 with ⟨cl, p2, hcl, e3, e4, hio2⟩ | ⟨b, p2, e4, hio2, e3⟩
      · rw [PyIO.seq_exc (by rw [hassign _ e3]), e4]
        exact ⟨_, cl, hcl, rfl, rfl⟩
      · rw [e4]
        simp only at e3 ⊢
        cases hd : C07.decode b with
        | none =>
          rw [hd] at e3
          simp only at e3
          rw [PyIO.seq_exc (by rw [hassign _ e3])]
          exact ⟨_, rfl, rfl⟩
        | some s =>
          rw [hd] at e3
          simp only at e3
          rw [PyIO.seq_norm (by rw [hassign _ e3])]
          rw [PyIO.seq_norm (PyIO.assign_ok (set := fun (env : ebb_serial_command_Env) v => { env with n_retry_count := v })
            (e := fun _ => PyIO.ok (.int 0)) (v := .int 0) rfl fuel p2)]
          -- the retry loop
          have hloop : LoopSim (σ := ebb_serial_command_Env) (fun env v => { env with response := v })
              (fun env v => { env with n_retry_count := v }) (cmdEnv2 c vb s)
              (ebb_serial_command_loop1 fuel (cmdEnv2 c vb s) p2) (C07.retryResp true 100 (.str s) p2) :=
            retryLoop_sim _ _ _ _ _ cmd_lens 100 true fuel 100 (Nat.le_refl _) fuel (by omega)
              (cmdEnv2 c vb s) (.str s) (by intro h; cases h) rfl rfl rfl p2 hio2
          show CmdTrySim c (PyIO.seq ebb_serial_command_loop1 ebb_serial_command_if2 fuel (cmdEnv2 c vb s) p2)
            (match C07.retryResp true 100 (.str s) p2 with | (f, _, p3) => (f, p3))
          generalize hr' : C07.retryResp true 100 (.str s) p2 = r at hloop ⊢
          obtain ⟨f, v', p3⟩ := r
          cases f with
          | done =>
            obtain ⟨m, e5, hv', _⟩ := hloop
            rw [PyIO.seq_norm e5]
            cases v' with
            | none => exact absurd rfl hv'
            | bytes b' =>
              -- the decoding loop never leaves bytes in `response`
              exfalso
              obtain ⟨s', hs'⟩ := retryResp_true_str 100 s p2
              rw [hr'] at hs'
              cases hs'
            | str s' =>
              obtain ⟨em, e6⟩ := cmd_if2 fuel
                ({ ({ cmdEnv2 c vb s with response := .str s' } : ebb_serial_command_Env) with n_retry_count := .int m })
                s' c rfl rfl p3
              exact ⟨_, e6, rfl⟩
          | io =>
            obtain ⟨m, cl, hcl, e5, _, _⟩ := hloop
            rw [PyIO.seq_exc e5]
            exact ⟨_, cl, hcl, rfl, rfl⟩
          | py e =>
            obtain ⟨m, e5, _, _⟩ := hloop
            rw [PyIO.seq_exc e5]
            exact ⟨_, rfl, rfl⟩
    · rw [PyIO.seq_exc (by rw [hexpr _ e2]), e1]
      exact ⟨_, cl, hcl, rfl, rfl⟩
  · -- `encode` raises before anything is written
    have hc' : PyIO.isAscii c = false := by simpa using hc
    have : PyIO.expr (fun env : ebb_serial_command_Env => PyIO.call2 PyIO.meth_write (PyIO.ok env.port_name)
          (PyIO.call2 PyIO.meth_encode (PyIO.ok env.cmd) (PyIO.ok (.str ['a', 's', 'c', 'i', 'i'])))) fuel (cmdEnv0 c vb) p
        = .exc .unicodeEncodeError (cmdEnv0 c vb) p := by
      simp only [PyIO.expr, cmdEnv0, PyIO.call2_ok, PyIO.call2_ok_left, PyIO.meth_encode, hc', PyIO.bind_ok, PyIO.bind_raise,
        Bool.false_eq_true, ↓reduceIte]
      simp only [PyIO.raise]
    rw [PyIO.seq_exc this]
    simp only [C07.encode, hc', Bool.false_eq_true, ↓reduceIte]
    exact ⟨_, rfl, rfl⟩

/-- **bridge for `command`**: with a port and a text, on every script whose faults are serial I/O exceptions and
with fuel ≥ 101, the regenerated function is the hand model with the parameters `C07.std` -/
theorem command_bridge (fuel : Nat) (hf : 101 ≤ fuel) (c : List Char) (vb : PyIO.Val) (p : PyIO.Port)
    (hio : IoScript p) :
    ebb_serial_command fuel .port (.str c) vb p = encOut (C07.command C07.std c p) := by
  have h := cmd_try1 fuel hf c vb p hio
  unfold ebb_serial_command ebb_serial_command_main ebb_serial_command_if1 C07.command
  show PyIO.run _ fuel (cmdEnv0 c vb) p = _
  simp only [PyIO.run, cmdEnv0]
  pyio_eval []
  simp only [PyIO.tryExcept]
  change CmdTrySim c (ebb_serial_command_try1 fuel
    { port_name := .port, cmd := .str c, verbose := vb, response := .unbound, n_retry_count := .unbound,
      error_msg := .unbound, err := .unbound } p) _ at h
  generalize C07.commandBody C07.std c p = r at h ⊢
  obtain ⟨f, p'⟩ := r
  cases f with
  | done =>
    obtain ⟨env', e, _⟩ := h
    rw [e]
    rfl
  | io =>
    obtain ⟨env', cl, hcl, e, hcmd⟩ := h
    rw [e]
    simp only [cmd_dispatch fuel env' c cl hcmd p', show PyIO.catches handlerClasses cl = true from hcl, ↓reduceIte]
    rfl
  | py e0 =>
    obtain ⟨env', e, hcmd⟩ := h
    rw [e]
    simp only [cmd_dispatch fuel env' c _ hcmd p', not_io_encExc, Bool.false_eq_true, ↓reduceIte]
    rfl

/-- no port or no text: nothing happens, `None` is returned (any fuel, any script) -/
theorem command_noop (fuel : Nat) (pv cmd vb : PyIO.Val) (p : PyIO.Port)
    (h : pv = .none ∨ ((pv = .port ∨ pv = .none) ∧ cmd = .none)) :
    ebb_serial_command fuel pv cmd vb p = .val .none p := by
  unfold ebb_serial_command ebb_serial_command_main ebb_serial_command_if1
  rcases h with rfl | ⟨rfl | rfl, rfl⟩ <;>
  · simp only [PyIO.run]
    pyio_eval []
    simp only [Bool.false_eq_true, ↓reduceIte, PyIO.ok, truthy_bool]

end Command

/-! ## `query` -/

section Query
open Gen

theorem qry_lens1 : Lens (σ := ebb_serial_query_Env) (·.response) (·.n_retry_count) (·.port_name)
    (fun env v => { env with response := v }) (fun env v => { env with n_retry_count := v }) :=
  ⟨fun _ _ => rfl, fun _ _ => rfl, fun _ _ => rfl, fun _ _ => rfl, fun _ _ => rfl, fun _ _ => rfl,
   fun _ _ _ => rfl, fun _ _ _ => rfl, fun _ _ _ => rfl, fun _ => rfl⟩

theorem qry_lens2 : Lens (σ := ebb_serial_query_Env) (·.unused_response) (·.n_retry_count) (·.port_name)
    (fun env v => { env with unused_response := v }) (fun env v => { env with n_retry_count := v }) :=
  ⟨fun _ _ => rfl, fun _ _ => rfl, fun _ _ => rfl, fun _ _ => rfl, fun _ _ => rfl, fun _ _ => rfl,
   fun _ _ _ => rfl, fun _ _ _ => rfl, fun _ _ _ => rfl, fun _ => rfl⟩

/-- the non-decoding retry loop of the model (`retryUnused`) as an instance of `retryResp false` -/
theorem retryResp_false_unused (n : Nat) (u : List Char) (p : PyIO.Port) :
    ∃ u', C07.retryResp false n (.bytes u) p
      = ((if (C07.retryUnused n u p).1 = true then C07.Flow.done else C07.Flow.io), .bytes u', (C07.retryUnused n u p).2) := by
  induction n generalizing u p with
  | zero => exact ⟨u, rfl⟩
  | succ n ih =>
    unfold C07.retryResp C07.retryUnused
    by_cases h : u.length = 0
    · simp only [C07.Val.len, h, ne_eq, not_true_eq_false, ↓reduceIte, Bool.false_eq_true]
      rcases C07.readline p with ⟨ol, p'⟩
      cases ol with
      | none => exact ⟨u, rfl⟩
      | some b => exact ih b p'
    · simp only [C07.Val.len, h, ne_eq, not_false_eq_true, ↓reduceIte]
      exact ⟨u, rfl⟩

theorem splitChar_head (d : Char) (c : List Char) :
    ∃ t, PyIO.splitChar d c = (c.takeWhile (· ≠ d)) :: t := by
  induction c with
  | nil => exact ⟨[], rfl⟩
  | cons a r ih =>
    unfold PyIO.splitChar
    by_cases h : a = d
    · simp [h]
    · obtain ⟨t, ht⟩ := ih
      simp only [h, ↓reduceIte, ht, List.takeWhile_cons, ne_eq, not_false_eq_true, decide_true]
      exact ⟨t, rfl⟩

/-- `cmd.split(",")[0].strip().lower() not in [… the no-OK list …]` evaluates to the model's test -/
theorem qry_if2_test (c : List Char) :
    (PyIO.call2 PyIO.op_not_in (PyIO.call1 PyIO.meth_lower (PyIO.call1 PyIO.meth_strip (PyIO.call2 PyIO.op_index
        (PyIO.call1 (PyIO.meth_split_char ',') (PyIO.ok (.str c))) (PyIO.ok (.int 0)))))
      (PyIO.mkList [PyIO.ok (.str ['a']), PyIO.ok (.str ['i']), PyIO.ok (.str ['m', 'r']), PyIO.ok (.str ['p', 'i']),
        PyIO.ok (.str ['q', 'm']), PyIO.ok (.str ['q', 'g']), PyIO.ok (.str ['v'])]))
    = PyIO.ok (.bool (!(C07.std.noOK.contains (C07.reqName c)))) := by
  obtain ⟨t, ht⟩ := splitChar_head ',' c
  have hidx : PyIO.op_index (.list ((PyIO.splitChar ',' c).map PyIO.Val.str)) (.int 0) = PyIO.ok (.str (C07.firstField c)) := by
    rw [ht]
    rfl
  have hnot : ∀ (n : List Char) (l : List PyIO.Val),
      PyIO.op_not_in (.str n) (.list l) = PyIO.ok (.bool (!(l.any fun x => PyIO.pyEq (.str n) x))) := fun _ _ => rfl
  simp only [PyIO.call1_ok, PyIO.call2_ok, PyIO.meth_split_char, hidx, PyIO.meth_strip, PyIO.meth_lower, PyIO.mkList,
    PyIO.bind_ok, PyIO.call2_ok_left, hnot]
  simp only [C07.std, C07.reqName, List.contains_cons, List.contains_nil, List.any_cons, List.any_nil, PyIO.pyEq,
    Bool.or_false]

def qryEnv1 (c : List Char) (vb : PyIO.Val) : ebb_serial_query_Env :=
  { port_name := .port, cmd := .str c, verbose := vb, response := .str [], n_retry_count := .unbound,
    unused_response := .unbound, err := .unbound, error_msg := .unbound }

/-- what the rest of the function needs to know about the locals: the parameters are untouched, `response` holds
the model's value, which is a `str` -/
def QryEnvOk (c : List Char) (vb : PyIO.Val) (v : C07.Val) (env : ebb_serial_query_Env) : Prop :=
  env.port_name = .port ∧ env.cmd = .str c ∧ env.verbose = vb ∧ env.response = encVal v ∧ ∃ s, v = .str s

def QrySim (c : List Char) (vb : PyIO.Val) (fl : PyIO.Flow ebb_serial_query_Env) : C07.Flow × C07.Val × PyIO.Port → Prop
  | (.done, v, p') => ∃ env', fl = .norm env' p' ∧ QryEnvOk c vb v env'
  | (.io, v, p') => ∃ env' cl, IoClass cl ∧ fl = .exc cl env' p' ∧ QryEnvOk c vb v env'
  | (.py e, v, p') => ∃ env', fl = .exc (encExc e) env' p' ∧ QryEnvOk c vb v env'

/-- the skip of the trailing `OK` line (`if … not in [no-OK list]: …`) against `C07.queryTrail` -/
theorem qry_if2 (fuel : Nat) (hf : 101 ≤ fuel) (c : List Char) (vb : PyIO.Val) (v : C07.Val) (env : ebb_serial_query_Env)
    (henv : QryEnvOk c vb v env) (p : PyIO.Port) (hio : IoReads p.reads) :
    QrySim c vb (ebb_serial_query_if2 fuel env p) (C07.queryTrail C07.std c v p) := by
  obtain ⟨hP, hC, hV, hR, hs⟩ := henv
  unfold ebb_serial_query_if2 C07.queryTrail
  simp only [PyIO.ifte, hC, qry_if2_test, PyIO.ok, truthy_bool]
  cases hno : C07.std.noOK.contains (C07.reqName c)
  · -- an ordinary query: read the trailing line
    simp only [Bool.not_false, ↓reduceIte, Bool.false_eq_true, PyIO.block_cons2, PyIO.block_one]
    have hassign : ∀ r, readE false .port p = r →
        PyIO.assign (fun (env : ebb_serial_query_Env) v => { env with unused_response := v })
          (fun env => PyIO.call1 PyIO.meth_readline (PyIO.ok env.port_name)) fuel env p
        = (match r with
           | (.ok v, st') => .norm { env with unused_response := v } st'
           | (.error e, st') => .exc e env st') := by
      intro r hr
      simp only [PyIO.assign, hP]
      show (match readE false .port p with | (.ok v, st') => _ | (.error e, st') => _) = _
      rw [hr]
    rcases readE_sim false p hio with ⟨cl, p4, hcl, e3, e4, hio4⟩ | ⟨b, p4, e4, hio4, e3⟩
    · rw [PyIO.seq_exc (by rw [hassign _ e3]), e4]
      exact ⟨env, cl, hcl, rfl, hP, hC, hV, hR, hs⟩
    · simp only at e3
      rw [PyIO.seq_norm (by rw [hassign _ e3]), e4]
      rw [PyIO.seq_norm (PyIO.assign_ok (set := fun (env : ebb_serial_query_Env) v => { env with n_retry_count := v })
        (e := fun _ => PyIO.ok (.int 0)) (v := .int 0) rfl fuel p4)]
      have hloop : LoopSim (σ := ebb_serial_query_Env) (fun env v => { env with unused_response := v })
          (fun env v => { env with n_retry_count := v })
          ({ ({ env with unused_response := .bytes b } : ebb_serial_query_Env) with n_retry_count := .int 0 })
          (ebb_serial_query_loop2 fuel
            ({ ({ env with unused_response := .bytes b } : ebb_serial_query_Env) with n_retry_count := .int 0 }) p4)
          (C07.retryResp false 100 (.bytes b) p4) :=
        retryLoop_sim _ _ _ _ _ qry_lens2 100 false fuel 100 (Nat.le_refl _) fuel (by omega)
          ({ ({ env with unused_response := .bytes b } : ebb_serial_query_Env) with n_retry_count := .int 0 }) (.bytes b)
          (by intro h; cases h) hP rfl rfl p4 hio4
      obtain ⟨u', hu⟩ := retryResp_false_unused 100 b p4
      rw [hu] at hloop
      have hstd : C07.std.retry = 100 := rfl
      simp only [hstd]
      rcases hru : C07.retryUnused 100 b p4 with ⟨ok5, p5⟩
      rw [hru] at hloop
      cases ok5 with
      | true =>
        simp only [↓reduceIte] at hloop
        obtain ⟨m, e5, _, _⟩ := hloop
        rw [e5]
        exact ⟨_, rfl, hP, hC, hV, hR, hs⟩
      | false =>
        simp only [Bool.false_eq_true, ↓reduceIte] at hloop
        obtain ⟨m, cl, hcl, e5, _, _⟩ := hloop
        rw [e5]
        exact ⟨_, cl, hcl, rfl, hP, hC, hV, hR, hs⟩
  · -- a query of the no-OK list: nothing more to read
    simp only [Bool.not_true, Bool.false_eq_true, ↓reduceIte, PyIO.pass]
    exact ⟨env, rfl, hP, hC, hV, hR, hs⟩

def qryEnv2 (c : List Char) (vb : PyIO.Val) (s : List Char) : ebb_serial_query_Env :=
  { port_name := .port, cmd := .str c, verbose := vb, response := .str s, n_retry_count := .int 0,
    unused_response := .unbound, err := .unbound, error_msg := .unbound }

/-- the generated `try` body against the model's `queryBody` -/
theorem qry_try1 (fuel : Nat) (hf : 101 ≤ fuel) (c : List Char) (vb : PyIO.Val) (p : PyIO.Port) (hio : IoScript p) :
    QrySim c vb (ebb_serial_query_try1 fuel (qryEnv1 c vb) p) (C07.queryBody C07.std c p) := by
  have hok0 : QryEnvOk c vb (.str []) (qryEnv1 c vb) := ⟨rfl, rfl, rfl, rfl, [], rfl⟩
  unfold ebb_serial_query_try1 C07.queryBody
  simp only [PyIO.block_cons2, PyIO.block_one]
  by_cases hc : PyIO.isAscii c = true
  · obtain ⟨p1, hr1, hw1, hwr⟩ := write_sim c p hio.2
    have hio1 : IoReads p1.reads := by rw [hr1]; exact hio.1
    have hexpr : ∀ r, PyIO.meth_write .port (.bytes c) p = r →
        PyIO.expr (fun env : ebb_serial_query_Env => PyIO.call2 PyIO.meth_write (PyIO.ok env.port_name)
          (PyIO.call2 PyIO.meth_encode (PyIO.ok env.cmd) (PyIO.ok (.str ['a', 's', 'c', 'i', 'i'])))) fuel (qryEnv1 c vb) p
        = (match r with
           | (.ok _, st') => .norm (qryEnv1 c vb) st'
           | (.error e, st') => .exc e (qryEnv1 c vb) st') := by
      intro r hr
      subst hr
      simp only [PyIO.expr, qryEnv1, PyIO.call2_ok, PyIO.meth_encode, hc, ↓reduceIte]
      rfl
    simp only [C07.encode, hc, ↓reduceIte]
    rcases hwr with ⟨e1, e2⟩ | ⟨cl, hcl, e1, e2⟩
    · rw [PyIO.seq_norm (by rw [hexpr _ e2]), e1]
      simp only
      have hassign : ∀ r, readE true .port p1 = r →
          PyIO.assign (fun (env : ebb_serial_query_Env) v => { env with response := v })
            (fun env => PyIO.call2 PyIO.meth_decode (PyIO.call1 PyIO.meth_readline (PyIO.ok env.port_name))
              (PyIO.ok (.str ['a', 's', 'c', 'i', 'i']))) fuel (qryEnv1 c vb) p1
          = (match r with
             | (.ok v, st') => .norm { qryEnv1 c vb with response := v } st'
             | (.error e, st') => .exc e (qryEnv1 c vb) st') := by
        intro r hr
        simp only [PyIO.assign]
        show (match readE true .port p1 with | (.ok v, st') => _ | (.error e, st') => _) = _
        rw [hr]
      rcases readE_sim true p1 hio1 with ⟨cl, p2, hcl, e3, e4, hio2⟩ | ⟨b, p2, e4, hio2, e3⟩
      · rw [PyIO.seq_exc (by rw [hassign _ e3]), e4]
        exact ⟨_, cl, hcl, rfl, hok0⟩
      · rw [e4]
        simp only at e3 ⊢
        cases hd : C07.decode b with
        | none =>
          rw [hd] at e3
          simp only at e3
          rw [PyIO.seq_exc (by rw [hassign _ e3])]
          exact ⟨_, rfl, hok0⟩
        | some s =>
          rw [hd] at e3
          simp only at e3
          rw [PyIO.seq_norm (by rw [hassign _ e3])]
          rw [PyIO.seq_norm (PyIO.assign_ok (set := fun (env : ebb_serial_query_Env) v => { env with n_retry_count := v })
            (e := fun _ => PyIO.ok (.int 0)) (v := .int 0) rfl fuel p2)]
          have hloop : LoopSim (σ := ebb_serial_query_Env) (fun env v => { env with response := v })
              (fun env v => { env with n_retry_count := v }) (qryEnv2 c vb s)
              (ebb_serial_query_loop1 fuel (qryEnv2 c vb s) p2) (C07.retryResp true 100 (.str s) p2) :=
            retryLoop_sim _ _ _ _ _ qry_lens1 100 true fuel 100 (Nat.le_refl _) fuel (by omega)
              (qryEnv2 c vb s) (.str s) (by intro h; cases h) rfl rfl rfl p2 hio2
          show QrySim c vb (PyIO.seq ebb_serial_query_loop1 ebb_serial_query_if2 fuel (qryEnv2 c vb s) p2)
            (match C07.retryResp true 100 (.str s) p2 with
             | (.done, v, p3) => C07.queryTrail C07.std c v p3
             | (f, v, p3) => (f, v, p3))
          obtain ⟨s', hs'⟩ := retryResp_true_str 100 s p2
          generalize C07.retryResp true 100 (.str s) p2 = r at hloop hs' ⊢
          obtain ⟨f, v', p3⟩ := r
          simp only at hs'
          subst hs'
          cases f with
          | done =>
            obtain ⟨m, e5, _, hio3⟩ := hloop
            rw [PyIO.seq_norm e5]
            exact qry_if2 fuel hf c vb (.str s') _ ⟨rfl, rfl, rfl, rfl, s', rfl⟩ p3 hio3
          | io =>
            obtain ⟨m, cl, hcl, e5, _, _⟩ := hloop
            rw [PyIO.seq_exc e5]
            exact ⟨_, cl, hcl, rfl, rfl, rfl, rfl, rfl, s', rfl⟩
          | py e =>
            obtain ⟨m, e5, _, _⟩ := hloop
            rw [PyIO.seq_exc e5]
            exact ⟨_, rfl, rfl, rfl, rfl, rfl, s', rfl⟩
    · rw [PyIO.seq_exc (by rw [hexpr _ e2]), e1]
      exact ⟨_, cl, hcl, rfl, hok0⟩
  · have hc' : PyIO.isAscii c = false := by simpa using hc
    have : PyIO.expr (fun env : ebb_serial_query_Env => PyIO.call2 PyIO.meth_write (PyIO.ok env.port_name)
          (PyIO.call2 PyIO.meth_encode (PyIO.ok env.cmd) (PyIO.ok (.str ['a', 's', 'c', 'i', 'i'])))) fuel (qryEnv1 c vb) p
        = .exc .unicodeEncodeError (qryEnv1 c vb) p := by
      simp only [PyIO.expr, qryEnv1, PyIO.call2_ok, PyIO.call2_ok_left, PyIO.meth_encode, hc', PyIO.bind_ok, PyIO.bind_raise,
        Bool.false_eq_true, ↓reduceIte]
      simp only [PyIO.raise]
    rw [PyIO.seq_exc this]
    simp only [C07.encode, hc', Bool.false_eq_true, ↓reduceIte]
    exact ⟨_, rfl, hok0⟩

/-- the `except` clause of `query` -/
theorem qry_dispatch (fuel : Nat) (env : ebb_serial_query_Env) (cl : PyIO.ExcClass) (p : PyIO.Port) :
    PyIO.dispatch ebb_serial_query_handlers1 cl fuel env p =
      if PyIO.catches handlerClasses cl = true then .norm { env with err := .unbound } p else .exc cl env p := by
  unfold ebb_serial_query_handlers1
  simp only [PyIO.dispatch, PyIO.Handler.matches, PyIO.runHandler]
  show (if PyIO.catches handlerClasses cl = true then _ else _) = _
  split
  · unfold ebb_serial_query_if3
    pyio_eval []
  · rfl

/-- `if 'Err:' in response: …` only builds and logs a message -/
theorem qry_if4 (fuel : Nat) (env : ebb_serial_query_Env) (s c : List Char) (hr : env.response = .str s)
    (hc : env.cmd = .str c) (p : PyIO.Port) :
    ∃ em, ebb_serial_query_if4 fuel env p = .norm { env with error_msg := em } p := by
  unfold ebb_serial_query_if4 ebb_serial_query_if5
  pyio_eval [hr, hc]
  by_cases h : PyIO.isInfix ['E', 'r', 'r', ':'] s = true
  · simp only [h, ↓reduceIte]
    exact ⟨_, by rw [← hr, ← hc]⟩
  · simp only [h, Bool.false_eq_true, ↓reduceIte]
    exact ⟨env.error_msg, by rw [← hr, ← hc]⟩

/-- what follows the `try` statement of `query`: the `Err:` check and `return response` -/
theorem qry_after (fuel : Nat) (env : ebb_serial_query_Env) (s c : List Char) (hr : env.response = .str s)
    (hc : env.cmd = .str c) (p : PyIO.Port) :
    PyIO.seq ebb_serial_query_if4 (PyIO.return_ (fun env : ebb_serial_query_Env => PyIO.load env.response)) fuel env p
      = .ret (.str s) p := by
  obtain ⟨em, e4⟩ := qry_if4 fuel env s c hr hc p
  rw [PyIO.seq_norm e4]
  simp only [PyIO.return_, hr, PyIO.load_str, PyIO.ok]

/-- **bridge for `query`**: with a port and a text, on every script whose faults are serial I/O exceptions and with
fuel ≥ 101, the regenerated function is the hand model with the parameters `C07.std` -/
theorem query_bridge (fuel : Nat) (hf : 101 ≤ fuel) (c : List Char) (vb : PyIO.Val) (p : PyIO.Port)
    (hio : IoScript p) :
    ebb_serial_query fuel .port (.str c) vb p = encOut (C07.query C07.std c p) := by
  have h := qry_try1 fuel hf c vb p hio
  unfold ebb_serial_query ebb_serial_query_main ebb_serial_query_if1 C07.query
  simp only [PyIO.run, PyIO.block_cons2, PyIO.block_one]
  -- the guard holds; `response = ''`
  have hguard : ∀ (A B : PyIO.Stmt ebb_serial_query_Env) (env : ebb_serial_query_Env) (st : PyIO.Port),
      env.port_name = .port → env.cmd = .str c →
      PyIO.ifte (fun env : ebb_serial_query_Env => PyIO.and_ (PyIO.call1 PyIO.op_is_not_none (PyIO.ok env.port_name))
        (PyIO.call1 PyIO.op_is_not_none (PyIO.ok env.cmd))) A B fuel env st = A fuel env st := by
    intro A B env st h1 h2
    pyio_eval [h1, h2]
  rw [PyIO.seq]
  rw [hguard _ _ _ _ rfl rfl]
  rw [PyIO.seq_norm (PyIO.assign_ok (set := fun (env : ebb_serial_query_Env) v => { env with response := v })
    (e := fun _ => PyIO.ok (.str [])) (v := .str []) rfl fuel p)]
  dsimp only
  unfold qryEnv1 at h
  generalize C07.queryBody C07.std c p = r at h ⊢
  obtain ⟨f, v, p'⟩ := r
  cases f with
  | done =>
    obtain ⟨env', e, _, hC, _, hR, s', rfl⟩ := h
    have e' : PyIO.tryExcept ebb_serial_query_try1 ebb_serial_query_handlers1 fuel (qryEnv1 c vb) p = .norm env' p' := by
      unfold qryEnv1; simp only [PyIO.tryExcept]; rw [e]
    unfold qryEnv1 at e'
    rw [PyIO.seq_norm e', qry_after fuel env' s' c hR hC p']
    rfl
  | io =>
    obtain ⟨env', cl, hcl, e, _, hC, _, hR, s', rfl⟩ := h
    have e' : PyIO.tryExcept ebb_serial_query_try1 ebb_serial_query_handlers1 fuel (qryEnv1 c vb) p
        = .norm { env' with err := .unbound } p' := by
      unfold qryEnv1; simp only [PyIO.tryExcept]; rw [e]
      simp only [qry_dispatch, show PyIO.catches handlerClasses cl = true from hcl, ↓reduceIte]
    unfold qryEnv1 at e'
    rw [PyIO.seq_norm e', qry_after fuel { env' with err := .unbound } s' c hR hC p']
    rfl
  | py e0 =>
    obtain ⟨env', e, _⟩ := h
    have e' : PyIO.tryExcept ebb_serial_query_try1 ebb_serial_query_handlers1 fuel (qryEnv1 c vb) p
        = .exc (encExc e0) env' p' := by
      unfold qryEnv1; simp only [PyIO.tryExcept]; rw [e]
      simp only [qry_dispatch, not_io_encExc, Bool.false_eq_true, ↓reduceIte]
    unfold qryEnv1 at e'
    rw [PyIO.seq_exc e']
    rfl

/-- no port or no text: nothing happens, `None` is returned (any fuel, any script) -/
theorem query_noop (fuel : Nat) (pv cmd vb : PyIO.Val) (p : PyIO.Port)
    (h : pv = .none ∨ ((pv = .port ∨ pv = .none) ∧ cmd = .none)) :
    ebb_serial_query fuel pv cmd vb p = .val .none p := by
  unfold ebb_serial_query ebb_serial_query_main ebb_serial_query_if1
  rcases h with rfl | ⟨rfl | rfl, rfl⟩ <;>
  · simp only [PyIO.run]
    pyio_eval []
    simp only [Bool.false_eq_true, ↓reduceIte, PyIO.ok, truthy_bool]

end Query

end C07Gen
end Plotink
