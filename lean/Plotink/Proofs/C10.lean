import Plotink.Model.C10
import Plotink.Proofs.C09Loop

/-! Lemmas for C10: the index-based loop equals a structural recursion (`refine`); flatness and
split-tree refinement by induction on the fuel; geometry of splitting by `ring`. -/
namespace Plotink
namespace C10
open C09 (Pt distSq pointsInTol)

/-! ### geometry -/

theorem Cubic.ext_fields {x y : Cubic} (h0 : x.p0 = y.p0) (h1 : x.p1 = y.p1) (h2 : x.p2 = y.p2)
    (h3 : x.p3 = y.p3) : x = y := by
  cases x; cases y; simp_all

theorem splitAt_restriction (c : Cubic) (t s : Rat) :
    bez (splitAt c t).1 s = bez c (t * s) ∧ bez (splitAt c t).2 s = bez c (t + (1 - t) * s) := by
  constructor <;> (simp only [bez, splitAt, tpoint]; ext <;> (simp only []; ring))

theorem bez_restrict (c : Cubic) (a b s : Rat) : bez (restrict c a b) s = bez c (a + s * (b - a)) := by
  simp only [bez, restrict, blossom, lerp]; ext <;> (simp only []; ring)

theorem restrict_zero_one (c : Cubic) : restrict c 0 1 = c := by
  obtain ⟨⟨a, b⟩, ⟨c1, d⟩, ⟨e, f⟩, ⟨g, h⟩⟩ := c
  simp [restrict, blossom, lerp]

theorem blossom_diag (c : Cubic) (t : Rat) : blossom c t t t = bez c t := by
  simp only [bez, blossom, lerp]; ext <;> (simp only []; ring)

theorem splitAt_half_restrict (c : Cubic) (a b : Rat) :
    splitAt (restrict c a b) half = (restrict c a ((a + b) / 2), restrict c ((a + b) / 2) b) := by
  refine Prod.ext (Cubic.ext_fields ?_ ?_ ?_ ?_) (Cubic.ext_fields ?_ ?_ ?_ ?_) <;>
    (simp only [splitAt, restrict, blossom, lerp, tpoint, half]; try (ext <;> (simp only []; ring)))

/-! ### the loop as a structural recursion -/

/-- `refine flat fuel a rest`: process the piece between the current node `a` and the head of `rest` -/
def refine (flat : Rat) : Nat → Node → List Node → Option (List Node)
  | 0, _, _ => none
  | _ + 1, a, [] => some [a]
  | fuel + 1, a, b :: rest =>
    match isFlat (pieceOf a b) flat with
    | none => none
    | some true => (refine flat fuel b rest).map (a :: ·)
    | some false =>
      let one := (splitAt (pieceOf a b) half).1
      let two := (splitAt (pieceOf a b) half).2
      refine flat fuel { a with hout := one.p1 } (⟨one.p2, one.p3, two.p1⟩ :: { b with hin := two.p2 } :: rest)

theorem subdivide_eq_refine (flat : Rat) :
    ∀ (fuel : Nat) (pre : List Node) (a : Node) (rest : List Node),
      subdivide flat fuel (pre ++ a :: rest) (pre.length + 1) = (refine flat fuel a rest).map (pre ++ ·) := by
  intro fuel
  induction fuel with
  | zero => intro pre a rest; simp [subdivide, refine]
  | succ n ih =>
    intro pre a rest
    cases rest with
    | nil => simp [subdivide, refine]
    | cons b rest =>
      rw [subdivide, refine]
      have hlt : ¬ (pre.length + 1 ≥ (pre ++ a :: b :: rest).length) := by simp
      rw [if_neg hlt]
      have ha : (pre ++ a :: b :: rest)[pre.length + 1 - 1]? = some a := by simp
      have hb : (pre ++ a :: b :: rest)[pre.length + 1]? = some b := by
        rw [List.getElem?_append_right (by omega)]; simp
      rw [ha, hb]
      simp only
      cases hf : isFlat (pieceOf a b) flat with
      | none => simp
      | some ok =>
        cases ok with
        | true =>
          simp only
          have := ih (pre ++ [a]) b rest
          simp only [List.length_append, List.length_cons, List.length_nil, List.append_assoc,
            List.cons_append, List.nil_append] at this
          rw [this, Option.map_map]
          rfl
        | false =>
          simp only
          have hset : ((pre ++ a :: b :: rest).set (pre.length + 1 - 1)
              { a with hout := (splitAt (pieceOf a b) half).1.p1 }).set (pre.length + 1)
              { b with hin := (splitAt (pieceOf a b) half).2.p2 }
              = (pre ++ [{ a with hout := (splitAt (pieceOf a b) half).1.p1 }]) ++
                ({ b with hin := (splitAt (pieceOf a b) half).2.p2 } :: rest) := by
            simp
          rw [hset, List.take_left' (by simp), List.drop_left' (by simp)]
          have := ih pre { a with hout := (splitAt (pieceOf a b) half).1.p1 }
            (⟨(splitAt (pieceOf a b) half).1.p2, (splitAt (pieceOf a b) half).1.p3,
              (splitAt (pieceOf a b) half).2.p1⟩ :: { b with hin := (splitAt (pieceOf a b) half).2.p2 } :: rest)
          simp only [List.append_assoc, List.cons_append, List.nil_append]
          exact this

theorem subdivideCubicPath_eq (fuel : Nat) (sp : List Node) (flat : Rat) :
    subdivideCubicPath fuel sp flat =
      match sp with
      | [] => if fuel = 0 then none else some []
      | a :: rest => refine flat fuel a rest := by
  unfold subdivideCubicPath
  cases sp with
  | nil => cases fuel <;> simp [subdivide]
  | cons a rest =>
    have := subdivide_eq_refine flat fuel [] a rest
    simp only [List.nil_append, List.length_nil, Nat.zero_add] at this
    rw [this]; simp

/-! ### flatness -/

theorem isFlat_iff (c : Cubic) (flat : Rat) : isFlat c flat = some true ↔ FlatPiece c flat := by
  unfold isFlat FlatPiece
  have := C09.pointsInTol_shape c.p0 c.p3 [c.p1, c.p2] (by simp) flat
  simp only [List.cons_append, List.nil_append] at this
  rw [this, Option.some.injEq, C09.all_ptOk_iff]
  simp

theorem isFlat_ne_none (c : Cubic) (flat : Rat) : isFlat c flat ≠ none := by
  unfold isFlat
  have := C09.pointsInTol_shape c.p0 c.p3 [c.p1, c.p2] (by simp) flat
  simp only [List.cons_append, List.nil_append] at this
  rw [this]; simp

theorem pieces_cons_cons (a b : Node) (t : List Node) : pieces (a :: b :: t) = pieceOf a b :: pieces (b :: t) := rfl

/-- `pieces` of a list starting with `b` only looks at `b.p` and `b.hout` -/
theorem pieces_head_congr (b b' : Node) (t : List Node) (hp : b'.p = b.p) (hh : b'.hout = b.hout) :
    pieces (b' :: t) = pieces (b :: t) := by
  cases t with
  | nil => rfl
  | cons x t => simp [pieces, pieceOf, hp, hh]

theorem refine_head (flat : Rat) : ∀ (fuel : Nat) (a : Node) (rest r : List Node),
    refine flat fuel a rest = some r → ∃ h t, r = { a with hout := h } :: t := by
  intro fuel
  induction fuel with
  | zero => intro a rest r h; simp [refine] at h
  | succ n ih =>
    intro a rest r h
    cases rest with
    | nil => simp only [refine, Option.some.injEq] at h; exact ⟨a.hout, [], h.symm⟩
    | cons b rest =>
      rw [refine] at h
      split at h
      · exact absurd h (by simp)
      · simp only [Option.map_eq_some_iff] at h
        obtain ⟨r1, _, rfl⟩ := h
        exact ⟨a.hout, r1, rfl⟩
      · obtain ⟨h', t, rfl⟩ := ih _ _ _ h
        exact ⟨h', t, rfl⟩

theorem refine_flat (flat : Rat) : ∀ (fuel : Nat) (a : Node) (rest r : List Node),
    refine flat fuel a rest = some r → ∀ c ∈ pieces r, FlatPiece c flat := by
  intro fuel
  induction fuel with
  | zero => intro a rest r h; simp [refine] at h
  | succ n ih =>
    intro a rest r h
    cases rest with
    | nil =>
      simp only [refine, Option.some.injEq] at h; subst h
      intro c hc; simp [pieces] at hc
    | cons b rest =>
      rw [refine] at h
      split at h
      · exact absurd h (by simp)
      · rename_i hf
        simp only [Option.map_eq_some_iff] at h
        obtain ⟨r1, hr1, rfl⟩ := h
        obtain ⟨hh, t, rfl⟩ := refine_head flat _ _ _ _ hr1
        intro c hc
        rw [pieces_cons_cons] at hc
        rcases List.mem_cons.mp hc with rfl | hc
        · exact (isFlat_iff _ _).mp hf
        · exact ih _ _ _ hr1 c hc
      · exact ih _ _ _ h

/-! ### split trees -/

/-- leaves of a binary tree of splits at one half -/
inductive Leaves : Cubic → List Cubic → Prop
  | leaf (c : Cubic) : Leaves c [c]
  | node (c : Cubic) (l r : List Cubic) :
      Leaves (splitAt c half).1 l → Leaves (splitAt c half).2 r → Leaves c (l ++ r)

inductive RefinesTree : List Cubic → List Cubic → Prop
  | nil : RefinesTree [] []
  | cons {c : Cubic} {l : List Cubic} {cs ls : List Cubic} :
      Leaves c l → RefinesTree cs ls → RefinesTree (c :: cs) (l ++ ls)

theorem RefinesTree.cons_inv {c : Cubic} {cs out : List Cubic} (h : RefinesTree (c :: cs) out) :
    ∃ l ls, out = l ++ ls ∧ Leaves c l ∧ RefinesTree cs ls := by
  generalize hx : c :: cs = x at h
  cases h with
  | nil => exact absurd hx (by simp)
  | cons hl ht =>
    simp only [List.cons.injEq] at hx
    obtain ⟨rfl, rfl⟩ := hx
    exact ⟨_, _, rfl, hl, ht⟩

/-- what `refine` preserves about the ends: the last node keeps its point and outgoing handle -/
def lastOuter (l : List Node) : Option (Pt × Pt) := l.getLast?.map (fun n => (n.p, n.hout))

theorem lastOuter_head_congr (b b' : Node) (t : List Node) (hp : b'.p = b.p) (hh : b'.hout = b.hout) :
    lastOuter (b' :: t) = lastOuter (b :: t) := by
  cases t with
  | nil => simp [lastOuter, hp, hh]
  | cons x t => simp [lastOuter, List.getLast?_cons_cons]

theorem refine_tree (flat : Rat) : ∀ (fuel : Nat) (a : Node) (rest r : List Node),
    refine flat fuel a rest = some r →
      RefinesTree (pieces (a :: rest)) (pieces r) ∧ lastOuter r = lastOuter (a :: rest) := by
  intro fuel
  induction fuel with
  | zero => intro a rest r h; simp [refine] at h
  | succ n ih =>
    intro a rest r h
    cases rest with
    | nil =>
      simp only [refine, Option.some.injEq] at h; subst h
      exact ⟨by simpa [pieces] using RefinesTree.nil, rfl⟩
    | cons b rest =>
      rw [refine] at h
      split at h
      · exact absurd h (by simp)
      · simp only [Option.map_eq_some_iff] at h
        obtain ⟨r1, hr1, rfl⟩ := h
        obtain ⟨hh, t, rfl⟩ := refine_head flat _ _ _ _ hr1
        obtain ⟨ih1, ih2⟩ := ih _ _ _ hr1
        constructor
        · rw [pieces_cons_cons, pieces_cons_cons]
          have : pieceOf a { b with hout := hh } = pieceOf a b := rfl
          rw [this]
          exact RefinesTree.cons (Leaves.leaf _) ih1
        · simpa [lastOuter, List.getLast?_cons_cons] using ih2
      · obtain ⟨ih1, ih2⟩ := ih _ _ _ h
        constructor
        · rw [pieces_cons_cons, pieces_cons_cons] at ih1
          have h1 : pieceOf { a with hout := (splitAt (pieceOf a b) half).1.p1 }
              ⟨(splitAt (pieceOf a b) half).1.p2, (splitAt (pieceOf a b) half).1.p3, (splitAt (pieceOf a b) half).2.p1⟩
              = (splitAt (pieceOf a b) half).1 := rfl
          have h2 : pieceOf ⟨(splitAt (pieceOf a b) half).1.p2, (splitAt (pieceOf a b) half).1.p3, (splitAt (pieceOf a b) half).2.p1⟩
              { b with hin := (splitAt (pieceOf a b) half).2.p2 } = (splitAt (pieceOf a b) half).2 := rfl
          have h3 : pieces ({ b with hin := (splitAt (pieceOf a b) half).2.p2 } :: rest) = pieces (b :: rest) :=
            pieces_head_congr _ _ _ rfl rfl
          rw [h1, h2, h3] at ih1
          obtain ⟨l1, ls1, hout, hl1, htail⟩ := ih1.cons_inv
          obtain ⟨l2, ls2, rfl, hl2, htail2⟩ := htail.cons_inv
          rw [pieces_cons_cons, hout, ← List.append_assoc]
          exact RefinesTree.cons (Leaves.node _ _ _ hl1 hl2) htail2
        · rw [ih2]
          have e1 : ∀ (x y : Node) (t : List Node), lastOuter (x :: y :: t) = lastOuter (y :: t) := by
            intro x y t; simp [lastOuter, List.getLast?_cons_cons]
          rw [e1, e1, e1]
          exact lastOuter_head_congr _ _ _ rfl rfl

/-! ### split trees are dyadic restrictions -/

theorem Tiles.append : ∀ (l1 l2 : List (Rat × Rat)) (a m b : Rat),
    Tiles l1 a m → Tiles l2 m b → Tiles (l1 ++ l2) a b := by
  intro l1
  induction l1 with
  | nil => intro l2 a m b h; exact absurd h (by simp [Tiles])
  | cons iv t ih =>
    intro l2 a m b h1 h2
    cases t with
    | nil =>
      obtain ⟨ha, hm⟩ := h1
      cases l2 with
      | nil => exact absurd h2 (by simp [Tiles])
      | cons iv2 t2 =>
        show Tiles (iv :: iv2 :: t2) a b
        exact ⟨ha, by rw [hm]; exact h2⟩
    | cons iv' t' =>
      obtain ⟨ha, ht⟩ := h1
      show Tiles (iv :: ((iv' :: t') ++ l2)) a b
      have := ih l2 iv.2 m b ht h2
      exact ⟨ha, this⟩

theorem dyadic_mid (k j : Nat) :
    (((j : Rat) / 2 ^ k + ((j : Rat) + 1) / 2 ^ k) / 2 = ((2 * j : Nat) : Rat) / 2 ^ (k + 1) + 1 / 2 ^ (k + 1)) ∧
    ((j : Rat) / 2 ^ k = ((2 * j : Nat) : Rat) / 2 ^ (k + 1)) ∧
    (((j : Rat) + 1) / 2 ^ k = (((2 * j + 1 : Nat) : Rat) + 1) / 2 ^ (k + 1)) := by
  have h2 : (2 : Rat) ^ k ≠ 0 := pow_ne_zero _ (by norm_num)
  refine ⟨?_, ?_, ?_⟩ <;> (push_cast; rw [pow_succ]; field_simp; try ring)

theorem Leaves.dyadic (c0 : Cubic) : ∀ (c : Cubic) (l : List Cubic), Leaves c l →
    ∀ k j : Nat, j < 2 ^ k → c = restrict c0 ((j : Rat) / 2 ^ k) (((j : Rat) + 1) / 2 ^ k) →
      ∃ ivs : List (Rat × Rat), (∀ iv ∈ ivs, DyadicIv iv) ∧
        Tiles ivs ((j : Rat) / 2 ^ k) (((j : Rat) + 1) / 2 ^ k) ∧
        l = ivs.map (fun iv => restrict c0 iv.1 iv.2) := by
  intro c l h
  induction h with
  | leaf c =>
    intro k j hj hc
    refine ⟨[((j : Rat) / 2 ^ k, ((j : Rat) + 1) / 2 ^ k)], ?_, ⟨rfl, rfl⟩, by simp [hc]⟩
    intro iv hiv
    simp only [List.mem_singleton] at hiv
    subst hiv
    exact ⟨k, j, hj, rfl, rfl⟩
  | node c l r hl hr ihl ihr =>
    intro k j hj hc
    obtain ⟨hm, ha, hb⟩ := dyadic_mid k j
    have hsplit := splitAt_half_restrict c0 ((j : Rat) / 2 ^ k) (((j : Rat) + 1) / 2 ^ k)
    rw [← hc] at hsplit
    have hmid : ((j : Rat) / 2 ^ k + ((j : Rat) + 1) / 2 ^ k) / 2 = (((2 * j : Nat) : Rat) + 1) / 2 ^ (k + 1) := by
      rw [hm]; ring
    have hmid' : ((j : Rat) / 2 ^ k + ((j : Rat) + 1) / 2 ^ k) / 2 = ((2 * j + 1 : Nat) : Rat) / 2 ^ (k + 1) := by
      rw [hmid]; push_cast; ring
    have hj1 : 2 * j < 2 ^ (k + 1) := by rw [pow_succ]; omega
    have hj2 : 2 * j + 1 < 2 ^ (k + 1) := by rw [pow_succ]; omega
    obtain ⟨iv1, hd1, ht1, rfl⟩ := ihl (k + 1) (2 * j) hj1 (by rw [hsplit]; simp only; rw [hmid, ← ha])
    obtain ⟨iv2, hd2, ht2, rfl⟩ := ihr (k + 1) (2 * j + 1) hj2 (by rw [hsplit]; simp only; rw [hmid', ← hb])
    refine ⟨iv1 ++ iv2, ?_, ?_, by simp⟩
    · intro iv hiv
      rcases List.mem_append.mp hiv with h | h
      · exact hd1 iv h
      · exact hd2 iv h
    · rw [ha, hb]
      refine Tiles.append iv1 iv2 _ _ _ ht1 ?_
      rw [← hmid, hmid']; exact ht2

theorem Leaves.refinement {c : Cubic} {l : List Cubic} (h : Leaves c l) : DyadicRefinement c l := by
  obtain ⟨ivs, h1, h2, h3⟩ := Leaves.dyadic c c l h 0 0 (by simp) (by simp [restrict_zero_one])
  refine ⟨ivs, h1, ?_, h3⟩
  simpa using h2

theorem RefinesTree.path {cs out : List Cubic} (h : RefinesTree cs out) : RefinesPath cs out := by
  induction h with
  | nil => exact RefinesPath.nil
  | cons hl _ ih => exact RefinesPath.cons hl.refinement ih

/-! ### ends of a tiling, fuel independence -/

theorem Tiles.ends : ∀ (l : List (Rat × Rat)) (a b : Rat), Tiles l a b →
    l.head?.map Prod.fst = some a ∧ l.getLast?.map Prod.snd = some b := by
  intro l
  induction l with
  | nil => intro a b h; exact absurd h (by simp [Tiles])
  | cons iv t ih =>
    intro a b h
    cases t with
    | nil => obtain ⟨h1, h2⟩ := h; simp [h1, h2]
    | cons iv' t' =>
      obtain ⟨h1, h2⟩ := h
      obtain ⟨_, h4⟩ := ih iv.2 b h2
      exact ⟨by simp [h1], by rw [List.getLast?_cons_cons]; exact h4⟩

theorem restrict_p0 (c : Cubic) (a b : Rat) : (restrict c a b).p0 = bez c a := blossom_diag c a
theorem restrict_p3 (c : Cubic) (a b : Rat) : (restrict c a b).p3 = bez c b := blossom_diag c b

theorem bez_zero (c : Cubic) : bez c 0 = c.p0 := by
  simp only [bez]; ext <;> (simp only []; ring)
theorem bez_one (c : Cubic) : bez c 1 = c.p3 := by
  simp only [bez]; ext <;> (simp only []; ring)

theorem refine_mono (flat : Rat) : ∀ (fuel : Nat) (a : Node) (rest r : List Node),
    refine flat fuel a rest = some r → refine flat (fuel + 1) a rest = some r := by
  intro fuel
  induction fuel with
  | zero => intro a rest r h; simp [refine] at h
  | succ n ih =>
    intro a rest r h
    cases rest with
    | nil => simpa [refine] using h
    | cons b rest =>
      rw [refine] at h
      rw [refine]
      split at h
      · exact absurd h (by simp)
      · rename_i hf
        simp only [Option.map_eq_some_iff] at h
        obtain ⟨r1, hr1, rfl⟩ := h
        rw [ih _ _ _ hr1]; rfl
      · exact ih _ _ _ h

theorem refine_mono_le (flat : Rat) (f1 f2 : Nat) (hle : f1 ≤ f2) (a : Node) (rest r : List Node)
    (h : refine flat f1 a rest = some r) : refine flat f2 a rest = some r := by
  induction hle with
  | refl => exact h
  | step _ ih => exact refine_mono flat _ a rest r ih

end C10
end Plotink
