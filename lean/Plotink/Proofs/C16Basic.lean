import Plotink.Model.C16
/-! C16 helper lemmas, part 1: strings, decimal round trip, request parsing. Core tactics only. -/
namespace Plotink
namespace C16

/-! ### digits -/

theorem isDigit_of_mem_showNat {n : Nat} {c : Char} (h : c ∈ showNat n) : c.isDigit = true :=
  Nat.isDigit_of_mem_toDigits (by decide) (by decide) h

theorem not_space_of_isDigit {c : Char} (h : c.isDigit = true) : isPySpace c = false := by
  unfold Char.isDigit at h
  simp only [Bool.and_eq_true, decide_eq_true_eq, ge_iff_le] at h
  obtain ⟨h1, _⟩ := h
  rw [UInt32.le_iff_toNat_le] at h1
  have h1 : 48 ≤ c.toNat := h1
  simp only [isPySpace, Bool.or_eq_false_iff, Bool.and_eq_false_iff, decide_eq_false_iff_not]
  omega

theorem ne_comma_of_isDigit {c : Char} (h : c.isDigit = true) : c ≠ ',' := by
  intro hc; subst hc; revert h; decide

theorem ne_minus_of_isDigit {c : Char} (h : c.isDigit = true) : c ≠ '-' := by
  intro hc; subst hc; revert h; decide

theorem comma_not_mem_showNat (n : Nat) : ',' ∉ showNat n := by
  intro h; exact ne_comma_of_isDigit (isDigit_of_mem_showNat h) rfl

theorem showNat_ne_nil (n : Nat) : showNat n ≠ [] := Nat.toDigits_ne_nil

theorem parseNatAux_append (acc : Nat) (l : Str) (c : Char) :
    parseNatAux acc (l ++ [c]) =
      (parseNatAux acc l).bind (fun a => if c.isDigit then some (a * 10 + (c.toNat - 48)) else none) := by
  induction l generalizing acc with
  | nil => simp [parseNatAux]
  | cons d l ih =>
    simp only [List.cons_append, parseNatAux]
    split
    · exact ih _
    · rfl

theorem parseNatAux_showNat (n : Nat) : parseNatAux 0 (showNat n) = some n := by
  induction n using Nat.strongRecOn with
  | _ n ih =>
    unfold showNat
    rw [Nat.toDigits_eq_if (by decide)]
    split
    · rename_i h
      simp [parseNatAux, Nat.isDigit_digitChar, h, Nat.toNat_digitChar_sub_48_of_lt_ten h]
    · rename_i h
      have hlt : n / 10 < n := by omega
      have := ih (n / 10) hlt
      unfold showNat at this
      rw [parseNatAux_append, this]
      have hm : n % 10 < 10 := Nat.mod_lt _ (by decide)
      simp [Nat.isDigit_digitChar, hm, Nat.toNat_digitChar_sub_48_of_lt_ten hm]
      omega

theorem parseNat?_showNat (n : Nat) : parseNat? (showNat n) = some n := by
  unfold parseNat?
  have := showNat_ne_nil n
  cases h : showNat n with
  | nil => exact absurd h this
  | cons c cs => rw [← h, ← parseNatAux_showNat n]; simp [h]

theorem parseInt?_showNat (n : Nat) : parseInt? (showNat n) = some (n : Int) := by
  have hne := showNat_ne_nil n
  cases h : showNat n with
  | nil => exact absurd h hne
  | cons c cs =>
    have hc : c ≠ '-' := ne_minus_of_isDigit (isDigit_of_mem_showNat (n := n) (by rw [h]; exact List.mem_cons_self))
    simp only [parseInt?, hc, if_false]
    rw [← h, parseNat?_showNat]; rfl

theorem showInt_ofNat (n : Nat) : showInt (n : Int) = showNat n := by
  unfold showInt
  have : ¬ ((n : Int) < 0) := by omega
  rw [if_neg this]; simp

theorem showInt_nonneg {z : Int} (h : 0 ≤ z) : showInt z = showNat z.toNat := by
  have : ¬ z < 0 := by omega
  unfold showInt
  rw [if_neg this]

/-! ### split -/

theorem splitOn_ne_nil (sep : Char) (s : Str) : splitOn sep s ≠ [] := by
  induction s with
  | nil => simp [splitOn]
  | cons c cs ih =>
    simp only [splitOn]
    split
    · simp
    · split <;> simp

theorem splitOn_noSep {sep : Char} {a : Str} (h : sep ∉ a) : splitOn sep a = [a] := by
  induction a with
  | nil => rfl
  | cons c cs ih =>
    have hc : c ≠ sep := fun e => h (by simp [e])
    have hcs : sep ∉ cs := fun e => h (List.mem_cons_of_mem _ e)
    simp [splitOn, hc, ih hcs]

theorem splitOn_append_sep {sep : Char} {a : Str} (rest : Str) (h : sep ∉ a) :
    splitOn sep (a ++ sep :: rest) = a :: splitOn sep rest := by
  induction a with
  | nil => simp [splitOn]
  | cons c cs ih =>
    have hc : c ≠ sep := fun e => h (by simp [e])
    have hcs : sep ∉ cs := fun e => h (List.mem_cons_of_mem _ e)
    simp [splitOn, hc, ih hcs]

/-! ### strip -/

/-- no leading and no trailing Python whitespace -/
def NoEdge (s : Str) : Prop :=
  (∀ c, s.head? = some c → isPySpace c = false) ∧ (∀ c, s.getLast? = some c → isPySpace c = false)

theorem lstrip_of_head {s : Str} (h : ∀ c, s.head? = some c → isPySpace c = false) : lstrip s = s := by
  cases s with
  | nil => rfl
  | cons c cs => simp [lstrip, h c rfl]

theorem strip_of_noEdge {s : Str} (h : NoEdge s) : strip s = s := by
  unfold strip rstrip
  rw [lstrip_of_head h.1, lstrip_of_head (s := s.reverse)]
  · simp
  · intro c hc; apply h.2; simpa using hc

/-- a reply line `body ++ "\n"` is seen by the reader as `body` -/
theorem strip_line {s : Str} (h : NoEdge s) (hne : s ≠ []) : strip (s ++ ['\n']) = s := by
  unfold strip rstrip
  rw [lstrip_of_head (s := s ++ ['\n'])]
  · have : (s ++ ['\n']).reverse = '\n' :: s.reverse := by simp
    rw [this]
    have hs : isPySpace '\n' = true := by decide
    simp only [lstrip, hs, if_true]
    rw [lstrip_of_head (s := s.reverse)]
    · simp
    · intro c hc; apply h.2; simpa using hc
  · intro c hc
    cases s with
    | nil => exact absurd rfl hne
    | cons d ds => apply h.1; simpa using hc

theorem lstrip_head (s : Str) : ∀ c, (lstrip s).head? = some c → isPySpace c = false := by
  induction s with
  | nil => intro c h; simp [lstrip] at h
  | cons d ds ih =>
    intro c h
    simp only [lstrip] at h
    split at h
    · exact ih c h
    · rename_i hd
      simp at h; subst h; simpa using hd

theorem lstrip_suffix (s : Str) : ∃ a, s = a ++ lstrip s := by
  induction s with
  | nil => exact ⟨[], rfl⟩
  | cons d ds ih =>
    simp only [lstrip]
    split
    · obtain ⟨a, ha⟩ := ih
      exact ⟨d :: a, by rw [List.cons_append, ← ha]⟩
    · exact ⟨[], rfl⟩

theorem getLast?_of_append_ne_nil {a b : Str} (h : b ≠ []) : (a ++ b).getLast? = b.getLast? := by
  simp [List.getLast?_append]
  cases hb : b.getLast? with
  | none => simp [List.getLast?_eq_none_iff] at hb; exact absurd hb h
  | some x => simp

theorem noEdge_strip (s : Str) : NoEdge (strip s) := by
  unfold strip rstrip
  constructor
  · -- the head of rstrip t, t = lstrip s, is the head of t when non-empty
    intro c hc
    obtain ⟨a, ha⟩ := lstrip_suffix (lstrip s).reverse
    -- (lstrip s).reverse = a ++ r, r = lstrip (...). So lstrip s = r.reverse ++ a.reverse
    have h2 : lstrip s = (lstrip (lstrip s).reverse).reverse ++ a.reverse := by
      have := congrArg List.reverse ha
      simpa using this
    cases hr : (lstrip (lstrip s).reverse).reverse with
    | nil => rw [hr] at hc; simp at hc
    | cons d ds =>
      rw [hr] at hc h2
      simp at hc; subst hc
      apply lstrip_head s
      rw [h2]; rfl
  · intro c hc
    apply lstrip_head (lstrip s).reverse
    simpa [List.getLast?_reverse] using hc

theorem strip_strip (s : Str) : strip (strip s) = strip s := strip_of_noEdge (noEdge_strip s)

theorem noEdge_cons_append {c : Char} {n : Str} (hc : isPySpace c = false) (mid : Str) (d : Char)
    (hd : isPySpace d = false) (hn : NoEdge n) : NoEdge (c :: (mid ++ d :: n)) := by
  constructor
  · intro x hx; simp at hx; subst hx; exact hc
  · intro x hx
    cases n with
    | nil =>
      have : (c :: (mid ++ [d])).getLast? = some d := by
        rw [← List.cons_append]
        exact List.getLast?_concat ..
      rw [this] at hx; simp at hx; subst hx; exact hd
    | cons e es =>
      apply hn.2
      have : c :: (mid ++ d :: e :: es) = (c :: mid ++ [d]) ++ (e :: es) := by simp
      rw [this, getLast?_of_append_ne_nil (by simp)] at hx
      exact hx

theorem noEdge_showNat (n : Nat) : NoEdge (showNat n) := by
  constructor
  · intro c hc
    apply not_space_of_isDigit
    apply isDigit_of_mem_showNat (n := n)
    exact List.mem_of_mem_head? hc
  · intro c hc
    apply not_space_of_isDigit
    apply isDigit_of_mem_showNat (n := n)
    exact List.mem_of_getLast? hc

/-! ### `'Err:' in s` -/

theorem mem_of_startsWith {s p : Str} (h : startsWith s p = true) : ∀ c ∈ p, c ∈ s := by
  induction p generalizing s with
  | nil => intro c hc; simp at hc
  | cons q qs ih =>
    cases s with
    | nil => simp [startsWith] at h
    | cons d ds =>
      simp only [startsWith, Bool.and_eq_true, beq_iff_eq] at h
      intro c hc
      rcases List.mem_cons.mp hc with rfl | hc
      · simp [h.1]
      · exact List.mem_cons_of_mem _ (ih h.2 c hc)

theorem mem_of_isInfix {p s : Str} (h : isInfix p s = true) : ∀ c ∈ p, c ∈ s := by
  induction s with
  | nil =>
    simp only [isInfix, List.isEmpty_iff] at h
    subst h; intro c hc; simp at hc
  | cons d ds ih =>
    simp only [isInfix, Bool.or_eq_true] at h
    intro c hc
    rcases h with h | h
    · exact mem_of_startsWith h c hc
    · exact List.mem_cons_of_mem _ (ih h c hc)

theorem no_err_of_no_colon {s : Str} (h : ':' ∉ s) : isInfix sErr s = false := by
  cases hi : isInfix sErr s with
  | false => rfl
  | true => exact absurd (mem_of_isInfix hi ':' (by simp [sErr])) h

theorem startsWith_self_append (p r : Str) : startsWith (p ++ r) p = true := by
  induction p with
  | nil => cases r <;> rfl
  | cons c cs ih => simp [startsWith, ih]

end C16
end Plotink
