import Plotink.Proofs.PyLemmas
import Mathlib.Tactic.Ring
import Mathlib.Tactic.NormNum
import Mathlib.Tactic.Push

/-! # Encodings of rationals as Python numbers that exact arithmetic preserves

Used by the bridges "regenerated code under `Rounding.exact` = hand model over `Rat`" (C08, C09).
`Enc K`: every `K`-number is an `int` or a `float` with that value, and `K` is closed under exact `+ - * /`.
Instances: `IsFlt` (every number a `float` holding exactly that rational) and `IsNum` (`int` or `float`, any
mixture; under `Rounding.exact` the quotient of two ints is the exact rational, as a `float`). -/

namespace Plotink
namespace Py
open Val

/-- a way of encoding rationals as Python numbers that exact arithmetic preserves -/
structure Enc (K : Val → Rat → Prop) : Prop where
  isNum : ∀ {v q}, K v q → (v = .flt q ∨ ∃ z : Int, v = .int z ∧ (z : Rat) = q)
  sub : ∀ {a b qa qb} (p : Nat), K a qa → K b qb → K (Py.sub Rounding.exact p a b) (qa - qb)
  add : ∀ {a b qa qb} (p : Nat), K a qa → K b qb → K (Py.add Rounding.exact p a b) (qa + qb)
  mul : ∀ {a b qa qb} (p : Nat), K a qa → K b qb → K (Py.mul Rounding.exact p a b) (qa * qb)
  div : ∀ {a b qa qb} (p : Nat), K a qa → K b qb → qb ≠ 0 → K (Py.truediv Rounding.exact p a b) (qa / qb)

/-- every number is a `float` holding exactly that rational -/
def IsFlt (v : Val) (q : Rat) : Prop := v = .flt q
/-- `int` or `float` (any mixture) -/
def IsNum (v : Val) (q : Rat) : Prop := v = .flt q ∨ ∃ z : Int, v = .int z ∧ (z : Rat) = q

theorem enc_isFlt : Enc IsFlt where
  isNum := fun h => Or.inl h
  sub := by intro a b qa qb p ha hb; subst ha; subst hb; rfl
  add := by intro a b qa qb p ha hb; subst ha; subst hb; rfl
  mul := by intro a b qa qb p ha hb; subst ha; subst hb; rfl
  div := by
    intro a b qa qb p ha hb h0; subst ha; subst hb
    simp [Py.truediv, Py.num, h0, Py.join, Py.kind, Py.pack, Rounding.exact, IsFlt]

theorem enc_isNum : Enc IsNum where
  isNum := fun h => h
  sub := by
    rintro a b qa qb p (ha | ⟨za, ha, hza⟩) (hb | ⟨zb, hb, hzb⟩) <;> subst ha <;> subst hb
    · exact Or.inl rfl
    · exact Or.inl (by subst hzb; rfl)
    · exact Or.inl (by subst hza; rfl)
    · exact Or.inr ⟨za - zb, rfl, by subst hza; subst hzb; push_cast; ring⟩
  add := by
    rintro a b qa qb p (ha | ⟨za, ha, hza⟩) (hb | ⟨zb, hb, hzb⟩) <;> subst ha <;> subst hb
    · exact Or.inl rfl
    · exact Or.inl (by subst hzb; rfl)
    · exact Or.inl (by subst hza; rfl)
    · exact Or.inr ⟨za + zb, rfl, by subst hza; subst hzb; push_cast; ring⟩
  mul := by
    rintro a b qa qb p (ha | ⟨za, ha, hza⟩) (hb | ⟨zb, hb, hzb⟩) <;> subst ha <;> subst hb
    · exact Or.inl rfl
    · exact Or.inl (by subst hzb; rfl)
    · exact Or.inl (by subst hza; rfl)
    · exact Or.inr ⟨za * zb, rfl, by subst hza; subst hzb; push_cast; ring⟩
  div := by
    rintro a b qa qb p (ha | ⟨za, ha, hza⟩) (hb | ⟨zb, hb, hzb⟩) h0 <;> subst ha <;> subst hb <;>
      (try subst hza) <;> (try subst hzb) <;>
      simp [Py.truediv, Py.num, h0, Py.join, Py.kind, Py.pack, Rounding.exact, IsNum]



namespace Enc
variable {K : Val → Rat → Prop} (hK : Enc K)
include hK

theorem num_eq {v : Val} {q : Rat} (h : K v q) : num v = q := by
  rcases hK.isNum h with rfl | ⟨z, rfl, hz⟩
  · rfl
  · exact hz

/-- comparisons of an encoded number with others are comparisons of the rationals -/
theorem le_eq {v w : Val} {q q' : Rat} (h : K v q) (h' : K w q') : Py.le v w = decide (q ≤ q') := by
  simp [Py.le, hK.num_eq h, hK.num_eq h']
theorem ge_eq {v w : Val} {q q' : Rat} (h : K v q) (h' : K w q') : Py.ge v w = decide (q ≥ q') := by
  simp [Py.ge, hK.num_eq h, hK.num_eq h']
theorem le_int {v : Val} {q : Rat} (h : K v q) (z : Int) : Py.le v (.int z) = decide (q ≤ (z : Rat)) := by
  have : num (Val.int z) = (z : Rat) := rfl
  simp [Py.le, hK.num_eq h, this]
theorem eq_int {v : Val} {q : Rat} (h : K v q) (z : Int) : Py.eq v (.int z) = decide (q = (z : Rat)) := by
  rcases hK.isNum h with rfl | ⟨z', rfl, hz⟩
  · rfl
  · simp [Py.eq, Py.num, hz]

end Enc

theorem IsFlt.isNum {v : Val} {q : Rat} (h : IsFlt v q) : IsNum v q := Or.inl h

end Py
end Plotink
