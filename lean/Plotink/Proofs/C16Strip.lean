import Plotink.Proofs.C16Basic
/-! C16 helper lemmas: `strip` as the unique trimmed core (needed for stored names with edge whitespace). -/
namespace Plotink.C16

def AllSp (s : Str) : Prop := ∀ c ∈ s, isPySpace c = true

theorem lstrip_allSp {a : Str} (h : AllSp a) (t : Str) : lstrip (a ++ t) = lstrip t := by
  induction a with
  | nil => rfl
  | cons c cs ih =>
    have hc : isPySpace c = true := h c List.mem_cons_self
    simp only [List.cons_append, lstrip, hc, if_true]
    exact ih (fun d hd => h d (List.mem_cons_of_mem _ hd))

theorem lstrip_decomp (s : Str) : ∃ a, AllSp a ∧ s = a ++ lstrip s := by
  induction s with
  | nil => exact ⟨[], fun _ h => by simp at h, rfl⟩
  | cons d ds ih =>
    simp only [lstrip]
    split
    · rename_i hd
      obtain ⟨a, ha, e⟩ := ih
      refine ⟨d :: a, ?_, by rw [List.cons_append, ← e]⟩
      intro c hc
      rcases List.mem_cons.mp hc with rfl | hc
      · exact hd
      · exact ha c hc
    · exact ⟨[], fun _ h => by simp at h, rfl⟩

theorem allSp_reverse {a : Str} (h : AllSp a) : AllSp a.reverse := fun c hc => h c (by simpa using hc)

theorem rstrip_decomp (s : Str) : ∃ z, AllSp z ∧ s = rstrip s ++ z := by
  obtain ⟨a, ha, e⟩ := lstrip_decomp s.reverse
  refine ⟨a.reverse, allSp_reverse ha, ?_⟩
  have := congrArg List.reverse e
  simpa [rstrip] using this

/-- uniqueness of the trimmed core -/
theorem strip_unique {a m z : Str} (ha : AllSp a) (hz : AllSp z) (hm : NoEdge m) : strip (a ++ m ++ z) = m := by
  unfold strip
  rw [List.append_assoc, lstrip_allSp ha]
  cases m with
  | nil =>
    have : lstrip ([] ++ z) = [] := by
      have := lstrip_allSp hz []
      simpa [lstrip] using this
    rw [this]; rfl
  | cons c cs =>
    have hc : isPySpace c = false := hm.1 c rfl
    have : lstrip (c :: cs ++ z) = c :: cs ++ z := by simp [lstrip, hc]
    rw [this]
    unfold rstrip
    have : (c :: cs ++ z).reverse = z.reverse ++ (c :: cs).reverse := by simp
    rw [this, lstrip_allSp (allSp_reverse hz), lstrip_of_head]
    · simp
    · intro d hd; apply hm.2; rw [List.head?_reverse] at hd; exact hd

theorem strip_decomp (s : Str) : ∃ a z, AllSp a ∧ AllSp z ∧ s = a ++ strip s ++ z := by
  obtain ⟨a, ha, e1⟩ := lstrip_decomp s
  obtain ⟨z, hz, e2⟩ := rstrip_decomp (lstrip s)
  refine ⟨a, z, ha, hz, ?_⟩
  unfold strip
  rw [List.append_assoc, ← e2, ← e1]

/-- `rstrip` keeps what is in front of the trimmed core -/
theorem rstrip_of_decomp {a m z : Str} (hz : AllSp z) (hm : NoEdge m) (hne : m ≠ []) :
    rstrip (a ++ m ++ z) = a ++ m := by
  unfold rstrip
  have : (a ++ m ++ z).reverse = z.reverse ++ (m.reverse ++ a.reverse) := by simp
  rw [this, lstrip_allSp (allSp_reverse hz), lstrip_of_head]
  · simp
  · intro d hd
    apply hm.2
    cases hr : m.reverse with
    | nil => simp at hr; exact absurd hr hne
    | cons x xs =>
      rw [hr] at hd; simp at hd; subst hd
      have : m = (x :: xs).reverse := by rw [← hr]; simp
      rw [this]; simp

theorem rstrip_allSp {s : Str} (h : AllSp s) : rstrip s = [] := by
  unfold rstrip
  have := lstrip_allSp (allSp_reverse h) []
  simp only [List.append_nil] at this
  rw [this]; rfl

theorem allSp_append {a b : Str} (ha : AllSp a) (hb : AllSp b) : AllSp (a ++ b) := by
  intro c hc
  rcases List.mem_append.mp hc with h | h
  · exact ha c h
  · exact hb c h

theorem strip_rstrip (s : Str) : strip (rstrip s) = strip s := by
  obtain ⟨a, z, ha, hz, e⟩ := strip_decomp s
  by_cases hne : strip s = []
  · rw [hne] at e
    have hall : AllSp s := by rw [e]; simpa using allSp_append ha hz
    rw [rstrip_allSp hall, hne]; rfl
  · have h1 : rstrip s = a ++ strip s := by
      rw (occs := [1]) [e]
      exact rstrip_of_decomp hz (noEdge_strip s) hne
    rw [h1]
    have := strip_unique ha (z := []) (fun _ h => by simp at h) (noEdge_strip s)
    simpa using this

end Plotink.C16
