import Plotink.Gen.supersample
import Plotink.Proofs.C09Gen

/-! # C09 — bridge: the source-regenerated `supersample` = the hand model `C09.supersample`

`Gen.supersample_body2/_loop2` (the inner `while points_in_tolerance(...) and end_index < len(vertices)`),
`Gen.supersample_body1/_loop1` (the outer `while start_index < len(vertices) - 2` with the slice deletion) and
`Gen.supersample` are regenerated from `plotink/plot_utils.py` on every run.  For `Rounding.exact`:

* `loop2_eq` — the generated inner loop = `C09.extend` (same fuel), one pass against one model step, induction on fuel;
* `loop1_eq` — the generated outer loop = `C09.outer`, one pass against one model step, induction on fuel;
* `supersample_bridge` — `Gen.supersample … fuel (list of encoded vertices) tol = (None, encoded C09.supersample)`
  for every fuel `≥ len(vertices)`.

Fuel: the generated outer loop consumes one unit per pass and hands the *remaining* fuel to the inner loop, whereas
the hand model gives both loops `len`; `extend_mono`/`outer_mono` show that the results do not depend on the
(sufficient) fuel.  Vertices are values of an arbitrary type `α` with coordinates `xy` and an encoding
`enc : α → Py.Val` as 2-item lists of `K`-numbers. -/

namespace Plotink
namespace C09
open Py Py.Val
set_option linter.unusedSimpArgs false
set_option linter.unusedSectionVars false

/-! ### integer bookkeeping of the generated code -/

theorem add_nat (p : Nat) (a b : Nat) :
    Py.add Rounding.exact p (.int (a : Int)) (.int (b : Int)) = .int ((a + b : Nat) : Int) := by
  simp [Py.add, Py.pack, Py.join, Py.kind, Py.toInt]

theorem add_one (p : Nat) (a : Nat) : Py.add Rounding.exact p (.int (a : Int)) (.int 1) = .int ((a + 1 : Nat) : Int) :=
  add_nat p a 1
theorem add_two (p : Nat) (a : Nat) : Py.add Rounding.exact p (.int (a : Int)) (.int 2) = .int ((a + 2 : Nat) : Int) :=
  add_nat p a 2

theorem sub_one (p : Nat) (e : Nat) (h : 1 ≤ e) :
    Py.sub Rounding.exact p (.int (e : Int)) (.int 1) = .int ((e - 1 : Nat) : Int) := by
  simp [Py.sub, Py.pack, Py.join, Py.kind, Py.toInt]
  omega

theorem lt_nat (a b : Nat) : Py.lt (.int (a : Int)) (.int (b : Int)) = decide (a < b) := by
  simp [Py.lt, Py.num]

theorem lt_len_sub2 (p : Nat) (s : Nat) (L : List Val) :
    Py.lt (.int (s : Int)) (Py.sub Rounding.exact p (Py.len_ (.tup L)) (.int 2)) = decide (s + 2 < L.length) := by
  simp only [Py.lt, Py.sub, Py.len_, Py.pack, Py.join, Py.kind, Py.toInt, Py.num]
  have : (((s : Int) : Rat) < (((L.length : Int) - 2 : Int) : Rat)) ↔ s + 2 < L.length := by
    rw [Int.cast_lt]; omega
  simp only [this]

theorem le_len_2 (L : List Val) : Py.le (Py.len_ (.tup L)) (.int 2) = decide (L.length ≤ 2) := by
  simp only [Py.le, Py.len_, Py.num]
  have : (((L.length : Int) : Rat) ≤ ((2 : Int) : Rat)) ↔ L.length ≤ 2 := by
    rw [Int.cast_le]; omega
  simp only [this]

theorem sliceBound_nat (n k : Nat) : Py.sliceBound n (.int (k : Int)) 0 = some (min k n) ∧
    Py.sliceBound n (.int (k : Int)) n = some (min k n) := by
  simp [Py.sliceBound]

theorem take_drop_min {β : Type} (L : List β) (i j : Nat) :
    (L.take (min j L.length)).drop (min i L.length) = (L.take j).drop i := by
  have h1 : L.take (min j L.length) = L.take j := by
    rcases Nat.le_total j L.length with h | h
    · rw [Nat.min_eq_left h]
    · rw [Nat.min_eq_right h, List.take_of_length_le h]; simp
  rw [h1]
  rcases Nat.le_total i L.length with h | h
  · rw [Nat.min_eq_left h]
  · rw [Nat.min_eq_right h, List.drop_eq_nil_of_le (by simp), List.drop_eq_nil_of_le (by simp; omega)]

theorem slice_nat (L : List Val) (i j : Nat) :
    Py.slice (.tup L) (.int (i : Int)) (.int (j : Int)) = .tup ((L.take j).drop i) := by
  simp only [Py.slice, (sliceBound_nat L.length i).1, (sliceBound_nat L.length j).2, take_drop_min]

theorem setSlice_del (L : List Val) (i j : Nat) (hij : i ≤ j) (hj : j ≤ L.length) :
    Py.setSlice (.tup L) (.int (i : Int)) (.int (j : Int)) (.tup []) = .tup (L.take i ++ L.drop j) := by
  simp only [Py.setSlice, (sliceBound_nat L.length i).1, (sliceBound_nat L.length j).2, List.append_nil]
  have h1 : min i L.length = i := Nat.min_eq_left (by omega)
  have h2 : min j L.length = j := Nat.min_eq_left hj
  rw [h1, h2, Nat.max_eq_right hij]

theorem truthy_encOptBool (o : Option Bool) : Py.truthy (encOptBool o) = (o == some true) := by
  rcases o with _ | b
  · rfl
  · cases b <;> rfl

/-! ### fuel independence of the hand model -/
section
variable {α : Type} (xy : α → Pt)

theorem extend_mono (v : List α) (tol : Rat) (start : Nat) :
    ∀ (fuel e e' : Nat), extend xy v tol start fuel e = some e' → extend xy v tol start (fuel + 1) e = some e' := by
  intro fuel
  induction fuel with
  | zero => intro e e' h; simp [extend] at h
  | succ n ih =>
    intro e e' h
    rw [extend] at h ⊢
    cases hp : pointsInTol ((slice v start (e + 1)).map xy) tol with
    | none => rw [hp] at h; exact absurd h (by simp)
    | some ok =>
      rw [hp] at h
      simp only at h ⊢
      split_ifs at h ⊢ with hc
      · exact ih _ _ h
      · exact h

theorem extend_mono_le (v : List α) (tol : Rat) (start : Nat) (f1 f2 e e' : Nat) (hle : f1 ≤ f2)
    (h : extend xy v tol start f1 e = some e') : extend xy v tol start f2 e = some e' := by
  induction hle with
  | refl => exact h
  | step _ ih => exact extend_mono xy v tol start _ e e' ih

theorem outer_mono (tol : Rat) :
    ∀ (fuel : Nat) (v : List α) (start : Nat) (r : List α), outer xy tol fuel v start = some r →
      outer xy tol (fuel + 1) v start = some r := by
  intro fuel
  induction fuel with
  | zero => intro v start r h; simp [outer] at h
  | succ n ih =>
    intro v start r h
    rw [outer] at h ⊢
    split_ifs at h ⊢ with hlt
    · cases he : extend xy v tol start v.length (start + 2) with
      | none => rw [he] at h; exact absurd h (by simp)
      | some e =>
        rw [he] at h
        simp only at h ⊢
        exact ih _ _ _ h
    · exact h

theorem outer_mono_le (tol : Rat) (f1 f2 : Nat) (hle : f1 ≤ f2) (v : List α) (start : Nat) (r : List α)
    (h : outer xy tol f1 v start = some r) : outer xy tol f2 v start = some r := by
  induction hle with
  | refl => exact h
  | step _ ih => exact outer_mono xy tol _ v start r ih

end

/-! ### the generated loops -/
section
variable {α : Type} (xy : α → Pt) (enc : α → Val) {K : Val → Rat → Prop} (hK : Enc K)
  (henc : ∀ a, EncPt K (enc a) (xy a)) (amb : Nat) (tol : Rat) (vt : Val) (ht : K vt tol)
include hK henc ht

theorem encPts_map (w : List α) : EncPts K (.tup (w.map enc)) (w.map xy) := by
  refine ⟨_, rfl, ?_⟩
  induction w with
  | nil => exact List.Forall₂.nil
  | cons a t ih => exact List.Forall₂.cons (henc a) ih

/-- the generated inner loop = `C09.extend` with the same fuel (`AssertionError` cannot occur: the slice has at
least three vertices) -/
theorem loop2_eq (v : List α) (s : Nat) (hs : s + 2 < v.length) :
    ∀ (fuel e : Nat), s + 2 ≤ e → e ≤ v.length →
      Gen.supersample_loop2 Rounding.exact amb (.tup (v.map enc)) vt (.int (s : Int)) fuel (.int (e : Int)) =
        match extend xy v tol s fuel e with
        | some e' => .done (.int (e' : Int))
        | none => .fuelOut := by
  intro fuel
  induction fuel with
  | zero => intro e _ _; rfl
  | succ n ih =>
    intro e h1 h2
    rw [Gen.supersample_loop2, Gen.supersample_body2, extend]
    rw [add_one, slice_nat, ← List.map_take, ← List.map_drop]
    have hbr := points_in_tolerance_bridge hK amb (((v.take (e + 1)).drop s).map xy) tol _ vt
      (encPts_map xy enc hK henc tol vt ht ((v.take (e + 1)).drop s)) ht
    rw [hbr, truthy_encOptBool]
    have hlen : ¬ ((slice v s (e + 1)).map xy).length < 3 := by
      rw [List.length_map, slice_length]; omega
    have hslice : slice v s (e + 1) = (v.take (e + 1)).drop s := rfl
    rw [hslice] at hlen
    cases hp : pointsInTol (((v.take (e + 1)).drop s).map xy) tol with
    | none => exact absurd ((pointsInTol_none_iff _ _).mp hp) hlen
    | some ok =>
      rw [hslice, hp]
      simp only [Py.len_, List.length_map, lt_nat]
      cases ok with
      | false => simp
      | true =>
        by_cases hlt : e < v.length
        · simp only [hlt, decide_true, Bool.and_true, beq_self_eq_true, if_true, Bool.true_and]
          exact ih (e + 1) (by omega) (by omega)
        · simp [hlt]

/-- the generated outer loop = `C09.outer` with the same fuel -/
theorem loop1_eq :
    ∀ (fuel : Nat) (v : List α) (s : Nat) (ei : Val), s < v.length → v.length ≤ fuel + s →
      ∃ r ei' s', outer xy tol fuel v s = some r ∧
        Gen.supersample_loop1 Rounding.exact amb vt fuel ei (.tup (v.map enc)) (.int (s : Int)) =
          .done (ei', .tup (r.map enc), s') := by
  intro fuel
  induction fuel with
  | zero => intro v s ei h1 h2; omega
  | succ n ih =>
    intro v s ei h1 h2
    rw [Gen.supersample_loop1, Gen.supersample_body1, outer, lt_len_sub2, List.length_map]
    by_cases hlt : s + 2 < v.length
    · simp only [hlt, decide_true, if_true]
      rw [add_two, loop2_eq xy enc hK henc amb tol vt ht v s hlt n (s + 2) (le_refl _) (by omega)]
      obtain ⟨e, he⟩ := extend_total xy v tol s hlt v.length (s + 2) (le_refl _) (by omega) (by omega)
      obtain ⟨e', he'⟩ := extend_total xy v tol s hlt n (s + 2) (le_refl _) (by omega) (by omega)
      have hee : e' = e := by
        have a1 := extend_mono_le xy v tol s _ (max n v.length) _ _ (le_max_left _ _) he'
        have a2 := extend_mono_le xy v tol s _ (max n v.length) _ _ (le_max_right _ _) he
        rw [a1] at a2; exact Option.some.inj a2
      subst hee
      rw [he, he']
      simp only
      obtain ⟨h3, h4, _⟩ := extend_spec xy v tol s _ _ _ he (by omega)
      rw [add_one, sub_one amb e' (by omega),
        setSlice_del (v.map enc) (s + 1) (e' - 1) (by omega) (by simp; omega),
        ← List.map_take, ← List.map_drop, ← List.map_append]
      exact ih (v.take (s + 1) ++ v.drop (e' - 1)) (s + 1) _ (by simp; omega) (by simp; omega)
    · simp only [hlt, decide_false, if_false, Bool.false_eq_true]
      exact ⟨v, ei, _, rfl, rfl⟩

/-- result of the generated function: `(None, vertices)` — the in-place mutation made visible — or out of fuel -/
def encOut (o : Option (List α)) : Py.Out :=
  match o with
  | some r => .val (.tup [.none_, .tup (r.map enc)])
  | none => .fuelOut

/-- **bridge**: for every fuel `≥ len(vertices)` the regenerated `supersample` in exact arithmetic returns
`(None, the encoded result of the hand model)` -/
theorem supersample_bridge (v : List α) (fuel : Nat) (hf : v.length ≤ fuel) :
    Gen.supersample Rounding.exact amb fuel (.tup (v.map enc)) vt = encOut enc (supersample xy v tol) := by
  unfold Gen.supersample supersample
  simp only [le_len_2, List.length_map, hK.le_int ht 0, Int.cast_zero]
  by_cases h2 : v.length ≤ 2
  · simp [h2, encOut]
  · by_cases h0 : tol ≤ 0
    · simp [h2, h0, encOut]
    · simp only [h2, h0, decide_false, if_false, Bool.false_eq_true]
      obtain ⟨r, ei', s', hr, hg⟩ := loop1_eq xy enc hK henc amb tol vt ht fuel v 0 .err (by omega) (by omega)
      have hg' : Gen.supersample_loop1 Rounding.exact amb vt fuel .err (.tup (v.map enc)) (.int 0) =
          .done (ei', .tup (r.map enc), s') := hg
      rw [hg']
      obtain ⟨r0, hr0⟩ := outer_total xy tol v.length v 0 (by omega) (by omega)
      have := outer_mono_le xy tol _ _ hf v 0 r0 hr0
      rw [hr] at this
      cases this
      rw [hr0]
      rfl

/-- no loop is entered for at most two vertices or a non-positive tolerance: any fuel will do -/
theorem supersample_gen_noop (v : List α) (fuel : Nat) (h : v.length ≤ 2 ∨ tol ≤ 0) :
    Gen.supersample Rounding.exact amb fuel (.tup (v.map enc)) vt = .val (.tup [.none_, .tup (v.map enc)]) := by
  unfold Gen.supersample
  simp only [le_len_2, List.length_map, hK.le_int ht 0, Int.cast_zero]
  by_cases h2 : v.length ≤ 2
  · simp [h2]
  · rcases h with h | h
    · exact absurd h h2
    · simp [h2, h]

end

/-- a vertex `(x, y)` as the Python list `[x, y]` of two `float`s holding exactly those rationals -/
def encPt (p : Pt) : Val := .tup [.flt p.1, .flt p.2]

theorem encPt_isFlt (p : Pt) : EncPt IsFlt (encPt p) p := ⟨_, _, rfl, rfl, rfl⟩

theorem encPts_eq_map (pts : List Pt) : encPts pts = .tup (pts.map encPt) := rfl

end C09
end Plotink
