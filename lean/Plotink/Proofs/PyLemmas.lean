import Plotink.Py
/-! Evaluation lemmas for the dynamically typed operators on tagged values (all by `rfl`/`simp`);
used to normalise generated code before the numeric part of a proof. Core Lean only. -/
namespace Plotink
namespace Py
open Val

@[simp] theorem unpackN_tup2 (a b : Val) : unpackN (.tup [a, b]) 2 = .tup [a, b] := rfl
@[simp] theorem unpackN_tup3 (a b c : Val) : unpackN (.tup [a, b, c]) 3 = .tup [a, b, c] := rfl
@[simp] theorem getItem_cons_zero (a : Val) (l : List Val) : getItem (.tup (a :: l)) 0 = a := rfl
@[simp] theorem getItem_cons_succ (a : Val) (l : List Val) (n : Nat) :
    getItem (.tup (a :: l)) (n + 1) = getItem (.tup l) n := rfl

theorem add_int_int (R p) (a b : Int) : add R p (.int a) (.int b) = .int (a + b) := rfl
theorem sub_int_int (R p) (a b : Int) : sub R p (.int a) (.int b) = .int (a - b) := rfl
theorem mul_int_int (R p) (a b : Int) : mul R p (.int a) (.int b) = .int (a * b) := rfl
theorem add_int_mpf (R : Rounding) (p) (a : Int) (b : Rat) : add R p (.int a) (.mpf b) = .mpf (R.mp p ((a : Rat) + b)) := rfl
theorem add_mpf_int (R : Rounding) (p) (a : Rat) (b : Int) : add R p (.mpf a) (.int b) = .mpf (R.mp p (a + (b : Rat))) := rfl
theorem add_mpf_mpf (R : Rounding) (p) (a b : Rat) : add R p (.mpf a) (.mpf b) = .mpf (R.mp p (a + b)) := rfl
theorem sub_mpf_int (R : Rounding) (p) (a : Rat) (b : Int) : sub R p (.mpf a) (.int b) = .mpf (R.mp p (a - (b : Rat))) := rfl
theorem sub_int_mpf (R : Rounding) (p) (a : Int) (b : Rat) : sub R p (.int a) (.mpf b) = .mpf (R.mp p ((a : Rat) - b)) := rfl
theorem sub_mpf_mpf (R : Rounding) (p) (a b : Rat) : sub R p (.mpf a) (.mpf b) = .mpf (R.mp p (a - b)) := rfl
theorem mul_mpf_int (R : Rounding) (p) (a : Rat) (b : Int) : mul R p (.mpf a) (.int b) = .mpf (R.mp p (a * (b : Rat))) := rfl
theorem mul_int_mpf (R : Rounding) (p) (a : Int) (b : Rat) : mul R p (.int a) (.mpf b) = .mpf (R.mp p ((a : Rat) * b)) := rfl
theorem mul_mpf_mpf (R : Rounding) (p) (a b : Rat) : mul R p (.mpf a) (.mpf b) = .mpf (R.mp p (a * b)) := rfl
theorem add_int_flt (R : Rounding) (p) (a : Int) (b : Rat) : add R p (.int a) (.flt b) = .flt (R.f64 ((a : Rat) + b)) := rfl
theorem add_flt_int (R : Rounding) (p) (a : Rat) (b : Int) : add R p (.flt a) (.int b) = .flt (R.f64 (a + (b : Rat))) := rfl
theorem add_flt_flt (R : Rounding) (p) (a b : Rat) : add R p (.flt a) (.flt b) = .flt (R.f64 (a + b)) := rfl
theorem sub_int_flt (R : Rounding) (p) (a : Int) (b : Rat) : sub R p (.int a) (.flt b) = .flt (R.f64 ((a : Rat) - b)) := rfl
theorem sub_flt_int (R : Rounding) (p) (a : Rat) (b : Int) : sub R p (.flt a) (.int b) = .flt (R.f64 (a - (b : Rat))) := rfl
theorem sub_flt_flt (R : Rounding) (p) (a b : Rat) : sub R p (.flt a) (.flt b) = .flt (R.f64 (a - b)) := rfl
theorem mul_int_flt (R : Rounding) (p) (a : Int) (b : Rat) : mul R p (.int a) (.flt b) = .flt (R.f64 ((a : Rat) * b)) := rfl
theorem mul_flt_int (R : Rounding) (p) (a : Rat) (b : Int) : mul R p (.flt a) (.int b) = .flt (R.f64 (a * (b : Rat))) := rfl
theorem mul_flt_flt (R : Rounding) (p) (a b : Rat) : mul R p (.flt a) (.flt b) = .flt (R.f64 (a * b)) := rfl
theorem mpf_int (R : Rounding) (p) (a : Int) : mpf_ R p (.int a) = .mpf (R.mp p (a : Rat)) := rfl
theorem mpf_mpf (R : Rounding) (p) (a : Rat) : mpf_ R p (.mpf a) = .mpf (R.mp p a) := rfl
theorem int_int (a : Int) : int_ (.int a) = .int a := rfl
theorem int_mpf (a : Rat) : int_ (.mpf a) = .int (intOfRat a) := rfl
theorem int_flt (a : Rat) : int_ (.flt a) = .int (intOfRat a) := rfl
theorem floor_mpf (a : Rat) : mp_floor (.mpf a) = .mpf (a.floor : Rat) := rfl
theorem ceil_mpf (a : Rat) : mp_ceil (.mpf a) = .mpf (ceilRat a : Rat) := rfl
theorem round_mpf (a : Rat) : round_ (.mpf a) = .int (roundHE a) := rfl
theorem round_flt (a : Rat) : round_ (.flt a) = .int (roundHE a) := rfl
theorem round_int (a : Int) : round_ (.int a) = .int a := rfl
theorem eq_int_str (a : Int) (s : String) : eq (.int a) (.str s) = false := rfl
theorem eq_str_str (s t : String) : eq (.str s) (.str t) = (s == t) := rfl

end Py
end Plotink
