import Plotink.Proofs.C03Model
import Mathlib.Algebra.Group.Int.Even
/-! # C03 — the mirror symmetry `(rate, accel, a0) ↦ (−rate, −accel, 2^31 − 1 − a0)`

Positions change sign, the steps taken are unchanged; the model is symmetric in the same way, so the
branches with negative acceleration follow from those with positive acceleration. -/
namespace Plotink
namespace C03
open Fw

def mir (x : Int × Int × Int) : Int × Int × Int := (x.1, -x.2.1, two31 - 1 - x.2.2)

theorem mir_mir (x : Int × Int × Int) : mir (mir x) = x := by
  obtain ⟨a, b, c⟩ := x; simp [mir]

theorem tdiv_neg (a : Int) : tdiv (-a) 2 = -tdiv a 2 := by
  unfold tdiv; split_ifs <;> omega

/-! ## Spec side -/

theorem ltRate_neg (rate accel : Int) (k : Nat) : ltRate (-rate) (-accel) k = -ltRate rate accel k := by
  rw [ltRate_eq, ltRate_eq, tdiv_neg]; ring

theorem ltTotal_mirror (rate accel a0 : Int) (T : Nat) :
    ltTotal (-rate) (-accel) T (two31 - 1 - a0) = two31 - 1 - ltTotal rate accel T a0 := by
  induction T with
  | zero => simp [ltTotal_zero]
  | succ T ih => rw [ltTotal_succ, ltTotal_succ, ih, ltRate_neg]; ring

theorem ltPos_mirror (rate accel a0 : Int) (T : Nat) :
    ltPos (-rate) (-accel) (two31 - 1 - a0) T = -ltPos rate accel a0 T := by
  unfold ltPos; rw [ltTotal_mirror]
  generalize ltTotal rate accel T a0 = x
  unfold two31; omega

theorem ltTaken_mirror (rate accel a0 : Int) (T : Nat) :
    ltTaken (-rate) (-accel) (two31 - 1 - a0) T = ltTaken rate accel a0 T := by
  induction T with
  | zero => rfl
  | succ T ih =>
    rw [ltTaken_succ, ltTaken_succ, ih, ltPos_mirror, ltPos_mirror]
    omega

theorem isFirst_mirror (rate accel a0 n : Int) (T : Nat) :
    IsFirst (-rate) (-accel) (two31 - 1 - a0) n T ↔ IsFirst rate accel a0 n T := by
  unfold IsFirst; simp only [ltTaken_mirror]

theorem ctx_mirror (rate accel a0 n : Int) (T : Nat) (C : Ctx rate accel a0 n T) :
    Ctx (-rate) (-accel) (two31 - 1 - a0) n T := by
  obtain ⟨hn, h0, h1, hF, hR⟩ := C
  refine ⟨hn, by omega, by omega, (isFirst_mirror ..).mpr hF, ?_⟩
  intro k hk hk'
  have := hR k hk hk'
  rw [ltRate_neg]; omega

theorem target_mirror (rate accel a0 : Int) (T : Nat) :
    target (-rate) (-accel) (two31 - 1 - a0) T = mir (target rate accel a0 T) := by
  unfold target mir
  simp only [ltPos_mirror, ltTotal_mirror]
  refine Prod.ext rfl (Prod.ext (by simp; ring) ?_)
  simp only
  generalize ltTotal rate accel T a0 = x
  unfold two31; omega

/-! ## Model side -/

theorem kk_neg (rate accel : Int) : kk (-rate) (-accel) = -kk rate accel := by
  unfold kk; rw [tdiv_neg]; ring

theorem r1_neg (rate accel : Int) : r1 (-rate) (-accel) = -r1 rate accel := by
  unfold r1; rw [tdiv_neg]; ring

theorem isNeg_neg (rate accel : Int) (hnz : ¬ (rate = 0 ∧ accel = 0)) :
    isNeg (-rate) (-accel) ↔ ¬ isNeg rate accel := by
  unfold isNeg; rw [r1_neg]
  have : r1 rate accel = 0 → accel = 0 → rate = 0 := by
    intro h1 h2; subst h2; simpa [r1, tdiv] using h1
  constructor
  · rintro (h | ⟨h, h'⟩) <;> omega
  · intro h
    by_cases hr : r1 rate accel = 0
    · right; refine ⟨by omega, ?_⟩
      by_contra hc
      have : accel = 0 := by omega
      exact hnz ⟨this ▸ (by tauto), this⟩
    · left; omega

theorem adjOf_neg (rate accel a0 : Int) (hnz : ¬ (rate = 0 ∧ accel = 0)) :
    adjOf (-rate) (-accel) (two31 - 1 - a0) = -adjOf rate accel a0 := by
  unfold adjOf
  by_cases h : isNeg rate accel
  · rw [if_neg ((isNeg_neg rate accel hnz).not.mpr (not_not.mpr h)), if_pos h]; ring
  · rw [if_pos ((isNeg_neg rate accel hnz).mpr h), if_neg h]; ring

theorem tRev_neg (rate accel : Int) : tRev (-rate) (-accel) = tRev rate accel := by
  unfold tRev
  by_cases h1 : 0 < accel ∧ rate < 0
  · rw [if_pos h1, if_neg (by omega), if_pos (by omega)]
    congr 1 <;> ring
  · rw [if_neg h1]
    by_cases h2 : accel < 0 ∧ 0 < rate
    · rw [if_pos h2, if_pos (by omega)]
      congr 1 <;> ring
    · rw [if_neg h2, if_neg (by omega), if_neg (by omega)]

theorem sRev2_neg (rate accel a0 : Int) (hnz : ¬ (rate = 0 ∧ accel = 0)) :
    sRev2 (-rate) (-accel) (two31 - 1 - a0) = -sRev2 rate accel a0 := by
  unfold sRev2; simp only [tRev_neg, kk_neg, adjOf_neg rate accel a0 hnz]; ring

theorem sRev_neg (rate accel a0 : Int) (hnz : ¬ (rate = 0 ∧ accel = 0)) :
    sRev (-rate) (-accel) (two31 - 1 - a0) = sRev rate accel a0 := by
  unfold sRev; rw [tRev_neg, sRev2_neg rate accel a0 hnz, Int.natAbs_neg]

theorem noRev_neg (n rate accel a0 : Int) (hnz : ¬ (rate = 0 ∧ accel = 0)) :
    noRev n (-rate) (-accel) (two31 - 1 - a0) ↔ noRev n rate accel a0 := by
  unfold noRev; rw [tRev_neg, r1_neg, sRev_neg rate accel a0 hnz]
  constructor <;> (rintro (h | h | h) <;> omega)

theorem tRevEff_neg (n rate accel a0 : Int) (hnz : ¬ (rate = 0 ∧ accel = 0)) :
    tRevEff n (-rate) (-accel) (two31 - 1 - a0) = tRevEff n rate accel a0 := by
  unfold tRevEff; simp only [noRev_neg n rate accel a0 hnz, tRev_neg]

theorem posFinal_neg (n rate accel a0 : Int) (hnz : ¬ (rate = 0 ∧ accel = 0)) :
    posFinal n (-rate) (-accel) (two31 - 1 - a0) = -posFinal n rate accel a0 := by
  unfold posFinal
  simp only [noRev_neg n rate accel a0 hnz, sRev_neg rate accel a0 hnz]
  by_cases hnr : noRev n rate accel a0
  · simp only [hnr, if_true]
    by_cases h : isNeg rate accel
    · rw [if_neg ((isNeg_neg rate accel hnz).not.mpr (not_not.mpr h)), if_pos h]; ring
    · rw [if_pos ((isNeg_neg rate accel hnz).mpr h), if_neg h]
  · simp only [hnr, if_false]
    have hacc : accel ≠ 0 := by
      intro h; apply hnr; left; unfold tRev; rw [h]; simp
    split_ifs <;> omega

theorem posAdj_neg (n rate accel a0 : Int) (hnz : ¬ (rate = 0 ∧ accel = 0)) :
    posAdj n (-rate) (-accel) (two31 - 1 - a0) = -posAdj n rate accel a0 := by
  unfold posAdj
  simp only [noRev_neg n rate accel a0 hnz, posFinal_neg n rate accel a0 hnz]
  by_cases hnr : noRev n rate accel a0
  · simp only [hnr, if_true]
  · simp only [hnr, if_false]
    have hacc : accel ≠ 0 := by
      intro h; apply hnr; left; unfold tRev; rw [h]; simp
    split_ifs <;> omega

theorem cFactor_neg (n rate accel a0 : Int) (hnz : ¬ (rate = 0 ∧ accel = 0)) :
    cFactor n (-rate) (-accel) (two31 - 1 - a0) = -cFactor n rate accel a0 := by
  unfold cFactor
  simp only [tRevEff_neg n rate accel a0 hnz, posAdj_neg n rate accel a0 hnz, adjOf_neg rate accel a0 hnz]
  by_cases hte : 0 < tRevEff n rate accel a0
  · simp only [hte, if_true]
    have hacc : accel ≠ 0 := by
      intro h
      have : tRevEff n rate accel a0 = -1 := by
        unfold tRevEff tRev; rw [h]; simp
      omega
    split_ifs
    · omega
    · ring
    · ring
    · omega
  · simp only [hte, if_false]; ring

theorem linTime_neg (rate num : Int) (hr : rate ≠ 0) : linTime (-rate) (-num) = linTime rate num := by
  unfold linTime
  rcases lt_or_gt_of_ne hr with h | h
  · rw [if_pos (by omega), if_neg (by omega)]
  · rw [if_neg (by omega), if_pos h]; simp

theorem timeFinal_neg (n rate accel a0 : Int) (hnz : ¬ (rate = 0 ∧ accel = 0)) :
    timeFinal n (-rate) (-accel) (two31 - 1 - a0) = timeFinal n rate accel a0 := by
  unfold timeFinal
  by_cases ha : accel = 0
  · rw [if_pos (by omega), if_pos ha, posFinal_neg n rate accel a0 hnz, adjOf_neg rate accel a0 hnz]
    have hr : rate ≠ 0 := fun h => hnz ⟨h, ha⟩
    rw [← linTime_neg rate _ hr]
    congr 1; ring
  · rw [if_neg (by omega), if_neg ha, kk_neg, cFactor_neg n rate accel a0 hnz,
      tRevEff_neg n rate accel a0 hnz, quadTime_neg accel _ _ _ ha]

/-- `k·t + accel·t²` is even -/
theorem kt_even (rate accel t : Int) :
    ∃ m, kk rate accel * t + accel * t * t = 2 * m := by
  obtain ⟨r, hr⟩ := Int.even_mul_succ_self t
  refine ⟨(rate - tdiv accel 2) * t + accel * r, ?_⟩
  unfold kk
  have : accel * t * t + accel * t = accel * (t * (t + 1)) := by ring
  have e : (2 * rate + accel - 2 * tdiv accel 2) * t + accel * t * t
      = 2 * (rate - tdiv accel 2) * t + (accel * t * t + accel * t) := by ring
  rw [e, this, hr]; ring

theorem accFinal_neg (rate accel a0 pos t : Int) :
    accFinal (-rate) (-accel) (two31 - 1 - a0) (-pos) t = two31 - 1 - accFinal rate accel a0 pos t := by
  unfold accFinal
  obtain ⟨m, hm⟩ := kt_even rate accel t
  have e : kk (-rate) (-accel) * t + -accel * t * t = 2 * (-m) := by
    rw [kk_neg]; linarith
  rw [e, hm, Int.mul_ediv_cancel_left _ (by decide : (2 : Int) ≠ 0),
    Int.mul_ediv_cancel_left _ (by decide : (2 : Int) ≠ 0)]
  ring

/-- the model is mirror symmetric -/
theorem lmPosA_neg (n rate accel a0 : Int) (hnz : ¬ (rate = 0 ∧ accel = 0)) :
    lmPosA n (-rate) (-accel) (two31 - 1 - a0) = mir (lmPosA n rate accel a0) := by
  unfold lmPosA mir
  simp only [timeFinal_neg n rate accel a0 hnz, posFinal_neg n rate accel a0 hnz, accFinal_neg]

/-- **C03, model level**: for a positive budget and a start accumulator in range, if `T` is the first tick
exhausting the budget and the rates up to `T` are in range, the model returns
`(T, pos_T − pos_0, tot_T mod 2^31)` — every branch. -/
theorem lmPosA_correct (rate accel a0 n : Int) (T : Nat) (hnz : ¬ (rate = 0 ∧ accel = 0))
    (C : Ctx rate accel a0 n T) : lmPosA n rate accel a0 = target rate accel a0 T := by
  rcases lt_trichotomy accel 0 with ha | ha | ha
  · have := lmPosA_up (-rate) (-accel) (two31 - 1 - a0) n T (by omega) (ctx_mirror rate accel a0 n T C)
    rw [lmPosA_neg n rate accel a0 hnz, target_mirror] at this
    have := congrArg mir this
    rwa [mir_mir, mir_mir] at this
  · subst ha
    rcases lt_trichotomy rate 0 with hr | hr | hr
    · have := lmPosA_const (-rate) (two31 - 1 - a0) n T (by omega)
        (by have := ctx_mirror rate 0 a0 n T C; simpa using this)
      have e1 := lmPosA_neg n rate 0 a0 hnz
      have e2 := target_mirror rate 0 a0 T
      simp only [neg_zero] at e1 e2
      rw [e1, e2] at this
      have := congrArg mir this
      rwa [mir_mir, mir_mir] at this
    · exact absurd ⟨hr, rfl⟩ hnz
    · exact lmPosA_const rate a0 n T hr C
  · exact lmPosA_up rate accel a0 n T ha C

end C03
end Plotink
