import Plotink.Model.C12
import Mathlib.Tactic.Linarith
import Mathlib.Tactic.Ring
import Mathlib.Tactic.FieldSimp
import Mathlib.Tactic.NormNum
import Mathlib.Tactic.SplitIfs
/-! Lemmas about the converters of `Model/C12.lean`. -/
namespace Plotink
namespace C12
open PyFloat

theorem splitUnit_unit_mem (s : List Char) :
    (splitUnit s).2 ∈ [['p','x'], ['i','n'], ['m','m'], ['c','m'], ['p','t'], ['p','c'], ['Q'], ['%']] := by
  unfold splitUnit
  split_ifs <;> simp

theorem parseLength_unit_mem (s : Option (List Char)) (v : Num) (u : List Char)
    (h : parseLength s = some (v, u)) :
    u ∈ [['p','x'], ['i','n'], ['m','m'], ['c','m'], ['p','t'], ['p','c'], ['Q'], ['%']] := by
  unfold parseLength at h
  cases s with
  | none => simp at h
  | some s0 =>
    simp only at h
    split at h
    · simp at h
    · simp only [Option.some.injEq, Prod.mk.injEq] at h
      rw [← h.2]; exact splitUnit_unit_mem _

theorem svgFactor_cases (u : List Char) (f : Rat) (h : svgFactor u = some f) :
    (u = ['p','x'] ∧ f = 1) ∨ (u = ['i','n'] ∧ f = 96) ∨ (u = ['m','m'] ∧ f = 480 / 127) ∨
    (u = ['c','m'] ∧ f = 4800 / 127) ∨ (u = ['p','t'] ∧ f = 4 / 3) ∨ (u = ['p','c'] ∧ f = 16) ∨
    (u = ['Q'] ∧ f = 120 / 127) := by
  unfold svgFactor at h
  split_ifs at h with h1 h2 h3 h4 h5 h6 h7 <;> simp only [Option.some.injEq] at h <;> subst h
  · left; exact ⟨h1, rfl⟩
  · right; left; exact ⟨h2, rfl⟩
  · right; right; left; exact ⟨h3, by norm_num⟩
  · right; right; right; left; exact ⟨h4, by norm_num⟩
  · right; right; right; right; left; exact ⟨h5, by norm_num⟩
  · right; right; right; right; right; left; exact ⟨h6, rfl⟩
  · right; right; right; right; right; right; exact ⟨h7, by norm_num⟩

end C12
end Plotink
