import Plotink.Proofs.Ebb3GenInt32

/-! # Bridge: `motors_enable` -/

namespace Plotink
namespace Ebb3Gen
open PyObj Gen
set_option linter.unusedSimpArgs false
set_option linter.unusedVariables false

/-- in the model: `motors_query_enabled` returns `None` or a pair of integers -/
theorem mqe_res {σ : Type} (P : Ebb3.Params) (D : Ebb3.Device σ) {w w' : Ebb3.World σ} {v : Ebb3.Val}
    (h : (Ebb3.motorsQueryEnabledP P D).run w = (.ok v, w')) :
    v = .none ∨ ∃ m0 m1, v = .pair (.int m0) (.int m1) := by
  by_cases hb : w.st.blocked = true
  · rw [Ebb3.Prog.run_blocked _ _ rfl w hb] at h
    injection h with h1 _; injection h1 with h1
    exact Or.inl h1.symm
  · rw [Ebb3.Prog.run_open _ _ rfl w (by simpa using hb)] at h
    change ((Ebb3.queryP P D (some "QE".toList)).run >>= fun r => match r with
      | .str resp => Ebb3.qeDecode (Ebb3.splitOn ',' resp) | _ => pure Ebb3.Val.none) w = _ at h
    obtain ⟨r, w1, -, h⟩ := Ebb3.bind_inv h
    cases r with
    | str resp =>
      simp only at h
      generalize Ebb3.splitOn ',' resp = l at h
      unfold Ebb3.qeDecode at h
      obtain ⟨a, w2, -, h⟩ := Ebb3.bind_inv h
      obtain ⟨ra, w3, -, h⟩ := Ebb3.bind_inv h
      cases l with
      | nil => cases h
      | cons x t =>
        cases t with
        | nil => cases h
        | cons y r =>
          simp only at h
          obtain ⟨b, w4, -, h⟩ := Ebb3.bind_inv h
          obtain ⟨rb, w5, -, h⟩ := Ebb3.bind_inv h
          injection h with h1 _; injection h1 with h1
          exact Or.inr ⟨ra, rb, h1.symm⟩
    | none => injection h with h1 _; injection h1 with h1; exact Or.inl h1.symm
    | bool b => injection h with h1 _; injection h1 with h1; exact Or.inl h1.symm
    | int z => injection h with h1 _; injection h1 with h1; exact Or.inl h1.symm
    | pair a b => injection h with h1 _; injection h1 with h1; exact Or.inl h1.symm

/-- `x = self.motors_query_enabled()` as a statement of a caller -/
theorem mqe_assign {σ : Type} (fuel : Nat) (hf : 26 ≤ fuel) (env : σ) (set : σ → Val → σ)
    (w : World EBB3_Obj) (hg : Good w) :
    AssignSim (assign set (fun fuel env => mcall0 (EBBMotionWrap_motors_query_enabled fuel)) fuel env w) env set
      ((Ebb3.motorsQueryEnabledP Ebb3.srcParams Ebb3.scriptDev).run (absWorld w)) := by
  have hb := motors_query_enabled_bridge fuel hf w hg
  have hrun : Ebb3.run Ebb3.srcParams Ebb3.scriptDev .motors_query_enabled
      = (Ebb3.motorsQueryEnabledP Ebb3.srcParams Ebb3.scriptDev).run := rfl
  rw [hrun] at hb
  simp only [assign, mcall0_apply]
  generalize EBBMotionWrap_motors_query_enabled fuel w = out at hb ⊢
  generalize (Ebb3.motorsQueryEnabledP Ebb3.srcParams Ebb3.scriptDev).run (absWorld w) = r at hb ⊢
  obtain ⟨res, aw'⟩ := r
  cases out with
  | fuelOut => cases res <;> exact hb.elim
  | val v w' =>
    cases res with
    | error ex => exact hb.elim
    | ok v' =>
      obtain ⟨h1, h2, h3⟩ := hb
      exact ⟨w', by simp only [ofOut_val, h1], h2, h3⟩
  | exc c w' =>
    cases res with
    | ok v' => exact hb.elim
    | error ex =>
      obtain ⟨h1, h2, h3⟩ := hb
      exact ⟨w', by simp only [ofOut_exc, h1], h2, h3⟩

/-- `if <cond>: self.command(text)` against `if P then cmd_ text else pure ()` -/
theorem optCmd_stmt {σ : Type} (fuel : Nat) (hf : 26 ≤ fuel) (text : List Char) (hasc : PyIO.isAscii text = true) (env : σ)
    (w : World EBB3_Obj) (hg : Good w) (c : Expr EBB3_Obj σ) (e : Expr EBB3_Obj σ) (p : Bool) (P : Prop) [Decidable P]
    (hp : p = decide P) (hc : c fuel env = ok (.bool p)) (he : e fuel env = ok (.str text)) :
    StmtSim (ifte c (expr (fun fuel env => mcall1 (EBB3_command fuel) (e fuel env))) pass fuel env w) env
      ((if P then Ebb3.cmd_ Ebb3.srcParams Ebb3.scriptDev text else (pure () : Ebb3.M Ebb3.Script Unit)) (absWorld w)) := by
  simp only [ifte, hc, ok_apply, truthy_bool]
  by_cases hP : P
  · have : p = true := by rw [hp]; simp [hP]
    simp only [this, ↓reduceIte, hP]
    exact command_stmt fuel hf text hasc env w hg e he
  · have : p = false := by rw [hp]; simp [hP]
    simp only [this, Bool.false_eq_true, ↓reduceIte, hP, pass]
    exact ⟨w, rfl, rfl, hg⟩

theorem b_max2_int (r : Int) : b_max2 (.int r) (.int 0) = .ok (.int (max r 0)) := by
  simp only [b_max2, ltVal, intOf]
  by_cases h : r < 0
  · have : max r 0 = 0 := by omega
    simp [h, this]
  · have : max r 0 = r := by omega
    simp [h, this]

theorem b_min2_int (x : Int) : b_min2 (.int x) (.int 5) = .ok (.int (min x 5)) := by
  simp only [b_min2, ltVal, intOf]
  by_cases h : 5 < x
  · have : min x 5 = 5 := by omega
    simp [h, this]
  · have : min x 5 = x := by omega
    simp [h, this]

theorem emText_ascii (x y : Int) : PyIO.isAscii (Ebb3.emText x y) = true := by
  unfold Ebb3.emText; exact isAscii_lit_comma _ _ (by decide)

/-- the last statement `self.command(f'EM,{r1},{r2}')` and falling off the end -/
theorem me_final (fuel : Nat) (hf : 26 ≤ fuel) (a b : Int) (o m : Val) (w : World EBB3_Obj) (hg : Good w) :
    Sim (PyObj.run (expr (fun (fuel : Nat) (env : EBBMotionWrap_motors_enable_Env) => mcall1 (EBB3_command fuel)
        (fstr [ok (.str ['E', 'M', ',']), load env.resolution_1, ok (.str [',']), load env.resolution_2]))) fuel
        ⟨.int a, .int b, o, m⟩ w)
      ((Ebb3.cmd_ Ebb3.srcParams Ebb3.scriptDev (Ebb3.emText a b) >>= fun _ => pure Ebb3.Val.none) (absWorld w)) := by
  have hs := command_stmt fuel hf (Ebb3.emText a b) (emText_ascii a b)
    (⟨.int a, .int b, o, m⟩ : EBBMotionWrap_motors_enable_Env) w hg
    (fun fuel env => fstr [ok (.str ['E', 'M', ',']), load env.resolution_1, ok (.str [',']), load env.resolution_2]) (by
      simp only [load_int, Ebb3.emText]; fstr_eval)
  rw [Ebb3.bind_apply]
  unfold PyObj.run
  generalize Ebb3.cmd_ Ebb3.srcParams Ebb3.scriptDev _ (absWorld w) = r at hs ⊢
  obtain ⟨res, aw'⟩ := r
  cases res with
  | error ex =>
    obtain ⟨w', e1, e2, hg'⟩ := hs
    rw [e1]; exact ⟨rfl, e2, hg'⟩
  | ok u =>
    obtain ⟨w', e1, e2, hg'⟩ := hs
    rw [e1]; exact ⟨rfl, e2, hg'⟩

/-- **`motors_enable`** -/
theorem motors_enable_bridge (fuel : Nat) (hf : 26 ≤ fuel) (r1 r2 : Int) (w : World EBB3_Obj) (hg : Good w) :
    Sim (EBBMotionWrap_motors_enable fuel (.int r1) (.int r2) w)
      (Ebb3.run Ebb3.srcParams Ebb3.scriptDev (.motors_enable r1 r2) (absWorld w)) := by
  unfold EBBMotionWrap_motors_enable EBBMotionWrap_motors_enable_main EBBMotionWrap_motors_enable_if1
  rw [block_cons2]
  refine guarded_sim .none _ fuel _ w hg _ (fun hb => ?_)
  show Sim _ (Ebb3.motorsEnableCore Ebb3.srcParams Ebb3.scriptDev (Ebb3.clampRes r1) (Ebb3.clampRes r2) (absWorld w))
  -- the four clamping assignments
  rw [block_cons2, run_seq_assign_ok (v := .int (max r1 0)) (by simp only [load_int, app1_ok, b_int, ofP_ok, app2_ok, b_max2_int])]
  rw [block_cons2, run_seq_assign_ok (v := .int (Ebb3.clampRes r1)) (by simp only [load_int, app2_ok, b_min2_int, ofP_ok, Ebb3.clampRes])]
  rw [block_cons2, run_seq_assign_ok (v := .int (max r2 0)) (by simp only [load_int, app1_ok, b_int, ofP_ok, app2_ok, b_max2_int])]
  rw [block_cons2, run_seq_assign_ok (v := .int (Ebb3.clampRes r2)) (by simp only [load_int, app2_ok, b_min2_int, ofP_ok, Ebb3.clampRes])]
  simp only []
  generalize Ebb3.clampRes r1 = a
  generalize Ebb3.clampRes r2 = b
  rw [block_cons2, block_cons2, block_one]
  unfold Ebb3.motorsEnableCore
  -- if2: the optional CU,50,0
  have h2 := optCmd_stmt fuel hf ['C', 'U', ',', '5', '0', ',', '0'] (by decide)
    (⟨.int a, .int b, .unbound, .unbound⟩ : EBBMotionWrap_motors_enable_Env) w hg
    (fun fuel env => and_ (app2 op_ne (load env.resolution_1) (load env.resolution_2))
      (app2 op_eq (app2 op_mul (load env.resolution_1) (load env.resolution_2)) (ok (.int 0))))
    (fun fuel env => ok (.str ['C', 'U', ',', '5', '0', ',', '0']))
    (!(a == b) && (a * b == 0)) (a ≠ b ∧ a * b = 0) (by
      by_cases h1 : a = b <;> by_cases h2 : a * b = 0 <;> simp [h1, h2]) (by
      simp only [load_int, app2_ok, op_ne, op_eq, op_mul, intOf, pyEq, ofP_ok, and_ok, truthy_bool]
      by_cases h1 : a = b
      · simp [h1]
      · simp [h1, beq_eq_false_iff_ne.mpr h1]) rfl
  rw [lit_CU500, Ebb3.bind_apply]
  generalize (if a ≠ b ∧ a * b = 0 then Ebb3.cmd_ Ebb3.srcParams Ebb3.scriptDev ['C', 'U', ',', '5', '0', ',', '0'] else pure ()) (absWorld w) = rr at h2 ⊢
  obtain ⟨res, aw1⟩ := rr
  cases res with
  | error ex =>
    obtain ⟨w1, e1, e2, hg1⟩ := h2
    unfold PyObj.run EBBMotionWrap_motors_enable_if2
    rw [seq_exc e1]
    exact ⟨rfl, e2, hg1⟩
  | ok u =>
    obtain ⟨w1, e1, e2, hg1⟩ := h2
    have e1' : EBBMotionWrap_motors_enable_if2 fuel ⟨.int a, .int b, .unbound, .unbound⟩ w
        = .norm ⟨.int a, .int b, .unbound, .unbound⟩ w1 := e1
    rw [run_seq_norm e1']
    simp only
    rw [← e2]
    -- if3
    unfold EBBMotionWrap_motors_enable_if3
    have hcond : (and_ (app2 op_eq (load (.int a)) (ok (.int 0))) (app2 op_ne (load (.int b)) (ok (.int 0))) : Eff EBB3_Obj)
        = ok (.bool (decide (a = 0 ∧ b ≠ 0))) := by
      simp only [load_int, app2_ok, op_ne, op_eq, pyEq, ofP_ok, and_ok, truthy_bool]
      by_cases h1 : a = 0
      · by_cases h2 : b = 0
        · simp [h1, h2]
        · have : (b == 0) = false := beq_eq_false_iff_ne.mpr h2
          simp [h1, h2, this]
      · have : (a == 0) = false := beq_eq_false_iff_ne.mpr h1
        simp [h1, this]
    by_cases hc : a = 0 ∧ b ≠ 0
    · rw [if_pos hc]
      -- enter the block
      have henter : ∀ rest, PyObj.run (seq (ifte (fun (fuel : Nat) (env : EBBMotionWrap_motors_enable_Env) =>
            and_ (app2 op_eq (load env.resolution_1) (ok (.int 0))) (app2 op_ne (load env.resolution_2) (ok (.int 0))))
          (block [
            assign (fun env v => { env with old_res := v }) (fun fuel env => ok (.int 0)),
            assign (fun env v => { env with motor_res := v }) (fun fuel env => mcall0 (EBBMotionWrap_motors_query_enabled fuel)),
            EBBMotionWrap_motors_enable_if4, EBBMotionWrap_motors_enable_if5, EBBMotionWrap_motors_enable_if6,
            EBBMotionWrap_motors_enable_if7]) pass) rest) fuel ⟨.int a, .int b, .unbound, .unbound⟩ w1
          = PyObj.run (seq (block [
            assign (fun env v => { env with motor_res := v }) (fun fuel env => mcall0 (EBBMotionWrap_motors_query_enabled fuel)),
            EBBMotionWrap_motors_enable_if4, EBBMotionWrap_motors_enable_if5, EBBMotionWrap_motors_enable_if6,
            EBBMotionWrap_motors_enable_if7]) rest) fuel ⟨.int a, .int b, .int 0, .unbound⟩ w1 := by
        intro rest
        have hdec : decide (a = 0 ∧ b ≠ 0) = true := decide_eq_true hc
        have h1 : ifte (fun (fuel : Nat) (env : EBBMotionWrap_motors_enable_Env) =>
            and_ (app2 op_eq (load env.resolution_1) (ok (.int 0))) (app2 op_ne (load env.resolution_2) (ok (.int 0))))
          (block [
            assign (fun env v => { env with old_res := v }) (fun fuel env => ok (.int 0)),
            assign (fun env v => { env with motor_res := v }) (fun fuel env => mcall0 (EBBMotionWrap_motors_query_enabled fuel)),
            EBBMotionWrap_motors_enable_if4, EBBMotionWrap_motors_enable_if5, EBBMotionWrap_motors_enable_if6,
            EBBMotionWrap_motors_enable_if7]) pass fuel ⟨.int a, .int b, .unbound, .unbound⟩ w1
          = block [
            assign (fun env v => { env with motor_res := v }) (fun fuel env => mcall0 (EBBMotionWrap_motors_query_enabled fuel)),
            EBBMotionWrap_motors_enable_if4, EBBMotionWrap_motors_enable_if5, EBBMotionWrap_motors_enable_if6,
            EBBMotionWrap_motors_enable_if7] fuel ⟨.int a, .int b, .int 0, .unbound⟩ w1 := by
          simp only [ifte, hcond, ok_apply, hdec, truthy_bool, ↓reduceIte]
          rw [block_cons2, seq_norm (env' := ⟨.int a, .int b, .int 0, .unbound⟩) (w' := w1) (by simp only [assign, ok_apply])]
        unfold PyObj.run seq
        rw [h1]
      rw [henter]
      have hm := mqe_assign fuel hf (⟨.int a, .int b, .int 0, .unbound⟩ : EBBMotionWrap_motors_enable_Env)
        (fun env v => { env with motor_res := v }) w1 hg1
      have hres : ∀ v aw', (Ebb3.motorsQueryEnabledP Ebb3.srcParams Ebb3.scriptDev).run (absWorld w1) = (.ok v, aw') →
          v = .none ∨ ∃ m0 m1, v = .pair (.int m0) (.int m1) := fun v aw' h => mqe_res _ _ h
      rw [Ebb3.bind_apply]
      generalize (Ebb3.motorsQueryEnabledP Ebb3.srcParams Ebb3.scriptDev).run (absWorld w1) = r2 at hm hres ⊢
      obtain ⟨res2, aw2⟩ := r2
      rw [block_cons2, block_cons2, block_cons2, block_cons2, block_one]
      cases res2 with
      | error ex =>
        obtain ⟨w2, e3, e4, hg2⟩ := hm
        unfold PyObj.run
        rw [seq_exc (seq_exc e3)]
        exact ⟨rfl, e4, hg2⟩
      | ok v =>
        obtain ⟨w2, e3, e4, hg2⟩ := hm
        simp only
        rw [← e4]
        rcases hres v aw2 rfl with rfl | ⟨m0, m1, rfl⟩
        · -- `if motor_res is None: return`
          have : ∀ rest, PyObj.run (seq (seq (assign (fun (env : EBBMotionWrap_motors_enable_Env) v => { env with motor_res := v })
              (fun fuel env => mcall0 (EBBMotionWrap_motors_query_enabled fuel)))
              (seq EBBMotionWrap_motors_enable_if4 (seq EBBMotionWrap_motors_enable_if5 (seq EBBMotionWrap_motors_enable_if6
                EBBMotionWrap_motors_enable_if7)))) rest) fuel ⟨.int a, .int b, .int 0, .unbound⟩ w1 = .val .none w2 := by
            intro rest
            unfold PyObj.run
            rw [seq_ret (v := .none) (w' := w2) (by
              rw [seq_norm e3]
              rw [seq_ret (v := .none) (w' := w2) (by
                unfold EBBMotionWrap_motors_enable_if4
                simp only [ifte, encVal, load_none, app1_ok, op_is_none, isNone, ofP_ok, ok_apply, truthy_bool, ↓reduceIte, return_])])]
          rw [this]
          exact ⟨rfl, rfl, hg2⟩
        · simp only
          have hg0 : op_getitem (.tuple [.int m0, .int m1]) (.int 0) = .ok (.int m0) := rfl
          have hg1' : op_getitem (.tuple [.int m0, .int m1]) (.int 1) = .ok (.int m1) := rfl
          have hlt : (load (Val.tuple [Val.int m0, Val.int m1]) : Eff EBB3_Obj) = ok (Val.tuple [Val.int m0, Val.int m1]) := rfl
          have hstep : ∀ rest, PyObj.run (seq (seq (assign (fun (env : EBBMotionWrap_motors_enable_Env) v => { env with motor_res := v })
              (fun fuel env => mcall0 (EBBMotionWrap_motors_query_enabled fuel)))
              (seq EBBMotionWrap_motors_enable_if4 (seq EBBMotionWrap_motors_enable_if5 (seq EBBMotionWrap_motors_enable_if6
                EBBMotionWrap_motors_enable_if7)))) rest) fuel ⟨.int a, .int b, .int 0, .unbound⟩ w1
              = PyObj.run (seq EBBMotionWrap_motors_enable_if7 rest) fuel
                ⟨.int a, .int b, .int (Ebb3.oldRes m0 m1), .tuple [.int m0, .int m1]⟩ w2 := by
            intro rest
            unfold PyObj.run
            congr 1
            unfold seq
            have h4 : EBBMotionWrap_motors_enable_if4 fuel ⟨.int a, .int b, .int 0, .tuple [.int m0, .int m1]⟩ w2
                = .norm ⟨.int a, .int b, .int 0, .tuple [.int m0, .int m1]⟩ w2 := by
              unfold EBBMotionWrap_motors_enable_if4
              simp only [ifte, hlt, app1_ok, op_is_none, isNone, ofP_ok, ok_apply, truthy_bool, Bool.false_eq_true, ↓reduceIte, pass]
            have h5 : EBBMotionWrap_motors_enable_if5 fuel ⟨.int a, .int b, .int 0, .tuple [.int m0, .int m1]⟩ w2
                = .norm ⟨.int a, .int b, .int (if m1 ≠ 0 then m1 else 0), .tuple [.int m0, .int m1]⟩ w2 := by
              unfold EBBMotionWrap_motors_enable_if5
              simp only [ifte, hlt, app2_ok, hg1', op_ne, pyEq, ofP_ok, ok_apply, truthy_bool, assign, pass]
              by_cases h : m1 = 0
              · simp [h]
              · simp [h, beq_eq_false_iff_ne.mpr h]
            have h6 : ∀ x : Int, EBBMotionWrap_motors_enable_if6 fuel ⟨.int a, .int b, .int x, .tuple [.int m0, .int m1]⟩ w2
                = .norm ⟨.int a, .int b, .int (if m0 ≠ 0 then m0 else x), .tuple [.int m0, .int m1]⟩ w2 := by
              intro x
              unfold EBBMotionWrap_motors_enable_if6
              simp only [ifte, hlt, app2_ok, hg0, op_ne, pyEq, ofP_ok, ok_apply, truthy_bool, assign, pass]
              by_cases h : m0 = 0
              · simp [h]
              · simp [h, beq_eq_false_iff_ne.mpr h]
            have e3' : assign (fun (env : EBBMotionWrap_motors_enable_Env) v => { env with motor_res := v })
                (fun fuel env => mcall0 (EBBMotionWrap_motors_query_enabled fuel)) fuel ⟨.int a, .int b, .int 0, .unbound⟩ w1
                = .norm ⟨.int a, .int b, .int 0, .tuple [.int m0, .int m1]⟩ w2 := e3
            simp only [e3', h4, h5, h6]
            have : (if m0 ≠ 0 then m0 else if m1 ≠ 0 then m1 else 0) = Ebb3.oldRes m0 m1 := rfl
            rw [this]
          rw [hstep]
          have h7 := optCmd_stmt fuel hf (Ebb3.emText b b) (emText_ascii b b)
            (⟨.int a, .int b, .int (Ebb3.oldRes m0 m1), .tuple [.int m0, .int m1]⟩ : EBBMotionWrap_motors_enable_Env) w2 hg2
            (fun fuel env => app2 op_ne (load env.old_res) (load env.resolution_2))
            (fun fuel env => fstr [ok (.str ['E', 'M', ',']), load env.resolution_2, ok (.str [',']), load env.resolution_2])
            (!(Ebb3.oldRes m0 m1 == b)) (Ebb3.oldRes m0 m1 ≠ b) (by
              by_cases h : Ebb3.oldRes m0 m1 = b
              · simp [h]
              · simp [h, beq_eq_false_iff_ne.mpr h]) (by
              simp only [load_int, app2_ok, op_ne, pyEq, ofP_ok]) (by
              simp only [load_int, Ebb3.emText]; fstr_eval)
          rw [Ebb3.bind_apply]
          generalize (if Ebb3.oldRes m0 m1 ≠ b then Ebb3.cmd_ Ebb3.srcParams Ebb3.scriptDev (Ebb3.emText b b) else pure ()) (absWorld w2) = r3 at h7 ⊢
          obtain ⟨res3, aw3⟩ := r3
          cases res3 with
          | error ex =>
            obtain ⟨w3, e5, e6, hg3⟩ := h7
            unfold PyObj.run EBBMotionWrap_motors_enable_if7
            rw [seq_exc e5]
            exact ⟨rfl, e6, hg3⟩
          | ok u3 =>
            obtain ⟨w3, e5, e6, hg3⟩ := h7
            have e5' : EBBMotionWrap_motors_enable_if7 fuel ⟨.int a, .int b, .int (Ebb3.oldRes m0 m1), .tuple [.int m0, .int m1]⟩ w2
                = .norm ⟨.int a, .int b, .int (Ebb3.oldRes m0 m1), .tuple [.int m0, .int m1]⟩ w3 := e5
            rw [run_seq_norm e5']
            simp only
            rw [← e6]
            exact me_final fuel hf a b _ _ w3 hg3
    · rw [if_neg hc]
      rw [run_seq_norm (env' := ⟨.int a, .int b, .unbound, .unbound⟩) (w' := w1) (by
        simp only [ifte, hcond, ok_apply, hc, decide_false, truthy_bool, Bool.false_eq_true, ↓reduceIte, pass])]
      exact me_final fuel hf a b _ _ w1 hg1

end Ebb3Gen
end Plotink
