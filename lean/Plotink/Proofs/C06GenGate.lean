import Plotink.Proofs.C06GenLegacy
import Plotink.Gen.ebb_motion_servo_timeout
import Plotink.Gen.ebb_serial_min_version
import Plotink.Gen.ebb_serial_queryVersion
/-! # C06 over the regenerated code, part 3: the firmware-version gate of the legacy layer

`servo_timeout` (and `queryVoltage`) first call `ebb_serial.min_version(port, "<minimum>")`, which transmits the version
query `V` and decides from the reply.  Whatever the reply, the only transmission of the gate is that one query
(`gate_eval`), and the helper transmits its command exactly when the gate returned `True`. -/
namespace Plotink
namespace C06Gen
open PyObj Gen
set_option linter.unusedSimpArgs false
set_option linter.unusedVariables false

theorem lit_V : "V".toList = ['V'] := by decide

/-- `queryVersion(port)` in the domain: `V\r` is written once, a `str` comes back -/
theorem queryVersion_dom (fuel : Nat) (hf : 101 ≤ fuel) (w : World NoObj) (hd : Dom w.port) :
    ∃ reply w', ebb_serial_queryVersion fuel .port w = .val (.str reply) w' ∧
      w'.port.log = w.port.log ++ [(C06.Cmd.wire C06.versionQuery).toList] ∧ Dom w'.port := by
  have hv : (C06.Cmd.wire C06.versionQuery).toList = ['V', '\r'] := by
    simp only [C06.versionQuery, wire_toList, lit_V, argChars, List.cons_append, List.nil_append]
  obtain ⟨p', s, hl, hd', h⟩ := ioQuery_dom fuel hf ['V', '\r'] (by decide) (.bool true) w hd
  refine ⟨s, { w with port := p' }, ?_, by rw [hv]; exact hl, hd'⟩
  unfold ebb_serial_queryVersion ebb_serial_queryVersion_main
  simp only [PyObj.run, return_, h]

/-- the decision layer of `min_version` touches nothing: after the version query returned `reply` in world `w'`, the
call returns `None` (no version marker), a `bool`, or raises `InvalidVersion` — in that same world -/
theorem gate_eval (fuel : Nat) (thr reply : List Char) (w w' : World NoObj)
    (hq : ebb_serial_queryVersion fuel .port w = .val (.str reply) w') :
    ebb_serial_min_version fuel .port (.str thr) w = .val .none w' ∨
    (∃ b, ebb_serial_min_version fuel .port (.str thr) w = .val (.bool b) w') ∨
    ebb_serial_min_version fuel .port (.str thr) w = .exc .invalidVersion w' := by
  unfold ebb_serial_min_version ebb_serial_min_version_main ebb_serial_min_version_if1
  simp only [PyObj.run, block_cons2, block_one]
  have hguard : ∀ (A B : Stmt NoObj ebb_serial_min_version_Env) (env : ebb_serial_min_version_Env) (v : World NoObj),
      env.port_name = .port →
      ifte (fun fuel env => app1 op_is_not_none (ok env.port_name)) A B fuel env v = A fuel env v := by
    intro A B env v h
    simp only [ifte, h, app1_ok, op_is_not_none, isNone, ofP_ok, ok_apply, truthy_bool, Bool.not_false, ↓reduceIte]
  rw [seq, hguard _ _ _ _ rfl]
  rw [seq_norm (env' := ⟨.port, .str thr, .str reply⟩) (w' := w') (by
    simp only [assign, mcall1_ok_apply, hq, ofOut_val])]
  cases hs : Ebb3.splitSub1 ['F', 'i', 'r', 'm', 'w', 'a', 'r', 'e', ' ', 'V', 'e', 'r', 's', 'i', 'o', 'n', ' '] reply with
  | none =>
    rw [seq_norm (env' := ⟨.port, .str thr, .list [.str reply]⟩) (w' := w') (by
      simp only [assign, load_str, app1_ok, meth_split1_str, hs, ofP_ok, ok_apply])]
    have hif2 : ebb_serial_min_version_if2 fuel ⟨.port, .str thr, .list [.str reply]⟩ w' = .ret .none w' := by
      unfold ebb_serial_min_version_if2
      simp only [ifte, LegacyGen.load_list, app1_ok, op_len, ofP_ok, app2_ok, op_gt, ofOptBool, ltVal, intOf, ok_apply, truthy_bool,
        List.length_singleton, return_]
      rfl
    rw [seq_ret hif2]
    exact Or.inl rfl
  | some ab =>
    obtain ⟨a, b⟩ := ab
    rw [seq_norm (env' := ⟨.port, .str thr, .list [.str a, .str b]⟩) (w' := w') (by
      simp only [assign, load_str, app1_ok, meth_split1_str, hs, ofP_ok, ok_apply])]
    have hif2 : ebb_serial_min_version_if2 fuel ⟨.port, .str thr, .list [.str a, .str b]⟩ w'
        = .norm ⟨.port, .str thr, .str b⟩ w' := by
      unfold ebb_serial_min_version_if2
      have hidx : op_getitem (.list [.str a, .str b]) (.int 1) = .ok (.str b) := rfl
      simp only [ifte, LegacyGen.load_list, app1_ok, op_len, ofP_ok, app2_ok, op_gt, ofOptBool, ltVal, intOf, ok_apply, truthy_bool,
        List.length_cons, List.length_nil, assign, hidx]
      rfl
    rw [seq_norm hif2]
    rw [seq_norm (env' := ⟨.port, .str thr, .str (Ebb3.strip b)⟩) (w' := w') (by
      simp only [assign, load_str, app1_ok, meth_strip, ofP_ok, ok_apply])]
    unfold ebb_serial_min_version_if3
    rw [seq]
    simp only [ifte, load_str, app1_ok, b_parse_version]
    cases hv : Ebb3.parseRelease (Ebb3.strip b) with
    | none =>
      simp only [ofP_error, app2, bind_raise, raise_apply]
      first | exact Or.inr (Or.inr rfl) | exact Or.inr (Or.inr trivial)
    | some v =>
      cases hg : Ebb3.parseRelease thr with
      | none =>
        simp only [ofP_ok, ofP_error, app2, bind_ok, bind_raise, raise_apply]
        first | exact Or.inr (Or.inr rfl) | exact Or.inr (Or.inr trivial)
      | some g =>
        simp only [ofP_ok, app2_ok, op_ge, ofOptBool, leVal, ok_apply, truthy_bool]
        cases Ebb3.vle g v
        · simp only [Bool.false_eq_true, ↓reduceIte, pass, return_, ok_apply]
          exact Or.inr (Or.inl ⟨false, rfl⟩)
        · simp only [↓reduceIte, return_, ok_apply]
          exact Or.inr (Or.inl ⟨true, rfl⟩)

/-- the text `servo_timeout` formats: `SR,<ms>` or `SR,<ms>,<state>` -/
def srCmd (ms : Int) (st : Option Int) : C06.Cmd := ⟨"SR", ms :: st.toList⟩

theorem servo_if3 (fuel : Nat) (ms : Int) (st : Option Int) (vb so : Val) (w : World NoObj) :
    ebb_motion_servo_timeout_if3 fuel ⟨.port, .int ms, encOpt st, vb, so⟩ w
      = .norm ⟨.port, .int ms, encOpt st, vb, .str (srCmd ms st).wire.toList⟩ w := by
  unfold ebb_motion_servo_timeout_if3 srCmd
  cases st with
  | none =>
    have htext : (format_ [FmtPart.lit ['S', 'R', ','], FmtPart.arg 0, FmtPart.lit ['\r']] [ok (.int ms)] : Eff NoObj)
        = ok (.str (C06.Cmd.wire ⟨"SR", [ms]⟩).toList) := by
      simp only [format_, evalList_cons_ok, evalList_nil, renderFmt, List.getElem?_cons_zero, List.getElem?_cons_succ, Option.map_some, strOf, wire_toList, argChars, showInt_0, showInt_1, showInt_4, showInt_5, showInt_11, showInt_12, List.cons_append, List.nil_append, List.append_assoc, List.append_nil, lit_SR]
    simp only [encOpt, ifte, app1_ok, op_is_none, isNone, ofP_ok, ok_apply, truthy_bool, ↓reduceIte, assign, htext, Option.toList]
  | some q =>
    have htext : (format_ [FmtPart.lit ['S', 'R', ','], FmtPart.arg 0, FmtPart.lit [','], FmtPart.arg 1, FmtPart.lit ['\r']]
        [ok (.int ms), ok (.int q)] : Eff NoObj) = ok (.str (C06.Cmd.wire ⟨"SR", [ms, q]⟩).toList) := by
      simp only [format_, evalList_cons_ok, evalList_nil, renderFmt, List.getElem?_cons_zero, List.getElem?_cons_succ, Option.map_some, strOf, wire_toList, argChars, showInt_0, showInt_1, showInt_4, showInt_5, showInt_11, showInt_12, List.cons_append, List.nil_append, List.append_assoc, List.append_nil, lit_SR]
    simp only [encOpt, ifte, app1_ok, op_is_none, isNone, ofP_ok, ok_apply, truthy_bool, Bool.false_eq_true, ↓reduceIte, assign, htext,
      Option.toList]

theorem legacyEmit_servo (fwOk : Bool) (ms : Int) (st : Option Int) :
    C06.legacyEmit true fwOk (.servoTimeout ms st) = some (C06.versionQuery :: (if fwOk then [srCmd ms st] else [])) := by
  cases st <;> cases fwOk <;> simp [C06.legacyEmit, C06.legacyEmitWith, srCmd]

/-- `servo_timeout`: the version query `V`, then — exactly when the gate `min_version(port, "2.6.0")` returned `True` —
`SR,<ms>[,<state>]` (state included whenever supplied, zero too).  `fwOk` is that gate outcome. -/
theorem servo_timeout_bridge (fuel : Nat) (hf : 101 ≤ fuel) (present : Bool) (ms : Int) (st : Option Int) (vb : Val)
    (w : World NoObj) (hd : Dom w.port) :
    ∃ fwOk, Wrote (ebb_motion_servo_timeout fuel (encPort present) (.int ms) (encOpt st) vb w) w
        (C06.legacyEmit present fwOk (.servoTimeout ms st)) ∧
      (present = true → (fwOk = true ↔
        ∃ w', ebb_serial_min_version fuel .port (.str ['2', '.', '6', '.', '0']) w = .val (.bool true) w')) := by
  unfold ebb_motion_servo_timeout ebb_motion_servo_timeout_main ebb_motion_servo_timeout_if1
  cases present with
  | false =>
    refine ⟨true, ⟨w, ?_, ?_⟩, fun h => by cases h⟩
    · simp only [PyObj.run, encPort, ifte, Bool.false_eq_true, ↓reduceIte, app1_ok, op_is_not_none, isNone, ofP_ok, ok_apply,
        truthy_bool, Bool.not_true, pass, outWorld, LegacyGen.outWorld]
    · simp [C06.legacyEmit, C06.legacyEmitWith]
  | true =>
    obtain ⟨reply, w1, hq, hl1, hd1⟩ := queryVersion_dom fuel hf w hd
    simp only [PyObj.run, encPort, ifte, ↓reduceIte, app1_ok, op_is_not_none, isNone, ofP_ok, ok_apply, truthy_bool, Bool.not_false,
      block_cons2, block_one]
    -- what the gate statement does, by the outcome of `min_version`
    have hret : ∀ v, truthy v = false →
        ebb_serial_min_version fuel .port (.str ['2', '.', '6', '.', '0']) w = .val v w1 →
        ebb_motion_servo_timeout_if2 fuel ⟨.port, .int ms, encOpt st, vb, .unbound⟩ w = .ret .none w1 := by
      intro v hv h
      unfold ebb_motion_servo_timeout_if2
      simp only [ifte, not_, PyObj.bind, mcall2_ok_apply, h, ofOut_val, ok_apply, hv, Bool.not_false, truthy_bool, ↓reduceIte, return_]
    rcases gate_eval fuel ['2', '.', '6', '.', '0'] reply w w1 hq with h | ⟨b, h⟩ | h
    · -- no version marker: nothing but the query
      refine ⟨false, ⟨w1, ?_, ?_⟩, fun _ => ⟨fun hh => (by cases hh), fun hh => (by obtain ⟨w', hh⟩ := hh; rw [h] at hh; cases hh)⟩⟩
      · rw [seq_ret (hret .none rfl h)]; rfl
      · rw [hl1, legacyEmit_servo]; simp
    · cases b with
      | false =>
        refine ⟨false, ⟨w1, ?_, ?_⟩, fun _ => ⟨fun hh => (by cases hh), fun hh => (by obtain ⟨w', hh⟩ := hh; rw [h] at hh; cases hh)⟩⟩
        · rw [seq_ret (hret (.bool false) rfl h)]; rfl
        · rw [hl1, legacyEmit_servo]; simp
      | true =>
        have hif2 : ebb_motion_servo_timeout_if2 fuel ⟨.port, .int ms, encOpt st, vb, .unbound⟩ w
            = .norm ⟨.port, .int ms, encOpt st, vb, .unbound⟩ w1 := by
          unfold ebb_motion_servo_timeout_if2
          simp only [ifte, not_, PyObj.bind, mcall2_ok_apply, h, ofOut_val, ok_apply, truthy_bool, Bool.not_true, Bool.false_eq_true,
            ↓reduceIte, pass]
        rw [seq_norm hif2, seq_norm (servo_if3 fuel ms st vb .unbound w1)]
        have hn : PyIO.isAscii (srCmd ms st).wire.toList = true := isAscii_wire "SR" _ (by decide)
        obtain ⟨p2, hl2, _, h2 | ⟨cl, h2⟩⟩ := ioCommand_io fuel hf (srCmd ms st).wire.toList hn vb w1 hd1.1
        · refine ⟨true, ⟨{ w1 with port := p2 }, ?_, ?_⟩, fun _ => ⟨fun _ => ⟨w1, h⟩, fun _ => rfl⟩⟩
          · rw [expr_of (v := .none) (w' := { w1 with port := p2 }) (by simp only [load_str]; exact h2)]; rfl
          · simp only [hl2, hl1, legacyEmit_servo]; simp
        · refine ⟨true, ⟨{ w1 with port := p2 }, ?_, ?_⟩, fun _ => ⟨fun _ => ⟨w1, h⟩, fun _ => rfl⟩⟩
          · rw [expr_exc (c := cl) (w' := { w1 with port := p2 }) (by simp only [load_str]; exact h2)]; rfl
          · simp only [hl2, hl1, legacyEmit_servo]; simp
    · -- the reply carries an unparsable version: `InvalidVersion` escapes after the query
      refine ⟨false, ⟨w1, ?_, ?_⟩, fun _ => ⟨fun hh => (by cases hh), fun hh => (by obtain ⟨w', hh⟩ := hh; rw [h] at hh; cases hh)⟩⟩
      · have hif2 : ebb_motion_servo_timeout_if2 fuel ⟨.port, .int ms, encOpt st, vb, .unbound⟩ w
            = .exc .invalidVersion ⟨.port, .int ms, encOpt st, vb, .unbound⟩ w1 := by
          unfold ebb_motion_servo_timeout_if2
          simp only [ifte, not_, PyObj.bind, mcall2_ok_apply, h, ofOut_exc]
        rw [seq_exc hif2]; rfl
      · rw [hl1, legacyEmit_servo]; simp

end C06Gen
end Plotink
