import Plotink.Proofs.Ebb3GenHelpers
import Plotink.Proofs.Ebb3GenMore
import Plotink.Proofs.C19Gen1
import Plotink.Proofs.Ebb3GenFrameAll

/-! # Bridges of `find_first`, `_get_port_name` and `connect`

The model's `connect` takes the environment of the call as two extra arguments: `found` (what the port search yields)
and `openOk` (does `serial.Serial(...)` open).  The regenerated code reads them from `World.ext`.  `PortIn` ties the
two: with no name given, `found` is C19's `findFirst` of the `comports()` list (through `C19Gen.find_first_bridge`);
with a name, it is what `find_named` returns. -/

namespace Plotink
namespace Ebb3Gen
open PyObj Gen
set_option linter.unusedSimpArgs false
set_option linter.unusedVariables false

/-- the port-search inputs of the world, against the `found` argument of the model's `find_first` / `connect` -/
def PortIn (given found : Option Ebb3.Str) (ext : Ext) : Prop :=
  match given with
  | Option.none => ∃ ports : List C19.Port,
      ext.comports = .ok (.list (ports.map LegacyGen.encPort)) ∧ found = C19.Ebb3.findFirst ports
  | some _ => ext.findNamed = encReq found

theorem encOptStr_eq (o : Option Ebb3.Str) : LegacyGen.encOptStr o = encReq o := by cases o <;> rfl

theorem absOpt_encReq (o : Option Ebb3.Str) : absOpt (encReq o) = o := by cases o <;> rfl

theorem isOptStr_encReq (o : Option Ebb3.Str) : IsOptStr (encReq o) := by cases o <;> trivial

theorem objOk_setPortName (o : EBB3_Obj) (ho : ObjOk o) (f : Option Ebb3.Str) :
    ObjOk { o with port_name := encReq f } :=
  ⟨ho.port, ho.err, ho.version, ho.version_parsed, ho.name, ho.caller, isOptStr_encReq f⟩

/-- **`find_first`**: the scan of `comports()` (C19) stores what the model's `find_first` is given -/
theorem find_first_sim (fuel : Nat) (ports : List C19.Port) (w : World EBB3_Obj) (hg : Good w)
    (hc : w.ext.comports = .ok (.list (ports.map LegacyGen.encPort))) :
    Sim (EBB3_find_first fuel w)
      (Ebb3.run Ebb3.srcParams Ebb3.scriptDev (.find_first (C19.Ebb3.findFirst ports)) (absWorld w)) := by
  rw [C19Gen.find_first_bridge fuel ports w hc, encOptStr_eq]
  refine ⟨rfl, ?_, ⟨objOk_setPortName _ hg.obj _, hg.ioR, hg.ioW, hg.ascii⟩⟩
  show _ = (Ebb3.World.mk _ _ _ _)
  simp only [absWorld, absSt, absOpt_encReq]

theorem find_first_bridge' (fuel : Nat) (found : Option Ebb3.Str) (w : World EBB3_Obj) (hg : Good w)
    (hin : PortIn Option.none found w.ext) :
    Sim (EBB3_find_first fuel w) (Ebb3.run Ebb3.srcParams Ebb3.scriptDev (.find_first found) (absWorld w)) := by
  obtain ⟨ports, hc, hf⟩ := hin
  rw [hf]
  exact find_first_sim fuel ports w hg hc

/-! ## `_get_port_name` -/

/-- what `_get_port_name(given)` does to the attributes -/
def gpnObj (given found : Option Ebb3.Str) (o : EBB3_Obj) : EBB3_Obj :=
  if found.isNone then
    recErr (match given with | Option.none => Ebb3.Msg.noDevice | some g => Ebb3.Msg.noNamed g)
      { o with port_name := encReq found }
  else { o with port_name := encReq found }

theorem lit_noDevice : Ebb3.Msg.noDevice = ['U', 'n', 'a', 'b', 'l', 'e', ' ', 't', 'o', ' ', 'l', 'o', 'c', 'a', 't', 'e', ' ', 'd', 'e', 'v', 'i', 'c', 'e', ' ', 'o', 'n', ' ', 'U', 'S', 'B'] := by decide

theorem msg_noNamed (g : List Char) : Ebb3.Msg.noNamed g = ['U', 'n', 'a', 'b', 'l', 'e', ' ', 't', 'o', ' ', 'l', 'o', 'c', 'a', 't', 'e', ' '] ++ (g ++ [' ', 'o', 'n', ' ', 'U', 'S', 'B']) := by
  have h1 : "Unable to locate ".toList = ['U', 'n', 'a', 'b', 'l', 'e', ' ', 't', 'o', ' ', 'l', 'o', 'c', 'a', 't', 'e', ' '] := by decide
  have h2 : " on USB".toList = [' ', 'o', 'n', ' ', 'U', 'S', 'B'] := by decide
  unfold Ebb3.Msg.noNamed
  rw [h1, h2, List.append_assoc]

theorem getattr_port_name (w : World EBB3_Obj) (ho : ObjOk w.obj) :
    getattr (fun o : EBB3_Obj => o.port_name) w = (.ok w.obj.port_name, w) := by
  have h := ho.port_name
  rw [getattr_apply (by cases hp : w.obj.port_name <;> rw [hp] at h <;> simp_all [IsOptStr])]

theorem gpn_if2 (fuel : Nat) (env : EBB3__get_port_name_Env) (w1 : World EBB3_Obj) (ho : ObjOk w1.obj)
    (found : Option Ebb3.Str) (hpn : w1.obj.port_name = encReq found) :
    EBB3__get_port_name_if2 fuel env w1
      = .norm env { w1 with obj := if found.isNone then recErr Ebb3.Msg.noDevice w1.obj else w1.obj } := by
  unfold EBB3__get_port_name_if2
  cases found with
  | none =>
    simp only [ifte, app1, PyObj.bind, getattr_port_name _ ho, hpn, encReq, ofP, op_is_none, isNone, ok, truthy, ↓reduceIte,
      expr, mcall1_ok_apply, record_error_eval fuel _ _ ho, ofOut_val, Option.isNone_none, lit_noDevice]
  | some pn =>
    simp only [ifte, app1, PyObj.bind, getattr_port_name _ ho, hpn, encReq, ofP, op_is_none, isNone, ok, truthy, ↓reduceIte,
      Bool.false_eq_true, pass, Option.isNone_some]

theorem gpn_if3 (fuel : Nat) (g : List Char) (w1 : World EBB3_Obj) (ho : ObjOk w1.obj)
    (found : Option Ebb3.Str) (hpn : w1.obj.port_name = encReq found) :
    EBB3__get_port_name_if3 fuel ⟨.str g⟩ w1
      = .norm ⟨.str g⟩ { w1 with obj := if found.isNone then recErr (Ebb3.Msg.noNamed g) w1.obj else w1.obj } := by
  unfold EBB3__get_port_name_if3
  cases found with
  | none =>
    simp only [ifte, app1, PyObj.bind, getattr_port_name _ ho, hpn, encReq, ofP, op_is_none, isNone, ok, truthy, ↓reduceIte,
      expr, mcall1, fstr, evalList, List.map, strOf, List.flatten, List.append_nil,
      record_error_eval fuel _ _ ho, ofOut, Option.isNone_none, msg_noNamed, List.append_eq]
  | some pn =>
    simp only [ifte, app1, PyObj.bind, getattr_port_name _ ho, hpn, encReq, ofP, op_is_none, isNone, ok, truthy, ↓reduceIte,
      Bool.false_eq_true, pass, Option.isNone_some]

theorem get_port_name_eval (fuel : Nat) (given found : Option Ebb3.Str) (w : World EBB3_Obj) (hg : Good w)
    (hin : PortIn given found w.ext) :
    EBB3__get_port_name fuel (encReq given) w = .val .none { w with obj := gpnObj given found w.obj } := by
  unfold EBB3__get_port_name EBB3__get_port_name_main EBB3__get_port_name_if1
  have ho' : ObjOk (World.obj { w with obj := { w.obj with port_name := encReq found } }) :=
    objOk_setPortName w.obj hg.obj found
  cases given with
  | none =>
    obtain ⟨ports, hc, hf⟩ := hin
    have h1 : expr (fun fuel (env : EBB3__get_port_name_Env) => mcall0 (EBB3_find_first fuel)) fuel ⟨.none⟩ w
        = .norm ⟨.none⟩ { w with obj := { w.obj with port_name := encReq found } } := by
      simp only [expr, mcall0_apply, C19Gen.find_first_bridge fuel ports w hc, encOptStr_eq, ofOut_val, hf]
    simp only [encReq, PyObj.run, ifte, app1_ok, op_is_none, isNone, ofP_ok, ok_apply, truthy_bool, ↓reduceIte]
    rw [block_cons2, block_one, seq_norm h1, gpn_if2 fuel _ _ ho' found rfl]
    unfold gpnObj
    cases found <;> rfl
  | some g =>
    have hf : w.ext.findNamed = encReq found := hin
    have h1 : setattr (fun (o : EBB3_Obj) v => { o with port_name := v })
        (fun fuel (env : EBB3__get_port_name_Env) => eff1 ext_find_named (ok env.given_name)) fuel ⟨.str g⟩ w
        = .norm ⟨.str g⟩ { w with obj := { w.obj with port_name := encReq found } } := by
      simp only [setattr, eff1, PyObj.bind, ok, ext_find_named, hf]
    simp only [encReq, PyObj.run, ifte, app1_ok, op_is_none, isNone, ofP_ok, ok_apply, truthy_bool, Bool.false_eq_true,
      ↓reduceIte]
    rw [block_cons2, block_one, seq_norm h1, gpn_if3 fuel g _ ho' found rfl]
    unfold gpnObj
    cases found <;> rfl

theorem objOk_gpn (given found : Option Ebb3.Str) (o : EBB3_Obj) (ho : ObjOk o) : ObjOk (gpnObj given found o) := by
  unfold gpnObj
  split
  · exact objOk_recErr _ _ (objOk_setPortName o ho found)
  · exact objOk_setPortName o ho found

theorem gpn_port (given found : Option Ebb3.Str) (o : EBB3_Obj) : (gpnObj given found o).port = o.port := by
  unfold gpnObj; split
  · rw [recErr_port]
  · rfl

theorem gpn_port_name (given found : Option Ebb3.Str) (o : EBB3_Obj) :
    (gpnObj given found o).port_name = encReq found := by
  unfold gpnObj recErr; split
  · split <;> rfl
  · rfl

theorem getPortName_sim (given found : Option Ebb3.Str) (w : World EBB3_Obj) (hg : Good w) :
    (Ebb3.getPortName given found : Ebb3.M Ebb3.Script Unit) (absWorld w)
      = (.ok (), absWorld { w with obj := gpnObj given found w.obj }) := by
  have ho' := objOk_setPortName w.obj hg.obj found
  have h1 : (Ebb3.M.modifySt (fun st => { st with portName := found }) : Ebb3.M Ebb3.Script Unit) (absWorld w)
      = (.ok (), absWorld { w with obj := { w.obj with port_name := encReq found } }) := by
    simp only [Ebb3.modifySt_apply, absWorld, absSt, absOpt_encReq]
  unfold Ebb3.getPortName gpnObj
  refine (Ebb3.bind_ok h1).trans ?_
  cases found with
  | none =>
    simp only [Option.isNone_none, ↓reduceIte, Ebb3.recordError, Ebb3.modifySt_apply, absWorld, absSt_recErr _ _ ho']
    rfl
  | some pn => simp only [Option.isNone_some, Bool.false_eq_true, ↓reduceIte, Ebb3.pure_apply]

/-! ## pieces of `connect` -/

theorem lit_EBB : "EBB".toList = ['E', 'B', 'B'] := by decide
theorem lit_vcr : "v\r".toList = ['v', '\r'] := by decide
theorem lit_CU10 : "CU,10,1\r".toList = ['C', 'U', ',', '1', '0', ',', '1', '\r'] := by decide

/-- `if str_version: if "EBB" in str_version: verified = True` -/
theorem conn_if3 (fuel : Nat) (gn cl vf em : Val) (s : List Char) (w : World EBB3_Obj) :
    EBB3_connect_if3 fuel ⟨gn, cl, vf, .str s, em⟩ w
      = .norm ⟨gn, cl, if Ebb3.isEbbReply s then .bool true else vf, .str s, em⟩ w := by
  unfold EBB3_connect_if3 EBB3_connect_if4 Ebb3.isEbbReply
  rw [lit_EBB]
  simp only [ifte, load_str, ok_apply, truthy_str]
  by_cases hs : s.isEmpty = true
  · simp [hs, pass]
  · have hs' : s.isEmpty = false := by simpa using hs
    simp only [hs', Bool.not_false, ↓reduceIte, app2_ok, op_in, ofP_ok, ok_apply, truthy_bool, Bool.true_and]
    cases Ebb3.hasSub ['E', 'B', 'B'] s <;> simp [assign, pass, ok]

theorem conn_if6 (fuel : Nat) (gn cl vf em : Val) (s : List Char) (w : World EBB3_Obj) :
    EBB3_connect_if6 fuel ⟨gn, cl, vf, .str s, em⟩ w
      = .norm ⟨gn, cl, if Ebb3.isEbbReply s then .bool true else vf, .str s, em⟩ w := conn_if3 fuel gn cl vf em s w

/-- the write statement of a literal text -/
abbrev wStmt {σ : Type} (text : List Char) : Stmt EBB3_Obj σ :=
  expr (fun fuel env => eff2 meth_write (getattr (·.port))
    (app2 meth_encode (ok (.str text)) (ok (.str ['a', 's', 'c', 'i', 'i']))))

theorem wStmt_eval {σ : Type} (text : List Char) (hasc : PyIO.isAscii text = true) (fuel : Nat) (env : σ)
    (w : World EBB3_Obj) (hp : w.obj.port = .port) (r : Res × World EBB3_Obj)
    (hr : meth_write .port (.bytes text) w = r) :
    (fun (fuel : Nat) (env : σ) => eff2 meth_write (getattr (·.port))
      (app2 meth_encode (ok (.str text)) (ok (.str ['a', 's', 'c', 'i', 'i'])))) fuel env w = r := by
  have hga : getattr (fun o : EBB3_Obj => o.port) w = (.ok .port, w) := by
    rw [getattr_apply (by simp [hp])]; simp only [hp]
  subst hr
  simp only [app2_ok, ofP_ok, meth_encode, hasc, ↓reduceIte, eff2, PyObj.bind, hga, ok_apply]

/-- `str_version = self.port.readline().decode('ascii').strip()` -/
abbrev rStmt : Stmt EBB3_Obj EBB3_connect_Env :=
  assign (fun env v => { env with str_version := v }) (fun fuel env => readX)

/-- one identification probe (`write("v\r")`, read) in front of `rest` -/
theorem probe_stmt (fuel : Nat) (env : EBB3_connect_Env) (w : World EBB3_Obj) (hp : w.obj.port = .port) (hg : Good w)
    (rest : Stmt EBB3_Obj EBB3_connect_Env) :
    (∃ s w', Ebb3.probe Ebb3.scriptDev (absWorld w) = (.ok (some s), absWorld w') ∧
      seq (wStmt ['v', '\r']) (seq rStmt rest) fuel env w = rest fuel { env with str_version := .str s } w' ∧
      w'.obj = w.obj ∧ Good w') ∨
    (∃ c w', IoClass c ∧ Ebb3.probe Ebb3.scriptDev (absWorld w) = (.ok Option.none, absWorld w') ∧
      seq (wStmt ['v', '\r']) (seq rStmt rest) fuel env w = .exc c env w' ∧ w'.obj = w.obj ∧ Good w') := by
  unfold Ebb3.probe
  rw [lit_vcr]
  rcases write_sim ['v', '\r'] w hp hg with ⟨w1, e1, e2, ho1, hg1⟩ | ⟨c, w1, hc, e1, e2, ho1, hg1⟩
  · have hp1 : w1.obj.port = .port := by rw [ho1]; exact hp
    rw [seq_norm (expr_of (wStmt_eval _ (by decide) fuel env w hp _ e1))]
    rcases read_sim w1 hp1 hg1 with ⟨c, w2, hc, r1, r2, ho2, hg2, _⟩ | ⟨l, w2, r1, r2, ho2, hg2, _⟩
    · right
      refine ⟨c, w2, hc, ?_, ?_, ho2.trans ho1, hg2⟩
      · rw [Ebb3.bind_ok e2]
        simp only [↓reduceIte]
        rw [Ebb3.bind_ok r2]
        rfl
      · rw [seq_exc (assign_exc r1)]
    · left
      refine ⟨Ebb3.strip l, w2, ?_, ?_, ho2.trans ho1, hg2⟩
      · rw [Ebb3.bind_ok e2]
        simp only [↓reduceIte]
        rw [Ebb3.bind_ok r2]
        rfl
      · rw [seq_norm (assign_of r1)]
  · right
    refine ⟨c, w1, hc, ?_, ?_, ho1, hg1⟩
    · rw [Ebb3.bind_ok e2]
      simp only [Bool.false_eq_true, ↓reduceIte]
      rfl
    · rw [seq_exc (expr_exc (wStmt_eval _ (by decide) fuel env w hp _ e1))]

/-- the attributes after `record_error(A + port_name + ")")` and `disconnect()` -/
def recDisc (m : List Char) (w : World EBB3_Obj) : World EBB3_Obj :=
  { w with obj := { recErr m w.obj with port := .none } }

theorem good_recDisc (m : List Char) (w : World EBB3_Obj) (hg : Good w) : Good (recDisc m w) :=
  ⟨objOk_disc _ (objOk_recErr m _ hg.obj), hg.ioR, hg.ioW, hg.ascii⟩

theorem recDisc_model (m : List Char) (w : World EBB3_Obj) (hg : Good w) :
    ((Ebb3.recordError m >>= fun _ => Ebb3.disconnectM) : Ebb3.M Ebb3.Script Unit) (absWorld w)
      = (.ok (), absWorld (recDisc m w)) := by
  have h1 : (Ebb3.recordError m : Ebb3.M Ebb3.Script Unit) (absWorld w)
      = (.ok (), absWorld { w with obj := recErr m w.obj }) := by
    simp only [Ebb3.recordError, Ebb3.modifySt_apply, absWorld, absSt_recErr m _ hg.obj]
  rw [Ebb3.bind_ok h1]
  rfl

theorem recdisc_stmt {σ : Type} (fuel : Nat) (env : σ) (A pn : List Char) (w : World EBB3_Obj) (hg : Good w)
    (hpn : w.obj.port_name = .str pn) :
    seq (expr (fun fuel (env : σ) => mcall1 (EBB3_record_error fuel)
          (fstr [ok (Val.str A), getattr (·.port_name), ok (Val.str [')'])])))
        (expr (fun fuel env => mcall0 (EBB3_disconnect fuel))) fuel env w
      = .norm env (recDisc (A ++ (pn ++ [')'])) w) := by
  have h1 : expr (fun fuel (env : σ) => mcall1 (EBB3_record_error fuel)
        (fstr [ok (Val.str A), getattr (·.port_name), ok (Val.str [')'])])) fuel env w
      = .norm env { w with obj := recErr (A ++ (pn ++ [')'])) w.obj } := by
    simp only [expr, mcall1, fstr, evalList, PyObj.bind, ok, getattr_port_name w hg.obj, hpn, List.map, strOf,
      List.flatten, List.append_nil, record_error_eval fuel _ w hg.obj, ofOut, List.append_eq]
  rw [seq_norm h1]
  have ho1 : ObjOk (World.obj { w with obj := recErr (A ++ (pn ++ [')'])) w.obj }) := objOk_recErr _ _ hg.obj
  simp only [expr, mcall0_apply, disconnect_eval fuel _ ho1, ofOut_val]
  rfl

theorem recdisc_rest {σ : Type} (fuel : Nat) (env : σ) (A pn : List Char) (w : World EBB3_Obj) (hg : Good w)
    (hpn : w.obj.port_name = .str pn) (rest : Stmt EBB3_Obj σ) :
    seq (expr (fun fuel (env : σ) => mcall1 (EBB3_record_error fuel)
          (fstr [ok (Val.str A), getattr (·.port_name), ok (Val.str [')'])])))
        (seq (expr (fun fuel env => mcall0 (EBB3_disconnect fuel))) rest) fuel env w
      = rest fuel env (recDisc (A ++ (pn ++ [')'])) w) := by
  have h := recdisc_stmt fuel env A pn w hg hpn
  unfold seq at h ⊢
  cases h1 : expr (fun fuel (env : σ) => mcall1 (EBB3_record_error fuel)
        (fstr [ok (Val.str A), getattr (·.port_name), ok (Val.str [')'])])) fuel env w with
  | norm env' w' =>
    rw [h1] at h
    simp only at h ⊢
    rw [h]
  | ret v w' => rw [h1] at h; simp at h
  | exc c env' w' => rw [h1] at h; simp at h
  | brk env' w' => rw [h1] at h; simp at h
  | cont env' w' => rw [h1] at h; simp at h
  | fuelOut => rw [h1] at h; simp at h

theorem recordError_model (m : List Char) (w : World EBB3_Obj) (hg : Good w) :
    (Ebb3.recordError m : Ebb3.M Ebb3.Script Unit) (absWorld w)
      = (.ok (), absWorld { w with obj := recErr m w.obj }) := by
  simp only [Ebb3.recordError, Ebb3.modifySt_apply, absWorld, absSt_recErr m _ hg.obj]

theorem lit_usbTestA : "Error testing USB connection (port name: ".toList = ['E', 'r', 'r', 'o', 'r', ' ', 't', 'e', 's', 't', 'i', 'n', 'g', ' ', 'U', 'S', 'B', ' ', 'c', 'o', 'n', 'n', 'e', 'c', 't', 'i', 'o', 'n', ' ', '(', 'p', 'o', 'r', 't', ' ', 'n', 'a', 'm', 'e', ':', ' '] := by decide
theorem lit_connFailA : "Failed to connect via USB (port name: ".toList = ['F', 'a', 'i', 'l', 'e', 'd', ' ', 't', 'o', ' ', 'c', 'o', 'n', 'n', 'e', 'c', 't', ' ', 'v', 'i', 'a', ' ', 'U', 'S', 'B', ' ', '(', 'p', 'o', 'r', 't', ' ', 'n', 'a', 'm', 'e', ':', ' '] := by decide
theorem lit_rpar : ")".toList = [')'] := by decide
theorem lit_fwA : "Firmware version (".toList = ['F', 'i', 'r', 'm', 'w', 'a', 'r', 'e', ' ', 'v', 'e', 'r', 's', 'i', 'o', 'n', ' ', '('] := by decide
theorem lit_fwB : ") not supported.\nFirmware ".toList = [')', ' ', 'n', 'o', 't', ' ', 's', 'u', 'p', 'p', 'o', 'r', 't', 'e', 'd', '.', '\n', 'F', 'i', 'r', 'm', 'w', 'a', 'r', 'e', ' '] := by decide
theorem lit_fwC : " or newer is required.\nVisit https://bantam.tools/ndfw to update your firmware.".toList = [' ', 'o', 'r', ' ', 'n', 'e', 'w', 'e', 'r', ' ', 'i', 's', ' ', 'r', 'e', 'q', 'u', 'i', 'r', 'e', 'd', '.', '\n', 'V', 'i', 's', 'i', 't', ' ', 'h', 't', 't', 'p', 's', ':', '/', '/', 'b', 'a', 'n', 't', 'a', 'm', '.', 't', 'o', 'o', 'l', 's', '/', 'n', 'd', 'f', 'w', ' ', 't', 'o', ' ', 'u', 'p', 'd', 'a', 't', 'e', ' ', 'y', 'o', 'u', 'r', ' ', 'f', 'i', 'r', 'm', 'w', 'a', 'r', 'e', '.'] := by decide
theorem lit_None : "None".toList = ['N', 'o', 'n', 'e'] := by decide

theorem msg_usbTest (pn : List Char) : Ebb3.Msg.usbTest pn = ['E', 'r', 'r', 'o', 'r', ' ', 't', 'e', 's', 't', 'i', 'n', 'g', ' ', 'U', 'S', 'B', ' ', 'c', 'o', 'n', 'n', 'e', 'c', 't', 'i', 'o', 'n', ' ', '(', 'p', 'o', 'r', 't', ' ', 'n', 'a', 'm', 'e', ':', ' '] ++ (pn ++ [')']) := by
  unfold Ebb3.Msg.usbTest
  rw [lit_usbTestA, lit_rpar, List.append_assoc]

theorem msg_connectFail (pn : List Char) : Ebb3.Msg.connectFail pn = ['F', 'a', 'i', 'l', 'e', 'd', ' ', 't', 'o', ' ', 'c', 'o', 'n', 'n', 'e', 'c', 't', ' ', 'v', 'i', 'a', ' ', 'U', 'S', 'B', ' ', '(', 'p', 'o', 'r', 't', ' ', 'n', 'a', 'm', 'e', ':', ' '] ++ (pn ++ [')']) := by
  unfold Ebb3.Msg.connectFail
  rw [lit_connFailA, lit_rpar, List.append_assoc]

/-- the handler of the `try:` block -/
theorem conn_handler (fuel : Nat) (env : EBB3_connect_Env) (c : PyIO.ExcClass) (hc : IoClass c)
    (w : World EBB3_Obj) (hg : Good w) (pn : List Char) (hpn : w.obj.port_name = .str pn) :
    dispatch EBB3_connect_handlers1 c fuel env w = .norm env (recDisc (Ebb3.Msg.usbTest pn) w) := by
  rw [msg_usbTest, ← recdisc_stmt fuel env _ pn w hg hpn]
  unfold EBB3_connect_handlers1
  have : PyIO.catches [.serialException, .osError, .runtimeError, .osError] c = true := hc
  simp only [dispatch, Handler.matches, this, ↓reduceIte, runHandler, block_cons2, block_one]

theorem probeFail_model (pn : List Char) (w : World EBB3_Obj) (hg : Good w) :
    (Ebb3.probeFail pn : Ebb3.M Ebb3.Script (Option Ebb3.Str)) (absWorld w)
      = (.ok Option.none, absWorld (recDisc (Ebb3.Msg.usbTest pn) w)) := by
  unfold Ebb3.probeFail
  have h := recDisc_model (Ebb3.Msg.usbTest pn) w hg
  rw [Ebb3.bind_apply] at h
  rw [Ebb3.bind_apply]
  cases hr : (Ebb3.recordError (Ebb3.Msg.usbTest pn) : Ebb3.M Ebb3.Script Unit) (absWorld w) with
  | mk r aw =>
    rw [hr] at h
    cases r with
    | error e => simp at h
    | ok u =>
      simp only at h ⊢
      rw [Ebb3.bind_ok h]
      rfl

theorem recDisc_port_name (m : List Char) (w : World EBB3_Obj) : (recDisc m w).obj.port_name = w.obj.port_name := by
  unfold recDisc recErr
  split <;> rfl

theorem ioClass_serial : IoClass .serialException := rfl

theorem portReset_model (aw : Ebb3.World Ebb3.Script) : Ebb3.portReset Ebb3.scriptDev aw = (.ok (), aw) := rfl

/-- the second probe of the `try:` block (`if not verified: …`) when the first reply did not identify an EBB -/
theorem conn_if5_unverified (fuel : Nat) (gn cl em : Val) (s1 : List Char) (w : World EBB3_Obj)
    (hp : w.obj.port = .port) (hg : Good w) :
    (∃ s2 w', Ebb3.probe Ebb3.scriptDev (absWorld w) = (.ok (some s2), absWorld w') ∧
      EBB3_connect_if5 fuel ⟨gn, cl, .bool false, .str s1, em⟩ w
        = .norm ⟨gn, cl, if Ebb3.isEbbReply s2 then .bool true else .bool false, .str s2, em⟩ w' ∧
      w'.obj = w.obj ∧ Good w') ∨
    (∃ c w', IoClass c ∧ Ebb3.probe Ebb3.scriptDev (absWorld w) = (.ok Option.none, absWorld w') ∧
      EBB3_connect_if5 fuel ⟨gn, cl, .bool false, .str s1, em⟩ w = .exc c ⟨gn, cl, .bool false, .str s1, em⟩ w' ∧
      w'.obj = w.obj ∧ Good w') := by
  have hu : EBB3_connect_if5 fuel ⟨gn, cl, .bool false, .str s1, em⟩ w
      = seq (wStmt ['v', '\r']) (seq rStmt EBB3_connect_if6) fuel ⟨gn, cl, .bool false, .str s1, em⟩ w := by
    unfold EBB3_connect_if5
    simp only [ifte, load_bool, not_ok, ok_apply, truthy_bool, Bool.not_false, ↓reduceIte, block_cons2, block_one]
    rfl
  rw [hu]
  rcases probe_stmt fuel ⟨gn, cl, .bool false, .str s1, em⟩ w hp hg EBB3_connect_if6 with
    ⟨s2, w', h1, h2, h3, h4⟩ | ⟨c, w', hc, h1, h2, h3, h4⟩
  · left
    refine ⟨s2, w', h1, ?_, h3, h4⟩
    rw [h2]
    exact conn_if6 fuel gn cl (.bool false) em s2 w'
  · right
    exact ⟨c, w', hc, h1, h2, h3, h4⟩

/-- how the `try:` block of `connect` ends, against the model's `identify` -/
theorem conn_try (fuel : Nat) (gn cl sv0 em : Val) (w : World EBB3_Obj) (hg : Good w) (pn : List Char)
    (hpn : w.obj.port_name = .str pn) :
    ∃ env2 w2, tryExcept EBB3_connect_try1 EBB3_connect_handlers1 fuel ⟨gn, cl, .bool false, sv0, em⟩ w
        = .norm env2 w2 ∧
      env2.given_name = gn ∧ env2.caller = cl ∧ Good w2 ∧ w2.obj.port_name = .str pn ∧
      ((∃ sv, env2.verified = .bool true ∧ env2.str_version = .str sv ∧ w2.obj.port = .port ∧
          Ebb3.identify Ebb3.scriptDev pn w.ext.openOk (absWorld w) = (.ok (some sv), absWorld w2)) ∨
       (env2.verified = .bool false ∧
          Ebb3.identify Ebb3.scriptDev pn w.ext.openOk (absWorld w) = (.ok Option.none, absWorld w2))) := by
  unfold Ebb3.identify
  cases ho : w.ext.openOk with
  | false =>
    have h1 : EBB3_connect_try1 fuel ⟨gn, cl, .bool false, sv0, em⟩ w
        = .exc .serialException ⟨gn, cl, .bool false, sv0, em⟩ w := by
      unfold EBB3_connect_try1
      rw [block_cons2]
      apply seq_exc
      simp only [setattr, eff1, PyObj.bind, getattr_port_name w hg.obj, ext_serial_open, ho, Bool.false_eq_true,
        ↓reduceIte]
    refine ⟨⟨gn, cl, .bool false, sv0, em⟩, recDisc (Ebb3.Msg.usbTest pn) w, ?_, rfl, rfl, good_recDisc _ w hg,
      (recDisc_port_name _ w).trans hpn, Or.inr ⟨rfl, ?_⟩⟩
    · unfold tryExcept
      rw [h1]
      exact conn_handler fuel _ _ ioClass_serial w hg pn hpn
    · simp only [Bool.false_eq_true, ↓reduceIte]
      exact probeFail_model pn w hg
  | true =>
    simp only [↓reduceIte]
    have hg1 : Good { w with obj := { w.obj with port := .port } } :=
      ⟨⟨Or.inl rfl, hg.obj.err, hg.obj.version, hg.obj.version_parsed, hg.obj.name, hg.obj.caller, hg.obj.port_name⟩,
        hg.ioR, hg.ioW, hg.ascii⟩
    generalize hw1 : ({ w with obj := { w.obj with port := .port } } : World EBB3_Obj) = w1 at hg1
    have hp1 : w1.obj.port = .port := by rw [← hw1]
    have hpn1 : w1.obj.port_name = .str pn := by rw [← hw1]; exact hpn
    have hset : setattr (fun (o : EBB3_Obj) v => { o with port := v })
        (fun fuel (env : EBB3_connect_Env) => eff1 ext_serial_open (getattr (·.port_name))) fuel
          ⟨gn, cl, .bool false, sv0, em⟩ w = .norm ⟨gn, cl, .bool false, sv0, em⟩ w1 := by
      simp only [setattr, eff1, PyObj.bind, getattr_port_name w hg.obj, ext_serial_open, ho, ↓reduceIte]
      rw [← hw1]
    have hga1 : getattr (fun o : EBB3_Obj => o.port) w1 = (.ok .port, w1) := by
      rw [getattr_apply (by simp [hp1])]; simp only [hp1]
    have hreset : expr (fun fuel (env : EBB3_connect_Env) => eff1 meth_reset_input_buffer (getattr (·.port))) fuel
          ⟨gn, cl, .bool false, sv0, em⟩ w1 = .norm ⟨gn, cl, .bool false, sv0, em⟩ w1 := by
      simp only [expr, eff1, PyObj.bind, hga1, meth_reset_input_buffer, ok]
    have hm1 : (Ebb3.M.modifySt (fun st => { st with port := true }) : Ebb3.M Ebb3.Script Unit) (absWorld w)
        = (.ok (), absWorld w1) := by rw [← hw1]; rfl
    rw [Ebb3.bind_ok hm1, Ebb3.bind_ok (portReset_model _)]
    have hbody : EBB3_connect_try1 fuel ⟨gn, cl, .bool false, sv0, em⟩ w
        = seq (wStmt ['v', '\r']) (seq rStmt (seq EBB3_connect_if3 EBB3_connect_if5)) fuel
            ⟨gn, cl, .bool false, sv0, em⟩ w1 := by
      unfold EBB3_connect_try1
      rw [block_cons2, seq_norm hset, block_cons2, seq_norm hreset, block_cons2, block_cons2, block_cons2, block_one]
      rfl
    unfold tryExcept
    rw [hbody]
    rcases probe_stmt fuel ⟨gn, cl, .bool false, sv0, em⟩ w1 hp1 hg1 (seq EBB3_connect_if3 EBB3_connect_if5) with
      ⟨s1, w2, m1, f1, o1, g2⟩ | ⟨c, w2, hc, m1, f1, o1, g2⟩
    · rw [f1, Ebb3.bind_ok m1, seq_norm (conn_if3 fuel gn cl (.bool false) em s1 w2)]
      dsimp only
      have hp2 : w2.obj.port = .port := by rw [o1]; exact hp1
      have hpn2 : w2.obj.port_name = .str pn := by rw [o1]; exact hpn1
      cases he : Ebb3.isEbbReply s1 with
      | true =>
        simp only [↓reduceIte]
        refine ⟨⟨gn, cl, .bool true, .str s1, em⟩, w2, ?_, rfl, rfl, g2, hpn2, Or.inl ⟨s1, rfl, rfl, hp2, rfl⟩⟩
        unfold EBB3_connect_if5
        simp only [ifte, load_bool, not_ok, ok_apply, truthy_bool, Bool.not_true, Bool.false_eq_true, ↓reduceIte, pass]
      | false =>
        simp only [Bool.false_eq_true, ↓reduceIte]
        rcases conn_if5_unverified fuel gn cl em s1 w2 hp2 g2 with
          ⟨s2, w3, m2, f2, o2, g3⟩ | ⟨c, w3, hc, m2, f2, o2, g3⟩
        · rw [f2, Ebb3.bind_ok m2]
          dsimp only
          have hp3 : w3.obj.port = .port := by rw [o2]; exact hp2
          have hpn3 : w3.obj.port_name = .str pn := by rw [o2]; exact hpn2
          cases he2 : Ebb3.isEbbReply s2 with
          | true => exact ⟨_, w3, rfl, rfl, rfl, g3, hpn3, Or.inl ⟨s2, by simp, rfl, hp3, by simp⟩⟩
          | false => exact ⟨_, w3, rfl, rfl, rfl, g3, hpn3, Or.inr ⟨by simp, by simp⟩⟩
        · rw [f2, Ebb3.bind_ok m2]
          dsimp only
          have hpn3 : w3.obj.port_name = .str pn := by rw [o2]; exact hpn2
          refine ⟨_, recDisc (Ebb3.Msg.usbTest pn) w3, conn_handler fuel _ _ hc w3 g3 pn hpn3, rfl, rfl,
            good_recDisc _ w3 g3, (recDisc_port_name _ w3).trans hpn3, Or.inr ⟨rfl, ?_⟩⟩
          exact probeFail_model pn w3 g3
    · rw [f1, Ebb3.bind_ok m1]
      dsimp only
      have hpn2 : w2.obj.port_name = .str pn := by rw [o1]; exact hpn1
      refine ⟨_, recDisc (Ebb3.Msg.usbTest pn) w2, conn_handler fuel _ _ hc w2 g2 pn hpn2, rfl, rfl,
        good_recDisc _ w2 g2, (recDisc_port_name _ w2).trans hpn2, Or.inr ⟨rfl, ?_⟩⟩
      exact probeFail_model pn w2 g2

/-! ## the part after the `try:` block -/

/-- every fault the port can raise is a `SerialException` (the one raise outcome of the model; `connect` lets a fault
of its last exchange escape, so its class is visible) -/
def SerialOnly (w : World EBB3_Obj) : Prop :=
  (∀ c, PyIO.Rd.raise c ∈ w.port.reads → c = .serialException) ∧
  (∀ c, PyIO.Wr.raise c ∈ w.port.writes → c = .serialException)

theorem SerialOnly.fr {w w' : World EBB3_Obj} (h : SerialOnly w) (hf : Fr w w') : SerialOnly w' :=
  ⟨fun c hc => h.1 c (hf.2.1 _ hc), fun c hc => h.2 c (hf.2.2 _ hc)⟩

theorem fr_of_norm {σ : Type} {s : Stmt EBB3_Obj σ} (hs : FrS s) {fuel : Nat} {env env' : σ} {w w' : World EBB3_Obj}
    (h : s fuel env w = .norm env' w') : Fr w w' := by
  have := hs fuel env w
  rw [h] at this
  exact this

/-- a call of a bridged method as a statement of the caller -/
theorem expr_of_sim {σ : Type} {out : Out EBB3_Obj} {r : Except Ebb3.PyExc Ebb3.Val × Ebb3.World Ebb3.Script}
    (h : Sim out r) {e : Expr EBB3_Obj σ} {fuel : Nat} {env : σ} {w : World EBB3_Obj}
    (he : e fuel env w = ofOut out (.fuelOut, w)) :
    (∃ v w', r = (.ok v, absWorld w') ∧ expr e fuel env w = .norm env w' ∧ out = .val (encVal v) w' ∧ Good w') ∨
    (∃ ex w', r = (.error ex, absWorld w') ∧ expr e fuel env w = .exc (excOfEbb3 ex) env w' ∧
      out = .exc (excOfEbb3 ex) w' ∧ Good w') := by
  obtain ⟨res, aw'⟩ := r
  cases out with
  | fuelOut => cases res <;> exact h.elim
  | val v w' =>
    cases res with
    | error ex => exact h.elim
    | ok v' =>
      obtain ⟨h1, h2, h3⟩ := h
      left
      refine ⟨v', w', by rw [h2], ?_, by rw [h1], h3⟩
      simp only [expr, he, ofOut_val]
  | exc c w' =>
    cases res with
    | ok v' => exact h.elim
    | error ex =>
      obtain ⟨h1, h2, h3⟩ := h
      right
      refine ⟨ex, w', by rw [h2], ?_, by rw [h1], h3⟩
      simp only [expr, he, ofOut_exc, h1]

theorem bind_pure_ok_inv {α : Type} {m : Ebb3.M Ebb3.Script α} {c v : Ebb3.Val} {aw aw' : Ebb3.World Ebb3.Script}
    (h : (m >>= fun _ => (pure c : Ebb3.M Ebb3.Script Ebb3.Val)) aw = (.ok v, aw')) : ∃ a, m aw = (.ok a, aw') := by
  rw [Ebb3.bind_apply] at h
  cases hm : m aw with
  | mk r aw1 =>
    rw [hm] at h
    cases r with
    | error e => simp at h
    | ok a =>
      simp only [Ebb3.pure_apply] at h
      injection h with _ h2
      exact ⟨a, by rw [h2]⟩

theorem bind_pure_err_inv {α : Type} {m : Ebb3.M Ebb3.Script α} {c : Ebb3.Val} {ex : Ebb3.PyExc}
    {aw aw' : Ebb3.World Ebb3.Script}
    (h : (m >>= fun _ => (pure c : Ebb3.M Ebb3.Script Ebb3.Val)) aw = (.error ex, aw')) : m aw = (.error ex, aw') := by
  rw [Ebb3.bind_apply] at h
  cases hm : m aw with
  | mk r aw1 =>
    rw [hm] at h
    cases r with
    | error e => simpa using h
    | ok a => simp at h

theorem port_of_abs (w : World EBB3_Obj) (hg : Good w) (h : (absWorld w).st.port = true) : w.obj.port = .port := by
  rcases hg.obj.port with hp | hp
  · exact hp
  · simp [absWorld, absSt, hp, absPort] at h

theorem parseVersionM_port (s : Ebb3.Str) (aw aw' : Ebb3.World Ebb3.Script) (u : Unit)
    (h : (Ebb3.parseVersionM s : Ebb3.M Ebb3.Script Unit) aw = (.ok u, aw')) : aw'.st.port = aw.st.port := by
  unfold Ebb3.parseVersionM at h
  cases hsp : Ebb3.splitSub1 "Firmware Version ".toList s with
  | none =>
    simp only [hsp, Ebb3.pure_apply] at h
    injection h with _ h2
    rw [← h2]
  | some ab =>
    simp only [hsp] at h
    unfold Ebb3.setVersion at h
    rw [Ebb3.bind_apply] at h
    simp only [Ebb3.modifySt_apply] at h
    cases hpr : Ebb3.parseRelease (Ebb3.strip ab.2) with
    | none => simp [hpr] at h
    | some r =>
      simp only [hpr, Ebb3.modifySt_apply] at h
      injection h with _ h2
      rw [← h2]

theorem minVersionM_inv (vs : Ebb3.Str) (aw aw' : Ebb3.World Ebb3.Script) (v : Ebb3.Val)
    (h : (Ebb3.minVersionM vs : Ebb3.M Ebb3.Script Ebb3.Val) aw = (.ok v, aw')) :
    aw' = aw ∧ (v = .none ∨ ∃ b, v = .bool b) := by
  unfold Ebb3.minVersionM at h
  cases hpr : Ebb3.parseRelease vs with
  | none =>
    simp only [hpr, Ebb3.pure_apply] at h
    injection h with h1 h2
    injection h1 with h1
    exact ⟨h2.symm, Or.inl h1.symm⟩
  | some want =>
    simp only [hpr] at h
    rw [Ebb3.bind_apply] at h
    simp only [Ebb3.getSt_apply] at h
    cases hvp : aw.st.versionParsed with
    | none => simp [hvp] at h
    | some hv =>
      simp only [hvp, Ebb3.pure_apply] at h
      injection h with h1 h2
      injection h1 with h1
      exact ⟨h2.symm, Or.inr ⟨_, h1.symm⟩⟩

theorem srcMinVersion : Ebb3.srcParams.minVersion = ['3', '.', '0', '.', '2'] := by decide

theorem write_exc_mem {t : List Char} {w w' : World EBB3_Obj} {c : PyIO.ExcClass}
    (h : meth_write .port (.bytes t) w = (.exc c, w')) : PyIO.Wr.raise c ∈ w.port.writes := by
  obtain ⟨obj, ⟨reads, writes, log, nread⟩, ext⟩ := w
  cases writes with
  | nil => simp [meth_write] at h
  | cons x ws =>
    cases x with
    | ok => simp [meth_write] at h
    | raise c' =>
      simp only [meth_write] at h
      injection h with h1 _
      injection h1 with h1
      rw [← h1]
      exact List.mem_cons_self

/-- the raw `self.port.readline()` of the tail of `connect` -/
theorem rawread_sim {σ : Type} (fuel : Nat) (env : σ) (w : World EBB3_Obj) (hp : w.obj.port = .port) (hg : Good w) :
    (∃ c w', PyIO.Rd.raise c ∈ w.port.reads ∧
      expr (fun fuel (env : σ) => eff1 meth_readline (getattr (·.port))) fuel env w = .exc c env w' ∧
      Ebb3.portRead Ebb3.scriptDev (absWorld w) = (.ok Option.none, absWorld w') ∧ w'.obj = w.obj ∧ Good w') ∨
    (∃ l w', expr (fun fuel (env : σ) => eff1 meth_readline (getattr (·.port))) fuel env w = .norm env w' ∧
      Ebb3.portRead Ebb3.scriptDev (absWorld w) = (.ok (some l), absWorld w') ∧ w'.obj = w.obj ∧ Good w') := by
  obtain ⟨obj, ⟨reads, writes, log, nread⟩, ext⟩ := w
  simp only at hp
  obtain ⟨ho, hr, hw, ha⟩ := hg
  simp only at ho hr hw ha
  have hga : getattr (fun o : Gen.EBB3_Obj => o.port) (⟨obj, ⟨reads, writes, log, nread⟩, ext⟩ : World Gen.EBB3_Obj)
      = (.ok .port, ⟨obj, ⟨reads, writes, log, nread⟩, ext⟩) := by
    rw [getattr_apply (by simp [hp])]
    simp only [hp]
  cases reads with
  | nil =>
    right
    refine ⟨[], ⟨obj, ⟨[], writes, log, nread + 1⟩, ext⟩, ?_, rfl, rfl, ⟨ho, hr, hw, ha⟩⟩
    simp only [expr, eff1, PyObj.bind, hga, meth_readline]
  | cons r rs =>
    cases r with
    | empty =>
      right
      refine ⟨[], ⟨obj, ⟨rs, writes, log, nread + 1⟩, ext⟩, ?_, rfl, rfl, ⟨ho, hr.tail, hw, ha.tail⟩⟩
      simp only [expr, eff1, PyObj.bind, hga, meth_readline]
    | raise c =>
      left
      refine ⟨c, ⟨obj, ⟨rs, writes, log, nread + 1⟩, ext⟩, List.mem_cons_self, ?_, rfl, rfl,
        ⟨ho, hr.tail, hw, ha.tail⟩⟩
      simp only [expr, eff1, PyObj.bind, hga, meth_readline]
    | line b =>
      right
      refine ⟨b, ⟨obj, ⟨rs, writes, log, nread + 1⟩, ext⟩, ?_, rfl, rfl, ⟨ho, hr.tail, hw, ha.tail⟩⟩
      simp only [expr, eff1, PyObj.bind, hga, meth_readline]

theorem conn_if10 (fuel : Nat) (env : EBB3_connect_Env) (caller : Option Ebb3.Str) (hcl : env.caller = encReq caller)
    (w : World EBB3_Obj) (hg : Good w) :
    ∃ w', EBB3_connect_if10 fuel env w = .norm env w' ∧
      (Ebb3.setCaller caller : Ebb3.M Ebb3.Script Unit) (absWorld w) = (.ok (), absWorld w') ∧ Good w' := by
  unfold EBB3_connect_if10 Ebb3.setCaller
  cases caller with
  | none =>
    refine ⟨w, ?_, rfl, hg⟩
    simp only [ifte, hcl, encReq, app1_ok, op_is_not_none, isNone, ofP_ok, ok_apply, truthy_bool, Bool.not_true,
      Bool.false_eq_true, ↓reduceIte, pass]
  | some c =>
    refine ⟨{ w with obj := { w.obj with caller := .str c } }, ?_, rfl,
      ⟨⟨hg.obj.port, hg.obj.err, hg.obj.version, hg.obj.version_parsed, hg.obj.name, trivial, hg.obj.port_name⟩,
        hg.ioR, hg.ioW, hg.ascii⟩⟩
    simp only [ifte, hcl, encReq, app1_ok, op_is_not_none, isNone, ofP_ok, ok_apply, truthy_bool, Bool.not_false,
      ↓reduceIte, setattr]

/-- the statements of `connect` after the version check -/
abbrev connTail : Stmt EBB3_Obj EBB3_connect_Env :=
  block [
    wStmt ['C', 'U', ',', '1', '0', ',', '1', '\r'],
    expr (fun fuel env => eff1 meth_readline (getattr (·.port))),
    expr (fun fuel env => eff1 meth_reset_input_buffer (getattr (·.port))),
    expr (fun fuel env => mcall0 (EBB3_query_nickname fuel)),
    EBB3_connect_if10,
    return_ (fun fuel env => ok (.bool true))]

theorem run_exc {σ : Type} {s : Stmt EBB3_Obj σ} {fuel : Nat} {env env' : σ} {w w' : World EBB3_Obj}
    {c : PyIO.ExcClass} (h : s fuel env w = .exc c env' w') : PyObj.run s fuel env w = .exc c w' := by
  unfold PyObj.run; rw [h]

theorem run_ret {σ : Type} {s : Stmt EBB3_Obj σ} {fuel : Nat} {env : σ} {w w' : World EBB3_Obj}
    {v : Val} (h : s fuel env w = .ret v w') : PyObj.run s fuel env w = .val v w' := by
  unfold PyObj.run; rw [h]

theorem conn_tail (fuel : Nat) (hf : 26 ≤ fuel) (env : EBB3_connect_Env) (caller : Option Ebb3.Str)
    (hcl : env.caller = encReq caller) (w : World EBB3_Obj) (hp : w.obj.port = .port) (hg : Good w)
    (hso : SerialOnly w) :
    Sim (PyObj.run connTail fuel env w) (Ebb3.enterFuture Ebb3.srcParams Ebb3.scriptDev caller (absWorld w)) := by
  unfold Ebb3.enterFuture connTail
  rw [lit_CU10, block_cons2, block_cons2, block_cons2, block_cons2, block_cons2, block_one]
  rcases write_sim ['C', 'U', ',', '1', '0', ',', '1', '\r'] w hp hg with
    ⟨w1, e1, e2, ho1, hg1⟩ | ⟨c, w1, hc, e1, e2, ho1, hg1⟩
  · have hp1 : w1.obj.port = .port := by rw [ho1]; exact hp
    have hfr1 : Fr w w1 := by
      have := FrE.meth_write (ω := EBB3_Obj) .port (.bytes ['C', 'U', ',', '1', '0', ',', '1', '\r']) w
      rw [e1] at this
      exact this
    have hso1 := hso.fr hfr1
    rw [Ebb3.bind_ok e2]
    simp only [↓reduceIte]
    rw [run_seq_norm (expr_of (wStmt_eval _ (by decide) fuel env w hp _ e1))]
    rcases rawread_sim fuel env w1 hp1 hg1 with ⟨c, w2, hc, f2, m2, ho2, hg2⟩ | ⟨l, w2, f2, m2, ho2, hg2⟩
    · have hcs : c = .serialException := hso1.1 c hc
      rw [run_exc (seq_exc f2), Ebb3.bind_ok m2]
      exact ⟨hcs, rfl, hg2⟩
    · have hp2 : w2.obj.port = .port := by rw [ho2]; exact hp1
      have hga2 : getattr (fun o : EBB3_Obj => o.port) w2 = (.ok .port, w2) := by
        rw [getattr_apply (by simp [hp2])]; simp only [hp2]
      have hreset : expr (fun fuel (env : EBB3_connect_Env) => eff1 meth_reset_input_buffer (getattr (·.port))) fuel
            env w2 = .norm env w2 := by
        simp only [expr, eff1, PyObj.bind, hga2, meth_reset_input_buffer, ok]
      rw [run_seq_norm f2, Ebb3.bind_ok m2, run_seq_norm hreset]
      dsimp only
      rw [Ebb3.bind_ok (portReset_model _)]
      have hq := query_nickname_bridge fuel hf w2 hg2
      rcases expr_of_sim (σ := EBB3_connect_Env) (env := env) hq
          (e := fun fuel env => mcall0 (EBB3_query_nickname fuel)) (fuel := fuel) (w := w2) (mcall0_apply _ _) with
        ⟨v, w3, hr, hfl, _, hg3⟩ | ⟨ex, w3, hr, hfl, _, hg3⟩
      · have hr' : (Ebb3.queryNicknameP Ebb3.srcParams Ebb3.scriptDev).run (absWorld w2) = (.ok v, absWorld w3) := hr
        rw [run_seq_norm hfl, Ebb3.bind_ok hr']
        obtain ⟨w4, f4, m4, hg4⟩ := conn_if10 fuel env caller hcl w3 hg3
        rw [run_seq_norm f4, Ebb3.bind_ok m4]
        exact ⟨rfl, rfl, hg4⟩
      · have hr' : (Ebb3.queryNicknameP Ebb3.srcParams Ebb3.scriptDev).run (absWorld w2) = (.error ex, absWorld w3) := hr
        rw [run_exc (seq_exc hfl), Ebb3.bind_error hr']
        exact ⟨rfl, rfl, hg3⟩
  · have hcs : c = .serialException := hso.2 c (write_exc_mem e1)
    rw [Ebb3.bind_ok e2]
    simp only [Bool.false_eq_true, ↓reduceIte]
    rw [run_exc (seq_exc (expr_exc (wStmt_eval _ (by decide) fuel env w hp _ e1)))]
    exact ⟨hcs, rfl, hg1⟩

theorem getattr_version (w : World EBB3_Obj) (ho : ObjOk w.obj) :
    getattr (fun o : EBB3_Obj => o.version) w = (.ok w.obj.version, w) := by
  have h := ho.version
  rw [getattr_apply (by cases hp : w.obj.version <;> rw [hp] at h <;> simp_all [IsOptStr])]

theorem strOf_version (o : EBB3_Obj) (ho : ObjOk o) : strOf o.version = (absSt o).version.getD "None".toList := by
  have h := ho.version
  unfold absSt
  cases hv : o.version <;> rw [hv] at h <;> simp only [IsOptStr] at h <;> simp [strOf, absOpt]

theorem strOf_str (s : List Char) : strOf (.str s) = s := rfl

theorem conn_if9_old (fuel : Nat) (env : EBB3_connect_Env) (w w' : World EBB3_Obj) (v : Val)
    (hmv : EBB3_min_version fuel (.str ['3', '.', '0', '.', '2']) w = .val v w') (htv : truthy v = false)
    (hg' : Good w') :
    EBB3_connect_if9 fuel env w = .ret (.bool false)
      { w' with obj := recErr (Ebb3.Msg.oldFirmware ((absSt w'.obj).version.getD "None".toList)
          ['3', '.', '0', '.', '2']) w'.obj } := by
  unfold EBB3_connect_if9
  simp only [ifte, not_, PyObj.bind, mcall1_ok_apply, hmv, ofOut_val, ok, htv, Bool.not_false, truthy_bool, ↓reduceIte,
    block_cons2, block_one]
  simp only [seq, assign, fstr, evalList, PyObj.bind, ok, getattr_version w' hg'.obj, app2, load, ofP, op_add, expr, mcall1, return_,
    record_error_eval fuel _ _ hg'.obj, ofOut, List.map, List.flatten]
  rw [← strOf_version _ hg'.obj]
  unfold Ebb3.Msg.oldFirmware
  rw [lit_fwA, lit_fwB, lit_fwC]
  simp only [strOf_str, List.append_eq, List.append_assoc, List.cons_append, List.nil_append, List.append_nil]

theorem sim_cases {out : Out EBB3_Obj} {r : Except Ebb3.PyExc Ebb3.Val × Ebb3.World Ebb3.Script} (h : Sim out r) :
    (∃ v w', r = (.ok v, absWorld w') ∧ out = .val (encVal v) w' ∧ Good w') ∨
    (∃ ex w', r = (.error ex, absWorld w') ∧ out = .exc (excOfEbb3 ex) w' ∧ Good w') := by
  obtain ⟨res, aw'⟩ := r
  cases out with
  | fuelOut => cases res <;> exact h.elim
  | val v w' =>
    cases res with
    | error ex => exact h.elim
    | ok v' =>
      obtain ⟨h1, h2, h3⟩ := h
      exact Or.inl ⟨v', w', by rw [h2], by rw [h1], h3⟩
  | exc c w' =>
    cases res with
    | ok v' => exact h.elim
    | error ex =>
      obtain ⟨h1, h2, h3⟩ := h
      exact Or.inr ⟨ex, w', by rw [h2], by rw [h1], h3⟩

abbrev parseStmt : Stmt EBB3_Obj EBB3_connect_Env :=
  expr (fun fuel env => mcall1 (EBB3_parse_version fuel) (load env.str_version))

theorem fr_parseStmt : FrS parseStmt := by
  unfold parseStmt
  fr_auto [fr_EBB3_parse_version]

theorem fr_if9 : FrS EBB3_connect_if9 := by
  unfold EBB3_connect_if9
  fr_auto [fr_EBB3_min_version, fr_EBB3_record_error]

theorem fr_try : FrS (tryExcept EBB3_connect_try1 EBB3_connect_handlers1) := by
  unfold EBB3_connect_try1 EBB3_connect_handlers1 EBB3_connect_if5 EBB3_connect_if6 EBB3_connect_if7 EBB3_connect_if3
    EBB3_connect_if4
  fr_auto [fr_EBB3_record_error, fr_EBB3_disconnect]

/-- the part of `connect` after a verified identification: version check and the future-syntax exchange -/
theorem conn_after (fuel : Nat) (hf : 26 ≤ fuel) (env : EBB3_connect_Env) (caller : Option Ebb3.Str)
    (hcl : env.caller = encReq caller) (sv : List Char) (hv : env.verified = .bool true)
    (hs : env.str_version = .str sv) (w : World EBB3_Obj) (hp : w.obj.port = .port) (hg : Good w)
    (hso : SerialOnly w) :
    Sim (PyObj.run (seq EBB3_connect_if8 (seq parseStmt (seq EBB3_connect_if9 connTail))) fuel env w)
      (Ebb3.checkVersion Ebb3.srcParams Ebb3.scriptDev caller sv (absWorld w)) := by
  have h8 : EBB3_connect_if8 fuel env w = .norm env w := by
    unfold EBB3_connect_if8
    simp only [ifte, hv, load_bool, not_ok, ok_apply, truthy_bool, Bool.not_true, Bool.false_eq_true, ↓reduceIte, pass]
  rw [run_seq_norm h8]
  unfold Ebb3.checkVersion
  rw [srcMinVersion]
  have hpb := parse_version_bridge fuel sv w hg
  have hpe : (fun fuel (env : EBB3_connect_Env) => mcall1 (EBB3_parse_version fuel) (load env.str_version)) fuel env w
      = ofOut (EBB3_parse_version fuel (.str sv) w) (.fuelOut, w) := by
    simp only [hs, load_str, mcall1_ok_apply]
  rcases expr_of_sim hpb (e := fun fuel (env : EBB3_connect_Env) => mcall1 (EBB3_parse_version fuel)
      (load env.str_version)) (fuel := fuel) (env := env) (w := w) hpe with
    ⟨v, w3, hr, hfl, _, hg3⟩ | ⟨ex, w3, hr, hfl, _, hg3⟩
  · have hr' : ((Ebb3.parseVersionM sv : Ebb3.M Ebb3.Script Unit) >>= fun _ =>
        (pure Ebb3.Val.none : Ebb3.M Ebb3.Script Ebb3.Val)) (absWorld w) = (.ok v, absWorld w3) := hr
    obtain ⟨u, hpm⟩ := bind_pure_ok_inv hr'
    rw [run_seq_norm hfl, Ebb3.bind_ok hpm]
    have hp3 : w3.obj.port = .port := port_of_abs w3 hg3 (by
      rw [parseVersionM_port sv _ _ u hpm]; simp [absWorld, absSt, hp, absPort])
    have hso3 := hso.fr (fr_of_norm fr_parseStmt hfl)
    have hmb := min_version_bridge fuel ['3', '.', '0', '.', '2'] w3 hg3
    rcases sim_cases hmb with ⟨mv, w4, hr4, hout, hg4⟩ | ⟨ex, w4, hr4, hout, hg4⟩
    · have hr4' : (Ebb3.minVersionM ['3', '.', '0', '.', '2'] : Ebb3.M Ebb3.Script Ebb3.Val) (absWorld w3)
          = (.ok mv, absWorld w4) := hr4
      obtain ⟨haw, hmvs⟩ := minVersionM_inv _ _ _ _ hr4'
      rw [Ebb3.bind_ok hr4']
      by_cases hmt : mv = .bool true
      · subst hmt
        simp only [↓reduceIte]
        have h9 : EBB3_connect_if9 fuel env w3 = .norm env w4 := by
          unfold EBB3_connect_if9
          simp only [ifte, not_, PyObj.bind, mcall1_ok_apply, hout, ofOut_val, ok, encVal, truthy_bool, Bool.not_true,
            Bool.false_eq_true, ↓reduceIte, pass]
        rw [run_seq_norm h9]
        have hp4 : w4.obj.port = .port := port_of_abs w4 hg4 (by
          rw [haw]; simp [absWorld, absSt, hp3, absPort])
        exact conn_tail fuel hf env caller hcl w4 hp4 hg4 (hso3.fr (fr_of_norm fr_if9 h9))
      · simp only [hmt, ↓reduceIte]
        have htv : truthy (encVal mv) = false := by
          rcases hmvs with rfl | ⟨b, rfl⟩
          · rfl
          · cases b
            · rfl
            · exact absurd rfl hmt
        rw [run_ret (seq_ret (conn_if9_old fuel env w3 w4 _ hout htv hg4))]
        simp only [Ebb3.bind_apply, Ebb3.getSt_apply, Ebb3.recordError, Ebb3.modifySt_apply, Ebb3.pure_apply]
        refine ⟨rfl, ?_, ⟨objOk_recErr _ _ hg4.obj, hg4.ioR, hg4.ioW, hg4.ascii⟩⟩
        simp only [absWorld, absSt_recErr _ _ hg4.obj]
    · have hr4' : (Ebb3.minVersionM ['3', '.', '0', '.', '2'] : Ebb3.M Ebb3.Script Ebb3.Val) (absWorld w3)
          = (.error ex, absWorld w4) := hr4
      have h9 : EBB3_connect_if9 fuel env w3 = .exc (excOfEbb3 ex) env w4 := by
        unfold EBB3_connect_if9
        simp only [ifte, not_, PyObj.bind, mcall1_ok_apply, hout, ofOut_exc, ok]
      rw [run_exc (seq_exc h9), Ebb3.bind_error hr4']
      exact ⟨rfl, rfl, hg4⟩
  · have hr' : ((Ebb3.parseVersionM sv : Ebb3.M Ebb3.Script Unit) >>= fun _ =>
        (pure Ebb3.Val.none : Ebb3.M Ebb3.Script Ebb3.Val)) (absWorld w) = (.error ex, absWorld w3) := hr
    have hpm := bind_pure_err_inv hr'
    rw [run_exc (seq_exc hfl), Ebb3.bind_error hpm]
    exact ⟨rfl, rfl, hg3⟩

/-- **`connect`**: the regenerated method is the model's `connect`, with the model's environment arguments read off
the world: `found` tied to the port-search inputs by `PortIn`, `openOk` = `ext.openOk` -/
theorem connect_bridge (fuel : Nat) (hf : 26 ≤ fuel) (given caller found : Option Ebb3.Str) (w : World EBB3_Obj)
    (hg : Good w) (hin : PortIn given found w.ext) (hso : SerialOnly w) :
    Sim (EBB3_connect fuel (encReq given) (encReq caller) w)
      (Ebb3.run Ebb3.srcParams Ebb3.scriptDev (.connect given caller found w.ext.openOk) (absWorld w)) := by
  show Sim _ (Ebb3.connectBody Ebb3.srcParams Ebb3.scriptDev given caller found w.ext.openOk (absWorld w))
  unfold EBB3_connect EBB3_connect_main Ebb3.connectBody
  rw [block_cons2, block_cons2, block_cons2, block_cons2, block_cons2, block_cons2, block_cons2, block_cons2]
  rw [Ebb3.bind_ok (Ebb3.getSt_apply _)]
  rcases hg.obj.port with hp | hp
  · have h1 : EBB3_connect_if1 fuel ⟨encReq given, encReq caller, .unbound, .unbound, .unbound⟩ w
        = .ret (.bool true) w := by
      unfold EBB3_connect_if1
      simp only [ifte, app1, PyObj.bind, getattr_port w hg.obj, hp, ofP, op_is_not_none, isNone, ok, truthy,
        Bool.not_false, ↓reduceIte, return_]
    have hpt : (absWorld w).st.port = true := by simp [absWorld, absSt, hp, absPort]
    rw [run_ret (seq_ret h1)]
    simp only [hpt, ↓reduceIte]
    exact ⟨rfl, rfl, hg⟩
  · have h1 : EBB3_connect_if1 fuel ⟨encReq given, encReq caller, .unbound, .unbound, .unbound⟩ w
        = .norm ⟨encReq given, encReq caller, .unbound, .unbound, .unbound⟩ w := by
      unfold EBB3_connect_if1
      simp only [ifte, app1, PyObj.bind, getattr_port w hg.obj, hp, ofP, op_is_not_none, isNone, ok, truthy,
        Bool.not_true, Bool.false_eq_true, ↓reduceIte, pass]
    have hpt : (absWorld w).st.port = false := by simp [absWorld, absSt, hp, absPort]
    rw [run_seq_norm h1]
    simp only [hpt, Bool.false_eq_true, ↓reduceIte]
    have hg1 : Good { w with obj := gpnObj given found w.obj } :=
      ⟨objOk_gpn given found w.obj hg.obj, hg.ioR, hg.ioW, hg.ascii⟩
    have hso1 : SerialOnly { w with obj := gpnObj given found w.obj } := hso
    have h2 : expr (fun fuel (env : EBB3_connect_Env) => mcall1 (EBB3__get_port_name fuel) (ok env.given_name)) fuel
        ⟨encReq given, encReq caller, .unbound, .unbound, .unbound⟩ w
        = .norm ⟨encReq given, encReq caller, .unbound, .unbound, .unbound⟩
            { w with obj := gpnObj given found w.obj } := by
      simp only [expr, mcall1_ok_apply, get_port_name_eval fuel given found w hg hin, ofOut_val]
    rw [run_seq_norm h2, Ebb3.bind_ok (getPortName_sim given found w hg)]
    have hpn1 : (World.obj { w with obj := gpnObj given found w.obj }).port_name = encReq found :=
      gpn_port_name given found w.obj
    have hext : (World.ext { w with obj := gpnObj given found w.obj }).openOk = w.ext.openOk := rfl
    generalize ({ w with obj := gpnObj given found w.obj } : World EBB3_Obj) = w1 at hg1 hso1 hpn1 hext
    cases found with
    | none =>
      have h3 : EBB3_connect_if2 fuel ⟨encReq given, encReq caller, .unbound, .unbound, .unbound⟩ w1
          = .ret (.bool false) w1 := by
        unfold EBB3_connect_if2
        simp only [ifte, app1, PyObj.bind, getattr_port_name w1 hg1.obj, hpn1, encReq, ofP, op_is_none, isNone, ok,
          truthy, ↓reduceIte, return_]
      rw [run_ret (seq_ret h3)]
      exact ⟨rfl, rfl, hg1⟩
    | some pn =>
      have h3 : EBB3_connect_if2 fuel ⟨encReq given, encReq caller, .unbound, .unbound, .unbound⟩ w1
          = .norm ⟨encReq given, encReq caller, .unbound, .unbound, .unbound⟩ w1 := by
        unfold EBB3_connect_if2
        simp only [ifte, app1, PyObj.bind, getattr_port_name w1 hg1.obj, hpn1, encReq, ofP, op_is_none, isNone, ok,
          truthy, Bool.false_eq_true, ↓reduceIte, pass]
      rw [run_seq_norm h3, run_seq_assign_ok (v := .bool false) rfl]
      dsimp only
      obtain ⟨env2, w2, hfl, hgn, hcl, hg2, hpn2, hcase⟩ :=
        conn_try fuel (encReq given) (encReq caller) .unbound .unbound w1 hg1 pn hpn1
      have hso2 := hso1.fr (fr_of_norm fr_try hfl)
      rw [run_seq_norm hfl, ← hext]
      rcases hcase with ⟨sv, hv, hs, hp2, hm⟩ | ⟨hv, hm⟩
      · rw [Ebb3.bind_ok hm]
        exact conn_after fuel hf env2 caller hcl sv hv hs w2 hp2 hg2 hso2
      · rw [Ebb3.bind_ok hm]
        have h8 : EBB3_connect_if8 fuel env2 w2 = .ret (.bool false) (recDisc (Ebb3.Msg.connectFail pn) w2) := by
          unfold EBB3_connect_if8
          simp only [ifte, hv, load_bool, not_ok, ok_apply, truthy_bool, Bool.not_false, ↓reduceIte, block_cons2,
            block_one]
          rw [msg_connectFail, recdisc_rest fuel env2 _ pn w2 hg2 hpn2]
          rfl
        rw [run_ret (seq_ret h8)]
        dsimp only
        unfold Ebb3.connectFailed
        rw [Ebb3.bind_ok (recordError_model _ w2 hg2), Ebb3.bind_ok (disconnectM_sim _)]
        exact ⟨rfl, rfl, good_recDisc _ w2 hg2⟩

end Ebb3Gen
end Plotink
