import Plotink.Proofs.C15Connect
/-! # C15 — `connect` split into its head (up to the minimum-version check) and its tail (model-side lemmas used by the
bridge of the regenerated `EBB3.connect`) -/
namespace Plotink.C15Gen
open C15

/-- how `connect` ends before it sends anything beyond the probes -/
inductive Head where
  | refused (st : St) (io : Io)               -- `return False`
  | failed (e : PyExc) (st : St) (io : Io)    -- an exception escapes (`parse` / `None >= Version`)
  | pass (st : St) (io : Io)                  -- identified, version accepted: goes on to `CU,10,1`

/-- `parse_version`, for a given `packaging.version.parse` -/
def parseStmtP (parse : Str → Option (List Nat)) (st : St) (sv : Str) : Option St :=
  match versionText sv with
  | none => some st
  | some t => match parse t with
    | none => none
    | some v => some { st with version := some t, vparsed := some v }

theorem parseStmtP_model (st : St) (sv : Str) : parseStmtP parseVersion st sv = parseVersionStmt st sv := rfl

/-- `connect` on a disconnected object, up to and including the minimum-version check (for a given `parse` of the
version text of the reply: `C15.parseVersion` in the model, the runtime's `Ebb3.parseRelease` in the regenerated code) -/
def connectHeadP (parse : Str → Option (List Nat)) (P : Params) (st : St) (given found : Option Str) (io : Io) : Head :=
  let st := { st with portName := found }
  match found with
  | none => .refused (recordError st (msgLocate given)) io
  | some pn =>
    let hs := handshake io
    let st := if hs.opened then { st with port := true } else st
    let st := if hs.raised then disconnect (recordError st (msgTest pn)) else st
    if !hs.verified then .refused (disconnect (recordError st (msgFail pn))) hs.io else
    match parseStmtP parse st hs.sv with
    | none => .failed .versionSyntax st hs.io
    | some st =>
      match minVersion3 st P.minVersion with
      | .error e => .failed e st hs.io
      | .ok false => .refused (recordError st (msgOld st.version P.minVersion)) hs.io
      | .ok true => .pass st hs.io

abbrev connectHead := connectHeadP parseVersion

/-- the rest of `connect`: syntax-mode command, nickname query, caller -/
def connectTail (P : Params) (st : St) (caller : Option Str) (io : Io) : Out Bool :=
  match io.write cuCmd with
  | (true, io1) => ⟨st, io1, .error .serialException⟩
  | (false, io1) =>
    match io1.read with
    | (none, io2) => ⟨st, io2, .error .serialException⟩
    | (some _, io2) =>
      let (st, io3) := queryNickname3 P st io2
      let st := match caller with | some c => { st with caller := some c } | none => st
      ⟨st, io3, .ok true⟩

theorem connect_eq_head (P : Params) (st : St) (given found caller : Option Str) (io : Io) (hp : st.port = false) :
    connect P st given found caller io =
      match connectHead P st given found io with
      | .refused st' io' => ⟨st', io', .ok false⟩
      | .failed e st' io' => ⟨st', io', .error e⟩
      | .pass st' io' => connectTail P st' caller io' := by
  unfold connect connectHead connectHeadP connectTail
  simp only [parseStmtP_model]
  simp only [hp, Bool.false_eq_true, ↓reduceIte]
  cases found with
  | none => rfl
  | some pn =>
    simp only
    cases (handshake io).verified with
    | false => rfl
    | true =>
      simp only [Bool.not_true, Bool.false_eq_true, ↓reduceIte]
      generalize parseVersionStmt _ (handshake io).sv = r
      cases r with
      | none => rfl
      | some st3 =>
        simp only
        cases minVersion3 st3 P.minVersion with
        | error e => rfl
        | ok b => cases b <;> rfl

theorem tail_not_false (P : Params) (st : St) (caller : Option Str) (io : Io) :
    (connectTail P st caller io).res ≠ .ok false := by
  unfold connectTail
  split
  · simp
  · split
    · simp
    · simp

/-- passing the head means: identified within the two probes, and the accepted version is the one of the identifying
reply (or a stale one when that reply has no version text) and is at least the minimum -/
theorem head_pass (P : Params) (st : St) (given found : Option Str) (io : Io) (st' : St) (io' : Io)
    (h : connectHead P st given found io = .pass st' io') :
    ∃ s m, Identifies io s ∧ parseVersion P.minVersion = some m ∧
      ((∃ v, versionOf s = some v ∧ vle m v = true) ∨
       (versionText s = none ∧ ∃ v, st.vparsed = some v ∧ vle m v = true)) := by
  -- a caller that makes the tail irrelevant: `connect` with this head and any tail result `True`
  unfold connectHead connectHeadP at h
  simp only [parseStmtP_model] at h
  cases found with
  | none => simp at h
  | some pn =>
    simp only at h
    by_cases hv : (handshake io).verified = true
    · obtain ⟨s, hs⟩ := (hs_verified_iff io).mp hv
      have hsv := hs_sv io s hs
      obtain ⟨hr, ho⟩ := hs_flags io hv
      simp only [hv, hr, ho, hsv, Bool.not_true, Bool.false_eq_true, ↓reduceIte] at h
      refine ⟨s, ?_⟩
      unfold parseVersionStmt at h
      unfold versionOf
      cases hvt : versionText s with
      | none =>
        simp only [hvt] at h
        unfold minVersion3 at h
        cases hm : parseVersion P.minVersion with
        | none => simp [hm] at h
        | some m =>
          simp only [hm] at h
          cases hsp : st.vparsed with
          | none => simp [hsp] at h
          | some v =>
            simp only [hsp] at h
            refine ⟨m, hs, rfl, Or.inr ⟨rfl, v, rfl, ?_⟩⟩
            rw [← versionGe_eq_vle]
            cases hge : versionGe v m with
            | true => rfl
            | false => simp [hge] at h
      | some t =>
        simp only [hvt] at h
        cases hpt : parseVersion t with
        | none => simp [hpt] at h
        | some v =>
          simp only [hpt] at h
          unfold minVersion3 at h
          cases hm : parseVersion P.minVersion with
          | none => simp [hm] at h
          | some m =>
            simp only [hm] at h
            refine ⟨m, hs, rfl, Or.inl ⟨v, by simp [hpt], ?_⟩⟩
            rw [← versionGe_eq_vle]
            cases hge : versionGe v m with
            | true => rfl
            | false => simp [hge] at h
    · simp [hv] at h

/-- under a rejection scenario the head refuses, with exactly the state and script `connect` ends in -/
theorem head_refused (P : Params) (st : St) (given found caller : Option Str) (io : Io) (m : List Nat)
    (hp : st.port = false) (hm : parseVersion P.minVersion = some m) (hrej : found = none ∨ Rejected m io) :
    connectHead P st given found io =
      .refused (connect P st given found caller io).st (connect P st given found caller io).io := by
  have hres := (connect_false P st given found caller io m hp hm hrej).1
  rw [connect_eq_head P st given found caller io hp] at hres ⊢
  cases hh : connectHead P st given found io with
  | refused st' io' => rfl
  | failed e st' io' => rw [hh] at hres; simp at hres
  | pass st' io' => rw [hh] at hres; exact absurd hres (tail_not_false P st' caller io')


/-- two parsers that agree on the version text of the identifying reply give the same head -/
theorem headP_congr (parse1 parse2 : Str → Option (List Nat)) (P : Params) (st : St) (given found : Option Str) (io : Io)
    (h : (handshake io).verified = true → ∀ t, versionText (handshake io).sv = some t → parse1 t = parse2 t) :
    connectHeadP parse1 P st given found io = connectHeadP parse2 P st given found io := by
  unfold connectHeadP
  cases found with
  | none => rfl
  | some pn =>
    simp only
    cases hv : (handshake io).verified with
    | false => rfl
    | true =>
      have : ∀ st2, parseStmtP parse1 st2 (handshake io).sv = parseStmtP parse2 st2 (handshake io).sv := by
        intro st2
        unfold parseStmtP
        cases hvt : versionText (handshake io).sv with
        | none => rfl
        | some t => simp only [h hv t hvt]
      simp only [this]

/-- a parser that accepts less passes less -/
theorem headP_pass_mono (parse1 parse2 : Str → Option (List Nat)) (P : Params) (st : St) (given found : Option Str)
    (io : Io) (st' : St) (io' : Io) (h : ∀ t v, parse1 t = some v → parse2 t = some v)
    (hpass : connectHeadP parse1 P st given found io = .pass st' io') :
    connectHeadP parse2 P st given found io = .pass st' io' := by
  unfold connectHeadP at hpass ⊢
  cases found with
  | none => simp at hpass
  | some pn =>
    simp only at hpass ⊢
    cases hv : (handshake io).verified with
    | false => simp [hv] at hpass
    | true =>
      simp only [hv, Bool.not_true, Bool.false_eq_true, ↓reduceIte] at hpass ⊢
      generalize (if (handshake io).raised = true then _ else _ : St) = st2 at hpass ⊢
      unfold parseStmtP at hpass ⊢
      cases hvt : versionText (handshake io).sv with
      | none => simp only [hvt] at hpass ⊢; exact hpass
      | some t =>
        simp only [hvt] at hpass ⊢
        cases hp1 : parse1 t with
        | none => simp [hp1] at hpass
        | some v => simp only [hp1, h t v hp1] at hpass ⊢; exact hpass

end Plotink.C15Gen
