import Plotink.Model.C08
import Mathlib.Tactic.Linarith
import Mathlib.Tactic.Ring
import Mathlib.Tactic.FieldSimp
import Mathlib.Tactic.Positivity
import Mathlib.Tactic.SplitIfs
import Mathlib.Tactic.Push
import Mathlib.Algebra.Order.Field.Basic
import Mathlib.Algebra.Order.Field.Rat

/-! # C08 — helper lemmas for the clipping proofs

* outcodes: `clipCode` bit tests ↔ "strictly outside boundary line `sd`" (`Out`), via `codeOf` on Booleans
  (all facts by `decide` over the 16 / 256 Boolean cases);
* `sdist r sd p` (signed distance outside a line) is affine along a segment, which gives every
  convexity fact at once (`out_between`, `inside_between`, `out_on`);
* `newPoint_spec`: the point computed by the `if code & k` cascade is `On s w`, `w = f₁/(f₁−f₂)`;
* `Sub r s s'`: `s'` is the part `[u,v]` of `s` and contains everything of `s` that is inside; reflexive, transitive;
* `unres`: number of unresolved boundary lines; `step_spec`: one pass yields `Sub` and decreases `unres`;
* `loop_spec`/`clip_spec`: the loop returns through trivial accept/reject with `Post`;
* `specInterval_represents`: the Liang–Barsky interval is the inside set. -/

namespace Plotink
namespace C08

/-- `clip_code` as a function of the four comparison outcomes -/
def codeOf (a b c d : Bool) : Nat :=
  let code := 0
  let code := if a then 1 else code
  let code := if b then code ||| 2 else code
  let code := if c then code ||| 4 else code
  let code := if d then code ||| 8 else code
  code

theorem clipCode_eq (x y : Rat) (r : Rect) :
    clipCode x y r = codeOf (decide (x < r.xmin)) (decide (x > r.xmax)) (decide (y < r.ymin)) (decide (y > r.ymax)) := by
  unfold clipCode codeOf
  simp only [decide_eq_true_eq]

theorem codeOf_bit1 : ∀ a b c d, (codeOf a b c d &&& 1 ≠ 0) ↔ a = true := by decide
theorem codeOf_bit2 : ∀ a b c d, (codeOf a b c d &&& 2 ≠ 0) ↔ b = true := by decide
theorem codeOf_bit4 : ∀ a b c d, (codeOf a b c d &&& 4 ≠ 0) ↔ c = true := by decide
theorem codeOf_bit8 : ∀ a b c d, (codeOf a b c d &&& 8 ≠ 0) ↔ d = true := by decide
theorem codeOf_zero : ∀ a b c d, (codeOf a b c d = 0) ↔ (a = false ∧ b = false ∧ c = false ∧ d = false) := by decide
theorem codeOf_and : ∀ a b c d a' b' c' d', (codeOf a b c d &&& codeOf a' b' c' d' ≠ 0) ↔
    ((a = true ∧ a' = true) ∨ (b = true ∧ b' = true) ∨ (c = true ∧ c' = true) ∨ (d = true ∧ d' = true)) := by decide

/-- the four boundary lines -/
inductive Side | L | R | T | B
  deriving DecidableEq

/-- signed distance by which `p` is outside boundary line `sd` (positive = strictly outside) -/
def sdist (r : Rect) : Side → Pt → Rat
  | .L, p => r.xmin - p.x
  | .R, p => p.x - r.xmax
  | .T, p => r.ymin - p.y
  | .B, p => p.y - r.ymax

def Out (r : Rect) (sd : Side) (p : Pt) : Prop := 0 < sdist r sd p

def code (r : Rect) (p : Pt) : Nat := clipCode p.x p.y r

theorem code_bit1 (r : Rect) (p : Pt) : code r p &&& 1 ≠ 0 ↔ Out r .L p := by
  simp only [code, clipCode_eq, codeOf_bit1, decide_eq_true_eq, Out, sdist, sub_pos]
theorem code_bit2 (r : Rect) (p : Pt) : code r p &&& 2 ≠ 0 ↔ Out r .R p := by
  simp only [code, clipCode_eq, codeOf_bit2, decide_eq_true_eq, Out, sdist, sub_pos, gt_iff_lt]
theorem code_bit4 (r : Rect) (p : Pt) : code r p &&& 4 ≠ 0 ↔ Out r .T p := by
  simp only [code, clipCode_eq, codeOf_bit4, decide_eq_true_eq, Out, sdist, sub_pos]
theorem code_bit8 (r : Rect) (p : Pt) : code r p &&& 8 ≠ 0 ↔ Out r .B p := by
  simp only [code, clipCode_eq, codeOf_bit8, decide_eq_true_eq, Out, sdist, sub_pos, gt_iff_lt]

theorem inside_iff (r : Rect) (p : Pt) : Inside r p ↔ ∀ sd, ¬ Out r sd p := by
  constructor
  · rintro ⟨h1, h2, h3, h4⟩ sd
    cases sd <;> simp only [Out, sdist, sub_pos, not_lt] <;> assumption
  · intro h
    have h1 := h .L; have h2 := h .R; have h3 := h .T; have h4 := h .B
    simp only [Out, sdist, sub_pos, not_lt] at h1 h2 h3 h4
    exact ⟨h1, h2, h3, h4⟩

theorem code_zero (r : Rect) (p : Pt) : code r p = 0 ↔ Inside r p := by
  simp only [code, clipCode_eq, codeOf_zero, decide_eq_false_iff_not, Inside, not_lt, gt_iff_lt]

theorem code_and (r : Rect) (p q : Pt) : code r p &&& code r q ≠ 0 ↔ ∃ sd, Out r sd p ∧ Out r sd q := by
  simp only [code, clipCode_eq, codeOf_and, decide_eq_true_eq, gt_iff_lt]
  constructor
  · rintro (h | h | h | h)
    · exact ⟨.L, by simpa [Out, sdist] using h⟩
    · exact ⟨.R, by simpa [Out, sdist] using h⟩
    · exact ⟨.T, by simpa [Out, sdist] using h⟩
    · exact ⟨.B, by simpa [Out, sdist] using h⟩
  · rintro ⟨sd, h⟩
    cases sd <;> simp only [Out, sdist, sub_pos] at h <;> tauto

@[ext] theorem Pt.ext' {p q : Pt} (hx : p.x = q.x) (hy : p.y = q.y) : p = q := by
  cases p; cases q; simp_all

/-- `sdist` is affine along the segment -/
theorem sdist_on (r : Rect) (sd : Side) (s : Seg) (t : Rat) :
    sdist r sd (On s t) = sdist r sd s.a + t * (sdist r sd s.b - sdist r sd s.a) := by
  cases sd <;> simp only [sdist, On] <;> ring

theorem on_zero (s : Seg) : On s 0 = s.a := by
  apply Pt.ext' <;> simp [On]
theorem on_one (s : Seg) : On s 1 = s.b := by
  apply Pt.ext' <;> simp [On]

theorem on_on (s : Seg) (u v t : Rat) : On ⟨On s u, On s v⟩ t = On s (u + t * (v - u)) := by
  apply Pt.ext' <;> simp only [On] <;> ring


/-- generic 1-D facts: `f1`, `f2` signed distances of the two endpoints from the chosen line -/
theorem w_first (f1 f2 : Rat) (h1 : 0 < f1) (h2 : f2 ≤ 0) :
    0 < f1 / (f1 - f2) ∧ f1 / (f1 - f2) ≤ 1 ∧ f1 + f1 / (f1 - f2) * (f2 - f1) = 0 ∧
    ∀ t, t < f1 / (f1 - f2) → 0 < f1 + t * (f2 - f1) := by
  have hd : 0 < f1 - f2 := by linarith
  refine ⟨div_pos h1 hd, by rw [div_le_one hd]; linarith, by field_simp; ring, ?_⟩
  intro t ht
  rw [lt_div_iff₀ hd] at ht
  nlinarith

theorem w_second (f1 f2 : Rat) (h1 : f1 ≤ 0) (h2 : 0 < f2) :
    0 ≤ f1 / (f1 - f2) ∧ f1 / (f1 - f2) < 1 ∧ f1 + f1 / (f1 - f2) * (f2 - f1) = 0 ∧
    ∀ t, f1 / (f1 - f2) < t → 0 < f1 + t * (f2 - f1) := by
  have hd : f1 - f2 < 0 := by linarith
  refine ⟨div_nonneg_of_nonpos h1 hd.le, by rw [div_lt_one_of_neg hd]; linarith, by
    have : f1 - f2 ≠ 0 := ne_of_lt hd
    field_simp; ring, ?_⟩
  intro t ht
  rw [div_lt_iff_of_neg hd] at ht
  nlinarith

/-- the boundary chosen by the `if code & 1 … elif …` cascade is a line the coded point is strictly
outside of, and the computed point is the point of the current segment on that line -/
theorem newPoint_spec (r : Rect) (s : Seg) (p : Pt) (hne : code r p ≠ 0) :
    ∃ sd, Out r sd p ∧ (sdist r sd s.a ≠ sdist r sd s.b →
      newPoint (code r p) s r = .ok (On s (sdist r sd s.a / (sdist r sd s.a - sdist r sd s.b)))) := by
  unfold newPoint
  have n1 := code_bit1 r p; have n2 := code_bit2 r p; have n4 := code_bit4 r p; have n8 := code_bit8 r p
  by_cases hL : Out r .L p
  · refine ⟨.L, hL, fun hd => ?_⟩
    have hd' : s.b.x - s.a.x ≠ 0 := by
      intro h; apply hd; simp only [sdist]; linarith
    have hd2 : sdist r .L s.a - sdist r .L s.b ≠ 0 := sub_ne_zero.2 hd
    simp only [sdist] at hd2
    rw [if_pos (n1.2 hL), if_neg hd']
    refine congrArg Except.ok ?_
    apply Pt.ext' <;> simp only [On, sdist] <;> field_simp <;> ring
  rw [if_neg (fun h => hL (n1.1 h))]
  by_cases hR : Out r .R p
  · refine ⟨.R, hR, fun hd => ?_⟩
    have hd' : s.b.x - s.a.x ≠ 0 := by
      intro h; apply hd; simp only [sdist]; linarith
    have hd2 : sdist r .R s.a - sdist r .R s.b ≠ 0 := sub_ne_zero.2 hd
    simp only [sdist] at hd2
    rw [if_pos (n2.2 hR), if_neg hd']
    refine congrArg Except.ok ?_
    apply Pt.ext' <;> simp only [On, sdist] <;> field_simp <;> ring
  rw [if_neg (fun h => hR (n2.1 h))]
  by_cases hT : Out r .T p
  · refine ⟨.T, hT, fun hd => ?_⟩
    have hd' : s.b.y - s.a.y ≠ 0 := by
      intro h; apply hd; simp only [sdist]; linarith
    have hd2 : sdist r .T s.a - sdist r .T s.b ≠ 0 := sub_ne_zero.2 hd
    simp only [sdist] at hd2
    rw [if_pos (n4.2 hT), if_neg hd']
    refine congrArg Except.ok ?_
    apply Pt.ext' <;> simp only [On, sdist] <;> field_simp <;> ring
  rw [if_neg (fun h => hT (n4.1 h))]
  by_cases hB : Out r .B p
  · refine ⟨.B, hB, fun hd => ?_⟩
    have hd' : s.b.y - s.a.y ≠ 0 := by
      intro h; apply hd; simp only [sdist]; linarith
    have hd2 : sdist r .B s.a - sdist r .B s.b ≠ 0 := sub_ne_zero.2 hd
    simp only [sdist] at hd2
    rw [if_pos (n8.2 hB), if_neg hd']
    refine congrArg Except.ok ?_
    apply Pt.ext' <;> simp only [On, sdist] <;> field_simp <;> ring
  exfalso
  apply hne
  rw [code_zero, inside_iff]
  intro sd; cases sd <;> assumption


/-- affine interpolation keeps strict outsideness: both ends of a parameter range outside ⇒ all outside -/
theorem lin_pos (a d u v t : Rat) (hu : u ≤ t) (hv : t ≤ v) (h1 : 0 < a + u * d) (h2 : 0 < a + v * d) :
    0 < a + t * d := by
  by_cases hd : 0 ≤ d
  · nlinarith [mul_le_mul_of_nonneg_right hu hd]
  · push Not at hd
    nlinarith [mul_le_mul_of_nonpos_right hv hd.le]

theorem lin_nonpos (a d u v t : Rat) (hu : u ≤ t) (hv : t ≤ v) (h1 : a + u * d ≤ 0) (h2 : a + v * d ≤ 0) :
    a + t * d ≤ 0 := by
  by_cases hd : 0 ≤ d
  · nlinarith [mul_le_mul_of_nonneg_right hv hd]
  · push Not at hd
    nlinarith [mul_le_mul_of_nonpos_right hu hd.le]

theorem out_between (r : Rect) (sd : Side) (s : Seg) (u v t : Rat) (hu : u ≤ t) (hv : t ≤ v)
    (h1 : Out r sd (On s u)) (h2 : Out r sd (On s v)) : Out r sd (On s t) := by
  simp only [Out, sdist_on] at *
  exact lin_pos _ _ u v t hu hv h1 h2

theorem notout_between (r : Rect) (sd : Side) (s : Seg) (u v t : Rat) (hu : u ≤ t) (hv : t ≤ v)
    (h1 : ¬ Out r sd (On s u)) (h2 : ¬ Out r sd (On s v)) : ¬ Out r sd (On s t) := by
  simp only [Out, sdist_on, not_lt] at *
  exact lin_nonpos _ _ u v t hu hv h1 h2

theorem inside_between (r : Rect) (s : Seg) (u v t : Rat) (hu : u ≤ t) (hv : t ≤ v)
    (h1 : Inside r (On s u)) (h2 : Inside r (On s v)) : Inside r (On s t) := by
  rw [inside_iff] at *
  intro sd
  exact notout_between r sd s u v t hu hv (h1 sd) (h2 sd)

/-- `s'` is the part `[u, v]` of `s`, and everything of `s` inside the rectangle lies in that part -/
def Sub (r : Rect) (s s' : Seg) : Prop :=
  ∃ u v, 0 ≤ u ∧ u ≤ v ∧ v ≤ 1 ∧ s'.a = On s u ∧ s'.b = On s v ∧
    ∀ t, 0 ≤ t → t ≤ 1 → Inside r (On s t) → u ≤ t ∧ t ≤ v

theorem Sub.refl (r : Rect) (s : Seg) : Sub r s s :=
  ⟨0, 1, le_refl _, zero_le_one, le_refl _, (on_zero s).symm, (on_one s).symm, fun _ h0 h1 _ => ⟨h0, h1⟩⟩

theorem Sub.trans {r : Rect} {s s' s'' : Seg} (h1 : Sub r s s') (h2 : Sub r s' s'') : Sub r s s'' := by
  obtain ⟨u, v, hu0, huv, hv1, ha, hb, hin⟩ := h1
  obtain ⟨u', v', hu0', huv', hv1', ha', hb', hin'⟩ := h2
  have hs' : s' = ⟨On s u, On s v⟩ := by cases s'; simp_all
  subst hs'
  have hd : 0 ≤ v - u := by linarith
  refine ⟨u + u' * (v - u), u + v' * (v - u), ?_, ?_, ?_, ?_, ?_, ?_⟩
  · nlinarith [mul_nonneg hu0' hd]
  · nlinarith [mul_le_mul_of_nonneg_right huv' hd]
  · nlinarith [mul_le_mul_of_nonneg_right hv1' hd]
  · rw [ha', on_on]
  · rw [hb', on_on]
  · intro t ht0 ht1 hins
    obtain ⟨h3, h4⟩ := hin t ht0 ht1 hins
    by_cases he : v - u = 0
    · rw [he]; constructor <;> linarith
    · have hpos : 0 < v - u := lt_of_le_of_ne hd (Ne.symm he)
      have key : On ⟨On s u, On s v⟩ ((t - u) / (v - u)) = On s t := by
        rw [on_on]; congr 1; field_simp; ring
      have h5 : 0 ≤ (t - u) / (v - u) := div_nonneg (by linarith) hd
      have h6 : (t - u) / (v - u) ≤ 1 := by rw [div_le_one hpos]; linarith
      obtain ⟨h7, h8⟩ := hin' _ h5 h6 (by rw [key]; exact hins)
      rw [le_div_iff₀ hpos] at h7
      rw [div_le_iff₀ hpos] at h8
      constructor <;> linarith



/-- a boundary line is *unresolved* while an endpoint of the current segment is strictly outside it -/
def Unresolved (r : Rect) (sd : Side) (s : Seg) : Prop := Out r sd s.a ∨ Out r sd s.b

open Classical in
/-- indicator of a proposition -/
noncomputable def ind (p : Prop) : Nat := if p then 1 else 0

theorem ind_le_one (p : Prop) : ind p ≤ 1 := by unfold ind; split_ifs <;> omega
theorem ind_mono {p q : Prop} (h : p → q) : ind p ≤ ind q := by
  unfold ind; split_ifs <;> first | omega | (exfalso; tauto)
theorem ind_lt {p q : Prop} (hq : q) (hp : ¬ p) : ind p < ind q := by
  unfold ind; rw [if_pos hq, if_neg hp]; omega
theorem ind_zero {p : Prop} (h : ind p = 0) : ¬ p := by
  intro hp; unfold ind at h; rw [if_pos hp] at h; omega

/-- number of unresolved boundary lines -/
noncomputable def unres (r : Rect) (s : Seg) : Nat :=
  ind (Unresolved r .L s) + ind (Unresolved r .R s) + ind (Unresolved r .T s) + ind (Unresolved r .B s)

theorem unres_le (r : Rect) (s : Seg) : unres r s ≤ 4 := by
  have := ind_le_one (Unresolved r .L s); have := ind_le_one (Unresolved r .R s)
  have := ind_le_one (Unresolved r .T s); have := ind_le_one (Unresolved r .B s)
  unfold unres; omega

theorem unres_lt {r : Rect} {s s' : Seg} (hmono : ∀ sd, Unresolved r sd s' → Unresolved r sd s)
    (sd : Side) (h1 : Unresolved r sd s) (h2 : ¬ Unresolved r sd s') : unres r s' < unres r s := by
  have mL := ind_mono (hmono .L); have mR := ind_mono (hmono .R)
  have mT := ind_mono (hmono .T); have mB := ind_mono (hmono .B)
  have hlt := ind_lt h1 h2
  unfold unres
  cases sd <;> omega

theorem unres_zero {r : Rect} {s : Seg} (h : unres r s = 0) : Inside r s.a ∧ Inside r s.b := by
  unfold unres at h
  have hL := ind_zero (p := Unresolved r .L s) (by omega)
  have hR := ind_zero (p := Unresolved r .R s) (by omega)
  have hT := ind_zero (p := Unresolved r .T s) (by omega)
  have hB := ind_zero (p := Unresolved r .B s) (by omega)
  simp only [Unresolved, not_or] at hL hR hT hB
  rw [inside_iff, inside_iff]
  constructor <;> intro sd <;> cases sd <;> tauto

/-- a convex combination of the endpoints cannot be outside a line neither endpoint is outside of -/
theorem out_on (r : Rect) (sd : Side) (s : Seg) (w : Rat) (h0 : 0 ≤ w) (h1 : w ≤ 1)
    (h : Out r sd (On s w)) : Out r sd s.a ∨ Out r sd s.b := by
  by_contra hc
  push Not at hc
  have := notout_between r sd s 0 1 w h0 h1 (by rw [on_zero]; exact hc.1) (by rw [on_one]; exact hc.2)
  exact this h

/-- one pass of the loop that does not return: the clip succeeds (no exception), the new segment is a
part of the old one containing everything that is inside, and one more boundary line is resolved -/
theorem step_spec (r : Rect) (s : Seg)
    (hacc : ¬ (code r s.a = 0 ∧ code r s.b = 0)) (hrej : ¬ (code r s.a &&& code r s.b ≠ 0)) :
    ∃ p, newPoint (if code r s.a ≠ 0 then code r s.a else code r s.b) s r = .ok p ∧
      (∀ s', s' = (if (if code r s.a ≠ 0 then code r s.a else code r s.b) = code r s.a
                    then (⟨p, s.b⟩ : Seg) else ⟨s.a, p⟩) →
        Sub r s s' ∧ unres r s' < unres r s) := by
  rw [code_and] at hrej
  push Not at hrej
  by_cases h1 : code r s.a ≠ 0
  · -- endpoint 1 is clipped
    rw [if_pos h1]
    obtain ⟨sd, hout, hnp⟩ := newPoint_spec r s s.a h1
    have hb : ¬ Out r sd s.b := hrej sd hout
    have f1 : 0 < sdist r sd s.a := hout
    have f2 : sdist r sd s.b ≤ 0 := not_lt.1 hb
    obtain ⟨w0, w1, wz, wout⟩ := w_first _ _ f1 f2
    refine ⟨_, hnp (by intro h; rw [h] at f1; linarith), ?_⟩
    intro s' hs'
    rw [if_pos rfl] at hs'
    subst hs'
    set w := sdist r sd s.a / (sdist r sd s.a - sdist r sd s.b) with hw
    have hon : ¬ Out r sd (On s w) := by
      simp only [Out, sdist_on, not_lt]; linarith
    constructor
    · refine ⟨w, 1, w0.le, w1, le_refl _, rfl, (on_one s).symm, ?_⟩
      intro t ht0 ht1 hins
      refine ⟨?_, ht1⟩
      by_contra hlt
      push Not at hlt
      have := wout t hlt
      rw [inside_iff] at hins
      apply hins sd
      simp only [Out, sdist_on]; exact this
    · apply unres_lt (sd := sd)
      · intro sd' hu
        rcases hu with hu | hu
        · exact out_on r sd' s w w0.le w1 hu
        · exact Or.inr hu
      · exact Or.inl hout
      · rintro (hu | hu)
        · exact hon hu
        · exact hb hu
  · -- endpoint 2 is clipped
    rw [if_neg h1]
    push Not at h1
    have h2 : code r s.b ≠ 0 := fun h => hacc ⟨h1, h⟩
    have hne : ¬ (code r s.b = code r s.a) := by rw [h1]; exact h2
    obtain ⟨sd, hout, hnp⟩ := newPoint_spec r s s.b h2
    have ha : ¬ Out r sd s.a := by
      rw [code_zero, inside_iff] at h1; exact h1 sd
    have f1 : sdist r sd s.a ≤ 0 := not_lt.1 ha
    have f2 : 0 < sdist r sd s.b := hout
    obtain ⟨w0, w1, wz, wout⟩ := w_second _ _ f1 f2
    refine ⟨_, hnp (by intro h; rw [h] at f1; linarith), ?_⟩
    intro s' hs'
    rw [if_neg hne] at hs'
    subst hs'
    set w := sdist r sd s.a / (sdist r sd s.a - sdist r sd s.b) with hw
    have hon : ¬ Out r sd (On s w) := by
      simp only [Out, sdist_on, not_lt]; linarith
    constructor
    · refine ⟨0, w, le_refl _, w0, w1.le, (on_zero s).symm, rfl, ?_⟩
      intro t ht0 ht1 hins
      refine ⟨ht0, ?_⟩
      by_contra hlt
      push Not at hlt
      have := wout t hlt
      rw [inside_iff] at hins
      apply hins sd
      simp only [Out, sdist_on]; exact this
    · apply unres_lt (sd := sd)
      · intro sd' hu
        rcases hu with hu | hu
        · exact Or.inl hu
        · exact out_on r sd' s w w0 w1.le hu
      · exact Or.inr hout
      · rintro (hu | hu)
        · exact ha hu
        · exact hon hu



/-- what a `return` of the loop guarantees about `(accept, segment)` relative to the segment `s` the
loop was entered with -/
def Post (r : Rect) (s : Seg) (acc : Bool) (s' : Seg) : Prop :=
  Sub r s s' ∧ (acc = true → Inside r s'.a ∧ Inside r s'.b) ∧
    (acc = false → ∃ sd, Out r sd s'.a ∧ Out r sd s'.b)

theorem clipLoop_succ (r : Rect) (fuel iters : Nat) (s : Seg) :
    clipLoop r (fuel + 1) iters s =
      if code r s.a = 0 ∧ code r s.b = 0 then .ok (some (true, s))
      else if code r s.a &&& code r s.b ≠ 0 then .ok (some (false, s))
      else if iters > 3 then .ok none
      else match newPoint (if code r s.a ≠ 0 then code r s.a else code r s.b) s r with
        | Except.error e => Except.error e
        | Except.ok p => clipLoop r fuel (iters + 1)
            (if (if code r s.a ≠ 0 then code r s.a else code r s.b) = code r s.a then ⟨p, s.b⟩ else ⟨s.a, p⟩) := rfl

/-- the loop returns through trivial accept / trivial reject — never an exception, never the failsafe —
provided the passes already made plus the unresolved lines do not exceed four -/
theorem loop_spec (r : Rect) : ∀ (fuel iters : Nat) (s : Seg), iters + unres r s ≤ 4 → fuel + iters = 5 →
    ∃ acc s', clipLoop r fuel iters s = .ok (some (acc, s')) ∧ Post r s acc s' := by
  intro fuel
  induction fuel with
  | zero => intro iters s h1 h2; omega
  | succ fuel ih =>
    intro iters s h1 h2
    rw [clipLoop_succ]
    by_cases hacc : code r s.a = 0 ∧ code r s.b = 0
    · rw [if_pos hacc]
      exact ⟨true, s, rfl, Sub.refl r s, fun _ => ⟨(code_zero r _).1 hacc.1, (code_zero r _).1 hacc.2⟩,
        fun h => Bool.noConfusion h⟩
    rw [if_neg hacc]
    by_cases hrej : code r s.a &&& code r s.b ≠ 0
    · rw [if_pos hrej]
      exact ⟨false, s, rfl, Sub.refl r s, fun h => Bool.noConfusion h, fun _ => (code_and r _ _).1 hrej⟩
    rw [if_neg hrej]
    have hit : ¬ iters > 3 := by
      intro hgt
      have h0 : unres r s = 0 := by omega
      obtain ⟨ha, hb⟩ := unres_zero h0
      exact hacc ⟨(code_zero r _).2 ha, (code_zero r _).2 hb⟩
    rw [if_neg hit]
    obtain ⟨p, hp, hstep⟩ := step_spec r s hacc hrej
    rw [hp]
    obtain ⟨hsub, hdec⟩ := hstep _ rfl
    obtain ⟨acc, s'', hrun, hsub', hA, hR⟩ := ih (iters + 1) (if (if code r s.a ≠ 0 then code r s.a else code r s.b) = code r s.a then ⟨p, s.b⟩ else ⟨s.a, p⟩) (by omega) (by omega)
    exact ⟨acc, s'', hrun, hsub.trans hsub', hA, hR⟩

theorem clip_spec (r : Rect) (s : Seg) :
    ∃ acc s', clipSegment r s = .ok (some (acc, s')) ∧ Post r s acc s' :=
  loop_spec r 5 0 s (by have := unres_le r s; omega) rfl



/-- the optional interval `iv` represents the set `S` of parameters -/
def Represents (iv : Option (Rat × Rat)) (S : Rat → Prop) : Prop :=
  match iv with
  | none => ∀ t, ¬ S t
  | some (a, b) => a ≤ b ∧ ∀ t, S t ↔ a ≤ t ∧ t ≤ b

theorem Represents.congr {iv : Option (Rat × Rat)} {S S' : Rat → Prop} (h : Represents iv S)
    (e : ∀ t, S' t ↔ S t) : Represents iv S' := by
  cases iv with
  | none => intro t ht; exact h t ((e t).1 ht)
  | some ab =>
    obtain ⟨a, b⟩ := ab
    exact ⟨h.1, fun t => (e t).trans (h.2 t)⟩

theorem lbCut_represents (p q : Rat) (iv : Option (Rat × Rat)) (S : Rat → Prop) (h : Represents iv S) :
    Represents (lbCut p q iv) (fun t => S t ∧ p * t ≤ q) := by
  cases iv with
  | none => intro t ht; exact h t ht.1
  | some ab =>
    obtain ⟨t0, t1⟩ := ab
    obtain ⟨h01, hS⟩ := h
    unfold lbCut
    by_cases hp0 : p = 0
    · simp only [hp0, if_true, zero_mul]
      by_cases hq : q < 0
      · rw [if_pos hq]; intro t ht; exact absurd ht.2 (not_le.2 hq)
      · rw [if_neg hq]
        exact ⟨h01, fun t => by beta_reduce; rw [hS t]; constructor
                                · intro hh; exact hh.1
                                · intro hh; exact ⟨hh, not_lt.1 hq⟩⟩
    · simp only [if_neg hp0]
      by_cases hneg : p < 0
      · simp only [if_pos hneg]
        have key : ∀ t, p * t ≤ q ↔ q / p ≤ t := fun t => by
          rw [div_le_iff_of_neg hneg, mul_comm]
        by_cases hc : q / p > t1
        · rw [if_pos hc]; intro t ht
          have := (hS t).1 ht.1; have := (key t).1 ht.2; linarith
        · rw [if_neg hc]
          by_cases hc0 : q / p > t0
          · simp only [if_pos hc0]
            refine ⟨not_lt.1 hc, fun t => ?_⟩
            beta_reduce; rw [hS t, key t]; constructor
            · intro hh; exact ⟨hh.2, hh.1.2⟩
            · intro hh; exact ⟨⟨by linarith, hh.2⟩, hh.1⟩
          · simp only [if_neg hc0]
            refine ⟨h01, fun t => ?_⟩
            beta_reduce; rw [hS t, key t]; constructor
            · intro hh; exact hh.1
            · intro hh; exact ⟨hh, by linarith [not_lt.1 hc0]⟩
      · simp only [if_neg hneg]
        have hpos : 0 < p := lt_of_le_of_ne (not_lt.1 hneg) (Ne.symm hp0)
        have key : ∀ t, p * t ≤ q ↔ t ≤ q / p := fun t => by
          rw [le_div_iff₀ hpos, mul_comm]
        by_cases hc : q / p < t0
        · rw [if_pos hc]; intro t ht
          have := (hS t).1 ht.1; have := (key t).1 ht.2; linarith
        · rw [if_neg hc]
          by_cases hc1 : q / p < t1
          · simp only [if_pos hc1]
            refine ⟨not_lt.1 hc, fun t => ?_⟩
            beta_reduce; rw [hS t, key t]; constructor
            · intro hh; exact ⟨hh.1.1, hh.2⟩
            · intro hh; exact ⟨⟨hh.1, by linarith⟩, hh.2⟩
          · simp only [if_neg hc1]
            refine ⟨h01, fun t => ?_⟩
            beta_reduce; rw [hS t, key t]; constructor
            · intro hh; exact hh.1
            · intro hh; exact ⟨hh, by linarith [not_lt.1 hc1]⟩

/-- the executable Liang–Barsky interval is exactly the set of parameters in `[0,1]` whose point is inside -/
theorem specInterval_represents (r : Rect) (s : Seg) :
    Represents (specInterval r s) (fun t => 0 ≤ t ∧ t ≤ 1 ∧ Inside r (On s t)) := by
  unfold specInterval
  have h0 : Represents (some ((0 : Rat), (1 : Rat))) (fun t => 0 ≤ t ∧ t ≤ 1) :=
    ⟨zero_le_one, fun t => Iff.rfl⟩
  have h1 := lbCut_represents (-(s.b.x - s.a.x)) (s.a.x - r.xmin) _ _ h0
  have h2 := lbCut_represents (s.b.x - s.a.x) (r.xmax - s.a.x) _ _ h1
  have h3 := lbCut_represents (-(s.b.y - s.a.y)) (s.a.y - r.ymin) _ _ h2
  have h4 := lbCut_represents (s.b.y - s.a.y) (r.ymax - s.a.y) _ _ h3
  refine h4.congr (fun t => ?_)
  simp only [Inside, On]
  constructor
  · rintro ⟨a, b, c1, c2, c3, c4⟩
    exact ⟨⟨⟨⟨⟨a, b⟩, by linarith⟩, by linarith⟩, by linarith⟩, by linarith⟩
  · rintro ⟨⟨⟨⟨⟨a, b⟩, c1⟩, c2⟩, c3⟩, c4⟩
    exact ⟨a, b, by linarith, by linarith, by linarith, by linarith⟩


end C08
end Plotink
