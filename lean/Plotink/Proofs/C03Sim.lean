import Plotink.Proofs.C03Basic
/-! # C03 — the driver's linear-time simulation is the Spec's first-tick search -/
namespace Plotink
namespace C03
open Fw

theorem lmSimLoop_eq (rate accel a0 n : Int) (fuel : Nat) : ∀ k : Nat,
    lmSimLoop accel n fuel k (ltRate rate accel k) (ltTotal rate accel k a0) (ltTaken rate accel a0 k) =
      ((List.range' (k + 1) fuel).find? (fun t => decide (ltTaken rate accel a0 t ≥ n))).map
        (fun t => (t, ltTotal rate accel t a0)) := by
  induction fuel with
  | zero => intro k; simp [lmSimLoop]
  | succ fuel ih =>
    intro k
    have hr : ltRate rate accel k + accel = ltRate rate accel (k + 1) := by
      rw [ltRate_eq, ltRate_eq]; push_cast; ring
    have ht : ltTotal rate accel k a0 + ltRate rate accel (k + 1) = ltTotal rate accel (k + 1) a0 :=
      (ltTotal_succ rate accel a0 k).symm
    have hk : ltTaken rate accel a0 k +
        ((ltTotal rate accel (k + 1) a0 / two31 - ltTotal rate accel k a0 / two31).natAbs : Int) =
        ltTaken rate accel a0 (k + 1) := by
      rw [ltTaken_succ]; rfl
    simp only [lmSimLoop, hr, ht, hk, List.range'_succ, List.find?_cons]
    by_cases hp : ltTaken rate accel a0 (k + 1) ≥ n
    · simp [hp]
    · simp only [hp, if_false, decide_false]
      exact ih (k + 1)

/-- `lmSim` (what the driver runs for `c03 spec`) equals the Spec `lmSpecPos` -/
theorem lmSim_eq (n rate accel : Int) (acc : Option Int) (fuel : Nat) :
    lmSim n rate accel (lmStart rate accel acc) fuel = lmSpecPos n rate accel acc fuel := by
  have h := lmSimLoop_eq rate accel (lmStart rate accel acc) n fuel 0
  have e0 : ltRate rate accel 0 = rate - tdiv accel 2 := by rw [ltRate_eq]; simp
  rw [e0, ltTotal_zero, ltTaken_zero] at h
  simp only [zero_add] at h
  simp only [lmSim, lmSpecPos, lmFirstTick, h]
  generalize (List.range' 1 fuel).find? (fun t => decide (ltTaken rate accel (lmStart rate accel acc) t ≥ n)) = o
  cases o with
  | none => rfl
  | some t => simp [ltPos, ltTotal_zero]

end C03
end Plotink
