import Plotink.Proofs.C10
import Mathlib.Algebra.Order.Archimedean.Basic
import Mathlib.Algebra.Order.Field.Rat

/-! Termination of the subdivision for `flat > 0`: every squared edge of the control polygon shrinks
by the factor 4 at each split, and a piece whose three edges are all shorter than `flat` is flat. -/
namespace Plotink
namespace C10
open C09 (Pt distSq pointsInTol atSq)

def sq (a b : Pt) : Rat := (b.1 - a.1) * (b.1 - a.1) + (b.2 - a.2) * (b.2 - a.2)

/-- all three edges of the control polygon have squared length `< M` -/
def EdgesLt (c : Cubic) (M : Rat) : Prop := sq c.p0 c.p1 < M ∧ sq c.p1 c.p2 < M ∧ sq c.p2 c.p3 < M

theorem edges_flat (c : Cubic) (flat : Rat) (h : EdgesLt c (flat * flat)) : FlatPiece c flat := by
  obtain ⟨h1, _, h3⟩ := h
  constructor
  · have := C09.distSq_le_atSq c.p0 c.p3 c.p1 0 (le_refl _) (by norm_num)
    have e : atSq c.p0 c.p3 c.p1 0 = sq c.p0 c.p1 := by unfold atSq sq; ring
    linarith
  · have := C09.distSq_le_atSq c.p0 c.p3 c.p2 1 (by norm_num) (le_refl _)
    have e : atSq c.p0 c.p3 c.p2 1 = sq c.p2 c.p3 := by unfold atSq sq; ring
    linarith

theorem edges_split (c : Cubic) (M : Rat) (h : EdgesLt c M) :
    EdgesLt (splitAt c half).1 (M / 4) ∧ EdgesLt (splitAt c half).2 (M / 4) := by
  obtain ⟨⟨x0, y0⟩, ⟨x1, y1⟩, ⟨x2, y2⟩, ⟨x3, y3⟩⟩ := c
  obtain ⟨h1, h2, h3⟩ := h
  simp only [sq] at h1 h2 h3
  simp only [EdgesLt, sq, splitAt, tpoint, half]
  have a1 := mul_self_nonneg ((x1 - x0) - (x2 - x1)); have a2 := mul_self_nonneg ((y1 - y0) - (y2 - y1))
  have b1 := mul_self_nonneg ((x2 - x1) - (x3 - x2)); have b2 := mul_self_nonneg ((y2 - y1) - (y3 - y2))
  have c1 := mul_self_nonneg ((x1 - x0) - (x3 - x2)); have c2 := mul_self_nonneg ((y1 - y0) - (y3 - y2))
  refine ⟨⟨?_, ?_, ?_⟩, ⟨?_, ?_, ?_⟩⟩ <;> nlinarith

theorem refine_total_piece (flat : Rat) : ∀ (k : Nat) (rest : List Node) (a b : Node) (M : Rat),
    EdgesLt (pieceOf a b) M → M ≤ 4 ^ k * (flat * flat) →
    (∀ b' : Node, b'.p = b.p → b'.hout = b.hout → ∃ fuel r, refine flat fuel b' rest = some r) →
    ∃ fuel r, refine flat fuel a (b :: rest) = some r := by
  intro k
  induction k with
  | zero =>
    intro rest a b M hE hM hcont
    have hflat : isFlat (pieceOf a b) flat = some true := by
      rw [isFlat_iff]; apply edges_flat
      simp only [pow_zero, one_mul] at hM
      exact ⟨lt_of_lt_of_le hE.1 hM, lt_of_lt_of_le hE.2.1 hM, lt_of_lt_of_le hE.2.2 hM⟩
    obtain ⟨fuel, r, hr⟩ := hcont b rfl rfl
    exact ⟨fuel + 1, a :: r, by rw [refine, hflat]; simp [hr]⟩
  | succ k ih =>
    intro rest a b M hE hM hcont
    cases hf : isFlat (pieceOf a b) flat with
    | none => exact absurd hf (isFlat_ne_none _ _)
    | some ok =>
      cases ok with
      | true =>
        obtain ⟨fuel, r, hr⟩ := hcont b rfl rfl
        exact ⟨fuel + 1, a :: r, by rw [refine, hf]; simp [hr]⟩
      | false =>
        obtain ⟨hE1, hE2⟩ := edges_split _ _ hE
        have hM4 : M / 4 ≤ 4 ^ k * (flat * flat) := by rw [pow_succ] at hM; linarith
        have key := ih
          ({ b with hin := (splitAt (pieceOf a b) half).2.p2 } :: rest)
          { a with hout := (splitAt (pieceOf a b) half).1.p1 }
          ⟨(splitAt (pieceOf a b) half).1.p2, (splitAt (pieceOf a b) half).1.p3, (splitAt (pieceOf a b) half).2.p1⟩
          (M / 4) hE1 hM4 (by
            intro n' hp hh
            refine ih rest n' { b with hin := (splitAt (pieceOf a b) half).2.p2 } (M / 4) ?_ hM4 ?_
            · have : pieceOf n' { b with hin := (splitAt (pieceOf a b) half).2.p2 } = (splitAt (pieceOf a b) half).2 := by
                simp only [pieceOf, hp, hh]; rfl
              rw [this]; exact hE2
            · intro b'' hp' hh'; exact hcont b'' hp' hh')
        obtain ⟨fuel, r, hr⟩ := key
        exact ⟨fuel + 1, r, by rw [refine, hf]; exact hr⟩

theorem refine_total (flat : Rat) (hflat : 0 < flat) : ∀ (rest : List Node) (a : Node),
    ∃ fuel r, refine flat fuel a rest = some r := by
  intro rest
  induction rest with
  | nil => intro a; exact ⟨1, [a], rfl⟩
  | cons b rest ih =>
    intro a
    have hpos : 0 < flat * flat := mul_pos hflat hflat
    let M : Rat := sq (pieceOf a b).p0 (pieceOf a b).p1 + sq (pieceOf a b).p1 (pieceOf a b).p2
      + sq (pieceOf a b).p2 (pieceOf a b).p3 + 1
    have hsq : ∀ p q : Pt, 0 ≤ sq p q := fun p q => add_nonneg (mul_self_nonneg _) (mul_self_nonneg _)
    have hE : EdgesLt (pieceOf a b) M := by
      refine ⟨?_, ?_, ?_⟩ <;> simp only [M] <;>
        linarith [hsq (pieceOf a b).p0 (pieceOf a b).p1, hsq (pieceOf a b).p1 (pieceOf a b).p2,
          hsq (pieceOf a b).p2 (pieceOf a b).p3]
    obtain ⟨k, hk⟩ := pow_unbounded_of_one_lt (M / (flat * flat)) (by norm_num : (1 : Rat) < 4)
    have hM : M ≤ 4 ^ k * (flat * flat) := by
      rw [div_lt_iff₀ hpos] at hk; exact hk.le
    exact refine_total_piece flat k rest a b M hE hM (fun b' _ _ => ih b')

end C10
end Plotink
