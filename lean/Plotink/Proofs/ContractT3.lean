import Plotink.Py
import Mathlib.Tactic.Linarith
import Mathlib.Tactic.Ring
import Mathlib.Tactic.NormNum
import Mathlib.Tactic.Positivity
import Mathlib.Algebra.Order.Field.Basic
import Mathlib.Algebra.Order.Field.Power

/-! # Rounding contract used by the T3 proofs (C02, C17)

Private copy of the part of DESIGN §5b that C02/C17 need (same shape as `Proofs/Contract.lean` of C01:
`Rep` is literally the same definition, `T3.Contract` has the fields `f64_exact`, `mp_exact`,
`f64_err`, `mp_err` of `ContractBasic`), in namespace `Plotink.T3` so that the two files can coexist
until the coordinator unifies them. The contract is a *hypothesis* of theorems, never an axiom. -/

namespace Plotink
namespace T3

/-- `x = m · 2^e` with `|m| < 2^p`: a binary floating-point number with at most `p` significant bits -/
def Rep (p : Nat) (x : Rat) : Prop := ∃ (m e : Int), x = (m : Rat) * (2 : Rat) ^ e ∧ |m| < 2 ^ p

/-- round-to-nearest: representable values are returned unchanged, relative error at most `2^-p` -/
structure Contract (R : Rounding) : Prop where
  f64_exact : ∀ x, Rep 53 x → R.f64 x = x
  mp_exact : ∀ p x, Rep p x → R.mp p x = x
  f64_err : ∀ x, |R.f64 x - x| ≤ |x| / 2 ^ 53
  mp_err : ∀ p x, |R.mp p x - x| ≤ |x| / 2 ^ p

theorem rep_int (p : Nat) (n : Int) (h : |n| < 2 ^ p) : Rep p (n : Rat) :=
  ⟨n, 0, by simp, h⟩

theorem rep_half (p : Nat) (n : Int) (h : |n| < 2 ^ p) : Rep p ((n : Rat) / 2) :=
  ⟨n, -1, by rw [zpow_neg_one]; ring, h⟩

theorem rep_div_pow2 (p : Nat) (n : Int) (k : Nat) (h : |n| < 2 ^ p) : Rep p ((n : Rat) / 2 ^ k) :=
  ⟨n, -(k : Int), by rw [zpow_neg, zpow_natCast]; ring, h⟩

/-- non-vacuity: ideal arithmetic meets the contract -/
theorem contract_exact : Contract Rounding.exact where
  f64_exact := fun _ _ => rfl
  mp_exact := fun _ _ _ => rfl
  f64_err := fun x => by
    simp only [Rounding.exact, id, sub_self, abs_zero]; positivity
  mp_err := fun p x => by
    simp only [Rounding.exact, id, sub_self, abs_zero]; positivity

end T3
end Plotink
