import Plotink.Model.C11
import Mathlib.Tactic.Linarith
import Mathlib.Tactic.Ring
import Mathlib.Tactic.FieldSimp
import Mathlib.Algebra.Order.Field.Basic
/-! Numeric lemmas about `C11.vbCore` (the branches of `vb_scale` after parsing). -/
namespace Plotink
namespace C11

theorem ar_iff {w h W H : Rat} (hw : 0 < w) (hh : 0 < h) (hW : 0 < W) (_hH : 0 < H) :
    H / W ≥ h / w ↔ W / w ≤ H / h := by
  rw [ge_iff_le, div_le_div_iff₀ hw hW, div_le_div_iff₀ hw hh]
  constructor <;> intro h <;> nlinarith

theorem alignName_ne_none (ax ay : Pos) : alignName ax ay ≠ sNone := by
  cases ax <;> cases ay <;> decide

/-- what "the viewBox position `p` lands on the page position `p`" means, per axis -/
def Aligned (ax ay : Pos) (x y w h W H : Rat) (t : Xf) : Prop :=
  (vbPt ax x w + t.ox) * t.sx = pagePt ax W ∧ (vbPt ay y h + t.oy) * t.sy = pagePt ay H

/-- "fill X" class: meet with the page relatively taller (or equal), or slice with it relatively wider -/
theorem core_fillX (ax ay : Pos) (mos : List Char) (x y w h W H : Rat)
    (hw : 0 < w) (hW : 0 < W)
    (hc : (H / W ≥ h / w ∧ mos = sMeet) ∨ (H / W < h / w ∧ mos = sSlice)) :
    (vbCore (alignName ax ay) mos x y w h W H).sx = W / w ∧
    (vbCore (alignName ax ay) mos x y w h W H).sy = W / w ∧
    Aligned ax ay x y w h W H (vbCore (alignName ax ay) mos x y w h W H) := by
  have hw' := hw.ne'
  have hW' := hW.ne'
  cases ax <;> cases ay <;>
    simp only [Aligned, vbCore, alignName, posName, sNone, sXminYmin, sXmidYmin, sXmaxYmin, sXminYmid, sXmaxYmid,
      sXminYmax, sXmidYmax, sXmaxYmax, hc, vbPt, pagePt] <;>
    simp <;> (try constructor) <;> field_simp <;> (try ring)

/-- "fill Y" class: everything else -/
theorem core_fillY (ax ay : Pos) (mos : List Char) (x y w h W H : Rat)
    (hh : 0 < h) (hW : 0 < W) (hH : 0 < H)
    (hc : ¬ ((H / W ≥ h / w ∧ mos = sMeet) ∨ (H / W < h / w ∧ mos = sSlice))) :
    (vbCore (alignName ax ay) mos x y w h W H).sx = H / h ∧
    (vbCore (alignName ax ay) mos x y w h W H).sy = H / h ∧
    Aligned ax ay x y w h W H (vbCore (alignName ax ay) mos x y w h W H) := by
  have hh' := hh.ne'
  have hW' := hW.ne'
  have hH' := hH.ne'
  cases ax <;> cases ay <;>
    simp only [Aligned, vbCore, alignName, posName, sNone, sXminYmin, sXmidYmin, sXmaxYmin, sXminYmid, sXmaxYmid,
      sXminYmax, sXmidYmax, sXmaxYmax, hc, vbPt, pagePt] <;>
    simp <;> (try constructor) <;> field_simp <;> (try ring)

theorem core_none (mos : List Char) (x y w h W H : Rat) :
    vbCore sNone mos x y w h W H = ⟨W / w, H / h, -x, -y⟩ := by
  simp [vbCore]

theorem sMeet_ne_sSlice : sMeet ≠ sSlice := by decide

/-- the scale SVG prescribes for a uniform fit: the smaller axis ratio for meet, the larger for slice -/
def fitScale (m : MOS) (rx ry : Rat) : Rat :=
  match m with
  | .meet => min rx ry
  | .slice => max rx ry

/-- the uniform scale is the smaller axis ratio for meet and the larger one for slice -/
theorem core_uniform (ax ay : Pos) (m : MOS) (x y w h W H : Rat)
    (hw : 0 < w) (hh : 0 < h) (hW : 0 < W) (hH : 0 < H) :
    let t := vbCore (alignName ax ay) (mosName m) x y w h W H
    t.sx = t.sy ∧ t.sx = fitScale m (W / w) (H / h) ∧
    Aligned ax ay x y w h W H t := by
  intro t
  have key := ar_iff hw hh hW hH
  by_cases hle : W / w ≤ H / h
  · cases m
    · -- meet, page relatively taller or equal: fill X
      obtain ⟨a, b, c⟩ := core_fillX ax ay sMeet x y w h W H hw hW (Or.inl ⟨key.mpr hle, rfl⟩)
      exact ⟨by simp only [t, mosName]; rw [a, b], by simp only [t, mosName, fitScale]; rw [a, min_eq_left hle], c⟩
    · -- slice: fill Y
      have hc : ¬ ((H / W ≥ h / w ∧ sSlice = sMeet) ∨ (H / W < h / w ∧ sSlice = sSlice)) := by
        rintro (⟨_, e⟩ | ⟨l, _⟩)
        · exact sMeet_ne_sSlice e.symm
        · exact absurd (key.mpr hle) (not_le.mpr l)
      obtain ⟨a, b, c⟩ := core_fillY ax ay sSlice x y w h W H hh hW hH hc
      exact ⟨by simp only [t, mosName]; rw [a, b], by simp only [t, mosName, fitScale]; rw [a, max_eq_right hle], c⟩
  · have hlt : H / h < W / w := not_le.mp hle
    have hnk : ¬ (H / W ≥ h / w) := fun g => hle (key.mp g)
    cases m
    · have hc : ¬ ((H / W ≥ h / w ∧ sMeet = sMeet) ∨ (H / W < h / w ∧ sMeet = sSlice)) := by
        rintro (⟨g, _⟩ | ⟨_, e⟩)
        · exact hnk g
        · exact sMeet_ne_sSlice e
      obtain ⟨a, b, c⟩ := core_fillY ax ay sMeet x y w h W H hh hW hH hc
      exact ⟨by simp only [t, mosName]; rw [a, b], by simp only [t, mosName, fitScale]; rw [a, min_eq_right hlt.le], c⟩
    · obtain ⟨a, b, c⟩ := core_fillX ax ay sSlice x y w h W H hw hW (Or.inr ⟨not_le.mp hnk, rfl⟩)
      exact ⟨by simp only [t, mosName]; rw [a, b], by simp only [t, mosName, fitScale]; rw [a, max_eq_left hlt.le], c⟩

end C11
end Plotink
