import Plotink.Proofs.C15Io
/-! # C15 — `EBB3.connect`: acceptance implies identification + version; every rejection scenario is refused
with an error and at most two version probes written (core Lean only) -/
namespace Plotink.C15

theorem recordError_err (st : St) (m : Str) : (recordError st m).err ≠ none := by
  unfold recordError; split <;> simp_all

theorem recordError_port (st : St) (m : Str) : (recordError st m).port = st.port := by
  unfold recordError; split <;> rfl

theorem recordError_vparsed (st : St) (m : Str) : (recordError st m).vparsed = st.vparsed := by
  unfold recordError; split <;> rfl

theorem recordError_keeps (st : St) (m : Str) (h : st.err ≠ none) : (recordError st m).err ≠ none := by
  unfold recordError; split <;> simp_all

theorem blocked_of_err {st : St} (h : st.err ≠ none) : blocked st = true := by
  unfold blocked
  cases he : st.err with
  | none => exact absurd he h
  | some _ => simp

theorem blocked_of_port {st : St} (h : st.port = false) : blocked st = true := by
  simp [blocked, h]

/-- `connect` on a disconnected object returns `True` only after an identification whose version
(from the reply, or a stale one when the reply has no version text) is at least the minimum -/
theorem connect_true_general (P : Params) (st : St) (given found caller : Option Str) (io : Io)
    (hp : st.port = false) (hres : (connect P st given found caller io).res = .ok true) :
    ∃ s m, Identifies io s ∧ parseVersion P.minVersion = some m ∧
      ((∃ v, versionOf s = some v ∧ vle m v = true) ∨
       (versionText s = none ∧ ∃ v, st.vparsed = some v ∧ vle m v = true)) := by
  unfold connect at hres
  simp only [hp, Bool.false_eq_true, ↓reduceIte] at hres
  cases found with
  | none => simp at hres
  | some pn =>
    simp only at hres
    by_cases hv : (handshake io).verified = true
    · obtain ⟨s, hs⟩ := (hs_verified_iff io).mp hv
      have hsv := hs_sv io s hs
      obtain ⟨hr, ho⟩ := hs_flags io hv
      simp only [hv, hr, ho, hsv, Bool.not_true, Bool.false_eq_true, ↓reduceIte] at hres
      refine ⟨s, ?_⟩
      unfold parseVersionStmt at hres
      unfold versionOf
      cases hvt : versionText s with
      | none =>
        simp only [hvt] at hres
        unfold minVersion3 at hres
        cases hm : parseVersion P.minVersion with
        | none => simp [hm] at hres
        | some m =>
          simp only [hm] at hres
          cases hsp : st.vparsed with
          | none => simp [hsp] at hres
          | some v =>
            simp only [hsp] at hres
            refine ⟨m, hs, rfl, Or.inr ⟨rfl, v, rfl, ?_⟩⟩
            rw [← versionGe_eq_vle]
            cases hge : versionGe v m with
            | true => rfl
            | false => simp [hge] at hres
      | some t =>
        simp only [hvt] at hres
        cases hpt : parseVersion t with
        | none => simp [hpt] at hres
        | some v =>
          simp only [hpt] at hres
          unfold minVersion3 at hres
          cases hm : parseVersion P.minVersion with
          | none => simp [hm] at hres
          | some m =>
            simp only [hm] at hres
            refine ⟨m, hs, rfl, Or.inl ⟨v, by simp [hpt], ?_⟩⟩
            rw [← versionGe_eq_vle]
            cases hge : versionGe v m with
            | true => rfl
            | false => simp [hge] at hres
    · simp [hv] at hres


theorem not_identifies_of_open {io : Io} (h : openAt io 0 = false) : ¬ ∃ s, Identifies io s := by
  rintro ⟨s, hs⟩; unfold Identifies at hs; simp_all

theorem rejected_cases {m : List Nat} {io : Io} (h : Rejected m io) :
    (¬ ∃ s, Identifies io s) ∨ (∃ s v, Identifies io s ∧ versionOf s = some v ∧ vle m v = false) := by
  cases h with
  | openFail h => exact Or.inl (not_identifies_of_open h)
  | probeRaise h =>
    left; rintro ⟨s, hs⟩; unfold Identifies at hs
    rcases h with h | h | ⟨h0, h | h⟩ <;> simp_all
  | notEbb h0 h1 =>
    left; rintro ⟨s, hs⟩; unfold Identifies at hs; simp_all
  | oldFirmware s v hs hv hlt => exact Or.inr ⟨s, v, hs, hv, hlt⟩

/-- every script is rejected, or identifies an EBB whose reply carries an acceptable version, or identifies an
EBB whose reply has no release-only version text (outside the property's quantifier) -/
theorem scenarios_exhaustive (m : List Nat) (io : Io) :
    Rejected m io ∨ ∃ s, Identifies io s ∧ (versionOf s = none ∨ ∃ v, versionOf s = some v ∧ vle m v = true) := by
  by_cases hv : (handshake io).verified = true
  · obtain ⟨s, hs⟩ := (hs_verified_iff io).mp hv
    cases hvo : versionOf s with
    | none => exact Or.inr ⟨s, hs, Or.inl hvo⟩
    | some v =>
      cases hle : vle m v with
      | true => exact Or.inr ⟨s, hs, Or.inr ⟨v, hvo, hle⟩⟩
      | false => exact Or.inl (.oldFirmware s v hs hvo hle)
  · left
    have hn : ¬ ∃ s, Identifies io s := fun h => hv ((hs_verified_iff io).mpr h)
    by_cases h0 : (rdAt io 0).ebb = true
    · by_cases ho : openAt io 0 = true
      · by_cases hw : wrAt io 0 = .ok
        · exact absurd ⟨_, ho, hw, Or.inl ⟨h0, rfl⟩⟩ hn
        · exact .probeRaise (Or.inl (by cases h : wrAt io 0 <;> simp_all))
      · exact .openFail (by simpa using ho)
    · have h0' : (rdAt io 0).ebb = false := by simpa using h0
      by_cases h1 : (rdAt io 1).ebb = true
      · by_cases ho : openAt io 0 = true
        · by_cases hw : wrAt io 0 = .ok
          · by_cases hr : rdAt io 0 = .raise
            · exact .probeRaise (Or.inr (Or.inl hr))
            · by_cases hw1 : wrAt io 1 = .ok
              · exact absurd ⟨_, ho, hw, Or.inr ⟨h0', hr, hw1, h1, rfl⟩⟩ hn
              · exact .probeRaise (Or.inr (Or.inr ⟨h0', Or.inl (by cases h : wrAt io 1 <;> simp_all)⟩))
          · exact .probeRaise (Or.inl (by cases h : wrAt io 0 <;> simp_all))
        · exact .openFail (by simpa using ho)
      · exact .notEbb h0' (by simpa using h1)

theorem connect_false (P : Params) (st : St) (given found caller : Option Str) (io : Io) (m : List Nat)
    (hp : st.port = false) (hm : parseVersion P.minVersion = some m)
    (hrej : found = none ∨ Rejected m io) :
    (connect P st given found caller io).res = .ok false ∧
    (connect P st given found caller io).st.err ≠ none ∧
    blocked (connect P st given found caller io).st = true ∧
    ∃ k, k ≤ 2 ∧ (connect P st given found caller io).io.written = io.written ++ List.replicate k vProbe ∧
      (found = none ∨ openAt io 0 = false → k = 0) := by
  unfold connect
  simp only [hp, Bool.false_eq_true, ↓reduceIte]
  cases found with
  | none =>
    simp only
    exact ⟨trivial, recordError_err _ _, blocked_of_err (recordError_err _ _), 0, by omega, by simp, fun _ => rfl⟩
  | some pn =>
    simp only
    have hrej' : Rejected m io := by rcases hrej with h | h; simp at h; exact h
    obtain ⟨k, hk, hw, hk1, hk0⟩ := hs_written io
    rcases rejected_cases hrej' with hn | ⟨s, v, hs, hvo, hlt⟩
    · have hv : (handshake io).verified = false := by
        cases h : (handshake io).verified with
        | false => rfl
        | true => exact absurd ((hs_verified_iff io).mp h) hn
      simp only [hv, Bool.not_false, ↓reduceIte]
      refine ⟨trivial, ?_, ?_, k, hk, hw, ?_⟩
      · exact recordError_err _ _
      · exact blocked_of_port rfl
      · rintro (h | h); simp at h; exact hk0 h
    · have hv : (handshake io).verified = true := (hs_verified_iff io).mpr ⟨s, hs⟩
      have hsv := hs_sv io s hs
      obtain ⟨hr, ho⟩ := hs_flags io hv
      simp only [hv, hr, ho, hsv, Bool.not_true, Bool.false_eq_true, ↓reduceIte]
      unfold versionOf at hvo
      cases hvt : versionText s with
      | none => simp [hvt] at hvo
      | some t =>
        simp only [hvt, Option.bind_some] at hvo
        have hge : versionGe v m = false := by rw [versionGe_eq_vle]; exact hlt
        simp only [parseVersionStmt, hvt, hvo, minVersion3, hm, hge]
        refine ⟨trivial, recordError_err _ _, blocked_of_err (recordError_err _ _), k, hk, hw, ?_⟩
        rintro (h | h); simp at h
        unfold Identifies at hs; simp_all

end Plotink.C15
