import Plotink.Proofs.C15Io
/-! # C15 — legacy layer: `min_version` and the gated features (core Lean only) -/
namespace Plotink.C15

/-- the board's version reply passes the gate `thr` -/
def GateOk (io : Io) (thr : Str) : Prop :=
  ∃ reply v g, Reports io reply ∧ versionOf reply = some v ∧ parseVersion thr = some g ∧ vle g v = true

theorem read_written (io : Io) : io.read.2.written = io.written := by
  rw [read_eq]

theorem read_cases {io io' : Io} {l : Str} (h : io.read = (some l, io')) :
    io.reads = .line l :: io'.reads ∨
    (l = [] ∧ (io.reads = .empty :: io'.reads ∨ (io.reads = [] ∧ io'.reads = []))) := by
  unfold Io.read at h
  split at h
  · rename_i h0; simp at h; obtain ⟨h1, h2⟩ := h; subst h2; right; exact ⟨h1, Or.inr ⟨h0, h0⟩⟩
  · rename_i s r h0; simp at h; obtain ⟨h1, h2⟩ := h; subst h2; subst h1; left; exact h0
  · rename_i r h0; simp at h; obtain ⟨h1, h2⟩ := h; subst h2; right; exact ⟨h1, Or.inl h0⟩
  · simp at h

theorem reports_of_read {io io' : Io} {s : Str} (h : io.read = (some [], io')) (hr : Reports io' s) :
    Reports io s := by
  obtain ⟨pre, post, hreads, hpre, hs⟩ := hr
  rcases read_cases h with h1 | ⟨_, h1 | ⟨h1, h2⟩⟩
  · exact ⟨.line [] :: pre, post, by rw [h1, hreads]; rfl, by
      intro r hr; rcases List.mem_cons.mp hr with rfl | hr; rfl; exact hpre r hr, hs⟩
  · exact ⟨.empty :: pre, post, by rw [h1, hreads]; rfl, by
      intro r hr; rcases List.mem_cons.mp hr with rfl | hr; rfl; exact hpre r hr, hs⟩
  · rw [h2] at hreads; simp at hreads

theorem retryL_written (d : Bool) (n : Nat) (r : Resp) (io : Io) :
    (retryL d n r io).2.2.written = io.written := by
  induction n generalizing r io with
  | zero => rfl
  | succ n ih =>
    unfold retryL
    split
    · rfl
    · have hw := read_written io
      split
      · rename_i h; rw [h] at hw; exact hw
      · rename_i h; rw [h] at hw; rw [ih]; exact hw

theorem retryL_reports (d : Bool) (n : Nat) (r : Resp) (io : Io) (s : Str)
    (h : (retryL d n r io).1 = .str s) (hs : s ≠ []) (hr : r.text = []) : Reports io s := by
  induction n generalizing r io with
  | zero =>
    simp only [retryL] at h
    rw [h] at hr; exact absurd hr hs
  | succ n ih =>
    unfold retryL at h
    simp only [hr, List.isEmpty_nil, Bool.not_true, Bool.false_eq_true, ↓reduceIte] at h
    split at h
    · simp only at h; rw [h] at hr; exact absurd hr hs
    · rename_i l io' hrd
      by_cases hl : l = []
      · subst hl
        exact reports_of_read hrd (ih _ io' h (by cases d <;> rfl))
      · have hne : (if d = true then Resp.str l else Resp.bytes l).text = l := by cases d <;> rfl
        have : retryL d n (if d = true then Resp.str l else Resp.bytes l) io' =
            ((if d = true then Resp.str l else Resp.bytes l), false, io') := by
          cases n with
          | zero => rfl
          | succ n =>
            unfold retryL
            simp [hne, hl]
        rw [this] at h
        simp only at h
        have hls : l = s := by
          cases d <;> simp at h
          exact h
        subst hls
        rcases read_cases hrd with h1 | ⟨h1, _⟩
        · exact ⟨[], io'.reads, by simpa using h1, by simp, hs⟩
        · exact absurd h1 hl


theorem write_raise {io io1 : Io} {b : Str} (h : io.write b = (true, io1)) :
    io1.written = io.written ∧ io1.reads = io.reads := by
  rw [write_eq] at h
  simp only [Prod.mk.injEq, decide_eq_true_eq] at h
  obtain ⟨h1, h2⟩ := h
  subst h2; simp [h1]

theorem write_ok {io io1 : Io} {b : Str} (h : io.write b = (false, io1)) :
    io1.written = io.written ++ [b] ∧ io1.reads = io.reads := by
  rw [write_eq] at h
  simp only [Prod.mk.injEq, decide_eq_false_iff_not] at h
  obtain ⟨h1, h2⟩ := h
  subst h2; simp [h1]

theorem read_written' {io io' : Io} {x : Option Str} (h : io.read = (x, io')) : io'.written = io.written := by
  have := read_written io; rw [h] at this; exact this

theorem lqueryExtra_written (P : Params) (io : Io) (cmd : Str) : (lqueryExtra P io cmd).written = io.written := by
  unfold lqueryExtra
  split
  · rfl
  · split
    · rename_i io4 hr; exact read_written' hr
    · rename_i u io4 hr; rw [retryL_written]; exact read_written' hr

theorem lqueryTry_cases (P : Params) (io : Io) (cmd : Str) :
    ((lqueryTry P io cmd).1 = .str [] ∧ (lqueryTry P io cmd).2.written = io.written) ∨
    (lqueryTry P io cmd).2.written = io.written ++ [cmd] := by
  unfold lqueryTry
  split
  · rename_i io1 hw; left; exact ⟨rfl, (write_raise hw).1⟩
  · rename_i io1 hw
    right
    have h1 := (write_ok hw).1
    split
    · rename_i io2 hr; simp only; rw [read_written' hr]; exact h1
    · rename_i l io2 hr
      have h2 := read_written' hr
      have h3 := retryL_written P.decodeRetry P.retryL (.str l) io2
      split
      · rename_i r io3 hl
        rw [hl] at h3; simp only at h3 ⊢; rw [h3, h2, h1]
      · rename_i r io3 hl
        rw [hl] at h3; simp only at h3 ⊢
        rw [lqueryExtra_written, h3, h2, h1]

theorem lqueryTry_written (P : Params) (io : Io) (cmd : Str) :
    (lqueryTry P io cmd).2.written = io.written ∨ (lqueryTry P io cmd).2.written = io.written ++ [cmd] := by
  rcases lqueryTry_cases P io cmd with ⟨_, h⟩ | h
  · exact Or.inl h
  · exact Or.inr h

theorem lqueryTry_written_ok (P : Params) (io : Io) (cmd s : Str)
    (h : (lqueryTry P io cmd).1 = .str s) (hs : s ≠ []) :
    (lqueryTry P io cmd).2.written = io.written ++ [cmd] := by
  rcases lqueryTry_cases P io cmd with ⟨h0, _⟩ | hw
  · rw [h0] at h; simp only [Resp.str.injEq] at h; exact absurd h.symm hs
  · exact hw

theorem lqueryTry_reports (P : Params) (io : Io) (cmd s : Str)
    (h : (lqueryTry P io cmd).1 = .str s) (hs : s ≠ []) : Reports io s := by
  unfold lqueryTry at h
  split at h
  · simp only [Resp.str.injEq] at h; exact absurd h.symm hs
  · rename_i io1 hw
    have hrd := (write_ok hw).2
    have key : Reports io1 s := by
      split at h
      · simp only [Resp.str.injEq] at h; exact absurd h.symm hs
      · rename_i l io2 hr
        have hfirst : ∀ r b io3, retryL P.decodeRetry P.retryL (.str l) io2 = (r, b, io3) → r = .str s →
            Reports io1 s := by
          intro r b io3 hl hrs
          by_cases hl0 : l = []
          · subst hl0
            have : (retryL P.decodeRetry P.retryL (.str []) io2).1 = .str s := by rw [hl]; exact hrs
            exact reports_of_read hr (retryL_reports _ _ _ _ _ this hs rfl)
          · have : retryL P.decodeRetry P.retryL (.str l) io2 = (.str l, false, io2) := by
              cases P.retryL with
              | zero => rfl
              | succ n => unfold retryL; simp [Resp.text, hl0]
            rw [this] at hl
            simp only [Prod.mk.injEq] at hl
            have hls : l = s := by rw [← hl.1] at hrs; simpa using hrs
            subst hls
            rcases read_cases hr with h1 | ⟨h1, _⟩
            · exact ⟨[], io2.reads, by simpa using h1, by simp, hs⟩
            · exact absurd h1 hl0
        split at h
        · rename_i r io3 hl; exact hfirst _ _ _ hl h
        · rename_i r io3 hl; exact hfirst _ _ _ hl h
    obtain ⟨pre, post, h1, h2, h3⟩ := key
    exact ⟨pre, post, by rw [← hrd]; exact h1, h2, h3⟩

theorem lquery_written (P : Params) (io : Io) (cmd : Str) :
    (lquery P io cmd).1.written = io.written ∨ (lquery P io cmd).1.written = io.written ++ [cmd] := by
  have := lqueryTry_written P io cmd
  unfold lquery
  split <;> (rename_i h; rw [h] at this; exact this)

theorem lquery_reports (P : Params) (io : Io) (cmd s : Str)
    (h : (lquery P io cmd).2 = .ok s) (hs : s ≠ []) : Reports io s := by
  unfold lquery at h
  split at h
  · rename_i s' io' h'
    simp only [Except.ok.injEq] at h
    subst h
    exact lqueryTry_reports P io cmd s' (by rw [h']) hs
  · simp at h

theorem lcommand_written (P : Params) (io : Io) (cmd : Str) :
    (lcommand P io cmd).written = io.written ∨ (lcommand P io cmd).written = io.written ++ [cmd] := by
  unfold lcommand
  split
  · rename_i io1 hw; left; exact (write_raise hw).1
  · rename_i io1 hw
    right
    split
    · rename_i io2 hr; rw [read_written' hr]; exact (write_ok hw).1
    · rename_i l io2 hr
      rw [retryL_written, read_written' hr]; exact (write_ok hw).1


theorem lquery_written_ok (P : Params) (io : Io) (cmd s : Str)
    (h : (lquery P io cmd).2 = .ok s) (hs : s ≠ []) : (lquery P io cmd).1.written = io.written ++ [cmd] := by
  unfold lquery at h ⊢
  split at h
  · rename_i s' io' h'
    simp only [Except.ok.injEq] at h
    subst h
    have := lqueryTry_written_ok P io cmd s' (by rw [h']) hs
    rw [h'] at this; exact this
  · simp at h

theorem versionText_nil : versionText [] = none := by decide

theorem lminVersion_written (P : Params) (io : Io) (thr : Str) :
    (lminVersion P io thr).1.written = io.written ∨ (lminVersion P io thr).1.written = io.written ++ [vQuery] := by
  have := lquery_written P io vQuery
  unfold lminVersion
  split
  · rename_i io1 e h; rw [h] at this; exact this
  · rename_i io1 reply h
    rw [h] at this
    split
    · exact this
    · split <;> exact this

theorem lminVersion_truthy (P : Params) (io : Io) (thr : Str) (vs : Option Bool)
    (h : (lminVersion P io thr).2 = .ok vs) (ht : truthy vs = true) :
    GateOk io thr ∧ (lminVersion P io thr).1.written = io.written ++ [vQuery] := by
  unfold lminVersion at h
  split at h
  · simp at h
  · rename_i io1 reply hq
    split at h
    · simp only [Except.ok.injEq] at h; subst h; simp [truthy] at ht
    · rename_i t hvt
      split at h
      · rename_i v g hv hg
        simp only [Except.ok.injEq] at h
        subst h
        have hge : versionGe v g = true := by
          cases hc : versionGe v g with
          | true => rfl
          | false => simp [truthy, hc] at ht
        have hne : reply ≠ [] := by
          rintro rfl; rw [versionText_nil] at hvt; simp at hvt
        refine ⟨⟨reply, v, g, lquery_reports P io vQuery reply (by rw [hq]) hne, ?_, hg, ?_⟩, ?_⟩
        · simp [versionOf, hvt, hv]
        · rw [← versionGe_eq_vle]; exact hge
        · have := lquery_written_ok P io vQuery reply (by rw [hq]) hne
          rw [hq] at this
          unfold lminVersion
          simp only [hq, hvt, hv, hg]
          exact this
      · simp at h

/-- shape shared by the five gated features: what reaches the device is nothing, the version query, or the
version query followed by the feature's command — the last only when the version reply passes the gate -/
def GateShape (io io' : Io) (thr cmd : Str) : Prop :=
  io'.written = io.written ∨ io'.written = io.written ++ [vQuery] ∨
  (io'.written = io.written ++ [vQuery, cmd] ∧ GateOk io thr)

theorem gateShape_of (P : Params) (io : Io) (thr cmd : Str) (io2 : Io) (vs : Option Bool)
    (h : (lminVersion P io thr).2 = .ok vs) (ht : truthy vs = true)
    (hw : io2.written = (lminVersion P io thr).1.written ∨ io2.written = (lminVersion P io thr).1.written ++ [cmd]) :
    GateShape io io2 thr cmd := by
  obtain ⟨hg, h1⟩ := lminVersion_truthy P io thr vs h ht
  rcases hw with h2 | h2
  · right; left; rw [h2, h1]
  · right; right; exact ⟨by rw [h2, h1]; simp, hg⟩


theorem gateShape_blocked (P : Params) (io : Io) (thr cmd : Str) :
    GateShape io (lminVersion P io thr).1 thr cmd := by
  rcases lminVersion_written P io thr with h | h
  · exact Or.inl h
  · exact Or.inr (Or.inl h)

theorem truthy_not {vs : Option Bool} (h : ¬ truthy vs = true) : truthy vs = false := by
  cases h' : truthy vs <;> simp_all

theorem gate_queryNickname (P : Params) (io : Io) (verbose : Bool) :
    GateShape io (lqueryNickname P io verbose).1 P.gateNickQuery "QT\r".toList := by
  unfold lqueryNickname
  split
  · rename_i io1 e h
    have := gateShape_blocked P io P.gateNickQuery "QT\r".toList; rw [h] at this; exact this
  · rename_i io1 vs h
    by_cases ht : truthy vs = true
    · simp only [ht, ↓reduceIte]
      have hq := lquery_written P io1 "QT\r".toList
      have key : GateShape io (lquery P io1 "QT\r".toList).1 P.gateNickQuery "QT\r".toList :=
        gateShape_of P io _ _ _ vs (by rw [h]) ht (by rw [h]; exact hq)
      split
      · rename_i io2 e h2; rw [h2] at key; exact key
      · rename_i io2 raw h2; rw [h2] at key
        split
        · exact key
        · split <;> exact key
    · have := gateShape_blocked P io P.gateNickQuery "QT\r".toList; rw [h] at this
      simp only [truthy_not ht, Bool.false_eq_true, ↓reduceIte]
      split <;> exact this

theorem gate_writeNickname (P : Params) (io : Io) (nick : Str) :
    GateShape io (lwriteNickname P io nick).1 P.gateNickWrite ("ST,".toList ++ nick ++ ['\r']) := by
  unfold lwriteNickname
  split
  · rename_i io1 e h
    have := gateShape_blocked P io P.gateNickWrite ("ST,".toList ++ nick ++ ['\r']); rw [h] at this; exact this
  · rename_i io1 vs h
    by_cases ht : truthy vs = true
    · simp only [ht, ↓reduceIte]
      exact gateShape_of P io _ _ _ vs (by rw [h]) ht (by rw [h]; exact lcommand_written P io1 _)
    · have := gateShape_blocked P io P.gateNickWrite ("ST,".toList ++ nick ++ ['\r']); rw [h] at this
      simp only [truthy_not ht, Bool.false_eq_true, ↓reduceIte]
      exact this

theorem gate_reboot (P : Params) (io : Io) :
    GateShape io (lreboot P io).1 P.gateReboot "RB\r".toList := by
  unfold lreboot
  split
  · rename_i io1 e h
    have := gateShape_blocked P io P.gateReboot "RB\r".toList; rw [h] at this; exact this
  · rename_i io1 vs h
    by_cases ht : truthy vs = true
    · simp only [ht, ↓reduceIte]
      exact gateShape_of P io _ _ _ vs (by rw [h]) ht (by rw [h]; exact lcommand_written P io1 _)
    · have := gateShape_blocked P io P.gateReboot "RB\r".toList; rw [h] at this
      simp only [truthy_not ht, Bool.false_eq_true, ↓reduceIte]
      exact this

theorem gate_queryVoltage (P : Params) (io : Io) :
    GateShape io (lqueryVoltage P io).1 P.gateVoltage "QC\r".toList := by
  unfold lqueryVoltage
  split
  · rename_i io1 e h
    have := gateShape_blocked P io P.gateVoltage "QC\r".toList; rw [h] at this; exact this
  · rename_i io1 vs h
    by_cases ht : truthy vs = true
    · simp only [ht, Bool.not_true, Bool.false_eq_true, ↓reduceIte]
      have hq := lquery_written P io1 "QC\r".toList
      have key : GateShape io (lquery P io1 "QC\r".toList).1 P.gateVoltage "QC\r".toList :=
        gateShape_of P io _ _ _ vs (by rw [h]) ht (by rw [h]; exact hq)
      split
      · rename_i io2 e h2; rw [h2] at key; exact key
      · rename_i io2 raw h2; rw [h2] at key
        split
        · exact key
        · split <;> exact key
    · have := gateShape_blocked P io P.gateVoltage "QC\r".toList; rw [h] at this
      simp only [truthy_not ht, Bool.not_false, ↓reduceIte]
      exact this

/-- the `SR` command text of `servo_timeout` -/
def srCmd (timeoutMs : Int) (state : Option Int) : Str :=
  match state with
  | none => "SR,".toList ++ fmtInt timeoutMs ++ ['\r']
  | some s => "SR,".toList ++ fmtInt timeoutMs ++ [','] ++ fmtInt s ++ ['\r']

theorem gate_servoTimeout (P : Params) (io : Io) (timeoutMs : Int) (state : Option Int) :
    GateShape io (lservoTimeout P io timeoutMs state).1 P.gateServo (srCmd timeoutMs state) := by
  unfold lservoTimeout
  split
  · rename_i io1 e h
    have := gateShape_blocked P io P.gateServo (srCmd timeoutMs state); rw [h] at this; exact this
  · rename_i io1 vs h
    by_cases ht : truthy vs = true
    · simp only [ht, Bool.not_true, Bool.false_eq_true, ↓reduceIte]
      exact gateShape_of P io _ _ _ vs (by rw [h]) ht (by rw [h]; exact lcommand_written P io1 _)
    · have := gateShape_blocked P io P.gateServo (srCmd timeoutMs state); rw [h] at this
      simp only [truthy_not ht, Bool.not_false, ↓reduceIte]
      exact this

end Plotink.C15
