import Plotink.Proofs.C19GenStr
import Plotink.Gen.EBB3_find_first
import Plotink.Gen.ebb_serial_listEBBports
import Plotink.Gen.ebb3_serial_list_ebb_ports

/-! # C19 bridges, part 1: `EBB3.find_first` (object state after the call) and the two board listings -/
namespace Plotink
namespace C19Gen
open PyObj Gen LegacyGen
set_option linter.unusedSimpArgs false
set_option linter.unusedVariables false

/-! ## `EBB3.find_first` -/

/-- the first loop: `for port in com_ports_list: if port[1].startswith("EiBotBoard"): ebb_port = port[0]; break` -/
theorem ff_for1_eval (fuel : Nat) (ports : List C19.Port) (env : EBB3_find_first_Env) (w : World EBB3_Obj) :
    ∃ pv, forLoop (fun (env : EBB3_find_first_Env) v => { env with port := v }) EBB3_find_first_fbody1 fuel
        (ports.map encPort) env w
      = .norm { env with port := pv, ebb_port := (match C19.firstBy C19.descMatch ports with
                                                  | some d => .str d
                                                  | Option.none => env.ebb_port) } w := by
  induction ports generalizing env with
  | nil => exact ⟨env.port, rfl⟩
  | cons p ps ih =>
    simp only [List.map_cons, forLoop, C19.firstBy]
    have hbody : EBB3_find_first_fbody1 fuel { env with port := encPort p } w =
        if C19.descMatch p = true then .brk { env with port := encPort p, ebb_port := .str p.dev } w
        else .norm { env with port := encPort p } w := by
      unfold EBB3_find_first_fbody1 EBB3_find_first_if1
      have h1 : op_getitem (.tuple [.str p.dev, .str p.desc, .str p.hwid]) (.int 1) = .ok (.str p.desc) := rfl
      have h0 : op_getitem (.tuple [.str p.dev, .str p.desc, .str p.hwid]) (.int 0) = .ok (.str p.dev) := rfl
      simp only [ifte, encPort, load_tuple, app2_ok, h1, h0, ofP_ok, meth_startswith, ok_apply, truthy_bool, C19.descMatch,
        lit_ebbName, Ebb3.startsWith, block_cons2, block_one, seq, assign, break_, pass]
    rw [hbody]
    by_cases hd : C19.descMatch p = true
    · simp only [hd, ↓reduceIte]
      exact ⟨encPort p, rfl⟩
    · simp only [hd, Bool.false_eq_true, ↓reduceIte]
      obtain ⟨pv, e⟩ := ih { env with port := encPort p }
      exact ⟨pv, e⟩

/-- the second loop, on the hardware id -/
theorem ff_for2_eval (fuel : Nat) (ports : List C19.Port) (env : EBB3_find_first_Env) (w : World EBB3_Obj) :
    ∃ pv, forLoop (fun (env : EBB3_find_first_Env) v => { env with port := v }) EBB3_find_first_fbody2 fuel
        (ports.map encPort) env w
      = .norm { env with port := pv, ebb_port := (match C19.firstBy C19.idMatch ports with
                                                  | some d => .str d
                                                  | Option.none => env.ebb_port) } w := by
  induction ports generalizing env with
  | nil => exact ⟨env.port, rfl⟩
  | cons p ps ih =>
    simp only [List.map_cons, forLoop, C19.firstBy]
    have hbody : EBB3_find_first_fbody2 fuel { env with port := encPort p } w =
        if C19.idMatch p = true then .brk { env with port := encPort p, ebb_port := .str p.dev } w
        else .norm { env with port := encPort p } w := by
      unfold EBB3_find_first_fbody2 EBB3_find_first_if3
      have h2 : op_getitem (.tuple [.str p.dev, .str p.desc, .str p.hwid]) (.int 2) = .ok (.str p.hwid) := rfl
      have h0 : op_getitem (.tuple [.str p.dev, .str p.desc, .str p.hwid]) (.int 0) = .ok (.str p.dev) := rfl
      simp only [ifte, encPort, load_tuple, app2_ok, h2, h0, ofP_ok, meth_startswith, ok_apply, truthy_bool, C19.idMatch,
        lit_vidpid, Ebb3.startsWith, block_cons2, block_one, seq, assign, break_, pass]
    rw [hbody]
    by_cases hd : C19.idMatch p = true
    · simp only [hd, ↓reduceIte]
      exact ⟨encPort p, rfl⟩
    · simp only [hd, Bool.false_eq_true, ↓reduceIte]
      obtain ⟨pv, e⟩ := ih { env with port := encPort p }
      exact ⟨pv, e⟩


/-- **`EBB3.find_first`.**  With `list(comports())` yielding the (encoded) port list, the regenerated method returns
`None` and leaves the object with `port_name` = what the hand model `C19.Ebb3.findFirst` computes from THIS enumeration
— whatever `port_name` (and every other attribute) held before: the theorem has no hypothesis about `w.obj`, so it
covers a fresh object and an object reused after an earlier discovery alike.  Nothing else changes. -/
theorem find_first_bridge (fuel : Nat) (ports : List C19.Port) (w : World EBB3_Obj)
    (hc : w.ext.comports = .ok (.list (ports.map encPort))) :
    EBB3_find_first fuel w =
      .val .none { w with obj := { w.obj with port_name := encOptStr (C19.Ebb3.findFirst ports) } } := by
  unfold EBB3_find_first EBB3_find_first_main
  simp only [PyObj.run, block_cons2, block_one]
  have htry : tryExcept EBB3_find_first_try1 EBB3_find_first_handlers1 fuel
      ⟨.unbound, .unbound, .unbound⟩ w = .norm ⟨.list (ports.map encPort), .unbound, .unbound⟩ w := by
    unfold EBB3_find_first_try1
    simp only [tryExcept, assign, app1, PyObj.bind, ext_comports, hc, ofP, b_list, items, ok]
  rw [seq_norm htry]
  rw [seq_norm (assign_of (set := fun (env : EBB3_find_first_Env) v => { env with ebb_port := v })
    (e := fun _ _ => ok .none) (v := .none) (w' := w) rfl)]
  have hfor1 : ∃ pv, EBB3_find_first_for1 fuel ⟨.list (ports.map encPort), .none, .unbound⟩ w
      = .norm ⟨.list (ports.map encPort), encOptStr (C19.firstBy C19.descMatch ports), pv⟩ w := by
    obtain ⟨pv, e⟩ := ff_for1_eval fuel ports ⟨.list (ports.map encPort), .none, .unbound⟩ w
    refine ⟨pv, ?_⟩
    unfold EBB3_find_first_for1
    simp only [PyObj.forIn, load_list, ok_apply, items, e]
    cases C19.firstBy C19.descMatch ports <;> rfl
  obtain ⟨pv1, e1⟩ := hfor1
  rw [seq_norm e1]
  unfold C19.Ebb3.findFirst
  cases h1 : C19.firstBy C19.descMatch ports with
  | some d =>
    have hif : EBB3_find_first_if2 fuel ⟨.list (ports.map encPort), encOptStr (some d), pv1⟩ w
        = .norm ⟨.list (ports.map encPort), .str d, pv1⟩ w := by
      unfold EBB3_find_first_if2
      simp only [ifte, encOptStr, load_str, app1_ok, op_is_none, isNone, ofP_ok, ok_apply, truthy_bool, Bool.false_eq_true,
        ↓reduceIte, pass]
    rw [seq_norm hif]
    simp only [setattr, load_str, ok_apply, encOptStr]
  | none =>
    have hif : ∃ pv, EBB3_find_first_if2 fuel ⟨.list (ports.map encPort), encOptStr Option.none, pv1⟩ w
        = .norm ⟨.list (ports.map encPort), encOptStr (C19.firstBy C19.idMatch ports), pv⟩ w := by
      obtain ⟨pv, e⟩ := ff_for2_eval fuel ports ⟨.list (ports.map encPort), .none, pv1⟩ w
      refine ⟨pv, ?_⟩
      unfold EBB3_find_first_if2 EBB3_find_first_for2
      simp only [ifte, encOptStr, load_none, app1_ok, op_is_none, isNone, ofP_ok, ok_apply, truthy_bool, ↓reduceIte, PyObj.forIn,
        load_list, items, e]
      cases C19.firstBy C19.idMatch ports <;> rfl
    obtain ⟨pv2, e2⟩ := hif
    rw [seq_norm e2]
    cases h2 : C19.firstBy C19.idMatch ports with
    | some d => simp only [setattr, encOptStr, load_str, ok_apply]
    | none => simp only [setattr, encOptStr, load_none, ok_apply]

/-! ## `listEBBports` -/

/-- one pass of the loop body, on a list accumulated so far -/
theorem ebb_serial_listEBBports_body (fuel : Nat) (p : C19.Port) (cpl pv hv : Val) (acc : List Val) (w : World NoObj) :
    ebb_serial_listEBBports_fbody1 fuel ⟨cpl, .list acc, encPort p, hv⟩ w =
      .norm ⟨cpl, .list (acc ++ (C19.listLoop [p]).map encPort), encPort p,
             .bool (if C19.descMatch p then true else if C19.idMatch p then true else false)⟩ w := by
  unfold ebb_serial_listEBBports_fbody1 ebb_serial_listEBBports_if1 ebb_serial_listEBBports_if2 ebb_serial_listEBBports_if3
  have h1 : op_getitem (.tuple [.str p.dev, .str p.desc, .str p.hwid]) (.int 1) = .ok (.str p.desc) := rfl
  have h2 : op_getitem (.tuple [.str p.dev, .str p.desc, .str p.hwid]) (.int 2) = .ok (.str p.hwid) := rfl
  by_cases hd : C19.descMatch p = true
  · have hd' : List.isPrefixOf ['E', 'i', 'B', 'o', 't', 'B', 'o', 'a', 'r', 'd'] p.desc = true := by
      rw [← lit_ebbName]; exact hd
    simp only [block_cons2, block_one, seq, assign, ok_apply, ifte, encPort, load_tuple, app2_ok, h1, h2, ofP_ok,
      startswith_str, hd', truthy_bool, ↓reduceIte, load_bool, load_list, meth_append, C19.listLoop, hd, List.map_cons,
      List.map_nil]
  · have hd' : List.isPrefixOf ['E', 'i', 'B', 'o', 't', 'B', 'o', 'a', 'r', 'd'] p.desc = false := by
      rw [← lit_ebbName]; exact (Bool.not_eq_true _).mp hd
    have hdf : C19.descMatch p = false := by simpa using hd
    by_cases hi : C19.idMatch p = true
    · have hi' : List.isPrefixOf ['U', 'S', 'B', ' ', 'V', 'I', 'D', ':', 'P', 'I', 'D', '=', '0', '4', 'D', '8', ':', 'F', 'D', '9', '2'] p.hwid = true := by
        rw [← lit_vidpid]; exact hi
      simp only [block_cons2, block_one, seq, assign, ok_apply, ifte, encPort, load_tuple, app2_ok, h1, h2, ofP_ok,
        startswith_str, hd', hi', truthy_bool, ↓reduceIte, load_bool, load_list, meth_append, C19.listLoop, hdf, hi,
        List.map_cons, List.map_nil, Bool.false_eq_true]
    · have hi' : List.isPrefixOf ['U', 'S', 'B', ' ', 'V', 'I', 'D', ':', 'P', 'I', 'D', '=', '0', '4', 'D', '8', ':', 'F', 'D', '9', '2'] p.hwid = false := by
        rw [← lit_vidpid]; exact (Bool.not_eq_true _).mp hi
      have hif : C19.idMatch p = false := by simpa using hi
      simp only [block_cons2, block_one, seq, assign, ok_apply, ifte, encPort, load_tuple, app2_ok, h1, h2, ofP_ok,
        startswith_str, hd', hi', truthy_bool, ↓reduceIte, load_bool, load_list, meth_append, C19.listLoop, hdf, hif,
        List.map_nil, Bool.false_eq_true, pass, List.append_nil]

theorem listLoop_cons (p : C19.Port) (ps : List C19.Port) :
    C19.listLoop (p :: ps) = C19.listLoop [p] ++ C19.listLoop ps := by
  cases hd : C19.descMatch p <;> cases hi : C19.idMatch p <;> simp [C19.listLoop, hd, hi]

/-- the loop appends exactly the ports the model keeps -/
theorem ebb_serial_listEBBports_loop (fuel : Nat) (ports : List C19.Port) (cpl pv hv : Val) (acc : List Val) (w : World NoObj) :
    ∃ pv' hv', forLoop (fun (env : ebb_serial_listEBBports_Env) v => { env with port := v }) ebb_serial_listEBBports_fbody1 fuel
        (ports.map encPort) ⟨cpl, .list acc, pv, hv⟩ w
      = .norm ⟨cpl, .list (acc ++ (C19.listLoop ports).map encPort), pv', hv'⟩ w := by
  induction ports generalizing acc pv hv with
  | nil => exact ⟨pv, hv, by simp [forLoop, C19.listLoop]⟩
  | cons p ps ih =>
    simp only [List.map_cons, forLoop]
    rw [ebb_serial_listEBBports_body fuel p cpl pv hv acc w]
    dsimp only
    obtain ⟨pv', hv', e⟩ := ih (encPort p) _ (acc ++ (C19.listLoop [p]).map encPort)
    refine ⟨pv', hv', ?_⟩
    rw [e, listLoop_cons p ps, List.map_append, List.append_assoc]

def encPorts : Option (List C19.Port) → Val
  | some l => .list (l.map encPort)
  | Option.none => .none

/-- **`listEBBports (legacy)`.**  With `list(comports())` yielding the (encoded) port list, the regenerated function returns what
the hand model `C19.Legacy.listPorts` returns (the kept ports in order, `None` when there are none) and touches nothing. -/
theorem ebb_serial_listEBBports_bridge (fuel : Nat) (ports : List C19.Port) (w : World NoObj)
    (hc : w.ext.comports = .ok (.list (ports.map encPort))) :
    ebb_serial_listEBBports fuel w = .val (encPorts (C19.Legacy.listPorts ports)) w := by
  unfold ebb_serial_listEBBports ebb_serial_listEBBports_main
  simp only [PyObj.run, block_cons2, block_one]
  have htry : tryExcept ebb_serial_listEBBports_try1 ebb_serial_listEBBports_handlers1 fuel
      ⟨.unbound, .unbound, .unbound, .unbound⟩ w = .norm ⟨.list (ports.map encPort), .unbound, .unbound, .unbound⟩ w := by
    unfold ebb_serial_listEBBports_try1
    simp only [tryExcept, assign, app1, PyObj.bind, ext_comports, hc, ofP, b_list, items, ok]
  rw [seq_norm htry]
  rw [seq_norm (assign_of (set := fun (env : ebb_serial_listEBBports_Env) v => { env with ebb_ports_list := v })
    (e := fun _ _ => mkList []) (v := .list []) (w' := w) rfl)]
  obtain ⟨pv', hv', e⟩ := ebb_serial_listEBBports_loop fuel ports (.list (ports.map encPort)) .unbound .unbound [] w
  have hfor : ebb_serial_listEBBports_for1 fuel ⟨.list (ports.map encPort), .list [], .unbound, .unbound⟩ w
      = .norm ⟨.list (ports.map encPort), .list ((C19.listLoop ports).map encPort), pv', hv'⟩ w := by
    unfold ebb_serial_listEBBports_for1
    simp only [PyObj.forIn, load_list, ok_apply, items, e, List.nil_append]
  rw [seq_norm hfor]
  unfold C19.Legacy.listPorts ebb_serial_listEBBports_if4
  cases hl : C19.listLoop ports with
  | nil =>
    simp only [seq, ifte, load_list, ok_apply, List.map_nil, truthy, List.isEmpty_nil, Bool.not_true, Bool.false_eq_true,
      ↓reduceIte, pass, return_, encPorts]
  | cons a t =>
    simp only [seq, ifte, load_list, ok_apply, List.map_cons, truthy, List.isEmpty_cons, Bool.not_false,
      ↓reduceIte, return_, encPorts, Bool.false_eq_true]

/-! ## `list_ebb_ports` (EBB3 layer) -/

/-- one pass of the loop body, on a list accumulated so far -/
theorem ebb3_serial_list_ebb_ports_body (fuel : Nat) (p : C19.Port) (cpl pv hv : Val) (acc : List Val) (w : World NoObj) :
    ebb3_serial_list_ebb_ports_fbody1 fuel ⟨cpl, .list acc, encPort p, hv⟩ w =
      .norm ⟨cpl, .list (acc ++ (C19.listLoop [p]).map encPort), encPort p,
             .bool (if C19.descMatch p then true else if C19.idMatch p then true else false)⟩ w := by
  unfold ebb3_serial_list_ebb_ports_fbody1 ebb3_serial_list_ebb_ports_if1 ebb3_serial_list_ebb_ports_if2 ebb3_serial_list_ebb_ports_if3
  have h1 : op_getitem (.tuple [.str p.dev, .str p.desc, .str p.hwid]) (.int 1) = .ok (.str p.desc) := rfl
  have h2 : op_getitem (.tuple [.str p.dev, .str p.desc, .str p.hwid]) (.int 2) = .ok (.str p.hwid) := rfl
  by_cases hd : C19.descMatch p = true
  · have hd' : List.isPrefixOf ['E', 'i', 'B', 'o', 't', 'B', 'o', 'a', 'r', 'd'] p.desc = true := by
      rw [← lit_ebbName]; exact hd
    simp only [block_cons2, block_one, seq, assign, ok_apply, ifte, encPort, load_tuple, app2_ok, h1, h2, ofP_ok,
      startswith_str, hd', truthy_bool, ↓reduceIte, load_bool, load_list, meth_append, C19.listLoop, hd, List.map_cons,
      List.map_nil]
  · have hd' : List.isPrefixOf ['E', 'i', 'B', 'o', 't', 'B', 'o', 'a', 'r', 'd'] p.desc = false := by
      rw [← lit_ebbName]; exact (Bool.not_eq_true _).mp hd
    have hdf : C19.descMatch p = false := by simpa using hd
    by_cases hi : C19.idMatch p = true
    · have hi' : List.isPrefixOf ['U', 'S', 'B', ' ', 'V', 'I', 'D', ':', 'P', 'I', 'D', '=', '0', '4', 'D', '8', ':', 'F', 'D', '9', '2'] p.hwid = true := by
        rw [← lit_vidpid]; exact hi
      simp only [block_cons2, block_one, seq, assign, ok_apply, ifte, encPort, load_tuple, app2_ok, h1, h2, ofP_ok,
        startswith_str, hd', hi', truthy_bool, ↓reduceIte, load_bool, load_list, meth_append, C19.listLoop, hdf, hi,
        List.map_cons, List.map_nil, Bool.false_eq_true]
    · have hi' : List.isPrefixOf ['U', 'S', 'B', ' ', 'V', 'I', 'D', ':', 'P', 'I', 'D', '=', '0', '4', 'D', '8', ':', 'F', 'D', '9', '2'] p.hwid = false := by
        rw [← lit_vidpid]; exact (Bool.not_eq_true _).mp hi
      have hif : C19.idMatch p = false := by simpa using hi
      simp only [block_cons2, block_one, seq, assign, ok_apply, ifte, encPort, load_tuple, app2_ok, h1, h2, ofP_ok,
        startswith_str, hd', hi', truthy_bool, ↓reduceIte, load_bool, load_list, meth_append, C19.listLoop, hdf, hif,
        List.map_nil, Bool.false_eq_true, pass, List.append_nil]

/-- the loop appends exactly the ports the model keeps -/
theorem ebb3_serial_list_ebb_ports_loop (fuel : Nat) (ports : List C19.Port) (cpl pv hv : Val) (acc : List Val) (w : World NoObj) :
    ∃ pv' hv', forLoop (fun (env : ebb3_serial_list_ebb_ports_Env) v => { env with port := v }) ebb3_serial_list_ebb_ports_fbody1 fuel
        (ports.map encPort) ⟨cpl, .list acc, pv, hv⟩ w
      = .norm ⟨cpl, .list (acc ++ (C19.listLoop ports).map encPort), pv', hv'⟩ w := by
  induction ports generalizing acc pv hv with
  | nil => exact ⟨pv, hv, by simp [forLoop, C19.listLoop]⟩
  | cons p ps ih =>
    simp only [List.map_cons, forLoop]
    rw [ebb3_serial_list_ebb_ports_body fuel p cpl pv hv acc w]
    dsimp only
    obtain ⟨pv', hv', e⟩ := ih (encPort p) _ (acc ++ (C19.listLoop [p]).map encPort)
    refine ⟨pv', hv', ?_⟩
    rw [e, listLoop_cons p ps, List.map_append, List.append_assoc]

/-- **`list_ebb_ports (EBB3 layer)`.**  With `list(comports())` yielding the (encoded) port list, the regenerated function returns what
the hand model `C19.Ebb3.listPorts` returns (the kept ports in order, `None` when there are none) and touches nothing. -/
theorem ebb3_serial_list_ebb_ports_bridge (fuel : Nat) (ports : List C19.Port) (w : World NoObj)
    (hc : w.ext.comports = .ok (.list (ports.map encPort))) :
    ebb3_serial_list_ebb_ports fuel w = .val (encPorts (C19.Ebb3.listPorts ports)) w := by
  unfold ebb3_serial_list_ebb_ports ebb3_serial_list_ebb_ports_main
  simp only [PyObj.run, block_cons2, block_one]
  have htry : tryExcept ebb3_serial_list_ebb_ports_try1 ebb3_serial_list_ebb_ports_handlers1 fuel
      ⟨.unbound, .unbound, .unbound, .unbound⟩ w = .norm ⟨.list (ports.map encPort), .unbound, .unbound, .unbound⟩ w := by
    unfold ebb3_serial_list_ebb_ports_try1
    simp only [tryExcept, assign, app1, PyObj.bind, ext_comports, hc, ofP, b_list, items, ok]
  rw [seq_norm htry]
  rw [seq_norm (assign_of (set := fun (env : ebb3_serial_list_ebb_ports_Env) v => { env with ebb_ports_list := v })
    (e := fun _ _ => mkList []) (v := .list []) (w' := w) rfl)]
  obtain ⟨pv', hv', e⟩ := ebb3_serial_list_ebb_ports_loop fuel ports (.list (ports.map encPort)) .unbound .unbound [] w
  have hfor : ebb3_serial_list_ebb_ports_for1 fuel ⟨.list (ports.map encPort), .list [], .unbound, .unbound⟩ w
      = .norm ⟨.list (ports.map encPort), .list ((C19.listLoop ports).map encPort), pv', hv'⟩ w := by
    unfold ebb3_serial_list_ebb_ports_for1
    simp only [PyObj.forIn, load_list, ok_apply, items, e, List.nil_append]
  rw [seq_norm hfor]
  unfold C19.Ebb3.listPorts ebb3_serial_list_ebb_ports_if4
  cases hl : C19.listLoop ports with
  | nil =>
    simp only [seq, ifte, load_list, ok_apply, List.map_nil, truthy, List.isEmpty_nil, Bool.not_true, Bool.false_eq_true,
      ↓reduceIte, pass, return_, encPorts]
  | cons a t =>
    simp only [seq, ifte, load_list, ok_apply, List.map_cons, truthy, List.isEmpty_cons, Bool.not_false,
      ↓reduceIte, return_, encPorts, Bool.false_eq_true]

end C19Gen
end Plotink
