import Plotink.Proofs.C03Mirror
import Plotink.Proofs.PyLemmas
import Plotink.Gen.calculate_lm
import Plotink.Gen.moveTimeLM
/-! # C03 — glue: start accumulator, domain predicate, generated-code helpers -/
namespace Plotink
namespace C03
open Fw

theorem fmb_iff (rate accel : Int) :
    firstMotionBackward (ltRate rate accel) 1 2 = true ↔ isNeg rate accel := by
  simp only [firstMotionBackward, ltRate_eq]
  unfold isNeg r1
  push_cast
  have e : rate - tdiv accel 2 + 2 * accel = (rate - tdiv accel 2 + accel) + accel := by ring
  simp only [e, one_mul]
  rcases lt_trichotomy (rate - tdiv accel 2 + accel) 0 with h | h | h
  · simp [h]
  · rw [h]
    rcases lt_trichotomy accel 0 with h' | h' | h'
    · simp [h']
    · subst h'; simp
    · simp [h', not_lt.mpr (le_of_lt h')]
  · simp [h, not_lt.mpr (le_of_lt h), ne_of_gt h]

/-- the model's "clear" handling is the firmware's cleared accumulator -/
theorem startAcc_eq_lmStart (rate accel : Int) (acc : Option Int) :
    startAcc rate accel acc = lmStart rate accel acc := by
  cases acc with
  | some a => rfl
  | none =>
    simp only [startAcc, lmStart, ltClear]
    by_cases h : isNeg rate accel
    · rw [if_pos h, if_pos ((fmb_iff rate accel).mpr h)]
    · rw [if_neg h, if_neg (fun h' => h ((fmb_iff rate accel).mp h'))]

theorem lmStart_none_range (rate accel : Int) :
    0 ≤ lmStart rate accel none ∧ lmStart rate accel none < two31 := by
  simp only [lmStart, ltClear]
  split_ifs <;> decide

/-- effective (mirrored for the legacy negative-step form) parameter -/
def eff (steps x : Int) : Int := if steps < 0 then -x else x

/-- the property's domain for a request whose Spec result has duration `T`: a given accumulator lies in
`[0, 2^31)` and every per-tick rate up to `T` is within `±(2^31 − 1)`. (That the budget is reached is
expressed by the Spec returning a result.) -/
structure ValidLM (steps rate accel : Int) (acc : Option Int) (T : Int) : Prop where
  acc_range : ∀ a, acc = some a → 0 ≤ a ∧ a < two31
  rates : ∀ k : Nat, 1 ≤ k → (k : Int) ≤ T →
    -(two31 - 1) ≤ ltRate (eff steps rate) (eff steps accel) k ∧
      ltRate (eff steps rate) (eff steps accel) k ≤ two31 - 1

theorem lmStart_range (steps rate accel : Int) (acc : Option Int) (T : Int)
    (hv : ValidLM steps rate accel acc T) (r a : Int) :
    0 ≤ lmStart r a acc ∧ lmStart r a acc < two31 := by
  cases acc with
  | some x => exact hv.acc_range x rfl
  | none => exact lmStart_none_range r a

/-- positive budget: Spec result ⇒ model result -/
theorem lmPos_correct (n rate accel : Int) (acc : Option Int) (fuel : Nat) (res : Int × Int × Int)
    (hn : 1 ≤ n) (hnz : ¬ (rate = 0 ∧ accel = 0))
    (hacc : 0 ≤ lmStart rate accel acc ∧ lmStart rate accel acc < two31)
    (hspec : lmSpecPos n rate accel acc fuel = some res)
    (hR : ∀ k : Nat, 1 ≤ k → (k : Int) ≤ res.1 →
      -(two31 - 1) ≤ ltRate rate accel k ∧ ltRate rate accel k ≤ two31 - 1) :
    lmPos n rate accel acc = res := by
  unfold lmSpecPos at hspec
  simp only at hspec
  cases hft : lmFirstTick rate accel (lmStart rate accel acc) n fuel with
  | none => rw [hft] at hspec; cases hspec
  | some T =>
    rw [hft] at hspec
    simp only [Option.some.injEq] at hspec
    obtain ⟨hF, _⟩ := (lmFirstTick_eq_some_iff rate accel _ n hn fuel T).mp hft
    unfold lmPos
    rw [startAcc_eq_lmStart]
    have C : Ctx rate accel (lmStart rate accel acc) n T :=
      ⟨hn, hacc.1, hacc.2, hF, fun k hk hk' => hR k hk (by rw [← hspec]; show (k : Int) ≤ (T : Int); exact_mod_cast hk')⟩
    rw [lmPosA_correct rate accel _ n T hnz C, ← hspec]
    rfl

open Py Py.Val

theorem eq_int_int (a b : Int) : (Py.eq (Py.int_ (.int a)) (.int b) = true) ↔ a = b := by
  simp [Py.eq, Py.num, Py.int_]
theorem lt_int_int (a b : Int) : (Py.lt (Py.int_ (.int a)) (.int b) = true) ↔ a < b := by
  simp [Py.lt, Py.num, Py.int_]

end C03
end Plotink
