import Plotink.Gen.grid_Index
import Plotink.Proofs.PyLemmas
import Plotink.Proofs.PyEnc
import Plotink.Proofs.C13Near
import Plotink.Proofs.C13Inv
import Plotink.Proofs.C13Scan

/-! # C13 — bridge: the source-regenerated `spatial_grid.Index.nearest` / `remove_path` = the hand model

`Gen.grid_Index_nearest` (four nested loops: `…_body1/loop1` over the neighbourhood cells with `…_body2/loop2` over the
identifiers of a cell, `…_body3/loop3` over all cells with `…_body4/loop4`) and `Gen.grid_Index_remove_path` are
regenerated from `plotink/spatial_grid.py`, `Gen.square_dist` from `plot_utils.py`.  Exact arithmetic; an instance is
the 12-tuple `encGrid g`; `(best_dist, best_index)` is `encBest` (`(inf, None)` before the first candidate).

* `body2`/`body4` — one pass of an innermost loop is the model's `better`; `loop2`/`loop4` = `scan`; `loop1`, `loop3`
  (with the `if cell in neighborhood_cells: continue` test) = `scan` over `nbIds` / `restIds`;
* `bin_bridge` — `max(min(math.floor((v - lo) / size), max_bin), 0)` is `binClamp`; `range_len`; `truthy_best` — the
  `if best_index:` test (false for `None` and for identifier 0);
* `nearest_bridge` (under the state invariant `Inv`, which makes every list access of the code succeed);
* `remove_store`, `remove_bridge`, `removeAll_bridge`.

The constructor (`Gen.grid_Index_init`, `Gen.grid_Index_find_adjacents`) is bridged in `Proofs/C13GenInit.lean`. -/

namespace Plotink
namespace C13
open Py Py.Val
set_option linter.unusedSimpArgs false
set_option linter.unusedVariables false

/-! ### encodings -/
def encPt (p : Pt) : Val := .tup [.flt p.1, .flt p.2]
def encPath (p : Path) : Val := .tup [encPt p.1, encPt p.2]
def encNat (n : Nat) : Val := .int (n : Int)
def encNats (l : List Nat) : Val := .tup (l.map encNat)
def encCells (c : List (List Nat)) : Val := .tup (c.map encNats)
def encPaths (l : List Path) : Val := .tup (l.map encPath)
/-- an `Index` instance: `("Index", grid, adjacents, lookup, path_count, vertices, reverse, bin_size_x, bin_size_y,
xmin, ymin, bins_per_side)` -/
def encGrid (g : Grid) : Val :=
  .tup [.str "Index", encCells g.cells, encCells (adjacents g.bins), encNats g.lookup, .int (g.n : Int), encPaths g.verts,
    .bool_ g.rev, .flt g.bx, .flt g.by_, .flt g.xmin, .flt g.ymin, .int (g.bins : Int)]
/-- the running `(best_dist, best_index)` -/
def encBest : Option (Rat × Nat) → Val × Val
  | none => (Py.posInf, .none_)
  | some (d, i) => (.flt d, .int (i : Int))
def encOptNat : Option Nat → Val
  | none => .none_
  | some i => .int (i : Int)

theorem sq_bridge (amb : Nat) (a b : Pt) : Gen.square_dist Rounding.exact amb (encPt a) (encPt b) = .flt (sqDist a b) := rfl

theorem index_list {α : Type} (f : α → Val) (l : List α) (k : Nat) (a : α) (h : l[k]? = some a) :
    Py.index (.tup (l.map f)) (.int (k : Int)) = f a := by
  have hk : k < l.length := by
    by_contra hc; rw [List.getElem?_eq_none (by omega)] at h; cases h
  have hneg : ¬ ((k : Int) < 0) := by omega
  simp only [Py.index, Py.kind, Py.toInt, List.length_map, hneg, if_false]
  rw [if_pos ⟨by omega, by exact_mod_cast hk⟩, Int.toNat_natCast]
  simp [List.getD, h]

theorem geE_nat (a b : Nat) : Py.geE (.int (a : Int)) (.int (b : Int)) = decide (a ≥ b) := by
  simp [Py.geE, Py.infSign, Py.ge, Py.num]
theorem sub_nat (p : Nat) (a b : Nat) (h : b ≤ a) :
    Py.sub Rounding.exact p (.int (a : Int)) (.int (b : Int)) = .int ((a - b : Nat) : Int) := by
  show Val.int ((a : Int) - b) = _
  congr 1; omega

/-- the identifier names an entry of the vertex table -/
def IdOK (g : Grid) (id : Nat) : Prop := if id ≥ g.n then id - g.n < g.verts.length else id < g.verts.length

theorem ltE_best (d : Rat) (st : Option (Rat × Nat)) :
    Py.ltE (.flt d) (encBest st).1 = (match st with | none => true | some (bd, _) => decide (d < bd)) := by
  cases st with
  | none => simp [encBest, Py.ltE, Py.infSign, Py.posInf]
  | some p => rfl

abbrev KS := Val → Val → Val → Val → Val → Loop (Val × Val × Val × Val × Val)

/-- one pass of the innermost loop (first pair of loops): the model's `better` -/
theorem body2 (amb : Nat) (g : Grid) (q : Pt) (k : KS) (id : Nat) (hid : IdOK g id) (j0 j1 j2 : Val) (st : Option (Rat × Nat)) :
    Gen.grid_Index_nearest_body2 Rounding.exact amb (encGrid g) (encPt q) k (encNat id) j0 j1 j2 (encBest st).1 (encBest st).2 =
    k (encNat id) (encPt (endPt g id)) (.flt (sqDist q (endPt g id))) (encBest (better g q st id)).1 (encBest (better g q st id)).2 := by
  unfold Gen.grid_Index_nearest_body2 IdOK at *
  have f4 : Py.getItem (encGrid g) 4 = .int (g.n : Int) := rfl
  have f5 : Py.getItem (encGrid g) 5 = encPaths g.verts := rfl
  simp only [f4, f5, encNat, geE_nat]
  by_cases hge : id ≥ g.n
  · rw [if_pos hge] at hid
    have hv : g.verts[id - g.n]? = some (g.verts[id - g.n]'hid) := List.getElem?_eq_getElem hid
    simp only [hge, decide_true, if_true, sub_nat amb id g.n hge, encPaths, index_list encPath g.verts (id - g.n) _ hv]
    have he : endPt g id = (g.verts[id - g.n]'hid).2 := by
      simp only [endPt, endPtV, hge, if_true, List.getD, hv, Option.getD_some]
    have hg1 : Py.getItem (encPath (g.verts[id - g.n]'hid)) 1 = encPt (endPt g id) := by rw [he]; rfl
    simp only [hg1, sq_bridge, ltE_best]
    cases st with
    | none => rfl
    | some p =>
      obtain ⟨bd, bi⟩ := p
      simp only [better]
      by_cases hd : sqDist q (endPt g id) < bd <;> simp [hd, encBest]
  · have hlt : id < g.verts.length := by rw [if_neg hge] at hid; exact hid
    have hv : g.verts[id]? = some (g.verts[id]'hlt) := List.getElem?_eq_getElem hlt
    simp only [hge, decide_false, Bool.false_eq_true, if_false, encPaths, index_list encPath g.verts id _ hv]
    have he : endPt g id = (g.verts[id]'hlt).1 := by
      simp only [endPt, endPtV, hge, if_false, List.getD, hv, Option.getD_some]
    have hg1 : Py.getItem (encPath (g.verts[id]'hlt)) 0 = encPt (endPt g id) := by rw [he]; rfl
    simp only [hg1, sq_bridge, ltE_best]
    cases st with
    | none => rfl
    | some p =>
      obtain ⟨bd, bi⟩ := p
      simp only [better]
      by_cases hd : sqDist q (endPt g id) < bd <;> simp [hd, encBest]

/-- one pass of the innermost loop (fallback loops): the model's `better` -/
theorem body4 (amb : Nat) (g : Grid) (q : Pt) (k : KS) (id : Nat) (hid : IdOK g id) (j0 j1 j2 : Val) (st : Option (Rat × Nat)) :
    Gen.grid_Index_nearest_body4 Rounding.exact amb (encGrid g) (encPt q) k (encNat id) j0 j1 j2 (encBest st).1 (encBest st).2 =
    k (encNat id) (encPt (endPt g id)) (.flt (sqDist q (endPt g id))) (encBest (better g q st id)).1 (encBest (better g q st id)).2 := by
  unfold Gen.grid_Index_nearest_body4 IdOK at *
  have f4 : Py.getItem (encGrid g) 4 = .int (g.n : Int) := rfl
  have f5 : Py.getItem (encGrid g) 5 = encPaths g.verts := rfl
  simp only [f4, f5, encNat, geE_nat]
  by_cases hge : id ≥ g.n
  · rw [if_pos hge] at hid
    have hv : g.verts[id - g.n]? = some (g.verts[id - g.n]'hid) := List.getElem?_eq_getElem hid
    simp only [hge, decide_true, if_true, sub_nat amb id g.n hge, encPaths, index_list encPath g.verts (id - g.n) _ hv]
    have he : endPt g id = (g.verts[id - g.n]'hid).2 := by
      simp only [endPt, endPtV, hge, if_true, List.getD, hv, Option.getD_some]
    have hg1 : Py.getItem (encPath (g.verts[id - g.n]'hid)) 1 = encPt (endPt g id) := by rw [he]; rfl
    simp only [hg1, sq_bridge, ltE_best]
    cases st with
    | none => rfl
    | some p =>
      obtain ⟨bd, bi⟩ := p
      simp only [better]
      by_cases hd : sqDist q (endPt g id) < bd <;> simp [hd, encBest]
  · have hlt : id < g.verts.length := by rw [if_neg hge] at hid; exact hid
    have hv : g.verts[id]? = some (g.verts[id]'hlt) := List.getElem?_eq_getElem hlt
    simp only [hge, decide_false, Bool.false_eq_true, if_false, encPaths, index_list encPath g.verts id _ hv]
    have he : endPt g id = (g.verts[id]'hlt).1 := by
      simp only [endPt, endPtV, hge, if_false, List.getD, hv, Option.getD_some]
    have hg1 : Py.getItem (encPath (g.verts[id]'hlt)) 0 = encPt (endPt g id) := by rw [he]; rfl
    simp only [hg1, sq_bridge, ltE_best]
    cases st with
    | none => rfl
    | some p =>
      obtain ⟨bd, bi⟩ := p
      simp only [better]
      by_cases hd : sqDist q (endPt g id) < bd <;> simp [hd, encBest]


theorem loop2 (amb : Nat) (g : Grid) (q : Pt) : ∀ (ids : List Nat), (∀ id ∈ ids, IdOK g id) → ∀ (j0 j1 j2 : Val) (st : Option (Rat × Nat)),
    ∃ k0 k1 k2, Gen.grid_Index_nearest_loop2 Rounding.exact amb (encGrid g) (encPt q) (ids.map encNat) j0 j1 j2 (encBest st).1 (encBest st).2
      = .done (k0, k1, k2, (encBest (scan g q st ids)).1, (encBest (scan g q st ids)).2) := by
  intro ids
  induction ids with
  | nil => intro _ j0 j1 j2 st; exact ⟨_, _, _, rfl⟩
  | cons id ids ih =>
    intro h j0 j1 j2 st
    rw [List.map_cons, Gen.grid_Index_nearest_loop2, body2 amb g q _ id (h id (by simp))]
    exact ih (fun x hx => h x (by simp [hx])) _ _ _ _
theorem loop4 (amb : Nat) (g : Grid) (q : Pt) : ∀ (ids : List Nat), (∀ id ∈ ids, IdOK g id) → ∀ (j0 j1 j2 : Val) (st : Option (Rat × Nat)),
    ∃ k0 k1 k2, Gen.grid_Index_nearest_loop4 Rounding.exact amb (encGrid g) (encPt q) (ids.map encNat) j0 j1 j2 (encBest st).1 (encBest st).2
      = .done (k0, k1, k2, (encBest (scan g q st ids)).1, (encBest (scan g q st ids)).2) := by
  intro ids
  induction ids with
  | nil => intro _ j0 j1 j2 st; exact ⟨_, _, _, rfl⟩
  | cons id ids ih =>
    intro h j0 j1 j2 st
    rw [List.map_cons, Gen.grid_Index_nearest_loop4, body4 amb g q _ id (h id (by simp))]
    exact ih (fun x hx => h x (by simp [hx])) _ _ _ _

/-- the cells named in `cs` exist and hold only identifiers of the vertex table -/
def CellsOK' (g : Grid) (cs : List Nat) : Prop := ∀ c ∈ cs, c < g.cells.length ∧ ∀ id ∈ cellAt g c, IdOK g id

theorem cell_index (g : Grid) (c : Nat) (hc : c < g.cells.length) :
    Py.index (Py.getItem (encGrid g) 1) (encNat c) = encNats (cellAt g c) := by
  have f1 : Py.getItem (encGrid g) 1 = encCells g.cells := rfl
  have hv : g.cells[c]? = some (g.cells[c]'hc) := List.getElem?_eq_getElem hc
  rw [f1, encCells, encNat, index_list encNats g.cells c _ hv]
  simp only [cellAt, List.getD, hv, Option.getD_some]

abbrev KC := Val → Val → Val → Val → Val → Val → Loop (Val × Val × Val × Val × Val × Val)

theorem scan_append (g : Grid) (q : Pt) (st : Option (Rat × Nat)) (a b : List Nat) :
    scan g q st (a ++ b) = scan g q (scan g q st a) b := by
  simp [scan, List.foldl_append]

theorem loop1 (amb : Nat) (g : Grid) (q : Pt) : ∀ (cs : List Nat), CellsOK' g cs → ∀ (j0 j1 j2 j3 : Val) (st : Option (Rat × Nat)),
    ∃ k0 k1 k2 k3, Gen.grid_Index_nearest_loop1 Rounding.exact amb (encGrid g) (encPt q) (cs.map encNat) j0 j1 j2 j3 (encBest st).1 (encBest st).2
      = .done (k0, k1, k2, k3, (encBest (scan g q st (cs.flatMap (cellAt g)))).1, (encBest (scan g q st (cs.flatMap (cellAt g)))).2) := by
  intro cs
  induction cs with
  | nil => intro _ j0 j1 j2 j3 st; exact ⟨_, _, _, _, rfl⟩
  | cons c cs ih =>
    intro h j0 j1 j2 j3 st
    obtain ⟨hc, hids⟩ := h c (by simp)
    rw [List.map_cons, Gen.grid_Index_nearest_loop1]
    unfold Gen.grid_Index_nearest_body1
    simp only [cell_index g c hc, encNats, Py.iter]
    obtain ⟨k0, k1, k2, hl⟩ := loop2 amb g q (cellAt g c) hids j1 j2 j3 st
    rw [hl]
    simp only [List.flatMap_cons, scan_append]
    exact ih (fun x hx => h x (by simp [hx])) _ _ _ _ _

theorem contains_nats (c : Nat) (l : List Nat) : Py.contains (encNat c) (encNats l) = l.contains c := by
  simp only [Py.contains, encNats, encNat]
  induction l with
  | nil => rfl
  | cons x xs ih =>
    simp only [List.map_cons, List.any_cons, ih, List.contains_cons, encNat]
    congr 1
    simp [Py.eq, Py.num, eq_comm, BEq.beq]

theorem loop3 (amb : Nat) (g : Grid) (q : Pt) (nb : List Nat) : ∀ (cs : List Nat), CellsOK' g cs → ∀ (j0 j1 j2 j3 : Val) (st : Option (Rat × Nat)),
    ∃ k0 k1 k2 k3, Gen.grid_Index_nearest_loop3 Rounding.exact amb (encGrid g) (encPt q) (encNats nb) (cs.map encNat) j0 j1 j2 j3 (encBest st).1 (encBest st).2
      = .done (k0, k1, k2, k3, (encBest (scan g q st ((cs.filter (fun c => !(nb.contains c))).flatMap (cellAt g)))).1,
          (encBest (scan g q st ((cs.filter (fun c => !(nb.contains c))).flatMap (cellAt g)))).2) := by
  intro cs
  induction cs with
  | nil => intro _ j0 j1 j2 j3 st; exact ⟨_, _, _, _, rfl⟩
  | cons c cs ih =>
    intro h j0 j1 j2 j3 st
    obtain ⟨hc, hids⟩ := h c (by simp)
    rw [List.map_cons, Gen.grid_Index_nearest_loop3]
    unfold Gen.grid_Index_nearest_body3
    simp only [contains_nats]
    by_cases hin : nb.contains c = true
    · simp only [hin, if_true, List.filter_cons, Bool.not_true, Bool.false_eq_true, if_false]
      exact ih (fun x hx => h x (by simp [hx])) _ _ _ _ _
    · simp only [hin, Bool.false_eq_true, if_false, cell_index g c hc, encNats, Py.iter, List.filter_cons, Bool.not_false, if_true]
      obtain ⟨k0, k1, k2, hl⟩ := loop4 amb g q (cellAt g c) hids j1 j2 j3 st
      rw [hl]
      simp only [List.flatMap_cons, scan_append]
      exact ih (fun x hx => h x (by simp [hx])) _ _ _ _ _


/-! ### the cell of the query, the two scans, the result -/

theorem ltE_int (a b : Int) : Py.ltE (.int a) (.int b) = decide (a < b) := by
  simp [Py.ltE, Py.infSign, Py.lt, Py.num]
theorem gtE_int (a b : Int) : Py.gtE (.int a) (.int b) = decide (a > b) := by
  simp [Py.gtE, Py.infSign, Py.gt, Py.num]

/-- `max(min(math.floor((v - lo) / size), max_bin), 0)` -/
theorem bin_bridge (amb : Nat) (bins : Nat) (lo size x : Rat) (hs : size ≠ 0) :
    Py.maxE [Py.minE [Py.math_floor (Py.truediv Rounding.exact amb (Py.sub Rounding.exact amb (.flt x) (.flt lo)) (.flt size)),
      Py.sub Rounding.exact amb (.int (bins : Int)) (.int 1)], .int 0] = .int (binClamp bins lo size x) := by
  have hdiv : Py.truediv Rounding.exact amb (Py.sub Rounding.exact amb (.flt x) (.flt lo)) (.flt size) = .flt ((x - lo) / size) := by
    simp [Py.truediv, Py.sub, Py.num, Py.join, Py.kind, Py.pack, Rounding.exact, hs]
  rw [hdiv]
  show Py.maxE [Py.minE [.int ((x - lo) / size).floor, .int ((bins : Int) - 1)], .int 0] = _
  simp only [Py.minE, Py.maxE, List.foldl, ltE_int]
  unfold binClamp binHi
  by_cases h1 : (bins : Int) - 1 < ((x - lo) / size).floor
  · simp only [h1, decide_true, if_true, gtE_int]
    rw [min_eq_right (le_of_lt h1)]
    by_cases h2 : (0 : Int) > (bins : Int) - 1
    · simp only [h2, decide_true, if_true]; rw [max_eq_right (le_of_lt h2)]
    · simp only [h2, decide_false, Bool.false_eq_true, if_false]; rw [max_eq_left (not_lt.mp h2)]
  · simp only [h1, decide_false, Bool.false_eq_true, if_false, gtE_int]
    rw [min_eq_left (not_lt.mp h1)]
    by_cases h2 : (0 : Int) > ((x - lo) / size).floor
    · simp only [h2, decide_true, if_true]; rw [max_eq_right (le_of_lt h2)]
    · simp only [h2, decide_false, Bool.false_eq_true, if_false]; rw [max_eq_left (not_lt.mp h2)]

theorem range_len (N : Nat) : Py.range_ [.int (N : Int)] = encNats (List.range N) := by
  simp only [Py.range_, encNats]
  rw [if_neg (by decide), if_pos (by decide)]
  have : (((N : Int) - 0 + 1 - 1) / 1).toNat = N := by simp
  rw [this]
  congr 1
  apply List.map_congr_left
  intro k _
  simp [encNat]

theorem truthy_best (st : Option (Rat × Nat)) :
    Py.truthy (encBest st).2 = (match st with | some (_, i + 1) => true | _ => false) := by
  rcases st with _ | ⟨d, i⟩
  · rfl
  · cases i with
    | zero => rfl
    | succ i => simp [encBest, Py.truthy]; omega

theorem encBest_snd (st : Option (Rat × Nat)) : (encBest st).2 = encOptNat (st.map (·.2)) := by
  rcases st with _ | ⟨d, i⟩ <;> rfl

/-- **bridge** (`nearest`): on a consistent index state the regenerated `nearest` returns what the model returns -/
theorem nearest_bridge (amb : Nat) (g : Grid) (live : List Nat) (h : Inv g live) (q : Pt) :
    Gen.grid_Index_nearest Rounding.exact amb (encGrid g) (encPt q) = encOptNat (nearest g q) := by
  have hb := h.bins_pos
  have idok : ∀ c id, id ∈ cellAt g c → IdOK g id := by
    intro c id hm
    obtain ⟨hv, _, _⟩ := (h.mem_iff c id).mp hm
    unfold IdOK
    rw [h.nverts]
    rcases hv with hv | ⟨_, h1, h2⟩
    · rw [if_neg (by omega)]; exact hv
    · rw [if_pos h1]; omega
  have allok : ∀ cs : List Nat, (∀ c ∈ cs, c < g.bins * g.bins) → CellsOK' g cs :=
    fun cs hcs c hc => ⟨by rw [h.ncells]; exact hcs c hc, fun id hm => idok c id hm⟩
  -- the neighbourhood cells are cells of the grid
  have hcell : cellIdx g.toGeo q < (adjacents g.bins).length := by rw [adjacents_length]; exact cellIdx_lt hb q
  have hnb_lt : ∀ c ∈ nbCells g q, c < g.bins * g.bins := by
    intro c hc
    have hx := colN_lt hb q
    have hy := rowN_lt hb q
    unfold nbCells at hc
    rw [cellIdx_eq hb, adjacents_getD hx hy] at hc
    obtain ⟨x', y', hx', hy', rfl, _⟩ := (mem_adjOf hx hy c).mp hc
    exact idx_lt hx' hy'
  unfold Gen.grid_Index_nearest
  have f7 : Py.getItem (encGrid g) 7 = .flt g.bx := rfl
  have f8 : Py.getItem (encGrid g) 8 = .flt g.by_ := rfl
  have f9 : Py.getItem (encGrid g) 9 = .flt g.xmin := rfl
  have f10 : Py.getItem (encGrid g) 10 = .flt g.ymin := rfl
  have f11 : Py.getItem (encGrid g) 11 = .int (g.bins : Int) := rfl
  have f2 : Py.getItem (encGrid g) 2 = encCells (adjacents g.bins) := rfl
  have q0 : Py.getItem (encPt q) 0 = .flt q.1 := rfl
  have q1 : Py.getItem (encPt q) 1 = .flt q.2 := rfl
  simp only [f7, f8, f9, f10, f11, f2, q0, q1, bin_bridge amb g.bins _ _ _ (ne_of_gt h.bx_pos),
    bin_bridge amb g.bins _ _ _ (ne_of_gt h.by_pos)]
  have hlast : Py.add Rounding.exact amb (.int (binClamp g.bins g.xmin g.bx q.1))
      (Py.mul Rounding.exact amb (.int (g.bins : Int)) (.int (binClamp g.bins g.ymin g.by_ q.2)))
      = encNat (cellIdx g.toGeo q) := by
    show Val.int (binClamp g.bins g.xmin g.bx q.1 + (g.bins : Int) * binClamp g.bins g.ymin g.by_ q.2) = Val.int _
    congr 1
    unfold cellIdx
    have r1 := binClamp_range hb g.xmin g.bx q.1
    have r2 := binClamp_range hb g.ymin g.by_ q.2
    rw [Int.toNat_of_nonneg]
    have : 0 ≤ (g.bins : Int) * binClamp g.bins g.ymin g.by_ q.2 := mul_nonneg (by omega) r2.1
    omega
  have hv : (adjacents g.bins)[cellIdx g.toGeo q]? = some ((adjacents g.bins)[cellIdx g.toGeo q]'hcell) :=
    List.getElem?_eq_getElem hcell
  have hnbv : (adjacents g.bins)[cellIdx g.toGeo q]'hcell = nbCells g q := by
    simp only [nbCells, List.getD, hv, Option.getD_some]
  rw [hlast, encCells, encNat, index_list encNats _ _ _ hv, hnbv]
  have hcopy : Py.list_copy (encNats (nbCells g q)) = encNats (nbCells g q) := rfl
  have hlen : Py.len_ (Val.tup (List.map encNats (adjacents g.bins))) = .int ((g.bins * g.bins : Nat) : Int) := by
    simp [Py.len_, adjacents_length]
  rw [hcopy, hlen, range_len]
  have hit : ∀ l : List Nat, Py.iter (encNats l) = some (l.map encNat) := fun l => rfl
  simp only [hit]
  obtain ⟨k0, k1, k2, k3, hl1⟩ := loop1 amb g q (nbCells g q) (allok _ hnb_lt) .err .err .err .err none
  have hstart : (encBest none) = (Py.posInf, Val.none_) := rfl
  rw [hstart] at hl1
  simp only at hl1
  rw [hl1]
  simp only [truthy_best]
  have hrange_ok : CellsOK' g (List.range (g.bins * g.bins)) := allok _ (fun c hc => List.mem_range.mp hc)
  obtain ⟨m0, m1, m2, m3, hl3⟩ := loop3 amb g q (nbCells g q) (List.range (g.bins * g.bins)) hrange_ok k0 k1 k2 k3
    (scan g q none (nbIds g q))
  have hnbids : List.flatMap (cellAt g) (nbCells g q) = nbIds g q := rfl
  rw [hnbids] at *
  have hrest : ((List.range (g.bins * g.bins)).filter (fun c => !((nbCells g q).contains c))).flatMap (cellAt g) = restIds g q := by
    unfold restIds; rw [adjacents_length]
  rw [hrest] at hl3
  unfold nearest
  rcases hsc : scan g q none (nbIds g q) with _ | ⟨d, i⟩
  · rw [hsc] at hl3
    simp only
    rw [hl3]
    simp only [Bool.false_eq_true, if_false, encBest_snd]
  · cases i with
    | zero =>
      rw [hsc] at hl3
      simp only
      rw [hl3]
      simp only [Bool.false_eq_true, if_false, encBest_snd]
    | succ i =>
      simp only [if_true]
      rfl


/-! ### `remove_path` -/

theorem list_remove_nats (ids : List Nat) (id : Nat) (h : id ∈ ids) :
    Py.list_remove (encNats ids) (encNat id) = encNats (ids.erase id) := by
  have key : ∀ l : List Nat, id ∈ l → Py.list_remove.go (encNat id) (l.map encNat) = some ((l.erase id).map encNat) := by
    intro l
    induction l with
    | nil => intro hm; simp at hm
    | cons x xs ih =>
      intro hm
      by_cases hx : x = id
      · subst hx
        simp [Py.list_remove.go, encNat, Py.eq, Py.num]
      · have hm' : id ∈ xs := by
          rcases List.mem_cons.mp hm with e | e
          · exact absurd e.symm hx
          · exact e
        have hne : ¬ ((x : Rat) = (id : Rat)) := by exact_mod_cast hx
        simp only [List.map_cons, Py.list_remove.go, encNat, Py.eq, Py.num, Int.cast_natCast, hne, decide_false,
          Bool.false_eq_true, if_false]
        rw [show (Val.int (id : Int)) = encNat id from rfl, ih hm', List.erase_cons_tail (by simpa using hx)]
        rfl
  simp only [Py.list_remove, encNats, key ids h]

theorem setItem_list {α : Type} (f : α → Val) (l : List α) (k : Nat) (a : α) (hk : k < l.length) :
    Py.setItem (.tup (l.map f)) (.int (k : Int)) (f a) = .tup ((l.set k a).map f) := by
  have hneg : ¬ ((k : Int) < 0) := by omega
  simp only [Py.setItem, Py.indexPos, Py.kind, Py.toInt, List.length_map, hneg, if_false]
  rw [if_pos ⟨by omega, by exact_mod_cast hk⟩, Int.toNat_natCast]
  simp only [List.map_set]
  congr 1
  rw [List.set_eq_take_append_cons_drop, if_pos (by simpa using hk)]

/-- one `self.grid[self.lookup[id]].remove(id)` -/
theorem remove_store (g : Grid) (id : Nat) (cells1 : List (List Nat)) (h : removeId g.cells g.lookup id = some cells1) :
    Py.setField (encGrid g) 1 (Py.setItem (Py.getItem (encGrid g) 1) (Py.index (Py.getItem (encGrid g) 3) (encNat id))
      (Py.list_remove (Py.index (Py.getItem (encGrid g) 1) (Py.index (Py.getItem (encGrid g) 3) (encNat id))) (encNat id)))
      = encGrid { g with cells := cells1 } := by
  unfold removeId at h
  cases hl : g.lookup[id]? with
  | none => rw [hl] at h; cases h
  | some c =>
    rw [hl] at h
    simp only at h
    cases hc : g.cells[c]? with
    | none => rw [hc] at h; cases h
    | some ids =>
      rw [hc] at h
      simp only at h
      by_cases hm : id ∈ ids
      · rw [if_pos hm] at h
        cases h
        have hclt : c < g.cells.length := by
          by_contra hcc; rw [List.getElem?_eq_none (by omega)] at hc; cases hc
        have f1 : Py.getItem (encGrid g) 1 = encCells g.cells := rfl
        have f3 : Py.getItem (encGrid g) 3 = encNats g.lookup := rfl
        rw [f1, f3, encNats, encNat, index_list encNat g.lookup id c hl, encCells, encNat, index_list encNats g.cells c ids hc,
          show (Val.int (id : Int)) = encNat id from rfl, list_remove_nats ids id hm,
          setItem_list encNats g.cells c _ hclt]
        rfl
      · rw [if_neg hm] at h; cases h

/-- **bridge** (`remove_path`): whenever the model removes the path, the regenerated method returns `None` and the
updated instance -/
theorem remove_bridge (amb : Nat) (g g' : Grid) (p : Nat) (h : remove g p = some g') :
    Gen.grid_Index_remove_path Rounding.exact amb (encGrid g) (encNat p) = .tup [.none_, encGrid g'] := by
  unfold remove at h
  by_cases hp : p < g.n
  · rw [if_pos hp] at h
    cases h1 : removeId g.cells g.lookup p with
    | none => rw [h1] at h; cases h
    | some cells1 =>
      rw [h1] at h
      simp only at h
      unfold Gen.grid_Index_remove_path
      simp only [remove_store g p cells1 h1]
      have f6 : Py.getItem (encGrid { g with cells := cells1 }) 6 = .bool_ g.rev := rfl
      have f4 : Py.getItem (encGrid { g with cells := cells1 }) 4 = .int (g.n : Int) := rfl
      simp only [f6, f4, Py.truthy]
      by_cases hr : g.rev = true
      · rw [if_pos hr] at h
        cases h2 : removeId cells1 g.lookup (p + g.n) with
        | none => rw [h2] at h; cases h
        | some cells2 =>
          rw [h2] at h
          cases h
          rw [if_pos hr]
          have hadd : Py.add Rounding.exact amb (encNat p) (.int (g.n : Int)) = encNat (p + g.n) := rfl
          rw [hadd, remove_store { g with cells := cells1 } (p + g.n) cells2 h2]
      · rw [if_neg hr] at h
        cases h
        rw [if_neg hr]
  · rw [if_neg hp] at h; cases h


theorem encOptNat_eq_int {o : Option Nat} {r : Nat} (h : encOptNat o = .int (r : Int)) : o = some r := by
  cases o with
  | none => cases h
  | some i => simp only [encOptNat, Val.int.injEq] at h; rw [Option.some.injEq]; exact_mod_cast h
theorem encOptNat_eq_none {o : Option Nat} : encOptNat o = .none_ ↔ o = none := by
  cases o with
  | none => exact ⟨fun _ => rfl, fun _ => rfl⟩
  | some i =>
    constructor
    · intro h; cases h
    · intro h; cases h

/-- the regenerated `remove_path` applied along a list of paths (the instance is threaded through) -/
def genRemoveAll (amb : Nat) (v : Val) : List Nat → Val
  | [] => v
  | p :: ps => genRemoveAll amb (Py.getItem (Gen.grid_Index_remove_path Rounding.exact amb v (encNat p)) 1) ps

theorem removeAll_bridge (amb : Nat) : ∀ (ps : List Nat) (g g' : Grid), removeAll g ps = some g' →
    genRemoveAll amb (encGrid g) ps = encGrid g' := by
  intro ps
  induction ps with
  | nil => intro g g' h; cases h; rfl
  | cons p ps ih =>
    intro g g' h
    unfold removeAll at h
    cases h1 : remove g p with
    | none => rw [h1] at h; cases h
    | some g1 =>
      rw [h1] at h
      simp only at h
      unfold genRemoveAll
      rw [remove_bridge amb g g1 p h1]
      exact ih g1 g' h

end C13
end Plotink
