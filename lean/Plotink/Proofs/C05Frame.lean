import Plotink.Proofs.C04Latch
/-!
Lemmas behind C05: the read loop on a script equals the list-combinator specification; symbolic
execution of `command` / `query` on a script.  Core Lean only.
-/
namespace Plotink
namespace Ebb3
open M Spec

/-! ### reads on a script -/

theorem portRead_script_nil (st : St) (ws : List WriteEv) (out : List Str) (nr : Nat) :
    portRead scriptDev ⟨st, ⟨[], ws⟩, out, nr⟩ = (.ok (some []), ⟨st, ⟨[], ws⟩, out, nr + 1⟩) := rfl

theorem portRead_script_line (st : St) (s : Str) (rs : List ReadEv) (ws : List WriteEv) (out : List Str)
    (nr : Nat) :
    portRead scriptDev ⟨st, ⟨.line s :: rs, ws⟩, out, nr⟩ = (.ok (some s), ⟨st, ⟨rs, ws⟩, out, nr + 1⟩) := rfl

theorem portRead_script_raise (st : St) (rs : List ReadEv) (ws : List WriteEv) (out : List Str)
    (nr : Nat) :
    portRead scriptDev ⟨st, ⟨.raise :: rs, ws⟩, out, nr⟩ = (.ok Option.none, ⟨st, ⟨rs, ws⟩, out, nr + 1⟩) := rfl

/-- `Reply` as the value the loop returns -/
def replyOpt : Reply → Option Str
  | .text t => some t
  | .timeout => some []
  | .ioError => Option.none

theorem firstReply_zero (reads : List ReadEv) : firstReply 0 reads = .timeout := by
  simp [firstReply]

theorem readsUsed_zero (reads : List ReadEv) : readsUsed 0 reads = 0 := by
  simp [readsUsed]

theorem firstReply_nil (n : Nat) : firstReply n [] = .timeout := by
  simp [firstReply]

theorem readsUsed_nil (n : Nat) : readsUsed n [] = n := by
  simp [readsUsed]

theorem firstReply_blank (n : Nat) (r : ReadEv) (rs : List ReadEv) (h : isBlank r = true) :
    firstReply (n + 1) (r :: rs) = firstReply n rs := by
  simp [firstReply, List.take_succ_cons, h]

theorem readsUsed_blank (n : Nat) (r : ReadEv) (rs : List ReadEv) (h : isBlank r = true) :
    readsUsed (n + 1) (r :: rs) = readsUsed n rs + 1 := by
  simp only [readsUsed, List.take_succ_cons, List.takeWhile_cons, h, if_true, List.length_cons]
  split <;> split <;> omega

theorem firstReply_nonblank (n : Nat) (r : ReadEv) (rs : List ReadEv) (h : isBlank r = false) :
    firstReply (n + 1) (r :: rs) = replyOfEv r := by
  simp [firstReply, List.take_succ_cons, h]

theorem readsUsed_nonblank (n : Nat) (r : ReadEv) (rs : List ReadEv) (h : isBlank r = false) :
    readsUsed (n + 1) (r :: rs) = 1 := by
  simp [readsUsed, List.take_succ_cons, h]

/-- the loop of the code computes the specification -/
theorem readLoop_script (n : Nat) (st : St) (reads : List ReadEv) (ws : List WriteEv) (out : List Str)
    (nr : Nat) :
    readLoop scriptDev n ⟨st, ⟨reads, ws⟩, out, nr⟩ =
      (.ok (replyOpt (firstReply n reads)),
       ⟨st, ⟨reads.drop (readsUsed n reads), ws⟩, out, nr + readsUsed n reads⟩) := by
  induction n generalizing reads nr with
  | zero => simp [readLoop, firstReply_zero, readsUsed_zero, replyOpt]
  | succ n ih =>
    cases reads with
    | nil =>
      rw [readLoop, bind_ok (portRead_script_nil st ws out nr)]
      have hs : (strip ([] : Str)).isEmpty = true := by decide
      simp only [hs, if_true]
      rw [ih [] (nr + 1)]
      simp [firstReply_nil, readsUsed_nil]
      omega
    | cons r rs =>
      cases r with
      | raise =>
        rw [readLoop, bind_ok (portRead_script_raise st rs ws out nr)]
        have hb : isBlank ReadEv.raise = false := rfl
        simp [firstReply_nonblank _ _ _ hb, readsUsed_nonblank _ _ _ hb, replyOpt, replyOfEv]
      | line s =>
        rw [readLoop, bind_ok (portRead_script_line st s rs ws out nr)]
        by_cases hs : (strip s).isEmpty = true
        · have hb : isBlank (ReadEv.line s) = true := hs
          simp only [hs, if_true]
          rw [ih rs (nr + 1), firstReply_blank _ _ _ hb, readsUsed_blank _ _ _ hb]
          simp
          omega
        · have hb : isBlank (ReadEv.line s) = false := by simpa [isBlank] using hs
          simp only [hs]
          simp [firstReply_nonblank _ _ _ hb, readsUsed_nonblank _ _ _ hb, replyOpt, replyOfEv]

/-! ### facts about the specification functions -/

theorem readsUsed_le (n : Nat) (reads : List ReadEv) : readsUsed n reads ≤ n := by
  unfold readsUsed
  split
  · have : (List.take n reads).length ≤ n := by simp [List.length_take]; omega
    omega
  · omega

theorem text_nonempty {n : Nat} {reads : List ReadEv} {t : Str} (h : firstReply n reads = .text t) :
    t ≠ [] := by
  unfold firstReply at h
  split at h
  · cases h
  · rename_i ev heq
    have := List.head?_dropWhile_not isBlank (List.take n reads)
    rw [heq] at this
    cases ev with
    | raise => cases h
    | line s =>
      simp only [replyOfEv] at h
      injection h with h
      subst h
      intro h0
      simp [isBlank, h0] at this

/-! ### the write on a script -/

theorem portWrite_script (st : St) (reads : List ReadEv) (ws : List WriteEv) (out : List Str) (nr : Nat)
    (text : Str) :
    portWrite scriptDev text ⟨st, ⟨reads, ws⟩, out, nr⟩ =
      (.ok (firstWrite ⟨reads, ws⟩ == .ok), ⟨st, ⟨reads, ws.tail⟩, out ++ [text], nr⟩) := by
  cases ws <;> rfl

/-- reads used by an exchange, given the write outcome -/
def usedReads (n : Nat) (wo : WriteEv) (reads : List ReadEv) : Nat :=
  match wo with
  | .ok => readsUsed n reads
  | .raise => 0

/-- value of an exchange, given the write outcome -/
def exchangeReply (n : Nat) (wo : WriteEv) (reads : List ReadEv) : Option Str :=
  match wo with
  | .ok => replyOpt (firstReply n reads)
  | .raise => Option.none

/-- `exchange` on a script -/
theorem exchange_script (retry : Nat) (text : Str) (st : St) (reads : List ReadEv) (ws : List WriteEv)
    (out : List Str) (nr : Nat) :
    exchange scriptDev retry text ⟨st, ⟨reads, ws⟩, out, nr⟩ =
      (.ok (exchangeReply (retry + 1) (firstWrite ⟨reads, ws⟩) reads),
       ⟨st, ⟨reads.drop (usedReads (retry + 1) (firstWrite ⟨reads, ws⟩) reads), ws.tail⟩,
        out ++ [text ++ ['\r']], nr + usedReads (retry + 1) (firstWrite ⟨reads, ws⟩) reads⟩) := by
  unfold exchange
  rw [bind_ok (portWrite_script st reads ws out nr _)]
  cases hw : firstWrite ⟨reads, ws⟩ with
  | ok => simp [readLoop_script, exchangeReply, usedReads]
  | raise => simp [exchangeReply, usedReads]

theorem cmdName_ok_of_ne {t : Str} (h : t ≠ []) : ∃ name, cmdName t = .ok name ∧ name ≠ [] := by
  match t, h with
  | [c], _ => exact ⟨[c], rfl, by simp⟩
  | c :: d :: r, _ =>
    by_cases hd : d = ','
    · exact ⟨[c], by simp [cmdName, hd], by simp⟩
    · exact ⟨[c, d], by simp [cmdName, hd], by simp⟩

theorem startsWith_nil_right {name : Str} (h : name ≠ []) : startsWith name [] = false := by
  cases name with
  | nil => exact absurd rfl h
  | cons a as => rfl

theorem recordError_apply {σ : Type} (msg : Str) (w : World σ) :
    (recordError msg : M σ Unit) w = (.ok (), { w with st := recordErrorSt msg w.st }) := rfl

theorem recordErrorSt_none (msg : Str) (st : St) (h : st.err = Option.none) :
    recordErrorSt msg st = { st with err := some msg } := by
  simp [recordErrorSt, h]

theorem recordErrorSt_some (msg : Str) (st : St) (e : Str) (h : st.err = some e) :
    recordErrorSt msg st = st := by
  simp [recordErrorSt, h]

theorem commandCore_script (P : Params) (cmd name : Str) (hn : cmdName cmd = .ok name) (hne : name ≠ [])
    (st : St) (herr : st.err = Option.none) (reads : List ReadEv) (ws : List WriteEv) (out : List Str) (nr : Nat) :
    commandCore P scriptDev cmd ⟨st, ⟨reads, ws⟩, out, nr⟩ =
      (.ok (.bool (commandError P cmd name (firstWrite ⟨reads, ws⟩) reads).isNone),
       ⟨{ st with err := commandError P cmd name (firstWrite ⟨reads, ws⟩) reads },
        ⟨reads.drop (usedReads (P.retryCmd + 1) (firstWrite ⟨reads, ws⟩) reads), ws.tail⟩,
        out ++ [cmd ++ ['\r']],
        nr + usedReads (P.retryCmd + 1) (firstWrite ⟨reads, ws⟩) reads⟩) := by
  obtain ⟨p, e, v, vp, n, c, pn⟩ := st
  simp only at herr
  subst herr
  unfold commandCore
  simp only [hn]
  rw [bind_ok (exchange_script _ _ _ _ _ _ _)]
  cases hw : firstWrite ⟨reads, ws⟩ with
  | raise =>
    simp only [commandJudge, commandError, usedReads, exchangeReply]
    by_cases hi : lower name ∈ P.ignoreCmd
    · simp [hi, bind_apply, errIsNone]
    · simp [hi, bind_apply, errIsNone, recordError_apply, recordErrorSt_none]
  | ok =>
    simp only [commandError, usedReads, exchangeReply]
    cases hr : firstReply (P.retryCmd + 1) reads with
    | ioError =>
      simp only [replyOpt, commandJudge]
      by_cases hi : lower name ∈ P.ignoreCmd
      · simp [hi, bind_apply, errIsNone]
      · simp [hi, bind_apply, errIsNone, recordError_apply, recordErrorSt_none]
    | timeout =>
      simp [replyOpt, commandJudge, startsWith_nil_right hne, bind_apply, errIsNone,
        recordError_apply, recordErrorSt_none, hasErr, hasSub]
    | text t =>
      have ht := text_nonempty hr
      simp only [replyOpt, commandJudge]
      by_cases hp : startsWith name t = true
      · by_cases he : hasErr t = true
        · simp [hp, he, bind_apply, errIsNone, recordError_apply, recordErrorSt_none]
        · simp [hp, he, bind_apply, errIsNone]
      · by_cases he : hasErr t = true
        · simp [hp, he, ht, bind_apply, errIsNone, recordError_apply, recordErrorSt]
        · simp [hp, he, ht, bind_apply, errIsNone, recordError_apply, recordErrorSt_none]

theorem queryCore_script (P : Params) (q name : Str) (hn : cmdName q = .ok name) (hne : name ≠ [])
    (st : St) (herr : st.err = Option.none) (reads : List ReadEv) (ws : List WriteEv) (out : List Str) (nr : Nat) :
    queryCore P scriptDev q ⟨st, ⟨reads, ws⟩, out, nr⟩ =
      (.ok (queryValue P q name (firstWrite ⟨reads, ws⟩) reads),
       ⟨{ st with err := queryError P q name (firstWrite ⟨reads, ws⟩) reads },
        ⟨reads.drop (usedReads (P.retryQry + 1) (firstWrite ⟨reads, ws⟩) reads), ws.tail⟩,
        out ++ [q ++ ['\r']],
        nr + usedReads (P.retryQry + 1) (firstWrite ⟨reads, ws⟩) reads⟩) := by
  obtain ⟨p, e, v, vp, n, c, pn⟩ := st
  simp only at herr
  subst herr
  unfold queryCore
  simp only [hn]
  rw [bind_ok (exchange_script _ _ _ _ _ _ _)]
  have hnil : hasErr [] = false := rfl
  cases hw : firstWrite ⟨reads, ws⟩ with
  | raise =>
    simp only [queryError, queryValue, usedReads, exchangeReply]
    by_cases hi : lower name ∈ P.ignoreQry
    · simp [hi, queryJudge, hnil, startsWith_nil_right hne, bind_apply, recordError_apply, recordErrorSt]
    · simp [hi, bind_apply, recordError_apply, recordErrorSt]
  | ok =>
    simp only [queryError, queryValue, usedReads, exchangeReply]
    cases hr : firstReply (P.retryQry + 1) reads with
    | ioError =>
      simp only [replyOpt]
      by_cases hi : lower name ∈ P.ignoreQry
      · simp [hi, queryJudge, hnil, startsWith_nil_right hne, bind_apply, recordError_apply, recordErrorSt]
      · simp [hi, bind_apply, recordError_apply, recordErrorSt]
    | timeout =>
      simp [replyOpt, queryJudge, hnil, startsWith_nil_right hne, bind_apply, recordError_apply, recordErrorSt]
    | text t =>
      have ht := text_nonempty hr
      simp only [replyOpt, queryJudge]
      by_cases hp : startsWith name t = true
      · by_cases he : hasErr t = true
        · simp [hp, he, ht, bind_apply, recordError_apply, recordErrorSt]
        · simp [hp, he]
      · by_cases he : hasErr t = true
        · simp [hp, he, ht, bind_apply, recordError_apply, recordErrorSt]
        · simp [hp, he, ht, bind_apply, recordError_apply, recordErrorSt]


/-! ### from the primitives to `run` -/

/-- connected and error-free -/
def Ready {σ : Type} (w : World σ) : Prop := w.st.port = true ∧ w.st.err = Option.none

theorem Ready.not_blocked {σ : Type} {w : World σ} (h : Ready w) : w.st.blocked = false := by
  simp [St.blocked, h.1, h.2]

theorem run_command_ready {σ : Type} (P : Params) (D : Device σ) (req : Str) (w : World σ) (h : Ready w) :
    run P D (.command (some req)) w = commandCore P D (strip req) w := by
  simp [run, prog, commandP, Prog.run, guardM, h.not_blocked, commandBody]

theorem run_query_ready {σ : Type} (P : Params) (D : Device σ) (req : Str) (w : World σ) (h : Ready w) :
    run P D (.query (some req)) w = queryCore P D (strip req) w := by
  simp [run, prog, queryP, Prog.run, guardM, h.not_blocked, queryBody]

/-- characterisation of the window: either a reply at position `j` preceded by blanks only, or
a window of blanks -/
theorem window_cases (n : Nat) (reads : List ReadEv) :
    (∃ j ev, j < n ∧ reads[j]? = some ev ∧ isBlank ev = false ∧ (∀ e ∈ reads.take j, isBlank e = true) ∧
        readsUsed n reads = j + 1 ∧
        firstReply n reads = replyOfEv ev)
    ∨ ((∀ e ∈ reads.take n, isBlank e = true) ∧ readsUsed n reads = n ∧ firstReply n reads = .timeout) := by
  induction n generalizing reads with
  | zero => right; simp [readsUsed_zero, firstReply_zero]
  | succ n ih =>
    cases reads with
    | nil => right; simp [readsUsed_nil, firstReply_nil]
    | cons r rs =>
      by_cases hb : isBlank r = true
      · rcases ih rs with ⟨j, ev, hj, hget, hnb, hall, hu, hf⟩ | ⟨hall, hu, hf⟩
        · left
          refine ⟨j + 1, ev, by omega, by simpa using hget, hnb, ?_, ?_, ?_⟩
          · intro e he
            simp only [List.take_succ_cons, List.mem_cons] at he
            rcases he with rfl | he
            · exact hb
            · exact hall e he
          · rw [readsUsed_blank _ _ _ hb, hu]
          · rw [firstReply_blank _ _ _ hb, hf]
        · right
          refine ⟨?_, ?_, ?_⟩
          · intro e he
            simp only [List.take_succ_cons, List.mem_cons] at he
            rcases he with rfl | he
            · exact hb
            · exact hall e he
          · rw [readsUsed_blank _ _ _ hb, hu]
          · rw [firstReply_blank _ _ _ hb, hf]
      · have hb' : isBlank r = false := by simpa using hb
        left
        exact ⟨0, r, by omega, by simp, hb', by simp, readsUsed_nonblank _ _ _ hb',
          firstReply_nonblank _ _ _ hb'⟩

theorem startsWith_split {name t : Str} (h : startsWith name t = true) : ∃ rest, t = name ++ rest := by
  have := List.isPrefixOf_iff_prefix.mp h
  rcases this with ⟨rest, hr⟩
  exact ⟨rest, hr.symm⟩

theorem stripHeader_append (name rest : Str) : stripHeader name (name ++ rest) = dropComma rest := by
  unfold stripHeader dropComma
  simp only [List.drop_left]
  cases rest <;> rfl

end Ebb3
end Plotink
