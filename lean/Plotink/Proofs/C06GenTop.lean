import Plotink.Proofs.C06GenQuery
/-! # C06 over the regenerated code: the legacy layer, request by request

`legacyGen fuel present vb w r` is the call of the *regenerated* helper of `plotink/ebb_motion.py` that serves the request
`r` (`none`: the layer has no helper, or the helper is not bridged — `query_enable_motors`, whose number of
transmissions depends on the replies).  `legacyGen_emit`: in the domain (`Dom`: scripted faults are serial I/O
exceptions, scripted lines are ASCII — acknowledgements, timeouts, error replies, I/O faults in any order) the call ends
and the write log grows by exactly the wire texts of `C06.legacyEmit present fwOk r`, where `fwOk` is what the
helper's firmware gate decided (irrelevant for the ungated helpers). -/
namespace Plotink
namespace C06Gen
open PyObj Gen
set_option linter.unusedVariables false

/-- the regenerated legacy helper serving `r`, applied to the encoded arguments -/
def legacyGen (fuel : Nat) (present : Bool) (vb : Val) (w : World NoObj) : C06.Req → Option (Out NoObj)
  | .xyMove dx dy dur => some (ebb_motion_doXYMove fuel (encPort present) (.int dx) (.int dy) (.int dur) vb w)
  | .abMove da db dur => some (ebb_motion_doABMove fuel (encPort present) (.int da) (.int db) (.int dur) vb w)
  | .absMove rate p1 p2 => some (ebb_motion_doAbsMove fuel (encPort present) (.int rate) (encOpt p1) (encOpt p2) vb w)
  | .lowLevel r1 s1 a1 r2 s2 a2 clear =>
      some (ebb_motion_doLowLevelMove fuel (encPort present) (.int r1) (.int s1) (.int a1) (.int r2) (.int s2) (.int a2)
        (encOpt clear) vb w)
  | .timedPause n => some (ebb_motion_doTimedPause fuel (encPort present) (.int n) vb w)
  | .penDown delay pin => some (ebb_motion_sendPenDown fuel (encPort present) (.int delay) (encOpt pin) vb w)
  | .penUp delay pin => some (ebb_motion_sendPenUp fuel (encPort present) (.int delay) (encOpt pin) vb w)
  | .enable r1 r2 => if r1 = r2 then some (ebb_motion_sendEnableMotors fuel (encPort present) (.int r1) vb w) else Option.none
  | .disable => some (ebb_motion_sendDisableMotors fuel (encPort present) vb w)
  | .pbConfig pin state dir =>
      if dir = 0 then some (ebb_motion_PBOutConfig fuel (encPort present) (.int pin) (.int state) vb w) else Option.none
  | .pbSet pin state => some (ebb_motion_PBOutValue fuel (encPort present) (.int pin) (.int state) vb w)
  | .togglePen => some (ebb_motion_TogglePen fuel (encPort present) vb w)
  | .penPosDown v => some (ebb_motion_setPenDownPos fuel (encPort present) (.int v) vb w)
  | .penPosUp v => some (ebb_motion_setPenUpPos fuel (encPort present) (.int v) vb w)
  | .penRateDown v => some (ebb_motion_setPenDownRate fuel (encPort present) (.int v) vb w)
  | .penRateUp v => some (ebb_motion_setPenUpRate fuel (encPort present) (.int v) vb w)
  | .setLayer v => some (ebb_motion_setEBBLV fuel (encPort present) (.int v) vb w)
  | .queryLayer => some (ebb_motion_queryEBBLV fuel (encPort present) vb w)
  | .servoTimeout ms state => some (ebb_motion_servo_timeout fuel (encPort present) (.int ms) (encOpt state) vb w)
  | .queryPenUp => some (ebb_motion_QueryPenUp fuel (encPort present) vb w)
  | .queryButton => some (ebb_motion_QueryPRGButton fuel (encPort present) vb w)
  | .querySteps => some (ebb_motion_query_steps fuel (encPort present) vb w)
  | .queryVoltage => some (ebb_motion_queryVoltage fuel (encPort present) vb w)
  | _ => Option.none

/-- the requests whose regenerated legacy helper is bridged: everything the legacy layer serves except `queryMotorsPI` -/
def LegacyCovered (r : C06.Req) : Prop := C06.legacySupports r ∧ r ≠ .queryMotorsPI

theorem legacyGen_isSome (fuel : Nat) (present : Bool) (vb : Val) (w : World NoObj) (r : C06.Req) :
    (legacyGen fuel present vb w r).isSome ↔ LegacyCovered r := by
  cases r <;> simp [legacyGen, LegacyCovered, C06.legacySupports]

/-- fuel: 101 for the retry loops of `command`/`query`, and one pass of the pause loop per chunk -/
def FuelFor (fuel : Nat) : C06.Req → Prop
  | .timedPause n => 101 ≤ fuel ∧ n.toNat + 1 ≤ fuel
  | _ => 101 ≤ fuel

/-- **Every bridged legacy helper transmits exactly `legacyEmit`.** -/
theorem legacyGen_emit (fuel : Nat) (present : Bool) (vb : Val) (w : World NoObj) (r : C06.Req) (o : Out NoObj)
    (hf : FuelFor fuel r) (hd : Dom w.port) (ho : legacyGen fuel present vb w r = some o) :
    ∃ fwOk, Wrote o w (C06.legacyEmit present fwOk r) := by
  cases r with
  | xyMove dx dy dur => cases ho; exact ⟨true, doXYMove_bridge fuel hf present true dx dy dur vb w hd.1⟩
  | abMove da db dur => cases ho; exact ⟨true, doABMove_bridge fuel hf present true da db dur vb w hd.1⟩
  | absMove rate p1 p2 => cases ho; exact ⟨true, doAbsMove_bridge fuel hf present true rate p1 p2 vb w hd.1⟩
  | lowLevel r1 s1 a1 r2 s2 a2 clear =>
    cases ho; exact ⟨true, doLowLevelMove_bridge fuel hf present true r1 s1 a1 r2 s2 a2 clear vb w hd.1⟩
  | timedPause n => cases ho; exact ⟨true, (doTimedPause_bridge fuel hf.1 present true n hf.2 vb w hd).wrote⟩
  | penDown delay pin => cases ho; exact ⟨true, sendPenDown_bridge fuel hf present true delay pin vb w hd.1⟩
  | penUp delay pin => cases ho; exact ⟨true, sendPenUp_bridge fuel hf present true delay pin vb w hd.1⟩
  | enable r1 r2 =>
    simp only [legacyGen] at ho
    split at ho
    · rename_i h; subst h; cases ho
      exact ⟨true, sendEnableMotors_bridge fuel hf present true r1 vb w hd.1⟩
    · cases ho
  | disable => cases ho; exact ⟨true, sendDisableMotors_bridge fuel hf present true vb w hd.1⟩
  | pbConfig pin state dir =>
    simp only [legacyGen] at ho
    split at ho
    · rename_i h; subst h; cases ho
      exact ⟨true, (PBOutConfig_bridge fuel hf present true pin state vb w hd).wrote⟩
    · cases ho
  | pbSet pin state => cases ho; exact ⟨true, PBOutValue_bridge fuel hf present true pin state vb w hd.1⟩
  | togglePen => cases ho; exact ⟨true, TogglePen_bridge fuel hf present true vb w hd.1⟩
  | penPosDown v => cases ho; exact ⟨true, setPenDownPos_bridge fuel hf present true v vb w hd.1⟩
  | penPosUp v => cases ho; exact ⟨true, setPenUpPos_bridge fuel hf present true v vb w hd.1⟩
  | penRateDown v => cases ho; exact ⟨true, setPenDownRate_bridge fuel hf present true v vb w hd.1⟩
  | penRateUp v => cases ho; exact ⟨true, setPenUpRate_bridge fuel hf present true v vb w hd.1⟩
  | setLayer v => cases ho; exact ⟨true, setEBBLV_bridge fuel hf present true v vb w hd.1⟩
  | queryLayer => cases ho; exact ⟨true, queryEBBLV_bridge fuel hf present true vb w hd⟩
  | servoTimeout ms state =>
    cases ho
    obtain ⟨fwOk, h, _⟩ := servo_timeout_bridge fuel hf present ms state vb w hd
    exact ⟨fwOk, h⟩
  | queryPenUp => cases ho; exact ⟨true, QueryPenUp_bridge fuel hf present true vb w hd⟩
  | queryButton => cases ho; exact ⟨true, QueryPRGButton_bridge fuel hf present true vb w hd⟩
  | querySteps => cases ho; exact ⟨true, query_steps_bridge fuel hf present true vb w hd⟩
  | queryVoltage =>
    cases ho
    obtain ⟨fwOk, h, _⟩ := queryVoltage_bridge fuel hf present vb w hd
    exact ⟨fwOk, h⟩
  | _ => cases ho

end C06Gen
end Plotink
