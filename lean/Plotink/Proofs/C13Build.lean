import Plotink.Proofs.C13Inv
import Mathlib.Tactic.Linarith
import Mathlib.Tactic.Ring
import Mathlib.Tactic.FieldSimp
import Mathlib.Algebra.Order.Ring.Rat
import Mathlib.Algebra.Order.Field.Basic

/-! C13: `__init__` establishes the invariant. -/
namespace Plotink
namespace C13

/-! ### extent -/

theorem foldl_min_le (f : Pt → Rat) (ps : List Pt) : ∀ a : Rat,
    ps.foldl (fun a q => min a (f q)) a ≤ a ∧ ∀ q ∈ ps, ps.foldl (fun a q => min a (f q)) a ≤ f q := by
  induction ps with
  | nil => intro a; simp
  | cons p ps ih =>
    intro a
    obtain ⟨h1, h2⟩ := ih (min a (f p))
    simp only [List.foldl_cons]
    refine ⟨le_trans h1 (min_le_left _ _), ?_⟩
    intro q hq
    rcases List.mem_cons.mp hq with rfl | hq
    · exact le_trans h1 (min_le_right _ _)
    · exact h2 q hq

theorem le_foldl_max (f : Pt → Rat) (ps : List Pt) : ∀ a : Rat,
    a ≤ ps.foldl (fun a q => max a (f q)) a ∧ ∀ q ∈ ps, f q ≤ ps.foldl (fun a q => max a (f q)) a := by
  induction ps with
  | nil => intro a; simp
  | cons p ps ih =>
    intro a
    obtain ⟨h1, h2⟩ := ih (max a (f p))
    simp only [List.foldl_cons]
    refine ⟨le_trans (le_max_left _ _) h1, ?_⟩
    intro q hq
    rcases List.mem_cons.mp hq with rfl | hq
    · exact le_trans (le_max_right _ _) h1
    · exact h2 q hq

/-- what `__init__` guarantees about the geometry when it does not raise: positive bin sizes, and
every indexed vertex lies at or after `xmin`, `ymin` -/
theorem geometry_spec {verts : List Path} {bins : Nat} {rev : Bool} {G : Geo}
    (h : geometry verts bins rev = some G) :
    G.bins = bins ∧ 0 < bins ∧ 0 < G.bx ∧ 0 < G.by_ ∧
      ∀ pt ∈ points verts rev, G.xmin ≤ pt.1 ∧ G.ymin ≤ pt.2 := by
  unfold geometry at h
  by_cases hb : bins = 0
  · simp [hb] at h
  · simp only [hb, if_false] at h
    cases hpts : points verts rev with
    | nil => simp [hpts, extent] at h
    | cons p ps =>
      simp only [hpts, extent] at h
      obtain ⟨hx0a, hx0⟩ := foldl_min_le (fun q => q.1) ps p.1
      obtain ⟨hx1a, _⟩ := le_foldl_max (fun q => q.1) ps p.1
      obtain ⟨hy0a, hy0⟩ := foldl_min_le (fun q => q.2) ps p.2
      obtain ⟨hy1a, _⟩ := le_foldl_max (fun q => q.2) ps p.2
      generalize ps.foldl (fun a q => min a q.1) p.1 = x0 at *
      generalize ps.foldl (fun a q => max a q.1) p.1 = x1 at *
      generalize ps.foldl (fun a q => min a q.2) p.2 = y0 at *
      generalize ps.foldl (fun a q => max a q.2) p.2 = y1 at *
      have hbpos : (0 : Rat) < (bins : Rat) := by exact_mod_cast Nat.pos_of_ne_zero hb
      have hshim : 0 ≤ (x1 - x0 + y1 - y0) / 200 := by apply div_nonneg <;> linarith
      split at h
      · cases h
      · rename_i hne
        cases h
        simp only [not_or] at hne
        have hbx : 0 ≤ (x1 + (x1 - x0 + y1 - y0) / 200 - (x0 - (x1 - x0 + y1 - y0) / 200)) / (bins : Rat) := by
          apply div_nonneg <;> linarith
        have hby : 0 ≤ (y1 + (x1 - x0 + y1 - y0) / 200 - (y0 - (x1 - x0 + y1 - y0) / 200)) / (bins : Rat) := by
          apply div_nonneg <;> linarith
        refine ⟨rfl, Nat.pos_of_ne_zero hb, lt_of_le_of_ne hbx (Ne.symm hne.1), lt_of_le_of_ne hby (Ne.symm hne.2), ?_⟩
        intro pt hpt
        rcases List.mem_cons.mp hpt with rfl | hpt
        · exact ⟨by show x0 - _ ≤ _; linarith, by show y0 - _ ≤ _; linarith⟩
        · exact ⟨by show x0 - _ ≤ _; linarith [hx0 pt hpt], by show y0 - _ ≤ _; linarith [hy0 pt hpt]⟩

/-! ### bins of indexed vertices never need the lower clamp -/

theorem binHi_eq_clamp {bins : Nat} {lo size x : Rat} (hb : 0 < bins) (hs : 0 < size) (hx : lo ≤ x) :
    binHi bins lo size x = binClamp bins lo size x := by
  have h0 : (0 : Int) ≤ ((x - lo) / size).floor := by
    apply Rat.le_floor_iff.mpr
    push_cast
    apply div_nonneg <;> linarith
  unfold binClamp binHi
  omega

theorem cellIdxHi_eq {G : Geo} (hb : 0 < G.bins) (hbx : 0 < G.bx) (hby : 0 < G.by_) {pt : Pt}
    (hx : G.xmin ≤ pt.1) (hy : G.ymin ≤ pt.2) : cellIdxHi G pt = cellIdx G pt := by
  unfold cellIdxHi cellIdx
  rw [binHi_eq_clamp hb hbx hx, binHi_eq_clamp hb hby hy]

/-! ### the loop -/

/-- identifiers placed after `k` paths have been processed -/
def Done (rev : Bool) (n k id : Nat) : Prop := id < k ∨ (rev = true ∧ n ≤ id ∧ id < n + k)

structure LoopInv (G : Geo) (rev : Bool) (n : Nat) (verts : List Path) (k : Nat)
    (st : List (List Nat) × List Nat) : Prop where
  ncells : st.1.length = G.bins * G.bins
  nlookup : st.2.length = if rev then 2 * n else n
  ok : CellsOK st.1 st.2 (Done rev n k)
  look : ∀ id, Done rev n k id → st.2[id]? = some (cellIdxHi G (endPtV verts n id))

/-- one `append` + `lookup[x] = …` -/
theorem add_step {G : Geo} {verts : List Path} {n : Nat} {cells : List (List Nat)} {lookup : List Nat}
    {S : Nat → Prop} (hok : CellsOK cells lookup S)
    (hlook : ∀ id, S id → lookup[id]? = some (cellIdxHi G (endPtV verts n id)))
    {x : Nat} {pt : Pt} (hpt : endPtV verts n x = pt) (hx : ¬ S x) (hxl : x < lookup.length)
    (hc : cellIdxHi G pt < cells.length) :
    CellsOK (cells.modify (cellIdxHi G pt) (· ++ [x])) (lookup.set x (cellIdxHi G pt)) (fun id => S id ∨ id = x) ∧
    ∀ id, (S id ∨ id = x) → (lookup.set x (cellIdxHi G pt))[id]? = some (cellIdxHi G (endPtV verts n id)) := by
  refine ⟨cellsOK_add hok hx hxl hc, ?_⟩
  intro id hid
  rw [List.getElem?_set]
  by_cases he : x = id
  · subst he
    simp [hxl, hpt]
  · simp only [he, if_false]
    rcases hid with hid | rfl
    · exact hlook id hid
    · exact absurd rfl he

theorem endPtV_start {verts pre ps : List Path} {p : Path} {n : Nat} (hv : verts = pre ++ p :: ps)
    (hn : n = verts.length) : endPtV verts n pre.length = p.1 := by
  have hk : ¬ pre.length ≥ n := by rw [hn, hv]; simp
  simp [endPtV, hk, hv, List.getD_eq_getElem?_getD]

theorem endPtV_end {verts pre ps : List Path} {p : Path} {n : Nat} (hv : verts = pre ++ p :: ps) :
    endPtV verts n (n + pre.length) = p.2 := by
  have hk : n + pre.length ≥ n := by omega
  simp [endPtV, hv, List.getD_eq_getElem?_getD]

theorem buildLoop_inv {G : Geo} {rev : Bool} {n : Nat} {verts : List Path} (hn : n = verts.length)
    (hcell : ∀ pt ∈ points verts rev, cellIdxHi G pt < G.bins * G.bins) :
    ∀ (rest pre : List Path) (st : List (List Nat) × List Nat), verts = pre ++ rest →
      LoopInv G rev n verts pre.length st →
      LoopInv G rev n verts verts.length (buildLoop G rev n rest pre.length st) := by
  intro rest
  induction rest with
  | nil =>
    intro pre st hv h
    have : verts.length = pre.length := by rw [hv]; simp
    rw [this]
    simpa [buildLoop] using h
  | cons p ps ih =>
    intro pre st hv h
    obtain ⟨cells, lookup⟩ := st
    have hkn : pre.length < n := by rw [hn, hv]; simp
    have hpmem : p ∈ verts := by rw [hv]; simp
    have hv' : verts = (pre ++ [p]) ++ ps := by rw [hv]; simp
    have hlen' : (pre ++ [p]).length = pre.length + 1 := by simp
    have hnl : lookup.length = if rev then 2 * n else n := h.nlookup
    have hnc : cells.length = G.bins * G.bins := h.ncells
    -- the start of the path
    have hp1 : p.1 ∈ points verts rev := by
      unfold points
      exact List.mem_flatMap.mpr ⟨p, hpmem, by cases rev <;> simp⟩
    have hx1 : ¬ Done rev n pre.length pre.length := by unfold Done; omega
    have hxl1 : pre.length < lookup.length := by rw [hnl]; split <;> omega
    obtain ⟨ok1, look1⟩ := add_step h.ok h.look (endPtV_start hv hn) hx1 hxl1 (by rw [hnc]; exact hcell _ hp1)
    cases hrev : rev with
    | false =>
      subst hrev
      have hstep : buildLoop G false n (p :: ps) pre.length (cells, lookup) =
          buildLoop G false n ps (pre ++ [p]).length
            (cells.modify (cellIdxHi G p.1) (· ++ [pre.length]), lookup.set pre.length (cellIdxHi G p.1)) := by
        simp [buildLoop]
      rw [hstep]
      apply ih (pre ++ [p]) _ hv'
      have hS : ∀ id, (Done false n pre.length id ∨ id = pre.length) ↔ Done false n (pre ++ [p]).length id := by
        intro id; rw [hlen']; unfold Done; simp; omega
      exact {
        ncells := by simpa using hnc
        nlookup := by simpa using hnl
        ok := ok1.congr hS
        look := fun id hid => look1 id ((hS id).mpr hid) }
    | true =>
      subst hrev
      have hp2 : p.2 ∈ points verts true := by
        unfold points
        exact List.mem_flatMap.mpr ⟨p, hpmem, by simp⟩
      have hx2 : ¬ (Done true n pre.length (n + pre.length) ∨ n + pre.length = pre.length) := by
        unfold Done; omega
      have hxl2 : n + pre.length < (lookup.set pre.length (cellIdxHi G p.1)).length := by
        rw [List.length_set, hnl]; simp; omega
      obtain ⟨ok2, look2⟩ := add_step ok1 look1 (endPtV_end (n := n) hv) hx2 hxl2
        (by rw [List.length_modify, hnc]; exact hcell _ hp2)
      have hstep : buildLoop G true n (p :: ps) pre.length (cells, lookup) =
          buildLoop G true n ps (pre ++ [p]).length
            ((cells.modify (cellIdxHi G p.1) (· ++ [pre.length])).modify (cellIdxHi G p.2) (· ++ [n + pre.length]),
             (lookup.set pre.length (cellIdxHi G p.1)).set (n + pre.length) (cellIdxHi G p.2)) := by
        simp [buildLoop]
      rw [hstep]
      apply ih (pre ++ [p]) _ hv'
      have hS : ∀ id, ((Done true n pre.length id ∨ id = pre.length) ∨ id = n + pre.length) ↔
          Done true n (pre ++ [p]).length id := by
        intro id; rw [hlen']; unfold Done; simp; omega
      exact {
        ncells := by simpa using hnc
        nlookup := by simpa using hnl
        ok := ok2.congr hS
        look := fun id hid => look2 id ((hS id).mpr hid) }

theorem getC_replicate (B c : Nat) : getC (List.replicate B []) c = [] := by
  unfold getC
  rw [List.getD_eq_getElem?_getD, List.getElem?_replicate]
  split <;> simp

theorem endPtV_mem_points {verts : List Path} {rev : Bool} {id : Nat}
    (hv : Done rev verts.length verts.length id) :
    endPtV verts verts.length id ∈ points verts rev := by
  unfold points endPtV
  rcases hv with hv | ⟨hrev, h1, h2⟩
  · have h' : ¬ id ≥ verts.length := by omega
    simp only [h', if_false, List.getD_eq_getElem?_getD, List.getElem?_eq_getElem hv, Option.getD_some]
    exact List.mem_flatMap.mpr ⟨verts[id], List.getElem_mem hv, by cases rev <;> simp⟩
  · have hlt : id - verts.length < verts.length := by omega
    have h' : id ≥ verts.length := h1
    simp only [h', if_true, List.getD_eq_getElem?_getD, List.getElem?_eq_getElem hlt, Option.getD_some]
    exact List.mem_flatMap.mpr ⟨verts[id - verts.length], List.getElem_mem hlt, by simp [hrev]⟩

/-- `__init__` establishes the invariant with every path live -/
theorem inv_build {verts : List Path} {bins : Nat} {rev : Bool} {g : Grid}
    (h : build verts bins rev = some g) :
    Inv g (List.range verts.length) ∧ g.verts = verts ∧ g.rev = rev ∧ g.n = verts.length ∧ g.bins = bins := by
  unfold build at h
  cases hG : geometry verts bins rev with
  | none => simp [hG] at h
  | some G =>
    simp only [hG] at h
    obtain ⟨hbins, hbpos, hbx, hby, hpts⟩ := geometry_spec hG
    have hb : 0 < G.bins := by rw [hbins]; exact hbpos
    have hhi : ∀ pt ∈ points verts rev, cellIdxHi G pt = cellIdx G pt :=
      fun pt hpt => cellIdxHi_eq hb hbx hby (hpts pt hpt).1 (hpts pt hpt).2
    have hcell : ∀ pt ∈ points verts rev, cellIdxHi G pt < G.bins * G.bins :=
      fun pt hpt => by rw [hhi pt hpt]; exact cellIdx_lt hb pt
    have h0 : LoopInv G rev verts.length verts ([] : List Path).length
        (List.replicate (bins * bins) [], List.replicate (if rev then 2 * verts.length else verts.length) 0) := {
      ncells := by simp [hbins]
      nlookup := by simp
      ok := ⟨fun c id => by rw [getC_replicate]; simp [Done], fun c => by rw [getC_replicate]; simp⟩
      look := fun id hid => by
        unfold Done at hid
        simp only [List.length_nil] at hid
        omega }
    have hfin := buildLoop_inv rfl hcell verts [] _ (by simp) h0
    simp only [List.length_nil] at hfin
    generalize buildLoop G rev verts.length verts 0 (List.replicate (bins * bins) [],
      List.replicate (if rev = true then 2 * verts.length else verts.length) 0) = st at h hfin
    cases h
    refine ⟨?_, rfl, rfl, rfl, hbins⟩
    have hvalid : ∀ id, ValidId
        { toGeo := G, rev := rev, n := verts.length, verts := verts, cells := st.1, lookup := st.2 } id ↔
        Done rev verts.length verts.length id := by
      intro id; unfold ValidId Done; simp only [Nat.two_mul]
    exact {
      bins_pos := hb
      bx_pos := hbx
      by_pos := hby
      nverts := rfl
      ncells := hfin.ncells
      live_lt := fun k hk => List.mem_range.mp hk
      mem_iff := fun c id => by
        show id ∈ getC st.1 c ↔ _
        rw [hfin.ok.mem_iff, hvalid]
        constructor
        · rintro ⟨hd, hl⟩
          refine ⟨hd, ?_, hl⟩
          rw [List.mem_range]
          show pathOf verts.length id < verts.length
          unfold pathOf; unfold Done at hd
          split <;> omega
        · rintro ⟨hd, _, hl⟩; exact ⟨hd, hl⟩
      nodup := fun c => hfin.ok.nodup c
      lookup_eq := fun id hv => by
        have hd := (hvalid id).mp hv
        show _ = some (cellIdx G (endPtV verts verts.length id))
        rw [← hhi _ (endPtV_mem_points hd)]
        exact hfin.look id hd }

end C13
end Plotink

namespace Plotink
namespace C13

/-- non-zero extent (two indexed vertices differ) and `bins ≥ 1`: `__init__` does not raise -/
theorem build_total {verts : List Path} {bins : Nat} {rev : Bool} (hb : 0 < bins)
    (hext : ∃ a ∈ points verts rev, ∃ b ∈ points verts rev, a ≠ b) :
    ∃ g, build verts bins rev = some g := by
  obtain ⟨a, ha, b, hb', hab⟩ := hext
  have hne : bins ≠ 0 := by omega
  have hbpos : (0 : Rat) < (bins : Rat) := by exact_mod_cast hb
  suffices hgeo : ∃ G, geometry verts bins rev = some G by
    obtain ⟨G, hG⟩ := hgeo
    simp [build, hG]
  unfold geometry
  simp only [hne, if_false]
  cases hpts : points verts rev with
  | nil => rw [hpts] at ha; simp at ha
  | cons p ps =>
    rw [hpts] at ha hb'
    simp only [extent]
    obtain ⟨hx0a, hx0⟩ := foldl_min_le (fun q => q.1) ps p.1
    obtain ⟨hx1a, hx1⟩ := le_foldl_max (fun q => q.1) ps p.1
    obtain ⟨hy0a, hy0⟩ := foldl_min_le (fun q => q.2) ps p.2
    obtain ⟨hy1a, hy1⟩ := le_foldl_max (fun q => q.2) ps p.2
    have bound : ∀ c ∈ p :: ps,
        ps.foldl (fun a q => min a q.1) p.1 ≤ c.1 ∧ c.1 ≤ ps.foldl (fun a q => max a q.1) p.1 ∧
        ps.foldl (fun a q => min a q.2) p.2 ≤ c.2 ∧ c.2 ≤ ps.foldl (fun a q => max a q.2) p.2 := by
      intro c hc
      rcases List.mem_cons.mp hc with rfl | hc
      · exact ⟨hx0a, hx1a, hy0a, hy1a⟩
      · exact ⟨hx0 c hc, hx1 c hc, hy0 c hc, hy1 c hc⟩
    obtain ⟨a1, a2, a3, a4⟩ := bound a ha
    obtain ⟨b1, b2, b3, b4⟩ := bound b hb'
    generalize ps.foldl (fun a q => min a q.1) p.1 = x0 at *
    generalize ps.foldl (fun a q => max a q.1) p.1 = x1 at *
    generalize ps.foldl (fun a q => min a q.2) p.2 = y0 at *
    generalize ps.foldl (fun a q => max a q.2) p.2 = y1 at *
    have hpos : 0 < x1 - x0 + y1 - y0 := by
      have : a.1 ≠ b.1 ∨ a.2 ≠ b.2 := by
        by_contra hc
        simp only [not_or, not_not] at hc
        exact hab (Prod.ext hc.1 hc.2)
      rcases this with h | h
      · rcases lt_or_gt_of_ne h with h | h <;> linarith
      · rcases lt_or_gt_of_ne h with h | h <;> linarith
    have hshim : 0 < (x1 - x0 + y1 - y0) / 200 := by apply div_pos hpos; norm_num
    have hbx : 0 < (x1 + (x1 - x0 + y1 - y0) / 200 - (x0 - (x1 - x0 + y1 - y0) / 200)) / (bins : Rat) := by
      apply div_pos _ hbpos; linarith
    have hby : 0 < (y1 + (x1 - x0 + y1 - y0) / 200 - (y0 - (x1 - x0 + y1 - y0) / 200)) / (bins : Rat) := by
      apply div_pos _ hbpos; linarith
    have : ¬ ((x1 + (x1 - x0 + y1 - y0) / 200 - (x0 - (x1 - x0 + y1 - y0) / 200)) / (bins : Rat) = 0 ∨
        (y1 + (x1 - x0 + y1 - y0) / 200 - (y0 - (x1 - x0 + y1 - y0) / 200)) / (bins : Rat) = 0) := by
      rintro (h | h)
      · rw [h] at hbx; exact lt_irrefl _ hbx
      · rw [h] at hby; exact lt_irrefl _ hby
    simp only [this, if_false]
    exact ⟨_, rfl⟩

theorem foldl_min_const (f : Pt → Rat) (ps : List Pt) (a : Rat) (h : ∀ q ∈ ps, f q = a) :
    ps.foldl (fun a q => min a (f q)) a = a := by
  induction ps with
  | nil => rfl
  | cons p ps ih =>
    simp only [List.foldl_cons]
    rw [h p (by simp), min_self]
    exact ih (fun q hq => h q (by simp [hq]))

theorem foldl_max_const (f : Pt → Rat) (ps : List Pt) (a : Rat) (h : ∀ q ∈ ps, f q = a) :
    ps.foldl (fun a q => max a (f q)) a = a := by
  induction ps with
  | nil => rfl
  | cons p ps ih =>
    simp only [List.foldl_cons]
    rw [h p (by simp), max_self]
    exact ih (fun q hq => h q (by simp [hq]))

/-- zero extent (all indexed vertices coincide, or there is none): `__init__` raises -/
theorem build_none_of_zero_extent {verts : List Path} {bins : Nat} {rev : Bool}
    (hz : ∀ a ∈ points verts rev, ∀ b ∈ points verts rev, a = b) : build verts bins rev = none := by
  suffices hgeo : geometry verts bins rev = none by simp [build, hgeo]
  unfold geometry
  by_cases hb : bins = 0
  · simp [hb]
  · simp only [hb, if_false]
    cases hpts : points verts rev with
    | nil => simp [extent]
    | cons p ps =>
      rw [hpts] at hz
      have hx : ∀ q ∈ ps, (fun q : Pt => q.1) q = p.1 := fun q hq => by
        rw [hz q (by simp [hq]) p (by simp)]
      have hy : ∀ q ∈ ps, (fun q : Pt => q.2) q = p.2 := fun q hq => by
        rw [hz q (by simp [hq]) p (by simp)]
      simp only [extent]
      rw [foldl_min_const (fun q => q.1) ps p.1 hx, foldl_max_const (fun q => q.1) ps p.1 hx,
        foldl_min_const (fun q => q.2) ps p.2 hy, foldl_max_const (fun q => q.2) ps p.2 hy]
      simp

end C13
end Plotink
