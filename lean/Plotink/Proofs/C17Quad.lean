import Plotink.Proofs.C02Alg
import Mathlib.Tactic.Positivity
import Mathlib.Algebra.Order.Field.Basic

/-! # C17 — the peak of `|quadratic|` on an integer interval

`f k = V + j·(k − t)²` with `j > 0` (a parabola opening upward, vertex at the rational `t`). On
`1 ≤ k ≤ T` it is at most `max (f 1) (f T)`; and it is at least `m − 2j` where `m` is the value at
an end point or at an integer `c` near the vertex, in each of the three situations the code
distinguishes. All statements are over `Rat`; `k`, `c`, `T` are integers. -/

namespace Plotink
namespace T3

/-- convexity: on `[1, T]` the parabola is below the larger of its end values -/
theorem quad_upper (V j t : Rat) (hj : 0 ≤ j) (T k : Int) (hk1 : 1 ≤ k) (hkT : k ≤ T) :
    V + j * ((k : Rat) - t) ^ 2 ≤ max (V + j * ((1 : Rat) - t) ^ 2) (V + j * ((T : Rat) - t) ^ 2) := by
  have hk1' : (1 : Rat) ≤ k := by exact_mod_cast hk1
  have hkT' : (k : Rat) ≤ T := by exact_mod_cast hkT
  by_cases h : (k : Rat) + T - 2 * t ≥ 0
  · -- (k-t)² ≤ (T-t)²
    refine le_trans ?_ (le_max_right _ _)
    have : ((k : Rat) - t) ^ 2 ≤ ((T : Rat) - t) ^ 2 := by nlinarith
    nlinarith
  · refine le_trans ?_ (le_max_left _ _)
    have h' : (k : Rat) + T - 2 * t < 0 := not_le.mp h
    have : ((k : Rat) - t) ^ 2 ≤ ((1 : Rat) - t) ^ 2 := by nlinarith
    nlinarith

/-- the three situations of `max_rate_t3` (`j > 0`): a probe `c` within 5/4 of the vertex, or the
vertex at most 7/4, or the vertex at least `T − 3/2` -/
theorem quad_lower (V j t : Rat) (hj : 0 < j) (T k : Int) (hk1 : 1 ≤ k) (hkT : k ≤ T) (m : Rat)
    (h : (∃ c : Int, |(c : Rat) - t| ≤ 5 / 4 ∧ m ≤ V + j * ((c : Rat) - t) ^ 2) ∨
         (t ≤ 7 / 4 ∧ m ≤ V + j * ((1 : Rat) - t) ^ 2) ∨
         ((T : Rat) - 3 / 2 ≤ t ∧ m ≤ V + j * ((T : Rat) - t) ^ 2)) :
    m - 2 * j ≤ V + j * ((k : Rat) - t) ^ 2 := by
  have hk1' : (1 : Rat) ≤ k := by exact_mod_cast hk1
  have hkT' : (k : Rat) ≤ T := by exact_mod_cast hkT
  rcases h with ⟨c, hc, hm⟩ | ⟨ht, hm⟩ | ⟨ht, hm⟩
  · have h1 : ((c : Rat) - t) ^ 2 ≤ 25 / 16 := by
      rw [abs_le] at hc
      nlinarith [hc.1, hc.2]
    have h2 : 0 ≤ ((k : Rat) - t) ^ 2 := sq_nonneg _
    nlinarith
  · -- f k - f 1 = j (k-1)(k+1-2t) ≥ j ((k-7/4)² - 9/16)
    have h1 : ((k : Rat) - t) ^ 2 - ((1 : Rat) - t) ^ 2 ≥ -(9 / 16) := by
      have e : ((k : Rat) - t) ^ 2 - ((1 : Rat) - t) ^ 2 = ((k : Rat) - 1) * ((k : Rat) + 1 - 2 * t) := by ring
      rw [e]
      have h3 : ((k : Rat) - 1) * ((k : Rat) + 1 - 2 * t) ≥ ((k : Rat) - 1) * ((k : Rat) - 5 / 2) := by
        apply mul_le_mul_of_nonneg_left _ (by linarith)
        linarith
      nlinarith [sq_nonneg ((k : Rat) - 7 / 4)]
    nlinarith
  · -- f k - f T = j n (2t - k - T) ≥ j n (n - 3) ≥ -2 j for the integer n = T - k ≥ 0
    have hn : (0 : Int) ≤ (T - k - 1) * (T - k - 2) := by
      by_cases h : T - k ≤ 1
      · exact mul_nonneg_of_nonpos_of_nonpos (by omega) (by omega)
      · exact mul_nonneg (by omega) (by omega)
    have hn' : (0 : Rat) ≤ ((T : Rat) - k - 1) * ((T : Rat) - k - 2) := by exact_mod_cast hn
    have h1 : ((k : Rat) - t) ^ 2 - ((T : Rat) - t) ^ 2 ≥ -2 := by
      have e : ((k : Rat) - t) ^ 2 - ((T : Rat) - t) ^ 2 = ((T : Rat) - k) * (2 * t - k - T) := by ring
      rw [e]
      have h3 : ((T : Rat) - k) * (2 * t - k - T) ≥ ((T : Rat) - k) * ((T : Rat) - k - 3) := by
        apply mul_le_mul_of_nonneg_left _ (by linarith)
        linarith
      nlinarith
    nlinarith

/-- both signs of `j`: if `res` dominates the end values (and the probe value when there is one) then
it misses no `|f k|`, `1 ≤ k ≤ T`, by more than `2|j|` -/
theorem quad_short (V j t : Rat) (hj : j ≠ 0) (T k : Int) (hk1 : 1 ≤ k) (hkT : k ≤ T) (res : Rat)
    (h1 : |V + j * ((1 : Rat) - t) ^ 2| ≤ res) (hT : |V + j * ((T : Rat) - t) ^ 2| ≤ res)
    (h : (∃ c : Int, |(c : Rat) - t| ≤ 5 / 4 ∧ |V + j * ((c : Rat) - t) ^ 2| ≤ res) ∨
         t ≤ 7 / 4 ∨ (T : Rat) - 3 / 2 ≤ t) :
    |V + j * ((k : Rat) - t) ^ 2| ≤ res + 2 * |j| := by
  rw [abs_le] at h1 hT
  rcases lt_or_gt_of_ne hj with hneg | hpos
  · -- parabola opening downward: mirror it
    have hj' : 0 < -j := by linarith
    have up := quad_upper (-V) (-j) t (le_of_lt hj') T k hk1 hkT
    have lo := quad_lower (-V) (-j) t hj' T k hk1 hkT (-res) (by
      rcases h with ⟨c, hc, hm⟩ | ht | ht
      · left; rw [abs_le] at hm; exact ⟨c, hc, by linarith [hm.2]⟩
      · right; left; exact ⟨ht, by linarith [h1.2]⟩
      · right; right; exact ⟨ht, by linarith [hT.2]⟩)
    have hmax : max (-V + -j * ((1 : Rat) - t) ^ 2) (-V + -j * ((T : Rat) - t) ^ 2) ≤ res :=
      max_le (by linarith [h1.1]) (by linarith [hT.1])
    rw [abs_of_neg hneg, abs_le]
    constructor <;> linarith
  · have up := quad_upper V j t (le_of_lt hpos) T k hk1 hkT
    have lo := quad_lower V j t hpos T k hk1 hkT (-res) (by
      rcases h with ⟨c, hc, hm⟩ | ht | ht
      · left; rw [abs_le] at hm; exact ⟨c, hc, by linarith [hm.1]⟩
      · right; left; exact ⟨ht, by linarith [h1.1]⟩
      · right; right; exact ⟨ht, by linarith [hT.1]⟩)
    have hmax : max (V + j * ((1 : Rat) - t) ^ 2) (V + j * ((T : Rat) - t) ^ 2) ≤ res :=
      max_le (by linarith [h1.2]) (by linarith [hT.2])
    rw [abs_of_pos hpos, abs_le]
    constructor <;> linarith

/-- zero jerk: the rate is linear in the tick, so its absolute value peaks at an end -/
theorem lin_short (q a : Rat) (T k : Int) (hk1 : 1 ≤ k) (hkT : k ≤ T) (res : Rat)
    (h1 : |q + (1 : Rat) * a| ≤ res) (hT : |q + (T : Rat) * a| ≤ res) : |q + (k : Rat) * a| ≤ res := by
  have hk1' : (1 : Rat) ≤ k := by exact_mod_cast hk1
  have hkT' : (k : Rat) ≤ T := by exact_mod_cast hkT
  rw [abs_le] at h1 hT ⊢
  rcases le_total 0 a with ha | ha
  · constructor <;> nlinarith [h1.1, hT.2]
  · constructor <;> nlinarith [h1.2, hT.1]

end T3
end Plotink
