import Plotink.Gen.move_dist_t3
import Plotink.Proofs.C02Env

/-! # C02 — `Gen.move_dist_t3` equals the firmware prediction (numeric bridge with error analysis)

`mpf(jerk)/6` is not representable at 103 bits, so unlike C01 the computed accumulator is only *close*
to the integer total of the recurrence; the proof bounds the accumulated error by `2^-15` and lets
`round()` recover the integer. The `< 0.01` snap is shown to fire exactly when the correction
`accel/2 − int(accel/2) + int(jerk/6) − jerk/6` is zero (it is a multiple of 1/6 otherwise). -/

namespace Plotink
namespace T3
open Py Py.Val Fw

section
variable {R : Rounding} (hR : Contract R)
include hR

/-- everything after `round()`: split an exact integer total into position and remainder -/
theorem dist_tail (X : Val) (tot : Int) (hX : round_ X = .int tot) (hb : |tot| < 2 ^ 100) :
    Val.tup [int_ (mp_floor (truediv R 103 (round_ X) (mpf (R.mp 103 2147483648)))),
       int_ (sub R 103 (round_ X) (mul R 103 (int 2147483648)
         (mpf_ R 103 (mp_floor (truediv R 103 (round_ X) (mpf (R.mp 103 2147483648)))))))]
      = .tup [.int (tot / 2147483648), .int (tot % 2147483648)] := by
  have e12 : R.mp 103 (2147483648 : Rat) = 2147483648 := by
    have : (2147483648 : Rat) = ((2147483648 : Int) : Rat) := by norm_num
    rw [this]; exact mp_int hR _ (by norm_num)
  have btot : |tot| < 2 ^ 103 := lt_trans hb (by norm_num)
  have e13 : R.mp 103 ((tot : Rat) / 2147483648) = (tot : Rat) / 2147483648 := by
    apply hR.mp_exact
    have := rep_div_pow2 103 tot 31 btot
    norm_num at this ⊢
    exact this
  set pos : Int := tot / 2147483648 with hpos
  have bpos : |pos| < 2 ^ 103 := by
    have : |pos| ≤ |tot| := by
      rw [hpos, abs_le]; constructor <;> (cases abs_cases tot <;> omega)
    exact lt_of_le_of_lt this btot
  have e15 : R.mp 103 (pos : Rat) = pos := mp_int hR _ bpos
  have bp2 : |2147483648 * pos| < 2 ^ 103 := by
    have h1 : |2147483648 * pos| ≤ |tot| + 2147483648 := by
      rw [hpos, abs_le]; constructor <;> (cases abs_cases tot <;> omega)
    have h2 : |tot| + 2147483648 < 2 ^ 103 := by
      have : (2:Int) ^ 100 + 2147483648 < 2 ^ 103 := by norm_num
      linarith
    exact lt_of_le_of_lt h1 h2
  have e16 : R.mp 103 (((2147483648 : Int) : Rat) * (pos : Rat)) = ((2147483648 * pos : Int) : Rat) := by
    have : ((2147483648 : Int) : Rat) * (pos : Rat) = ((2147483648 * pos : Int) : Rat) := by push_cast; ring
    rw [this]; exact mp_int hR _ bp2
  have hrem : tot - 2147483648 * pos = tot % 2147483648 := by rw [hpos]; omega
  have e17 : R.mp 103 ((tot : Rat) - ((2147483648 * pos : Int) : Rat)) = ((tot % 2147483648 : Int) : Rat) := by
    have : (tot : Rat) - ((2147483648 * pos : Int) : Rat) = ((tot % 2147483648 : Int) : Rat) := by
      rw [← hrem]; push_cast; ring
    rw [this]; exact mp_int hR _ (by rw [abs_lt]; constructor <;> omega)
  rw [hX, e12, div_int_mpf _ _ _ _ (by norm_num), e13, floor_mpf, floor_div_two31, ← hpos, int_mpf,
    intOfRat_int, mpf_mpf, e15, mul_int_mpf, e16, sub_int_mpf, e17, int_mpf, intOfRat_int]

/-- the three `mpf` additions after the `rate_effective·time` product, and the final `round()`:
`s` is the computed `mpf(accum) + rate_effective·time`, within `2^-20` of its ideal value `x1` -/
theorem sum_round (s x1 : Rat) (accel jerk T tot : Int) (hT1 : 1 ≤ T) (hT : T ≤ 2 ^ 32)
    (haT : |accel| * T ≤ 2 ^ 50) (hjT : |jerk| * T * T ≤ 2 ^ 50)
    (hs : |s - x1| ≤ 1 / 2 ^ 20) (hx1 : |x1| ≤ 2 ^ 76)
    (htot : x1 + ((accel * T * T : Int) : Rat) / 2 + ((jerk * T * T * T : Int) : Rat) / 6 = (tot : Rat)) :
    roundHE (R.mp 103 (R.mp 103 (s + R.mp 103 (R.mp 103 (R.mp 103 ((accel : Rat) * (T : Rat)) * (T : Rat)) / 2))
      + R.mp 103 (R.mp 103 (R.mp 103 (R.mp 103 ((jerk : Rat) * (T : Rat)) * (T : Rat)) * (T : Rat)) / 6))) = tot
    ∧ |tot| < 2 ^ 100 := by
  have hTa : |T| = T := abs_of_nonneg (by omega)
  have hTb : |T| ≤ 2 ^ 32 := by rw [hTa]; exact hT
  have baT : |accel * T| ≤ 2 ^ 50 := by rw [abs_mul, hTa]; exact haT
  have baTT : |accel * T * T| ≤ 2 ^ 50 * 2 ^ 32 := abs_mul_le baT hTb
  have bjT : |jerk * T| ≤ 2 ^ 50 := by
    rw [abs_mul, hTa]
    have h0 : 0 ≤ |jerk| * T := mul_nonneg (abs_nonneg jerk) (by omega)
    have := mul_le_mul_of_nonneg_left hT1 h0
    linarith
  have bjTT : |jerk * T * T| ≤ 2 ^ 50 := by rw [abs_mul, abs_mul, hTa]; exact hjT
  have bjTTT : |jerk * T * T * T| ≤ 2 ^ 50 * 2 ^ 32 := abs_mul_le bjTT hTb
  have a1 : R.mp 103 ((accel : Rat) * (T : Rat)) = ((accel * T : Int) : Rat) := by
    have : (accel : Rat) * (T : Rat) = ((accel * T : Int) : Rat) := by push_cast; ring
    rw [this]; exact mp_int hR _ (lt_of_le_of_lt baT (by norm_num))
  have a2 : R.mp 103 (((accel * T : Int) : Rat) * (T : Rat)) = ((accel * T * T : Int) : Rat) := by
    have : ((accel * T : Int) : Rat) * (T : Rat) = ((accel * T * T : Int) : Rat) := by push_cast; ring
    rw [this]; exact mp_int hR _ (lt_of_le_of_lt baTT (by norm_num))
  have a3 : R.mp 103 (((accel * T * T : Int) : Rat) / 2) = ((accel * T * T : Int) : Rat) / 2 :=
    mp_half hR _ (lt_of_le_of_lt baTT (by norm_num))
  have j1 : R.mp 103 ((jerk : Rat) * (T : Rat)) = ((jerk * T : Int) : Rat) := by
    have : (jerk : Rat) * (T : Rat) = ((jerk * T : Int) : Rat) := by push_cast; ring
    rw [this]; exact mp_int hR _ (lt_of_le_of_lt bjT (by norm_num))
  have j2 : R.mp 103 (((jerk * T : Int) : Rat) * (T : Rat)) = ((jerk * T * T : Int) : Rat) := by
    have : ((jerk * T : Int) : Rat) * (T : Rat) = ((jerk * T * T : Int) : Rat) := by push_cast; ring
    rw [this]; exact mp_int hR _ (lt_of_le_of_lt bjTT (by norm_num))
  have j3 : R.mp 103 (((jerk * T * T : Int) : Rat) * (T : Rat)) = ((jerk * T * T * T : Int) : Rat) := by
    have : ((jerk * T * T : Int) : Rat) * (T : Rat) = ((jerk * T * T * T : Int) : Rat) := by push_cast; ring
    rw [this]; exact mp_int hR _ (lt_of_le_of_lt bjTTT (by norm_num))
  rw [a1, a2, a3, j1, j2, j3]
  set A : Rat := ((accel * T * T : Int) : Rat) / 2 with hA
  set J : Rat := ((jerk * T * T * T : Int) : Rat) / 6 with hJ
  have bA : |A| ≤ 2 ^ 82 := by
    rw [hA, abs_div]
    have : |((accel * T * T : Int) : Rat)| ≤ ((2 ^ 50 * 2 ^ 32 : Int) : Rat) := by
      rw [← Int.cast_abs]; exact_mod_cast baTT
    have h2 : |(2 : Rat)| = 2 := by norm_num
    rw [h2]
    have : ((2 ^ 50 * 2 ^ 32 : Int) : Rat) = 2 ^ 82 := by norm_num
    linarith
  have bJ : |J| ≤ 2 ^ 82 := by
    rw [hJ, abs_div]
    have : |((jerk * T * T * T : Int) : Rat)| ≤ ((2 ^ 50 * 2 ^ 32 : Int) : Rat) := by
      rw [← Int.cast_abs]; exact_mod_cast bjTTT
    have h2 : |(6 : Rat)| = 6 := by norm_num
    rw [h2]
    have : ((2 ^ 50 * 2 ^ 32 : Int) : Rat) = 2 ^ 82 := by norm_num
    linarith
  -- the inexact quotient by 6
  have eJ : |R.mp 103 J - J| ≤ 1 / 2 ^ 21 := by
    have := mp_near hR J (2 ^ 82) bJ
    have e : (2 : Rat) ^ 82 / 2 ^ 103 = 1 / 2 ^ 21 := by norm_num
    rwa [e] at this
  -- first addition
  have eS2 : |R.mp 103 (s + A) - (x1 + A)| ≤ 1 / 2 ^ 20 + 1 / 2 ^ 20 := by
    have h1 : |(s + A) - (x1 + A)| ≤ 1 / 2 ^ 20 := by
      have : (s + A) - (x1 + A) = s - x1 := by ring
      rw [this]; exact hs
    have h2 : |x1 + A| + 1 / 2 ^ 20 ≤ 2 ^ 83 := by
      have := abs_add_le x1 A
      have : (1 : Rat) / 2 ^ 25 ≤ 1 := by norm_num
      have : (2 : Rat) ^ 76 + 2 ^ 82 + 1 ≤ 2 ^ 83 := by norm_num
      linarith
    have := mp_approx hR (s + A) (x1 + A) (1 / 2 ^ 20) (2 ^ 83) h1 h2
    have e : (2 : Rat) ^ 83 / 2 ^ 103 = 1 / 2 ^ 20 := by norm_num
    rwa [e] at this
  -- second addition
  have eS3 : |R.mp 103 (R.mp 103 (s + A) + R.mp 103 J) - (tot : Rat)| ≤
      (1 / 2 ^ 20 + 1 / 2 ^ 20 + 1 / 2 ^ 21) + 1 / 2 ^ 18 := by
    have h1 : |(R.mp 103 (s + A) + R.mp 103 J) - (tot : Rat)| ≤ 1 / 2 ^ 20 + 1 / 2 ^ 20 + 1 / 2 ^ 21 := by
      have : (R.mp 103 (s + A) + R.mp 103 J) - (tot : Rat)
          = (R.mp 103 (s + A) - (x1 + A)) + (R.mp 103 J - J) := by rw [← htot]; ring
      rw [this]
      have := abs_add_le (R.mp 103 (s + A) - (x1 + A)) (R.mp 103 J - J)
      linarith
    have h2 : |(tot : Rat)| + (1 / 2 ^ 20 + 1 / 2 ^ 20 + 1 / 2 ^ 21) ≤ 2 ^ 85 := by
      rw [← htot]
      have := abs_add_le (x1 + A) J
      have := abs_add_le x1 A
      have : (1 : Rat) / 2 ^ 25 + 1 / 2 ^ 20 + 1 / 2 ^ 21 ≤ 1 := by norm_num
      have : (2 : Rat) ^ 76 + 2 ^ 82 + 2 ^ 82 + 1 ≤ 2 ^ 85 := by norm_num
      linarith
    have := mp_approx hR _ (tot : Rat) _ (2 ^ 85) h1 h2
    have e : (2 : Rat) ^ 85 / 2 ^ 103 = 1 / 2 ^ 18 := by norm_num
    rwa [e] at this
  refine ⟨roundHE_near _ _ (lt_of_le_of_lt eS3 (by norm_num)), ?_⟩
  have hq : |(tot : Rat)| < ((2 ^ 100 : Int) : Rat) := by
    rw [← htot]
    have := abs_add_le (x1 + A) J
    have := abs_add_le x1 A
    have : (2 : Rat) ^ 76 + 2 ^ 82 + 2 ^ 82 < ((2 ^ 100 : Int) : Rat) := by norm_num
    linarith
  rw [← Int.cast_abs] at hq
  exact_mod_cast hq


/-- the ideal (unrounded) value of `mpf(accum) + rate_effective·time` -/
def x1 (rate accel jerk T a0 : Int) : Rat :=
  (a0 : Rat) + ((rate : Rat) + (accel : Rat) / 2 - (tdiv accel 2 : Int) + (tdiv jerk 6 : Int) - (jerk : Rat) / 6) * (T : Rat)

omit hR in
theorem x1_total (rate accel jerk T a0 : Int) (hT1 : 1 ≤ T) :
    x1 rate accel jerk T a0 + ((accel * T * T : Int) : Rat) / 2 + ((jerk * T * T * T : Int) : Rat) / 6
      = ((t3Total rate accel jerk T.toNat a0 : Int) : Rat) := by
  have hTn : ((T.toNat : Nat) : Int) = T := Int.toNat_of_nonneg (by omega)
  have h := total_closed rate accel jerk a0 T.toNat
  rw [hTn] at h
  have hq : ((6 * t3Total rate accel jerk T.toNat a0 : Int) : Rat)
      = ((6 * a0 + 6 * T * r0 rate accel jerk + 3 * accel * T * (T + 1) + jerk * (T - 1) * T * (T + 1) : Int) : Rat) := by
    rw [h]
  unfold x1
  unfold r0 at hq
  push_cast at hq ⊢
  linear_combination (-1 / 6 : Rat) * hq

/-- the `rate_effective` computation with its snap, times `time`, plus `mpf(accum)` -/
theorem first_sum (T rate accel jerk a0 : Int) (hT1 : 1 ≤ T) (hT : T ≤ 2 ^ 32)
    (hr : |rate| ≤ 2 ^ 40) (ha : |accel| ≤ 2 ^ 40) (hj : |jerk| ≤ 2 ^ 40) (ha0 : 0 ≤ a0 ∧ a0 < 2 ^ 31) :
    ∃ s : Rat,
      add R 103 (mpf (a0 : Rat))
        (mul R 103
          (if decide (|R.mp 103 (R.mp 103 (R.mp 103 (R.mp 103 (R.mp 103 ((rate : Rat) + R.mp 103 ((accel : Rat) / 2))
                - ((tdiv accel 2 : Int) : Rat)) + ((tdiv jerk 6 : Int) : Rat)) - R.mp 103 ((jerk : Rat) / 6)) - (rate : Rat))|
              < 5764607523034235 / 576460752303423488) = true
           then int rate
           else mpf (R.mp 103 (R.mp 103 (R.mp 103 (R.mp 103 ((rate : Rat) + R.mp 103 ((accel : Rat) / 2))
                - ((tdiv accel 2 : Int) : Rat)) + ((tdiv jerk 6 : Int) : Rat)) - R.mp 103 ((jerk : Rat) / 6))))
          (int T)) = mpf s ∧
      |s - x1 rate accel jerk T a0| ≤ 1 / 2 ^ 20 ∧ |x1 rate accel jerk T a0| ≤ 2 ^ 76 := by
  have hTa : |T| = T := abs_of_nonneg (by omega)
  have hTb : |T| ≤ 2 ^ 32 := by rw [hTa]; exact hT
  set h := tdiv accel 2 with hh
  set j6 := tdiv jerk 6 with hj6
  have bh : |h| ≤ 2 ^ 40 := le_trans (tdiv2_abs accel) ha
  have bj6 : |j6| ≤ 2 ^ 40 := le_trans (tdiv6_abs jerk) hj
  -- exact sites
  have m2 : R.mp 103 ((accel : Rat) / 2) = (accel : Rat) / 2 := mp_half hR accel (lt_of_le_of_lt ha (by norm_num))
  have b3 : |2 * rate + accel| ≤ 2 ^ 42 := by
    have := abs_add_le (2 * rate) accel
    have : |2 * rate| = 2 * |rate| := by rw [abs_mul]; norm_num
    linarith
  have m3 : R.mp 103 ((rate : Rat) + (accel : Rat) / 2) = ((2 * rate + accel : Int) : Rat) / 2 := by
    have : (rate : Rat) + (accel : Rat) / 2 = ((2 * rate + accel : Int) : Rat) / 2 := by push_cast; ring
    rw [this]; exact mp_half hR _ (lt_of_le_of_lt b3 (by norm_num))
  have b4 : |2 * rate + accel - 2 * h| ≤ 2 ^ 43 := by
    have := abs_sub (2 * rate + accel) (2 * h)
    have : |2 * h| = 2 * |h| := by rw [abs_mul]; norm_num
    linarith
  have m4 : R.mp 103 (((2 * rate + accel : Int) : Rat) / 2 - (h : Rat)) = ((2 * rate + accel - 2 * h : Int) : Rat) / 2 := by
    have : ((2 * rate + accel : Int) : Rat) / 2 - (h : Rat) = ((2 * rate + accel - 2 * h : Int) : Rat) / 2 := by
      push_cast; ring
    rw [this]; exact mp_half hR _ (lt_of_le_of_lt b4 (by norm_num))
  set K : Int := 2 * rate + accel - 2 * h + 2 * j6 with hK
  have bK : |K| ≤ 2 ^ 43 := by
    have h1 := abs_add_le (2 * rate + accel - 2 * h) (2 * j6)
    have h2 := abs_sub (2 * rate + accel) (2 * h)
    have h3 := abs_add_le (2 * rate) accel
    have : |2 * rate| = 2 * |rate| := by rw [abs_mul]; norm_num
    have : |2 * h| = 2 * |h| := by rw [abs_mul]; norm_num
    have : |2 * j6| = 2 * |j6| := by rw [abs_mul]; norm_num
    rw [hK]; linarith
  have m5 : R.mp 103 (((2 * rate + accel - 2 * h : Int) : Rat) / 2 + (j6 : Rat)) = (K : Rat) / 2 := by
    have : ((2 * rate + accel - 2 * h : Int) : Rat) / 2 + (j6 : Rat) = (K : Rat) / 2 := by rw [hK]; push_cast; ring
    rw [this]; exact mp_half hR _ (lt_of_le_of_lt bK (by norm_num))
  rw [m2, m3, m4, m5]
  -- the ideal rate_effective and x1
  have hx1 : x1 rate accel jerk T a0 = (a0 : Rat) + ((K : Rat) / 2 - (jerk : Rat) / 6) * (T : Rat) := by
    unfold x1; rw [hK, ← hh, ← hj6]; push_cast; ring
  have bKq : |(K : Rat) / 2| ≤ 2 ^ 42 := by
    rw [abs_div]
    have : |(K : Rat)| ≤ ((2 ^ 43 : Int) : Rat) := by rw [← Int.cast_abs]; exact_mod_cast bK
    have h2 : |(2 : Rat)| = 2 := by norm_num
    rw [h2]; push_cast at this; linarith
  have bjq : |(jerk : Rat) / 6| ≤ 2 ^ 40 := by
    rw [abs_div]
    have : |(jerk : Rat)| ≤ ((2 ^ 40 : Int) : Rat) := by rw [← Int.cast_abs]; exact_mod_cast hj
    have h0 : (0 : Rat) ≤ |(jerk : Rat)| := abs_nonneg _
    have h2 : |(6 : Rat)| = 6 := by norm_num
    rw [h2]; push_cast at this; linarith
  have bre : |(K : Rat) / 2 - (jerk : Rat) / 6| ≤ 2 ^ 43 := by
    have := abs_sub ((K : Rat) / 2) ((jerk : Rat) / 6)
    have : (2 : Rat) ^ 42 + 2 ^ 40 ≤ 2 ^ 43 := by norm_num
    linarith
  have bTq : |(T : Rat)| ≤ 2 ^ 32 := by
    have : |(T : Rat)| ≤ ((2 ^ 32 : Int) : Rat) := by rw [← Int.cast_abs]; exact_mod_cast hTb
    push_cast at this; exact this
  have bprod : |((K : Rat) / 2 - (jerk : Rat) / 6) * (T : Rat)| ≤ 2 ^ 75 := by
    rw [abs_mul]
    have := mul_le_mul bre bTq (abs_nonneg _) (by norm_num)
    have e : (2 : Rat) ^ 43 * 2 ^ 32 = 2 ^ 75 := by norm_num
    linarith
  have ba0 : |(a0 : Rat)| ≤ 2 ^ 31 := by
    have : |a0| ≤ 2 ^ 31 := by rw [abs_le]; constructor <;> linarith [ha0.1, ha0.2]
    have : |(a0 : Rat)| ≤ ((2 ^ 31 : Int) : Rat) := by rw [← Int.cast_abs]; exact_mod_cast this
    push_cast at this; exact this
  have bx1 : |x1 rate accel jerk T a0| ≤ 2 ^ 76 := by
    rw [hx1]
    have := abs_add_le (a0 : Rat) (((K : Rat) / 2 - (jerk : Rat) / 6) * (T : Rat))
    have : (2 : Rat) ^ 31 + 2 ^ 75 ≤ 2 ^ 76 := by norm_num
    linarith
  by_cases hc : 3 * K - jerk - 6 * rate = 0
  · -- the correction is zero: everything is exact and the snap fires
    have hjk : jerk = 3 * (K - 2 * rate) := by linarith
    have bD : |K - 2 * rate| ≤ 2 ^ 44 := by
      have := abs_sub K (2 * rate)
      have : |2 * rate| = 2 * |rate| := by rw [abs_mul]; norm_num
      linarith
    have mD : R.mp 103 ((jerk : Rat) / 6) = ((K - 2 * rate : Int) : Rat) / 2 := by
      have : (jerk : Rat) / 6 = ((K - 2 * rate : Int) : Rat) / 2 := by rw [hjk]; push_cast; ring
      rw [this]; exact mp_half hR _ (lt_of_le_of_lt bD (by norm_num))
    have m6 : R.mp 103 ((K : Rat) / 2 - ((K - 2 * rate : Int) : Rat) / 2) = (rate : Rat) := by
      have : (K : Rat) / 2 - ((K - 2 * rate : Int) : Rat) / 2 = (rate : Rat) := by push_cast; ring
      rw [this]; exact mp_int hR _ (lt_of_le_of_lt hr (by norm_num))
    have m7 : R.mp 103 ((rate : Rat) - (rate : Rat)) = 0 := by
      have : (rate : Rat) - (rate : Rat) = ((0 : Int) : Rat) := by push_cast; ring
      rw [this, mp_int hR 0 (by norm_num)]; simp
    rw [mD, m6, m7]
    have hlt : decide (|(0 : Rat)| < 5764607523034235 / 576460752303423488) = true := by
      rw [decide_eq_true_iff]; norm_num
    rw [if_pos hlt, mul_int_int, add_mpf_int]
    have bs : |a0 + rate * T| < 2 ^ 103 := by
      have h1 := abs_add_le a0 (rate * T)
      have h2 : |rate * T| ≤ 2 ^ 40 * 2 ^ 32 := abs_mul_le hr hTb
      have h3 : |a0| ≤ 2 ^ 31 := by rw [abs_le]; constructor <;> linarith [ha0.1, ha0.2]
      have : (2 : Int) ^ 31 + 2 ^ 40 * 2 ^ 32 < 2 ^ 103 := by norm_num
      linarith
    have m8 : R.mp 103 ((a0 : Rat) + ((rate * T : Int) : Rat)) = ((a0 + rate * T : Int) : Rat) := by
      have : (a0 : Rat) + ((rate * T : Int) : Rat) = ((a0 + rate * T : Int) : Rat) := by push_cast; ring
      rw [this]; exact mp_int hR _ bs
    refine ⟨((a0 + rate * T : Int) : Rat), by rw [m8], ?_, bx1⟩
    have : ((a0 + rate * T : Int) : Rat) - x1 rate accel jerk T a0 = 0 := by
      rw [hx1]
      have hq : ((jerk : Int) : Rat) = ((3 * (K - 2 * rate) : Int) : Rat) := by rw [← hjk]
      push_cast at hq ⊢
      rw [hq]; ring
    rw [this]; norm_num
  · -- the correction is a non-zero multiple of 1/6: no snap, errors stay negligible
    set D := R.mp 103 ((jerk : Rat) / 6) with hD
    have eD : |D - (jerk : Rat) / 6| ≤ 1 / 2 ^ 63 := by
      have := mp_near hR _ (2 ^ 40) bjq
      have e : (2 : Rat) ^ 40 / 2 ^ 103 = 1 / 2 ^ 63 := by norm_num
      rwa [e] at this
    set x0 : Rat := (K : Rat) / 2 - (jerk : Rat) / 6 with hx0
    set RE := R.mp 103 ((K : Rat) / 2 - D) with hRE
    have eRE : |RE - x0| ≤ 1 / 2 ^ 63 + 1 / 2 ^ 58 := by
      have h1 : |((K : Rat) / 2 - D) - x0| ≤ 1 / 2 ^ 63 := by
        have : ((K : Rat) / 2 - D) - x0 = -(D - (jerk : Rat) / 6) := by rw [hx0]; ring
        rw [this, abs_neg]; exact eD
      have h2 : |x0| + 1 / 2 ^ 63 ≤ 2 ^ 45 := by
        have : (1 : Rat) / 2 ^ 63 ≤ 1 := by norm_num
        have : (2 : Rat) ^ 43 + 1 ≤ 2 ^ 45 := by norm_num
        linarith
      have := mp_approx hR _ x0 _ (2 ^ 45) h1 h2
      have e : (2 : Rat) ^ 45 / 2 ^ 103 = 1 / 2 ^ 58 := by norm_num
      rwa [e] at this
    -- the snap test
    set DIFF := R.mp 103 (RE - (rate : Rat)) with hDIFF
    have eDIFF : |DIFF - (x0 - (rate : Rat))| ≤ 1 / 2 ^ 63 + 1 / 2 ^ 58 + 1 / 2 ^ 57 := by
      have h1 : |(RE - (rate : Rat)) - (x0 - (rate : Rat))| ≤ 1 / 2 ^ 63 + 1 / 2 ^ 58 := by
        have : (RE - (rate : Rat)) - (x0 - (rate : Rat)) = RE - x0 := by ring
        rw [this]; exact eRE
      have brq : |(rate : Rat)| ≤ 2 ^ 40 := by
        have : |(rate : Rat)| ≤ ((2 ^ 40 : Int) : Rat) := by rw [← Int.cast_abs]; exact_mod_cast hr
        push_cast at this; exact this
      have h2 : |x0 - (rate : Rat)| + (1 / 2 ^ 63 + 1 / 2 ^ 58) ≤ 2 ^ 46 := by
        have := abs_sub x0 (rate : Rat)
        have : (1 : Rat) / 2 ^ 63 + 1 / 2 ^ 58 ≤ 1 := by norm_num
        have : (2 : Rat) ^ 43 + 2 ^ 40 + 1 ≤ 2 ^ 46 := by norm_num
        linarith
      have := mp_approx hR _ (x0 - (rate : Rat)) _ (2 ^ 46) h1 h2
      have e : (2 : Rat) ^ 46 / 2 ^ 103 = 1 / 2 ^ 57 := by norm_num
      rwa [e] at this
    have hsixth : (1 : Rat) / 6 ≤ |x0 - (rate : Rat)| := by
      have e : x0 - (rate : Rat) = ((3 * K - jerk - 6 * rate : Int) : Rat) / 6 := by rw [hx0]; push_cast; ring
      rw [e, abs_div]
      have h1 : (1 : Int) ≤ |3 * K - jerk - 6 * rate| := Int.one_le_abs hc
      have h2 : ((1 : Int) : Rat) ≤ ((|3 * K - jerk - 6 * rate| : Int) : Rat) := by exact_mod_cast h1
      rw [Int.cast_abs] at h2
      have h6 : |(6 : Rat)| = 6 := by norm_num
      rw [h6]
      push_cast at h2 ⊢
      linarith
    have hnlt : ¬ (decide (|DIFF| < 5764607523034235 / 576460752303423488) = true) := by
      rw [decide_eq_true_iff, not_lt]
      have h1 := abs_sub_abs_le_abs_sub (x0 - (rate : Rat)) DIFF
      have h2 : |x0 - (rate : Rat) - DIFF| = |DIFF - (x0 - (rate : Rat))| := abs_sub_comm _ _
      have : (5764607523034235 : Rat) / 576460752303423488 + (1 / 2 ^ 63 + 1 / 2 ^ 58 + 1 / 2 ^ 57) ≤ 1 / 6 := by
        norm_num
      linarith
    rw [if_neg hnlt, mul_mpf_int, add_mpf_mpf]
    -- the product and the first addition
    set P := R.mp 103 (RE * (T : Rat)) with hP
    have eP : |P - x0 * (T : Rat)| ≤ 1 / 2 ^ 31 + 1 / 2 ^ 26 + 1 / 2 ^ 27 := by
      have h1 : |RE * (T : Rat) - x0 * (T : Rat)| ≤ 1 / 2 ^ 31 + 1 / 2 ^ 26 := by
        have : RE * (T : Rat) - x0 * (T : Rat) = (RE - x0) * (T : Rat) := by ring
        rw [this, abs_mul]
        have := mul_le_mul eRE bTq (abs_nonneg _) (by norm_num)
        have e : ((1 : Rat) / 2 ^ 63 + 1 / 2 ^ 58) * 2 ^ 32 = 1 / 2 ^ 31 + 1 / 2 ^ 26 := by norm_num
        rwa [e] at this
      have h2 : |x0 * (T : Rat)| + (1 / 2 ^ 31 + 1 / 2 ^ 26) ≤ 2 ^ 76 := by
        have : (1 : Rat) / 2 ^ 31 + 1 / 2 ^ 26 ≤ 1 := by norm_num
        have : (2 : Rat) ^ 75 + 1 ≤ 2 ^ 76 := by norm_num
        linarith
      have := mp_approx hR _ (x0 * (T : Rat)) _ (2 ^ 76) h1 h2
      have e : (2 : Rat) ^ 76 / 2 ^ 103 = 1 / 2 ^ 27 := by norm_num
      rwa [e] at this
    have eS : |R.mp 103 ((a0 : Rat) + P) - x1 rate accel jerk T a0| ≤ 1 / 2 ^ 31 + 1 / 2 ^ 26 + 1 / 2 ^ 27 + 1 / 2 ^ 26 := by
      have h1 : |((a0 : Rat) + P) - x1 rate accel jerk T a0| ≤ 1 / 2 ^ 31 + 1 / 2 ^ 26 + 1 / 2 ^ 27 := by
        have : ((a0 : Rat) + P) - x1 rate accel jerk T a0 = P - x0 * (T : Rat) := by rw [hx1]; ring
        rw [this]; exact eP
      have h2 : |x1 rate accel jerk T a0| + (1 / 2 ^ 31 + 1 / 2 ^ 26 + 1 / 2 ^ 27) ≤ 2 ^ 77 := by
        have : (1 : Rat) / 2 ^ 31 + 1 / 2 ^ 26 + 1 / 2 ^ 27 ≤ 1 := by norm_num
        have : (2 : Rat) ^ 76 + 1 ≤ 2 ^ 77 := by norm_num
        linarith
      have := mp_approx hR _ (x1 rate accel jerk T a0) _ (2 ^ 77) h1 h2
      have e : (2 : Rat) ^ 77 / 2 ^ 103 = 1 / 2 ^ 26 := by norm_num
      rwa [e] at this
    refine ⟨_, rfl, le_trans eS (by norm_num), bx1⟩


/-- `move_dist_t3` with an explicit start accumulator -/
theorem dist_core (amb : Nat) (T rate accel jerk a0 : Int)
    (hE : EnvT3 rate accel jerk T) (ha0 : 0 ≤ a0 ∧ a0 < 2 ^ 31) :
    Gen.move_dist_t3 R amb (.int T) (.int rate) (.int accel) (.int jerk) (.int a0)
      = .tup [.int (t3Total rate accel jerk T.toNat a0 / 2147483648),
              .int (t3Total rate accel jerk T.toNat a0 % 2147483648)] := by
  obtain ⟨hT1, hT, hr, ha, hj, haT, hjT⟩ := hE
  have hT0 : T ≠ 0 := by omega
  have hp : Py.dpsToPrec 30 = 103 := by decide
  have e1 : R.f64 ((accel : Rat) / 2) = (accel : Rat) / 2 :=
    f64_half hR accel (lt_of_le_of_lt ha (by norm_num))
  have e2 := intOfRat_sixth hR jerk (le_trans hj (by norm_num))
  have s1 : R.mp 103 (accel : Rat) = accel := mp_int hR accel (lt_of_le_of_lt ha (by norm_num))
  have s6 : R.mp 103 (jerk : Rat) = jerk := mp_int hR jerk (lt_of_le_of_lt hj (by norm_num))
  have s7 : R.mp 103 (rate : Rat) = rate := mp_int hR rate (lt_of_le_of_lt hr (by norm_num))
  have s8 : R.mp 103 (a0 : Rat) = a0 := mp_int hR a0 (by rw [abs_lt]; constructor <;> linarith [ha0.1, ha0.2])
  unfold Gen.move_dist_t3
  simp only [int_int, eq_int_int, hT0, decide_false, Bool.false_eq_true, ↓reduceIte, hp, eq_int_str,
    div_int_int _ _ _ _ (by norm_num : (2:Int) ≠ 0), div_int_int _ _ _ _ (by norm_num : (6:Int) ≠ 0), int_flt,
    mpf_int, div_mpf_int _ _ _ _ (by norm_num : (2:Int) ≠ 0),
    div_mpf_int _ _ _ _ (by norm_num : (6:Int) ≠ 0), add_int_mpf, sub_mpf_int, add_mpf_int, sub_mpf_mpf,
    mul_mpf_int, Int.cast_ofNat, e1, intOfRat_half, e2, s1, s6, s7, s8, abs_mpf, lt_mpf_flt]
  obtain ⟨s, hs, he, hx⟩ := first_sum hR T rate accel jerk a0 hT1 hT hr ha hj ha0
  obtain ⟨hround, hb⟩ := sum_round hR s (x1 rate accel jerk T a0) accel jerk T
    (t3Total rate accel jerk T.toNat a0) hT1 hT haT hjT he hx (x1_total rate accel jerk T a0 hT1)
  refine dist_tail hR _ _ ?_ hb
  rw [hs, add_mpf_mpf, add_mpf_mpf, round_mpf, hround]

/-- the `"clear"` case: the code's three-level test picks the same start accumulator as `codeClear` -/
theorem dist_clear (amb : Nat) (T rate accel jerk : Int) (ha : |accel| ≤ 2 ^ 40) (hj : |jerk| ≤ 2 ^ 40) :
    Gen.move_dist_t3 R amb (.int T) (.int rate) (.int accel) (.int jerk) (.str "clear")
      = Gen.move_dist_t3 R amb (.int T) (.int rate) (.int accel) (.int jerk) (.int (codeClear rate accel jerk)) := by
  have e1 : R.f64 ((accel : Rat) / 2) = (accel : Rat) / 2 :=
    f64_half hR accel (lt_of_le_of_lt ha (by norm_num))
  have e2 := intOfRat_sixth hR jerk (le_trans hj (by norm_num))
  unfold Gen.move_dist_t3 codeClear r0
  simp only [int_int, eq_int_int, eq_str_str, eq_int_str, beq_self_eq_true, lt_int_int, add_int_int, sub_int_int,
    div_int_int _ _ _ _ (by norm_num : (2:Int) ≠ 0), div_int_int _ _ _ _ (by norm_num : (6:Int) ≠ 0), int_flt,
    e1, intOfRat_half, e2, Int.cast_ofNat, Bool.false_eq_true, ↓reduceIte, decide_eq_true_eq]
  by_cases hT0 : T = 0
  · simp only [hT0, ↓reduceIte]
  simp only [hT0, ↓reduceIte]
  by_cases c1 : rate - tdiv accel 2 + tdiv jerk 6 + accel < 0
  · simp only [c1, ↓reduceIte]
  simp only [c1, ↓reduceIte]
  by_cases c2 : rate - tdiv accel 2 + tdiv jerk 6 + accel = 0
  · simp only [c2, ↓reduceIte]
    by_cases c3 : accel + jerk < 0
    · simp only [c3, ↓reduceIte]
    simp only [c3, ↓reduceIte]
    by_cases c4 : accel + jerk = 0
    · simp only [c4, ↓reduceIte]
      by_cases c5 : jerk < 0
      · simp only [c5, ↓reduceIte]
      · simp only [c5, ↓reduceIte]
    · simp only [c4, ↓reduceIte]
  · simp only [c2, ↓reduceIte]

end

end T3
end Plotink
