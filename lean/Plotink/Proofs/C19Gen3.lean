import Plotink.Proofs.C19Gen2
import Plotink.Gen.ebb3_serial_list_named_ebbs
import Plotink.Gen.ebb_serial_list_named_ebbs

/-! # C19 bridges, part 3: name extraction `list_named_ebbs` (both layers), incl. the `SER=… LOCAT` / `SNR=` parsing -/
namespace Plotink
namespace C19Gen
open PyObj Gen LegacyGen
set_option linter.unusedSimpArgs false
set_option linter.unusedVariables false

/-- the names appended so far for the current port: nothing, or the one name found -/
def nameVals (r : Option C19.Str) : List Val :=
  match r with
  | some t => [.str t]
  | Option.none => []

theorem findFrom_beyond (n h : List Char) (k : Nat) (hn : n ≠ []) (hk : ¬ k ≤ h.length) : C19.findFrom n h k = Option.none := by
  unfold C19.findFrom
  rw [List.drop_eq_nil_of_le (by omega)]
  cases n with
  | nil => exact absurd rfl hn
  | cons c t => rfl

/-- `p_2.find(' LOCAT', index1)` -/
theorem find_from_locat (h : List Char) (k : Nat) :
    meth_find_from (.str h) (.str [' ', 'L', 'O', 'C', 'A', 'T']) (.int k) =
      .ok (.int (match C19.findFrom C19.locatK h k with | some j => (j : Int) | Option.none => -1)) := by
  have h0 : (0 : Int) ≤ (k : Int) := Int.natCast_nonneg k
  simp only [meth_find_from, intOf, h0, ↓reduceIte, Int.toNat_natCast, ← lit_locatK]
  by_cases hk : k ≤ h.length
  · simp only [hk, ↓reduceIte]
    cases C19.findFrom C19.locatK h k <;> rfl
  · simp only [hk, ↓reduceIte, findFrom_beyond C19.locatK h k (by decide) hk]

/-- `p_2.find(K) + len(K)` for a four-character tag -/
theorem find_plus4 (h K : List Char) :
    op_add (.int (match C19.findIdx K h with | some i => (i : Int) | Option.none => -1)) (.int 4) =
      .ok (.int ((match C19.findIdx K h with | some i => i + 4 | Option.none => 3 : Nat) : Int)) := by
  cases C19.findIdx K h with
  | none => rfl
  | some i => simp only [op_add, intOf]; rfl

theorem lt3 (t : List Char) : op_lt (.int (t.length : Int)) (.int 3) = .ok (.bool (decide (t.length < 3))) := by
  simp only [op_lt, ltVal, intOf, ofOptBool]
  congr 2
  by_cases h : t.length < 3
  · simp [h]; omega
  · simp [h]; omega

/-- `find(K) + 4` as a natural number (`-1 + 4 = 3` when absent) -/
def idx1 (K h : List Char) : Nat :=
  match C19.findIdx K h with
  | some i => i + 4
  | Option.none => 3

/-- the value of `p_2.find(' LOCAT', k)` -/
def idx2v (h : List Char) (k : Nat) : Val :=
  .int (match C19.findFrom C19.locatK h k with | some j => (j : Int) | Option.none => -1)

theorem find_plus4' (h K : List Char) :
    op_add (.int (match C19.findIdx K h with | some i => (i : Int) | Option.none => -1)) (.int 4) =
      .ok (.int (idx1 K h : Int)) := by
  unfold idx1
  cases C19.findIdx K h with
  | none => rfl
  | some i => simp only [op_add, intOf]; rfl

theorem find_from_locat' (h : List Char) (k : Nat) :
    meth_find_from (.str h) (.str [' ', 'L', 'O', 'C', 'A', 'T']) (.int k) = .ok (idx2v h k) := by
  rw [find_from_locat]; unfold idx2v
  cases C19.findFrom C19.locatK h k <;> rfl

theorem slice_idx (h : List Char) (k : Nat) :
    op_slice (.str h) (.int k) (idx2v h k) = .ok (.str (C19.sliceTo h k (C19.findFrom C19.locatK h k))) := by
  unfold idx2v
  rw [← slice_find]
  cases C19.findFrom C19.locatK h k <;> rfl

theorem serSlice_eq (h : List Char) :
    C19.serSlice h = C19.sliceTo h (idx1 C19.serK h) (C19.findFrom C19.locatK h (idx1 C19.serK h)) := by
  unfold C19.serSlice idx1
  cases C19.findIdx C19.serK h <;> rfl

theorem load_idx2v {ω : Type} (h : List Char) (k : Nat) : (load (idx2v h k) : Eff ω) = ok (idx2v h k) := rfl

/-! ## `list_named_ebbs` (EBB3 layer) -/

/-- first naming step: the text after `EiBotBoard,` in the description -/
theorem named3_stageA (fuel : Nat) (p : C19.Port) (epl pt p0 ts i1 i2 : Val) (acc : List Val) (w : World NoObj) :
    ∃ ts', ebb3_serial_list_named_ebbs_if2 fuel
        ⟨epl, .list acc, pt, .bool false, p0, .str p.desc, .str p.hwid, ts, i1, i2⟩ w
      = .norm ⟨epl, .list (acc ++ nameVals (C19.descName p)), pt, .bool (C19.descName p).isSome, p0, .str p.desc,
               .str p.hwid, ts', i1, i2⟩ w := by
  unfold ebb3_serial_list_named_ebbs_if2 ebb3_serial_list_named_ebbs_if3 ebb3_serial_list_named_ebbs_if4
  have h11 : ∀ s : List Char, op_slice (.str s) (.int 11) .none = .ok (.str (s.drop 11)) := fun s => slice_from s 11
  cases hd : C19.descMatch p with
  | false =>
    have hd' : List.isPrefixOf ['E', 'i', 'B', 'o', 't', 'B', 'o', 'a', 'r', 'd'] p.desc = false := by
      rw [← lit_ebbName]; exact hd
    refine ⟨ts, ?_⟩
    simp only [ifte, load_str, app2_ok, startswith_str, hd', ofP_ok, ok_apply, truthy_bool, Bool.false_eq_true, ↓reduceIte, pass,
      C19.descName, hd, nameVals, List.append_nil, Option.isSome_none]
  | true =>
    have hd' : List.isPrefixOf ['E', 'i', 'B', 'o', 't', 'B', 'o', 'a', 'r', 'd'] p.desc = true := by
      rw [← lit_ebbName]; exact hd
    refine ⟨.str (p.desc.drop 11), ?_⟩
    by_cases he : p.desc.drop 11 = []
    · simp only [ifte, load_str, app2_ok, app3_ok, h11, startswith_str, hd', ofP_ok, ok_apply, truthy_bool, ↓reduceIte, pass,
        block_cons2, block_one, seq, assign, truthy_str, he, List.isEmpty_nil, Bool.not_true, Bool.false_eq_true,
        C19.descName, hd, nameVals, List.append_nil, Option.isSome_none, ne_eq, not_true_eq_false]
    · have hne : (p.desc.drop 11).isEmpty = false := by simpa [List.isEmpty_iff] using he
      simp only [ifte, load_str, load_list, app1_ok, app2_ok, app3_ok, h11, startswith_str, hd', ofP_ok, ok_apply, truthy_bool,
        ↓reduceIte, pass, block_cons2, block_one, seq, assign, truthy_str, hne, Bool.not_false, op_is_not_none, isNone,
        meth_append, C19.descName, hd, nameVals, Option.isSome_some, ne_eq, he, not_false_eq_true]

/-- second naming step: the `SER=XXXX LOCAT` pattern of the hardware string -/
theorem named3_stageB (fuel : Nat) (p : C19.Port) (b : Bool) (epl pt p0 ts i1 i2 : Val) (acc : List Val) (w : World NoObj) :
    ∃ ts' i1' i2', ebb3_serial_list_named_ebbs_if5 fuel
        ⟨epl, .list acc, pt, .bool b, p0, .str p.desc, .str p.hwid, ts, i1, i2⟩ w
      = .norm ⟨epl, .list (acc ++ (if b then [] else nameVals (C19.serName p))), pt,
               .bool (b || (C19.serName p).isSome), p0, .str p.desc, .str p.hwid, ts', i1', i2'⟩ w := by
  unfold ebb3_serial_list_named_ebbs_if5
  cases b with
  | true =>
    refine ⟨ts, i1, i2, ?_⟩
    simp only [ifte, load_bool, not_ok, truthy_bool, Bool.not_true, ok_apply, Bool.false_eq_true, ↓reduceIte, pass,
      List.append_nil, Bool.true_or]
  | false =>
    unfold ebb3_serial_list_named_ebbs_if6 ebb3_serial_list_named_ebbs_if7 ebb3_serial_list_named_ebbs_if8
    have hlen4 : op_len (.str ['S', 'E', 'R', '=']) = .ok (.int 4) := rfl
    have hfind : meth_find (.str p.hwid) (.str ['S', 'E', 'R', '=']) =
        .ok (.int (match C19.findIdx C19.serK p.hwid with | some i => (i : Int) | Option.none => -1)) := by
      rw [lit_serK]; rfl
    have hlen : ∀ t : List Char, op_len (.str t) = .ok (.int (t.length : Int)) := fun _ => rfl
    by_cases hs : (C19.isInfixB C19.serK p.hwid && C19.isInfixB C19.locatK p.hwid) = true
    · have hs1 : C19.isInfixB ['S', 'E', 'R', '='] p.hwid = true := by
        rw [← lit_serK]; exact (Bool.and_eq_true _ _ ▸ hs).1
      have hs2 : C19.isInfixB [' ', 'L', 'O', 'C', 'A', 'T'] p.hwid = true := by
        rw [← lit_locatK]; exact (Bool.and_eq_true _ _ ▸ hs).2
      by_cases hl : (C19.serSlice p.hwid).length < 3
      · refine ⟨.none, .int (idx1 C19.serK p.hwid : Int), idx2v p.hwid (idx1 C19.serK p.hwid), ?_⟩
        simp only [ifte, load_bool, load_str, load_int, load_none, load_list, not_ok, and_ok, truthy_bool, Bool.not_false, ok_apply,
          ↓reduceIte, app1_ok, app2_ok, app3_ok, op_in_str, hs1, hs2, ofP_ok, block_cons2, block_one, seq, assign, hfind, hlen4,
          find_plus4', find_from_locat', load_idx2v, slice_idx, ← serSlice_eq, hlen, lt3, C19.serName, hs, hl, decide_true, decide_false,
          op_is_not_none, isNone, Bool.not_true, Bool.false_eq_true, pass, nameVals, List.append_nil, Option.isSome_none,
          Bool.or_false, Bool.false_or]
      · refine ⟨.str (C19.serSlice p.hwid), .int (idx1 C19.serK p.hwid : Int), idx2v p.hwid (idx1 C19.serK p.hwid), ?_⟩
        simp only [ifte, load_bool, load_str, load_int, load_none, load_list, not_ok, and_ok, truthy_bool, Bool.not_false, ok_apply,
          ↓reduceIte, app1_ok, app2_ok, app3_ok, op_in_str, hs1, hs2, ofP_ok, block_cons2, block_one, seq, assign, hfind, hlen4,
          find_plus4', find_from_locat', load_idx2v, slice_idx, ← serSlice_eq, hlen, lt3, C19.serName, hs, hl, decide_true, decide_false,
          op_is_not_none, isNone, Bool.not_true, Bool.false_eq_true, pass, nameVals, meth_append, Option.isSome_some,
          Bool.or_true, Bool.false_or]
    · refine ⟨ts, i1, i2, ?_⟩
      have hsf : (C19.isInfixB C19.serK p.hwid && C19.isInfixB C19.locatK p.hwid) = false := by simpa using hs
      cases hs1 : C19.isInfixB C19.serK p.hwid with
      | false =>
        have hs1' : C19.isInfixB ['S', 'E', 'R', '='] p.hwid = false := by rw [← lit_serK]; exact hs1
        simp only [ifte, load_bool, load_str, not_ok, and_ok, truthy_bool, Bool.not_false, ok_apply, ↓reduceIte, app2_ok, op_in_str,
          hs1', ofP_ok, Bool.false_eq_true, pass, C19.serName, hsf, nameVals, List.append_nil, Option.isSome_none, Bool.or_false]
      | true =>
        have hs1' : C19.isInfixB ['S', 'E', 'R', '='] p.hwid = true := by rw [← lit_serK]; exact hs1
        have hs2' : C19.isInfixB [' ', 'L', 'O', 'C', 'A', 'T'] p.hwid = false := by
          rw [← lit_locatK]; rw [hs1] at hsf; simpa using hsf
        simp only [ifte, load_bool, load_str, not_ok, and_ok, truthy_bool, Bool.not_false, ok_apply, ↓reduceIte, app2_ok, op_in_str,
          hs1', hs2', ofP_ok, Bool.false_eq_true, pass, C19.serName, hsf, nameVals, List.append_nil, Option.isSome_none,
          Bool.or_false]

/-- last step: the device name when nothing else was found -/
theorem named3_stageC (fuel : Nat) (b : Bool) (dev : List Char) (epl pt p1 p2 ts i1 i2 : Val) (acc : List Val)
    (w : World NoObj) :
    ebb3_serial_list_named_ebbs_if9 fuel ⟨epl, .list acc, pt, .bool b, .str dev, p1, p2, ts, i1, i2⟩ w
      = .norm ⟨epl, .list (acc ++ (if b then [] else [.str dev])), pt, .bool b, .str dev, p1, p2, ts, i1, i2⟩ w := by
  unfold ebb3_serial_list_named_ebbs_if9
  cases b <;>
  simp only [ifte, load_bool, load_str, load_list, not_ok, truthy_bool, Bool.not_true, Bool.not_false, ok_apply, Bool.false_eq_true,
    ↓reduceIte, pass, assign, app2_ok, meth_append, ofP_ok, List.append_nil]

theorem names3_combine (p : C19.Port) (acc : List Val) :
    ((acc ++ nameVals (C19.descName p)) ++ (if (C19.descName p).isSome then [] else nameVals (C19.serName p))) ++
      (if ((C19.descName p).isSome || (C19.serName p).isSome) then [] else [Val.str p.dev])
    = acc ++ [.str (C19.Ebb3.nameOf p)] := by
  unfold C19.Ebb3.nameOf
  cases C19.descName p <;> cases C19.serName p <;> simp [nameVals]

/-- one pass of the loop: exactly the model's name for this port is appended -/
theorem named3_body (fuel : Nat) (p : C19.Port) (epl nf p0 p1 p2 ts i1 i2 : Val) (acc : List Val) (w : World NoObj) :
    ∃ nf' ts' i1' i2', ebb3_serial_list_named_ebbs_fbody1 fuel ⟨epl, .list acc, encPort p, nf, p0, p1, p2, ts, i1, i2⟩ w
      = .norm ⟨epl, .list (acc ++ [.str (C19.Ebb3.nameOf p)]), encPort p, nf', .str p.dev, .str p.desc, .str p.hwid,
               ts', i1', i2'⟩ w := by
  have h0 : op_getitem (.tuple [.str p.dev, .str p.desc, .str p.hwid]) (.int 0) = .ok (.str p.dev) := rfl
  have h1 : op_getitem (.tuple [.str p.dev, .str p.desc, .str p.hwid]) (.int 1) = .ok (.str p.desc) := rfl
  have h2 : op_getitem (.tuple [.str p.dev, .str p.desc, .str p.hwid]) (.int 2) = .ok (.str p.hwid) := rfl
  obtain ⟨tsA, eA⟩ := named3_stageA fuel p epl (encPort p) (.str p.dev) ts i1 i2 acc w
  obtain ⟨tsB, i1B, i2B, eB⟩ := named3_stageB fuel p (C19.descName p).isSome epl (encPort p) (.str p.dev) tsA i1 i2
    (acc ++ nameVals (C19.descName p)) w
  have eC := named3_stageC fuel ((C19.descName p).isSome || (C19.serName p).isSome) p.dev epl (encPort p) (.str p.desc)
    (.str p.hwid) tsB i1B i2B
    ((acc ++ nameVals (C19.descName p)) ++ (if (C19.descName p).isSome then [] else nameVals (C19.serName p))) w
  refine ⟨.bool ((C19.descName p).isSome || (C19.serName p).isSome), tsB, i1B, i2B, ?_⟩
  unfold ebb3_serial_list_named_ebbs_fbody1
  simp only [block_cons2, block_one, seq, assign, ok_apply, encPort, load_tuple, app2_ok, h0, h1, h2, ofP_ok]
  simp only [encPort] at eA eB eC
  rw [eA]; dsimp only
  rw [eB]; dsimp only
  rw [eC, names3_combine]

/-- the loop appends the model's names, in order -/
theorem named3_loop (fuel : Nat) (ports : List C19.Port) (epl pv nf p0 p1 p2 ts i1 i2 : Val) (acc : List Val)
    (w : World NoObj) :
    ∃ pv' nf' p0' p1' p2' ts' i1' i2',
      forLoop (fun (env : ebb3_serial_list_named_ebbs_Env) v => { env with port := v }) ebb3_serial_list_named_ebbs_fbody1 fuel
        (ports.map encPort) ⟨epl, .list acc, pv, nf, p0, p1, p2, ts, i1, i2⟩ w
      = .norm ⟨epl, .list (acc ++ (ports.map C19.Ebb3.nameOf).map Val.str), pv', nf', p0', p1', p2', ts', i1', i2'⟩ w := by
  induction ports generalizing acc pv nf p0 p1 p2 ts i1 i2 with
  | nil => exact ⟨pv, nf, p0, p1, p2, ts, i1, i2, by simp [forLoop]⟩
  | cons p ps ih =>
    obtain ⟨nf', ts', i1', i2', e⟩ := named3_body fuel p epl nf p0 p1 p2 ts i1 i2 acc w
    simp only [List.map_cons, forLoop]
    rw [e]; dsimp only
    obtain ⟨a1, a2, a3, a4, a5, a6, a7, a8, e'⟩ := ih (encPort p) nf' (.str p.dev) (.str p.desc) (.str p.hwid) ts' i1' i2'
      (acc ++ [.str (C19.Ebb3.nameOf p)])
    refine ⟨a1, a2, a3, a4, a5, a6, a7, a8, ?_⟩
    rw [e', List.append_assoc]; rfl

def encNames : Option (List C19.Str) → Val
  | some l => .list (l.map Val.str)
  | Option.none => .none

/-- **`list_named_ebbs` (EBB3 layer).**  With `list(comports())` yielding the (encoded) port list, the regenerated
function returns what the hand model `C19.Ebb3.listNamed` returns: one name per listed board, in order, `None` when
no board is listed. -/
theorem list_named_ebbs3_bridge (fuel : Nat) (ports : List C19.Port) (w : World NoObj)
    (hc : w.ext.comports = .ok (.list (ports.map encPort))) :
    ebb3_serial_list_named_ebbs fuel w = .val (encNames (C19.Ebb3.listNamed ports)) w := by
  unfold ebb3_serial_list_named_ebbs ebb3_serial_list_named_ebbs_main ebb3_serial_list_named_ebbs_if1 C19.Ebb3.listNamed
  have hcall := ebb3_serial_list_ebb_ports_bridge fuel ports w hc
  simp only [PyObj.run, block_cons2, block_one, seq, assign, mcall0_apply, hcall, ofOut_val]
  cases hl : C19.Ebb3.listPorts ports with
  | none =>
    simp only [encPorts, ifte, load_none, not_ok, truthy, Bool.not_false, ok_apply, ↓reduceIte, return_, encNames]
  | some l =>
    have hne : l ≠ [] := by
      intro h
      subst h
      simp only [C19.Ebb3.listPorts] at hl
      split at hl
      · cases hl
      · rename_i hemp
        have := Option.some.inj hl
        rw [this] at hemp
        simp at hemp
    obtain ⟨a1, a2, a3, a4, a5, a6, a7, a8, e⟩ := named3_loop fuel l (.list (l.map encPort)) .unbound .unbound .unbound
      .unbound .unbound .unbound .unbound .unbound [] w
    have hnel : (l.map encPort).isEmpty = false := by
      cases l with
      | nil => exact absurd rfl hne
      | cons a t => rfl
    simp only [encPorts, ifte, load_list, not_ok, truthy, hnel, Bool.not_false, Bool.not_true, ok_apply, Bool.false_eq_true,
      ↓reduceIte, pass, mkList, evalList_nil, ebb3_serial_list_named_ebbs_for1, PyObj.forIn, items, e, List.nil_append,
      return_, encNames]

/-! ## `list_named_ebbs` (legacy layer) -/

/-- first naming step: the text after `EiBotBoard,` in the description -/
theorem namedL_stageA (fuel : Nat) (p : C19.Port) (epl pt p0 ts i1 i2 : Val) (acc : List Val) (w : World NoObj) :
    ∃ ts', ebb_serial_list_named_ebbs_if2 fuel
        ⟨epl, .list acc, pt, .bool false, p0, .str p.desc, .str p.hwid, ts, i1, i2⟩ w
      = .norm ⟨epl, .list (acc ++ nameVals (C19.descName p)), pt, .bool (C19.descName p).isSome, p0, .str p.desc,
               .str p.hwid, ts', i1, i2⟩ w := by
  unfold ebb_serial_list_named_ebbs_if2 ebb_serial_list_named_ebbs_if3 ebb_serial_list_named_ebbs_if4
  have h11 : ∀ s : List Char, op_slice (.str s) (.int 11) .none = .ok (.str (s.drop 11)) := fun s => slice_from s 11
  cases hd : C19.descMatch p with
  | false =>
    have hd' : List.isPrefixOf ['E', 'i', 'B', 'o', 't', 'B', 'o', 'a', 'r', 'd'] p.desc = false := by
      rw [← lit_ebbName]; exact hd
    refine ⟨ts, ?_⟩
    simp only [ifte, load_str, app2_ok, startswith_str, hd', ofP_ok, ok_apply, truthy_bool, Bool.false_eq_true, ↓reduceIte, pass,
      C19.descName, hd, nameVals, List.append_nil, Option.isSome_none]
  | true =>
    have hd' : List.isPrefixOf ['E', 'i', 'B', 'o', 't', 'B', 'o', 'a', 'r', 'd'] p.desc = true := by
      rw [← lit_ebbName]; exact hd
    refine ⟨.str (p.desc.drop 11), ?_⟩
    by_cases he : p.desc.drop 11 = []
    · simp only [ifte, load_str, app2_ok, app3_ok, h11, startswith_str, hd', ofP_ok, ok_apply, truthy_bool, ↓reduceIte, pass,
        block_cons2, block_one, seq, assign, truthy_str, he, List.isEmpty_nil, Bool.not_true, Bool.false_eq_true,
        C19.descName, hd, nameVals, List.append_nil, Option.isSome_none, ne_eq, not_true_eq_false]
    · have hne : (p.desc.drop 11).isEmpty = false := by simpa [List.isEmpty_iff] using he
      simp only [ifte, load_str, load_list, app1_ok, app2_ok, app3_ok, h11, startswith_str, hd', ofP_ok, ok_apply, truthy_bool,
        ↓reduceIte, pass, block_cons2, block_one, seq, assign, truthy_str, hne, Bool.not_false, op_is_not_none, isNone,
        meth_append, C19.descName, hd, nameVals, Option.isSome_some, ne_eq, he, not_false_eq_true]

/-- second naming step: the `SER=XXXX LOCAT` pattern of the hardware string -/
theorem namedL_stageB (fuel : Nat) (p : C19.Port) (b : Bool) (epl pt p0 ts i1 i2 : Val) (acc : List Val) (w : World NoObj) :
    ∃ ts' i1' i2', ebb_serial_list_named_ebbs_if5 fuel
        ⟨epl, .list acc, pt, .bool b, p0, .str p.desc, .str p.hwid, ts, i1, i2⟩ w
      = .norm ⟨epl, .list (acc ++ (if b then [] else nameVals (C19.serName p))), pt,
               .bool (b || (C19.serName p).isSome), p0, .str p.desc, .str p.hwid, ts', i1', i2'⟩ w := by
  unfold ebb_serial_list_named_ebbs_if5
  cases b with
  | true =>
    refine ⟨ts, i1, i2, ?_⟩
    simp only [ifte, load_bool, not_ok, truthy_bool, Bool.not_true, ok_apply, Bool.false_eq_true, ↓reduceIte, pass,
      List.append_nil, Bool.true_or]
  | false =>
    unfold ebb_serial_list_named_ebbs_if6 ebb_serial_list_named_ebbs_if7 ebb_serial_list_named_ebbs_if8
    have hlen4 : op_len (.str ['S', 'E', 'R', '=']) = .ok (.int 4) := rfl
    have hfind : meth_find (.str p.hwid) (.str ['S', 'E', 'R', '=']) =
        .ok (.int (match C19.findIdx C19.serK p.hwid with | some i => (i : Int) | Option.none => -1)) := by
      rw [lit_serK]; rfl
    have hlen : ∀ t : List Char, op_len (.str t) = .ok (.int (t.length : Int)) := fun _ => rfl
    by_cases hs : (C19.isInfixB C19.serK p.hwid && C19.isInfixB C19.locatK p.hwid) = true
    · have hs1 : C19.isInfixB ['S', 'E', 'R', '='] p.hwid = true := by
        rw [← lit_serK]; exact (Bool.and_eq_true _ _ ▸ hs).1
      have hs2 : C19.isInfixB [' ', 'L', 'O', 'C', 'A', 'T'] p.hwid = true := by
        rw [← lit_locatK]; exact (Bool.and_eq_true _ _ ▸ hs).2
      by_cases hl : (C19.serSlice p.hwid).length < 3
      · refine ⟨.none, .int (idx1 C19.serK p.hwid : Int), idx2v p.hwid (idx1 C19.serK p.hwid), ?_⟩
        simp only [ifte, load_bool, load_str, load_int, load_none, load_list, not_ok, and_ok, truthy_bool, Bool.not_false, ok_apply,
          ↓reduceIte, app1_ok, app2_ok, app3_ok, op_in_str, hs1, hs2, ofP_ok, block_cons2, block_one, seq, assign, hfind, hlen4,
          find_plus4', find_from_locat', load_idx2v, slice_idx, ← serSlice_eq, hlen, lt3, C19.serName, hs, hl, decide_true, decide_false,
          op_is_not_none, isNone, Bool.not_true, Bool.false_eq_true, pass, nameVals, List.append_nil, Option.isSome_none,
          Bool.or_false, Bool.false_or]
      · refine ⟨.str (C19.serSlice p.hwid), .int (idx1 C19.serK p.hwid : Int), idx2v p.hwid (idx1 C19.serK p.hwid), ?_⟩
        simp only [ifte, load_bool, load_str, load_int, load_none, load_list, not_ok, and_ok, truthy_bool, Bool.not_false, ok_apply,
          ↓reduceIte, app1_ok, app2_ok, app3_ok, op_in_str, hs1, hs2, ofP_ok, block_cons2, block_one, seq, assign, hfind, hlen4,
          find_plus4', find_from_locat', load_idx2v, slice_idx, ← serSlice_eq, hlen, lt3, C19.serName, hs, hl, decide_true, decide_false,
          op_is_not_none, isNone, Bool.not_true, Bool.false_eq_true, pass, nameVals, meth_append, Option.isSome_some,
          Bool.or_true, Bool.false_or]
    · refine ⟨ts, i1, i2, ?_⟩
      have hsf : (C19.isInfixB C19.serK p.hwid && C19.isInfixB C19.locatK p.hwid) = false := by simpa using hs
      cases hs1 : C19.isInfixB C19.serK p.hwid with
      | false =>
        have hs1' : C19.isInfixB ['S', 'E', 'R', '='] p.hwid = false := by rw [← lit_serK]; exact hs1
        simp only [ifte, load_bool, load_str, not_ok, and_ok, truthy_bool, Bool.not_false, ok_apply, ↓reduceIte, app2_ok, op_in_str,
          hs1', ofP_ok, Bool.false_eq_true, pass, C19.serName, hsf, nameVals, List.append_nil, Option.isSome_none, Bool.or_false]
      | true =>
        have hs1' : C19.isInfixB ['S', 'E', 'R', '='] p.hwid = true := by rw [← lit_serK]; exact hs1
        have hs2' : C19.isInfixB [' ', 'L', 'O', 'C', 'A', 'T'] p.hwid = false := by
          rw [← lit_locatK]; rw [hs1] at hsf; simpa using hsf
        simp only [ifte, load_bool, load_str, not_ok, and_ok, truthy_bool, Bool.not_false, ok_apply, ↓reduceIte, app2_ok, op_in_str,
          hs1', hs2', ofP_ok, Bool.false_eq_true, pass, C19.serName, hsf, nameVals, List.append_nil, Option.isSome_none,
          Bool.or_false]

theorem snrName_eq (p : C19.Port) :
    C19.snrName p = if C19.isInfixB C19.snrK p.hwid = true then
        (if (p.hwid.drop (idx1 C19.snrK p.hwid)).length < 3 then Option.none else some (p.hwid.drop (idx1 C19.snrK p.hwid)))
      else Option.none := by
  unfold C19.snrName idx1
  cases C19.findIdx C19.snrK p.hwid <;> rfl

/-- third naming step (legacy only): the `…SNR=XXXX` pattern -/
theorem namedL_stageS (fuel : Nat) (p : C19.Port) (b : Bool) (epl pt p0 ts i1 i2 : Val) (acc : List Val) (w : World NoObj) :
    ∃ ts' i1' i2', ebb_serial_list_named_ebbs_if9 fuel
        ⟨epl, .list acc, pt, .bool b, p0, .str p.desc, .str p.hwid, ts, i1, i2⟩ w
      = .norm ⟨epl, .list (acc ++ (if b then [] else nameVals (C19.snrName p))), pt,
               .bool (b || (C19.snrName p).isSome), p0, .str p.desc, .str p.hwid, ts', i1', i2'⟩ w := by
  unfold ebb_serial_list_named_ebbs_if9
  cases b with
  | true =>
    refine ⟨ts, i1, i2, ?_⟩
    simp only [ifte, load_bool, not_ok, truthy_bool, Bool.not_true, ok_apply, Bool.false_eq_true, ↓reduceIte, pass,
      List.append_nil, Bool.true_or]
  | false =>
    unfold ebb_serial_list_named_ebbs_if10 ebb_serial_list_named_ebbs_if11 ebb_serial_list_named_ebbs_if12
    have hlen4 : op_len (.str ['S', 'N', 'R', '=']) = .ok (.int 4) := rfl
    have hfind : meth_find (.str p.hwid) (.str ['S', 'N', 'R', '=']) =
        .ok (.int (match C19.findIdx C19.snrK p.hwid with | some i => (i : Int) | Option.none => -1)) := by
      rw [lit_snrK]; rfl
    have hlen : ∀ t : List Char, op_len (.str t) = .ok (.int (t.length : Int)) := fun _ => rfl
    have hsl : ∀ i : Nat, op_slice (.str p.hwid) (.int i) (.int (p.hwid.length : Int)) = .ok (.str (p.hwid.drop i)) := by
      intro i
      have := slice_find p.hwid i (some p.hwid.length)
      simpa [C19.sliceTo, List.take_length] using this
    have hdrop : (match C19.findIdx C19.snrK p.hwid with | some i => i + 4 | Option.none => 3) = idx1 C19.snrK p.hwid := by
      unfold idx1; cases C19.findIdx C19.snrK p.hwid <;> rfl
    cases hs : C19.isInfixB C19.snrK p.hwid with
    | true =>
      have hs1 : C19.isInfixB ['S', 'N', 'R', '='] p.hwid = true := by rw [← lit_snrK]; exact hs
      by_cases hl : (p.hwid.drop (idx1 C19.snrK p.hwid)).length < 3
      · refine ⟨.none, .int (idx1 C19.snrK p.hwid : Int), .int (p.hwid.length : Int), ?_⟩
        simp only [ifte, load_bool, load_str, load_int, load_none, load_list, not_ok, truthy_bool, Bool.not_false, ok_apply,
          ↓reduceIte, app1_ok, app2_ok, app3_ok, op_in_str, hs1, ofP_ok, block_cons2, block_one, seq, assign, hfind, hlen4,
          find_plus4', hsl, hlen, lt3, snrName_eq, hs, hl, decide_true, decide_false,
          op_is_not_none, isNone, Bool.not_true, Bool.false_eq_true, pass, nameVals, List.append_nil, Option.isSome_none,
          Bool.or_false, Bool.false_or]
      · refine ⟨.str (p.hwid.drop (idx1 C19.snrK p.hwid)), .int (idx1 C19.snrK p.hwid : Int), .int (p.hwid.length : Int), ?_⟩
        simp only [ifte, load_bool, load_str, load_int, load_none, load_list, not_ok, truthy_bool, Bool.not_false, ok_apply,
          ↓reduceIte, app1_ok, app2_ok, app3_ok, op_in_str, hs1, ofP_ok, block_cons2, block_one, seq, assign, hfind, hlen4,
          find_plus4', hsl, hlen, lt3, snrName_eq, hs, hl, decide_true, decide_false,
          op_is_not_none, isNone, Bool.not_true, Bool.false_eq_true, pass, nameVals, meth_append, Option.isSome_some,
          Bool.or_true, Bool.false_or]
    | false =>
      have hs1 : C19.isInfixB ['S', 'N', 'R', '='] p.hwid = false := by rw [← lit_snrK]; exact hs
      refine ⟨ts, i1, i2, ?_⟩
      simp only [ifte, load_bool, load_str, not_ok, truthy_bool, Bool.not_false, ok_apply, ↓reduceIte, app2_ok, op_in_str,
        hs1, ofP_ok, Bool.false_eq_true, pass, snrName_eq, hs, nameVals, List.append_nil, Option.isSome_none, Bool.or_false]

/-- last step: the device name when nothing else was found -/
theorem namedL_stageC (fuel : Nat) (b : Bool) (dev : List Char) (epl pt p1 p2 ts i1 i2 : Val) (acc : List Val)
    (w : World NoObj) :
    ebb_serial_list_named_ebbs_if13 fuel ⟨epl, .list acc, pt, .bool b, .str dev, p1, p2, ts, i1, i2⟩ w
      = .norm ⟨epl, .list (acc ++ (if b then [] else [.str dev])), pt, .bool b, .str dev, p1, p2, ts, i1, i2⟩ w := by
  unfold ebb_serial_list_named_ebbs_if13
  cases b <;>
  simp only [ifte, load_bool, load_str, load_list, not_ok, truthy_bool, Bool.not_true, Bool.not_false, ok_apply, Bool.false_eq_true,
    ↓reduceIte, pass, assign, app2_ok, meth_append, ofP_ok, List.append_nil]

theorem namesL_combine (p : C19.Port) (acc : List Val) :
    (((acc ++ nameVals (C19.descName p)) ++ (if (C19.descName p).isSome then [] else nameVals (C19.serName p))) ++
      (if ((C19.descName p).isSome || (C19.serName p).isSome) then [] else nameVals (C19.snrName p))) ++
      (if (((C19.descName p).isSome || (C19.serName p).isSome) || (C19.snrName p).isSome) then [] else [Val.str p.dev])
    = acc ++ [.str (C19.Legacy.nameOf p)] := by
  unfold C19.Legacy.nameOf
  cases C19.descName p <;> cases C19.serName p <;> cases C19.snrName p <;> simp [nameVals]

/-- one pass of the loop: exactly the model's name for this port is appended -/
theorem namedL_body (fuel : Nat) (p : C19.Port) (epl nf p0 p1 p2 ts i1 i2 : Val) (acc : List Val) (w : World NoObj) :
    ∃ nf' ts' i1' i2', ebb_serial_list_named_ebbs_fbody1 fuel ⟨epl, .list acc, encPort p, nf, p0, p1, p2, ts, i1, i2⟩ w
      = .norm ⟨epl, .list (acc ++ [.str (C19.Legacy.nameOf p)]), encPort p, nf', .str p.dev, .str p.desc, .str p.hwid,
               ts', i1', i2'⟩ w := by
  have h0 : op_getitem (.tuple [.str p.dev, .str p.desc, .str p.hwid]) (.int 0) = .ok (.str p.dev) := rfl
  have h1 : op_getitem (.tuple [.str p.dev, .str p.desc, .str p.hwid]) (.int 1) = .ok (.str p.desc) := rfl
  have h2 : op_getitem (.tuple [.str p.dev, .str p.desc, .str p.hwid]) (.int 2) = .ok (.str p.hwid) := rfl
  obtain ⟨tsA, eA⟩ := namedL_stageA fuel p epl (encPort p) (.str p.dev) ts i1 i2 acc w
  obtain ⟨tsB, i1B, i2B, eB⟩ := namedL_stageB fuel p (C19.descName p).isSome epl (encPort p) (.str p.dev) tsA i1 i2
    (acc ++ nameVals (C19.descName p)) w
  obtain ⟨tsS, i1S, i2S, eS⟩ := namedL_stageS fuel p ((C19.descName p).isSome || (C19.serName p).isSome) epl (encPort p)
    (.str p.dev) tsB i1B i2B
    ((acc ++ nameVals (C19.descName p)) ++ (if (C19.descName p).isSome then [] else nameVals (C19.serName p))) w
  have eC := namedL_stageC fuel (((C19.descName p).isSome || (C19.serName p).isSome) || (C19.snrName p).isSome) p.dev epl
    (encPort p) (.str p.desc) (.str p.hwid) tsS i1S i2S
    (((acc ++ nameVals (C19.descName p)) ++ (if (C19.descName p).isSome then [] else nameVals (C19.serName p))) ++
      (if ((C19.descName p).isSome || (C19.serName p).isSome) then [] else nameVals (C19.snrName p))) w
  refine ⟨.bool (((C19.descName p).isSome || (C19.serName p).isSome) || (C19.snrName p).isSome), tsS, i1S, i2S, ?_⟩
  unfold ebb_serial_list_named_ebbs_fbody1
  simp only [block_cons2, block_one, seq, assign, ok_apply, encPort, load_tuple, app2_ok, h0, h1, h2, ofP_ok]
  simp only [encPort] at eA eB eS eC
  rw [eA]; dsimp only
  rw [eB]; dsimp only
  rw [eS]; dsimp only
  rw [eC, namesL_combine]

/-- the loop appends the model's names, in order -/
theorem namedL_loop (fuel : Nat) (ports : List C19.Port) (epl pv nf p0 p1 p2 ts i1 i2 : Val) (acc : List Val)
    (w : World NoObj) :
    ∃ pv' nf' p0' p1' p2' ts' i1' i2',
      forLoop (fun (env : ebb_serial_list_named_ebbs_Env) v => { env with port := v }) ebb_serial_list_named_ebbs_fbody1 fuel
        (ports.map encPort) ⟨epl, .list acc, pv, nf, p0, p1, p2, ts, i1, i2⟩ w
      = .norm ⟨epl, .list (acc ++ (ports.map C19.Legacy.nameOf).map Val.str), pv', nf', p0', p1', p2', ts', i1', i2'⟩ w := by
  induction ports generalizing acc pv nf p0 p1 p2 ts i1 i2 with
  | nil => exact ⟨pv, nf, p0, p1, p2, ts, i1, i2, by simp [forLoop]⟩
  | cons p ps ih =>
    obtain ⟨nf', ts', i1', i2', e⟩ := namedL_body fuel p epl nf p0 p1 p2 ts i1 i2 acc w
    simp only [List.map_cons, forLoop]
    rw [e]; dsimp only
    obtain ⟨a1, a2, a3, a4, a5, a6, a7, a8, e'⟩ := ih (encPort p) nf' (.str p.dev) (.str p.desc) (.str p.hwid) ts' i1' i2'
      (acc ++ [.str (C19.Legacy.nameOf p)])
    refine ⟨a1, a2, a3, a4, a5, a6, a7, a8, ?_⟩
    rw [e', List.append_assoc]; rfl


/-- **`list_named_ebbs` (legacy layer).**  With `list(comports())` yielding the (encoded) port list, the regenerated
function returns what the hand model `C19.Legacy.listNamed` returns: one name per listed board, in order, `None` when
no board is listed. -/
theorem list_named_ebbsL_bridge (fuel : Nat) (ports : List C19.Port) (w : World NoObj)
    (hc : w.ext.comports = .ok (.list (ports.map encPort))) :
    ebb_serial_list_named_ebbs fuel w = .val (encNames (C19.Legacy.listNamed ports)) w := by
  unfold ebb_serial_list_named_ebbs ebb_serial_list_named_ebbs_main ebb_serial_list_named_ebbs_if1 C19.Legacy.listNamed
  have hcall := ebb_serial_listEBBports_bridge fuel ports w hc
  simp only [PyObj.run, block_cons2, block_one, seq, assign, mcall0_apply, hcall, ofOut_val]
  cases hl : C19.Legacy.listPorts ports with
  | none =>
    simp only [encPorts, ifte, load_none, not_ok, truthy, Bool.not_false, ok_apply, ↓reduceIte, return_, encNames]
  | some l =>
    have hne : l ≠ [] := by
      intro h
      subst h
      simp only [C19.Legacy.listPorts] at hl
      split at hl
      · cases hl
      · rename_i hemp
        have := Option.some.inj hl
        rw [this] at hemp
        simp at hemp
    obtain ⟨a1, a2, a3, a4, a5, a6, a7, a8, e⟩ := namedL_loop fuel l (.list (l.map encPort)) .unbound .unbound .unbound
      .unbound .unbound .unbound .unbound .unbound [] w
    have hnel : (l.map encPort).isEmpty = false := by
      cases l with
      | nil => exact absurd rfl hne
      | cons a t => rfl
    simp only [encPorts, ifte, load_list, not_ok, truthy, hnel, Bool.not_false, Bool.not_true, ok_apply, Bool.false_eq_true,
      ↓reduceIte, pass, mkList, evalList_nil, ebb_serial_list_named_ebbs_for1, PyObj.forIn, items, e, List.nil_append,
      return_, encNames]

/-! ## vocabulary of the restated property theorems (`Props/C19.lean`) -/

/-- `list(comports())` yields exactly `ports` -/
def Enumerates {ω : Type} (w : World ω) (ports : List C19.Port) : Prop :=
  w.ext.comports = .ok (.list (ports.map encPort))

theorem encOptStr_eq_str {o : Option C19.Str} {d : C19.Str} (h : encOptStr o = Val.str d) : o = some d := by
  cases o with
  | none => cases h
  | some s => simp only [encOptStr, Val.str.injEq] at h; rw [h]

theorem encOptStr_eq_none {o : Option C19.Str} (h : encOptStr o = Val.none) : o = none := by
  cases o with
  | none => rfl
  | some s => cases h


end C19Gen
end Plotink
