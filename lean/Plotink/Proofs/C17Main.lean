import Plotink.Gen.max_rate_t3
import Plotink.Proofs.C02Env
import Plotink.Proofs.C17Quad
import Mathlib.Tactic.FieldSimp

/-! # C17 — evaluation of `Gen.max_rate_t3` and its relation to the per-tick rates -/

namespace Plotink
namespace T3
open Py Py.Val Fw

theorem ceil_spec (q : Rat) : ((ceilRat q : Int) : Rat) - 1 < q ∧ q ≤ ((ceilRat q : Int) : Rat) := by
  unfold ceilRat
  have h1 : (((-q).floor : Int) : Rat) ≤ -q := by
    have : ((-q).floor : Int) ≤ (-q).floor := le_refl _
    exact Rat.le_floor_iff.mp this
  have h2 : -q < (((-q).floor + 1 : Int) : Rat) := by
    have : (-q).floor < (-q).floor + 1 := by omega
    exact Rat.floor_lt_iff.mp this
  push_cast at h2 ⊢
  constructor <;> linarith

/-- the vertex of the rate parabola in ticks, `t* = (jerk/2 − accel)/jerk` -/
def tmid (accel jerk : Int) : Rat := ((jerk - 2 * accel : Int) : Rat) / 2 / (jerk : Rat)

section
variable {R : Rounding} (hR : Contract R)
include hR

/-- what binary64 does to `t_mid` and to `time − 1.5`: both inner operations are exact, the quotient is
within 1/4 of the true vertex, and — by integrality of `jerk·(2T−3) − (jerk − 2·accel)` — a computed
`t_mid` that is not below `T − 3/2` means the true vertex is not below it either -/
theorem tmid_facts (accel jerk T : Int) (ha : |accel| ≤ 2 ^ 40) (hj : |jerk| ≤ 2 ^ 40) (hj0 : jerk ≠ 0)
    (hT1 : 1 ≤ T) (hT : T ≤ 2 ^ 32) :
    R.f64 ((T : Rat) - 3 / 2) = (T : Rat) - 3 / 2 ∧
    ∃ tt : Rat, R.f64 (R.f64 (R.f64 ((jerk : Rat) / 2) - (accel : Rat)) / (jerk : Rat)) = tt ∧
      |tt - tmid accel jerk| ≤ 1 / 4 ∧ (¬ tt < (T : Rat) - 3 / 2 → (T : Rat) - 3 / 2 ≤ tmid accel jerk) := by
  have e0 : R.f64 ((T : Rat) - 3 / 2) = (T : Rat) - 3 / 2 := by
    have : (T : Rat) - 3 / 2 = ((2 * T - 3 : Int) : Rat) / 2 := by push_cast; ring
    rw [this]
    apply f64_half hR
    have : (2:Int) ^ 32 * 2 < 2 ^ 53 := by norm_num
    rw [abs_lt]; constructor <;> linarith
  refine ⟨e0, ?_⟩
  have e1 : R.f64 ((jerk : Rat) / 2) = (jerk : Rat) / 2 := f64_half hR jerk (lt_of_le_of_lt hj (by norm_num))
  set u : Int := jerk - 2 * accel with hu
  have bu : |u| ≤ 2 ^ 42 := by
    have := abs_sub jerk (2 * accel)
    have : |2 * accel| = 2 * |accel| := by rw [abs_mul]; norm_num
    rw [hu]; linarith
  have e2 : R.f64 ((jerk : Rat) / 2 - (accel : Rat)) = (u : Rat) / 2 := by
    have : (jerk : Rat) / 2 - (accel : Rat) = (u : Rat) / 2 := by rw [hu]; push_cast; ring
    rw [this]; exact f64_half hR u (lt_of_le_of_lt bu (by norm_num))
  rw [e1, e2]
  have htm : tmid accel jerk = (u : Rat) / 2 / (jerk : Rat) := rfl
  set tm := tmid accel jerk with htm'
  set tt := R.f64 ((u : Rat) / 2 / (jerk : Rat)) with htt
  have hjq : (jerk : Rat) ≠ 0 := by exact_mod_cast hj0
  have hjabs : (1 : Rat) ≤ |(jerk : Rat)| := by
    have : (1 : Int) ≤ |jerk| := Int.one_le_abs hj0
    have : ((1 : Int) : Rat) ≤ ((|jerk| : Int) : Rat) := by exact_mod_cast this
    rwa [Int.cast_abs, Int.cast_one] at this
  have hjpos : (0 : Rat) < |(jerk : Rat)| := by linarith
  have buq : |(u : Rat)| ≤ 2 ^ 42 := by
    have : ((|u| : Int) : Rat) ≤ ((2 ^ 42 : Int) : Rat) := by exact_mod_cast bu
    rw [Int.cast_abs] at this; push_cast at this; exact this
  -- 2·|jerk|·|tm| = |u|
  have hprod : 2 * |(jerk : Rat)| * |tm| = |(u : Rat)| := by
    rw [htm, abs_div, abs_div]
    have : |(2 : Rat)| = 2 := by norm_num
    rw [this]; field_simp
  have btm : |tm| ≤ 2 ^ 41 := by
    have : 2 * |tm| ≤ 2 * |(jerk : Rat)| * |tm| := by
      have h0 := abs_nonneg tm
      nlinarith
    linarith
  have herr : |tt - tm| ≤ |tm| / 2 ^ 53 := by rw [htt, htm]; exact hR.f64_err _
  refine ⟨tt, rfl, ?_, ?_⟩
  · refine le_trans herr ?_
    have : |tm| / 2 ^ 53 ≤ 2 ^ 41 / 2 ^ 53 := by apply div_le_div_of_nonneg_right btm; positivity
    refine le_trans this (by norm_num)
  · intro hnlt
    have hge : (T : Rat) - 3 / 2 ≤ tt := not_lt.mp hnlt
    by_contra hcon
    have hlt : tm < (T : Rat) - 3 / 2 := not_le.mp hcon
    -- w = jerk·(2T−3) − u is a non-zero integer and (T − 3/2 − tm)·2·jerk = w
    set w : Int := jerk * (2 * T - 3) - u with hw
    have hwq : ((T : Rat) - 3 / 2 - tm) * (2 * (jerk : Rat)) = (w : Rat) := by
      rw [hw, htm]; push_cast; field_simp
    have hd : 0 < (T : Rat) - 3 / 2 - tm := by linarith
    have hw0 : w ≠ 0 := by
      intro h0
      rw [h0] at hwq
      have hz : ((T : Rat) - 3 / 2 - tm) * (2 * (jerk : Rat)) = 0 := by rw [hwq]; simp
      rcases mul_eq_zero.mp hz with h | h
      · linarith
      · apply hjq; linarith
    have hw1 : (1 : Rat) ≤ |(w : Rat)| := by
      have : (1 : Int) ≤ |w| := Int.one_le_abs hw0
      have : ((1 : Int) : Rat) ≤ ((|w| : Int) : Rat) := by exact_mod_cast this
      rwa [Int.cast_abs, Int.cast_one] at this
    have hwabs : |(w : Rat)| = ((T : Rat) - 3 / 2 - tm) * (2 * |(jerk : Rat)|) := by
      rw [← hwq, abs_mul, abs_of_pos hd, abs_mul]
      norm_num
    -- the rounding error is at least T − 3/2 − tm
    have herr2 : (T : Rat) - 3 / 2 - tm ≤ |tm| / 2 ^ 53 := by
      have : (T : Rat) - 3 / 2 - tm ≤ tt - tm := by linarith
      exact le_trans this (le_trans (le_abs_self _) herr)
    have h2 : ((T : Rat) - 3 / 2 - tm) * (2 * |(jerk : Rat)|) ≤ |tm| / 2 ^ 53 * (2 * |(jerk : Rat)|) :=
      mul_le_mul_of_nonneg_right herr2 (by linarith)
    have h3 : |tm| / 2 ^ 53 * (2 * |(jerk : Rat)|) = |(u : Rat)| / 2 ^ 53 := by rw [← hprod]; ring
    have h4 : |(u : Rat)| / 2 ^ 53 < 1 := by
      have : |(u : Rat)| / 2 ^ 53 ≤ 2 ^ 42 / 2 ^ 53 := by apply div_le_div_of_nonneg_right buq; positivity
      refine lt_of_le_of_lt this (by norm_num)
    linarith

end

/-- vertex form of the doubled rate: `2·r_k = V + jerk·(k − t*)²` -/
theorem rate_vertex (rate accel jerk : Int) (hj0 : jerk ≠ 0) (k : Nat) :
    2 * ((t3Rate rate accel jerk k : Int) : Rat)
      = (2 * (r0 rate accel jerk : Rat) - (jerk : Rat) * (tmid accel jerk) ^ 2)
        + (jerk : Rat) * ((((k : Nat) : Int) : Rat) - tmid accel jerk) ^ 2 := by
  have hjq : (jerk : Rat) ≠ 0 := by exact_mod_cast hj0
  have hc := rate_closed rate accel jerk k
  have hq : ((2 * t3Rate rate accel jerk k : Int) : Rat)
      = ((2 * r0 rate accel jerk + 2 * k * accel + jerk * k * (k - 1) : Int) : Rat) := by rw [hc]
  have htm : 2 * (jerk : Rat) * tmid accel jerk = (jerk : Rat) - 2 * (accel : Rat) := by
    unfold tmid; push_cast; field_simp
  push_cast at hq ⊢
  linear_combination hq + (k : Rat) * htm

/-- shortfall bound from the three situations, for `jerk ≠ 0` -/
theorem short_all (rate accel jerk T : Int) (hj0 : jerk ≠ 0) (res : Int)
    (h1 : |t3Rate rate accel jerk 1| ≤ res) (hT : |t3Rate rate accel jerk T.toNat| ≤ res) (hT1 : 1 ≤ T)
    (h : (∃ c : Nat, |(((c : Nat) : Int) : Rat) - tmid accel jerk| ≤ 5 / 4 ∧ |t3Rate rate accel jerk c| ≤ res) ∨
         tmid accel jerk ≤ 7 / 4 ∨ (T : Rat) - 3 / 2 ≤ tmid accel jerk)
    (k : Nat) (hk1 : 1 ≤ k) (hkT : (k : Int) ≤ T) : |t3Rate rate accel jerk k| ≤ res + |jerk| := by
  have hjq : (jerk : Rat) ≠ 0 := by exact_mod_cast hj0
  have hTn : ((T.toNat : Nat) : Int) = T := Int.toNat_of_nonneg (by omega)
  have cast_le : ∀ (x : Int) (b : Int), |x| ≤ b → |2 * (x : Rat)| ≤ 2 * (b : Rat) := by
    intro x b hx
    have : ((|x| : Int) : Rat) ≤ (b : Rat) := by exact_mod_cast hx
    rw [Int.cast_abs] at this
    rw [abs_mul]; norm_num; linarith
  have key := quad_short (2 * (r0 rate accel jerk : Rat) - (jerk : Rat) * (tmid accel jerk) ^ 2) (jerk : Rat)
    (tmid accel jerk) hjq T (k : Int) (by omega) hkT (2 * (res : Rat))
    (by
      have := rate_vertex rate accel jerk hj0 1
      simp only [Nat.cast_one, Int.cast_one] at this
      rw [← this]; exact cast_le _ _ h1)
    (by
      have := rate_vertex rate accel jerk hj0 T.toNat
      rw [hTn] at this
      rw [← this]; exact cast_le _ _ hT)
    (by
      rcases h with ⟨c, hc, hm⟩ | ht | ht
      · left
        refine ⟨(c : Int), hc, ?_⟩
        rw [← rate_vertex rate accel jerk hj0 c]; exact cast_le _ _ hm
      · right; left; exact ht
      · right; right; exact ht)
  rw [← rate_vertex rate accel jerk hj0 k, abs_mul] at key
  have h2 : |(2 : Rat)| = 2 := by norm_num
  rw [h2] at key
  have : |((t3Rate rate accel jerk k : Int) : Rat)| ≤ ((res + |jerk| : Int) : Rat) := by
    push_cast; linarith
  rw [← Int.cast_abs] at this
  exact_mod_cast this

/-- zero jerk: the peak is at an end -/
theorem short_lin (rate accel T : Int) (res : Int)
    (h1 : |t3Rate rate accel 0 1| ≤ res) (hT : |t3Rate rate accel 0 T.toNat| ≤ res) (hT1 : 1 ≤ T)
    (k : Nat) (hk1 : 1 ≤ k) (hkT : (k : Int) ≤ T) : |t3Rate rate accel 0 k| ≤ res := by
  have hTn : ((T.toNat : Nat) : Int) = T := Int.toNat_of_nonneg (by omega)
  have hr : ∀ n : Nat, ((t3Rate rate accel 0 n : Int) : Rat) = (r0 rate accel 0 : Rat) + (((n : Nat) : Int) : Rat) * (accel : Rat) := by
    intro n
    have hc := rate_closed rate accel 0 n
    have : t3Rate rate accel 0 n = r0 rate accel 0 + n * accel := by linarith
    rw [this]; push_cast; ring
  have cast_le : ∀ (x : Int) (b : Int), |x| ≤ b → |(x : Rat)| ≤ (b : Rat) := by
    intro x b hx
    have : ((|x| : Int) : Rat) ≤ (b : Rat) := by exact_mod_cast hx
    rwa [Int.cast_abs] at this
  have key := lin_short (r0 rate accel 0 : Rat) (accel : Rat) T (k : Int) (by omega) hkT (res : Rat)
    (by
      have := hr 1
      simp only [Nat.cast_one, Int.cast_one] at this
      rw [← this]; exact cast_le _ _ h1)
    (by
      have := hr T.toNat
      rw [hTn] at this
      rw [← this]; exact cast_le _ _ hT)
  rw [← hr k, ← Int.cast_abs] at key
  exact_mod_cast key

/-- `Gen.max_rate_t3` inside the envelope: the value it returns and how it relates to every per-tick rate -/
theorem max_main {R : Rounding} (hR : Contract R) (amb : Nat) (T rate accel jerk : Int)
    (hE : EnvT3 rate accel jerk T) :
    ∃ res : Int, Gen.max_rate_t3 R amb (.int T) (.int rate) (.int accel) (.int jerk) = .int res ∧
      (∃ k : Nat, 1 ≤ k ∧ (k : Int) ≤ T ∧ res = |t3Rate rate accel jerk k|) ∧
      |t3Rate rate accel jerk 1| ≤ res ∧ |t3Rate rate accel jerk T.toNat| ≤ res ∧
      ∀ k : Nat, 1 ≤ k → (k : Int) ≤ T → |t3Rate rate accel jerk k| ≤ res + |jerk| := by
  have hE1 := hE.mono 1 (le_refl _) hE.hT1
  have hT1 := hE.hT1
  have hTn : ((T.toNat : Nat) : Int) = T := Int.toNat_of_nonneg (by omega)
  have hone : Int.toNat 1 = 1 := rfl
  set A := |t3Rate rate accel jerk 1| with hA
  set B := |t3Rate rate accel jerk T.toNat| with hB
  by_cases hT : T ≤ 1
  · -- a one-tick move
    have hTe : T = 1 := by omega
    refine ⟨A, ?_, ⟨1, le_refl _, by simpa using hT1, rfl⟩, le_refl _, ?_, ?_⟩
    · unfold Gen.max_rate_t3
      simp only [int_int, rate_main hR amb 1 rate accel jerk hE1, abs_int, le_int_int, hT, decide_true, ↓reduceIte,
        hone, hA]
    · rw [hB, hTe, hone]
    · intro k hk1 hkT
      have : k = 1 := by omega
      rw [this]
      have := abs_nonneg jerk
      linarith
  -- at least two ticks: the larger of the two end values
  set M := if A < B then B else A with hM
  have hMA : A ≤ M := by rw [hM]; split_ifs <;> omega
  have hMB : B ≤ M := by rw [hM]; split_ifs <;> omega
  have hMatt : ∃ k : Nat, 1 ≤ k ∧ (k : Int) ≤ T ∧ M = |t3Rate rate accel jerk k| := by
    rw [hM]; split_ifs
    · exact ⟨T.toNat, by omega, by omega, rfl⟩
    · exact ⟨1, le_refl _, by simpa using hT1, rfl⟩
  by_cases hj0 : jerk = 0
  · subst hj0
    refine ⟨M, ?_, hMatt, hMA, hMB, ?_⟩
    · unfold Gen.max_rate_t3
      simp only [int_int, rate_main hR amb 1 rate accel 0 hE1, rate_main hR amb T rate accel 0 hE, abs_int,
        le_int_int, eq_int_int, hT, decide_false, decide_true, Bool.false_eq_true, ↓reduceIte,
        Py.max_, List.foldl, gt_int_int, decide_eq_true_eq, hone, ← hA, ← hB]
      rw [hM]; split_ifs <;> rfl
    · intro k hk1 hkT
      have := short_lin rate accel T M hMA hMB hT1 k hk1 hkT
      simpa using this
  -- non-zero jerk
  obtain ⟨e0, tt, htt, hnear, hupper⟩ := tmid_facts hR accel jerk T hE.ha hE.hj hj0 hT1 hE.hT
  rw [abs_le] at hnear
  by_cases hW : 3 / 2 < tt ∧ tt < (T : Rat) - 3 / 2
  · -- the vertex probe
    obtain ⟨hc1, hc2⟩ := ceil_spec tt
    set c := ceilRat tt with hc
    have hc2' : (2 : Int) ≤ c := by
      have : ((1 : Int) : Rat) < (c : Rat) := by push_cast; linarith [hW.1]
      have : (1 : Int) < c := by exact_mod_cast this
      omega
    have hcT : c ≤ T - 1 := by
      have : (c : Rat) < ((T : Int) : Rat) := by linarith [hW.2]
      have : c < T := by exact_mod_cast this
      omega
    have hEc := hE.mono c (by omega) (by omega)
    have hcn : ((c.toNat : Nat) : Int) = c := Int.toNat_of_nonneg (by omega)
    set C := |t3Rate rate accel jerk c.toNat| with hC
    set res := if M < C then C else M with hres
    have hresM : M ≤ res := by rw [hres]; split_ifs <;> omega
    have hresC : C ≤ res := by rw [hres]; split_ifs <;> omega
    refine ⟨res, ?_, ?_, by omega, by omega, ?_⟩
    · unfold Gen.max_rate_t3
      simp only [int_int, rate_main hR amb 1 rate accel jerk hE1, rate_main hR amb T rate accel jerk hE, abs_int,
        le_int_int, eq_int_int, hT, hj0, decide_false, Bool.false_eq_true, ↓reduceIte,
        div_int_int _ _ _ _ (by norm_num : (2:Int) ≠ 0), sub_flt_int, div_flt_int _ _ _ _ hj0, sub_int_flt,
        lt_flt_flt, Int.cast_ofNat, Py.math_ceil, Py.max_, List.foldl, gt_int_int, Bool.and_eq_true,
        decide_eq_true_eq, htt, e0, hW, and_self, ← hc, rate_main hR amb c rate accel jerk hEc, hone,
        ← hA, ← hB, ← hC]
      rw [hres, hM]; split_ifs <;>
        first | rfl | (exfalso; simp only [gt_int_int, decide_eq_true_eq] at *; omega)
    · rw [hres]; split_ifs
      · exact ⟨c.toNat, by omega, by omega, rfl⟩
      · exact hMatt
    · intro k hk1 hkT
      refine short_all rate accel jerk T hj0 res (by omega) (by omega) hT1 (Or.inl ⟨c.toNat, ?_, hresC⟩) k hk1 hkT
      rw [hcn, abs_le]
      constructor <;> linarith [hnear.1, hnear.2]
  · -- no probe: the vertex is (up to rounding) within 3/2 of an end or outside the move
    refine ⟨M, ?_, hMatt, hMA, hMB, ?_⟩
    · unfold Gen.max_rate_t3
      simp only [int_int, rate_main hR amb 1 rate accel jerk hE1, rate_main hR amb T rate accel jerk hE, abs_int,
        le_int_int, eq_int_int, hT, hj0, decide_false, Bool.false_eq_true, ↓reduceIte,
        div_int_int _ _ _ _ (by norm_num : (2:Int) ≠ 0), sub_flt_int, div_flt_int _ _ _ _ hj0, sub_int_flt,
        lt_flt_flt, Int.cast_ofNat, Py.max_, List.foldl, gt_int_int, Bool.and_eq_true,
        decide_eq_true_eq, htt, e0, hW, hone, ← hA, ← hB]
      rw [hM]; split_ifs <;> rfl
    · intro k hk1 hkT
      refine short_all rate accel jerk T hj0 M hMA hMB hT1 (Or.inr ?_) k hk1 hkT
      by_cases h1 : 3 / 2 < tt
      · right
        exact hupper (fun h2 => hW ⟨h1, h2⟩)
      · left
        have := not_lt.mp h1
        linarith [hnear.1]

end T3
end Plotink
