import Plotink.Gen.calculate_lm
/-! # C03 bridge — the generated `calculate_lm` cut into stages

Each `G.*` definition below is a verbatim copy of one block of the text the translator generates for
`ebb_calc.calculate_lm` (the continuation after the early exits), as a function of the variables the block
reads. `Proofs/C03Bridge.lean` proves `Gen.calculate_lm … = staged composition` by `rfl` (so any change
of the generated text breaks that proof, not these copies silently), and then works stage by stage. -/
namespace Plotink
namespace C03
namespace G
set_option linter.unusedVariables false

def rateEff (R : Rounding) (prec : Nat) (rate accel : Py.Val) : Py.Val :=
  (Py.sub R prec (Py.add R prec rate (Py.truediv R prec (Py.mpf_ R prec accel) (Py.Val.int 2))) (Py.int_ (Py.truediv R prec accel (Py.Val.int 2))))

def tempRate (R : Rounding) (prec : Nat) (rate accel : Py.Val) : Py.Val :=
  (Py.add R prec (Py.sub R prec rate (Py.int_ (Py.truediv R prec accel (Py.Val.int 2)))) accel)

def irn (temp_rate accel : Py.Val) : Py.Val :=
  let initial_rate_negative := (Py.Val.bool_ false)
  let initial_rate_negative :=
    if (Py.lt temp_rate (Py.Val.int 0)) then
      let initial_rate_negative := (Py.Val.bool_ true)
      initial_rate_negative
    else
      let initial_rate_negative :=
        if (Py.eq temp_rate (Py.Val.int 0)) then
          let initial_rate_negative :=
            if (Py.lt accel (Py.Val.int 0)) then
              let initial_rate_negative := (Py.Val.bool_ true)
              initial_rate_negative
            else
              initial_rate_negative
          initial_rate_negative
        else
          initial_rate_negative
      initial_rate_negative
  initial_rate_negative

def accum (accum initial_rate_negative : Py.Val) : Py.Val :=
  let accum :=
    if (Py.eq accum (Py.Val.str "clear")) then
      let accum :=
        if (Py.truthy initial_rate_negative) then
          let accum := (Py.Val.int 2147483647)
          accum
        else
          let accum := (Py.Val.int 0)
          accum
      accum
    else
      let accum := (Py.int_ accum)
      accum
  accum

def accumAdj (R : Rounding) (prec : Nat) (accum initial_rate_negative : Py.Val) : Py.Val :=
  let accum_adj := Py.Val.err
  let accum_adj :=
    if (Py.truthy initial_rate_negative) then
      let accum_adj := (Py.sub R prec accum (Py.Val.int 2147483647))
      accum_adj
    else
      let accum_adj := accum
      accum_adj
  accum_adj

def tRevPair (R : Rounding) (prec : Nat) (rate accel : Py.Val) : Py.Val × Py.Val :=
  let t_rev_star := (Py.Val.flt (-1 : Rat))
  let t_rev := (Py.Val.int (-1))
  if ((Py.ne accel (Py.Val.int 0)) && (Py.ne rate (Py.Val.int 0)) && ((Py.gt accel (Py.Val.int 0)) != (Py.gt rate (Py.Val.int 0)))) then
    let t_rev_star := (Py.sub R prec (Py.Val.flt ((1 : Rat) / 2)) (Py.truediv R prec rate accel))
    let t_rev := (Py.math_floor t_rev_star)
    (t_rev_star, t_rev)
  else
    (t_rev_star, t_rev)

def sRevPair (R : Rounding) (prec : Nat) (rate_effective accel t_rev accum_adj : Py.Val) : Py.Val × Py.Val :=
  let s_rev := (Py.Val.int 0)
  let s_rev_star := Py.Val.err
  if (Py.gt t_rev (Py.Val.int 0)) then
    let s_rev_star := (Py.add R prec (Py.add R prec (Py.mul R prec rate_effective t_rev) (Py.mul R prec (Py.mul R prec (Py.mul R prec (Py.Val.mpf (R.mp prec ((1 : Rat) / 2))) accel) t_rev) t_rev)) accum_adj)
    let s_rev_star := (Py.mp_fabs (Py.truediv R prec s_rev_star (Py.Val.int 2147483648)))
    let s_rev := (Py.int_ (Py.mp_floor s_rev_star))
    (s_rev_star, s_rev)
  else
    (s_rev_star, s_rev)

def branch (R : Rounding) (prec : Nat) (steps accel temp_rate initial_rate_negative t_rev s_rev : Py.Val) :
    Py.Val × Py.Val × Py.Val × Py.Val × Py.Val :=
  let pos_final := Py.Val.err
  let pos_f_adj := Py.Val.err
  let reversed_steps := Py.Val.err
  let net_steps := Py.Val.err
  if ((Py.lt t_rev (Py.Val.int 1)) || ((Py.eq t_rev (Py.Val.int 1)) && (Py.eq temp_rate (Py.Val.int 0))) || (Py.ge s_rev steps)) then
    let t_rev := (Py.Val.int (-1))
    let pos_final :=
      if (Py.truthy initial_rate_negative) then
        let pos_final := (Py.neg steps)
        pos_final
      else
        let pos_final := steps
        pos_final
    let pos_f_adj := pos_final
    (t_rev, pos_final, pos_f_adj, reversed_steps, net_steps)
  else
    let (pos_final, pos_f_adj, reversed_steps, net_steps) :=
      if (Py.eq s_rev (Py.Val.int 0)) then
        let (pos_final, pos_f_adj) :=
          if (Py.gt accel (Py.Val.int 0)) then
            let pos_final := steps
            let pos_f_adj := (Py.sub R prec pos_final (Py.Val.int 1))
            (pos_final, pos_f_adj)
          else
            let pos_final := (Py.mul R prec (Py.Val.int (-1)) steps)
            let pos_f_adj := (Py.add R prec pos_final (Py.Val.int 1))
            (pos_final, pos_f_adj)
        (pos_final, pos_f_adj, reversed_steps, net_steps)
      else
        let reversed_steps := (Py.sub R prec steps s_rev)
        let net_steps := (Py.sub R prec s_rev reversed_steps)
        let (pos_final, pos_f_adj) :=
          if (Py.gt accel (Py.Val.int 0)) then
            let pos_final := (Py.neg net_steps)
            let pos_f_adj := (Py.sub R prec pos_final (Py.Val.int 1))
            (pos_final, pos_f_adj)
          else
            let pos_final := net_steps
            let pos_f_adj := (Py.add R prec pos_final (Py.Val.int 1))
            (pos_final, pos_f_adj)
        (pos_final, pos_f_adj, reversed_steps, net_steps)
    (t_rev, pos_final, pos_f_adj, reversed_steps, net_steps)

def timeLin (R : Rounding) (prec : Nat) (rate accum_adj pos_final : Py.Val) : Py.Val :=
  (Py.truediv R prec (Py.sub R prec (Py.mul R prec (Py.Val.int 2147483648) pos_final) (Py.mpf_ R prec accum_adj)) (Py.mpf_ R prec rate))

def cFactor0 (R : Rounding) (prec : Nat) (accum_adj pos_f_adj : Py.Val) : Py.Val :=
  (Py.sub R prec accum_adj (Py.mul R prec (Py.mpf_ R prec pos_f_adj) (Py.Val.int 2147483648)))

def cFactor (R : Rounding) (prec : Nat) (accel t_rev c_factor : Py.Val) : Py.Val :=
  let c_factor :=
    if (Py.gt t_rev (Py.Val.int 0)) then
      let c_factor := (Py.add R prec c_factor (if (Py.gt accel (Py.Val.int 0)) then (Py.Val.int (-1)) else (Py.Val.int 1)))
      c_factor
    else
      c_factor
  c_factor

def disc (R : Rounding) (prec : Nat) (rate_effective two_a c_factor : Py.Val) : Py.Val :=
  (Py.sub R prec (Py.mul R prec rate_effective rate_effective) (Py.mul R prec (Py.mul R prec (Py.Val.int 2) two_a) c_factor))

def rootsTriple (R : Rounding) (prec : Nat) (rate_effective two_a t_rev discriminant sq_factor neg_root pos_root : Py.Val) :
    Py.Val × Py.Val × Py.Val :=
  if ((Py.ge discriminant (Py.Val.int 0)) && (Py.ne two_a (Py.Val.int 0))) then
    let sq_factor := (Py.mp_sqrt R prec discriminant)
    let neg_root := (Py.truediv R prec (Py.sub R prec (Py.neg rate_effective) sq_factor) two_a)
    let pos_root := (Py.truediv R prec (Py.add R prec (Py.neg rate_effective) sq_factor) two_a)
    let pos_root := (Py.mp_ceil pos_root)
    let neg_root := (Py.mp_ceil neg_root)
    let neg_root :=
      if ((Py.gt t_rev (Py.Val.int 0)) && (Py.le neg_root t_rev)) then
        let neg_root := (Py.Val.int (-1))
        neg_root
      else
        neg_root
    let pos_root :=
      if ((Py.gt t_rev (Py.Val.int 0)) && (Py.le pos_root t_rev)) then
        let pos_root := (Py.Val.int (-1))
        pos_root
      else
        pos_root
    (sq_factor, neg_root, pos_root)
  else
    (sq_factor, neg_root, pos_root)

def pickTime (neg_root pos_root time_final_star : Py.Val) : Py.Val :=
  let time_final_star :=
    if (Py.gt neg_root (Py.Val.int 0)) then
      let time_final_star := neg_root
      time_final_star
    else
      time_final_star
  let time_final_star :=
    if (Py.gt pos_root (Py.Val.int 0)) then
      let time_final_star :=
        if (Py.gt neg_root (Py.Val.int 0)) then
          let time_final_star :=
            if (Py.lt pos_root neg_root) then
              let time_final_star := pos_root
              time_final_star
            else
              time_final_star
          time_final_star
        else
          let time_final_star := pos_root
          time_final_star
      time_final_star
    else
      time_final_star
  time_final_star

def timeTuple (R : Rounding) (prec : Nat) (rate accel rate_effective accum_adj t_rev pos_final pos_f_adj : Py.Val) :
    Py.Val × Py.Val × Py.Val × Py.Val × Py.Val × Py.Val × Py.Val × Py.Val :=
  let time_final_star := Py.Val.err
  let two_a := Py.Val.err
  let c_factor := Py.Val.err
  let discriminant := Py.Val.err
  let neg_root := Py.Val.err
  let pos_root := Py.Val.err
  let time_final := Py.Val.err
  let sq_factor := Py.Val.err
  if (Py.eq accel (Py.Val.int 0)) then
    let time_final_star := timeLin R prec rate accum_adj pos_final
    (time_final_star, two_a, c_factor, discriminant, neg_root, pos_root, time_final, sq_factor)
  else
    let time_final_star := (Py.Val.int 0)
    let two_a := (Py.mpf_ R prec accel)
    let c_factor := cFactor0 R prec accum_adj pos_f_adj
    let c_factor := cFactor R prec accel t_rev c_factor
    let discriminant := disc R prec rate_effective two_a c_factor
    let neg_root := (Py.Val.int (-1))
    let pos_root := (Py.Val.int (-1))
    let time_final := (Py.Val.int (-1))
    match rootsTriple R prec rate_effective two_a t_rev discriminant sq_factor neg_root pos_root with
    | (sq_factor, neg_root, pos_root) =>
      let time_final_star := pickTime neg_root pos_root time_final_star
      (time_final_star, two_a, c_factor, discriminant, neg_root, pos_root, time_final, sq_factor)

def final (R : Rounding) (prec : Nat) (rate accel rate_effective accum pos_final time_final_star : Py.Val) : Py.Val :=
  let time_final := (Py.int_ (Py.mp_ceil time_final_star))
  let c_final := (Py.add R prec (Py.add R prec (Py.mpf_ R prec accum) (Py.mul R prec rate_effective time_final)) (Py.truediv R prec (Py.mul R prec (Py.mul R prec (Py.mpf_ R prec accel) time_final) time_final) (Py.Val.int 2)))
  let c_final := (Py.sub R prec c_final (Py.mul R prec (Py.Val.int 2147483648) (Py.mpf_ R prec pos_final)))
  (Py.Val.tup [time_final, pos_final, (Py.int_ c_final)])

/-- the continuation of `calculate_lm` after the early exits, as a composition of the stages -/
def staged (R : Rounding) (steps rate accel accum : Py.Val) : Py.Val :=
  let prec := Py.dpsToPrec 30
  let rate_effective := rateEff R prec rate accel
  let temp_rate := tempRate R prec rate accel
  let initial_rate_negative := irn temp_rate accel
  let accum := G.accum accum initial_rate_negative
  let accum_adj := accumAdj R prec accum initial_rate_negative
  match tRevPair R prec rate accel with
  | (t_rev_star, t_rev) =>
    match sRevPair R prec rate_effective accel t_rev accum_adj with
    | (s_rev_star, s_rev) =>
      match branch R prec steps accel temp_rate initial_rate_negative t_rev s_rev with
      | (t_rev, pos_final, pos_f_adj, reversed_steps, net_steps) =>
        match timeTuple R prec rate accel rate_effective accum_adj t_rev pos_final pos_f_adj with
        | (time_final_star, two_a, c_factor, discriminant, neg_root, pos_root, time_final, sq_factor) =>
          final R prec rate accel rate_effective accum pos_final time_final_star

end G
end C03
end Plotink
