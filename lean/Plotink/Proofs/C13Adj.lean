import Plotink.Model.C13

/-! C13: the adjacency list (`find_adjacents`).  Core Lean only. -/
namespace Plotink
namespace C13

theorem idx_lt {bins x y : Nat} (hx : x < bins) (hy : y < bins) : x + y * bins < bins * bins := by
  have h1 : (y + 1) * bins ≤ bins * bins := Nat.mul_le_mul_right bins hy
  rw [Nat.succ_mul] at h1
  omega

theorem adjacents_length (bins : Nat) : (adjacents bins).length = bins * bins := by
  simp [adjacents]

theorem adjacents_getD {bins x y : Nat} (hx : x < bins) (hy : y < bins) :
    (adjacents bins).getD (x + y * bins) [] = adjOf bins x y := by
  have hlt := idx_lt hx hy
  have hpos : 0 < bins := by omega
  simp only [adjacents, List.getD_eq_getElem?_getD, List.getElem?_map, List.getElem?_range hlt,
    Option.map_some, Option.getD_some]
  rw [Nat.add_mul_mod_self_right, Nat.mod_eq_of_lt hx, Nat.add_mul_div_right _ _ hpos,
    Nat.div_eq_of_lt hx, Nat.zero_add]

/-- membership in the list built by `find_adjacents`, guard by guard -/
theorem mem_adjOf_guards (bins x y c : Nat) :
    c ∈ adjOf bins x y ↔
      c = x + y * bins ∨
      (x > 0 ∧ (c = x + y * bins - 1 ∨ (y > 0 ∧ c = x + y * bins - bins - 1) ∨
                (y < bins - 1 ∧ c = x + y * bins + bins - 1))) ∨
      (x < bins - 1 ∧ (c = x + y * bins + 1 ∨ (y > 0 ∧ c = x + y * bins - bins + 1) ∨
                (y < bins - 1 ∧ c = x + y * bins + bins + 1))) ∨
      (y > 0 ∧ c = x + y * bins - bins) ∨
      (y < bins - 1 ∧ c = x + y * bins + bins) := by
  simp only [adjOf, List.mem_append, List.mem_cons, List.not_mem_nil, or_false, List.mem_ite_nil_right]
  constructor
  · rintro ((((h | h) | h) | h) | h)
    · exact Or.inl h
    · obtain ⟨h0, (h | h) | h⟩ := h
      · exact Or.inr (Or.inl ⟨h0, Or.inl h⟩)
      · exact Or.inr (Or.inl ⟨h0, Or.inr (Or.inl h)⟩)
      · exact Or.inr (Or.inl ⟨h0, Or.inr (Or.inr h)⟩)
    · obtain ⟨h0, (h | h) | h⟩ := h
      · exact Or.inr (Or.inr (Or.inl ⟨h0, Or.inl h⟩))
      · exact Or.inr (Or.inr (Or.inl ⟨h0, Or.inr (Or.inl h)⟩))
      · exact Or.inr (Or.inr (Or.inl ⟨h0, Or.inr (Or.inr h)⟩))
    · exact Or.inr (Or.inr (Or.inr (Or.inl h)))
    · exact Or.inr (Or.inr (Or.inr (Or.inr h)))
  · rintro (h | ⟨h0, h | h | h⟩ | ⟨h0, h | h | h⟩ | h | h)
    · exact Or.inl (Or.inl (Or.inl (Or.inl h)))
    · exact Or.inl (Or.inl (Or.inl (Or.inr ⟨h0, Or.inl (Or.inl h)⟩)))
    · exact Or.inl (Or.inl (Or.inl (Or.inr ⟨h0, Or.inl (Or.inr h)⟩)))
    · exact Or.inl (Or.inl (Or.inl (Or.inr ⟨h0, Or.inr h⟩)))
    · exact Or.inl (Or.inl (Or.inr ⟨h0, Or.inl (Or.inl h)⟩))
    · exact Or.inl (Or.inl (Or.inr ⟨h0, Or.inl (Or.inr h)⟩))
    · exact Or.inl (Or.inl (Or.inr ⟨h0, Or.inr h⟩))
    · exact Or.inl (Or.inr h)
    · exact Or.inr h

/-- `adjacents_spec`, membership: the list of cell `(x, y)` is exactly the in-grid cells `(x', y')`
with `|x - x'| ≤ 1` and `|y - y'| ≤ 1` -/
theorem mem_adjOf {bins x y : Nat} (hx : x < bins) (hy : y < bins) (c : Nat) :
    c ∈ adjOf bins x y ↔
      ∃ x' y', x' < bins ∧ y' < bins ∧ c = x' + y' * bins ∧
        x' ≤ x + 1 ∧ x ≤ x' + 1 ∧ y' ≤ y + 1 ∧ y ≤ y' + 1 := by
  rw [mem_adjOf_guards]
  constructor
  · have hs : (y + 1) * bins = y * bins + bins := Nat.succ_mul y bins
    rintro (h | ⟨h0, h | ⟨h1, h⟩ | ⟨h1, h⟩⟩ | ⟨h0, h | ⟨h1, h⟩ | ⟨h1, h⟩⟩ | ⟨h1, h⟩ | ⟨h1, h⟩)
    · exact ⟨x, y, hx, hy, h, by omega, by omega, by omega, by omega⟩
    · exact ⟨x - 1, y, by omega, hy, by omega, by omega, by omega, by omega, by omega⟩
    · obtain ⟨k, rfl⟩ : ∃ k, y = k + 1 := ⟨y - 1, by omega⟩
      rw [Nat.succ_mul] at h
      exact ⟨x - 1, k, by omega, by omega, by omega, by omega, by omega, by omega, by omega⟩
    · exact ⟨x - 1, y + 1, by omega, by omega, by omega, by omega, by omega, by omega, by omega⟩
    · exact ⟨x + 1, y, by omega, hy, by omega, by omega, by omega, by omega, by omega⟩
    · obtain ⟨k, rfl⟩ : ∃ k, y = k + 1 := ⟨y - 1, by omega⟩
      rw [Nat.succ_mul] at h
      exact ⟨x + 1, k, by omega, by omega, by omega, by omega, by omega, by omega, by omega⟩
    · exact ⟨x + 1, y + 1, by omega, by omega, by omega, by omega, by omega, by omega, by omega⟩
    · obtain ⟨k, rfl⟩ : ∃ k, y = k + 1 := ⟨y - 1, by omega⟩
      rw [Nat.succ_mul] at h
      exact ⟨x, k, by omega, by omega, by omega, by omega, by omega, by omega, by omega⟩
    · exact ⟨x, y + 1, by omega, by omega, by omega, by omega, by omega, by omega, by omega⟩
  · rintro ⟨x', y', hx', hy', hc, h1, h2, h3, h4⟩
    have hy3 : y' = y ∨ y' = y + 1 ∨ y = y' + 1 := by omega
    rcases hy3 with rfl | rfl | rfl
    · omega
    · rw [Nat.succ_mul] at hc
      omega
    · rw [Nat.succ_mul]
      omega

/-- `adjacents_spec`, no duplicates -/
theorem nodup_adjOf {bins x y : Nat} (hx : x < bins) (hy : y < bins) : (adjOf bins x y).Nodup := by
  have hm : y = 0 ∨ bins ≤ y * bins := by
    rcases Nat.eq_zero_or_pos y with h | h
    · exact Or.inl h
    · exact Or.inr (Nat.le_mul_of_pos_left bins h)
  unfold adjOf
  simp only []
  split <;> split <;> split <;> split <;>
    simp only [List.append_nil, List.nil_append, List.cons_append, List.nodup_cons, List.mem_cons,
      List.not_mem_nil, List.nodup_nil, or_false, and_true, not_or, not_false_eq_true] <;>
    (repeat' apply And.intro) <;> omega

end C13
end Plotink
