import Plotink.Proofs.C05Conf
set_option linter.unusedSimpArgs false
set_option linter.unusedVariables false
/-!
# Record and replay: any device against the script of what it served

`recDev D` is the device `D` with a recorder: it behaves like `D` and logs every outcome it hands out (`rd`: the read
outcomes, `wr`: the write outcomes, oldest first).  `Replay xd xs` relates a computation `xd` on `recDev D` with the
same computation `xs` on `scriptDev`: whatever world `xd` starts in, it appends some `dr` / `dw` to the two logs, and
`xs`, started with the same attributes on *any* script that begins with `dr` / `dw`, returns the same result, leaves
the same attributes and counters, and has consumed exactly `dr` / `dw`.  The relation is closed under the monad, the
guard and the three port primitives, so it holds for every public method (`replay_run`: a walk over the 38 bodies)
and for histories (`replay_hist`).  Core Lean only.
-/
namespace Plotink
namespace Ebb3
open M

/-- a device state with the log of the outcomes handed out so far -/
structure Rec (σ : Type) where
  inner : σ
  rd : List ReadEv
  wr : List WriteEv

/-- `D` with a recorder -/
def recDev {σ : Type} (D : Device σ) : Device (Rec σ) where
  write s t := ((D.write s.inner t).1, ⟨(D.write s.inner t).2, s.rd, s.wr ++ [(D.write s.inner t).1]⟩)
  read s := ((D.read s.inner).1, ⟨(D.read s.inner).2, s.rd ++ [(D.read s.inner).1], s.wr⟩)
  reset s := ⟨D.reset s.inner, s.rd, s.wr⟩

/-- the world of the script side: attributes and counters of `w`, the given script -/
def mkS {τ : Type} (w : World τ) (rs : List ReadEv) (ws : List WriteEv) : World Script :=
  ⟨w.st, ⟨rs, ws⟩, w.out, w.nreads⟩

variable {σ : Type} {α β : Type}

def Replay (xd : M (Rec σ) α) (xs : M Script α) : Prop :=
  ∀ w : World (Rec σ), ∃ dr dw, (xd w).2.dev.rd = w.dev.rd ++ dr ∧ (xd w).2.dev.wr = w.dev.wr ++ dw ∧
    ∀ eR eW, xs (mkS w (dr ++ eR) (dw ++ eW)) = ((xd w).1, mkS (xd w).2 eR eW)

theorem Replay.noio {xd : M (Rec σ) α} {xs : M Script α}
    (h : ∀ (w : World (Rec σ)) rs ws, (xd w).2.dev = w.dev ∧ xs (mkS w rs ws) = ((xd w).1, mkS (xd w).2 rs ws)) :
    Replay xd xs := by
  intro w
  refine ⟨[], [], by rw [(h w [] []).1]; simp, by rw [(h w [] []).1]; simp, fun eR eW => ?_⟩
  simpa using (h w eR eW).2

theorem Replay.pure (a : α) : Replay (Pure.pure a : M (Rec σ) α) (Pure.pure a) :=
  Replay.noio fun _ _ _ => ⟨rfl, rfl⟩
theorem Replay.raise (e : PyExc) : Replay (M.raise e : M (Rec σ) α) (M.raise e) :=
  Replay.noio fun _ _ _ => ⟨rfl, rfl⟩
theorem Replay.getSt : Replay (getSt : M (Rec σ) St) getSt := Replay.noio fun _ _ _ => ⟨rfl, rfl⟩
theorem Replay.modifySt (f : St → St) : Replay (modifySt f : M (Rec σ) Unit) (modifySt f) :=
  Replay.noio fun _ _ _ => ⟨rfl, rfl⟩
theorem Replay.recordError (m : Str) : Replay (recordError m : M (Rec σ) Unit) (recordError m) :=
  Replay.modifySt _
theorem Replay.disconnectM : Replay (disconnectM : M (Rec σ) Unit) disconnectM := Replay.modifySt _
theorem Replay.ofOption (e : PyExc) (o : Option α) : Replay (ofOption e o : M (Rec σ) α) (ofOption e o) := by
  cases o
  · exact Replay.raise e
  · exact Replay.noio fun _ _ _ => ⟨rfl, rfl⟩

theorem Replay.bind {xd : M (Rec σ) α} {xs : M Script α} {fd : α → M (Rec σ) β} {fs : α → M Script β}
    (hx : Replay xd xs) (hf : ∀ a, Replay (fd a) (fs a)) : Replay (xd >>= fd) (xs >>= fs) := by
  intro w
  obtain ⟨dr1, dw1, h1, h2, h3⟩ := hx w
  rcases hxw : xd w with ⟨r, w1⟩
  rw [hxw] at h1 h2 h3
  cases r with
  | error e =>
    refine ⟨dr1, dw1, ?_, ?_, fun eR eW => ?_⟩
    · rw [bind_error hxw]; exact h1
    · rw [bind_error hxw]; exact h2
    · rw [bind_error hxw, bind_error (h3 eR eW)]
  | ok a =>
    obtain ⟨dr2, dw2, g1, g2, g3⟩ := hf a w1
    refine ⟨dr1 ++ dr2, dw1 ++ dw2, ?_, ?_, fun eR eW => ?_⟩
    · rw [bind_ok hxw, g1, h1, List.append_assoc]
    · rw [bind_ok hxw, g2, h2, List.append_assoc]
    · have e1 := h3 (dr2 ++ eR) (dw2 ++ eW)
      rw [← List.append_assoc, ← List.append_assoc] at e1
      rw [bind_ok hxw, bind_ok e1]
      exact g3 eR eW

theorem Replay.portWrite (D : Device σ) (t : Str) : Replay (portWrite (recDev D) t) (portWrite scriptDev t) := by
  intro w
  refine ⟨[], [(D.write w.dev.inner t).1], by simp [Ebb3.portWrite, recDev], rfl, fun eR eW => ?_⟩
  simp [Ebb3.portWrite, recDev, scriptDev, mkS]

theorem Replay.portRead (D : Device σ) : Replay (portRead (recDev D)) (portRead scriptDev) := by
  intro w
  refine ⟨[(D.read w.dev.inner).1], [], rfl, by simp [Ebb3.portRead, recDev], fun eR eW => ?_⟩
  simp [Ebb3.portRead, recDev, scriptDev, mkS]

theorem Replay.portReset (D : Device σ) : Replay (portReset (recDev D)) (portReset scriptDev) := by
  intro w
  exact ⟨[], [], by simp [Ebb3.portReset, recDev], by simp [Ebb3.portReset, recDev], fun eR eW => rfl⟩

theorem Replay.guardM {fv : Val} {bd : M (Rec σ) Val} {bs : M Script Val} (hb : Replay bd bs) :
    Replay (guardM fv bd) (guardM fv bs) := by
  intro w
  unfold Ebb3.guardM
  by_cases hbl : w.st.blocked = true
  · refine ⟨[], [], by simp [hbl], by simp [hbl], fun eR eW => ?_⟩
    simp [hbl, mkS]
  · obtain ⟨dr, dw, h1, h2, h3⟩ := hb w
    refine ⟨dr, dw, by simpa [hbl] using h1, by simpa [hbl] using h2, fun eR eW => ?_⟩
    have := h3 eR eW
    simpa [hbl, mkS] using this

theorem Replay.prog {pd : Prog (Rec σ)} {ps : Prog Script} (hg : pd.guard = ps.guard) (hb : Replay pd.body ps.body) :
    Replay pd.run ps.run := by
  unfold Prog.run
  rw [← hg]
  cases pd.guard with
  | none => exact hb
  | some fv => exact Replay.guardM hb

/-! ## the walk -/

macro "replay_step" : tactic => `(tactic| first
  | exact Replay.pure _ | exact Replay.raise _ | exact Replay.getSt | exact Replay.modifySt _
  | exact Replay.recordError _ | exact Replay.disconnectM | exact Replay.ofOption _ _
  | exact Replay.portWrite _ _ | exact Replay.portRead _ | exact Replay.portReset _
  | refine Replay.bind ?_ (fun _ => ?_)
  | split)

/-- walk a body; `ts` = the lemmas of the definitions it mentions -/
syntax "replay_auto" "[" term,* "]" : tactic
macro_rules
  | `(tactic| replay_auto [$ts,*]) => `(tactic| repeat (first $[| exact $ts]* | replay_step))

variable (P : Params) (D : Device σ)

theorem Replay.readLoop : ∀ n : Nat, Replay (readLoop (recDev D) n) (readLoop scriptDev n)
  | 0 => by unfold Ebb3.readLoop; exact Replay.pure _
  | n + 1 => by
    unfold Ebb3.readLoop
    replay_auto [Replay.readLoop n]

theorem Replay.exchange (retry : Nat) (t : Str) :
    Replay (exchange (recDev D) retry t) (exchange scriptDev retry t) := by
  unfold Ebb3.exchange
  replay_auto [Replay.readLoop D _]

theorem Replay.commandJudge (cmd name : Str) (r : Option Str) :
    Replay (commandJudge P cmd name r : M (Rec σ) Unit) (commandJudge P cmd name r) := by
  unfold Ebb3.commandJudge
  replay_auto []

theorem Replay.errIsNone : Replay (errIsNone : M (Rec σ) Val) errIsNone := by
  unfold Ebb3.errIsNone
  replay_auto []

theorem Replay.commandCore (cmd : Str) : Replay (commandCore P (recDev D) cmd) (commandCore P scriptDev cmd) := by
  unfold Ebb3.commandCore
  replay_auto [Replay.exchange D _ _, Replay.commandJudge P _ _ _, Replay.errIsNone]

theorem Replay.commandRun (c : Option Str) : Replay (commandP P (recDev D) c).run (commandP P scriptDev c).run := by
  refine Replay.prog rfl ?_
  show Replay (commandBody P (recDev D) c) (commandBody P scriptDev c)
  unfold Ebb3.commandBody
  replay_auto [Replay.commandCore P D _]

theorem Replay.queryJudge (q name resp : Str) :
    Replay (queryJudge q name resp : M (Rec σ) Val) (queryJudge q name resp) := by
  unfold Ebb3.queryJudge
  replay_auto []

theorem Replay.queryCore (q : Str) : Replay (queryCore P (recDev D) q) (queryCore P scriptDev q) := by
  unfold Ebb3.queryCore
  replay_auto [Replay.exchange D _ _, Replay.queryJudge _ _ _]

theorem Replay.queryRun (q : Option Str) : Replay (queryP P (recDev D) q).run (queryP P scriptDev q).run := by
  refine Replay.prog rfl ?_
  show Replay (queryBody P (recDev D) q) (queryBody P scriptDev q)
  unfold Ebb3.queryBody
  replay_auto [Replay.queryCore P D _]

theorem Replay.qgJudge (resp : Str) : Replay (qgJudge resp : M (Rec σ) Val) (qgJudge resp) := by
  unfold Ebb3.qgJudge
  replay_auto []

theorem Replay.qgUsbFail : Replay (qgUsbFail : M (Rec σ) Val) qgUsbFail := by
  unfold Ebb3.qgUsbFail
  replay_auto []

theorem Replay.queryStatusByteBody : Replay (queryStatusByteBody (recDev D)) (queryStatusByteBody scriptDev) := by
  unfold Ebb3.queryStatusByteBody
  replay_auto [Replay.qgJudge _, Replay.qgUsbFail]

theorem Replay.rawCloseBody (t : Str) : Replay (rawCloseBody (recDev D) t) (rawCloseBody scriptDev t) := by
  unfold Ebb3.rawCloseBody
  replay_auto []

theorem Replay.setName (n : Str) : Replay (setName n : M (Rec σ) Unit) (setName n) := Replay.modifySt _

theorem Replay.queryNicknameRun : Replay (queryNicknameP P (recDev D)).run (queryNicknameP P scriptDev).run := by
  refine Replay.prog rfl ?_
  show Replay (queryNicknameP P (recDev D)).body (queryNicknameP P scriptDev).body
  unfold Ebb3.queryNicknameP
  replay_auto [Replay.queryRun P D _, Replay.setName _]

theorem Replay.writeNicknameRun (n : Option Str) :
    Replay (writeNicknameP P (recDev D) n).run (writeNicknameP P scriptDev n).run := by
  refine Replay.prog rfl ?_
  show Replay (writeNicknameP P (recDev D) n).body (writeNicknameP P scriptDev n).body
  unfold Ebb3.writeNicknameP
  replay_auto [Replay.commandRun P D _, Replay.setName _]

theorem Replay.varWriteRun (v i : Int) : Replay (varWriteP P (recDev D) v i).run (varWriteP P scriptDev v i).run := by
  refine Replay.prog rfl ?_
  show Replay (varWriteP P (recDev D) v i).body (varWriteP P scriptDev v i).body
  unfold Ebb3.varWriteP
  replay_auto [Replay.commandRun P D _, Replay.errIsNone]

theorem Replay.intOfVal (v : Val) : Replay (intOfVal v : M (Rec σ) Val) (intOfVal v) := by
  unfold Ebb3.intOfVal
  replay_auto []

theorem Replay.varReadRun (i : Int) : Replay (varReadP P (recDev D) i).run (varReadP P scriptDev i).run := by
  refine Replay.prog rfl ?_
  show Replay (varReadP P (recDev D) i).body (varReadP P scriptDev i).body
  unfold Ebb3.varReadP
  replay_auto [Replay.queryRun P D _, Replay.intOfVal _]

theorem Replay.varWriteInt32Run (v i : Int) :
    Replay (varWriteInt32P P (recDev D) v i).run (varWriteInt32P P scriptDev v i).run := by
  refine Replay.prog rfl ?_
  show Replay (varWriteInt32P P (recDev D) v i).body (varWriteInt32P P scriptDev v i).body
  unfold Ebb3.varWriteInt32P
  replay_auto [Replay.varWriteRun P D _ _, Replay.errIsNone]

theorem Replay.varReadInt32Run (i : Int) :
    Replay (varReadInt32P P (recDev D) i).run (varReadInt32P P scriptDev i).run := by
  refine Replay.prog rfl ?_
  show Replay (varReadInt32P P (recDev D) i).body (varReadInt32P P scriptDev i).body
  unfold Ebb3.varReadInt32P
  replay_auto [Replay.varReadRun P D _]

theorem Replay.cmd_ (t : Str) : Replay (cmd_ P (recDev D) t) (cmd_ P scriptDev t) := by
  unfold Ebb3.cmd_
  replay_auto [Replay.commandRun P D _]

theorem Replay.cmdRun (t : Str) : Replay (cmdP P (recDev D) t).run (cmdP P scriptDev t).run := by
  refine Replay.prog rfl ?_
  show Replay (cmdP P (recDev D) t).body (cmdP P scriptDev t).body
  unfold Ebb3.cmdP
  replay_auto [Replay.cmd_ P D _]

theorem Replay.runCmds : ∀ l : List Str, Replay (runCmds P (recDev D) l) (runCmds P scriptDev l)
  | [] => by unfold Ebb3.runCmds; exact Replay.pure _
  | c :: cs => by
    unfold Ebb3.runCmds
    replay_auto [Replay.cmd_ P D _, Replay.runCmds cs]

theorem Replay.timedPauseRun (t : Int) : Replay (timedPauseP P (recDev D) t).run (timedPauseP P scriptDev t).run := by
  refine Replay.prog rfl ?_
  show Replay (timedPauseP P (recDev D) t).body (timedPauseP P scriptDev t).body
  unfold Ebb3.timedPauseP
  replay_auto [Replay.runCmds P D _]

theorem Replay.qeDecode (l : List Str) : Replay (qeDecode l : M (Rec σ) Val) (qeDecode l) := by
  unfold Ebb3.qeDecode
  replay_auto []

theorem Replay.motorsQueryEnabledRun :
    Replay (motorsQueryEnabledP P (recDev D)).run (motorsQueryEnabledP P scriptDev).run := by
  refine Replay.prog rfl ?_
  show Replay (motorsQueryEnabledP P (recDev D)).body (motorsQueryEnabledP P scriptDev).body
  unfold Ebb3.motorsQueryEnabledP
  replay_auto [Replay.queryRun P D _, Replay.qeDecode _]

theorem Replay.motorsEnableCore (a b : Int) :
    Replay (motorsEnableCore P (recDev D) a b) (motorsEnableCore P scriptDev a b) := by
  unfold Ebb3.motorsEnableCore
  replay_auto [Replay.cmd_ P D _, Replay.motorsQueryEnabledRun P D]

theorem Replay.int2 (l : List Str) : Replay (int2 l : M (Rec σ) Val) (int2 l) := by
  unfold Ebb3.int2
  replay_auto []

theorem Replay.queryStepsRun : Replay (queryStepsP P (recDev D)).run (queryStepsP P scriptDev).run := by
  refine Replay.prog rfl ?_
  show Replay (queryStepsP P (recDev D)).body (queryStepsP P scriptDev).body
  unfold Ebb3.queryStepsP
  replay_auto [Replay.queryRun P D _, Replay.int2 _]

theorem Replay.dioBConfigRun (a b c : Int) :
    Replay (dioBConfigP P (recDev D) a b c).run (dioBConfigP P scriptDev a b c).run := by
  refine Replay.prog rfl ?_
  show Replay (dioBConfigP P (recDev D) a b c).body (dioBConfigP P scriptDev a b c).body
  unfold Ebb3.dioBConfigP
  replay_auto [Replay.cmd_ P D _]

theorem Replay.boolOfStr (s : Str) : Replay (boolOfStr s : M (Rec σ) Val) (boolOfStr s) := by
  unfold Ebb3.boolOfStr
  replay_auto []

theorem Replay.dioBReadRun (pin : Int) : Replay (dioBReadP P (recDev D) pin).run (dioBReadP P scriptDev pin).run := by
  refine Replay.prog rfl ?_
  show Replay (dioBReadP P (recDev D) pin).body (dioBReadP P scriptDev pin).body
  unfold Ebb3.dioBReadP
  replay_auto [Replay.queryRun P D _, Replay.boolOfStr _]

theorem Replay.voltageDecode (th : Int) (x : Str × Option Str) :
    Replay (voltageDecode th x : M (Rec σ) Val) (voltageDecode th x) := by
  unfold Ebb3.voltageDecode
  replay_auto []

theorem Replay.queryVoltageRun (th : Option Int) :
    Replay (queryVoltageP P (recDev D) th).run (queryVoltageP P scriptDev th).run := by
  refine Replay.prog rfl ?_
  show Replay (queryVoltageP P (recDev D) th).body (queryVoltageP P scriptDev th).body
  unfold Ebb3.queryVoltageP
  replay_auto [Replay.queryRun P D _, Replay.voltageDecode _ _]

theorem Replay.currentDecode (x : Str × Option Str) : Replay (currentDecode x : M (Rec σ) Val) (currentDecode x) := by
  unfold Ebb3.currentDecode
  replay_auto []

theorem Replay.queryCurrentRun : Replay (queryCurrentP P (recDev D)).run (queryCurrentP P scriptDev).run := by
  refine Replay.prog rfl ?_
  show Replay (queryCurrentP P (recDev D)).body (queryCurrentP P scriptDev).body
  unfold Ebb3.queryCurrentP
  replay_auto [Replay.queryRun P D _, Replay.currentDecode _]

/-! ### the helpers, `disconnect`, `connect` -/

theorem Replay.setVersion (v : Str) : Replay (setVersion v : M (Rec σ) Unit) (setVersion v) := by
  unfold Ebb3.setVersion
  replay_auto []

theorem Replay.parseVersionM (s : Str) : Replay (parseVersionM s : M (Rec σ) Unit) (parseVersionM s) := by
  unfold Ebb3.parseVersionM
  replay_auto [Replay.setVersion _]

theorem Replay.minVersionM (s : Str) : Replay (minVersionM s : M (Rec σ) Val) (minVersionM s) := by
  unfold Ebb3.minVersionM
  replay_auto []

theorem Replay.probe : Replay (probe (recDev D)) (probe scriptDev) := by
  unfold Ebb3.probe
  replay_auto []

theorem Replay.getPortName (g f : Option Str) : Replay (getPortName g f : M (Rec σ) Unit) (getPortName g f) := by
  unfold Ebb3.getPortName
  replay_auto []

theorem Replay.probeFail (pn : Str) : Replay (probeFail pn : M (Rec σ) (Option Str)) (probeFail pn) := by
  unfold Ebb3.probeFail
  replay_auto []

theorem Replay.identify (pn : Str) (o : Bool) : Replay (identify (recDev D) pn o) (identify scriptDev pn o) := by
  unfold Ebb3.identify
  replay_auto [Replay.probe D, Replay.probeFail _]

theorem Replay.setCaller (c : Option Str) : Replay (setCaller c : M (Rec σ) Unit) (setCaller c) := by
  unfold Ebb3.setCaller
  replay_auto []

theorem Replay.enterFuture (c : Option Str) : Replay (enterFuture P (recDev D) c) (enterFuture P scriptDev c) := by
  unfold Ebb3.enterFuture
  replay_auto [Replay.queryNicknameRun P D, Replay.setCaller _]

theorem Replay.checkVersion (c : Option Str) (sv : Str) :
    Replay (checkVersion P (recDev D) c sv) (checkVersion P scriptDev c sv) := by
  unfold Ebb3.checkVersion
  replay_auto [Replay.parseVersionM _, Replay.minVersionM _, Replay.enterFuture P D _]

theorem Replay.connectFailed (pn : Str) : Replay (connectFailed pn : M (Rec σ) Val) (connectFailed pn) := by
  unfold Ebb3.connectFailed
  replay_auto []

theorem Replay.connectBody (g c f : Option Str) (o : Bool) :
    Replay (connectBody P (recDev D) g c f o) (connectBody P scriptDev g c f o) := by
  unfold Ebb3.connectBody
  replay_auto [Replay.getPortName _ _, Replay.identify D _ _, Replay.connectFailed _, Replay.checkVersion P D _ _]

/-- **every public method**: the run on a recorded device is replayed by the script of what the device served -/
theorem replay_run (c : Call) : Replay (run P (recDev D) c) (run P scriptDev c) := by
  unfold run
  cases c
  case find_first f =>
    refine Replay.prog rfl ?_
    show Replay (findFirstP f).body (findFirstP f).body
    unfold findFirstP; replay_auto []
  case reboot => exact Replay.prog rfl (Replay.rawCloseBody D _)
  case bootload => exact Replay.prog rfl (Replay.rawCloseBody D _)
  case record_error m =>
    refine Replay.prog rfl ?_
    show Replay (recordErrorP m).body (recordErrorP m).body
    unfold recordErrorP; replay_auto []
  case parse_version s =>
    refine Replay.prog rfl ?_
    show Replay (parseVersionP s).body (parseVersionP s).body
    unfold parseVersionP; replay_auto [Replay.parseVersionM _]
  case query_nickname => exact Replay.queryNicknameRun P D
  case write_nickname n => exact Replay.writeNicknameRun P D n
  case disconnect =>
    refine Replay.prog rfl ?_
    show Replay (disconnectP).body (disconnectP).body
    unfold disconnectP; replay_auto []
  case connect g cl f o => exact Replay.prog rfl (Replay.connectBody P D g cl f o)
  case min_version v => exact Replay.prog rfl (Replay.minVersionM v)
  case command cmd => exact Replay.commandRun P D cmd
  case query q => exact Replay.queryRun P D q
  case query_statusbyte => exact Replay.prog rfl (Replay.queryStatusByteBody D)
  case var_write v i => exact Replay.varWriteRun P D v i
  case var_read i => exact Replay.varReadRun P D i
  case var_write_int32 v i => exact Replay.varWriteInt32Run P D v i
  case var_read_int32 i => exact Replay.varReadInt32Run P D i
  case timed_pause t => exact Replay.timedPauseRun P D t
  case xy_move dx dy dur => exact Replay.cmdRun P D _
  case abs_move r a b => exact Replay.cmdRun P D _
  case motors_disable => exact Replay.cmdRun P D _
  case motors_enable a b => exact Replay.prog rfl (Replay.motorsEnableCore P D _ _)
  case motors_query_enabled => exact Replay.motorsQueryEnabledRun P D
  case query_steps => exact Replay.queryStepsRun P D
  case clear_steps => exact Replay.cmdRun P D _
  case clear_accumulators => exact Replay.cmdRun P D _
  case pen_lower d p => exact Replay.cmdRun P D _
  case pen_raise d p => exact Replay.cmdRun P D _
  case dio_b_config a b c => exact Replay.dioBConfigRun P D a b c
  case dio_b_set a b => exact Replay.cmdRun P D _
  case dio_b_read p => exact Replay.dioBReadRun P D p
  case pen_pos_down v => exact Replay.cmdRun P D _
  case pen_pos_up v => exact Replay.cmdRun P D _
  case pen_rate_down v => exact Replay.cmdRun P D _
  case pen_rate_up v => exact Replay.cmdRun P D _
  case servo_timeout m s => exact Replay.cmdRun P D _
  case query_voltage t => exact Replay.queryVoltageRun P D t
  case query_current => exact Replay.queryCurrentRun P D

/-! ## histories -/

/-- one call of a history on the script (`os`) and on the recorded device (`od`): same result, same texts written,
same number of reads, same attributes and counters afterwards — and the script still holds exactly the part of the
transcript `T` / `TW` that the device has not handed out yet -/
def Paired (T : List ReadEv) (TW : List WriteEv) (os : Outcome Script) (od : Outcome (Rec σ)) : Prop :=
  os.res = od.res ∧ os.written = od.written ∧ os.reads = od.reads ∧ os.world.st = od.world.st ∧
  os.world.out = od.world.out ∧ os.world.nreads = od.world.nreads ∧
  od.world.dev.rd ++ os.world.dev.reads = T ∧ od.world.dev.wr ++ os.world.dev.writes = TW

/-- **histories**: a history on a recorded device extends the logs by some `dr` / `dw`; on any script that begins
with `dr` / `dw` the same history runs call by call like on the device (`Paired`) and consumes exactly `dr` / `dw` -/
theorem replay_hist : ∀ (cs : List Call) (w : World (Rec σ)), ∃ dr dw,
    (finalWorld P (recDev D) cs w).dev.rd = w.dev.rd ++ dr ∧ (finalWorld P (recDev D) cs w).dev.wr = w.dev.wr ++ dw ∧
    ∀ eR eW,
      finalWorld P scriptDev cs (mkS w (dr ++ eR) (dw ++ eW)) = mkS (finalWorld P (recDev D) cs w) eR eW ∧
      (runCalls P scriptDev cs (mkS w (dr ++ eR) (dw ++ eW))).length = (runCalls P (recDev D) cs w).length ∧
      ∀ os ∈ runCalls P scriptDev cs (mkS w (dr ++ eR) (dw ++ eW)), ∃ od ∈ runCalls P (recDev D) cs w,
        Paired (w.dev.rd ++ dr ++ eR) (w.dev.wr ++ dw ++ eW) os od
  | [], w => ⟨[], [], by simp [finalWorld], by simp [finalWorld], fun eR eW =>
      ⟨rfl, rfl, fun p hp => by simp [runCalls] at hp⟩⟩
  | c :: cs, w => by
    obtain ⟨dr1, dw1, h1, h2, h3⟩ := replay_run P D c w
    obtain ⟨dr2, dw2, g1, g2, g3⟩ := replay_hist cs (run P (recDev D) c w).2
    refine ⟨dr1 ++ dr2, dw1 ++ dw2, ?_, ?_, fun eR eW => ?_⟩
    · show (finalWorld P (recDev D) cs (run P (recDev D) c w).2).dev.rd = _
      rw [g1, h1, List.append_assoc]
    · show (finalWorld P (recDev D) cs (run P (recDev D) c w).2).dev.wr = _
      rw [g2, h2, List.append_assoc]
    · have e1 := h3 (dr2 ++ eR) (dw2 ++ eW)
      rw [← List.append_assoc, ← List.append_assoc] at e1
      obtain ⟨f1, f2, f3⟩ := g3 eR eW
      have hw : (runCall P scriptDev c (mkS w (dr1 ++ dr2 ++ eR) (dw1 ++ dw2 ++ eW))).world
          = mkS (run P (recDev D) c w).2 (dr2 ++ eR) (dw2 ++ eW) := by
        simp only [runCall, e1]
      refine ⟨?_, ?_, ?_⟩
      · show finalWorld P scriptDev cs (run P scriptDev c _).2 = _
        rw [e1]
        exact f1
      · simp only [runCalls, List.length_cons, hw]
        rw [f2]
        rfl
      · intro os hos
        simp only [runCalls, List.mem_cons, hw] at hos
        rcases hos with rfl | hos
        · refine ⟨runCall P (recDev D) c w, List.mem_cons_self, ?_, ?_, ?_, ?_, ?_, ?_, ?_, ?_⟩ <;>
            simp only [runCall, e1] <;> simp only [mkS]
          · rw [h1]; simp [List.append_assoc]
          · rw [h2]; simp [List.append_assoc]
        · obtain ⟨od, hod, this⟩ := f3 os hos
          refine ⟨od, List.mem_cons_of_mem _ hod, ?_⟩
          have hT : (run P (recDev D) c w).2.dev.rd ++ dr2 ++ eR = w.dev.rd ++ (dr1 ++ dr2) ++ eR := by
            rw [h1]; simp [List.append_assoc]
          have hTW : (run P (recDev D) c w).2.dev.wr ++ dw2 ++ eW = w.dev.wr ++ (dw1 ++ dw2) ++ eW := by
            rw [h2]; simp [List.append_assoc]
          rw [← hT, ← hTW]
          exact this

end Ebb3
end Plotink
