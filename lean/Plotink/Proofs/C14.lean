import Plotink.Model.C14
import Mathlib.Tactic.Linarith
import Mathlib.Order.Lattice
import Mathlib.Order.Compare

/-! Helper lemmas for C14 (R-tree query = brute force). -/
namespace Plotink
namespace C14

def Box.Valid (b : Box) : Prop := b.x1 ≤ b.x2 ∧ b.y1 ≤ b.y2

/-! ### overlap test -/

theorem overlaps_iff (q b : Box) :
    overlaps q b = true ↔ (q.x1 ≤ b.x2 ∧ q.y1 ≤ b.y2 ∧ b.x1 ≤ q.x2 ∧ b.y1 ≤ q.y2) := by
  simp [overlaps, and_assoc]

/-- the closed rectangles share a point exactly when the interval test succeeds -/
theorem overlaps_iff_shares_point (q b : Box) (hq : q.Valid) (hb : b.Valid) :
    overlaps q b = true ↔
      ∃ x y : Rat, (b.x1 ≤ x ∧ x ≤ b.x2 ∧ b.y1 ≤ y ∧ y ≤ b.y2) ∧ (q.x1 ≤ x ∧ x ≤ q.x2 ∧ q.y1 ≤ y ∧ y ≤ q.y2) := by
  rw [overlaps_iff]
  obtain ⟨hq1, hq2⟩ := hq
  obtain ⟨hb1, hb2⟩ := hb
  constructor
  · rintro ⟨h1, h2, h3, h4⟩
    refine ⟨max q.x1 b.x1, max q.y1 b.y1, ⟨le_max_right _ _, max_le h1 hb1, le_max_right _ _, max_le h2 hb2⟩,
      ⟨le_max_left _ _, max_le hq1 h3, le_max_left _ _, max_le hq2 h4⟩⟩
  · rintro ⟨x, y, ⟨a1, a2, a3, a4⟩, ⟨c1, c2, c3, c4⟩⟩
    exact ⟨le_trans c1 a2, le_trans c3 a4, le_trans a1 c2, le_trans a3 c4⟩

/-! ### extents -/

/-- `e` bounds the box `b` -/
def Bounds (e : Option Box) (b : Box) : Prop :=
  ∃ e', e = some e' ∧ e'.x1 ≤ b.x1 ∧ e'.y1 ≤ b.y1 ∧ b.x2 ≤ e'.x2 ∧ b.y2 ≤ e'.y2

theorem bounds_step_self (e : Option Box) (b : IBox) : Bounds (extStep e b) b.2 := by
  cases e with
  | none => exact ⟨_, rfl, le_refl _, le_refl _, le_refl _, le_refl _⟩
  | some e => exact ⟨_, rfl, min_le_right _ _, min_le_right _ _, le_max_right _ _, le_max_right _ _⟩

theorem bounds_step_mono (e : Option Box) (b : IBox) (c : Box) (h : Bounds e c) : Bounds (extStep e b) c := by
  obtain ⟨e', rfl, h1, h2, h3, h4⟩ := h
  exact ⟨_, rfl, le_trans (min_le_left _ _) h1, le_trans (min_le_left _ _) h2,
    le_trans h3 (le_max_left _ _), le_trans h4 (le_max_left _ _)⟩

theorem bounds_foldl (l : List IBox) (e : Option Box) (c : Box)
    (h : Bounds e c ∨ ∃ b ∈ l, b.2 = c) : Bounds (l.foldl extStep e) c := by
  induction l generalizing e with
  | nil =>
    rcases h with h | ⟨b, hb, _⟩
    · exact h
    · simp at hb
  | cons a t ih =>
    simp only [List.foldl_cons]
    apply ih
    rcases h with h | ⟨b, hb, rfl⟩
    · exact Or.inl (bounds_step_mono e a c h)
    · rcases List.mem_cons.mp hb with rfl | hb
      · exact Or.inl (bounds_step_self e b)
      · exact Or.inr ⟨b, hb, rfl⟩

theorem extent_bounds (bs : List IBox) (b : IBox) (hb : b ∈ bs) : Bounds (extent bs) b.2 :=
  bounds_foldl bs none b.2 (Or.inr ⟨b, hb, rfl⟩)

/-- pruning never hides a hit -/
theorem extentHit_of_mem (q : Box) (bs : List IBox) (b : IBox) (hb : b ∈ bs) (ho : overlaps q b.2 = true) :
    extentHit q (extent bs) = true := by
  obtain ⟨e, he, h1, h2, h3, h4⟩ := extent_bounds bs b hb
  rw [overlaps_iff] at ho
  obtain ⟨o1, o2, o3, o4⟩ := ho
  rw [he]
  simp only [extentHit, Bool.not_eq_true', Bool.or_eq_false_iff, decide_eq_false_iff_not, not_lt, gt_iff_lt]
  exact ⟨⟨⟨le_trans o1 h3, le_trans o2 h4⟩, le_trans h1 o3⟩, le_trans h2 o4⟩

/-! ### the quadrant tests depend only on order patterns -/

theorem lo_eq (st : Bool) (a c : Rat) : lo st a c = loA st (compare a c) := by
  rcases lt_trichotomy a c with h | h | h
  · rw [compare_lt_iff_lt.mpr h]; cases st <;> simp [lo, loA, h, le_of_lt h]
  · subst h; rw [compare_eq_iff_eq.mpr rfl]; cases st <;> simp [lo, loA]
  · rw [compare_gt_iff_gt.mpr h]; cases st <;> simp [lo, loA, not_lt.mpr (le_of_lt h), not_le.mpr h]

theorem hi_eq (st : Bool) (a c : Rat) : hi st a c = hiA st (compare a c) := by
  rcases lt_trichotomy a c with h | h | h
  · rw [compare_lt_iff_lt.mpr h]; cases st <;> simp [hi, hiA, not_lt.mpr (le_of_lt h), not_le.mpr h]
  · subst h; rw [compare_eq_iff_eq.mpr rfl]; cases st <;> simp [hi, hiA]
  · rw [compare_gt_iff_gt.mpr h]; cases st <;> simp [hi, hiA, h, le_of_lt h]

theorem quad_eq (s : Strict) (cx cy : Rat) (k : Fin 4) (b : IBox) :
    quad s cx cy k b =
      quadA s k (compare b.2.x1 cx) (compare b.2.x2 cx) (compare b.2.y1 cy) (compare b.2.y2 cy) := by
  match k with
  | 0 => simp only [quad, quadA, lo_eq]
  | 1 => simp only [quad, quadA, lo_eq, hi_eq]
  | 2 => simp only [quad, quadA, lo_eq, hi_eq]
  | 3 => simp only [quad, quadA, hi_eq]

theorem okPair_of_le (a b c : Rat) (h : a ≤ b) : okPair (compare a c) (compare b c) = true := by
  rcases lt_trichotomy a c with h1 | h1 | h1
  · rw [compare_lt_iff_lt.mpr h1]; rfl
  · subst h1
    rcases lt_or_eq_of_le h with h2 | h2
    · rw [compare_eq_iff_eq.mpr rfl, compare_gt_iff_gt.mpr h2]; rfl
    · subst h2; rw [compare_eq_iff_eq.mpr rfl]; rfl
  · rw [compare_gt_iff_gt.mpr h1, compare_gt_iff_gt.mpr (lt_of_lt_of_le h1 h)]; rfl

theorem mem_ords (o : Ordering) : o ∈ ords := by cases o <;> simp [ords]

theorem coversB_spec (s : Strict) (h : coversB s = true) (ox1 ox2 oy1 oy2 : Ordering)
    (hx : okPair ox1 ox2 = true) (hy : okPair oy1 oy2 = true) :
    ∃ k, quadA s k ox1 ox2 oy1 oy2 = true := by
  have h' := List.all_eq_true.mp (List.all_eq_true.mp (List.all_eq_true.mp (List.all_eq_true.mp h
    ox1 (mem_ords _)) ox2 (mem_ords _)) oy1 (mem_ords _)) oy2 (mem_ords _)
  simp only [hx, hy, Bool.and_self, Bool.not_true, Bool.false_or, Bool.or_eq_true] at h'
  rcases h' with ((h' | h') | h') | h'
  · exact ⟨0, h'⟩
  · exact ⟨1, h'⟩
  · exact ⟨2, h'⟩
  · exact ⟨3, h'⟩

/-- every box with `min ≤ max` belongs to at least one quadrant, for a covering strictness assignment -/
theorem some_quad (s : Strict) (hs : coversB s = true) (cx cy : Rat) (b : IBox) (hv : b.2.Valid) :
    ∃ k, quad s cx cy k b = true := by
  obtain ⟨k, hk⟩ := coversB_spec s hs _ _ _ _ (okPair_of_le b.2.x1 b.2.x2 cx hv.1) (okPair_of_le b.2.y1 b.2.y2 cy hv.2)
  exact ⟨k, by rw [quad_eq]; exact hk⟩

/-! ### the query -/

/-- nothing extra: holds for every strictness assignment and every box list -/
theorem query_sound (s : Strict) (center : List IBox → Rat × Rat) (q : Box) (bs : List IBox) (i : Nat)
    (hi : i ∈ query q (build s center bs)) : ∃ b, (i, b) ∈ bs ∧ overlaps q b = true := by
  fun_induction build s center bs with
  | case1 bs c s0 s1 s2 s3 h =>
    simp only [query, List.mem_map, List.mem_filter] at hi
    obtain ⟨⟨j, b⟩, ⟨hm, ho⟩, rfl⟩ := hi
    exact ⟨b, hm, ho⟩
  | case2 bs c s0 s1 s2 s3 h h0 h1 h2 h3 _ _ _ _ ih0 ih1 ih2 ih3 =>
    simp only [query, List.mem_append] at hi
    have key : ∀ (e : Option Box) (l : List IBox) (p : IBox → Bool),
        (i ∈ (if extentHit q e = true then query q (build s center (bs.filter p)) else [])) →
        (i ∈ query q (build s center (bs.filter p)) → ∃ b, (i, b) ∈ bs.filter p ∧ overlaps q b = true) →
        ∃ b, (i, b) ∈ bs ∧ overlaps q b = true := by
      intro e l p hk ihk
      split at hk
      · obtain ⟨b, hb, ho⟩ := ihk hk
        exact ⟨b, (List.mem_filter.mp hb).1, ho⟩
      · simp at hk
    rcases hi with ((hm | hm) | hm) | hm
    · exact key _ [] _ hm ih0
    · exact key _ [] _ hm ih1
    · exact key _ [] _ hm ih2
    · exact key _ [] _ hm ih3

/-- nothing missed: needs the covering condition and `min ≤ max` -/
theorem query_complete (s : Strict) (hs : coversB s = true) (center : List IBox → Rat × Rat) (q : Box)
    (bs : List IBox) (hv : ∀ b ∈ bs, b.2.Valid) (i : Nat) (b : Box) (hb : (i, b) ∈ bs)
    (ho : overlaps q b = true) : i ∈ query q (build s center bs) := by
  fun_induction build s center bs with
  | case1 bs c s0 s1 s2 s3 h =>
    simp only [query, List.mem_map, List.mem_filter]
    exact ⟨(i, b), ⟨hb, ho⟩, rfl⟩
  | case2 bs c s0 s1 s2 s3 h h0 h1 h2 h3 _ _ _ _ ih0 ih1 ih2 ih3 =>
    simp only [query, List.mem_append]
    have step : ∀ k : Fin 4, quad s c.1 c.2 k (i, b) = true →
        ((∀ b ∈ bs.filter (quad s c.1 c.2 k), b.2.Valid) → (i, b) ∈ bs.filter (quad s c.1 c.2 k) →
          i ∈ query q (build s center (bs.filter (quad s c.1 c.2 k)))) →
        i ∈ (if extentHit q (extent (bs.filter (quad s c.1 c.2 k))) = true
              then query q (build s center (bs.filter (quad s c.1 c.2 k))) else []) := by
      intro k hk ihk
      have hmem : (i, b) ∈ bs.filter (quad s c.1 c.2 k) := List.mem_filter.mpr ⟨hb, hk⟩
      rw [if_pos (extentHit_of_mem q _ (i, b) hmem ho)]
      exact ihk (fun b' hb' => hv b' (List.mem_filter.mp hb').1) hmem
    obtain ⟨k, hk⟩ := some_quad s hs c.1 c.2 (i, b) (hv _ hb)
    match k, hk with
    | 0, hk => exact Or.inl (Or.inl (Or.inl (step 0 hk ih0)))
    | 1, hk => exact Or.inl (Or.inl (Or.inr (step 1 hk ih1)))
    | 2, hk => exact Or.inl (Or.inr (step 2 hk ih2))
    | 3, hk => exact Or.inr (step 3 hk ih3)

theorem mem_bruteForce (q : Box) (bs : List IBox) (i : Nat) :
    i ∈ bruteForce q bs ↔ ∃ b, (i, b) ∈ bs ∧ overlaps q b = true := by
  simp only [bruteForce, List.mem_map, List.mem_filter, Bool.and_eq_true, decide_eq_true_eq]
  constructor
  · rintro ⟨⟨j, b⟩, ⟨hm, ⟨⟨h1, h2⟩, h3⟩, h4⟩, rfl⟩
    exact ⟨b, hm, (overlaps_iff q b).mpr ⟨h2, h4, h1, h3⟩⟩
  · rintro ⟨b, hm, ho⟩
    obtain ⟨h1, h2, h3, h4⟩ := (overlaps_iff q b).mp ho
    exact ⟨(i, b), ⟨hm, ⟨⟨h3, h1⟩, h4⟩, h2⟩, rfl⟩

theorem depth_le (s : Strict) (center : List IBox → Rat × Rat) (bs : List IBox) :
    (build s center bs).depth ≤ bs.length := by
  fun_induction build s center bs with
  | case1 bs c s0 s1 s2 s3 h => simp [Tree.depth]
  | case2 bs c s0 s1 s2 s3 h h0 h1 h2 h3 l0 l1 l2 l3 ih0 ih1 ih2 ih3 =>
    simp only [Tree.depth]
    omega

end C14
end Plotink
