import Plotink.Proofs.C19Str

/-! Helper lemmas for C19 (port discovery). -/
namespace Plotink
namespace C19

/-- the `SER=` tag value of a hardware string of the `SER=… LOCAT` shape -/
def serTag (p : Port) : Option Str :=
  if isInfixB serK p.hwid && isInfixB locatK p.hwid then some (serSlice p.hwid) else none

/-! ### loops as `find?` / `filter` -/

theorem firstBy_eq (f : Port → Bool) (ps : List Port) : firstBy f ps = (ps.find? f).map (·.dev) := by
  induction ps with
  | nil => rfl
  | cons p ps ih =>
    simp only [firstBy, List.find?_cons]
    cases hf : f p <;> simp [ih]

theorem listLoop_eq (ps : List Port) : listLoop ps = ps.filter (fun p => descMatch p || idMatch p) := by
  induction ps with
  | nil => rfl
  | cons p ps ih =>
    simp only [listLoop, List.filter_cons]
    cases h1 : descMatch p <;> cases h2 : idMatch p <;> simp [ih]

theorem findLoop3_eq (k : Str) (ps : List Port) :
    Ebb3.findLoop (lower (serK ++ k)) (lower ('(' :: k ++ [')'])) (lower k) ps =
      (ps.find? (matches3B k)).map (·.dev) := by
  induction ps with
  | nil => rfl
  | cons p ps ih =>
    simp only [Ebb3.findLoop, List.find?_cons, matches3B]
    cases h1 : isInfixB (lower (serK ++ k)) (lower p.hwid) <;>
    cases h2 : isInfixB (lower ('(' :: k ++ [')'])) (lower p.desc) <;>
    cases h3 : (lower k).isPrefixOf ((lower p.desc).drop 11) <;>
    cases h4 : (lower k).isPrefixOf (lower p.dev) <;> first | (simp; done) | (simp; exact ih)

theorem findLoopL_eq (k : Str) (ps : List Port) :
    Legacy.findLoop (lower (serK ++ k)) (lower (snrK ++ k)) (lower ('(' :: k ++ [')'])) (lower k) ps =
      (ps.find? (matchesLB k)).map (·.dev) := by
  induction ps with
  | nil => rfl
  | cons p ps ih =>
    simp only [Legacy.findLoop, List.find?_cons, matchesLB, matches3B]
    cases h1 : isInfixB (lower (serK ++ k)) (lower p.hwid) <;>
    cases h2 : isInfixB (lower ('(' :: k ++ [')'])) (lower p.desc) <;>
    cases h3 : (lower k).isPrefixOf ((lower p.desc).drop 11) <;>
    cases h4 : (lower k).isPrefixOf (lower p.dev) <;>
    cases h5 : isInfixB (lower (snrK ++ k)) (lower p.hwid) <;> first | (simp; done) | (simp; exact ih)

theorem matches3B_iff (k : Str) (q : Port) : matches3B k q = true ↔ Matches3 k q := by
  simp only [matches3B, Matches3, Bool.or_eq_true, isInfixB_iff, List.isPrefixOf_iff_prefix, or_assoc]

theorem matchesLB_iff (k : Str) (q : Port) : matchesLB k q = true ↔ MatchesL k q := by
  simp only [matchesLB, MatchesL, Bool.or_eq_true, matches3B_iff, isInfixB_iff]

/-! ### a key derived from a port matches that port -/

theorem matches3_of_dev (key : Str) (p : Port) (h : lower key = lower p.dev) : Matches3 key p :=
  Or.inr (Or.inr (Or.inr (h ▸ List.prefix_refl _)))

theorem matches3_of_descName (key t : Str) (p : Port) (h1 : descName p = some t) (hk : lower key = lower t) :
    Matches3 key p := by
  have ht : t = p.desc.drop 11 := by
    simp only [descName] at h1
    split at h1
    · split at h1
      · exact (Option.some.inj h1).symm
      · cases h1
    · cases h1
  refine Or.inr (Or.inr (Or.inl ?_))
  rw [hk, ht, lower_drop]

theorem matches3_of_serSlice (key : Str) (p : Port) (hs : isInfixB serK p.hwid = true)
    (hk : lower key = lower (serSlice p.hwid)) : Matches3 key p := by
  obtain ⟨a, c, hh⟩ := serSlice_spec p.hwid hs
  refine Or.inl ?_
  rw [lower_append, hk, ← lower_append]
  apply lower_infix
  exact ⟨a, c, by simpa [List.append_assoc] using hh.symm⟩

theorem serName_some (p : Port) (t : Str) (h : serName p = some t) :
    isInfixB serK p.hwid = true ∧ t = serSlice p.hwid := by
  simp only [serName] at h
  split at h
  · rename_i hc
    split at h
    · cases h
    · exact ⟨(Bool.and_eq_true _ _ ▸ hc).1, (Option.some.inj h).symm⟩
  · cases h

theorem serTag_some (p : Port) (t : Str) (h : serTag p = some t) :
    isInfixB serK p.hwid = true ∧ t = serSlice p.hwid := by
  simp only [serTag] at h
  split at h
  · rename_i hc
    exact ⟨(Bool.and_eq_true _ _ ▸ hc).1, (Option.some.inj h).symm⟩
  · cases h

theorem matchesL_of_snrName (key t : Str) (p : Port) (h : snrName p = some t) (hk : lower key = lower t) :
    MatchesL key p := by
  simp only [snrName] at h
  split at h
  · rename_i hc
    obtain ⟨i, hi⟩ := findIdx_isSome snrK p.hwid hc
    simp only [hi] at h
    split at h
    · cases h
    · have ht : t = p.hwid.drop (i + 4) := (Option.some.inj h).symm
      obtain ⟨a, ha⟩ := snrTail_spec p.hwid i hi
      refine Or.inr ?_
      rw [lower_append, hk, ← lower_append]
      apply lower_infix
      exact ⟨a, [], by rw [ht]; simpa using ha.symm⟩
  · cases h

theorem matches3_of_name (key : Str) (p : Port) (hk : lower key = lower (Ebb3.nameOf p)) : Matches3 key p := by
  unfold Ebb3.nameOf at hk
  split at hk
  · rename_i t ht; exact matches3_of_descName key t p ht hk
  · split at hk
    · rename_i t ht
      obtain ⟨hs, rfl⟩ := serName_some p t ht
      exact matches3_of_serSlice key p hs hk
    · exact matches3_of_dev key p hk

theorem matchesL_of_name (key : Str) (p : Port) (hk : lower key = lower (Legacy.nameOf p)) : MatchesL key p := by
  unfold Legacy.nameOf at hk
  split at hk
  · rename_i t ht; exact Or.inl (matches3_of_descName key t p ht hk)
  · split at hk
    · rename_i t ht
      obtain ⟨hs, rfl⟩ := serName_some p t ht
      exact Or.inl (matches3_of_serSlice key p hs hk)
    · split at hk
      · rename_i t ht; exact matchesL_of_snrName key t p ht hk
      · exact Or.inl (matches3_of_dev key p hk)

/-! ### first match in a list -/

theorem find?_first (f : Port → Bool) (pre post : List Port) (p : Port)
    (hpre : ∀ q ∈ pre, f q = false) (hp : f p = true) : (pre ++ p :: post).find? f = some p := by
  induction pre with
  | nil => simp [hp]
  | cons q pre ih =>
    have hq := hpre q (List.mem_cons_self)
    simp only [List.cons_append, List.find?_cons, hq]
    exact ih (fun r hr => hpre r (List.mem_cons_of_mem _ hr))

theorem find?_split (f : Port → Bool) (l : List Port) (p : Port) (h : l.find? f = some p) :
    ∃ pre post, l = pre ++ p :: post ∧ f p = true ∧ ∀ q ∈ pre, f q = false := by
  induction l with
  | nil => simp at h
  | cons a t ih =>
    simp only [List.find?_cons] at h
    cases hfa : f a with
    | true =>
      simp only [hfa] at h
      cases h
      exact ⟨[], t, rfl, hfa, by simp⟩
    | false =>
      simp only [hfa] at h
      obtain ⟨pre, post, ht, hp, hq⟩ := ih h
      refine ⟨a :: pre, post, by simp [ht], hp, ?_⟩
      intro q hq'
      rcases List.mem_cons.mp hq' with rfl | hm
      · exact hfa
      · exact hq q hm

theorem find?_congr' (f g : Port → Bool) (l : List Port) (h : ∀ x ∈ l, f x = g x) : l.find? f = l.find? g := by
  induction l with
  | nil => rfl
  | cons a t ih =>
    simp only [List.find?_cons, h a List.mem_cons_self]
    rw [ih (fun x hx => h x (List.mem_cons_of_mem _ hx))]

theorem snrName_none (p : Port) (h : isInfixB snrK p.hwid = false) : snrName p = none := by
  simp [snrName, h]

end C19
end Plotink
