import Plotink.Gen.rtree_Index
import Plotink.Proofs.PyLemmas
import Plotink.Proofs.PyEnc
import Plotink.Proofs.C14

/-! # C14 — bridge: the source-regenerated class `rtree.Index` = the hand model `C14.build` / `C14.query`

`Gen.rtree_Index_init` (`__init__`: one loop, four list comprehensions, `max(map(len, …))`, the recursive
`[Index(sub) for sub in sub_bboxes]`) and `Gen.rtree_Index_intersection` (two loops, a set, the recursive call on the
subtrees) are regenerated from `plotink/rtree.py` on every run; recursion runs on fuel (`…_body` + wrapper).
An instance is the tuple `("Index", bboxes, subtrees, xmin, ymin, xmax, ymax)` (`encTree`); `math.inf` is a sentinel
of the extended comparisons; a set is a duplicate-free list (`encSet`).  Exact arithmetic, all-`float` coordinates.

* `ext_update`, `nbody1`, `nloop1` — the `for` loop of `__init__` is the model's running mean (`meanCenter id`) and
  `extent`; `comp_filter` + `quad_lemma` — the comprehensions are `List.filter (quad Strict.none …)`; `max_lens`;
  `init_step`, `init_bridge` (strong induction on the number of boxes, the recursion of `C14.build`);
* `ibody1`/`iloop1` (leaf), `ibody2` (subtree, pruning test against `±inf` extents), `intersection_bridge`
  (induction on the tree); `mem_qset`, `nodup_qset` — the returned id set has exactly the members of `C14.query`. -/

namespace Plotink
namespace C14
open Py Py.Val
set_option linter.unusedSimpArgs false
set_option linter.unusedVariables false

/-! ### encodings (all-`float` coordinates, `int` ids) -/
def encBox (b : Box) : Val := .tup [.flt b.x1, .flt b.y1, .flt b.x2, .flt b.y2]
def encIBox (b : IBox) : Val := .tup [.int (b.1 : Int), encBox b.2]
def encIBoxes (bs : List IBox) : Val := .tup (bs.map encIBox)

/-- the four extent attributes `xmin ymin xmax ymax`; `none` = the start values `inf, inf, -inf, -inf` -/
def extVals : Option Box → List Val
  | none => [Py.posInf, Py.posInf, Py.negInf, Py.negInf]
  | some e => [.flt e.x1, .flt e.y1, .flt e.x2, .flt e.y2]

/-- an `Index` instance: `("Index", bboxes, subtrees, xmin, ymin, xmax, ymax)`; `own` = the extent of the node's own
box list (the model's `Tree` keeps the extents of the four children in the parent) -/
def encTree : Option Box → Tree → Val
  | own, .leaf bs => .tup ([.str "Index", encIBoxes bs, .tup []] ++ extVals own)
  | own, .node e0 e1 e2 e3 t0 t1 t2 t3 =>
    .tup ([.str "Index", .tup [], .tup [encTree e0 t0, encTree e1 t1, encTree e2 t2, encTree e3 t3]] ++ extVals own)

/-! ### the extended comparisons on floats and the infinity sentinels -/
theorem infSign_flt (q : Rat) : Py.infSign (.flt q) = 0 := rfl
theorem infSign_int (z : Int) : Py.infSign (.int z) = 0 := rfl
theorem infSign_pos : Py.infSign Py.posInf = 1 := by decide
theorem infSign_neg : Py.infSign Py.negInf = -1 := by decide

theorem leE_flt (a b : Rat) : Py.leE (.flt a) (.flt b) = decide (a ≤ b) := rfl
theorem geE_flt (a b : Rat) : Py.geE (.flt a) (.flt b) = decide (a ≥ b) := rfl
theorem ltE_flt (a b : Rat) : Py.ltE (.flt a) (.flt b) = decide (a < b) := rfl
theorem gtE_flt (a b : Rat) : Py.gtE (.flt a) (.flt b) = decide (a > b) := rfl
theorem gtE_flt_negInf (a : Rat) : Py.gtE (.flt a) Py.negInf = true := by
  simp [Py.gtE, infSign_flt, infSign_neg]
theorem ltE_flt_posInf (a : Rat) : Py.ltE (.flt a) Py.posInf = true := by
  simp [Py.ltE, infSign_flt, infSign_pos]


/-! ### sets of ids as duplicate-free lists -/
def sadd (l : List Nat) (i : Nat) : List Nat := if l.any (fun v => decide (i = v)) then l else l ++ [i]
def sunion (a b : List Nat) : List Nat := a ++ b.filter (fun v => !(a.any (fun w => decide (v = w))))
def encId (i : Nat) : Val := .int (i : Int)
def encSet (l : List Nat) : Val := .tup (l.map encId)

theorem eq_int_nat (a b : Nat) : Py.eq (.int (a : Int)) (.int (b : Int)) = decide (a = b) := by
  simp [Py.eq, Py.num]

theorem any_encSet (l : List Nat) (i : Nat) :
    (l.map encId).any (fun v => Py.eq (.int (i : Int)) v) = l.any (fun v => decide (i = v)) := by
  induction l with
  | nil => rfl
  | cons x xs ih => simp only [List.map_cons, List.any_cons, ih, encId, eq_int_nat]

theorem set_add_enc (l : List Nat) (i : Nat) : Py.set_add (encSet l) (.int (i : Int)) = encSet (sadd l i) := by
  unfold Py.set_add encSet sadd
  simp only [any_encSet]
  by_cases h : l.any (fun v => decide (i = v)) = true
  · simp only [h, if_true]
  · simp only [h, Bool.false_eq_true, if_false, List.map_append, List.map_cons, List.map_nil]
    rfl

theorem bitor_enc (a b : List Nat) : Py.bitor (encSet a) (encSet b) = encSet (sunion a b) := by
  show Val.tup _ = _
  unfold encSet sunion
  congr 1
  rw [List.map_append, List.filter_map]
  congr 2
  apply List.filter_congr
  intro v _
  simp only [Function.comp, encId, any_encSet]

theorem mem_sadd (l : List Nat) (i j : Nat) : j ∈ sadd l i ↔ j ∈ l ∨ j = i := by
  unfold sadd
  by_cases h : l.any (fun v => decide (i = v)) = true
  · rw [if_pos h]
    simp only [List.any_eq_true, decide_eq_true_eq] at h
    obtain ⟨v, hv, rfl⟩ := h
    constructor
    · exact Or.inl
    · rintro (h | rfl)
      · exact h
      · exact hv
  · rw [if_neg h]; simp
theorem mem_sunion (a b : List Nat) (j : Nat) : j ∈ sunion a b ↔ j ∈ a ∨ j ∈ b := by
  unfold sunion
  simp only [List.mem_append, List.mem_filter, Bool.not_eq_true', List.any_eq_false, decide_eq_true_eq]
  constructor
  · rintro (h | ⟨h, _⟩)
    · exact Or.inl h
    · exact Or.inr h
  · rintro (h | h)
    · exact Or.inl h
    · by_cases ha : j ∈ a
      · exact Or.inl ha
      · exact Or.inr ⟨h, fun x hx e => ha (e ▸ hx)⟩


/-! ### `intersection` -/

/-- ids collected by the loop over a leaf's boxes, started from `acc` -/
def leafFold (q : Box) (bs : List IBox) (acc : List Nat) : List Nat :=
  bs.foldl (fun acc b => if overlaps q b.2 then sadd acc b.1 else acc) acc

/-- the id set `intersection` returns (insertion order, no duplicates) -/
def qset (q : Box) : Tree → List Nat
  | .leaf bs => leafFold q bs []
  | .node e0 e1 e2 e3 t0 t1 t2 t3 =>
    let a := if extentHit q e0 then sunion [] (qset q t0) else []
    let a := if extentHit q e1 then sunion a (qset q t1) else a
    let a := if extentHit q e2 then sunion a (qset q t2) else a
    let a := if extentHit q e3 then sunion a (qset q t3) else a
    a

abbrev KI1 := Val → Val → Val → Val → Val → Val → Val → Loop (Val × Val × Val × Val × Val × Val × Val)
abbrev KI2 := Val → Val → Val → Loop (Val × Val × Val)

theorem ibody1 (amb : Nat) (q : Box) (rec_ : Val → Val → Out) (k : KI1) (b : IBox) (j0 j1 j2 j3 j4 j5 : Val) (l : List Nat) :
    Gen.rtree_Index_intersection_body1 Rounding.exact amb (.flt q.x1) (.flt q.y1) (.flt q.x2) (.flt q.y2) rec_ k
      (encIBox b) j0 j1 j2 j3 j4 j5 (encSet l) =
    k (.int (b.1 : Int)) (.flt b.2.x1) (.flt b.2.y1) (.flt b.2.x2) (.flt b.2.y2) (.bool_ (!(overlaps q b.2)))
      (encSet (if overlaps q b.2 then sadd l b.1 else l)) := by
  unfold Gen.rtree_Index_intersection_body1 encIBox encBox
  simp only [Py.unpackN_tup2, Py.getItem_cons_zero, Py.getItem_cons_succ, Py.unpackN, List.length_cons, List.length_nil,
    if_true, gtE_flt, ltE_flt, Py.truthy]
  have ho : overlaps q b.2 = !(decide (q.x1 > b.2.x2) || decide (q.y1 > b.2.y2) || decide (q.x2 < b.2.x1) || decide (q.y2 < b.2.y1)) := rfl
  rw [ho]
  cases hd : (decide (q.x1 > b.2.x2) || decide (q.y1 > b.2.y2) || decide (q.x2 < b.2.x1) || decide (q.y2 < b.2.y1))
  · simp only [Bool.not_false, if_true, set_add_enc, Bool.not_true]
  · simp only [Bool.not_true, Bool.false_eq_true, if_false, Bool.not_false]

theorem iloop1 (amb : Nat) (q : Box) (rec_ : Val → Val → Out) : ∀ (bs : List IBox) (j0 j1 j2 j3 j4 j5 : Val) (l : List Nat),
    ∃ k0 k1 k2 k3 k4 k5, Gen.rtree_Index_intersection_loop1 Rounding.exact amb (.flt q.x1) (.flt q.y1) (.flt q.x2) (.flt q.y2) rec_
      (bs.map encIBox) j0 j1 j2 j3 j4 j5 (encSet l) = .done (k0, k1, k2, k3, k4, k5, encSet (leafFold q bs l)) := by
  intro bs
  induction bs with
  | nil => intro j0 j1 j2 j3 j4 j5 l; exact ⟨_, _, _, _, _, _, rfl⟩
  | cons b bs ih =>
    intro j0 j1 j2 j3 j4 j5 l
    rw [List.map_cons, Gen.rtree_Index_intersection_loop1, ibody1]
    exact ih _ _ _ _ _ _ _


theorem hit_vals (q : Box) (e : Option Box) :
    (Py.gtE (.flt q.x1) ((extVals e).getD 2 .err) || Py.gtE (.flt q.y1) ((extVals e).getD 3 .err) ||
      Py.ltE (.flt q.x2) ((extVals e).getD 0 .err) || Py.ltE (.flt q.y2) ((extVals e).getD 1 .err)) = !(extentHit q e) := by
  cases e with
  | none => simp [extVals, extentHit, gtE_flt_negInf]
  | some e => simp [extVals, extentHit, gtE_flt, ltE_flt]

theorem tree_field5 (own : Option Box) (t : Tree) : Py.getItem (encTree own t) 5 = (extVals own).getD 2 .err := by
  cases t <;> cases own <;> rfl
theorem tree_field6 (own : Option Box) (t : Tree) : Py.getItem (encTree own t) 6 = (extVals own).getD 3 .err := by
  cases t <;> cases own <;> rfl
theorem tree_field3 (own : Option Box) (t : Tree) : Py.getItem (encTree own t) 3 = (extVals own).getD 0 .err := by
  cases t <;> cases own <;> rfl
theorem tree_field4 (own : Option Box) (t : Tree) : Py.getItem (encTree own t) 4 = (extVals own).getD 1 .err := by
  cases t <;> cases own <;> rfl

/-- one pass of the loop over the subtrees, given what the recursive call returns -/
theorem ibody2 (amb : Nat) (q : Box) (rec_ : Val → Val → Out) (k : KI2) (e : Option Box) (t : Tree) (j0 j1 : Val)
    (l r : List Nat) (hrec : rec_ (encTree e t) (encBox q) = .val (encSet r)) :
    Gen.rtree_Index_intersection_body2 Rounding.exact amb (encBox q) (.flt q.x1) (.flt q.y1) (.flt q.x2) (.flt q.y2) rec_ k
      (encTree e t) j0 j1 (encSet l) =
    k (encTree e t) (.bool_ (!(extentHit q e))) (encSet (if extentHit q e then sunion l r else l)) := by
  unfold Gen.rtree_Index_intersection_body2
  simp only [tree_field3, tree_field4, tree_field5, tree_field6, hit_vals, Py.truthy, hrec]
  cases extentHit q e
  · simp only [Bool.not_false, Bool.not_true, Bool.false_eq_true, if_false]
  · simp only [Bool.not_true, Bool.not_false, if_true, bitor_enc]

/-- **bridge** (query): the regenerated `intersection` on the encoded tree returns the id set `qset q t`, for every
fuel above the depth of the tree -/
theorem intersection_bridge (amb : Nat) (q : Box) : ∀ (t : Tree) (own : Option Box) (fuel : Nat), t.depth < fuel →
    Gen.rtree_Index_intersection Rounding.exact amb fuel (encTree own t) (encBox q) = .val (encSet (qset q t)) := by
  intro t
  induction t with
  | leaf bs =>
    intro own fuel hf
    obtain ⟨f, rfl⟩ : ∃ f, fuel = f + 1 := ⟨fuel - 1, by omega⟩
    rw [Gen.rtree_Index_intersection]
    unfold Gen.rtree_Index_intersection_body
    have hb : Py.getItem (encTree own (.leaf bs)) 1 = encIBoxes bs := by cases own <;> rfl
    have hs : Py.getItem (encTree own (.leaf bs)) 2 = .tup [] := by cases own <;> rfl
    simp only [Py.unpackN_tup2, Py.getItem_cons_zero, Py.getItem_cons_succ, hb, hs, encIBoxes, Py.iter, encBox, Py.unpackN,
      List.length_cons, List.length_nil, if_true]
    obtain ⟨k0, k1, k2, k3, k4, k5, hl⟩ := iloop1 amb q (Gen.rtree_Index_intersection Rounding.exact amb f) bs
      .err .err .err .err .err .err []
    rw [show (Val.tup []) = encSet [] from rfl, hl]
    rfl
  | node e0 e1 e2 e3 t0 t1 t2 t3 ih0 ih1 ih2 ih3 =>
    intro own fuel hf
    obtain ⟨f, rfl⟩ : ∃ f, fuel = f + 1 := ⟨fuel - 1, by omega⟩
    simp only [Tree.depth] at hf
    have r0 := ih0 e0 f (by omega)
    have r1 := ih1 e1 f (by omega)
    have r2 := ih2 e2 f (by omega)
    have r3 := ih3 e3 f (by omega)
    rw [Gen.rtree_Index_intersection]
    unfold Gen.rtree_Index_intersection_body
    have hb : Py.getItem (encTree own (.node e0 e1 e2 e3 t0 t1 t2 t3)) 1 = .tup [] := by cases own <;> rfl
    have hs : Py.getItem (encTree own (.node e0 e1 e2 e3 t0 t1 t2 t3)) 2
        = .tup [encTree e0 t0, encTree e1 t1, encTree e2 t2, encTree e3 t3] := by cases own <;> rfl
    simp only [Py.unpackN_tup2, Py.getItem_cons_zero, Py.getItem_cons_succ, hb, hs, Py.iter, encBox, Py.unpackN,
      List.length_cons, List.length_nil, if_true, Gen.rtree_Index_intersection_loop1,
      Gen.rtree_Index_intersection_loop2]
    rw [show (Val.tup []) = encSet [] from rfl]
    rw [show Val.tup [Val.flt q.x1, Val.flt q.y1, Val.flt q.x2, Val.flt q.y2] = encBox q from rfl] at *
    rw [ibody2 amb q _ _ e0 t0 _ _ [] _ r0, ibody2 amb q _ _ e1 t1 _ _ _ _ r1, ibody2 amb q _ _ e2 t2 _ _ _ _ r2,
      ibody2 amb q _ _ e3 t3 _ _ _ _ r3]
    rfl


theorem mem_leafFold (q : Box) (bs : List IBox) (acc : List Nat) (i : Nat) :
    i ∈ leafFold q bs acc ↔ i ∈ acc ∨ i ∈ (bs.filter (fun b => overlaps q b.2)).map (·.1) := by
  unfold leafFold
  induction bs generalizing acc with
  | nil => simp
  | cons b bs ih =>
    rw [List.foldl_cons, ih]
    by_cases ho : overlaps q b.2 = true
    · simp only [ho, if_true, mem_sadd, List.filter_cons_of_pos, List.map_cons, List.mem_cons]
      tauto
    · simp only [ho, Bool.false_eq_true, if_false, List.filter_cons_of_neg, not_false_eq_true]

/-- the id set of the regenerated `intersection` has exactly the members of the model's `query` list -/
theorem mem_qset (q : Box) (t : Tree) (i : Nat) : i ∈ qset q t ↔ i ∈ query q t := by
  induction t with
  | leaf bs => simp only [qset, query, mem_leafFold, List.not_mem_nil, false_or]
  | node e0 e1 e2 e3 t0 t1 t2 t3 ih0 ih1 ih2 ih3 =>
    simp only [qset, query, List.mem_append]
    by_cases h0 : extentHit q e0 = true <;> by_cases h1 : extentHit q e1 = true <;>
      by_cases h2 : extentHit q e2 = true <;> by_cases h3 : extentHit q e3 = true <;>
      simp [h0, h1, h2, h3, mem_sunion, ih0, ih1, ih2, ih3, or_assoc]


/-! ### `__init__` -/

/-- an instance under construction: `("Index", bboxes, subtrees, xmin, ymin, xmax, ymax)` -/
def inst (bb st : Val) (e : Option Box) : Val := .tup ([.str "Index", bb, st] ++ extVals e)

theorem min_step (a x : Rat) : (if Py.ltE (.flt x) (.flt a) = true then Val.flt x else Val.flt a) = Val.flt (min a x) := by
  rw [ltE_flt]
  by_cases h : x < a
  · simp only [h, decide_true, if_true]; rw [min_eq_right (le_of_lt h)]
  · simp only [h, decide_false, Bool.false_eq_true, if_false]; rw [min_eq_left (not_lt.mp h)]
theorem max_step (a x : Rat) : (if Py.gtE (.flt x) (.flt a) = true then Val.flt x else Val.flt a) = Val.flt (max a x) := by
  rw [gtE_flt]
  by_cases h : x > a
  · simp only [h, decide_true, if_true]; rw [max_eq_right (le_of_lt h)]
  · simp only [h, decide_false, Bool.false_eq_true, if_false]; rw [max_eq_left (not_lt.mp h)]

section fields
variable (a0 a1 a2 a3 a4 a5 a6 v : Val)
theorem getF1 : Py.getItem (.tup [a0, a1, a2, a3, a4, a5, a6]) 1 = a1 := rfl
theorem getF2 : Py.getItem (.tup [a0, a1, a2, a3, a4, a5, a6]) 2 = a2 := rfl
theorem getF3 : Py.getItem (.tup [a0, a1, a2, a3, a4, a5, a6]) 3 = a3 := rfl
theorem getF4 : Py.getItem (.tup [a0, a1, a2, a3, a4, a5, a6]) 4 = a4 := rfl
theorem getF5 : Py.getItem (.tup [a0, a1, a2, a3, a4, a5, a6]) 5 = a5 := rfl
theorem getF6 : Py.getItem (.tup [a0, a1, a2, a3, a4, a5, a6]) 6 = a6 := rfl
theorem setF1 : Py.setField (.tup [a0, a1, a2, a3, a4, a5, a6]) 1 v = .tup [a0, v, a2, a3, a4, a5, a6] := rfl
theorem setF2 : Py.setField (.tup [a0, a1, a2, a3, a4, a5, a6]) 2 v = .tup [a0, a1, v, a3, a4, a5, a6] := rfl
theorem setF3 : Py.setField (.tup [a0, a1, a2, a3, a4, a5, a6]) 3 v = .tup [a0, a1, a2, v, a4, a5, a6] := rfl
theorem setF4 : Py.setField (.tup [a0, a1, a2, a3, a4, a5, a6]) 4 v = .tup [a0, a1, a2, a3, v, a5, a6] := rfl
theorem setF5 : Py.setField (.tup [a0, a1, a2, a3, a4, a5, a6]) 5 v = .tup [a0, a1, a2, a3, a4, v, a6] := rfl
theorem setF6 : Py.setField (.tup [a0, a1, a2, a3, a4, a5, a6]) 6 v = .tup [a0, a1, a2, a3, a4, a5, v] := rfl
end fields
theorem minE2 (a x : Val) : Py.minE [a, x] = if Py.ltE x a = true then x else a := rfl
theorem maxE2 (a x : Val) : Py.maxE [a, x] = if Py.gtE x a = true then x else a := rfl
theorem inst_none (bb st : Val) : inst bb st none = .tup [.str "Index", bb, st, Py.posInf, Py.posInf, Py.negInf, Py.negInf] := rfl
theorem inst_some (bb st : Val) (e : Box) :
    inst bb st (some e) = .tup [.str "Index", bb, st, .flt e.x1, .flt e.y1, .flt e.x2, .flt e.y2] := rfl

/-- the four `self.xmin = min(self.xmin, xmin)` … updates are the model's `extStep` -/
theorem ext_update (bb st : Val) (e : Option Box) (b : IBox) :
    Py.setField (Py.setField (Py.setField (Py.setField (inst bb st e) 3 (Py.minE [Py.getItem (inst bb st e) 3, .flt b.2.x1]))
      4 (Py.minE [Py.getItem (Py.setField (inst bb st e) 3 (Py.minE [Py.getItem (inst bb st e) 3, .flt b.2.x1])) 4, .flt b.2.y1]))
      5 (Py.maxE [Py.getItem (Py.setField (Py.setField (inst bb st e) 3 (Py.minE [Py.getItem (inst bb st e) 3, .flt b.2.x1]))
      4 (Py.minE [Py.getItem (Py.setField (inst bb st e) 3 (Py.minE [Py.getItem (inst bb st e) 3, .flt b.2.x1])) 4, .flt b.2.y1])) 5, .flt b.2.x2]))
      6 (Py.maxE [Py.getItem (Py.setField (Py.setField (Py.setField (inst bb st e) 3 (Py.minE [Py.getItem (inst bb st e) 3, .flt b.2.x1]))
      4 (Py.minE [Py.getItem (Py.setField (inst bb st e) 3 (Py.minE [Py.getItem (inst bb st e) 3, .flt b.2.x1])) 4, .flt b.2.y1]))
      5 (Py.maxE [Py.getItem (Py.setField (Py.setField (inst bb st e) 3 (Py.minE [Py.getItem (inst bb st e) 3, .flt b.2.x1]))
      4 (Py.minE [Py.getItem (Py.setField (inst bb st e) 3 (Py.minE [Py.getItem (inst bb st e) 3, .flt b.2.x1])) 4, .flt b.2.y1])) 5, .flt b.2.x2])) 6, .flt b.2.y2])
      = inst bb st (extStep e b) := by
  cases e with
  | none =>
    simp only [inst_none, getF3, getF4, getF5, getF6, setF3, setF4, setF5, setF6, minE2, maxE2, ltE_flt_posInf,
      gtE_flt_negInf, if_true, extStep, inst_some]
  | some e =>
    simp only [inst_some, getF3, getF4, getF5, getF6, setF3, setF4, setF5, setF6, minE2, maxE2, min_step, max_step,
      extStep]

theorem add_ff (p : Nat) (a b : Rat) : Py.add Rounding.exact p (.flt a) (.flt b) = .flt (a + b) := rfl
theorem add_num_flt (p : Nat) (cv : Val) (c t : Rat) (h : IsNum cv c) :
    Py.add Rounding.exact p cv (.flt t) = .flt (c + t) := by
  rcases h with rfl | ⟨z, rfl, rfl⟩ <;> rfl
theorem half_flt (p : Nat) (x : Rat) : Py.truediv Rounding.exact p (.flt x) (.int 2) = .flt (x / 2) := by
  simp [Py.truediv, Py.num, Py.join, Py.kind, Py.pack, Rounding.exact]
theorem div_len (p : Nat) (s : Rat) (n : Nat) (hn : n ≠ 0) :
    Py.truediv Rounding.exact p (.flt s) (.int (n : Int)) = .flt (s / (n : Rat)) := by
  have : ((n : Int) : Rat) ≠ 0 := by exact_mod_cast hn
  simp [Py.truediv, Py.num, Py.join, Py.kind, Py.pack, Rounding.exact, this, hn]
theorem len_iboxes (bs : List IBox) : Py.len_ (encIBoxes bs) = .int (bs.length : Int) := by
  simp [encIBoxes, Py.len_]

/-- one step of the running mean (`meanCenter id`) -/
def meanStep (n : Rat) (c : Rat × Rat) (b : IBox) : Rat × Rat :=
  (c.1 + (b.2.x1 / 2 + b.2.x2 / 2) / n, c.2 + (b.2.y1 / 2 + b.2.y2 / 2) / n)

abbrev KN1 := Val → Val → Val → Val → Val → Val → Val → Val → Loop (Val × Val × Val × Val × Val × Val × Val × Val)

theorem nbody1 (amb : Nat) (bs0 : List IBox) (hn : bs0.length ≠ 0) (rec_ : Val → Out) (k : KN1) (b : IBox)
    (j0 j1 j2 j3 j4 cxv cyv bb st : Val) (c : Rat × Rat) (e : Option Box) (hx : IsNum cxv c.1) (hy : IsNum cyv c.2) :
    Gen.rtree_Index_init_body1 Rounding.exact amb (encIBoxes bs0) rec_ k (encIBox b) j0 j1 j2 j3 j4 cxv cyv (inst bb st e) =
    k (.int (b.1 : Int)) (.flt b.2.x1) (.flt b.2.y1) (.flt b.2.x2) (.flt b.2.y2)
      (.flt (meanStep (bs0.length : Rat) c b).1) (.flt (meanStep (bs0.length : Rat) c b).2) (inst bb st (extStep e b)) := by
  unfold Gen.rtree_Index_init_body1 encIBox encBox
  simp only [Py.unpackN_tup2, Py.getItem_cons_zero, Py.getItem_cons_succ, Py.unpackN, List.length_cons, List.length_nil,
    if_true, half_flt, len_iboxes, add_ff, div_len _ _ _ hn, add_num_flt _ _ _ _ hx, add_num_flt _ _ _ _ hy, ext_update]
  rfl


theorem nloop1 (amb : Nat) (bs0 : List IBox) (hn : bs0.length ≠ 0) (rec_ : Val → Out) (bb st : Val) :
    ∀ (bs : List IBox) (j0 j1 j2 j3 j4 cxv cyv : Val) (c : Rat × Rat) (e : Option Box), IsNum cxv c.1 → IsNum cyv c.2 →
    ∃ k0 k1 k2 k3 k4 cxv' cyv', IsNum cxv' (bs.foldl (meanStep (bs0.length : Rat)) c).1 ∧
      IsNum cyv' (bs.foldl (meanStep (bs0.length : Rat)) c).2 ∧
      Gen.rtree_Index_init_loop1 Rounding.exact amb (encIBoxes bs0) rec_ (bs.map encIBox) j0 j1 j2 j3 j4 cxv cyv (inst bb st e)
        = .done (k0, k1, k2, k3, k4, cxv', cyv', inst bb st (bs.foldl extStep e)) := by
  intro bs
  induction bs with
  | nil => intro j0 j1 j2 j3 j4 cxv cyv c e hx hy; exact ⟨_, _, _, _, _, cxv, cyv, hx, hy, rfl⟩
  | cons b bs ih =>
    intro j0 j1 j2 j3 j4 cxv cyv c e hx hy
    rw [List.map_cons, Gen.rtree_Index_init_loop1, nbody1 amb bs0 hn rec_ _ b j0 j1 j2 j3 j4 cxv cyv bb st c e hx hy]
    exact ih _ _ _ _ _ _ _ (meanStep (bs0.length : Rat) c b) (extStep e b) (Or.inl rfl) (Or.inl rfl)

theorem meanCenter_eq (bs : List IBox) : meanCenter id bs = bs.foldl (meanStep (bs.length : Rat)) (0, 0) := rfl

/-! the four quadrant comprehensions -/
theorem comp_filter (bs : List IBox) (f : Val → Option Val) (p : IBox → Bool)
    (h : ∀ b, f (encIBox b) = if p b then some (encIBox b) else none) :
    Py.comp (encIBoxes bs) f = encIBoxes (bs.filter p) := by
  unfold Py.comp encIBoxes
  simp only [Py.iter]
  congr 1
  induction bs with
  | nil => rfl
  | cons b bs ih =>
    simp only [List.map_cons, List.filterMap_cons, h, List.filter_cons]
    by_cases hp : p b = true
    · simp only [hp, if_true, List.map_cons, ih]
    · simp only [hp, Bool.false_eq_true, if_false, ih]

theorem leE_flt_num (x : Rat) (cv : Val) (c : Rat) (h : IsNum cv c) : Py.leE (.flt x) cv = decide (x ≤ c) := by
  rcases h with rfl | ⟨z, rfl, rfl⟩ <;> rfl
theorem geE_flt_num (x : Rat) (cv : Val) (c : Rat) (h : IsNum cv c) : Py.geE (.flt x) cv = decide (x ≥ c) := by
  rcases h with rfl | ⟨z, rfl, rfl⟩ <;> rfl


theorem gtE_int_nat (a b : Nat) : Py.gtE (.int (a : Int)) (.int (b : Int)) = decide (a > b) := by
  simp [Py.gtE, infSign_int, Py.gt, Py.num]

/-- `max(map(len, sub_bboxes))` -/
theorem max_lens (s0 s1 s2 s3 : List IBox) :
    Py.maxOfE (Py.comp (.tup [encIBoxes s0, encIBoxes s1, encIBoxes s2, encIBoxes s3]) (fun it => some (Py.len_ it)))
      = .int ((max (max s0.length s1.length) (max s2.length s3.length) : Nat) : Int) := by
  simp only [Py.comp, Py.iter, List.filterMap_cons, List.filterMap_nil, len_iboxes, Py.maxOfE, Py.maxE, List.foldl]
  have key : ∀ a b : Nat, (if Py.gtE (.int (b : Int)) (.int (a : Int)) = true then Val.int (b : Int) else Val.int (a : Int))
      = Val.int ((max a b : Nat) : Int) := by
    intro a b
    rw [gtE_int_nat]
    by_cases h : b > a
    · simp only [h, decide_true, if_true]; rw [max_eq_right (le_of_lt h)]
    · simp only [h, decide_false, Bool.false_eq_true, if_false]; rw [max_eq_left (not_lt.mp h)]
  simp only [key]
  congr 2
  omega

theorem quad_lemma (cxv cyv : Val) (c : Rat × Rat) (hx : IsNum cxv c.1) (hy : IsNum cyv c.2) (b : IBox) :
    ((if (Py.leE (.flt b.2.x1) cxv && Py.leE (.flt b.2.y1) cyv) = true then some (encIBox b) else none)
      = if quad Strict.none c.1 c.2 0 b then some (encIBox b) else none) ∧
    ((if (Py.geE (.flt b.2.x2) cxv && Py.leE (.flt b.2.y1) cyv) = true then some (encIBox b) else none)
      = if quad Strict.none c.1 c.2 1 b then some (encIBox b) else none) ∧
    ((if (Py.leE (.flt b.2.x1) cxv && Py.geE (.flt b.2.y2) cyv) = true then some (encIBox b) else none)
      = if quad Strict.none c.1 c.2 2 b then some (encIBox b) else none) ∧
    ((if (Py.geE (.flt b.2.x2) cxv && Py.geE (.flt b.2.y2) cyv) = true then some (encIBox b) else none)
      = if quad Strict.none c.1 c.2 3 b then some (encIBox b) else none) := by
  simp only [leE_flt_num _ _ _ hx, leE_flt_num _ _ _ hy, geE_flt_num _ _ _ hx, geE_flt_num _ _ _ hy, quad, lo, hi, Strict.none,
    Bool.false_eq_true, if_false, and_self]

theorem build_unfold (bs : List IBox) :
    build Strict.none (meanCenter id) bs =
      let c := meanCenter id bs
      let s0 := bs.filter (quad Strict.none c.1 c.2 0)
      let s1 := bs.filter (quad Strict.none c.1 c.2 1)
      let s2 := bs.filter (quad Strict.none c.1 c.2 2)
      let s3 := bs.filter (quad Strict.none c.1 c.2 3)
      if max (max s0.length s1.length) (max s2.length s3.length) = bs.length then Tree.leaf bs
      else Tree.node (extent s0) (extent s1) (extent s2) (extent s3)
        (build Strict.none (meanCenter id) s0) (build Strict.none (meanCenter id) s1)
        (build Strict.none (meanCenter id) s2) (build Strict.none (meanCenter id) s3) := by
  rw [build]
  simp only
  split_ifs <;> rfl

theorem compOut4 (rec_ : Val → Out) (a0 a1 a2 a3 r0 r1 r2 r3 : Val)
    (h0 : rec_ a0 = .val r0) (h1 : rec_ a1 = .val r1) (h2 : rec_ a2 = .val r2) (h3 : rec_ a3 = .val r3) :
    Py.compOut (.tup [a0, a1, a2, a3]) (fun it => some (rec_ it)) = .val (.tup [r0, r1, r2, r3]) := by
  simp only [Py.compOut, Py.iter, Py.compOut.go, h0, h1, h2, h3, List.reverse_cons, List.reverse_nil, List.nil_append,
    List.cons_append]

theorem init_step (amb : Nat) (f : Nat) (bs : List IBox)
    (ih : ∀ bs' : List IBox, bs'.length < bs.length →
      Gen.rtree_Index_init Rounding.exact amb f (encIBoxes bs') = .val (encTree (extent bs') (build Strict.none (meanCenter id) bs'))) :
    Gen.rtree_Index_init Rounding.exact amb (f + 1) (encIBoxes bs)
      = .val (encTree (extent bs) (build Strict.none (meanCenter id) bs)) := by
  rw [Gen.rtree_Index_init]
  unfold Gen.rtree_Index_init_body
  simp only [Py.unpackN_tup2, Py.getItem_cons_zero, Py.getItem_cons_succ, setF3, setF4, setF5, setF6]
  have hiter : Py.iter (encIBoxes bs) = some (bs.map encIBox) := rfl
  have hstart : (Val.tup [.str "Index", .tup [], .tup [], Py.posInf, Py.posInf, Py.negInf, Py.negInf]) = inst (.tup []) (.tup []) none := rfl
  have z0 : IsNum (.int 0) ((0, 0) : Rat × Rat).1 := Or.inr ⟨0, rfl, by simp⟩
  have z1 : IsNum (.int 0) ((0, 0) : Rat × Rat).2 := Or.inr ⟨0, rfl, by simp⟩
  -- the loop: running mean and extent
  have hloop : ∃ k0 k1 k2 k3 k4 cxv cyv, IsNum cxv (meanCenter id bs).1 ∧ IsNum cyv (meanCenter id bs).2 ∧
      Gen.rtree_Index_init_loop1 Rounding.exact amb (encIBoxes bs) (Gen.rtree_Index_init Rounding.exact amb f)
        (bs.map encIBox) .err .err .err .err .err (.int 0) (.int 0) (inst (.tup []) (.tup []) none)
        = .done (k0, k1, k2, k3, k4, cxv, cyv, inst (.tup []) (.tup []) (extent bs)) := by
    cases bs with
    | nil => exact ⟨_, _, _, _, _, _, _, z0, z1, rfl⟩
    | cons b rest =>
      exact nloop1 amb (b :: rest) (by simp) _ _ _ (b :: rest) _ _ _ _ _ _ _ (0, 0) none z0 z1
  obtain ⟨k0, k1, k2, k3, k4, cxv, cyv, hx, hy, hl⟩ := hloop
  rw [hiter, hstart]
  simp only [hl]
  -- the four quadrant lists
  have hq := fun b => quad_lemma cxv cyv (meanCenter id bs) hx hy b
  rw [comp_filter bs _ (quad Strict.none (meanCenter id bs).1 (meanCenter id bs).2 0) (fun b => (hq b).1),
    comp_filter bs _ (quad Strict.none (meanCenter id bs).1 (meanCenter id bs).2 1) (fun b => (hq b).2.1),
    comp_filter bs _ (quad Strict.none (meanCenter id bs).1 (meanCenter id bs).2 2) (fun b => (hq b).2.2.1),
    comp_filter bs _ (quad Strict.none (meanCenter id bs).1 (meanCenter id bs).2 3) (fun b => (hq b).2.2.2)]
  rw [max_lens, len_iboxes, eq_int_nat, build_unfold]
  simp only
  generalize hs0 : bs.filter (quad Strict.none (meanCenter id bs).1 (meanCenter id bs).2 0) = s0
  generalize hs1 : bs.filter (quad Strict.none (meanCenter id bs).1 (meanCenter id bs).2 1) = s1
  generalize hs2 : bs.filter (quad Strict.none (meanCenter id bs).1 (meanCenter id bs).2 2) = s2
  generalize hs3 : bs.filter (quad Strict.none (meanCenter id bs).1 (meanCenter id bs).2 3) = s3
  have l0 : s0.length ≤ bs.length := by rw [← hs0]; exact List.length_filter_le _ _
  have l1 : s1.length ≤ bs.length := by rw [← hs1]; exact List.length_filter_le _ _
  have l2 : s2.length ≤ bs.length := by rw [← hs2]; exact List.length_filter_le _ _
  have l3 : s3.length ≤ bs.length := by rw [← hs3]; exact List.length_filter_le _ _
  by_cases hleaf : max (max s0.length s1.length) (max s2.length s3.length) = bs.length
  · simp only [hleaf, decide_true, if_true]
    cases hE : extent bs <;> rfl
  · simp only [hleaf, decide_false, Bool.false_eq_true, if_false]
    rw [compOut4 _ _ _ _ _ _ _ _ _ (ih s0 (by omega)) (ih s1 (by omega)) (ih s2 (by omega)) (ih s3 (by omega))]
    cases hE : extent bs <;> rfl


/-- **bridge** (construction): the regenerated `Index(bboxes)`, exact arithmetic, builds the model's tree — with the
code's own running mean as centre and the eight non-strict comparisons — for every fuel above the number of boxes -/
theorem init_bridge (amb : Nat) : ∀ (n : Nat) (bs : List IBox) (fuel : Nat), bs.length = n → n < fuel →
    Gen.rtree_Index_init Rounding.exact amb fuel (encIBoxes bs)
      = .val (encTree (extent bs) (build Strict.none (meanCenter id) bs)) := by
  intro n
  induction n using Nat.strong_induction_on with
  | _ n ih =>
    intro bs fuel hn hf
    obtain ⟨f, rfl⟩ : ∃ f, fuel = f + 1 := ⟨fuel - 1, by omega⟩
    exact init_step amb f bs (fun bs' hlt => ih bs'.length (by omega) bs' f rfl (by omega))

theorem nodup_sadd (l : List Nat) (i : Nat) (h : l.Nodup) : (sadd l i).Nodup := by
  unfold sadd
  by_cases hh : l.any (fun v => decide (i = v)) = true
  · rw [if_pos hh]; exact h
  · rw [if_neg hh]
    simp only [List.any_eq_true, decide_eq_true_eq, not_exists, not_and] at hh
    rw [List.nodup_append]
    refine ⟨h, by simp, ?_⟩
    intro a ha b hb
    simp only [List.mem_singleton] at hb
    subst hb
    exact fun e => hh a ha e.symm
theorem nodup_sunion (a b : List Nat) (ha : a.Nodup) (hb : b.Nodup) : (sunion a b).Nodup := by
  unfold sunion
  rw [List.nodup_append]
  refine ⟨ha, hb.filter _, ?_⟩
  intro x hx y hy
  simp only [List.mem_filter, Bool.not_eq_true', List.any_eq_false, decide_eq_true_eq] at hy
  exact fun e => hy.2 x hx e.symm
theorem nodup_leafFold (q : Box) (bs : List IBox) (acc : List Nat) (h : acc.Nodup) : (leafFold q bs acc).Nodup := by
  unfold leafFold
  induction bs generalizing acc with
  | nil => exact h
  | cons b bs ih =>
    rw [List.foldl_cons]
    by_cases ho : overlaps q b.2 = true
    · simp only [ho, if_true]; exact ih _ (nodup_sadd _ _ h)
    · simp only [ho, Bool.false_eq_true, if_false]; exact ih _ h
theorem nodup_qset (q : Box) (t : Tree) : (qset q t).Nodup := by
  induction t with
  | leaf bs => exact nodup_leafFold q bs [] List.nodup_nil
  | node e0 e1 e2 e3 t0 t1 t2 t3 ih0 ih1 ih2 ih3 =>
    simp only [qset]
    have n0 : (if extentHit q e0 = true then sunion [] (qset q t0) else []).Nodup := by
      split_ifs
      · exact nodup_sunion _ _ List.nodup_nil ih0
      · exact List.nodup_nil
    generalize (if extentHit q e0 = true then sunion [] (qset q t0) else []) = a0 at n0 ⊢
    have n1 : (if extentHit q e1 = true then sunion a0 (qset q t1) else a0).Nodup := by
      split_ifs
      · exact nodup_sunion _ _ n0 ih1
      · exact n0
    generalize (if extentHit q e1 = true then sunion a0 (qset q t1) else a0) = a1 at n1 ⊢
    have n2 : (if extentHit q e2 = true then sunion a1 (qset q t2) else a1).Nodup := by
      split_ifs
      · exact nodup_sunion _ _ n1 ih2
      · exact n1
    generalize (if extentHit q e2 = true then sunion a1 (qset q t2) else a1) = a2 at n2 ⊢
    split_ifs
    · exact nodup_sunion _ _ n2 ih3
    · exact n2

end C14
end Plotink
