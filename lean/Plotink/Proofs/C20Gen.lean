import Plotink.Gen.xml_escape
import Plotink.Gen.format_hms
import Plotink.Proofs.PyLemmas
import Plotink.Proofs.PyEnc
import Plotink.Proofs.C20Xml
import Plotink.Proofs.C20Hms

/-! # C20 — bridge: the source-regenerated `xml_escape` / `format_hms` = the hand models

`Gen.xml_escape` and `Gen.format_hms` are regenerated from `plotink/text_utils.py` on every run. A Python `str`
is `Py.Val.str` over Lean `String`; the hand models are over `List Char`; the two are related by
`String.toList` / `String.ofList`.

* `replaceL_single` — Python's general `str.replace` (`Py.replaceL`) with a one-character pattern is the model's
  `C20.replaceChar`; `xml_escape_bridge` — `Gen.xml_escape (str s) = str (escape s.toList)`, for every rounding.
* `natDigits_eq` … `fixedDigits_three` — the decimal renderings of the `Py` format library are the model's
  `natDigits`, `intDigits`, `pad2`, `fixed3`; `format_hms_bridge` — `Gen.format_hms` = `C20.formatHms R.f64`. -/

namespace Plotink
namespace C20
open Py Py.Val
set_option linter.unusedSimpArgs false

/-! ## xml_escape -/

theorem replaceGo_single (c : Char) (r : List Char) (s : List Char) :
    Py.replaceGo [c] r 0 s = replaceChar c r s := by
  induction s with
  | nil => rfl
  | cons x xs ih =>
    rw [Py.replaceGo, replaceChar_cons, ← ih]
    by_cases h : x = c
    · subst h; simp [List.isPrefixOf]
    · have h' : ¬ c = x := fun e => h e.symm
      simp [List.isPrefixOf, h, h']

theorem replaceL_single (c : Char) (r s : List Char) : Py.replaceL [c] r s = replaceChar c r s := by
  unfold Py.replaceL
  rw [if_neg (by simp)]
  exact replaceGo_single c r s

theorem str_replace_single (s : String) (c : Char) (r : String) :
    Py.str_replace (.str s) (.str (String.ofList [c])) (.str r) = .str (String.ofList (replaceChar c r.toList s.toList)) := by
  show Py.ofL _ = _
  rw [String.toList_ofList, replaceL_single]
  rfl

/-- **bridge**: the regenerated `xml_escape` on a string is the hand model on its code points (any rounding) -/
theorem xml_escape_bridge (R : Rounding) (amb : Nat) (s : String) :
    Gen.xml_escape R amb (.str s) = .str (String.ofList (escape s.toList)) := by
  unfold Gen.xml_escape escape
  have e1 : ("&" : String) = String.ofList ['&'] := by decide
  have e2 : ("<" : String) = String.ofList ['<'] := by decide
  have e3 : (">" : String) = String.ofList ['>'] := by decide
  have e4 : ("\"" : String) = String.ofList ['"'] := by decide
  have e5 : ("'" : String) = String.ofList ['\''] := by decide
  simp only [e1, e2, e3, e4, e5, str_replace_single, String.toList_ofList]
  rfl

/-! ## format_hms -/

theorem digitChar_eq (d : Nat) : Py.digitChar d = digitChar d := rfl

theorem natDigits_eq (n : Nat) : Py.natDigits n = natDigits n := by
  induction n using Nat.strong_induction_on with
  | _ n ih =>
    rw [Py.natDigits]
    by_cases h : n < 10
    · rw [if_pos h, natDigits_lt n h]; rfl
    · rw [if_neg h, natDigits_ge n h, ih (n / 10) (by omega)]; rfl

theorem intDigits_eq (z : Int) : Py.intDigits z = intDigits z := by
  unfold Py.intDigits intDigits
  simp only [natDigits_eq]

theorem natDigits_length_pos (n : Nat) : 1 ≤ (natDigits n).length := by
  by_cases h : n < 10
  · rw [natDigits_lt n h]; simp
  · rw [natDigits_ge n h]; simp

theorem zeroPad_two (z : Int) : Py.zeroPad 2 z = pad2 z := by
  unfold Py.zeroPad pad2 intDigits
  simp only [natDigits_eq]
  have hl := natDigits_length_pos z.natAbs
  by_cases hz : z < 0
  · simp only [hz, if_true]
    have : 2 - 1 - (natDigits z.natAbs).length = 0 := by omega
    rw [this]
    simp only [List.replicate_zero, List.nil_append, List.length_cons]
    rw [if_neg (by omega)]
  · simp only [hz, if_false]
    have e : z.natAbs = z.toNat := by omega
    rw [e] at hl ⊢
    by_cases h2 : (natDigits z.toNat).length < 2
    · rw [if_pos h2]
      have : 2 - (natDigits z.toNat).length = 1 := by omega
      rw [this]; rfl
    · rw [if_neg h2]
      have : 2 - (natDigits z.toNat).length = 0 := by omega
      rw [this]; rfl

theorem fixedDigits_three (q : Rat) (h : 0 ≤ q ∨ roundHE (1000 * q) ≠ 0) :
    Py.fixedDigits 3 q = fixed3 (roundHE (1000 * q)) := by
  unfold Py.fixedDigits fixed3
  have e : q * ((10 ^ 3 : Nat) : Rat) = 1000 * q := by norm_num [mul_comm]
  simp only [e, natDigits_eq]
  have hsign : (q < 0) ↔ (roundHE (1000 * q) < 0) := by
    constructor
    · intro hq
      have hle : roundHE (1000 * q) ≤ 0 := roundHE_le_of_le 0 _ (by push_cast; linarith)
      rcases h with h | h
      · exact absurd hq (not_lt.mpr h)
      · omega
    · intro hn
      by_contra hq
      have : (0 : Int) ≤ roundHE (1000 * q) := le_roundHE_of_le 0 _ (by push_cast; linarith [not_lt.mp hq])
      omega
  by_cases hq : q < 0
  · simp [hq, hsign.mp hq, List.range, List.range.loop, digitChar_eq]
  · have hn : ¬ roundHE (1000 * q) < 0 := fun h => hq (hsign.mpr h)
    simp [hq, hn, List.range, List.range.loop, digitChar_eq]


/-! evaluation of the library calls that occur in `format_hms` -/
theorem format_flt_3f (q : Rat) : Py.format_ (.flt q) ".3f" = Py.ofL (Py.fixedDigits 3 q) := rfl
theorem format_int_3f (z : Int) : Py.format_ (.int z) ".3f" = Py.ofL (Py.fixedDigits 3 (z : Rat)) := rfl
theorem format_int_02 (z : Int) : Py.format_ (.int z) "02" = Py.ofL (Py.zeroPad 2 z) := rfl
theorem format_int_plain (z : Int) : Py.format_ (.int z) "" = Py.ofL (Py.intDigits z) := rfl
theorem fjoin_go_nil : Py.fjoin.go [] = some [] := rfl
theorem fjoin_go_str (x : String) (r : List Val) : Py.fjoin.go (.str x :: r) = (Py.fjoin.go r).map (x.toList ++ ·) := rfl
theorem fjoin_go_ofL (l : List Char) (r : List Val) : Py.fjoin.go (Py.ofL l :: r) = (Py.fjoin.go r).map (l ++ ·) := by
  unfold Py.ofL; rw [fjoin_go_str, String.toList_ofList]
theorem add_str_str (R : Rounding) (p : Nat) (a b : String) : Py.add R p (.str a) (.str b) = .str (a ++ b) := rfl
theorem add_ofL_str (R : Rounding) (p : Nat) (l : List Char) (b : String) :
    Py.add R p (Py.ofL l) (.str b) = Py.ofL (l ++ b.toList) := by
  unfold Py.ofL; rw [add_str_str]; congr 1
  rw [String.ext_iff, String.toList_append, String.toList_ofList, String.toList_ofList]
theorem divmod_60 (R : Rounding) (p : Nat) (z : Int) :
    Py.divmod_ R p (.int z) (.int 60) = .tup [.int (z / 60), .int (z % 60)] := by
  have h1 : Int.fdiv z 60 = z / 60 := Int.fdiv_eq_ediv_of_nonneg z (by decide)
  have h2 : Int.fmod z 60 = z % 60 := Int.fmod_eq_emod_of_nonneg z (by decide)
  simp [Py.divmod_, Py.floordiv, Py.mod, h1, h2]
theorem lt_flt_int (q : Rat) (z : Int) : Py.lt (.flt q) (.int z) = decide (q < (z : Rat)) := rfl
theorem lt_int_int' (a z : Int) : Py.lt (.int a) (.int z) = decide (a < z) := by
  simp [Py.lt, Py.num]
theorem lt_int_int_rat (a z : Int) : Py.lt (.int a) (.int z) = decide ((a : Rat) < (z : Rat)) := rfl

theorem sSeconds_def : sSeconds = " Seconds".toList := rfl
theorem sMinSec_def : sMinSec = " (Minutes, seconds)".toList := rfl
theorem sHrMinSec_def : sHrMinSec = " (Hours, minutes, seconds)".toList := rfl
theorem colon_toList : (":" : String).toList = [':'] := by decide

/-- the part of `format_hms` after the unit conversion, on a float -/
theorem format_hms_flt (R : Rounding) (amb : Nat) (q : Rat) (h : 0 ≤ q ∨ roundHE (1000 * q) ≠ 0) :
    Gen.format_hms R amb (.flt q) (.bool_ false) = Py.ofL (formatHms R.f64 q false) := by
  rw [formatHms_seconds]
  unfold Gen.format_hms
  simp only [Py.truthy, Bool.false_eq_true, if_false, lt_flt_int, format_flt_3f, Py.round_, Py.int_, lt_int_int',
    divmod_60, Py.unpackN_tup2, Py.getItem_cons_zero, Py.getItem_cons_succ, format_int_02, format_int_plain,
    Py.fjoin, fjoin_go_ofL, fjoin_go_str, fjoin_go_nil, Option.map_some, add_ofL_str, decide_eq_true_eq,
    intDigits_eq, zeroPad_two, Int.cast_ofNat]
  rw [fixedDigits_three q h]
  by_cases h1 : q < 10
  · simp only [if_pos h1]
    simp only [List.append_nil]
    rw [sSeconds_def]
  · by_cases h2 : roundHE q < 60
    · simp only [if_neg h1, if_pos h2]
      simp only [List.append_nil]
      rw [sSeconds_def]
    · by_cases h3 : roundHE q < 3600
      · simp only [if_neg h1, if_neg h2, if_pos h3]
        simp only [colon_toList, List.append_nil, List.append_assoc, List.cons_append, List.nil_append]
        rw [sMinSec_def]
      · simp only [if_neg h1, if_neg h2, if_neg h3]
        simp only [colon_toList, List.append_nil, List.append_assoc, List.cons_append, List.nil_append]
        rw [sHrMinSec_def]

/-- the same on an int -/
theorem format_hms_int (R : Rounding) (amb : Nat) (z : Int) :
    Gen.format_hms R amb (.int z) (.bool_ false) = Py.ofL (formatHms R.f64 (z : Rat) false) := by
  have h : 0 ≤ (z : Rat) ∨ roundHE (1000 * (z : Rat)) ≠ 0 := by
    by_cases hz : 0 ≤ z
    · exact Or.inl (by exact_mod_cast hz)
    · right
      have : roundHE (1000 * (z : Rat)) = 1000 * z := by
        have := roundHE_intCast (1000 * z); push_cast at this; exact this
      rw [this]; omega
  rw [formatHms_seconds, roundHE_intCast]
  have c10 : ((z : Rat) < 10) ↔ z < 10 := by exact_mod_cast Iff.rfl
  unfold Gen.format_hms
  simp only [Py.truthy, Bool.false_eq_true, if_false, format_int_3f, Py.round_, Py.int_, lt_int_int',
    divmod_60, Py.unpackN_tup2, Py.getItem_cons_zero, Py.getItem_cons_succ, format_int_02, format_int_plain,
    Py.fjoin, fjoin_go_ofL, fjoin_go_str, fjoin_go_nil, Option.map_some, add_ofL_str, decide_eq_true_eq,
    intDigits_eq, zeroPad_two, c10]
  rw [fixedDigits_three _ h]
  by_cases h1 : z < 10
  · simp only [if_pos h1]
    simp only [List.append_nil]
    rw [sSeconds_def]
  · by_cases h2 : z < 60
    · simp only [if_neg h1, if_pos h2]
      simp only [List.append_nil]
      rw [sSeconds_def]
    · by_cases h3 : z < 3600
      · simp only [if_neg h1, if_neg h2, if_pos h3]
        simp only [colon_toList, List.append_nil, List.append_assoc, List.cons_append, List.nil_append]
        rw [sMinSec_def]
      · simp only [if_neg h1, if_neg h2, if_neg h3]
        simp only [colon_toList, List.append_nil, List.append_assoc, List.cons_append, List.nil_append]
        rw [sHrMinSec_def]

theorem truediv_flt_1000 (R : Rounding) (p : Nat) (q : Rat) :
    Py.truediv R p (.flt q) (.flt (1000 : Rat)) = .flt (R.f64 (q / 1000)) := by
  simp [Py.truediv, Py.num, Py.join, Py.kind, Py.pack]
theorem truediv_int_1000 (R : Rounding) (p : Nat) (z : Int) :
    Py.truediv R p (.int z) (.flt (1000 : Rat)) = .flt (R.f64 ((z : Rat) / 1000)) := by
  simp [Py.truediv, Py.num, Py.join, Py.kind, Py.pack]

/-- a millisecond argument: the unit conversion, then the same function on the quotient -/
theorem format_hms_ms (R : Rounding) (amb : Nat) (v : Val) (q : Rat) (hv : IsNum v q) :
    Gen.format_hms R amb v (.bool_ true) = Gen.format_hms R amb (.flt (R.f64 (q / 1000))) (.bool_ false) := by
  rcases hv with rfl | ⟨z, rfl, rfl⟩
  · unfold Gen.format_hms
    simp only [Py.truthy, if_true, Bool.false_eq_true, if_false, truediv_flt_1000]
  · unfold Gen.format_hms
    simp only [Py.truthy, if_true, Bool.false_eq_true, if_false, truediv_int_1000]

/-- **bridge**: the regenerated `format_hms`, for every rounding `R`, is the hand model `formatHms` with
`f64 := R.f64`, over the exact value `q` of the `int`/`float` argument.  Hypothesis: the duration actually
formatted (`q`, or the quotient `R.f64 (q/1000)` for milliseconds) is not a negative number that rounds to zero
thousandths (CPython prints `-0.000` there; the model has no negative zero).  In particular it holds for `0 ≤ q`
whenever `R.f64` preserves signs. -/
theorem format_hms_bridge (R : Rounding) (amb : Nat) (v : Val) (q : Rat) (hv : IsNum v q) (ms : Bool)
    (hs : 0 ≤ (if ms then R.f64 (q / 1000) else q) ∨ roundHE (1000 * (if ms then R.f64 (q / 1000) else q)) ≠ 0) :
    Gen.format_hms R amb v (.bool_ ms) = .str (String.ofList (formatHms R.f64 q ms)) := by
  cases ms with
  | true =>
    rw [format_hms_ms R amb v q hv, formatHms_ms]
    exact format_hms_flt R amb _ (by simpa using hs)
  | false =>
    rcases hv with rfl | ⟨z, rfl, rfl⟩
    · exact format_hms_flt R amb q (by simpa using hs)
    · exact format_hms_int R amb z

end C20
end Plotink
