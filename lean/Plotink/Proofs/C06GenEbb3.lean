import Plotink.Proofs.C06GenBase
import Plotink.Proofs.C06GenPure
import Plotink.Proofs.Ebb3Gen
import Plotink.Proofs.C05Frame
import Plotink.Gen.EBBMotionWrap_xy_move
/-! # C06 over the regenerated code, part 5: the EBB3 layer (`EBBMotionWrap`, `EBB3`)

Every method of this part guards, formats one text and hands it to `self.command`.  `ebb3_command_send` combines the
bridge of the regenerated `EBB3.command` (`Ebb3Gen.command_bridge_ascii`) with the exact result of the model's `command`
on a script (`commandCore_script`): on a connected, error-free object the text followed by one carriage return is
appended to the write log, whatever the board replies. -/
namespace Plotink
namespace C06Gen
open PyObj Gen Ebb3Gen
set_option linter.unusedSimpArgs false
set_option linter.unusedVariables false

/-! ## texts without white space are their own `strip` -/

theorem lstrip_noSpace : ∀ (s : List Char), (∀ c ∈ s, Ebb3.isSpace c = false) → Ebb3.lstrip s = s
  | [], _ => rfl
  | c :: cs, h => by
    have hc := h c (List.mem_cons_self)
    simp [Ebb3.lstrip, List.dropWhile, hc]

theorem rstrip_noSpace : ∀ (s : List Char), (∀ c ∈ s, Ebb3.isSpace c = false) → Ebb3.rstrip s = s
  | [], _ => rfl
  | c :: cs, h => by
    have hc := h c (List.mem_cons_self)
    have ih := rstrip_noSpace cs (fun x hx => h x (List.mem_cons_of_mem _ hx))
    simp only [Ebb3.rstrip, ih]
    cases cs with
    | nil => simp [hc]
    | cons d ds => rfl

theorem strip_noSpace (s : List Char) (h : ∀ c ∈ s, Ebb3.isSpace c = false) : Ebb3.strip s = s := by
  unfold Ebb3.strip
  rw [lstrip_noSpace s h, rstrip_noSpace s h]

theorem noSpace_digit (c : Char) (h : c.isDigit = true) : Ebb3.isSpace c = false := by
  simp only [Char.isDigit, Bool.and_eq_true, decide_eq_true_eq] at h
  have h1 : 48 ≤ c.val.toNat := by have := UInt32.le_iff_toNat_le.mp h.1; simpa using this
  have h2 : c.val.toNat ≤ 57 := by have := UInt32.le_iff_toNat_le.mp h.2; simpa using this
  unfold Ebb3.isSpace
  have e : c.toNat = c.val.toNat := rfl
  simp only [e]
  generalize c.val.toNat = n at h1 h2
  have a1 : (n == 32) = false := by simp; omega
  have a2 : (decide (n ≤ 13)) = false := by simp; omega
  have a3 : (decide (n ≤ 31)) = false := by simp; omega
  simp [a1, a2, a3]

theorem noSpace_showInt (z : Int) : ∀ c ∈ Ebb3.showInt z, Ebb3.isSpace c = false := by
  intro c hc
  have hc' : c ∈ (Int.repr z).toList := hc
  rcases C06.numChar_of_mem_repr hc' with h | rfl
  · exact noSpace_digit c h
  · decide

theorem noSpace_argChars : ∀ (l : List Int), ∀ c ∈ argChars l, Ebb3.isSpace c = false
  | [], c, hc => by cases hc
  | a :: r, c, hc => by
    simp only [argChars, List.mem_cons, List.mem_append] at hc
    rcases hc with rfl | hc | hc
    · decide
    · exact noSpace_showInt a c hc
    · exact noSpace_argChars r c hc

/-- the text an EBB3 method hands to `command` for the request line `⟨n, l⟩` (no terminator) -/
def textChars (n : String) (l : List Int) : List Char := n.toList ++ argChars l

theorem textChars_wire (n : String) (l : List Int) : textChars n l ++ ['\r'] = (C06.Cmd.wire ⟨n, l⟩).toList := by
  rw [wire_toList, textChars, List.append_assoc]

theorem strip_textChars (n : String) (l : List Int) (hn : n.toList.all (fun c => !Ebb3.isSpace c) = true) :
    Ebb3.strip (textChars n l) = textChars n l := by
  apply strip_noSpace
  intro c hc
  simp only [textChars, List.mem_append] at hc
  rcases hc with hc | hc
  · have := List.all_eq_true.mp hn c hc
    simpa using this
  · exact noSpace_argChars l c hc

theorem isAscii_textChars (n : String) (l : List Int) (hn : PyIO.isAscii n.toList = true) :
    PyIO.isAscii (textChars n l) = true :=
  LegacyGen.isAscii_append _ _ hn (isAscii_argChars l)

/-! ## one call of `self.command(text)` -/

/-- On a connected, error-free object (`blocked = false`) of the domain, `self.command(t)` for a non-empty ASCII text
without surrounding white space returns, and the write log has grown by exactly `t + "\r"`. -/
theorem ebb3_command_send (fuel : Nat) (hf : 26 ≤ fuel) (t : List Char) (ht : PyIO.isAscii t = true)
    (hs : Ebb3.strip t = t) (hne : t ≠ []) (w : World EBB3_Obj) (hg : Good w) (hb : (absSt w.obj).blocked = false) :
    ∃ v w', EBB3_command fuel (.str t) w = .val v w' ∧ w'.port.log = w.port.log ++ [t ++ ['\r']] ∧ Good w' := by
  have hsim := command_bridge_ascii fuel hf (some t) (fun s h => by cases h; exact ht) w hg
  have hready : Ebb3.Ready (absWorld w) := by
    simp only [Ebb3.St.blocked, Bool.or_eq_false_iff, Bool.not_eq_false'] at hb
    refine ⟨hb.1, ?_⟩
    cases h : (absSt w.obj).err with
    | none => exact h
    | some e => rw [h] at hb; simp at hb
  obtain ⟨name, hn, hnn⟩ := Ebb3.cmdName_ok_of_ne hne
  rw [Ebb3.run_command_ready _ _ _ _ hready, hs] at hsim
  have hcore := Ebb3.commandCore_script Ebb3.srcParams t name hn hnn (absSt w.obj) hready.2
    (w.port.reads.map absRd) (w.port.writes.map absWr) w.port.log w.port.nread
  change Sim _ (Ebb3.commandCore Ebb3.srcParams Ebb3.scriptDev t
    ⟨absSt w.obj, ⟨w.port.reads.map absRd, w.port.writes.map absWr⟩, w.port.log, w.port.nread⟩) at hsim
  rw [hcore] at hsim
  show ∃ v w', EBB3_command fuel (encReq (some t)) w = .val v w' ∧ _
  cases ho : EBB3_command fuel (encReq (some t)) w with
  | val v w' =>
    rw [ho] at hsim
    obtain ⟨_, haw, hg'⟩ := hsim
    refine ⟨v, w', rfl, ?_, hg'⟩
    have := congrArg Ebb3.World.out haw
    exact this
  | exc c w' => rw [ho] at hsim; exact hsim.elim
  | fuelOut => rw [ho] at hsim; exact hsim.elim

/-! ## methods: guard, format, `self.command(text)` -/

abbrev outWorld3 := @LegacyGen.outWorld EBB3_Obj

/-- the call ended (value or escaping exception, never out of fuel) and the write log grew by exactly the wire texts
of `cs` -/
def Wrote3 (o : Out EBB3_Obj) (w : World EBB3_Obj) (cs : Option (List C06.Cmd)) : Prop :=
  ∃ w', outWorld3 o = some w' ∧ w'.port.log = w.port.log ++ (cs.getD []).map (fun c => c.wire.toList)

theorem outWorld3_run {σ : Type} (s : Stmt EBB3_Obj σ) (fuel : Nat) (env : σ) (w : World EBB3_Obj) :
    outWorld3 (run s fuel env w) = flowWorld (s fuel env w) := by
  unfold run
  cases s fuel env w <;> rfl

/-- is the object connected (`self.port is not None`) -/
def connected (w : World EBB3_Obj) : Bool := absPort w.obj.port

theorem blocked_of_err_none (w : World EBB3_Obj) (he : w.obj.err = .none) : (absSt w.obj).blocked = !connected w := by
  simp [Ebb3.St.blocked, absSt, connected, he, absOpt]

theorem pureE_getattr (get : EBB3_Obj → Val) : PureE (getattr get : Eff EBB3_Obj) := by
  intro w
  unfold getattr
  cases get w.obj <;> first | exact Or.inl ⟨_, rfl⟩ | exact Or.inr ⟨_, rfl⟩

/-- the shape of 14 methods: the guard `if (self.port is None) or (self.err is not None): return X`, then a body that
comes down to `self.command(<text of ⟨n, l⟩>)` followed by statements that do no I/O -/
theorem guarded_send {σ : Type} (fuel : Nat) (hf : 26 ≤ fuel) (X : Val) (body tail : Stmt EBB3_Obj σ) (env env1 : σ)
    (w : World EBB3_Obj) (hg : Good w) (he : w.obj.err = .none) (n : String) (l : List Int)
    (hn : PyIO.isAscii n.toList = true) (hsp : n.toList.all (fun c => !Ebb3.isSpace c) = true) (hne : n.toList ≠ [])
    (htail : PureS tail)
    (hbody : ∀ w, body fuel env w =
      seq (expr (fun _ _ => mcall1 (EBB3_command fuel) (ok (.str (textChars n l))))) tail fuel env1 w) :
    Wrote3 (run (seq (ifte (fun fuel env => or_ (app1 op_is_none (getattr (·.port))) (app1 op_is_not_none (getattr (·.err))))
        (return_ (fun fuel env => ok X)) pass) body) fuel env w) w
      (some (if connected w then [⟨n, l⟩] else [])) := by
  have hbl := blocked_of_err_none w he
  cases hc : connected w with
  | false =>
    rw [hc] at hbl
    refine ⟨w, ?_, by simp⟩
    rw [outWorld3_run, seq_ret (v := X) (w' := w) (by
      simp only [ifte, guard2_eval w hg.obj, hbl, Bool.not_false, truthy_bool, ↓reduceIte, return_, ok_apply])]
    rfl
  | true =>
    rw [hc] at hbl
    have hbl' : (absSt w.obj).blocked = false := by simpa using hbl
    obtain ⟨v, w', ho, hl, hg'⟩ := ebb3_command_send fuel hf (textChars n l) (isAscii_textChars n l hn)
      (strip_textChars n l hsp) (by
        intro h
        simp only [textChars, List.append_eq_nil_iff] at h
        exact hne h.1) w hg hbl'
    refine ⟨w', ?_, ?_⟩
    · rw [outWorld3_run, seq_norm (env' := env) (w' := w) (by
        simp only [ifte, guard2_eval w hg.obj, hbl', truthy_bool, Bool.false_eq_true, ↓reduceIte, pass])]
      rw [hbody w]
      rw [seq_norm (expr_of (v := v) (w' := w') (by simp only [mcall1_ok_apply, ho, ofOut_val]))]
      exact htail fuel env1 w'
    · rw [hl, textChars_wire]
      simp

theorem seq_pass {σ : Type} (a : Stmt EBB3_Obj σ) (fuel : Nat) (env : σ) (w : World EBB3_Obj) :
    seq a pass fuel env w = a fuel env w := by
  unfold seq
  cases a fuel env w <;> rfl


/-- `xy_move`: `SM,<dur>,<dy>,<dx>` -/
theorem xy_move_bridge (fuel : Nat) (hf : 26 ≤ fuel) (b : C06.Board) (dx dy dur : Int) (w : World EBB3_Obj) (hg : Good w)
    (he : w.obj.err = .none) :
    Wrote3 (EBBMotionWrap_xy_move fuel (.int dx) (.int dy) (.int dur) w) w (C06.ebb3Emit (connected w) b (.xyMove dx dy dur)) := by
  have hemit : C06.ebb3Emit (connected w) b (.xyMove dx dy dur) = some (if connected w then [⟨"SM", [dur, dy, dx]⟩] else []) := by
    simp [C06.ebb3Emit, C06.ebb3EmitWith]
  rw [hemit]
  unfold EBBMotionWrap_xy_move EBBMotionWrap_xy_move_main EBBMotionWrap_xy_move_if1
  simp only [block_cons2]
  refine guarded_send fuel hf .none _ pass _ ⟨.int dx, .int dy, .int dur, .str (textChars "SM" [dur, dy, dx])⟩ w hg he "SM" [dur, dy, dx]
    (by decide) (by decide) (by decide) pureS_pass ?_
  intro w
  rw [seq_pass]
  have htext : (fstr [ok (.str ['S', 'M', ',']), ok (.int dur), ok (.str [',']), ok (.int dy), ok (.str [',']), ok (.int dx)] : Eff EBB3_Obj)
      = ok (.str (textChars "SM" [dur, dy, dx])) := by
    simp only [fstr, evalList_cons_ok, evalList_nil, List.map, strOf, List.flatten_cons, List.flatten_nil, textChars, lit_SM, argChars,
      List.cons_append, List.nil_append, List.append_assoc, List.append_nil]
  simp only [block_cons2, block_one, seq, assign, expr, htext, ok_apply, load_str, pass]

end C06Gen
end Plotink
