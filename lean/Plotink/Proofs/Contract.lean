import Plotink.Py
import Mathlib.Tactic.Linarith
import Mathlib.Tactic.Ring
import Mathlib.Tactic.NormNum
import Mathlib.Tactic.Positivity
import Mathlib.Algebra.Order.Field.Basic
import Mathlib.Algebra.Order.Field.Power

/-! # The numeric contract on the rounding parameter of generated code (DESIGN §5b)

Every generated function takes a `Rounding` (`f64`, `mp prec`, `mpSqrt prec`). Theorems about
generated code are proved under a *hypothesis* on that parameter; nothing here is an axiom.

The contract is split into three nested layers so that each theorem can assume the weakest one
it needs and so that each layer has a proved instance (non-vacuity):

* `ContractExact`  — a value that is representable with `p` significant bits is returned unchanged
                     (all that C01 needs). Instances: `Rounding.exact` and `Rounding.ieee`
                     (the latter in `Proofs/ContractIeee.lean`).
* `ContractBasic`  — adds the relative error bound and monotonicity of round-to-nearest (monotonicity
                     for `prec ≥ 1`: a 0-bit ties-to-even grid is not monotone, and mpmath has `prec ≥ 1`).
                     Instances: `Rounding.exact` and `Rounding.ieee`.
* `Contract`       — adds the two facts about the correctly rounded square root.
-/

namespace Plotink

/-- `x` is a binary floating-point number with at most `p` significant bits (unbounded exponent):
`x = m · 2^e` with `|m| < 2^p`. -/
def Rep (p : Nat) (x : Rat) : Prop := ∃ (m e : Int), x = (m : Rat) * (2 : Rat) ^ e ∧ |m| < 2 ^ p

/-- exactness: representable values are not changed by rounding -/
structure ContractExact (R : Rounding) : Prop where
  f64_exact : ∀ x, Rep 53 x → R.f64 x = x
  mp_exact : ∀ p x, Rep p x → R.mp p x = x

/-- round-to-nearest: exactness, relative error at most `2^-p`, monotone -/
structure ContractBasic (R : Rounding) : Prop extends ContractExact R where
  f64_err : ∀ x, |R.f64 x - x| ≤ |x| / 2 ^ 53
  mp_err : ∀ p x, |R.mp p x - x| ≤ |x| / 2 ^ p
  f64_mono : ∀ x y, x ≤ y → R.f64 x ≤ R.f64 y
  mp_mono : ∀ p, 1 ≤ p → ∀ x y, x ≤ y → R.mp p x ≤ R.mp p y

/-- the square-root operator: non-negative, relative error of the square at most `3·2^-p`, and exact on
squares of representable numbers -/
structure ContractSqrt (R : Rounding) : Prop where
  sqrt_sq : ∀ p x, 0 ≤ x → 0 ≤ R.mpSqrt p x ∧ |(R.mpSqrt p x) ^ 2 - x| ≤ 3 * x / 2 ^ p
  sqrt_exact : ∀ p y, 0 ≤ y → Rep p y → R.mpSqrt p (y * y) = y

/-- the full contract of DESIGN §5b -/
structure Contract (R : Rounding) : Prop extends ContractBasic R, ContractSqrt R

/-! ## representability lemmas -/

theorem rep_int (p : Nat) (n : Int) (h : |n| < 2 ^ p) : Rep p (n : Rat) :=
  ⟨n, 0, by simp, h⟩

theorem rep_half (p : Nat) (n : Int) (h : |n| < 2 ^ p) : Rep p ((n : Rat) / 2) :=
  ⟨n, -1, by rw [zpow_neg_one]; ring, h⟩

/-- an integer below `2^p` divided by a power of two -/
theorem rep_div_pow2 (p : Nat) (n : Int) (k : Nat) (h : |n| < 2 ^ p) : Rep p ((n : Rat) / 2 ^ k) :=
  ⟨n, -(k : Int), by rw [zpow_neg, zpow_natCast]; ring, h⟩

theorem rep_mul_pow2 (p : Nat) (n : Int) (k : Nat) (h : |n| < 2 ^ p) : Rep p ((n : Rat) * 2 ^ k) :=
  ⟨n, (k : Int), by rw [zpow_natCast], h⟩

theorem rep_neg {p : Nat} {x : Rat} (h : Rep p x) : Rep p (-x) := by
  obtain ⟨m, e, rfl, hm⟩ := h
  exact ⟨-m, e, by push_cast; ring, by rwa [abs_neg]⟩

theorem rep_mono {p q : Nat} (hpq : p ≤ q) {x : Rat} (h : Rep p x) : Rep q x := by
  obtain ⟨m, e, hx, hm⟩ := h
  refine ⟨m, e, hx, lt_of_lt_of_le hm ?_⟩
  exact pow_le_pow_right₀ (by norm_num) hpq

/-! ## non-vacuity: ideal arithmetic meets the basic contract -/

theorem contractBasic_exact : ContractBasic Rounding.exact where
  f64_exact := fun _ _ => rfl
  mp_exact := fun _ _ _ => rfl
  f64_err := fun x => by
    simp only [Rounding.exact, id, sub_self, abs_zero]; positivity
  mp_err := fun p x => by
    simp only [Rounding.exact, id, sub_self, abs_zero]; positivity
  f64_mono := fun _ _ h => h
  mp_mono := fun _ _ _ _ h => h

theorem contractExact_exact : ContractExact Rounding.exact := contractBasic_exact.toContractExact

end Plotink
