import Plotink.Proofs.C16GenMethods
/-! C16 ↔ regenerated code, part 4: the script-producing device defined from the board (`boardReads`: the reply lines of
`boardRecv` to the request lines, in order), the request traces of the model methods, and the bridge: on the script the
board produces for the requests the model sends, each regenerated method returns the model's value, writes exactly
those requests, consumes exactly those replies, and leaves the object in the model's state. -/
set_option linter.unusedSimpArgs false
set_option linter.constructorNameAsVariable false
namespace Plotink.C16
open PyObj Gen

/-! ### the script-producing device: what the board answers to a list of request lines -/

/-- the board's reply lines to the request lines `reqs` (each sent with its CR), in order -/
def boardReads (b : Board) : List Str → List PyIO.Rd
  | [] => []
  | l :: ls => .line (boardRecv b (l ++ ['\r'])).2 :: boardReads (boardRecv b (l ++ ['\r'])).1 ls

/-- the board after those requests -/
def boardAfter (b : Board) : List Str → Board
  | [] => b
  | l :: ls => boardAfter (boardRecv b (l ++ ['\r'])).1 ls

theorem boardReads_append (b : Board) (r1 r2 : List Str) :
    boardReads b (r1 ++ r2) = boardReads b r1 ++ boardReads (boardAfter b r1) r2 := by
  induction r1 generalizing b with
  | nil => rfl
  | cons l ls ih => simp [boardReads, boardAfter, ih]

theorem boardAfter_append (b : Board) (r1 r2 : List Str) :
    boardAfter b (r1 ++ r2) = boardAfter (boardAfter b r1) r2 := by
  induction r1 generalizing b with
  | nil => rfl
  | cons l ls ih => simp [boardAfter, ih]

/-! ### what the board does with each request line -/

theorem recv_SL (b : Board) {v i : Nat} (hv : v ≤ 255) (hi : i ≤ 31) (hl : i < b.vars.length) :
    boardRecv b (lineSL v i ++ ['\r']) = ({ b with vars := b.vars.set i v }, cSL ++ ['\n']) := by
  rw [boardRecv_line, lineSL_eq, parseReq_SL]
  have h1 : (v : Int) ≤ 255 := by omega
  have h2 : (i : Int) ≤ 31 := by omega
  simp [boardStep, h1, h2, hl, renderReply]

theorem recv_QL (b : Board) {i x : Nat} (hi : i ≤ 31) (hx : b.vars[i]? = some x) :
    boardRecv b (lineQL i ++ ['\r']) = (b, cQL ++ ',' :: (showNat x ++ ['\n'])) := by
  rw [boardRecv_line, lineQL_eq, parseReq_QL]
  have h2 : (i : Int) ≤ 31 := by omega
  simp [boardStep, h2, hx, renderReply]

theorem recv_ST (b : Board) {nk : Str} (hl : nk.length ≤ 16) :
    boardRecv b ((cST ++ ',' :: nk) ++ ['\r']) = ({ b with name := nk }, cST ++ ['\n']) := by
  rw [boardRecv_line, parseReq_ST]
  simp [boardStep, hl, renderReply]

theorem recv_QT (b : Board) : boardRecv b (cQT ++ ['\r']) = (b, cQT ++ ',' :: (b.name ++ ['\n'])) := by
  rw [boardRecv_line, parseReq_QT]
  simp [boardStep, renderReply]

theorem recv_EM (b : Board) {a c : Nat} (ha : a ≤ 5) (hc : c ≤ 5) :
    boardRecv b (lineEM a c ++ ['\r']) = (emBoard b a c, cEM ++ ['\n']) := by
  have : lineEM a c = cEM ++ ',' :: (showNat a ++ ',' :: showNat c) := rfl
  rw [boardRecv_line, this, parseReq_EM]
  have h1 : (a : Int) ≤ 5 := by omega
  have h2 : (c : Int) ≤ 5 := by omega
  simp [boardStep, h1, h2, em2Ok, emBoard, renderReply]

theorem recv_QE (b : Board) :
    boardRecv b (cQE ++ ['\r']) = (b, cQE ++ ',' :: (showNat (if b.m1 = true then qeCode b.mode else 0) ++ ',' ::
      (showNat (if b.m2 = true then qeCode b.mode else 0) ++ ['\n']))) := by
  rw [boardRecv_line, parseReq_QE]
  simp [boardStep, renderReply]

theorem recv_CU (b : Board) : boardRecv b (cmdCU50 ++ ['\r']) = ({ b with autoEnable := false }, cCU ++ ['\n']) := by
  rw [boardRecv_line, parseReq_CU50]
  simp [boardStep, renderReply]


/-! ### explicit request traces of the composite model methods -/

theorem var_write_int32_trace {w : World} (hc : w.py.connected = true) (he : w.py.err = false)
    (hlen : w.board.vars.length = 32) {v : Int} (hv : IsInt32 v) {i : Nat} (hi : i ≤ 28) :
    var_write_int32 w v i = .ok (.bool true,
      ⟨w.py, { w.board with vars := Spec.setBytes w.board.vars i v },
        lineSL (Spec.beByte v 3) (i + 3) :: lineSL (Spec.beByte v 2) (i + 2) :: lineSL (Spec.beByte v 1) (i + 1) ::
          lineSL (Spec.beByte v 0) i :: w.sent⟩) := by
  unfold var_write_int32
  simp only [hc, he, toBytes4_eq hv, writeLoop, Bind.bind, Except.bind, Bool.not_true, Bool.or_self,
    Bool.false_eq_true, if_false]
  have b0 := beByte_le v 0
  have b1 := beByte_le v 1
  have b2 := beByte_le v 2
  have b3 := beByte_le v 3
  have e1 : ((i : Int) + 1) = ((i + 1 : Nat) : Int) := by omega
  have e2 : (((i + 1 : Nat) : Int) + 1) = ((i + 2 : Nat) : Int) := by omega
  have e3 : (((i + 2 : Nat) : Int) + 1) = ((i + 3 : Nat) : Int) := by omega
  rw [var_write_nat hc he b0 (by omega) (by omega)]
  simp only []
  rw [e1, var_write_nat (by exact hc) (by exact he) b1 (by omega) (by simp; omega)]
  simp only []
  rw [e2, var_write_nat (by exact hc) (by exact he) b2 (by omega) (by simp; omega)]
  simp only []
  rw [e3, var_write_nat (by exact hc) (by exact he) b3 (by omega) (by simp; omega)]
  simp only [he, Bool.false_eq_true, if_false]
  rfl

theorem var_read_int32_trace {w : World} (hc : w.py.connected = true) (he : w.py.err = false) {i : Nat}
    (hi : i ≤ 28) {a b c d : Nat}
    (h0 : w.board.vars[i]? = some a) (h1 : w.board.vars[i + 1]? = some b)
    (h2 : w.board.vars[i + 2]? = some c) (h3 : w.board.vars[i + 3]? = some d)
    (ha : a ≤ 255) (hb : b ≤ 255) (hcc : c ≤ 255) (hd : d ≤ 255) :
    var_read_int32 w i = .ok (.int (Spec.decode32 a b c d),
      ⟨w.py, w.board, lineQL (i + 3) :: lineQL (i + 2) :: lineQL (i + 1) :: lineQL i :: w.sent⟩) := by
  unfold var_read_int32
  simp only [hc, he, readLoop, Bind.bind, Except.bind, Bool.not_true, Bool.or_self, Bool.false_eq_true, if_false]
  have e0 : ((i : Int) + 0) = ((i : Nat) : Int) := by omega
  have e1 : ((i : Int) + 1) = ((i + 1 : Nat) : Int) := by omega
  have e2 : ((i : Int) + 2) = ((i + 2 : Nat) : Int) := by omega
  have e3 : ((i : Int) + 3) = ((i + 3 : Nat) : Int) := by omega
  rw [e0, e1, e2, e3]
  rw [var_read_nat hc he (by omega) h0]
  simp only []
  rw [var_read_nat (by exact hc) (by exact he) (by omega) (by exact h1)]
  simp only []
  rw [var_read_nat (by exact hc) (by exact he) (by omega) (by exact h2)]
  simp only []
  rw [var_read_nat (by exact hc) (by exact he) (by omega) (by exact h3)]
  simp only [he, Bool.false_eq_true, if_false, fromBytes4_nat ha hb hcc hd]
  rfl


theorem cmdEM_0l (c : Nat) : cmdEM 0 (c : Int) = lineEM 0 c := by
  have := lineEM_eq 0 c; simpa using this.symm
theorem cmdEM_0r (c : Nat) : cmdEM (c : Int) 0 = lineEM c 0 := by
  have := lineEM_eq c 0; simpa using this.symm

/-- `motors_enable` with its request trace; `d` = the pair `motors_query_enabled` decodes on the prior board -/
theorem motors_enable_trace {w : World} (hc : w.py.connected = true) (he : w.py.err = false)
    (hm : 1 ≤ w.board.mode ∧ w.board.mode ≤ 5) (r1 r2 : Int) (c1 c2 : Nat)
    (h1 : Spec.clamp r1 = c1) (h2 : Spec.clamp r2 = c2) :
    motors_enable w r1 r2 = .ok (.none, ⟨w.py, meBoard w.board c1 c2,
      (if c1 = 0 ∧ c2 ≠ 0 then
        (if oldRes (if w.board.m1 = true then (w.board.mode : Int) else 0) (if w.board.m2 = true then (w.board.mode : Int) else 0) = c2
          then [lineEM 0 c2, cQE, cmdCU50] else [lineEM 0 c2, lineEM c2 c2, cQE, cmdCU50])
       else if c1 ≠ 0 ∧ c2 = 0 then [lineEM c1 0, cmdCU50] else [lineEM c1 c2]) ++ w.sent⟩) := by
  have hc1 : c1 ≤ 5 := by have := clamp_range r1; omega
  have hc2 : c2 ≤ 5 := by have := clamp_range r2; omega
  unfold motors_enable
  rw [clamp05_eq, clamp05_eq, h1, h2]
  simp only [hc, he, Bool.not_true, Bool.or_self, Bool.false_eq_true, if_false]
  by_cases z1 : c1 = 0
  · by_cases z2 : c2 = 0
    · subst z1 z2
      simp only [Bind.bind, Except.bind, pure, Except.pure, ne_eq, not_true_eq_false, false_and, and_false, if_false,
        Int.natCast_zero]
      rw [command_EM hc he (by omega) (by omega)]
      simp [emBoard, meBoard, lineEM_eq]
    · subst z1
      have z2' : ¬ ((c2 : Int) = 0) := by omega
      have hne : (0 : Int) ≠ c2 := fun h => z2' h.symm
      simp only [Bind.bind, Except.bind, pure, Except.pure, ne_eq, hne, not_false_eq_true, Int.zero_mul, and_self,
        if_true, z2', z2, Int.natCast_zero, true_and]
      rw [command_CU50 hc he]
      simp only []
      rw [mqe_ok (by exact hc) (by exact he) (by exact hm)]
      simp only []
      by_cases hold : oldRes (if w.board.m1 = true then (w.board.mode : Int) else 0)
          (if w.board.m2 = true then (w.board.mode : Int) else 0) = c2
      · simp only [hold, not_true_eq_false, if_false, if_true]
        rw [command_EM (by exact hc) (by exact he) (by omega) (by omega)]
        have : w.board.mode = c2 := by
          unfold oldRes at hold
          cases hm1 : w.board.m1 <;> cases hm2 : w.board.m2 <;> simp [hm1, hm2] at hold <;> omega
        simp [emBoard, meBoard, z2, z2', this, ← lineEM_eq, cmdEM_0l, hne]
      · simp only [hold, not_false_eq_true, if_true, if_false]
        rw [command_EM (by exact hc) (by exact he) (by omega) (by omega)]
        simp only []
        rw [command_EM (by exact hc) (by exact he) (by omega) (by omega)]
        simp [emBoard, meBoard, z2, z2', ← lineEM_eq, cmdEM_0l, hne]
  · have z1' : ¬ ((c1 : Int) = 0) := by omega
    by_cases z2 : c2 = 0
    · subst z2
      simp only [Bind.bind, Except.bind, pure, Except.pure, ne_eq, z1, z1', not_false_eq_true, Int.mul_zero, and_self,
        if_true, false_and, if_false, Int.natCast_zero, not_true_eq_false, and_true]
      rw [command_CU50 hc he]
      simp only []
      rw [command_EM (by exact hc) (by exact he) (by omega) (by omega)]
      simp [emBoard, meBoard, z1, z1', ← lineEM_eq, cmdEM_0r]
    · have z2' : ¬ ((c2 : Int) = 0) := by omega
      have hmul : ¬ ((c1 : Int) * (c2 : Int) = 0) := by
        intro h; rcases Int.mul_eq_zero.mp h with h | h <;> contradiction
      simp only [Bind.bind, Except.bind, pure, Except.pure, ne_eq, z1, z1', z2, z2', hmul, and_false, false_and, if_false,
        not_true_eq_false, not_false_eq_true]
      rw [command_EM hc he (by omega) (by omega)]
      simp [emBoard, meBoard, z1, z2, z1', z2', ← lineEM_eq]



/-- model values as values of the regenerated code (`motors_query_enabled`'s pair is a 2-tuple) -/
def encVal : C16.Val → PyObj.Val
  | .none => .none
  | .bool b => .bool b
  | .int z => .int z
  | .pair a b => .tuple [.int a, .int b]

def encName : Option Str → PyObj.Val
  | none => .none
  | some s => .str s

/-- the object after an operation: only the two nickname methods assign an attribute (`self.name`) -/
def objAfter (obj : EBB3_Obj) (b : Board) : Op → EBB3_Obj
  | .writeNick s => { obj with name := .str (strip s) }
  | .queryNick => { obj with name := .str (strip b.name) }
  | _ => obj

theorem readyObj_objAfter {obj : EBB3_Obj} (h : ReadyObj obj) (b : Board) (op : Op) : ReadyObj (objAfter obj b op) := by
  cases op <;> exact h

/-- `Inv` plus: the stored name is ASCII (it travels through `decode('ascii')`) -/
def InvG (w : World) : Prop := Inv w ∧ PyIO.isAscii w.board.name = true

/-- the regenerated method for each operation -/
def genOp (fuel : Nat) : Op → PyObj.World EBB3_Obj → Out EBB3_Obj
  | .varWrite v i => EBB3_var_write fuel (.int v) (.int i)
  | .varRead i => EBB3_var_read fuel (.int i)
  | .writeInt32 v i => EBB3_var_write_int32 fuel (.int v) (.int i)
  | .readInt32 i => EBB3_var_read_int32 fuel (.int i)
  | .motorsEnable r1 r2 => EBBMotionWrap_motors_enable fuel (.int r1) (.int r2)
  | .motorsQuery => EBBMotionWrap_motors_query_enabled fuel
  | .writeNick s => EBB3_write_nickname fuel (.str s)
  | .queryNick => EBB3_query_nickname fuel

/-- what `query_nickname` needs of the stored name (the other operations need nothing) -/
def NameReq (w : World) : Op → Prop
  | .queryNick => isInfix sErr w.board.name = false ∧ PyIO.isAscii w.board.name = true
  | _ => True

/-- **single-call bridge.** For every in-domain operation from a ready world on a well-formed board there is a list of
request lines `reqs` such that (1) the statement-by-statement model method sends exactly `reqs` and leaves the board
`boardAfter w.board reqs`, and (2) the REGENERATED method, run on the script `boardReads w.board reqs` (what the board
answers to those lines), returns the same value, writes exactly `reqs` (each with its CR), consumes exactly those
replies, and leaves the object in the model's state. -/
theorem gen_op_bridge (w : World) (hr : Ready w) (hwf : w.board.WF) (op : Op) (hop : OpOK op) (hnm : NameReq w op)
    (obj : EBB3_Obj) (hready : ReadyObj obj) :
    ∃ reqs v py',
      runOp w op = .ok (v, ⟨py', boardAfter w.board reqs, reqs.reverse ++ w.sent⟩) ∧
      (obj.name = encName w.py.name → (objAfter obj w.board op).name = encName py'.name) ∧
      ∀ (fuel : Nat) (ext : Ext) (tl : List PyIO.Rd) (log : List (List Char)) (n : Nat),
        genOp (fuel + 1) op ⟨obj, ⟨boardReads w.board reqs ++ tl, [], log, n⟩, ext⟩ =
          .val (encVal v) ⟨objAfter obj w.board op, ⟨tl, [], log ++ reqs.map (· ++ ['\r']), n + reqs.length⟩, ext⟩ := by
  cases op with
  | varWrite v i =>
    obtain ⟨hv, hi⟩ := hop
    obtain ⟨vn, rfl⟩ := Int.eq_ofNat_of_zero_le hv.1
    obtain ⟨k, rfl⟩ := Int.eq_ofNat_of_zero_le hi.1
    have hl : k < w.board.vars.length := by rw [hwf.len]; omega
    have hrecv := recv_SL w.board (v := vn) (i := k) (by omega) (by omega) hl
    refine ⟨[lineSL vn k], .bool true, w.py, ?_, (fun h => h), fun fuel ext tl log n => ?_⟩
    · simp only [runOp, boardAfter, hrecv]
      rw [var_write_nat hr.1 hr.2 (by omega) (by omega) hl]
      rfl
    · simp only [genOp, objAfter, boardReads, hrecv, List.cons_append, List.nil_append]
      exact gen_var_write fuel obj ext tl log n hready vn k
  | varRead i =>
    obtain ⟨k, rfl⟩ := Int.eq_ofNat_of_zero_le hop.1
    have hl : k < w.board.vars.length := by rw [hwf.len]; have := hop.2; omega
    have hx := getD_of_lt hl
    have hrecv := recv_QL w.board (i := k) (by have := hop.2; omega) hx
    refine ⟨[lineQL k], .int (w.board.vars.getD k 0), w.py, ?_, (fun h => h), fun fuel ext tl log n => ?_⟩
    · simp only [runOp, boardAfter, hrecv]
      rw [var_read_nat hr.1 hr.2 (by have := hop.2; omega) hx]
      rfl
    · simp only [genOp, objAfter, boardReads, hrecv, List.cons_append, List.nil_append]
      exact gen_var_read fuel obj ext tl log n hready k _
  | writeInt32 v i =>
    obtain ⟨hv, hi⟩ := hop
    obtain ⟨k, rfl⟩ := Int.eq_ofNat_of_zero_le hi.1
    have hk : k ≤ 28 := by omega
    have hb := fun j => beByte_le v j
    have hlen := hwf.len
    have r0 := recv_SL w.board (v := Spec.beByte v 0) (i := k) (hb 0) (by omega) (by omega)
    have r1 := recv_SL { w.board with vars := w.board.vars.set k (Spec.beByte v 0) } (v := Spec.beByte v 1) (i := k + 1)
      (hb 1) (by omega) (by simp; omega)
    have r2 := recv_SL { w.board with vars := (w.board.vars.set k (Spec.beByte v 0)).set (k + 1) (Spec.beByte v 1) }
      (v := Spec.beByte v 2) (i := k + 2) (hb 2) (by omega) (by simp; omega)
    have r3 := recv_SL { w.board with vars := ((w.board.vars.set k (Spec.beByte v 0)).set (k + 1) (Spec.beByte v 1)).set (k + 2) (Spec.beByte v 2) }
      (v := Spec.beByte v 3) (i := k + 3) (hb 3) (by omega) (by simp; omega)
    refine ⟨[lineSL (Spec.beByte v 0) k, lineSL (Spec.beByte v 1) (k + 1), lineSL (Spec.beByte v 2) (k + 2),
      lineSL (Spec.beByte v 3) (k + 3)], .bool true, w.py, ?_, (fun h => h), fun fuel ext tl log n => ?_⟩
    · simp only [runOp, boardAfter, r0, r1, r2, r3]
      rw [var_write_int32_trace hr.1 hr.2 hlen hv hk]
      rfl
    · simp only [genOp, objAfter, boardReads, r0, r1, r2, r3, List.cons_append, List.nil_append]
      exact gen_var_write_int32 fuel obj ext tl log n hready v hv k
  | readInt32 i =>
    obtain ⟨k, rfl⟩ := Int.eq_ofNat_of_zero_le hop.1
    have hk : k ≤ 28 := by have := hop.2; omega
    have hlen := hwf.len
    have h0 := getD_of_lt (l := w.board.vars) (n := k) (by omega)
    have h1 := getD_of_lt (l := w.board.vars) (n := k + 1) (by omega)
    have h2 := getD_of_lt (l := w.board.vars) (n := k + 2) (by omega)
    have h3 := getD_of_lt (l := w.board.vars) (n := k + 3) (by omega)
    have r0 := recv_QL w.board (i := k) (by omega) h0
    have r1 := recv_QL w.board (i := k + 1) (by omega) h1
    have r2 := recv_QL w.board (i := k + 2) (by omega) h2
    have r3 := recv_QL w.board (i := k + 3) (by omega) h3
    refine ⟨[lineQL k, lineQL (k + 1), lineQL (k + 2), lineQL (k + 3)],
      .int (Spec.decode32 (w.board.vars.getD k 0) (w.board.vars.getD (k + 1) 0) (w.board.vars.getD (k + 2) 0)
        (w.board.vars.getD (k + 3) 0)), w.py, ?_, (fun h => h), fun fuel ext tl log n => ?_⟩
    · simp only [runOp, boardAfter, r0, r1, r2, r3]
      rw [var_read_int32_trace hr.1 hr.2 hk h0 h1 h2 h3 (getD_byte hwf _) (getD_byte hwf _) (getD_byte hwf _)
        (getD_byte hwf _)]
      rfl
    · simp only [genOp, objAfter, boardReads, r0, r1, r2, r3, List.cons_append, List.nil_append]
      exact gen_var_read_int32 fuel obj ext tl log n hready k _ _ _ _ (getD_byte hwf _) (getD_byte hwf _)
        (getD_byte hwf _) (getD_byte hwf _)
  | motorsQuery =>
    have hrecv := recv_QE w.board
    refine ⟨[cQE], .pair (if w.board.m1 = true then (w.board.mode : Int) else 0)
      (if w.board.m2 = true then (w.board.mode : Int) else 0), w.py, ?_, (fun h => h), fun fuel ext tl log n => ?_⟩
    · simp only [runOp, boardAfter, hrecv, mqe_ok hr.1 hr.2 hwf.mode, Bind.bind, Except.bind]
      rfl
    · simp only [genOp, objAfter, boardReads, hrecv, List.cons_append, List.nil_append]
      exact gen_motors_query_enabled fuel obj ext tl log n hready _ _ _ _ (resMap_qe hwf.mode _) (resMap_qe hwf.mode _)
  | writeNick s =>
    have hrecv := recv_ST w.board (nk := strip s) hop.1
    refine ⟨[cST ++ ',' :: strip s], .bool true, { w.py with name := some (strip s) }, ?_, (fun _ => rfl), fun fuel ext tl log n => ?_⟩
    · simp only [runOp, boardAfter, hrecv]
      rw [write_nickname_ok hr.1 hr.2 hop.1]
      rfl
    · simp only [genOp, objAfter, boardReads, hrecv, List.cons_append, List.nil_append]
      exact gen_write_nickname fuel obj ext tl log n hready s hop
  | queryNick =>
    obtain ⟨herr, hascn⟩ := hnm
    have hrecv := recv_QT w.board
    refine ⟨[cQT], .none, { w.py with name := some (strip w.board.name) }, ?_, (fun _ => rfl), fun fuel ext tl log n => ?_⟩
    · simp only [runOp, boardAfter, hrecv]
      rw [query_nickname_gen hr.1 hr.2 herr]
      rfl
    · simp only [genOp, objAfter, boardReads, hrecv, List.cons_append, List.nil_append]
      exact gen_query_nickname fuel obj ext tl log n hready _ hascn herr
  | motorsEnable r1 r2 =>
    obtain ⟨c1, h1, hc1⟩ := clampNat r1
    obtain ⟨c2, h2, hc2⟩ := clampNat r2
    have htr := motors_enable_trace hr.1 hr.2 hwf.mode r1 r2 c1 c2 h1 h2
    have hm := hwf.mode
    by_cases hcase2 : c1 = 0 ∧ c2 ≠ 0
    · obtain ⟨z1, z2⟩ := hcase2
      subst z1
      have rcu := recv_CU w.board
      have rqe := recv_QE { w.board with autoEnable := false }
      have ha := resMap_qe hm w.board.m1
      have hb := resMap_qe hm w.board.m2
      by_cases hold : oldRes (if w.board.m1 = true then (w.board.mode : Int) else 0)
          (if w.board.m2 = true then (w.board.mode : Int) else 0) = c2
      · have rem := recv_EM { w.board with autoEnable := false } (a := 0) (c := c2) (by omega) hc2
        refine ⟨[cmdCU50, cQE, lineEM 0 c2], .none, w.py, ?_, (fun h => h), fun fuel ext tl log n => ?_⟩
        · simp only [runOp, boardAfter, rcu, rqe, rem]
          rw [htr, if_pos ⟨rfl, z2⟩, if_pos hold]
          have hmode : w.board.mode = c2 := by
            unfold oldRes at hold
            cases hm1 : w.board.m1 <;> cases hm2 : w.board.m2 <;> simp [hm1, hm2] at hold <;> omega
          have hne : ¬ ((0 : Int) = c2) := by omega
          simp [z2, emBoard, meBoard, hmode, hne]
        · simp only [genOp, objAfter, boardReads, rcu, rqe, rem, List.cons_append, List.nil_append]
          exact gen_me_only2_nopreset fuel obj ext tl log n hready r1 r2 c2 (by simpa using h1) h2 z2 _ _ _ _ ha hb hold
      · have rem1 := recv_EM { w.board with autoEnable := false } (a := c2) (c := c2) hc2 hc2
        have rem2 := recv_EM (emBoard { w.board with autoEnable := false } c2 c2) (a := 0) (c := c2) (by omega) hc2
        refine ⟨[cmdCU50, cQE, lineEM c2 c2, lineEM 0 c2], .none, w.py, ?_, (fun h => h), fun fuel ext tl log n => ?_⟩
        · simp only [runOp, boardAfter, rcu, rqe, rem1, rem2]
          rw [htr, if_pos ⟨rfl, z2⟩, if_neg hold]
          have hne : ¬ ((0 : Int) = c2) := by omega
          simp [z2, emBoard, meBoard, hne]
        · simp only [genOp, objAfter, boardReads, rcu, rqe, rem1, rem2, List.cons_append, List.nil_append]
          exact gen_me_only2_preset fuel obj ext tl log n hready r1 r2 c2 (by simpa using h1) h2 z2 _ _ _ _ ha hb hold
    · by_cases hcase1 : c1 ≠ 0 ∧ c2 = 0
      · obtain ⟨z1, z2⟩ := hcase1
        subst z2
        have rcu := recv_CU w.board
        have rem := recv_EM { w.board with autoEnable := false } (a := c1) (c := 0) hc1 (by omega)
        refine ⟨[cmdCU50, lineEM c1 0], .none, w.py, ?_, (fun h => h), fun fuel ext tl log n => ?_⟩
        · simp only [runOp, boardAfter, rcu, rem]
          rw [htr]
          simp [z1, emBoard, meBoard]
        · simp only [genOp, objAfter, boardReads, rcu, rem, List.cons_append, List.nil_append]
          exact gen_me_only1 fuel obj ext tl log n hready r1 r2 c1 h1 (by simpa using h2) z1
      · have rem := recv_EM w.board (a := c1) (c := c2) hc1 hc2
        have hcase : (c1 = 0 ∧ c2 = 0) ∨ (c1 ≠ 0 ∧ c2 ≠ 0) := by omega
        refine ⟨[lineEM c1 c2], .none, w.py, ?_, (fun h => h), fun fuel ext tl log n => ?_⟩
        · simp only [runOp, boardAfter, rem]
          rw [htr]
          simp [hcase2, hcase1, emBoard, meBoard]
          rcases hcase with ⟨a, b⟩ | ⟨a, b⟩ <;> simp [a, b]
        · simp only [genOp, objAfter, boardReads, rem, List.cons_append, List.nil_append]
          exact gen_me_simple fuel obj ext tl log n hready r1 r2 c1 c2 h1 h2 hcase


/-- a history on the regenerated methods: the values returned, or `none` as soon as a call raises / runs out of fuel -/
def genRunOps (fuel : Nat) : List Op → PyObj.World EBB3_Obj → Option (List PyObj.Val × PyObj.World EBB3_Obj)
  | [], w => some ([], w)
  | op :: rest, w =>
    match genOp fuel op w with
    | .val v w' => (genRunOps fuel rest w').map (fun r => (v :: r.1, r.2))
    | _ => none

theorem spec_step_name_ascii (s : Spec.Abs) (op : Op) (hop : OpOK op) (h : PyIO.isAscii s.board.name = true) :
    PyIO.isAscii (Spec.step s op).2.board.name = true := by
  cases op with
  | writeNick n => exact isAscii_of_printable hop.2.1
  | _ => exact h

theorem nameReq_of_invG {w : World} (h : InvG w) (op : Op) : NameReq w op := by
  cases op <;> first | trivial | exact ⟨h.1.2.2, h.2⟩

theorem gen_ops_bridge (ops : List Op) (w : World) (hinv : InvG w) (hops : ∀ op ∈ ops, OpOK op)
    (obj : EBB3_Obj) (hready : ReadyObj obj) (hname : obj.name = encName w.py.name) :
    ∃ reqs vals py' obj',
      runOps w ops = .ok (vals, ⟨py', boardAfter w.board reqs, reqs.reverse ++ w.sent⟩) ∧
      (ReadyObj obj' ∧ obj'.name = encName py'.name) ∧ InvG ⟨py', boardAfter w.board reqs, reqs.reverse ++ w.sent⟩ ∧
      ∀ (fuel : Nat) (ext : Ext) (tl : List PyIO.Rd) (log : List (List Char)) (n : Nat),
        genRunOps (fuel + 1) ops ⟨obj, ⟨boardReads w.board reqs ++ tl, [], log, n⟩, ext⟩ =
          some (vals.map encVal, ⟨obj', ⟨tl, [], log ++ reqs.map (· ++ ['\r']), n + reqs.length⟩, ext⟩) := by
  induction ops generalizing w obj with
  | nil =>
    refine ⟨[], [], w.py, obj, ?_, ⟨hready, hname⟩, ?_, fun fuel ext tl log n => ?_⟩
    · simp [runOps, boardAfter]
    · simpa [boardAfter] using hinv
    · simp [genRunOps, boardReads]
  | cons op rest ih =>
    have hop := hops op List.mem_cons_self
    obtain ⟨reqs1, v, py1, hm1, hn1, hg1⟩ :=
      gen_op_bridge w hinv.1.1 hinv.1.2.1 op hop (nameReq_of_invG hinv op) obj hready
    -- the invariant after the first call
    have hinv1 : InvG ⟨py1, boardAfter w.board reqs1, reqs1.reverse ++ w.sent⟩ := by
      obtain ⟨w', h1, e1, i1⟩ := runOp_refines w hinv.1 op hop
      rw [hm1] at h1
      have hw : w' = ⟨py1, boardAfter w.board reqs1, reqs1.reverse ++ w.sent⟩ := by
        injection h1 with h1; injection h1 with _ h1; exact h1.symm
      subst hw
      refine ⟨i1, ?_⟩
      have hb : boardAfter w.board reqs1 = (Spec.step ⟨w.board, w.py.name⟩ op).2.board := congrArg Spec.Abs.board e1
      show PyIO.isAscii (boardAfter w.board reqs1).name = true
      rw [hb]
      exact spec_step_name_ascii _ op hop hinv.2
    obtain ⟨reqs2, vals2, py2, obj2, hm2, rel2, hinv2, hg2⟩ :=
      ih ⟨py1, boardAfter w.board reqs1, reqs1.reverse ++ w.sent⟩ hinv1
        (fun o ho => hops o (List.mem_cons_of_mem _ ho)) (objAfter obj w.board op) (readyObj_objAfter hready _ _) (hn1 hname)
    refine ⟨reqs1 ++ reqs2, v :: vals2, py2, obj2, ?_, rel2, ?_, fun fuel ext tl log n => ?_⟩
    · simp only [runOps, hm1, hm2, Bind.bind, Except.bind, boardAfter_append, List.reverse_append, List.append_assoc]
    · simpa [boardAfter_append, List.reverse_append, List.append_assoc] using hinv2
    · simp only [genRunOps, boardReads_append, List.append_assoc]
      rw [hg1 fuel ext (boardReads (boardAfter w.board reqs1) reqs2 ++ tl) log n]
      simp only []
      rw [hg2 fuel ext tl (log ++ reqs1.map (· ++ ['\r'])) (n + reqs1.length)]
      simp [List.map_append, Nat.add_assoc]



/-- the world of the model that corresponds to a ready regenerated object on board `b` -/
abbrev readyWorld (b : Board) (nm : Option Str) : World := ⟨⟨true, false, nm⟩, b, []⟩

/-- a ready regenerated object for the non-vacuity examples -/
def exampleObj : EBB3_Obj := { EBB3_Obj.init with port := PyObj.Val.port }

theorem exampleObj_ready : ReadyObj exampleObj := ⟨rfl, rfl⟩

end Plotink.C16
