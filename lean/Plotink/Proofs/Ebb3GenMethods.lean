import Plotink.Proofs.Ebb3GenPrims

/-! # Bridges of the helpers of shape *guard → text → `self.command(text)`* (instances of `cmdShape_sim`) -/

namespace Plotink
namespace Ebb3Gen
open PyObj Gen
set_option linter.unusedSimpArgs false
set_option linter.unusedVariables false

theorem flatten_cons_str (a : List Char) (l : List Val) :
    (List.map strOf (Val.str a :: l)).flatten = a ++ (List.map strOf l).flatten := by simp [strOf]
theorem flatten_cons_int (n : Int) (l : List Val) :
    (List.map strOf (Val.int n :: l)).flatten = Ebb3.showInt n ++ (List.map strOf l).flatten := by simp [strOf]
theorem flatten_nil : (List.map strOf ([] : List Val)).flatten = [] := rfl

/-- an optional integer argument as the Python value -/
def encOptInt : Option Int → Val
  | Option.none => .none
  | some z => .int z

/-- evaluate an f-string of literals and integers -/
macro "fstr_eval" : tactic => `(tactic|
  simp only [fstr, evalList_cons_ok, evalList_nil, flatten_cons_str, flatten_cons_int, flatten_nil, Ebb3.commaInts,
    List.append_assoc, List.append_nil, List.cons_append, List.nil_append, load_str, ok_apply,
    lit_SMc, lit_HMc, lit_EMc, lit_SPc, lit_POBc, lit_PDBc, lit_SC5, lit_SC4, lit_SC12, lit_SC11, lit_SRc, lit_SLc,
    lit_QLc, lit_PIBc, lit_STc, showInt_zero, showInt_one])

theorem isAscii_lit_comma (pre : List Char) (l : List Int) (h : PyIO.isAscii pre = true) :
    PyIO.isAscii (pre ++ Ebb3.commaInts l) = true := by
  rw [isAscii_append, h, isAscii_commaInts]; rfl

theorem isAscii_lit_int (pre : List Char) (z : Int) (h : PyIO.isAscii pre = true) :
    PyIO.isAscii (pre ++ Ebb3.showInt z) = true := by
  rw [isAscii_append, h, isAscii_showInt]; rfl

theorem xy_move_bridge (fuel : Nat) (hf : 26 ≤ fuel) (dx dy dur : Int) (w : World EBB3_Obj) (hg : Good w) :
    Sim (EBBMotionWrap_xy_move fuel (.int dx) (.int dy) (.int dur) w)
      (Ebb3.run Ebb3.srcParams Ebb3.scriptDev (.xy_move dx dy dur) (absWorld w)) := by
  refine cmdShape_sim fuel hf _ (isAscii_lit_comma _ _ (by decide)) w hg _ ?_
  unfold EBBMotionWrap_xy_move EBBMotionWrap_xy_move_main EBBMotionWrap_xy_move_if1
  rw [block_cons2, run_guard2 _ _ _ _ _ hg.obj]
  congr 1
  rw [block_cons2, block_one,
    run_seq_assign_ok (v := .str ("SM,".toList ++ Ebb3.commaInts [dur, dy, dx])) (by fstr_eval),
    run_cmd_expr (text := "SM,".toList ++ Ebb3.commaInts [dur, dy, dx]) (by rfl)]

theorem abs_move_bridge (fuel : Nat) (hf : 26 ≤ fuel) (rate : Int) (p1 p2 : Option Int) (w : World EBB3_Obj) (hg : Good w) :
    Sim (EBBMotionWrap_abs_move fuel (.int rate) (encOptInt p1) (encOptInt p2) w)
      (Ebb3.run Ebb3.srcParams Ebb3.scriptDev (.abs_move rate p1 p2) (absWorld w)) := by
  have hasc : PyIO.isAscii (Ebb3.absMoveText rate p1 p2) = true := by
    cases p1 <;> cases p2 <;> simp only [Ebb3.absMoveText] <;>
      first | exact isAscii_lit_comma _ _ (by decide) | exact isAscii_lit_int _ _ (by decide)
  refine cmdShape_sim fuel hf _ hasc w hg _ ?_
  unfold EBBMotionWrap_abs_move EBBMotionWrap_abs_move_main EBBMotionWrap_abs_move_if1
  rw [block_cons2, run_guard2 _ _ _ _ _ hg.obj]
  congr 1
  rw [block_cons2, block_one]
  rw [run_seq_norm (env' := ⟨.int rate, encOptInt p1, encOptInt p2, .str (Ebb3.absMoveText rate p1 p2)⟩) (w' := w) (by
    unfold EBBMotionWrap_abs_move_if2
    cases p1 <;> cases p2 <;>
      simp only [encOptInt, ifte, assign, and_ok, app1_ok, op_is_not_none, isNone, ofP_ok, ok_apply, truthy_bool, Bool.not_true,
        Bool.not_false, Bool.false_eq_true, ↓reduceIte, Ebb3.absMoveText] <;> fstr_eval)]
  rw [run_cmd_expr (text := Ebb3.absMoveText rate p1 p2) (by rfl)]

theorem motors_disable_bridge (fuel : Nat) (hf : 26 ≤ fuel) (w : World EBB3_Obj) (hg : Good w) :
    Sim (EBBMotionWrap_motors_disable fuel w)
      (Ebb3.run Ebb3.srcParams Ebb3.scriptDev .motors_disable (absWorld w)) := by
  show Sim _ ((Ebb3.cmdP Ebb3.srcParams Ebb3.scriptDev "EM,0,0".toList).run (absWorld w))
  rw [lit_EM00]
  refine cmdShape_sim fuel hf _ (by decide) w hg _ ?_
  unfold EBBMotionWrap_motors_disable EBBMotionWrap_motors_disable_main EBBMotionWrap_motors_disable_if1
  rw [block_cons2, run_guard2 _ _ _ _ _ hg.obj, block_one, run_cmd_expr (text := ['E', 'M', ',', '0', ',', '0']) (by rfl)]

theorem clear_steps_bridge (fuel : Nat) (hf : 26 ≤ fuel) (w : World EBB3_Obj) (hg : Good w) :
    Sim (EBBMotionWrap_clear_steps fuel w)
      (Ebb3.run Ebb3.srcParams Ebb3.scriptDev .clear_steps (absWorld w)) := by
  show Sim _ ((Ebb3.cmdP Ebb3.srcParams Ebb3.scriptDev "CS".toList).run (absWorld w))
  rw [lit_CS]
  refine cmdShape_sim fuel hf _ (by decide) w hg _ ?_
  unfold EBBMotionWrap_clear_steps EBBMotionWrap_clear_steps_main EBBMotionWrap_clear_steps_if1
  rw [block_cons2, run_guard2 _ _ _ _ _ hg.obj, block_one, run_cmd_expr (text := ['C', 'S']) (by rfl)]

theorem clear_accumulators_bridge (fuel : Nat) (hf : 26 ≤ fuel) (w : World EBB3_Obj) (hg : Good w) :
    Sim (EBBMotionWrap_clear_accumulators fuel w)
      (Ebb3.run Ebb3.srcParams Ebb3.scriptDev .clear_accumulators (absWorld w)) := by
  show Sim _ ((Ebb3.cmdP Ebb3.srcParams Ebb3.scriptDev "T3,1,0,0,0,0,0,0,3".toList).run (absWorld w))
  rw [lit_T3]
  refine cmdShape_sim fuel hf _ (by decide) w hg _ ?_
  unfold EBBMotionWrap_clear_accumulators EBBMotionWrap_clear_accumulators_main EBBMotionWrap_clear_accumulators_if1
  rw [block_cons2, run_guard2 _ _ _ _ _ hg.obj, block_one,
    run_cmd_expr (text := ['T', '3', ',', '1', ',', '0', ',', '0', ',', '0', ',', '0', ',', '0', ',', '0', ',', '3']) (by rfl)]

theorem penText_ascii (u d : Int) (p : Option Int) : PyIO.isAscii (Ebb3.penText u d p) = true := by
  cases p <;> simp only [Ebb3.penText] <;> exact isAscii_lit_comma _ _ (by decide)

theorem pen_lower_bridge (fuel : Nat) (hf : 26 ≤ fuel) (d : Int) (pin : Option Int) (w : World EBB3_Obj) (hg : Good w) :
    Sim (EBBMotionWrap_pen_lower fuel (.int d) (encOptInt pin) w)
      (Ebb3.run Ebb3.srcParams Ebb3.scriptDev (.pen_lower d pin) (absWorld w)) := by
  refine cmdShape_sim fuel hf _ (penText_ascii 0 d pin) w hg _ ?_
  unfold EBBMotionWrap_pen_lower EBBMotionWrap_pen_lower_main EBBMotionWrap_pen_lower_if1
  rw [block_cons2, run_guard2 _ _ _ _ _ hg.obj]
  congr 1
  rw [block_cons2, block_one]
  rw [run_seq_norm (env' := ⟨.int d, encOptInt pin, .str (Ebb3.penText 0 d pin)⟩) (w' := w) (by
    unfold EBBMotionWrap_pen_lower_if2
    cases pin <;>
      simp only [encOptInt, ifte, assign, app1_ok, op_is_not_none, isNone, ofP_ok, ok_apply, truthy_bool, Bool.not_true,
        Bool.not_false, Bool.false_eq_true, ↓reduceIte, Ebb3.penText] <;> fstr_eval)]
  rw [run_cmd_expr (text := Ebb3.penText 0 d pin) (by rfl)]

theorem pen_raise_bridge (fuel : Nat) (hf : 26 ≤ fuel) (d : Int) (pin : Option Int) (w : World EBB3_Obj) (hg : Good w) :
    Sim (EBBMotionWrap_pen_raise fuel (.int d) (encOptInt pin) w)
      (Ebb3.run Ebb3.srcParams Ebb3.scriptDev (.pen_raise d pin) (absWorld w)) := by
  refine cmdShape_sim fuel hf _ (penText_ascii 1 d pin) w hg _ ?_
  unfold EBBMotionWrap_pen_raise EBBMotionWrap_pen_raise_main EBBMotionWrap_pen_raise_if1
  rw [block_cons2, run_guard2 _ _ _ _ _ hg.obj]
  congr 1
  rw [block_cons2, block_one]
  rw [run_seq_norm (env' := ⟨.int d, encOptInt pin, .str (Ebb3.penText 1 d pin)⟩) (w' := w) (by
    unfold EBBMotionWrap_pen_raise_if2
    cases pin <;>
      simp only [encOptInt, ifte, assign, app1_ok, op_is_not_none, isNone, ofP_ok, ok_apply, truthy_bool, Bool.not_true,
        Bool.not_false, Bool.false_eq_true, ↓reduceIte, Ebb3.penText] <;> fstr_eval)]
  rw [run_cmd_expr (text := Ebb3.penText 1 d pin) (by rfl)]

theorem dio_b_set_bridge (fuel : Nat) (hf : 26 ≤ fuel) (pin state : Int) (w : World EBB3_Obj) (hg : Good w) :
    Sim (EBBMotionWrap_dio_b_set fuel (.int pin) (.int state) w)
      (Ebb3.run Ebb3.srcParams Ebb3.scriptDev (.dio_b_set pin state) (absWorld w)) := by
  refine cmdShape_sim fuel hf _ (isAscii_lit_comma _ _ (by decide)) w hg _ ?_
  unfold EBBMotionWrap_dio_b_set EBBMotionWrap_dio_b_set_main EBBMotionWrap_dio_b_set_if1
  rw [block_cons2, run_guard2 _ _ _ _ _ hg.obj, block_one,
    run_cmd_expr (text := "PO,B,".toList ++ Ebb3.commaInts [pin, state]) (by fstr_eval)]

theorem pen_pos_down_bridge (fuel : Nat) (hf : 26 ≤ fuel) (v : Int) (w : World EBB3_Obj) (hg : Good w) :
    Sim (EBBMotionWrap_pen_pos_down fuel (.int v) w)
      (Ebb3.run Ebb3.srcParams Ebb3.scriptDev (.pen_pos_down v) (absWorld w)) := by
  refine cmdShape_sim fuel hf _ (isAscii_lit_int _ _ (by decide)) w hg _ ?_
  unfold EBBMotionWrap_pen_pos_down EBBMotionWrap_pen_pos_down_main EBBMotionWrap_pen_pos_down_if1
  rw [block_cons2, run_guard2 _ _ _ _ _ hg.obj, block_one,
    run_cmd_expr (text := "SC,5,".toList ++ Ebb3.showInt v) (by fstr_eval)]

theorem pen_pos_up_bridge (fuel : Nat) (hf : 26 ≤ fuel) (v : Int) (w : World EBB3_Obj) (hg : Good w) :
    Sim (EBBMotionWrap_pen_pos_up fuel (.int v) w)
      (Ebb3.run Ebb3.srcParams Ebb3.scriptDev (.pen_pos_up v) (absWorld w)) := by
  refine cmdShape_sim fuel hf _ (isAscii_lit_int _ _ (by decide)) w hg _ ?_
  unfold EBBMotionWrap_pen_pos_up EBBMotionWrap_pen_pos_up_main EBBMotionWrap_pen_pos_up_if1
  rw [block_cons2, run_guard2 _ _ _ _ _ hg.obj, block_one,
    run_cmd_expr (text := "SC,4,".toList ++ Ebb3.showInt v) (by fstr_eval)]

theorem pen_rate_down_bridge (fuel : Nat) (hf : 26 ≤ fuel) (v : Int) (w : World EBB3_Obj) (hg : Good w) :
    Sim (EBBMotionWrap_pen_rate_down fuel (.int v) w)
      (Ebb3.run Ebb3.srcParams Ebb3.scriptDev (.pen_rate_down v) (absWorld w)) := by
  refine cmdShape_sim fuel hf _ (isAscii_lit_int _ _ (by decide)) w hg _ ?_
  unfold EBBMotionWrap_pen_rate_down EBBMotionWrap_pen_rate_down_main EBBMotionWrap_pen_rate_down_if1
  rw [block_cons2, run_guard2 _ _ _ _ _ hg.obj, block_one,
    run_cmd_expr (text := "SC,12,".toList ++ Ebb3.showInt v) (by fstr_eval)]

theorem pen_rate_up_bridge (fuel : Nat) (hf : 26 ≤ fuel) (v : Int) (w : World EBB3_Obj) (hg : Good w) :
    Sim (EBBMotionWrap_pen_rate_up fuel (.int v) w)
      (Ebb3.run Ebb3.srcParams Ebb3.scriptDev (.pen_rate_up v) (absWorld w)) := by
  refine cmdShape_sim fuel hf _ (isAscii_lit_int _ _ (by decide)) w hg _ ?_
  unfold EBBMotionWrap_pen_rate_up EBBMotionWrap_pen_rate_up_main EBBMotionWrap_pen_rate_up_if1
  rw [block_cons2, run_guard2 _ _ _ _ _ hg.obj, block_one,
    run_cmd_expr (text := "SC,11,".toList ++ Ebb3.showInt v) (by fstr_eval)]

theorem servo_timeout_bridge (fuel : Nat) (hf : 26 ≤ fuel) (ms : Int) (state : Option Int) (w : World EBB3_Obj) (hg : Good w) :
    Sim (EBBMotionWrap_servo_timeout fuel (.int ms) (encOptInt state) w)
      (Ebb3.run Ebb3.srcParams Ebb3.scriptDev (.servo_timeout ms state) (absWorld w)) := by
  have hasc : PyIO.isAscii (Ebb3.servoText ms state) = true := by
    cases state <;> simp only [Ebb3.servoText] <;>
      first | exact isAscii_lit_comma _ _ (by decide) | exact isAscii_lit_int _ _ (by decide)
  refine cmdShape_sim fuel hf _ hasc w hg _ ?_
  unfold EBBMotionWrap_servo_timeout EBBMotionWrap_servo_timeout_main EBBMotionWrap_servo_timeout_if1
  rw [block_cons2, run_guard2 _ _ _ _ _ hg.obj]
  congr 1
  rw [block_cons2, block_one]
  rw [run_seq_norm (env' := ⟨.int ms, encOptInt state, .str (Ebb3.servoText ms state)⟩) (w' := w) (by
    unfold EBBMotionWrap_servo_timeout_if2
    cases state <;>
      simp only [encOptInt, ifte, assign, app1_ok, op_is_none, isNone, ofP_ok, ok_apply, truthy_bool,
        Bool.false_eq_true, ↓reduceIte, Ebb3.servoText] <;> fstr_eval)]
  rw [run_cmd_expr (text := Ebb3.servoText ms state) (by rfl)]

end Ebb3Gen
end Plotink
