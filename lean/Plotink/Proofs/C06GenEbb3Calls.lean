import Plotink.Proofs.C06GenEbb3Model
import Plotink.Proofs.C06GenEbb3
import Plotink.Model.Ebb3Params
/-! # What each remaining EBB3 method writes, on the model

For the methods that query the board, write directly (`query_statusbyte`, `reboot`, `bootload`) or transmit several
requests (`dio_b_config`, `var_write_int32`, `var_read_int32`, `timed_pause`, `motors_enable`): the write log of
`Ebb3.run P scriptDev c` on a ready object, as wire texts of `C06.Cmd`s. -/
namespace Plotink
namespace C06Gen
open Ebb3 Ebb3.M Ebb3.Spec
set_option linter.unusedVariables false
set_option linter.unusedSimpArgs false

/-! ## the model's texts are `textChars` -/

theorem plain_textChars (n : String) (l : List Int) (hsp : n.toList.all (fun c => !Ebb3.isSpace c) = true) (hne : n.toList ≠ []) :
    Plain (textChars n l) :=
  ⟨by intro h; simp only [textChars, List.append_eq_nil_iff] at h; exact hne h.1, strip_textChars n l hsp⟩

theorem argChars_cons (a : Int) (l : List Int) : argChars (a :: l) = ',' :: commaInts (a :: l) := by
  induction l generalizing a with
  | nil => simp [argChars, commaInts]
  | cons b r ih =>
    rw [argChars, ih b]
    simp [commaInts]

theorem lit_QLc : "QL,".toList = ['Q', 'L', ','] := by decide
theorem lit_QL : "QL".toList = ['Q', 'L'] := by decide
theorem lit_PIBc : "PI,B,".toList = ['P', 'I', ',', 'B', ','] := by decide
theorem lit_PIB : "PI,B".toList = ['P', 'I', ',', 'B'] := by decide
theorem lit_POBc : "PO,B,".toList = ['P', 'O', ',', 'B', ','] := by decide
theorem lit_PDBc : "PD,B,".toList = ['P', 'D', ',', 'B', ','] := by decide
theorem lit_SLc : "SL,".toList = ['S', 'L', ','] := by decide
theorem lit_SMc : "SM,".toList = ['S', 'M', ','] := by decide
theorem lit_EMc : "EM,".toList = ['E', 'M', ','] := by decide
theorem lit_c00 : ",0,0".toList = [',', '0', ',', '0'] := by decide
theorem lit_QS : "QS".toList = ['Q', 'S'] := by decide
theorem lit_QC : "QC".toList = ['Q', 'C'] := by decide
theorem lit_QE : "QE".toList = ['Q', 'E'] := by decide
theorem lit_QT : "QT".toList = ['Q', 'T'] := by decide
theorem lit_QG : "QG".toList = ['Q', 'G'] := by decide
theorem lit_RB : "RB".toList = ['R', 'B'] := by decide
theorem lit_BL : "BL".toList = ['B', 'L'] := by decide
theorem lit_CU : "CU".toList = ['C', 'U'] := by decide
theorem lit_QGr : "QG\r".toList = ['Q', 'G', '\r'] := by decide
theorem lit_RBr : "RB\r".toList = ['R', 'B', '\r'] := by decide
theorem lit_BLr : "BL\r".toList = ['B', 'L', '\r'] := by decide
theorem lit_CU500 : "CU,50,0".toList = ['C', 'U', ',', '5', '0', ',', '0'] := by decide
theorem showInt_50 : Ebb3.showInt 50 = ['5', '0'] := by decide

theorem text_QL (i : Int) : "QL,".toList ++ showInt i = textChars "QL" [i] := by
  simp [textChars, argChars, lit_QLc, lit_QL]
theorem text_PIB (p : Int) : "PI,B,".toList ++ showInt p = textChars "PI,B" [p] := by
  simp [textChars, argChars, lit_PIBc, lit_PIB]
theorem text_POB (p s : Int) : "PO,B,".toList ++ commaInts [p, s] = textChars "PO,B" [p, s] := by
  simp [textChars, argChars, commaInts, lit_POBc, lit_PO_B]
theorem text_PDB (p d : Int) : "PD,B,".toList ++ commaInts [p, d] = textChars "PD,B" [p, d] := by
  simp [textChars, argChars, commaInts, lit_PDBc, lit_PD_B]
theorem text_SL (v i : Int) : "SL,".toList ++ showInt v ++ [','] ++ showInt i = textChars "SL" [v, i] := by
  simp [textChars, argChars, lit_SLc, lit_SL]
theorem text_pause (d : Int) : pauseText d = textChars "SM" [d, 0, 0] := by
  simp [pauseText, textChars, argChars, lit_SMc, lit_SM, lit_c00, showInt_0]
theorem text_EM (x y : Int) : emText x y = textChars "EM" [x, y] := by
  simp [emText, textChars, argChars, commaInts, lit_EMc, lit_EM]
theorem text_CU : "CU,50,0".toList = textChars "CU" [50, 0] := by
  simp [textChars, argChars, lit_CU500, lit_CU, showInt_50, showInt_0]
theorem text0 (n : String) : n.toList = textChars n [] := by simp [textChars, argChars]

/-! ## one query, then a quiet decoder -/

theorem query_then_quiet (P : Params) (q : Str) (hq : Plain q) (f : Val → M Script Val) (hf : ∀ v, Quiet (f v))
    (w : World Script) (hr : Ready w) :
    Sends ((queryP P scriptDev (some q)).run >>= f) w [q ++ ['\r']] := by
  obtain ⟨v, w', e, hl⟩ := query_sends P q hq w hr
  unfold Sends
  rw [Ebb3.bind_ok e, hf v w', hl]

theorem run_open (P : Params) (c : Call) (fv : Val) (hg : (prog P scriptDev c).guard = some fv) (w : World Script) (hr : Ready w) :
    run P scriptDev c w = (prog P scriptDev c).body w := by
  unfold run Prog.run
  rw [hg]
  exact guardM_open _ _ _ hr.not_blocked

theorem wireOf (n : String) (l : List Int) : textChars n l ++ ['\r'] = (C06.Cmd.wire ⟨n, l⟩).toList := textChars_wire n l

/-- `var_read`: `QL,<index>` -/
theorem sends_var_read (P : Params) (i : Int) (w : World Script) (hr : Ready w) :
    Sends (run P scriptDev (.var_read i)) w [(C06.Cmd.wire ⟨"QL", [i]⟩).toList] := by
  unfold Sends
  rw [run_open P _ .none rfl w hr, ← wireOf]
  show Sends ((queryP P scriptDev (some ("QL,".toList ++ showInt i))).run >>= _) w _
  rw [text_QL]
  exact query_then_quiet P _ (plain_textChars "QL" [i] (by decide) (by decide)) _
    (fun v => Quiet.bind Quiet.getSt fun st => Quiet.ite (Quiet.pure _) (Quiet.intOfVal v)) w hr

/-- `dio_b_read`: `PI,B,<pin>` -/
theorem sends_dio_b_read (P : Params) (p : Int) (w : World Script) (hr : Ready w) :
    Sends (run P scriptDev (.dio_b_read p)) w [(C06.Cmd.wire ⟨"PI,B", [p]⟩).toList] := by
  unfold Sends
  rw [run_open P _ .none rfl w hr, ← wireOf]
  show Sends ((queryP P scriptDev (some ("PI,B,".toList ++ showInt p))).run >>= _) w _
  rw [text_PIB]
  refine query_then_quiet P _ (plain_textChars "PI,B" [p] (by decide) (by decide)) _ (fun v => ?_) w hr
  cases v <;> first | exact Quiet.pure _ | exact Quiet.boolOfStr _

/-- `query_steps`: `QS` -/
theorem sends_query_steps (P : Params) (w : World Script) (hr : Ready w) :
    Sends (run P scriptDev .query_steps) w [(C06.Cmd.wire ⟨"QS", []⟩).toList] := by
  unfold Sends
  rw [run_open P _ .none rfl w hr, ← wireOf]
  show Sends ((queryP P scriptDev (some "QS".toList)).run >>= _) w _
  rw [text0 "QS"]
  refine query_then_quiet P _ (plain_textChars "QS" [] (by decide) (by decide)) _ (fun v => ?_) w hr
  refine Quiet.bind Quiet.getSt fun st => Quiet.ite (Quiet.pure _) ?_
  cases v <;> first | exact Quiet.raise _ | exact Quiet.int2 _

/-- `query_voltage`: `QC` -/
theorem sends_query_voltage (P : Params) (t : Option Int) (w : World Script) (hr : Ready w) :
    Sends (run P scriptDev (.query_voltage t)) w [(C06.Cmd.wire ⟨"QC", []⟩).toList] := by
  unfold Sends
  rw [run_open P _ .none rfl w hr, ← wireOf]
  show Sends ((queryP P scriptDev (some "QC".toList)).run >>= _) w _
  rw [text0 "QC"]
  refine query_then_quiet P _ (plain_textChars "QC" [] (by decide) (by decide)) _ (fun v => ?_) w hr
  cases v <;> first | exact Quiet.pure _ | exact Quiet.voltageDecode _ _

/-- `query_current`: `QC` -/
theorem sends_query_current (P : Params) (w : World Script) (hr : Ready w) :
    Sends (run P scriptDev .query_current) w [(C06.Cmd.wire ⟨"QC", []⟩).toList] := by
  unfold Sends
  rw [run_open P _ (.pair .none .none) rfl w hr, ← wireOf]
  show Sends ((queryP P scriptDev (some "QC".toList)).run >>= _) w _
  rw [text0 "QC"]
  refine query_then_quiet P _ (plain_textChars "QC" [] (by decide) (by decide)) _ (fun v => ?_) w hr
  cases v <;> first | exact Quiet.pure _ | exact Quiet.currentDecode _

/-- `motors_query_enabled`: `QE` -/
theorem sends_motors_query_enabled (P : Params) (w : World Script) (hr : Ready w) :
    Sends (run P scriptDev .motors_query_enabled) w [(C06.Cmd.wire ⟨"QE", []⟩).toList] := by
  unfold Sends
  rw [run_open P _ .none rfl w hr, ← wireOf]
  show Sends ((queryP P scriptDev (some "QE".toList)).run >>= _) w _
  rw [text0 "QE"]
  refine query_then_quiet P _ (plain_textChars "QE" [] (by decide) (by decide)) _ (fun v => ?_) w hr
  cases v <;> first | exact Quiet.pure _ | exact Quiet.qeDecode _

/-- `query_nickname`: `QT` -/
theorem sends_query_nickname (P : Params) (w : World Script) (hr : Ready w) :
    Sends (run P scriptDev .query_nickname) w [(C06.Cmd.wire ⟨"QT", []⟩).toList] := by
  unfold Sends
  rw [run_open P _ .none rfl w hr, ← wireOf]
  show Sends ((queryP P scriptDev (some "QT".toList)).run >>= _) w _
  rw [text0 "QT"]
  refine query_then_quiet P _ (plain_textChars "QT" [] (by decide) (by decide)) _ (fun v => ?_) w hr
  cases v <;> first | exact Quiet.pure _ | exact Quiet.bind (Quiet.ite (Quiet.pure _) (Quiet.modifySt _)) fun _ => Quiet.pure _

/-! ## direct writes: `query_statusbyte`, `reboot`, `bootload` -/

theorem portWrite_then_quiet (text : Str) (f : Bool → M Script Val) (hf : ∀ b, Quiet (f b)) (w : World Script) :
    Sends (portWrite scriptDev text >>= f) w [text] := by
  unfold Sends
  have e : ∃ b w', portWrite scriptDev text w = (.ok b, w') ∧ w'.out = w.out ++ [text] := ⟨_, _, rfl, rfl⟩
  obtain ⟨b, w', e, hl⟩ := e
  rw [Ebb3.bind_ok e, hf b w', hl]

theorem Quiet.portRead : Quiet (portRead scriptDev) := fun _ => rfl
theorem Quiet.recordError (m : Str) : Quiet (recordError m : M Script Unit) := Quiet.modifySt _

theorem Quiet.qgJudge (r : Str) : Quiet (qgJudge r : M Script Val) := by
  unfold Ebb3.qgJudge
  split
  · exact Quiet.bind (Quiet.ite (Quiet.recordError _) (Quiet.recordError _)) fun _ => Quiet.pure _
  · split
    · exact Quiet.bind (Quiet.recordError _) fun _ => Quiet.pure _
    · split <;> exact Quiet.pure _

theorem Quiet.qgUsbFail : Quiet (qgUsbFail : M Script Val) := Quiet.bind (Quiet.recordError _) fun _ => Quiet.pure _

/-- `query_statusbyte`: the bytes `QG\r` -/
theorem sends_query_statusbyte (P : Params) (w : World Script) (hr : Ready w) :
    Sends (run P scriptDev .query_statusbyte) w [(C06.Cmd.wire ⟨"QG", []⟩).toList] := by
  unfold Sends
  rw [run_open P _ .none rfl w hr, ← wireOf, ← text0, lit_QG]
  show Sends (portWrite scriptDev "QG\r".toList >>= _) w _
  rw [lit_QGr]
  refine portWrite_then_quiet _ _ (fun b => ?_) w
  cases b
  · exact Quiet.qgUsbFail
  · refine Quiet.bind Quiet.portRead fun r => ?_
    cases r <;> first | exact Quiet.qgUsbFail | exact Quiet.qgJudge _

theorem Quiet.rawTail (b : Bool) : Quiet (if b then (do disconnectM; pure (Val.bool true)) else pure (Val.bool false) : M Script Val) := by
  cases b
  · exact Quiet.pure _
  · exact Quiet.bind (Quiet.modifySt _) fun _ => Quiet.pure _

/-- `reboot`: the bytes `RB\r` -/
theorem sends_reboot (P : Params) (w : World Script) (hr : Ready w) :
    Sends (run P scriptDev .reboot) w [(C06.Cmd.wire ⟨"RB", []⟩).toList] := by
  unfold Sends
  rw [run_open P _ (.bool false) rfl w hr, ← wireOf, ← text0, lit_RB]
  show Sends (portWrite scriptDev "RB\r".toList >>= _) w _
  rw [lit_RBr]
  exact portWrite_then_quiet _ _ Quiet.rawTail w

/-- `bootload`: the bytes `BL\r` -/
theorem sends_bootload (P : Params) (w : World Script) (hr : Ready w) :
    Sends (run P scriptDev .bootload) w [(C06.Cmd.wire ⟨"BL", []⟩).toList] := by
  unfold Sends
  rw [run_open P _ (.bool false) rfl w hr, ← wireOf, ← text0, lit_BL]
  show Sends (portWrite scriptDev "BL\r".toList >>= _) w _
  rw [lit_BLr]
  exact portWrite_then_quiet _ _ Quiet.rawTail w

/-! ## several requests, acknowledged -/

/-- the world after an acknowledged command -/
theorem cmd_step (P : Params) (t : Str) (ht : Plain t) (w : World Script) (hr : Ready w)
    (ha : Answered (P.retryCmd + 1) t w.dev) :
    ∃ w', cmd_ P scriptDev t w = (.ok (), w') ∧ w'.st = w.st ∧ w'.dev = advance (P.retryCmd + 1) w.dev ∧
      w'.out = w.out ++ [t ++ ['\r']] := by
  obtain ⟨nr, e⟩ := command_acked P t ht w hr ha
  refine ⟨⟨w.st, advance (P.retryCmd + 1) w.dev, w.out ++ [t ++ ['\r']], nr⟩, ?_, rfl, rfl, rfl⟩
  unfold cmd_
  rw [Ebb3.bind_ok e]
  rfl

theorem ready_of_st {w w' : World Script} (h : w'.st = w.st) (hr : Ready w) : Ready w' := by
  unfold Ready at *; rw [h]; exact hr

/-- a list of acknowledged commands -/
theorem runCmds_acked (P : Params) : ∀ (ts : List Str) (w : World Script), Ready w → (∀ t ∈ ts, Plain t) →
    Acked P (ts.map Xch.cmd) w.dev →
    ∃ w', runCmds P scriptDev ts w = (.ok (), w') ∧ w'.st = w.st ∧ w'.out = w.out ++ ts.map (· ++ ['\r'])
  | [], w, _, _, _ => ⟨w, rfl, rfl, by simp⟩
  | t :: ts, w, hr, hp, ha => by
    obtain ⟨w1, e1, s1, d1, o1⟩ := cmd_step P t (hp t List.mem_cons_self) w hr ha.1
    obtain ⟨w2, e2, s2, o2⟩ := runCmds_acked P ts w1 (ready_of_st s1 hr) (fun x hx => hp x (List.mem_cons_of_mem _ hx))
      (by rw [d1]; exact ha.2)
    refine ⟨w2, ?_, by rw [s2, s1], by rw [o2, o1]; simp⟩
    show (cmd_ P scriptDev t >>= fun _ => runCmds P scriptDev ts) w = _
    rw [Ebb3.bind_ok e1, e2]

/-- `dio_b_config`: `PO,B,<pin>,<state>` then `PD,B,<pin>,<dir>` -/
theorem sends_dio_b_config (P : Params) (p s d : Int) (w : World Script) (hr : Ready w)
    (ha : Acked P [.cmd (textChars "PO,B" [p, s]), .cmd (textChars "PD,B" [p, d])] w.dev) :
    Sends (run P scriptDev (.dio_b_config p s d)) w
      [(C06.Cmd.wire ⟨"PO,B", [p, s]⟩).toList, (C06.Cmd.wire ⟨"PD,B", [p, d]⟩).toList] := by
  unfold Sends
  rw [run_open P _ .none rfl w hr]
  obtain ⟨w', e, _, o⟩ := runCmds_acked P [textChars "PO,B" [p, s], textChars "PD,B" [p, d]] w hr
    (by
      intro t ht
      simp only [List.mem_cons, List.mem_nil_iff, or_false] at ht
      rcases ht with rfl | rfl
      · exact plain_textChars _ _ (by decide) (by decide)
      · exact plain_textChars _ _ (by decide) (by decide)) ha
  show ((do cmd_ P scriptDev ("PO,B,".toList ++ commaInts [p, s]); cmd_ P scriptDev ("PD,B,".toList ++ commaInts [p, d]); pure Val.none : M Script Val) w).2.out = _
  rw [text_POB, text_PDB]
  have e' : (do cmd_ P scriptDev (textChars "PO,B" [p, s]); cmd_ P scriptDev (textChars "PD,B" [p, d]); pure Val.none : M Script Val) w
      = (.ok .none, w') := by
    have h2 : runCmds P scriptDev [textChars "PO,B" [p, s], textChars "PD,B" [p, d]] w
        = (do cmd_ P scriptDev (textChars "PO,B" [p, s]); cmd_ P scriptDev (textChars "PD,B" [p, d]); pure () : M Script Unit) w := rfl
    rw [h2] at e
    simp only [bind_apply] at e ⊢
    cases h : cmd_ P scriptDev (textChars "PO,B" [p, s]) w with
    | mk r1 w1 =>
      rw [h] at e
      cases r1 with
      | error x => simp at e
      | ok u =>
        simp only at e ⊢
        cases h' : cmd_ P scriptDev (textChars "PD,B" [p, d]) w1 with
        | mk r2 w2 =>
          rw [h'] at e
          cases r2 with
          | error x => simp at e
          | ok u2 =>
            simp only [pure_apply, Prod.mk.injEq, true_and] at e ⊢
            rw [e]
  rw [e', o]
  simp [wireOf]

/-! ### `timed_pause` -/

theorem pauseChunks_src : ∀ (m : Nat) (t : Int), pauseChunks srcParams m t = C06.ebb3PauseLoop 750 m t := by
  intro m
  induction m with
  | zero => intro t; rfl
  | succ k ih =>
    intro t
    have h1 : srcParams.pauseCmp = 750 := rfl
    have h2 : srcParams.pauseChunk = 750 := rfl
    simp only [pauseChunks, C06.ebb3PauseLoop, h1, h2, ih]

theorem pauseChunks_doc (t : Int) : pauseChunks srcParams (t.toNat + 1) t = C06.docPause t := by
  rw [pauseChunks_src, C06.ebb3PauseLoop_eq_legacy, C06.legacyPauseLoop_eq_doc _ _ (by omega)]

/-- `timed_pause`: the zero-moves of the canonical chunking, when each is acknowledged -/
theorem sends_timed_pause (t : Int) (w : World Script) (hr : Ready w)
    (ha : Acked srcParams ((C06.docPause t).map (fun d => Xch.cmd (textChars "SM" [d, 0, 0]))) w.dev) :
    Sends (run srcParams scriptDev (.timed_pause t)) w
      ((C06.docPause t).map (fun d => (C06.Cmd.wire ⟨"SM", [d, 0, 0]⟩).toList)) := by
  unfold Sends
  rw [run_open srcParams _ .none rfl w hr]
  show ((do runCmds srcParams scriptDev ((pauseChunks srcParams (t.toNat + 1) t).map pauseText); pure Val.none : M Script Val) w).2.out = _
  rw [pauseChunks_doc]
  have hmap : (C06.docPause t).map pauseText = (C06.docPause t).map (fun d => textChars "SM" [d, 0, 0]) :=
    List.map_congr_left fun d _ => text_pause d
  rw [hmap]
  obtain ⟨w', e, _, o⟩ := runCmds_acked srcParams ((C06.docPause t).map (fun d => textChars "SM" [d, 0, 0])) w hr
    (by
      intro x hx
      obtain ⟨d, _, rfl⟩ := List.mem_map.mp hx
      exact plain_textChars _ _ (by decide) (by decide))
    (by simpa [List.map_map, Function.comp_def] using ha)
  rw [Ebb3.bind_ok e]
  show w'.out = _
  rw [o]
  simp [List.map_map, Function.comp_def, wireOf]

/-! ### `var_write_int32`, `var_read_int32` -/

/-- one acknowledged `var_write` inside `var_write_int32` -/
theorem var_write_step (P : Params) (v i : Int) (w : World Script) (hr : Ready w)
    (ha : Answered (P.retryCmd + 1) (textChars "SL" [v, i]) w.dev) :
    ∃ r w', (varWriteP P scriptDev v i).run w = (.ok r, w') ∧ w'.st = w.st ∧ w'.dev = advance (P.retryCmd + 1) w.dev ∧
      w'.out = w.out ++ [(C06.Cmd.wire ⟨"SL", [v, i]⟩).toList] := by
  obtain ⟨nr, e⟩ := command_acked P (textChars "SL" [v, i]) (plain_textChars _ _ (by decide) (by decide)) w hr ha
  refine ⟨.bool w.st.err.isNone, ⟨w.st, advance (P.retryCmd + 1) w.dev, w.out ++ [textChars "SL" [v, i] ++ ['\r']], nr⟩, ?_, rfl, rfl,
    by rw [wireOf]⟩
  unfold Prog.run varWriteP
  simp only
  rw [guardM_open _ _ _ hr.not_blocked, text_SL, Ebb3.bind_ok e]
  rfl

/-- `var_write_int32`: four `SL,<byte>,<index+k>`, most significant byte first, when each is acknowledged -/
theorem sends_var_write_int32 (P : Params) (v i : Int) (hv : C06.int32InRange v) (w : World Script) (hr : Ready w)
    (ha : Acked P ((C06.documented ⟨0, 0⟩ (.varWriteInt32 v i)).map (fun c => Xch.cmd (textChars c.name c.args))) w.dev) :
    Sends (run P scriptDev (.var_write_int32 v i)) w ((C06.documented ⟨0, 0⟩ (.varWriteInt32 v i)).map (fun c => c.wire.toList)) := by
  unfold Sends
  rw [run_open P _ (.bool false) rfl w hr]
  have hb : toBytes4 v = .ok ((v % 4294967296) / 16777216, ((v % 4294967296) / 65536) % 256,
      ((v % 4294967296) / 256) % 256, (v % 4294967296) % 256) := by
    unfold toBytes4
    have : -2147483648 ≤ v ∧ v < 2147483648 := ⟨hv.1, by have := hv.2; omega⟩
    simp [this]
  simp only [C06.documented, C06.int32Bytes, List.map_cons, List.map_nil] at ha ⊢
  obtain ⟨a1, a2, a3, a4, _⟩ := ha
  show ((match toBytes4 v with
    | .error e => M.raise e
    | .ok (b3, b2, b1, b0) => do
      let _ ← (varWriteP P scriptDev b3 i).run
      let _ ← (varWriteP P scriptDev b2 (i + 1)).run
      let _ ← (varWriteP P scriptDev b1 (i + 2)).run
      let _ ← (varWriteP P scriptDev b0 (i + 3)).run
      errIsNone : M Script Val) w).2.out = _
  rw [hb]
  simp only
  obtain ⟨r1, w1, e1, s1, d1, o1⟩ := var_write_step P _ i w hr a1
  obtain ⟨r2, w2, e2, s2, d2, o2⟩ := var_write_step P _ (i + 1) w1 (ready_of_st s1 hr) (by rw [d1]; exact a2)
  obtain ⟨r3, w3, e3, s3, d3, o3⟩ := var_write_step P _ (i + 2) w2 (ready_of_st s2 (ready_of_st s1 hr)) (by rw [d2, d1]; exact a3)
  obtain ⟨r4, w4, e4, s4, d4, o4⟩ := var_write_step P _ (i + 3) w3 (ready_of_st s3 (ready_of_st s2 (ready_of_st s1 hr)))
    (by rw [d3, d2, d1]; exact a4)
  rw [Ebb3.bind_ok e1, Ebb3.bind_ok e2, Ebb3.bind_ok e3, Ebb3.bind_ok e4, Quiet.errIsNone w4, o4, o3, o2, o1]
  simp

/-- the payload of a `QL` reply is an integer literal -/
def IntPayload (s : Str) : Prop := (pyInt 10 s).isSome = true

/-- one acknowledged `var_read` inside `var_read_int32` -/
theorem var_read_step (P : Params) (i : Int) (w : World Script) (hr : Ready w)
    (ha : Answered (P.retryQry + 1) (textChars "QL" [i]) w.dev)
    (hp : IntPayload (stripHeader (nameOf (textChars "QL" [i])) (replyText (P.retryQry + 1) w.dev))) :
    ∃ r w', (varReadP P scriptDev i).run w = (.ok r, w') ∧ w'.st = w.st ∧ w'.dev = advance (P.retryQry + 1) w.dev ∧
      w'.out = w.out ++ [(C06.Cmd.wire ⟨"QL", [i]⟩).toList] := by
  obtain ⟨nr, e⟩ := query_acked P (textChars "QL" [i]) (plain_textChars _ _ (by decide) (by decide)) w hr ha
  obtain ⟨z, hz⟩ := Option.isSome_iff_exists.mp hp
  refine ⟨.int z, ⟨w.st, advance (P.retryQry + 1) w.dev, w.out ++ [textChars "QL" [i] ++ ['\r']], nr⟩, ?_, rfl, rfl,
    by rw [wireOf]⟩
  unfold Prog.run varReadP
  simp only
  rw [guardM_open _ _ _ hr.not_blocked, text_QL, Ebb3.bind_ok e]
  have herr : w.st.err.isSome = false := by rw [hr.2]; rfl
  simp only [bind_apply, getSt_apply, herr, Bool.false_eq_true, ↓reduceIte, intOfVal, hz, pure_apply]

/-- `var_read_int32`: four `QL,<index+k>`, when each is acknowledged with an integer payload -/
theorem sends_var_read_int32 (P : Params) (i : Int) (w : World Script) (hr : Ready w)
    (ha : Acked P ((C06.documented ⟨0, 0⟩ (.varReadInt32 i)).map (fun c => Xch.qry (textChars c.name c.args) IntPayload)) w.dev) :
    Sends (run P scriptDev (.var_read_int32 i)) w ((C06.documented ⟨0, 0⟩ (.varReadInt32 i)).map (fun c => c.wire.toList)) := by
  unfold Sends
  rw [run_open P _ (.bool false) rfl w hr]
  simp only [C06.documented, List.map_cons, List.map_nil] at ha ⊢
  obtain ⟨a1, p1, a2, p2, a3, p3, a4, p4, _⟩ := ha
  show ((do
      let a ← (varReadP P scriptDev i).run
      let b ← (varReadP P scriptDev (i + 1)).run
      let c ← (varReadP P scriptDev (i + 2)).run
      let d ← (varReadP P scriptDev (i + 3)).run
      let st ← getSt
      if st.err.isSome then pure Val.none
      else match fromBytes4 a b c d with
        | .ok z => pure (.int z)
        | .error e => M.raise e : M Script Val) w).2.out = _
  obtain ⟨r1, w1, e1, s1, d1, o1⟩ := var_read_step P i w hr a1 p1
  obtain ⟨r2, w2, e2, s2, d2, o2⟩ := var_read_step P (i + 1) w1 (ready_of_st s1 hr) (by rw [d1]; exact a2) (by rw [d1]; exact p2)
  obtain ⟨r3, w3, e3, s3, d3, o3⟩ := var_read_step P (i + 2) w2 (ready_of_st s2 (ready_of_st s1 hr)) (by rw [d2, d1]; exact a3)
    (by rw [d2, d1]; exact p3)
  obtain ⟨r4, w4, e4, s4, d4, o4⟩ := var_read_step P (i + 3) w3 (ready_of_st s3 (ready_of_st s2 (ready_of_st s1 hr)))
    (by rw [d3, d2, d1]; exact a4) (by rw [d3, d2, d1]; exact p4)
  rw [Ebb3.bind_ok e1, Ebb3.bind_ok e2, Ebb3.bind_ok e3, Ebb3.bind_ok e4]
  have hq : Quiet (do
      let st ← getSt
      if st.err.isSome then pure Val.none
      else match fromBytes4 r1 r2 r3 r4 with
        | .ok z => pure (.int z)
        | .error e => M.raise e : M Script Val) := by
    refine Quiet.bind Quiet.getSt fun st => Quiet.ite (Quiet.pure _) ?_
    split <;> first | exact Quiet.pure _ | exact Quiet.raise _
  rw [hq w4, o4, o3, o2, o1]
  simp

/-! ### `motors_enable` -/

/-- the payload of the `QE` reply decodes to the motor state `bd` -/
def QEReports (bd : C06.Board) (s : Str) : Prop :=
  ∀ w : World Script, (qeDecode (splitOn ',' s) : M Script Val) w = (.ok (.pair (.int bd.res1) (.int bd.res2)), w)

/-- the exchange of a documented command line (`QE` is the query whose payload must report the board state) -/
def xchOf (bd : C06.Board) (c : C06.Cmd) : Xch :=
  if c.name = "QE" then .qry (textChars c.name c.args) (QEReports bd) else .cmd (textChars c.name c.args)

theorem oldRes_scale (bd : C06.Board) : oldRes bd.res1 bd.res2 = C06.scaleInUse bd := by
  unfold oldRes C06.scaleInUse
  split
  · rfl
  · split <;> omega

theorem clampRes_doc (r : Int) : Ebb3.clampRes r = C06.clampDoc r := C06.clampRes_eq r

theorem sends_congr {α : Type} {m m' : M Script α} {w : World Script} {l : List Str} (h : m w = m' w) (hs : Sends m' w l) :
    Sends m w l := by
  unfold Sends at *; rw [h]; exact hs

/-- an acknowledged command followed by more -/
theorem sends_cmd_then {β : Type} (P : Params) (n : String) (l : List Int) (hsp : n.toList.all (fun c => !Ebb3.isSpace c) = true)
    (hne : n.toList ≠ []) (w : World Script) (hr : Ready w) (ha : Answered (P.retryCmd + 1) (textChars n l) w.dev)
    (rest : M Script β) (ls : List Str)
    (hrest : ∀ w', w'.st = w.st → w'.dev = advance (P.retryCmd + 1) w.dev → Sends rest w' ls) :
    Sends (cmd_ P scriptDev (textChars n l) >>= fun _ => rest) w ((C06.Cmd.wire ⟨n, l⟩).toList :: ls) := by
  obtain ⟨w1, e1, s1, d1, o1⟩ := cmd_step P _ (plain_textChars n l hsp hne) w hr ha
  have h := hrest w1 s1 d1
  unfold Sends at *
  rw [Ebb3.bind_ok e1, h, o1, wireOf]
  simp

/-- `motors_enable`: `CU,50,0` when exactly one motor is enabled; when only motor 2 is, `QE` and — unless the scale is
already in use — `EM,<c2>,<c2>`; finally `EM,<c1>,<c2>`; when each request is acknowledged and `QE` reports `bd` -/
theorem sends_motors_enable (P : Params) (bd : C06.Board) (r1 r2 : Int) (w : World Script) (hr : Ready w)
    (ha : Acked P ((C06.documented bd (.enable r1 r2)).map (xchOf bd)) w.dev) :
    Sends (run P scriptDev (.motors_enable r1 r2)) w ((C06.documented bd (.enable r1 r2)).map (fun c => c.wire.toList)) := by
  refine sends_congr (run_open P _ .none rfl w hr) ?_
  show Sends (motorsEnableCore P scriptDev (Ebb3.clampRes r1) (Ebb3.clampRes r2)) w _
  rw [clampRes_doc, clampRes_doc]
  simp only [C06.documented] at ha ⊢
  generalize C06.clampDoc r1 = a at *
  generalize C06.clampDoc r2 = b at *
  unfold motorsEnableCore
  have hEM : ∀ (x y : Int) (w' : World Script), Ready w' → Answered (P.retryCmd + 1) (textChars "EM" [x, y]) w'.dev →
      Sends (do cmd_ P scriptDev (emText x y); pure Val.none : M Script Val) w' [(C06.Cmd.wire ⟨"EM", [x, y]⟩).toList] := by
    intro x y w' hr' ha'
    rw [text_EM]
    exact sends_cmd_then P "EM" [x, y] (by decide) (by decide) w' hr' ha' (pure Val.none) []
      (fun w'' _ _ => Sends.of_quiet (Quiet.pure _) w'')
  by_cases h0 : a = 0 ∧ b ≠ 0
  · -- only motor 2
    have cB := h0
    obtain ⟨ha0, hb0⟩ := h0
    have c1 : a ≠ b ∧ a * b = 0 := ⟨fun h => hb0 (by rw [← h, ha0]), by rw [ha0]; simp⟩
    have cA : (a = 0 ∧ b ≠ 0) ∨ (a ≠ 0 ∧ b = 0) := Or.inl cB
    simp only [if_pos cA, if_pos cB, if_pos c1, List.cons_append, List.nil_append, List.map_cons, List.map_append, List.map_nil] at ha ⊢
    have xCU : xchOf bd ⟨"CU", [50, 0]⟩ = .cmd (textChars "CU" [50, 0]) := by simp [xchOf]
    have xQE : xchOf bd ⟨"QE", []⟩ = .qry (textChars "QE" []) (QEReports bd) := by simp [xchOf]
    rw [xCU, xQE] at ha
    obtain ⟨aCU, ha⟩ := ha
    rw [text_CU]
    refine sends_cmd_then P "CU" [50, 0] (by decide) (by decide) w hr aCU _ _ ?_
    intro w1 s1 d1
    rw [← d1] at ha
    obtain ⟨aQE, gQE, ha⟩ := ha
    have hr1 := ready_of_st s1 hr
    obtain ⟨nr, eq⟩ := query_acked P (textChars "QE" []) (plain_textChars _ _ (by decide) (by decide)) w1 hr1 aQE
    -- the query inside `motors_query_enabled`
    have hmq : (motorsQueryEnabledP P scriptDev).run w1 =
        (.ok (.pair (.int bd.res1) (.int bd.res2)),
          ⟨w1.st, advance (P.retryQry + 1) w1.dev, w1.out ++ [textChars "QE" [] ++ ['\r']], nr⟩) := by
      unfold Prog.run motorsQueryEnabledP
      simp only
      rw [guardM_open _ _ _ hr1.not_blocked, text0 "QE", Ebb3.bind_ok eq]
      exact gQE _
    have hr2 : Ready (⟨w1.st, advance (P.retryQry + 1) w1.dev, w1.out ++ [textChars "QE" [] ++ ['\r']], nr⟩ : World Script) := hr1
    by_cases hs : C06.scaleInUse bd = b
    · have hs' : ¬ (oldRes bd.res1 bd.res2 ≠ b) := by rw [oldRes_scale]; exact fun h => h hs
      simp only [if_pos hs, List.map_nil, List.nil_append] at ha ⊢
      have xEM : xchOf bd ⟨"EM", [a, b]⟩ = .cmd (textChars "EM" [a, b]) := by simp [xchOf]
      rw [xEM] at ha
      have h3 := hEM a b _ hr2 ha.1
      unfold Sends at h3 ⊢
      rw [Ebb3.bind_ok hmq]
      simp only [if_neg hs']
      simp only [bind_apply, pure_apply] at h3 ⊢
      rw [h3, wireOf]
      simp
    · have hs' : oldRes bd.res1 bd.res2 ≠ b := by rw [oldRes_scale]; exact hs
      simp only [if_neg hs, List.map_cons, List.map_nil, List.cons_append, List.nil_append] at ha ⊢
      have xEM1 : xchOf bd ⟨"EM", [b, b]⟩ = .cmd (textChars "EM" [b, b]) := by simp [xchOf]
      have xEM2 : xchOf bd ⟨"EM", [a, b]⟩ = .cmd (textChars "EM" [a, b]) := by simp [xchOf]
      rw [xEM1, xEM2] at ha
      obtain ⟨a1, a2, _⟩ := ha
      have h3 := sends_cmd_then P "EM" [b, b] (by decide) (by decide) _ hr2 a1
        (do cmd_ P scriptDev (emText a b); pure Val.none : M Script Val) [(C06.Cmd.wire ⟨"EM", [a, b]⟩).toList]
        (fun w3 s3 d3 => hEM a b w3 (ready_of_st s3 hr2) (by rw [d3]; exact a2))
      unfold Sends at h3 ⊢
      rw [Ebb3.bind_ok hmq]
      simp only [if_pos hs', text_EM b b]
      rw [h3, wireOf]
      simp
  · -- both, none, or only motor 1
    have cB : ¬ (a = 0 ∧ b ≠ 0) := h0
    by_cases h1 : a ≠ 0 ∧ b = 0
    · have cA : (a = 0 ∧ b ≠ 0) ∨ (a ≠ 0 ∧ b = 0) := Or.inr h1
      have c1 : a ≠ b ∧ a * b = 0 := ⟨fun h => h1.1 (by rw [h, h1.2]), by rw [h1.2]; simp⟩
      simp only [if_pos cA, if_neg cB, if_pos c1, List.cons_append, List.nil_append, List.map_cons, List.map_nil, List.append_nil] at ha ⊢
      have xCU : xchOf bd ⟨"CU", [50, 0]⟩ = .cmd (textChars "CU" [50, 0]) := by simp [xchOf]
      have xEM : xchOf bd ⟨"EM", [a, b]⟩ = .cmd (textChars "EM" [a, b]) := by simp [xchOf]
      rw [xCU, xEM] at ha
      obtain ⟨aCU, aEM, _⟩ := ha
      rw [text_CU]
      exact sends_cmd_then P "CU" [50, 0] (by decide) (by decide) w hr aCU _ _
        (fun w1 s1 d1 => hEM a b w1 (ready_of_st s1 hr) (by rw [d1]; exact aEM))
    · have c1 : ¬ (a ≠ b ∧ a * b = 0) := by
        rintro ⟨hne, hm⟩
        rcases Int.mul_eq_zero.mp hm with h | h
        · exact h0 ⟨h, fun hb => hne (by rw [h, hb])⟩
        · exact h1 ⟨fun ha' => hne (by rw [h, ha']), h⟩
      have cA : ¬ ((a = 0 ∧ b ≠ 0) ∨ (a ≠ 0 ∧ b = 0)) := by
        rintro (h | h)
        · exact h0 h
        · exact h1 h
      simp only [if_neg cA, if_neg cB, if_neg c1, List.nil_append, List.map_cons, List.map_nil, List.append_nil] at ha ⊢
      have xEM : xchOf bd ⟨"EM", [a, b]⟩ = .cmd (textChars "EM" [a, b]) := by simp [xchOf]
      rw [xEM] at ha
      have h3 := hEM a b w hr ha.1
      unfold Sends at h3 ⊢
      simp only [bind_apply, pure_apply] at h3 ⊢
      exact h3

end C06Gen
end Plotink
